(* Lattice/RotToricValidAll.v — validate (rottoric_code rows cols) = VOk for ALL even rows, cols >= 2.
   Uses the generic dense/sparse layer (Part A) of Lattice/RotPlanarValidAll.v.  Sites are compared after
   RotatedToricPauli._mod_index (generated rottoric_mod_index); successors modulo the period are expressed with
   the relation rt_succ so that every arithmetic side condition is linear. *)
From Coq Require Import ZArith Znumtheory List Bool Lia ZifyBool.
From QV Require Import Core.Bits Core.Pauli Core.Symp Core.Code Generated.LatticeArith
  Lattice.RotPlanar Lattice.RotToric Lattice.RotPlanarAll Lattice.RotPlanarValidAll.
Import ListNotations.
Open Scope Z_scope.
Ltac Zify.zify_post_hook ::= Z.to_euclidean_division_equations.

Notation ridx := (Z * Z)%type.

(* b is the successor of a modulo m, both representatives in [0, m) *)
Definition rt_succ (m a b : Z) : Prop := (a + 1 = m /\ b = 0) \/ (a + 1 < m /\ b = a + 1).
Lemma rt_succ_mod m x : 0 < m -> rt_succ m (x mod m) ((x + 1) mod m).
Proof.
  intros Hm. pose proof (Z.mod_pos_bound x m Hm) as Hb. unfold rt_succ.
  destruct (Z.eq_dec (x mod m + 1) m) as [E|E].
  - left. split; [exact E|]. rewrite <- Zplus_mod_idemp_l, E. apply Z_mod_same_full.
  - right. split; [lia|]. rewrite <- Zplus_mod_idemp_l. apply Z.mod_small. lia.
Qed.
Lemma rt_parity_mod m x : 0 < m -> m mod 2 = 0 -> (x mod m) mod 2 = x mod 2.
Proof. intros Hm He. symmetry. apply Zmod_div_mod; try lia. apply Z.mod_divide; lia. Qed.

(* the number of coincidences between {u0, u1} and {v0, v1} (consecutive residues modulo an even m)
   is odd only if u0 and v0 have different parity *)
Lemma rt_overlap_parity m u0 u1 v0 v1 : m mod 2 = 0 -> 0 <= u0 < m -> 0 <= v0 < m ->
  rt_succ m u0 u1 -> rt_succ m v0 v1 ->
  (Z.b2z (u0 =? v0) + Z.b2z (u0 =? v1) + Z.b2z (u1 =? v0) + Z.b2z (u1 =? v1)) mod 2 = 1 ->
  (u0 - v0) mod 2 = 1.
Proof. unfold rt_succ. intros Hm Hu Hv Su Sv H. lia. Qed.

Lemma rc_zrange_cons lo m : rc_zrange lo (S m) = lo :: rc_zrange (lo + 1) m.
Proof.
  unfold rc_zrange. cbn [seq map]. f_equal; [lia|]. rewrite <- seq_shift, map_map. apply map_ext. intros i. lia.
Qed.
Lemma rc_pairs_const k A B : (forall a, In a A -> rc_cnt a B = k) -> rc_pairs A B = k * Z.of_nat (length A).
Proof.
  induction A as [|a A IH]; intros H; [cbn; lia|].
  rewrite rc_pairs_cons, H, IH by (cbn; auto; intros; apply H; cbn; auto). cbn [length]. lia.
Qed.

Section RotToricValid.
Variables rows cols : Z.
Hypothesis Hr : 2 <= rows.
Hypothesis Er : rows mod 2 = 0.
Hypothesis Hc : 2 <= cols.
Hypothesis Ec : cols mod 2 = 0.

Notation TN := (rt_n rows cols).
Definition rt_m2 (i : ridx) : ridx := rottoric_mod_index rows cols i.
Lemma rt_m2_unfold x y : rt_m2 (x, y) = (x mod cols, y mod rows).
Proof. unfold rt_m2. cbn. now replace (cols - 1 + 1) with cols by lia; replace (rows - 1 + 1) with rows by lia. Qed.
Lemma rt_m2_in_bounds i : rottoric_is_in_bounds rows cols (rt_m2 i) = true.
Proof. apply rt_mod_index_in_bounds; lia. Qed.
Definition rt_f (i : ridx) : nat := Z.to_nat (rottoric_flatten rows cols i).
Lemma rt_flat_f i : rt_flat rows cols i = rt_f (rt_m2 i).
Proof. reflexivity. Qed.
Lemma rt_f_inj a b : rottoric_is_in_bounds rows cols a = true -> rottoric_is_in_bounds rows cols b = true ->
  rt_f a = rt_f b -> a = b.
Proof.
  intros Ha Hb E. apply (rt_flatten_injective rows cols); auto.
  pose proof (rt_flatten_range rows cols a Ha). pose proof (rt_flatten_range rows cols b Hb). unfold rt_f in E. lia.
Qed.

Definition rt_sop (op : pl) (L : list ridx) : bsf := rc_to_bsf (rt_sites rows cols op L (rt_identity rows cols)).
Lemma rt_sop_gop op L : rt_sop op L = rc_gop TN op (map (rt_flat rows cols) L).
Proof. unfold rt_sop, rc_gop, rt_identity. now rewrite rt_sites_flips. Qed.
Lemma rt_keys_klt L : rc_klt TN (map (rt_flat rows cols) L).
Proof.
  intros k Hk. apply in_map_iff in Hk. destruct Hk as (i & <- & _). rewrite rt_flat_f.
  pose proof (rt_flatten_range rows cols (rt_m2 i) (rt_m2_in_bounds i)) as H. unfold rt_f, rt_n.
  destruct (rottoric_n_k_d rows cols) as [[n k] d]. cbn [fst] in H. lia.
Qed.
Theorem rt_bsp_sop opA A opB B :
  bsp (rt_sop opA A) (rt_sop opB B) =
  let P := Z.odd (rc_pairs (map rt_m2 A) (map rt_m2 B)) in
  xorb (zbit opA && xbit opB && P) (xbit opA && zbit opB && P).
Proof.
  rewrite !rt_sop_gop, rc_bsp_gop by apply rt_keys_klt.
  replace (map (rt_flat rows cols) A) with (map rt_f (map rt_m2 A)) by (rewrite map_map; reflexivity).
  replace (map (rt_flat rows cols) B) with (map rt_f (map rt_m2 B)) by (rewrite map_map; reflexivity).
  rewrite rc_ovk_pairs; [reflexivity|].
  intros a b Ha Hb. apply in_map_iff in Ha, Hb. destruct Ha as (a' & <- & _), Hb as (b' & <- & _).
  apply rt_f_inj; apply rt_m2_in_bounds.
Qed.
Lemma rt_bsp_sop_sym opA A opB B : bsp (rt_sop opA A) (rt_sop opB B) = bsp (rt_sop opB B) (rt_sop opA A).
Proof. rewrite !rt_sop_gop. apply rc_bsp_gop_sym. Qed.

(* ---- counting on the normalised corners ---- *)
Lemma rt_corners_m2 x y : map rt_m2 (rt_corners (x, y)) =
  [(x mod cols, y mod rows); (x mod cols, (y + 1) mod rows);
   ((x + 1) mod cols, (y + 1) mod rows); ((x + 1) mod cols, y mod rows)].
Proof. cbn [rt_corners map]. now rewrite !rt_m2_unfold. Qed.
Lemma rt_cnt_box s u0 u1 w0 w1 : rc_cnt s [(u0, w0); (u0, w1); (u1, w1); (u1, w0)] =
  (Z.b2z (fst s =? u0) + Z.b2z (fst s =? u1)) * (Z.b2z (snd s =? w0) + Z.b2z (snd s =? w1)).
Proof.
  destruct s as [a b]. unfold rc_cnt, rc_idx_eqb. cbn [fold_right fst snd].
  destruct (a =? u0), (a =? u1), (b =? w0), (b =? w1); reflexivity.
Qed.
Lemma rt_pairs_box u0 u1 w0 w1 v0 v1 z0 z1 :
  rc_pairs [(u0, w0); (u0, w1); (u1, w1); (u1, w0)] [(v0, z0); (v0, z1); (v1, z1); (v1, z0)] =
  (Z.b2z (u0 =? v0) + Z.b2z (u0 =? v1) + Z.b2z (u1 =? v0) + Z.b2z (u1 =? v1)) *
  (Z.b2z (w0 =? z0) + Z.b2z (w0 =? z1) + Z.b2z (w1 =? z0) + Z.b2z (w1 =? z1)).
Proof. unfold rc_pairs. cbn [fold_right]. rewrite !rt_cnt_box. cbn [fst snd]. ring. Qed.

Lemma rt_type_mod x y : (x - y) mod 2 = (x mod cols - y mod rows) mod 2.
Proof.
  rewrite Zminus_mod, <- (rt_parity_mod cols x), <- (rt_parity_mod rows y), <- Zminus_mod by lia. reflexivity.
Qed.

Lemma rt_plaq_overlap_even p q : rottoric_is_x_plaquette p = true -> rottoric_is_x_plaquette q = false ->
  Z.odd (rc_pairs (map rt_m2 (rt_corners p)) (map rt_m2 (rt_corners q))) = false.
Proof.
  destruct p as [x y], q as [x' y']. unfold rottoric_is_x_plaquette. intros Tp Tq.
  apply Z.eqb_eq in Tp. apply Z.eqb_neq in Tq. rewrite rt_type_mod in Tp, Tq.
  rewrite !rt_corners_m2, rt_pairs_box, Z.odd_mul.
  pose proof (Z.mod_pos_bound x cols ltac:(lia)) as Bx. pose proof (Z.mod_pos_bound x' cols ltac:(lia)) as Bx'.
  pose proof (Z.mod_pos_bound y rows ltac:(lia)) as By. pose proof (Z.mod_pos_bound y' rows ltac:(lia)) as By'.
  pose proof (rt_succ_mod cols x ltac:(lia)) as Sx. pose proof (rt_succ_mod cols x' ltac:(lia)) as Sx'.
  pose proof (rt_succ_mod rows y ltac:(lia)) as Sy. pose proof (rt_succ_mod rows y' ltac:(lia)) as Sy'.
  revert Tp Tq Bx Bx' By By' Sx Sx' Sy Sy'.
  generalize (x mod cols) ((x + 1) mod cols) (x' mod cols) ((x' + 1) mod cols).
  generalize (y mod rows) ((y + 1) mod rows) (y' mod rows) ((y' + 1) mod rows).
  intros w0 w1 z0 z1 u0 u1 v0 v1 Tp Tq Bx Bx' By By' Sx Sx' Sy Sy'.
  destruct (Z.odd (Z.b2z (u0 =? v0) + _ + _ + _)) eqn:Ox; [|reflexivity].
  destruct (Z.odd (Z.b2z (w0 =? z0) + _ + _ + _)) eqn:Oy; [|reflexivity].
  exfalso.
  assert (Ox' : (Z.b2z (u0 =? v0) + Z.b2z (u0 =? v1) + Z.b2z (u1 =? v0) + Z.b2z (u1 =? v1)) mod 2 = 1)
    by (rewrite Zmod_odd, Ox; reflexivity).
  assert (Oy' : (Z.b2z (w0 =? z0) + Z.b2z (w0 =? z1) + Z.b2z (w1 =? z0) + Z.b2z (w1 =? z1)) mod 2 = 1)
    by (rewrite Zmod_odd, Oy; reflexivity).
  pose proof (rt_overlap_parity cols u0 u1 v0 v1 Ec Bx Bx' Sx Sx' Ox') as Px.
  pose proof (rt_overlap_parity rows w0 w1 z0 z1 Er By By' Sy Sy' Oy') as Py.
  clear - Tp Tq Px Py. lia.
Qed.

(* ---- the logical operators' site lists: column x = 0 and row y = 0 ---- *)
Definition rt_col : list ridx := map (fun y => (0, y)) (rc_zrange 0 (Z.to_nat rows)).
Definition rt_row : list ridx := map (fun x => (x, 0)) (rc_zrange 0 (Z.to_nat cols)).
Lemma rt_column0_eq : rt_column0 rows cols = rt_col.
Proof.
  unfold rt_column0, rt_col, rc_range. cbn [rottoric_bounds]. now replace (Z.to_nat (rows - 1 + 1 - 0)) with (Z.to_nat rows) by lia.
Qed.
Lemma rt_row0_eq : rt_row0 rows cols = rt_row.
Proof.
  unfold rt_row0, rt_row, rc_range. cbn [rottoric_bounds]. now replace (Z.to_nat (cols - 1 + 1 - 0)) with (Z.to_nat cols) by lia.
Qed.
Lemma rt_col_m2 : map rt_m2 rt_col = rt_col.
Proof.
  unfold rt_col. rewrite map_map. apply map_ext_in. intros y Hy. apply rc_zrange_In in Hy.
  unfold rt_m2. apply rt_mod_index_small; lia.
Qed.
Lemma rt_row_m2 : map rt_m2 rt_row = rt_row.
Proof.
  unfold rt_row. rewrite map_map. apply map_ext_in. intros x Hx. apply rc_zrange_In in Hx.
  unfold rt_m2. apply rt_mod_index_small; lia.
Qed.
Lemma rt_cnt_col s : rc_cnt s rt_col = Z.b2z ((fst s =? 0) && (0 <=? snd s) && (snd s <? rows)).
Proof. unfold rt_col. rewrite rc_cnt_vline, Z2Nat.id by lia. reflexivity. Qed.
Lemma rt_cnt_row s : rc_cnt s rt_row = Z.b2z ((snd s =? 0) && (0 <=? fst s) && (fst s <? cols)).
Proof. unfold rt_row. rewrite rc_cnt_hline, Z2Nat.id by lia. reflexivity. Qed.

(* any plaquette meets the column x = 0 (the row y = 0) in 0 or 2 sites *)
Lemma rt_plaq_col_even q : Z.odd (rc_pairs (map rt_m2 (rt_corners q)) rt_col) = false.
Proof.
  destruct q as [x y]. rewrite rt_corners_m2. apply rc_odd_of_mod2_0.
  pose proof (Z.mod_pos_bound x cols ltac:(lia)) as Bx. pose proof (Z.mod_pos_bound y rows ltac:(lia)) as By.
  pose proof (rt_succ_mod cols x ltac:(lia)) as Sx. pose proof (rt_succ_mod rows y ltac:(lia)) as Sy.
  revert Bx By Sx Sy. generalize (x mod cols) ((x + 1) mod cols) (y mod rows) ((y + 1) mod rows).
  intros u0 u1 w0 w1 Bx By Sx Sy. unfold rt_succ in *.
  unfold rc_pairs. cbn [fold_right]. rewrite !rt_cnt_col. cbn [fst snd]. lia.
Qed.
Lemma rt_plaq_row_even q : Z.odd (rc_pairs (map rt_m2 (rt_corners q)) rt_row) = false.
Proof.
  destruct q as [x y]. rewrite rt_corners_m2. apply rc_odd_of_mod2_0.
  pose proof (Z.mod_pos_bound x cols ltac:(lia)) as Bx. pose proof (Z.mod_pos_bound y rows ltac:(lia)) as By.
  pose proof (rt_succ_mod cols x ltac:(lia)) as Sx. pose proof (rt_succ_mod rows y ltac:(lia)) as Sy.
  revert Bx By Sx Sy. generalize (x mod cols) ((x + 1) mod cols) (y mod rows) ((y + 1) mod rows).
  intros u0 u1 w0 w1 Bx By Sx Sy. unfold rt_succ in *.
  unfold rc_pairs. cbn [fold_right]. rewrite !rt_cnt_row. cbn [fst snd]. lia.
Qed.
(* column and row share exactly the origin; a line shares all its (evenly many) sites with itself *)
Lemma rt_col_row_odd : Z.odd (rc_pairs rt_col rt_row) = true.
Proof.
  unfold rt_col at 1. replace (Z.to_nat rows) with (S (Z.to_nat (rows - 1))) by lia.
  rewrite rc_zrange_cons. cbn [map]. rewrite rc_pairs_cons, rc_pairs_zero.
  - rewrite rt_cnt_row. cbn [fst snd]. apply rc_odd_of_mod2_1. lia.
  - intros a Ha. apply in_map_iff in Ha. destruct Ha as (y & <- & Hy). apply rc_zrange_In in Hy.
    rewrite rt_cnt_row. cbn [fst snd]. lia.
Qed.
Lemma rt_row_col_odd : Z.odd (rc_pairs rt_row rt_col) = true.
Proof.
  unfold rt_row at 1. replace (Z.to_nat cols) with (S (Z.to_nat (cols - 1))) by lia.
  rewrite rc_zrange_cons. cbn [map]. rewrite rc_pairs_cons, rc_pairs_zero.
  - rewrite rt_cnt_col. cbn [fst snd]. apply rc_odd_of_mod2_1. lia.
  - intros a Ha. apply in_map_iff in Ha. destruct Ha as (x & <- & Hx). apply rc_zrange_In in Hx.
    rewrite rt_cnt_col. cbn [fst snd]. lia.
Qed.
Lemma rt_col_col_even : Z.odd (rc_pairs rt_col rt_col) = false.
Proof.
  rewrite (rc_pairs_const 1).
  - unfold rt_col. rewrite map_length. unfold rc_zrange. rewrite map_length, seq_length, Z2Nat.id by lia.
    apply rc_odd_of_mod2_0. lia.
  - intros a Ha. unfold rt_col in Ha. apply in_map_iff in Ha. destruct Ha as (y & <- & Hy). apply rc_zrange_In in Hy.
    rewrite rt_cnt_col. cbn [fst snd]. lia.
Qed.
Lemma rt_row_row_even : Z.odd (rc_pairs rt_row rt_row) = false.
Proof.
  rewrite (rc_pairs_const 1).
  - unfold rt_row. rewrite map_length. unfold rc_zrange. rewrite map_length, seq_length, Z2Nat.id by lia.
    apply rc_odd_of_mod2_0. lia.
  - intros a Ha. unfold rt_row in Ha. apply in_map_iff in Ha. destruct Ha as (x & <- & Hx). apply rc_zrange_In in Hx.
    rewrite rt_cnt_row. cbn [fst snd]. lia.
Qed.

(* ---- the code ---- *)
Definition rt_plaq_op (q : ridx) : pl := if rottoric_is_z_plaquette q then pZ else pX.
Definition rt_stab (q : ridx) : bsf := rt_sop (rt_plaq_op q) (rt_corners q).
Definition rt_x1 : bsf := rt_sop pX rt_col.
Definition rt_x2 : bsf := rt_sop pX rt_row.
Definition rt_z1 : bsf := rt_sop pZ rt_row.
Definition rt_z2 : bsf := rt_sop pZ rt_col.
Lemma rt_code_eq : rottoric_code rows cols =
  mkCode (map rt_stab (rt_plaquette_indices rows cols)) [rt_x1; rt_x2] [rt_z1; rt_z2].
Proof.
  unfold rottoric_code, rt_logical_xs, rt_logical_zs, rt_logical_x1, rt_logical_x2, rt_logical_z1, rt_logical_z2.
  rewrite rt_column0_eq, rt_row0_eq. reflexivity.
Qed.

(* for ANY two plaquette indices (also outside the lattice window: indices are taken modulo the lattice) *)
Theorem rottoric_stabilizers_commute_all p q : bsp (rt_stab p) (rt_stab q) = false.
Proof.
  unfold rt_stab, rt_plaq_op, rottoric_is_z_plaquette.
  destruct (rottoric_is_x_plaquette p) eqn:Tp, (rottoric_is_x_plaquette q) eqn:Tq; cbn [negb].
  - rewrite rt_bsp_sop. reflexivity.
  - rewrite rt_bsp_sop. cbv zeta. cbn [xbit zbit andb]. now rewrite rt_plaq_overlap_even.
  - rewrite rt_bsp_sop_sym, rt_bsp_sop. cbv zeta. cbn [xbit zbit andb]. now rewrite rt_plaq_overlap_even.
  - rewrite rt_bsp_sop. reflexivity.
Qed.
Theorem rottoric_stabilizer_logicals_all p :
  bsp (rt_stab p) rt_x1 = false /\ bsp (rt_stab p) rt_x2 = false /\
  bsp (rt_stab p) rt_z1 = false /\ bsp (rt_stab p) rt_z2 = false.
Proof.
  unfold rt_stab, rt_x1, rt_x2, rt_z1, rt_z2. rewrite !rt_bsp_sop. cbv zeta.
  rewrite rt_col_m2, rt_row_m2, rt_plaq_col_even, rt_plaq_row_even.
  destruct (rt_plaq_op p); cbn; auto.
Qed.
Theorem rottoric_logicals_canonical_all : canonical [rt_x1; rt_x2] [rt_z1; rt_z2].
Proof.
  assert (Hxx : forall A B, bsp (rt_sop pX A) (rt_sop pX B) = false) by (intros; rewrite rt_bsp_sop; reflexivity).
  assert (Hzz : forall A B, bsp (rt_sop pZ A) (rt_sop pZ B) = false) by (intros; rewrite rt_bsp_sop; reflexivity).
  assert (Hxz : forall A B, bsp (rt_sop pX A) (rt_sop pZ B) = Z.odd (rc_pairs (map rt_m2 A) (map rt_m2 B))).
  { intros. rewrite rt_bsp_sop. cbv zeta. cbn [xbit zbit andb]. now destruct (Z.odd _). }
  assert (Hzx : forall A B, bsp (rt_sop pZ A) (rt_sop pX B) = Z.odd (rc_pairs (map rt_m2 A) (map rt_m2 B))).
  { intros. rewrite rt_bsp_sop. cbv zeta. cbn [xbit zbit andb]. now destruct (Z.odd _). }
  intros i j Hi Hj. cbn [length] in Hi, Hj.
  assert (Ci : i = 0%nat \/ i = 1%nat) by lia. assert (Cj : j = 0%nat \/ j = 1%nat) by lia.
  unfold rt_x1, rt_x2, rt_z1, rt_z2.
  destruct Ci as [-> | ->], Cj as [-> | ->]; cbn [nth Nat.eqb];
    rewrite ?Hxx, ?Hzz, ?Hxz, ?Hzx, ?rt_col_m2, ?rt_row_m2,
            ?rt_col_row_odd, ?rt_row_col_odd, ?rt_col_col_even, ?rt_row_row_even; auto.
Qed.

Theorem rottoric_valid_all_sec : validate (rottoric_code rows cols) = VOk.
Proof.
  apply validate_iff_canonical; [reflexivity|]. rewrite rt_code_eq. cbn [stabs lxs lzs logicals]. split; [|split].
  - intros s s' Hs Hs'. apply in_map_iff in Hs, Hs'. destruct Hs as (p & <- & Hp), Hs' as (q & <- & Hq).
    apply rottoric_stabilizers_commute_all.
  - intros s l Hs Hl. apply in_map_iff in Hs. destruct Hs as (p & <- & Hp).
    destruct (rottoric_stabilizer_logicals_all p) as (H1 & H2 & H3 & H4).
    cbn in Hl. destruct Hl as [<-|[<-|[<-|[<-|[]]]]]; assumption.
  - apply rottoric_logicals_canonical_all.
Qed.
End RotToricValid.

(* C07, all sizes: the rotated toric code of every size accepted by the constructor is a valid stabilizer code *)
Theorem rottoric_valid_all : forall rows cols, 2 <= rows -> rows mod 2 = 0 -> 2 <= cols -> cols mod 2 = 0 ->
  validate (rottoric_code rows cols) = VOk.
Proof. exact rottoric_valid_all_sec. Qed.
Theorem rottoric_valid_all_conditions : forall rows cols, 2 <= rows -> rows mod 2 = 0 -> 2 <= cols -> cols mod 2 = 0 ->
  let c := rottoric_code rows cols in
  (forall s s', In s (stabs c) -> In s' (stabs c) -> bsp s s' = false) /\
  (forall s l, In s (stabs c) -> In l (logicals c) -> bsp s l = false) /\
  canonical (lxs c) (lzs c).
Proof.
  intros rows cols Hr Er Hc Ec c. apply (validate_iff_canonical c); [reflexivity|]. now apply rottoric_valid_all.
Qed.

(* non-vacuity *)
Example rottoric_valid_all_ex : validate (rottoric_code 2 14) = VOk /\ validate (rottoric_code 12 4) = VOk.
Proof. split; apply rottoric_valid_all; reflexivity || lia. Qed.
