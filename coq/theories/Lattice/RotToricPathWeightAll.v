(* Lattice/RotToricPathWeightAll.v — C15 for the rotated toric code, ALL even sizes rows, cols >= 2 and ALL pairs of
   same-type plaquette indices: the weight of RotatedToricPauli.path(a, b) EQUALS max(|x_steps|, |y_steps|) of
   RotatedToricCode.translation(a, b), the decoder's step count ([rottoric_path_weight_all] is
   RotToricPathAll.rottoric_path_weight_statement; the inequality <= was RotToricPathAll.rottoric_path_weight_le_all).

   Method: the loop of rt_path_loop emits one site per iteration; along the coordinate with the larger number of
   steps the emitted coordinates are consecutive integers (increasing for positive steps, decreasing for negative
   steps, where the first iteration does not move), fewer than the period because a translation component is a
   residue; hence the sites are pairwise different modulo the lattice, no flip cancels, and the weight is the
   number of sites, which is max(|x_steps|, |y_steps|) (RotToric.rt_path_indices_defined). *)
From Coq Require Import ZArith Znumtheory List Bool Lia ZifyBool.
From QV Require Import Core.Bits Core.Pauli Core.Symp Core.Code Generated.LatticeArith
  Lattice.RotPlanar Lattice.RotToric Lattice.RotPlanarAll Lattice.RotPlanarValidAll Lattice.RotToricValidAll
  Lattice.RotToricPathAll Lattice.RotPlanarBounded Lattice.RotToricBounded.
Import ListNotations.
Open Scope Z_scope.
Ltac Zify.zify_post_hook ::= Z.to_euclidean_division_equations.

(* consecutive integers c, c + d, c + 2 d, ... *)
Definition rt_walk (c d : Z) (n : nat) : list Z := map (fun i => c + d * Z.of_nat i) (seq 0 n).
Lemma rt_walk_cons c d n : rt_walk c d (S n) = c :: rt_walk (c + d) d n.
Proof.
  unfold rt_walk. cbn [seq map]. f_equal; [lia|]. rewrite <- seq_shift, map_map. apply map_ext. intros i. lia.
Qed.
Lemma rt_mod_eq_small m a b : 0 < m -> a mod m = b mod m -> Z.abs (a - b) < m -> a = b.
Proof.
  intros Hm E Hs. assert (H : (a - b) mod m = 0) by (rewrite Zminus_mod, E, Z.sub_diag; apply Z.mod_0_l; lia).
  apply Z.mod_divide in H; [|lia]. destruct H as [k Hk]. assert (k = 0) by nia. lia.
Qed.
Lemma rt_walk_mod_nodup c d n m : d = 1 \/ d = -1 -> Z.of_nat n <= m -> 0 < m ->
  NoDup (map (fun z => z mod m) (rt_walk c d n)).
Proof.
  intros Hd Hn Hm. unfold rt_walk. rewrite map_map. apply rc_NoDup_map_inj; [|apply seq_NoDup].
  intros i j Hi Hj E. apply in_seq in Hi, Hj. apply rt_mod_eq_small in E; [|lia|]; destruct Hd as [-> | ->]; lia.
Qed.

(* ---------- the coordinates emitted by the loop along the dominant direction ---------- *)
Lemma rt_loop_nil fuel cx cy first : rt_path_loop fuel 0 0 cx cy first [] = Some [].
Proof. destruct fuel; reflexivity. Qed.
Lemma rt_loop_step f xs ys cx cy first L : (xs =? 0) && (ys =? 0) = false ->
  rt_path_loop (S f) xs ys cx cy first [] = Some L ->
  exists L', L = (fst (rt_step first xs cx), fst (rt_step first ys cy)) :: L' /\
    rt_path_loop f (snd (rt_step first xs cx)) (snd (rt_step first ys cy))
                 (fst (rt_step first xs cx)) (fst (rt_step first ys cy)) false [] = Some L'.
Proof.
  intros E HL. cbn [rt_path_loop] in HL. rewrite E in HL.
  destruct (rt_step first xs cx) as [cx' xs'], (rt_step first ys cy) as [cy' ys']. cbn [fst snd].
  rewrite rt_path_loop_acc in HL. destruct (rt_path_loop f xs' ys' cx' cy' false []) as [L'|]; [|discriminate].
  cbn [option_map rev app] in HL. injection HL as <-. exists L'. auto.
Qed.
Lemma rt_loop_stop fuel xs ys cx cy first L : (xs =? 0) && (ys =? 0) = true ->
  rt_path_loop fuel xs ys cx cy first [] = Some L -> L = [].
Proof. intros E HL. destruct fuel; cbn [rt_path_loop] in HL; rewrite E in HL; cbn in HL; congruence. Qed.

Lemma rt_loop_fst_pos : forall fuel xs ys cx cy first L, 0 <= xs -> Z.abs ys <= xs ->
  rt_path_loop fuel xs ys cx cy first [] = Some L -> map fst L = rt_walk (cx + 1) 1 (Z.to_nat xs).
Proof.
  induction fuel as [|f IH]; intros xs ys cx cy first L Hx Hy HL.
  - cbn [rt_path_loop] in HL. destruct ((xs =? 0) && (ys =? 0)) eqn:E; [|discriminate].
    injection HL as <-. replace xs with 0 by lia. reflexivity.
  - destruct ((xs =? 0) && (ys =? 0)) eqn:E.
    + rewrite (rt_loop_stop _ _ _ _ _ _ _ E HL). replace xs with 0 by lia. reflexivity.
    + destruct (rt_loop_step _ _ _ _ _ _ _ E HL) as (L' & -> & HL').
      pose proof (rt_step_abs first ys cy) as Ay.
      assert (Sx : rt_step first xs cx = (cx + 1, xs - 1)) by (unfold rt_step; destruct (Z.ltb_spec 0 xs); [reflexivity|lia]).
      rewrite Sx in *. cbn [fst snd] in *.
      apply IH in HL'; [|lia|lia]. cbn [map fst]. rewrite HL'.
      replace (Z.to_nat xs) with (S (Z.to_nat (xs - 1))) by lia. now rewrite rt_walk_cons.
Qed.
Lemma rt_loop_fst_neg : forall fuel xs ys cx cy first L, xs <= 0 -> Z.abs ys <= - xs ->
  rt_path_loop fuel xs ys cx cy first [] = Some L ->
  map fst L = rt_walk (if first then cx else cx - 1) (-1) (Z.to_nat (- xs)).
Proof.
  induction fuel as [|f IH]; intros xs ys cx cy first L Hx Hy HL.
  - cbn [rt_path_loop] in HL. destruct ((xs =? 0) && (ys =? 0)) eqn:E; [|discriminate].
    injection HL as <-. replace xs with 0 by lia. reflexivity.
  - destruct ((xs =? 0) && (ys =? 0)) eqn:E.
    + rewrite (rt_loop_stop _ _ _ _ _ _ _ E HL). replace xs with 0 by lia. reflexivity.
    + destruct (rt_loop_step _ _ _ _ _ _ _ E HL) as (L' & -> & HL').
      pose proof (rt_step_abs first ys cy) as Ay.
      assert (Sx : rt_step first xs cx = ((if first then cx else cx - 1), xs + 1)).
      { unfold rt_step. destruct (Z.ltb_spec 0 xs); [lia|]. destruct (Z.ltb_spec xs 0); [reflexivity|lia]. }
      rewrite Sx in *. cbn [fst snd] in *.
      apply IH in HL'; [|lia|lia]. cbn [map fst]. rewrite HL'.
      replace (Z.to_nat (- xs)) with (S (Z.to_nat (- (xs + 1)))) by lia. rewrite rt_walk_cons. do 2 f_equal.
Qed.
Lemma rt_loop_snd_pos : forall fuel xs ys cx cy first L, 0 <= ys -> Z.abs xs <= ys ->
  rt_path_loop fuel xs ys cx cy first [] = Some L -> map snd L = rt_walk (cy + 1) 1 (Z.to_nat ys).
Proof.
  induction fuel as [|f IH]; intros xs ys cx cy first L Hy Hx HL.
  - cbn [rt_path_loop] in HL. destruct ((xs =? 0) && (ys =? 0)) eqn:E; [|discriminate].
    injection HL as <-. replace ys with 0 by lia. reflexivity.
  - destruct ((xs =? 0) && (ys =? 0)) eqn:E.
    + rewrite (rt_loop_stop _ _ _ _ _ _ _ E HL). replace ys with 0 by lia. reflexivity.
    + destruct (rt_loop_step _ _ _ _ _ _ _ E HL) as (L' & -> & HL').
      pose proof (rt_step_abs first xs cx) as Ax.
      assert (Sy : rt_step first ys cy = (cy + 1, ys - 1)) by (unfold rt_step; destruct (Z.ltb_spec 0 ys); [reflexivity|lia]).
      rewrite Sy in *. cbn [fst snd] in *.
      apply IH in HL'; [|lia|lia]. cbn [map snd]. rewrite HL'.
      replace (Z.to_nat ys) with (S (Z.to_nat (ys - 1))) by lia. now rewrite rt_walk_cons.
Qed.
Lemma rt_loop_snd_neg : forall fuel xs ys cx cy first L, ys <= 0 -> Z.abs xs <= - ys ->
  rt_path_loop fuel xs ys cx cy first [] = Some L ->
  map snd L = rt_walk (if first then cy else cy - 1) (-1) (Z.to_nat (- ys)).
Proof.
  induction fuel as [|f IH]; intros xs ys cx cy first L Hy Hx HL.
  - cbn [rt_path_loop] in HL. destruct ((xs =? 0) && (ys =? 0)) eqn:E; [|discriminate].
    injection HL as <-. replace ys with 0 by lia. reflexivity.
  - destruct ((xs =? 0) && (ys =? 0)) eqn:E.
    + rewrite (rt_loop_stop _ _ _ _ _ _ _ E HL). replace ys with 0 by lia. reflexivity.
    + destruct (rt_loop_step _ _ _ _ _ _ _ E HL) as (L' & -> & HL').
      pose proof (rt_step_abs first xs cx) as Ax.
      assert (Sy : rt_step first ys cy = ((if first then cy else cy - 1), ys + 1)).
      { unfold rt_step. destruct (Z.ltb_spec 0 ys); [lia|]. destruct (Z.ltb_spec ys 0); [reflexivity|lia]. }
      rewrite Sy in *. cbn [fst snd] in *.
      apply IH in HL'; [|lia|lia]. cbn [map snd]. rewrite HL'.
      replace (Z.to_nat (- ys)) with (S (Z.to_nat (- (ys + 1)))) by lia. rewrite rt_walk_cons. do 2 f_equal.
Qed.

(* a translation component is a residue *)
Lemma rt_translation_lt rows cols a b tx ty : 0 < rows -> 0 < cols ->
  rottoric_translation rows cols a b = Some (tx, ty) -> Z.abs tx < cols /\ Z.abs ty < rows.
Proof.
  destruct a as [ax ay], b as [bx by_]. intros Hr Hc. unfold rottoric_translation, mod2.
  destruct (negb _); [discriminate|]. cbn [fst snd]. intros H. injection H as <- <-.
  pose proof (Z.mod_pos_bound (bx mod cols - ax mod cols) cols Hc).
  pose proof (Z.mod_pos_bound (ax mod cols - bx mod cols) cols Hc).
  pose proof (Z.mod_pos_bound (by_ mod rows - ay mod rows) rows Hr).
  pose proof (Z.mod_pos_bound (ay mod rows - by_ mod rows) rows Hr).
  split; destruct (_ <=? _); lia.
Qed.

Section RotToricPathWeight.
Variables rows cols : Z.
Hypothesis Hr : 2 <= rows.
Hypothesis Er : rows mod 2 = 0.
Hypothesis Hc : 2 <= cols.
Hypothesis Ec : cols mod 2 = 0.
Notation fl := (rt_flat rows cols).
Notation N := (rt_n rows cols).

Lemma rt_fl_val x y : Z.of_nat (fl (x, y)) = x mod cols + (y mod rows) * cols.
Proof.
  rewrite (rt_flat_f rows cols), (rt_m2_unfold rows cols). unfold rt_f. cbn [rottoric_flatten rottoric_bounds].
  replace (cols - 1 + 1) with cols by lia.
  pose proof (Z.mod_pos_bound x cols ltac:(lia)) as Bx. pose proof (Z.mod_pos_bound y rows ltac:(lia)) as By.
  apply Z2Nat.id. apply Z.add_nonneg_nonneg; [tauto|]. apply Z.mul_nonneg_nonneg; [tauto|lia].
Qed.
Lemma rt_fl_x s : Z.of_nat (fl s) mod cols = fst s mod cols.
Proof. destruct s as [x y]. rewrite rt_fl_val, Z.mod_add, Z.mod_mod by lia. reflexivity. Qed.
Lemma rt_fl_y s : Z.of_nat (fl s) / cols = snd s mod rows.
Proof.
  destruct s as [x y]. rewrite rt_fl_val, Z.div_add by lia. rewrite Z.div_small by (apply Z.mod_pos_bound; lia). reflexivity.
Qed.
Lemma rt_nodup_by_x L : NoDup (map (fun z => z mod cols) (map fst L)) -> NoDup (map fl L).
Proof.
  intros H. apply (NoDup_map_inv (fun k => Z.of_nat k mod cols)). rewrite !map_map in *.
  erewrite map_ext; [exact H|]. intros s. apply rt_fl_x.
Qed.
Lemma rt_nodup_by_y L : NoDup (map (fun z => z mod rows) (map snd L)) -> NoDup (map fl L).
Proof.
  intros H. apply (NoDup_map_inv (fun k => Z.of_nat k / cols)). rewrite !map_map in *.
  erewrite map_ext; [exact H|]. intros s. apply rt_fl_y.
Qed.

(* one letter laid on sites that are pairwise different modulo the lattice: no flip cancels *)
Lemma rt_sites_weight_mod op idxs : op = pX \/ op = pZ -> NoDup (map fl idxs) ->
  bsf_wt (rc_to_bsf (rt_sites rows cols op idxs (rt_identity rows cols))) = length idxs.
Proof.
  intros Hop Hps. rewrite rt_sites_flips. set (ps := map fl idxs) in *.
  assert (Hlt : forall i, In i ps -> (i < length (zeros N) /\ nth i (zeros N) false = false)%nat).
  { intros i Hi. rewrite zeros_length, rc_nth_zeros. split; auto. now apply (rt_keys_klt rows cols Hr Hc idxs). }
  assert (Hcnt : count_true (rc_flips ps (zeros N)) = length idxs).
  { rewrite rc_flips_count by auto. rewrite rc_count_zeros. unfold ps. now rewrite map_length. }
  assert (Hl : length (rc_flips ps (zeros N)) = N) by (now rewrite rc_flips_length, zeros_length).
  unfold rc_apply_flips, rt_identity, rc_identity, rc_to_bsf. cbn [rc_xs rc_zs].
  destruct Hop as [-> | ->]; cbn [xbit zbit]; [now rewrite rc_wt_x_only|now rewrite rc_wt_z_only].
Qed.

(* the sites of a path are pairwise different modulo the lattice *)
Lemma rt_path_sites_nodup a b L : rt_path_indices rows cols a b = Some L -> NoDup (map fl L).
Proof.
  unfold rt_path_indices. destruct (rc_idx_eqb a b); [intros H; injection H as <-; constructor|].
  destruct (rt_translation rows cols a b) as [[xs ys]|] eqn:Ht; [|discriminate]. intros HL.
  destruct (rt_translation_lt rows cols a b xs ys ltac:(lia) ltac:(lia) Ht) as [Bx By].
  destruct (Z_le_gt_dec (Z.abs ys) (Z.abs xs)) as [Hd|Hd].
  - apply rt_nodup_by_x. destruct (Z_le_gt_dec 0 xs) as [Hs|Hs].
    + rewrite (rt_loop_fst_pos _ xs ys _ _ _ _ Hs ltac:(lia) HL). apply rt_walk_mod_nodup; lia.
    + rewrite (rt_loop_fst_neg _ xs ys _ _ _ _ ltac:(lia) ltac:(lia) HL). apply rt_walk_mod_nodup; lia.
  - apply rt_nodup_by_y. destruct (Z_le_gt_dec 0 ys) as [Hs|Hs].
    + rewrite (rt_loop_snd_pos _ xs ys _ _ _ _ Hs ltac:(lia) HL). apply rt_walk_mod_nodup; lia.
    + rewrite (rt_loop_snd_neg _ xs ys _ _ _ _ ltac:(lia) ltac:(lia) HL). apply rt_walk_mod_nodup; lia.
Qed.

Theorem rottoric_path_weight_sec a b tx ty : rt_translation rows cols a b = Some (tx, ty) ->
  exists p, rt_path rows cols a b (rt_identity rows cols) = Some p /\
            bsf_wt (rc_to_bsf p) = Z.to_nat (Z.max (Z.abs tx) (Z.abs ty)).
Proof.
  intros Ht.
  assert (HL : exists L, rt_path_indices rows cols a b = Some L /\ length L = Z.to_nat (Z.max (Z.abs tx) (Z.abs ty))).
  { destruct (rc_idx_eqb a b) eqn:Eab.
    - exists []. unfold rt_path_indices. rewrite Eab. split; [reflexivity|].
      apply rc_idx_eqb_spec in Eab. subst b.
      assert (E : tx = 0 /\ ty = 0).
      { destruct a as [ax ay]. unfold rt_translation, rottoric_translation, mod2 in Ht.
        rewrite eqb_reflx in Ht. cbn [negb fst snd] in Ht. rewrite !Z.sub_diag, !Z.mod_0_l in Ht by lia.
        cbn in Ht. injection Ht as <- <-. auto. }
      destruct E as [-> ->]. reflexivity.
    - destruct (rt_path_indices_defined rows cols a b tx ty Ht) as (l & Hl & Hn).
      + intros E. subst b. now rewrite rc_idx_eqb_refl in Eab.
      + exists l. split; [exact Hl|exact Hn]. }
  destruct HL as (L & HL & Hlen). unfold rt_path. rewrite HL. eexists. split; [reflexivity|].
  rewrite rt_sites_weight_mod; [exact Hlen| |exact (rt_path_sites_nodup a b L HL)].
  destruct (rottoric_is_z_plaquette a); auto.
Qed.
End RotToricPathWeight.

(* C15, all sizes: the statement left open in RotToricPathAll.v, now a theorem *)
Theorem rottoric_path_weight_all : rottoric_path_weight_statement.
Proof. intros rows cols a b tx ty Hr Er Hc Ec. now apply rottoric_path_weight_sec. Qed.

(* with the syndrome theorem: path(a, b) is defined, anticommutes with exactly a and b, and weighs the step count *)
Theorem rottoric_path_syndrome_weight_all : forall rows cols a b tx ty,
  2 <= rows -> rows mod 2 = 0 -> 2 <= cols -> cols mod 2 = 0 ->
  rt_translation rows cols a b = Some (tx, ty) ->
  exists p, rt_path rows cols a b (rt_identity rows cols) = Some p /\
    syndrome_of (rt_stabilizers rows cols) (rc_to_bsf p) =
      map (fun q => xorb (rc_idx_eqb q (rottoric_mod_index rows cols a)) (rc_idx_eqb q (rottoric_mod_index rows cols b)))
          (rt_plaquette_indices rows cols) /\
    bsf_wt (rc_to_bsf p) = Z.to_nat (Z.max (Z.abs tx) (Z.abs ty)).
Proof.
  intros rows cols a b tx ty Hr Er Hc Ec Ht.
  assert (Tab : rottoric_is_z_plaquette a = rottoric_is_z_plaquette b).
  { apply (rt_translation_defined rows cols). unfold rt_translation in Ht. rewrite Ht. discriminate. }
  destruct (rottoric_path_syndrome_all rows cols a b Hr Er Hc Ec Tab) as (p & Hp & Hs).
  destruct (rottoric_path_weight_all rows cols a b tx ty Hr Er Hc Ec Ht) as (p' & Hp' & Hw).
  rewrite Hp in Hp'. injection Hp' as <-. exists p. auto.
Qed.

(* non-vacuity: a wrapping pair on the 4 x 6 lattice (one diagonal step), and a three-step diagonal on 8 x 6 *)
Example rottoric_path_weight_ex : rt_translation 4 6 (5, 3) (-2, 6) = Some (-1, -1) /\
  exists p, rt_path 4 6 (5, 3) (-2, 6) (rt_identity 4 6) = Some p /\ bsf_wt (rc_to_bsf p) = 1%nat.
Proof. split; [reflexivity|]. apply (rottoric_path_weight_all 4 6 (5, 3) (-2, 6) (-1) (-1)); reflexivity || lia. Qed.
Example rottoric_path_weight_ex2 : rt_translation 8 6 (0, 0) (3, 3) = Some (3, 3) /\
  exists p, rt_path 8 6 (0, 0) (3, 3) (rt_identity 8 6) = Some p /\ bsf_wt (rc_to_bsf p) = 3%nat.
Proof. split; [reflexivity|]. apply (rottoric_path_weight_all 8 6 (0, 0) (3, 3) 3 3); reflexivity || lia. Qed.


(* ------------------------------------------------------------------ *)
(** * The complete path property RotToricBounded.rt_path_ok, every size *)
(* ------------------------------------------------------------------ *)
(* one coordinate of RotatedToricCode.translation *)
Definition rt_tstep (c a b : Z) : Z :=
  let e := (b mod c - a mod c) mod c in let w := (a mod c - b mod c) mod c in if e <=? w then e else - w.
Lemma rt_translation_tstep rows cols ax ay bx by_ :
  rottoric_translation rows cols (ax, ay) (bx, by_) =
  if negb (Bool.eqb (rottoric_is_z_plaquette (ax, ay)) (rottoric_is_z_plaquette (bx, by_))) then None
  else Some (rt_tstep cols ax bx, rt_tstep rows ay by_).
Proof. reflexivity. Qed.
Lemma rt_mod_opp_cases c u : 0 < c ->
  (u mod c = 0 /\ (- u) mod c = 0) \/ (0 < u mod c < c /\ (- u) mod c = c - u mod c).
Proof.
  intros Hc. pose proof (Z.mod_pos_bound u c Hc) as B. destruct (Z.eq_dec (u mod c) 0) as [E|E].
  - left. split; [exact E|]. now apply Z_mod_zero_opp_full.
  - right. split; [lia|]. now apply Z_mod_nz_opp_full.
Qed.
Lemma rt_tstep_props c a b : 0 < c ->
  2 * Z.abs (rt_tstep c a b) <= c /\ Z.abs (rt_tstep c a b) = Z.abs (rt_tstep c b a) /\
  (a mod c = b mod c -> rt_tstep c a b = 0).
Proof.
  intros Hc. unfold rt_tstep. cbv zeta.
  replace (a mod c - b mod c) with (- (b mod c - a mod c)) by lia.
  destruct (rt_mod_opp_cases c (b mod c - a mod c) Hc) as [[E1 E2]|[E1 E2]]; rewrite E2.
  - rewrite E1. cbn. repeat split; lia.
  - remember ((b mod c - a mod c) mod c) as e eqn:He. repeat split.
    + destruct (Z.leb_spec e (c - e)); lia.
    + destruct (Z.leb_spec e (c - e)), (Z.leb_spec (c - e) e); lia.
    + intros E. exfalso. rewrite E, Z.sub_diag, Z.mod_0_l in He by lia. lia.
Qed.

Lemma rt_is_zero_zeros n : is_zero (zeros n) = true.
Proof. unfold is_zero, zeros. induction n; cbn; auto. Qed.
Lemma rt_is_zero_app u v : is_zero (u ++ v) = is_zero u && is_zero v.
Proof. unfold is_zero. apply forallb_app. Qed.

Section RotToricPathOk.
Variables rows cols : Z.
Hypothesis Hr : 2 <= rows.
Hypothesis Er : rows mod 2 = 0.
Hypothesis Hc : 2 <= cols.
Hypothesis Ec : cols mod 2 = 0.
Notation m2 := (rt_m2 rows cols).
Notation ztype := rottoric_is_z_plaquette.

(* coinciding plaquettes (modulo the lattice): empty path *)
Lemma rt_path_indices_same a b : m2 a = m2 b -> rt_path_indices rows cols a b = Some [].
Proof.
  intros E. unfold rt_path_indices. destruct (rc_idx_eqb a b); [reflexivity|].
  assert (T : ztype a = ztype b) by (rewrite <- (rt_z_m2 rows cols Hr Er Hc Ec a), E; apply (rt_z_m2 rows cols Hr Er Hc Ec)).
  destruct a as [ax ay], b as [bx by_]. unfold rt_translation. rewrite rt_translation_tstep, T, eqb_reflx. cbn [negb].
  rewrite !rt_m2_unfold in E. injection E as E1 E2.
  rewrite (proj2 (proj2 (rt_tstep_props cols ax bx ltac:(lia))) E1), (proj2 (proj2 (rt_tstep_props rows ay by_ ltac:(lia))) E2).
  apply rt_loop_nil.
Qed.

Theorem rottoric_paths_all_sec a b :
  rt_path_ok rows cols (rt_plaquette_indices rows cols) (rt_stabilizers rows cols) a b = true.
Proof.
  unfold rt_path_ok. destruct (Bool.eqb (ztype a) (ztype b)) eqn:T.
  - apply eqb_prop in T.
    destruct (rt_translation rows cols a b) as [[tx ty]|] eqn:Ht;
      [|exfalso; apply (rt_translation_defined rows cols a b) in T; unfold rt_translation in Ht; contradiction].
    destruct (rt_translation rows cols b a) as [[ux uy]|] eqn:Hu;
      [|exfalso; symmetry in T; apply (rt_translation_defined rows cols b a) in T; unfold rt_translation in Hu; contradiction].
    destruct (rottoric_path_syndrome_weight_all rows cols a b tx ty Hr Er Hc Ec Ht) as (p & Hp & Hs & Hw).
    rewrite Hp. cbv zeta.
    (* the structure of p *)
    assert (HL : exists L, rt_path_indices rows cols a b = Some L /\
                           p = rt_sites rows cols (if ztype a then pX else pZ) L (rt_identity rows cols)).
    { unfold rt_path in Hp. destruct (rt_path_indices rows cols a b) as [L|]; [|discriminate]. injection Hp as <-. eauto. }
    destruct HL as (L & HL & Ep).
    (* the arithmetic of the two translations *)
    assert (HA : (fst a + tx - fst b) mod cols = 0 /\ (snd a + ty - snd b) mod rows = 0)
      by (apply (rt_translation_target rows cols a b tx ty); auto; lia).
    assert (HB : Z.abs tx = Z.abs ux /\ Z.abs ty = Z.abs uy /\ 2 * Z.abs tx <= cols /\ 2 * Z.abs ty <= rows).
    { destruct a as [ax ay], b as [bx by_]. unfold rt_translation in Ht, Hu. rewrite rt_translation_tstep in Ht, Hu.
      rewrite T, eqb_reflx in Ht, Hu. cbn [negb] in Ht, Hu. injection Ht as <- <-. injection Hu as <- <-.
      destruct (rt_tstep_props cols ax bx ltac:(lia)) as (A1 & A2 & _).
      destruct (rt_tstep_props rows ay by_ ltac:(lia)) as (B1 & B2 & _). auto. }
    destruct HA as [HA1 HA2], HB as (HB1 & HB2 & HB3 & HB4).
    repeat (apply andb_true_iff; split);
      try (apply Z.eqb_eq; assumption); try (apply Z.leb_le; assumption); try (apply Nat.eqb_eq; assumption).
    + (* syndrome *)
      apply beqv_spec. rewrite Hs. apply map_ext. intros q.
      change (rottoric_mod_index rows cols a) with (m2 a). change (rottoric_mod_index rows cols b) with (m2 b).
      destruct (rc_idx_eqb (m2 a) (m2 b)) eqn:Eab.
      * apply rc_idx_eqb_spec in Eab. rewrite Eab. cbn [negb andb]. apply xorb_nilpotent.
      * cbn [negb andb]. destruct (rc_idx_eqb q (m2 a)) eqn:E1, (rc_idx_eqb q (m2 b)) eqn:E2; try reflexivity.
        apply rc_idx_eqb_spec in E1, E2. rewrite <- E1, <- E2, rc_idx_eqb_refl in Eab. discriminate.
    + (* identity when the plaquettes coincide *)
      change (rottoric_mod_index rows cols a) with (m2 a). change (rottoric_mod_index rows cols b) with (m2 b).
      destruct (rc_idx_eqb (m2 a) (m2 b)) eqn:Eab; [|reflexivity]. apply rc_idx_eqb_spec in Eab.
      rewrite (rt_path_indices_same a b Eab) in HL. injection HL as <-. rewrite Ep. cbn [rt_sites fold_left].
      unfold rt_identity, rc_identity, rc_to_bsf. cbn [rc_xs rc_zs]. now rewrite rt_is_zero_app, rt_is_zero_zeros.
    + (* only X letters between Z plaquettes, only Z letters between X plaquettes *)
      rewrite Ep, rt_sites_flips. unfold rc_apply_flips, rt_identity, rc_identity. cbn [rc_xs rc_zs].
      destruct (ztype a); cbn [xbit zbit]; apply rt_is_zero_zeros.
  - assert (Hn : rt_translation rows cols a b = None).
    { destruct (rt_translation rows cols a b) eqn:Ht; [|reflexivity]. exfalso.
      assert (H : rottoric_translation rows cols a b <> None) by (unfold rt_translation in Ht; rewrite Ht; discriminate).
      apply (rt_translation_defined rows cols a b) in H. rewrite H, eqb_reflx in T. discriminate. }
    unfold rt_path, rt_path_indices. rewrite Hn.
    destruct (rc_idx_eqb a b) eqn:Eab; [|reflexivity].
    apply rc_idx_eqb_spec in Eab. subst b. rewrite eqb_reflx in T. discriminate.
Qed.
End RotToricPathOk.

(* C15, all sizes and all pairs of plaquette indices: the statement left open in RotToricBounded.v, now a theorem *)
Theorem rottoric_paths_all : rottoric_paths_statement.
Proof. intros rows cols a b Hr Er Hc Ec. now apply rottoric_paths_all_sec. Qed.

Print Assumptions rottoric_path_weight_all.
Print Assumptions rottoric_path_syndrome_weight_all.
Print Assumptions rottoric_paths_all.
