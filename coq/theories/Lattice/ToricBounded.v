(* Lattice/ToricBounded.v — P<=B theorems about the toric model (Lattice/Toric.v with toric_n_k_d,
   toric_translation and mod3 of Generated/LatticeArith.v), closed by vm_compute with the bound in the statement.
     sizes: all (rows, cols) with 2 <= rows, cols <= 8 (validity, shapes, index bijection),
            all (rows, cols) with 2 <= rows, cols <= 7 (paths: ALL ordered same-lattice pairs, and each pair
            again with both indices shifted by multiples of the period),
            all (rows, cols) with 2 <= rows, cols <= 6 (GF(2) ranks), <= 5 except 5x5 (true minimum distance). *)
From Coq Require Import ZArith List Bool Lia.
From QV Require Import Core.Bits Core.Pauli Core.Symp Core.Code Core.Span Core.Rank Core.Dist Core.DistCSS
  Generated.LatticeArith Lattice.Planar Lattice.PlanarBounded Lattice.Toric.
Import ListNotations.
Open Scope Z_scope.

(* ---------------- C07: validity ---------------- *)
Theorem toric_valid_upto8 : all_sizes 8 (fun r c => validb (toric_code r c)) = true.
Proof. vm_compute. reflexivity. Qed.

Theorem toric_valid_upto8_spec : forall r c, 2 <= r <= 8 -> 2 <= c <= 8 ->
  let cd := toric_code r c in
  (forall s s', In s (stabs cd) -> In s' (stabs cd) -> bsp s s' = false) /\
  (forall s l, In s (stabs cd) -> In l (logicals cd) -> bsp s l = false) /\
  canonical (lxs cd) (lzs cd).
Proof.
  intros r c Hr Hc cd.
  pose proof (all_sizes_spec _ _ toric_valid_upto8 r c Hr Hc) as H. cbv beta in H.
  apply validb_validate in H. apply validate_iff_canonical in H; [exact H|reflexivity].
Qed.

(* ---------------- C07: shapes.  The published stabilizer list has n - k + 2 rows (one per plaquette;
   two of them are dependent), k = 2 logicals of each kind, every row has 2n entries ---------------- *)
Definition tshapes_ok (r c : Z) : bool :=
  let '(n, k, d) := toric_n_k_d r c in
  let cd := toric_code r c in
  (Z.of_nat (length (stabs cd)) =? n - k + 2) && (Z.of_nat (length (lxs cd)) =? k) && (Z.of_nat (length (lzs cd)) =? k)
  && forallb (fun row => Z.of_nat (length row) =? 2 * n) (stabs cd ++ lxs cd ++ lzs cd)
  && (Z.of_nat (toric_n r c) =? n).
Theorem toric_shapes_upto8 : all_sizes 8 tshapes_ok = true.
Proof. vm_compute. reflexivity. Qed.
Theorem toric_shapes_upto8_spec : forall r c, 2 <= r <= 8 -> 2 <= c <= 8 ->
  let '(n, k, d) := toric_n_k_d r c in
  let cd := toric_code r c in
  Z.of_nat (length (stabs cd)) = n - k + 2 /\ Z.of_nat (length (lxs cd)) = k /\ Z.of_nat (length (lzs cd)) = k /\
  (forall row, In row (stabs cd ++ lxs cd ++ lzs cd) -> Z.of_nat (length row) = 2 * n) /\
  Z.of_nat (toric_n r c) = n.
Proof.
  intros r c Hr Hc. pose proof (all_sizes_spec _ _ toric_shapes_upto8 r c Hr Hc) as H. unfold tshapes_ok in H.
  destruct (toric_n_k_d r c) as [[n k] d].
  apply andb_true_iff in H. destruct H as [H HN].
  apply andb_true_iff in H. destruct H as [H HF].
  apply andb_true_iff in H. destruct H as [H HZ].
  apply andb_true_iff in H. destruct H as [HS HX].
  repeat split; try (now apply Z.eqb_eq).
  intros row Hrow. rewrite forallb_forall in HF. apply Z.eqb_eq. now apply HF.
Qed.
(* the two dependencies: the primal plaquettes multiply to the identity, and so do the dual ones *)
Definition tdependent_ok (r c : Z) : bool :=
  let st := tstabilizers r c in
  let h := Z.to_nat (r * c) in
  is_zero (xsum (2 * toric_n r c) (firstn h st)) && is_zero (xsum (2 * toric_n r c) (skipn h st))
  && (length st =? 2 * h)%nat.
Theorem toric_dependent_rows_upto8 : all_sizes 8 tdependent_ok = true.
Proof. vm_compute. reflexivity. Qed.

(* ---------------- C07: GF(2) ranks: n - k for the stabilizers (2 of the n - k + 2 rows are dependent),
   n + k together with the logicals ---------------- *)
Definition trank_ok (r c : Z) : bool :=
  let cd := toric_code r c in
  let '(n, k, d) := toric_n_k_d r c in
  rank_check (2 * Z.to_nat n) (stabs cd) (Z.to_nat (n - k)) &&
  rank_check (2 * Z.to_nat n) (stabs cd ++ lxs cd ++ lzs cd) (Z.to_nat (n + k)).
Theorem toric_rank_upto6 : all_sizes 6 trank_ok = true.
Proof. vm_compute. reflexivity. Qed.
Theorem toric_rank_upto6_spec : forall r c, 2 <= r <= 6 -> 2 <= c <= 6 ->
  let cd := toric_code r c in
  let '(n, k, d) := toric_n_k_d r c in
  rank_is (2 * Z.to_nat n) (stabs cd) (Z.to_nat (n - k)) /\
  rank_is (2 * Z.to_nat n) (stabs cd ++ lxs cd ++ lzs cd) (Z.to_nat (n + k)).
Proof.
  intros r c Hr Hc. pose proof (all_sizes_spec _ _ toric_rank_upto6 r c Hr Hc) as H. unfold trank_ok in H.
  cbv zeta. destruct (toric_n_k_d r c) as [[n k] d]. apply andb_true_iff in H. destruct H as [H1 H2].
  split; now apply rank_check_sound.
Qed.

(* ---------------- C08: true minimum distance (Core/DistCSS.v) ---------------- *)
Definition tdist_ok (r c : Z) : bool :=
  let cd := toric_code r c in
  let '(n, k, d) := toric_n_k_d r c in
  let i := if r <=? c then 0%nat else 1%nat in
  css_distance_check (Z.to_nat n) (stabs cd) (Z.to_nat d) (nth i (lxs cd) []) (nth i (lzs cd) []).
Theorem toric_distance_upto5 : forallb (fun s => tdist_ok (fst s) (snd s)) dist_sizes = true.
Proof. vm_compute. reflexivity. Qed.
Theorem toric_distance_upto5_spec : forall r c, 2 <= r <= 5 -> 2 <= c <= 5 -> (r, c) <> (5, 5) ->
  let '(n, k, d) := toric_n_k_d r c in
  is_distance (Z.to_nat n) (stabs (toric_code r c)) (Z.to_nat d).
Proof.
  intros r c Hr Hc Hne. pose proof toric_distance_upto5 as H. rewrite forallb_forall in H.
  specialize (H (r, c)). cbn [fst snd] in H. unfold tdist_ok in H. destruct (toric_n_k_d r c) as [[n k] d].
  eapply css_distance_check_sound. apply H. unfold dist_sizes. apply filter_In. split; [now apply sizes_upto_In|].
  destruct (zeqb2 (r, c) (5, 5)) eqn:E; [|reflexivity]. exfalso. apply Hne. unfold zeqb2 in E. cbn [fst snd] in E.
  apply andb_true_iff in E. destruct E as [E1 E2]. apply Z.eqb_eq in E1, E2. now subst.
Qed.

(* ---------------- C07: index -> qubit is a bijection from the in-range indices onto [0, n) ---------------- *)
Definition tflatten_bij_ok (r c : Z) : bool :=
  let ks := map (fun i => tflat r c (mod3 i (tshape r c))) (tindices r c) in
  (length ks =? toric_n r c)%nat &&
  forallb (fun k => (countz (Z.of_nat k) ks =? 1)%nat) (seq 0 (toric_n r c)).
Theorem toric_flatten_bijective_upto8 : all_sizes 8 tflatten_bij_ok = true.
Proof. vm_compute. reflexivity. Qed.
Theorem toric_flatten_bijective_upto8_spec : forall r c, 2 <= r <= 8 -> 2 <= c <= 8 ->
  length (tindices r c) = toric_n r c /\
  forall k, (k < toric_n r c)%nat ->
    countz (Z.of_nat k) (map (fun i => tflat r c (mod3 i (tshape r c))) (tindices r c)) = 1%nat.
Proof.
  intros r c Hr Hc. pose proof (all_sizes_spec _ _ toric_flatten_bijective_upto8 r c Hr Hc) as H.
  unfold tflatten_bij_ok in H. apply andb_true_iff in H. destruct H as [H1 H2].
  split.
  - apply Nat.eqb_eq in H1. now rewrite map_length in H1.
  - intros k Hk. rewrite forallb_forall in H2. apply Nat.eqb_eq. apply H2. apply in_seq. lia.
Qed.

(* ---------------- C15: plaquette supports and all paths ---------------- *)
(* documented support of the plaquette indexed by its northern edge (N, S, W, E), modulo the shape *)
Definition tsupport (r c : Z) (q : tidx) : list tidx :=
  let '(la, qr, qc) := q in
  if la =? 0 then [(0, qr, qc); (0, (qr + 1) mod r, qc); (1, qr, qc); (1, qr, (qc + 1) mod c)]
  else [(1, qr, qc); (1, (qr + 1) mod r, qc); (0, (qr + 1) mod r, (qc - 1) mod c); (0, (qr + 1) mod r, qc)].
Definition tplaq_support_ok (r c : Z) : bool :=
  forallb (fun q => let p := tplaquette r c q (tnew_pauli r c) in
     forallb (fun s => pl_eqb (toperator r c s p)
                         (if existsb (zeqb3 s) (tsupport r c q) then (if fst (fst q) =? 0 then pZ else pX) else pI))
             (tindices r c))
    (tindices r c).
Theorem toric_plaquette_support_upto7 : all_sizes 7 tplaq_support_ok = true.
Proof. vm_compute. reflexivity. Qed.

Definition tindicator (pis : list tidx) (a b : tidx) : bsf := map (fun q => xorb (zeqb3 q a) (zeqb3 q b)) pis.
(* a fixed out-of-range representative of the same plaquette *)
Definition tshift (r c : Z) (k : Z) (a : tidx) : tidx :=
  let '(l, ar, ac) := a in (l + 2 * k, ar - k * r, ac + (k + 1) * c).
Definition tpath_ok (r c : Z) (st : list bsf) (pis : list tidx) (a b : tidx) : bool :=
  match tpath r c a b (tnew_pauli r c), tdistance r c a b, toric_translation r c a b, toric_translation r c b a with
  | Some p, Some d, Some (rs, cs), Some (rs', cs') =>
      let e := p_to_bsf p in
      beqv (syndrome_of st e) (tindicator pis a b)
      && (Z.of_nat (bsf_wt e) =? d)
      && (Z.abs rs =? Z.abs rs') && (Z.abs cs =? Z.abs cs') && (d =? Z.abs rs + Z.abs cs)
      (* leads from a to b modulo the period, and is a shortest way round *)
      && zeqb3 (mod3 (fst (fst a), snd (fst a) + rs, snd a + cs) (tshape r c)) b
      && (2 * Z.abs rs <=? r) && (2 * Z.abs cs <=? c)
      (* indices are taken modulo the shape *)
      && match tpath r c (tshift r c 1 a) (tshift r c (-2) b) (tnew_pauli r c) with
         | Some p' => beqv (p_to_bsf p') e
         | None => false
         end
  | _, _, _, _ => false
  end.
Definition tnodes (r c : Z) (la : Z) : list tidx := filter (fun i => fst (fst i) =? la) (tindices r c).
Definition tall_paths_ok (r c : Z) : bool :=
  let st := tstabilizers r c in
  let pis := tindices r c in
  forallb (fun la => let nd := tnodes r c la in forallb (fun a => forallb (fun b => tpath_ok r c st pis a b) nd) nd)
          [0; 1].
Theorem toric_paths_upto7 : all_sizes 7 tall_paths_ok = true.
Proof. vm_compute. reflexivity. Qed.

Theorem toric_paths_upto7_spec : forall r c, 2 <= r <= 7 -> 2 <= c <= 7 ->
  forall la a b, (la = 0 \/ la = 1) -> In a (tnodes r c la) -> In b (tnodes r c la) ->
  exists p d, tpath r c a b (tnew_pauli r c) = Some p /\ tdistance r c a b = Some d /\
    syndrome_of (stabs (toric_code r c)) (p_to_bsf p) = tindicator (tindices r c) a b /\
    Z.of_nat (bsf_wt (p_to_bsf p)) = d.
Proof.
  intros r c Hr Hc la a b Hla Ha Hb.
  pose proof (all_sizes_spec _ _ toric_paths_upto7 r c Hr Hc) as H. unfold tall_paths_ok in H.
  rewrite forallb_forall in H. specialize (H la ltac:(destruct Hla; subst; cbn; auto)). cbv beta zeta in H.
  rewrite forallb_forall in H. specialize (H a Ha). rewrite forallb_forall in H. specialize (H b Hb).
  unfold tpath_ok in H.
  destruct (tpath r c a b (tnew_pauli r c)) as [p|]; [|discriminate].
  destruct (tdistance r c a b) as [d|]; [|discriminate].
  destruct (toric_translation r c a b) as [[rs cs]|]; [|discriminate].
  destruct (toric_translation r c b a) as [[rs' cs']|]; [|discriminate].
  apply andb_true_iff in H. destruct H as [H _].
  apply andb_true_iff in H. destruct H as [H _].
  apply andb_true_iff in H. destruct H as [H _].
  apply andb_true_iff in H. destruct H as [H _].
  apply andb_true_iff in H. destruct H as [H _].
  apply andb_true_iff in H. destruct H as [H _].
  apply andb_true_iff in H. destruct H as [H _].
  apply andb_true_iff in H. destruct H as [HS HW].
  exists p, d. split; [reflexivity|]. split; [reflexivity|]. split; [now apply beqv_spec|now apply Z.eqb_eq].
Qed.

Theorem tsyndrome_bit_maps_back rows cols i : (i < length (tindices rows cols))%nat ->
  tsyndrome_to_plaquette_indices rows cols (unit (length (tindices rows cols)) i)
  = [nth i (tindices rows cols) (0, 0, 0)].
Proof.
  unfold tsyndrome_to_plaquette_indices. generalize (tindices rows cols) as l.
  intros l. revert i. induction l as [|a l IH]; intros i Hi; cbn in Hi; [lia|].
  destruct i as [|i]; cbn.
  - now rewrite select_zeros.
  - apply IH. lia.
Qed.

Example toric_valid_3x5 : validate (toric_code 3 5) = VOk.
Proof. apply validb_validate. exact (all_sizes_spec _ _ toric_valid_upto8 3 5 ltac:(lia) ltac:(lia)). Qed.
