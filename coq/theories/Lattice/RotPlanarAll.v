(* Lattice/RotPlanarAll.v — all-sizes (P-forall) facts for the rotated planar and rotated toric index maps.
   Everything here is stated about the translator's output (Generated/LatticeArith.v), so a change of the
   Python formulas re-opens these proofs. *)
From Coq Require Import List Bool Arith ZArith Lia.
From QV Require Import Core.Bits Core.Pauli Core.Symp Core.Code Generated.LatticeArith
  Lattice.RotPlanar Lattice.RotToric.
Import ListNotations.
Local Open Scope Z_scope.

(* ---------- generic: x + y * w is a bijection [0,w) x [0,h) -> [0, w*h) ---------- *)
Lemma rc_rowmajor_range w h x y : 0 <= x < w -> 0 <= y < h -> 0 <= x + y * w < h * w.
Proof. intros Hx Hy. nia. Qed.
Lemma rc_rowmajor_inv w x y : 0 <= x < w -> ((x + y * w) mod w, (x + y * w) / w) = (x, y).
Proof.
  intros Hx. rewrite Z.mod_add, Z.div_add by lia. rewrite Z.mod_small, Z.div_small by lia. f_equal; lia.
Qed.
Lemma rc_rowmajor_surj w h k : 0 < w -> 0 <= k < h * w ->
  0 <= k mod w < w /\ 0 <= k / w < h /\ k mod w + k / w * w = k.
Proof.
  intros Hw Hk. pose proof (Z.mod_pos_bound k w Hw). pose proof (Z.div_mod k w ltac:(lia)).
  repeat split; try lia.
  - apply Z.div_pos; lia.
  - apply Z.div_lt_upper_bound; lia.
Qed.

(* ---------- rotated planar ---------- *)
Definition rp_unflatten (cols k : Z) : Z * Z := (k mod cols, k / cols).

Lemma rp_in_site_bounds_iff rows cols x y :
  rotplanar_is_in_site_bounds rows cols (x, y) = true <-> 0 <= x < cols /\ 0 <= y < rows.
Proof.
  unfold rotplanar_is_in_site_bounds, rotplanar_site_bounds. rewrite !andb_true_iff, !Z.leb_le. lia.
Qed.

Theorem rp_flatten_range : forall rows cols idx, rotplanar_is_in_site_bounds rows cols idx = true ->
  0 <= rotplanar_flatten rows cols idx < fst (fst (rotplanar_n_k_d rows cols)).
Proof.
  intros rows cols [x y] H. apply rp_in_site_bounds_iff in H. cbn. apply rc_rowmajor_range; lia.
Qed.
Theorem rp_unflatten_flatten : forall rows cols idx, rotplanar_is_in_site_bounds rows cols idx = true ->
  rp_unflatten cols (rotplanar_flatten rows cols idx) = idx.
Proof.
  intros rows cols [x y] H. apply rp_in_site_bounds_iff in H. unfold rp_unflatten. cbn. apply rc_rowmajor_inv. lia.
Qed.
Theorem rp_flatten_injective : forall rows cols i j,
  rotplanar_is_in_site_bounds rows cols i = true -> rotplanar_is_in_site_bounds rows cols j = true ->
  rotplanar_flatten rows cols i = rotplanar_flatten rows cols j -> i = j.
Proof.
  intros rows cols i j Hi Hj E. rewrite <- (rp_unflatten_flatten rows cols i Hi), <- (rp_unflatten_flatten rows cols j Hj).
  now rewrite E.
Qed.
Theorem rp_flatten_surjective : forall rows cols k, 0 < cols ->
  0 <= k < fst (fst (rotplanar_n_k_d rows cols)) ->
  rotplanar_is_in_site_bounds rows cols (rp_unflatten cols k) = true /\
  rotplanar_flatten rows cols (rp_unflatten cols k) = k.
Proof.
  intros rows cols k Hc Hk. cbn in Hk. destruct (rc_rowmajor_surj cols rows k Hc Hk) as (H1 & H2 & H3).
  unfold rp_unflatten. split; [apply rp_in_site_bounds_iff; lia|exact H3].
Qed.

(* ---------- rotated toric ---------- *)
Definition rt_unflatten (cols k : Z) : Z * Z := (k mod cols, k / cols).
Lemma rt_in_bounds_iff rows cols x y :
  rottoric_is_in_bounds rows cols (x, y) = true <-> 0 <= x < cols /\ 0 <= y < rows.
Proof.
  unfold rottoric_is_in_bounds, rottoric_bounds. rewrite !andb_true_iff, !Z.leb_le. lia.
Qed.
Theorem rt_flatten_range : forall rows cols idx, rottoric_is_in_bounds rows cols idx = true ->
  0 <= rottoric_flatten rows cols idx < fst (fst (rottoric_n_k_d rows cols)).
Proof.
  intros rows cols [x y] H. apply rt_in_bounds_iff in H. cbn. replace (cols - 1 + 1) with cols by lia.
  apply rc_rowmajor_range; lia.
Qed.
Theorem rt_unflatten_flatten : forall rows cols idx, rottoric_is_in_bounds rows cols idx = true ->
  rt_unflatten cols (rottoric_flatten rows cols idx) = idx.
Proof.
  intros rows cols [x y] H. apply rt_in_bounds_iff in H. unfold rt_unflatten. cbn.
  replace (cols - 1 + 1) with cols by lia. apply rc_rowmajor_inv. lia.
Qed.
Theorem rt_flatten_injective : forall rows cols i j,
  rottoric_is_in_bounds rows cols i = true -> rottoric_is_in_bounds rows cols j = true ->
  rottoric_flatten rows cols i = rottoric_flatten rows cols j -> i = j.
Proof.
  intros rows cols i j Hi Hj E. rewrite <- (rt_unflatten_flatten rows cols i Hi), <- (rt_unflatten_flatten rows cols j Hj).
  now rewrite E.
Qed.
Theorem rt_flatten_surjective : forall rows cols k, 0 < cols ->
  0 <= k < fst (fst (rottoric_n_k_d rows cols)) ->
  rottoric_is_in_bounds rows cols (rt_unflatten cols k) = true /\
  rottoric_flatten rows cols (rt_unflatten cols k) = k.
Proof.
  intros rows cols k Hc Hk. cbn in Hk. destruct (rc_rowmajor_surj cols rows k Hc Hk) as (H1 & H2 & H3).
  unfold rt_unflatten. split; [apply rt_in_bounds_iff; lia|]. cbn. replace (cols - 1 + 1) with cols by lia. exact H3.
Qed.
(* _mod_index always lands in bounds, so site()/operator() never index outside the arrays *)
Theorem rt_mod_index_in_bounds : forall rows cols idx, 0 < rows -> 0 < cols ->
  rottoric_is_in_bounds rows cols (rottoric_mod_index rows cols idx) = true.
Proof.
  intros rows cols [x y] Hr Hc. cbn. apply rt_in_bounds_iff.
  replace (cols - 1 + 1) with cols by lia. replace (rows - 1 + 1) with rows by lia.
  pose proof (Z.mod_pos_bound x cols Hc). pose proof (Z.mod_pos_bound y rows Hr). lia.
Qed.
(* translation leads from a to b modulo the period (every size) *)
Lemma rc_mod_shift_pos c a b : 0 < c -> (a + (b mod c - a mod c) mod c - b) mod c = 0.
Proof.
  intros Hc. apply Z.mod_divide; [lia|].
  exists (a / c - (b mod c - a mod c) / c - b / c).
  pose proof (Z.div_mod a c ltac:(lia)). pose proof (Z.div_mod b c ltac:(lia)).
  pose proof (Z.div_mod (b mod c - a mod c) c ltac:(lia)). nia.
Qed.
Lemma rc_mod_shift_neg c a b : 0 < c -> (a + - ((a mod c - b mod c) mod c) - b) mod c = 0.
Proof.
  intros Hc. apply Z.mod_divide; [lia|].
  exists (a / c + (a mod c - b mod c) / c - b / c).
  pose proof (Z.div_mod a c ltac:(lia)). pose proof (Z.div_mod b c ltac:(lia)).
  pose proof (Z.div_mod (a mod c - b mod c) c ltac:(lia)). nia.
Qed.
Theorem rt_translation_target : forall rows cols a b tx ty, 0 < rows -> 0 < cols ->
  rottoric_translation rows cols a b = Some (tx, ty) ->
  (fst a + tx - fst b) mod cols = 0 /\ (snd a + ty - snd b) mod rows = 0.
Proof.
  intros rows cols [ax ay] [bx by_] tx ty Hr Hc. unfold rottoric_translation, mod2.
  destruct (negb _); [discriminate|]. cbn [fst snd].
  intros H. injection H as <- <-.
  split.
  - destruct (_ <=? _); [apply rc_mod_shift_pos|apply rc_mod_shift_neg]; assumption.
  - destruct (_ <=? _); [apply rc_mod_shift_pos|apply rc_mod_shift_neg]; assumption.
Qed.
(* translation is None exactly for plaquettes of different type *)
Theorem rt_translation_defined : forall rows cols a b,
  rottoric_translation rows cols a b <> None <-> rottoric_is_z_plaquette a = rottoric_is_z_plaquette b.
Proof.
  intros rows cols [ax ay] [bx by_]. unfold rottoric_translation, mod2.
  destruct (rottoric_is_z_plaquette (ax, ay)), (rottoric_is_z_plaquette (bx, by_)); cbn; split; intros H;
    try congruence; try discriminate.
Qed.
