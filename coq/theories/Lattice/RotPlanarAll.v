(* Lattice/RotPlanarAll.v — all-sizes (P-forall) facts for the rotated planar and rotated toric index maps.
   Everything here is stated about the translator's output (Generated/LatticeArith.v), so a change of the
   Python formulas re-opens these proofs. *)
From Coq Require Import List Bool Arith ZArith Lia.
From QV Require Import Core.Bits Core.Pauli Core.Symp Core.Code Generated.LatticeArith
  Lattice.RotPlanar Lattice.RotToric.
Import ListNotations.
Local Open Scope Z_scope.

(* ---------- generic: x + y * w is a bijection [0,w) x [0,h) -> [0, w*h) ---------- *)
Lemma rc_rowmajor_range w h x y : 0 <= x < w -> 0 <= y < h -> 0 <= x + y * w < h * w.
Proof. intros Hx Hy. nia. Qed.
Lemma rc_rowmajor_inv w x y : 0 <= x < w -> ((x + y * w) mod w, (x + y * w) / w) = (x, y).
Proof.
  intros Hx. rewrite Z.mod_add, Z.div_add by lia. rewrite Z.mod_small, Z.div_small by lia. f_equal; lia.
Qed.
Lemma rc_rowmajor_surj w h k : 0 < w -> 0 <= k < h * w ->
  0 <= k mod w < w /\ 0 <= k / w < h /\ k mod w + k / w * w = k.
Proof.
  intros Hw Hk. pose proof (Z.mod_pos_bound k w Hw). pose proof (Z.div_mod k w ltac:(lia)).
  repeat split; try lia.
  - apply Z.div_pos; lia.
  - apply Z.div_lt_upper_bound; lia.
Qed.

(* ---------- rotated planar ---------- *)
Definition rp_unflatten (cols k : Z) : Z * Z := (k mod cols, k / cols).

Lemma rp_in_site_bounds_iff rows cols x y :
  rotplanar_is_in_site_bounds rows cols (x, y) = true <-> 0 <= x < cols /\ 0 <= y < rows.
Proof.
  unfold rotplanar_is_in_site_bounds, rotplanar_site_bounds. rewrite !andb_true_iff, !Z.leb_le. lia.
Qed.

Theorem rp_flatten_range : forall rows cols idx, rotplanar_is_in_site_bounds rows cols idx = true ->
  0 <= rotplanar_flatten rows cols idx < fst (fst (rotplanar_n_k_d rows cols)).
Proof.
  intros rows cols [x y] H. apply rp_in_site_bounds_iff in H. cbn. apply rc_rowmajor_range; lia.
Qed.
Theorem rp_unflatten_flatten : forall rows cols idx, rotplanar_is_in_site_bounds rows cols idx = true ->
  rp_unflatten cols (rotplanar_flatten rows cols idx) = idx.
Proof.
  intros rows cols [x y] H. apply rp_in_site_bounds_iff in H. unfold rp_unflatten. cbn. apply rc_rowmajor_inv. lia.
Qed.
Theorem rp_flatten_injective : forall rows cols i j,
  rotplanar_is_in_site_bounds rows cols i = true -> rotplanar_is_in_site_bounds rows cols j = true ->
  rotplanar_flatten rows cols i = rotplanar_flatten rows cols j -> i = j.
Proof.
  intros rows cols i j Hi Hj E. rewrite <- (rp_unflatten_flatten rows cols i Hi), <- (rp_unflatten_flatten rows cols j Hj).
  now rewrite E.
Qed.
Theorem rp_flatten_surjective : forall rows cols k, 0 < cols ->
  0 <= k < fst (fst (rotplanar_n_k_d rows cols)) ->
  rotplanar_is_in_site_bounds rows cols (rp_unflatten cols k) = true /\
  rotplanar_flatten rows cols (rp_unflatten cols k) = k.
Proof.
  intros rows cols k Hc Hk. cbn in Hk. destruct (rc_rowmajor_surj cols rows k Hc Hk) as (H1 & H2 & H3).
  unfold rp_unflatten. split; [apply rp_in_site_bounds_iff; lia|exact H3].
Qed.

(* ---------- rotated toric ---------- *)
Definition rt_unflatten (cols k : Z) : Z * Z := (k mod cols, k / cols).
Lemma rt_in_bounds_iff rows cols x y :
  rottoric_is_in_bounds rows cols (x, y) = true <-> 0 <= x < cols /\ 0 <= y < rows.
Proof.
  unfold rottoric_is_in_bounds, rottoric_bounds. rewrite !andb_true_iff, !Z.leb_le. lia.
Qed.
Theorem rt_flatten_range : forall rows cols idx, rottoric_is_in_bounds rows cols idx = true ->
  0 <= rottoric_flatten rows cols idx < fst (fst (rottoric_n_k_d rows cols)).
Proof.
  intros rows cols [x y] H. apply rt_in_bounds_iff in H. cbn. replace (cols - 1 + 1) with cols by lia.
  apply rc_rowmajor_range; lia.
Qed.
Theorem rt_unflatten_flatten : forall rows cols idx, rottoric_is_in_bounds rows cols idx = true ->
  rt_unflatten cols (rottoric_flatten rows cols idx) = idx.
Proof.
  intros rows cols [x y] H. apply rt_in_bounds_iff in H. unfold rt_unflatten. cbn.
  replace (cols - 1 + 1) with cols by lia. apply rc_rowmajor_inv. lia.
Qed.
Theorem rt_flatten_injective : forall rows cols i j,
  rottoric_is_in_bounds rows cols i = true -> rottoric_is_in_bounds rows cols j = true ->
  rottoric_flatten rows cols i = rottoric_flatten rows cols j -> i = j.
Proof.
  intros rows cols i j Hi Hj E. rewrite <- (rt_unflatten_flatten rows cols i Hi), <- (rt_unflatten_flatten rows cols j Hj).
  now rewrite E.
Qed.
Theorem rt_flatten_surjective : forall rows cols k, 0 < cols ->
  0 <= k < fst (fst (rottoric_n_k_d rows cols)) ->
  rottoric_is_in_bounds rows cols (rt_unflatten cols k) = true /\
  rottoric_flatten rows cols (rt_unflatten cols k) = k.
Proof.
  intros rows cols k Hc Hk. cbn in Hk. destruct (rc_rowmajor_surj cols rows k Hc Hk) as (H1 & H2 & H3).
  unfold rt_unflatten. split; [apply rt_in_bounds_iff; lia|]. cbn. replace (cols - 1 + 1) with cols by lia. exact H3.
Qed.
(* _mod_index always lands in bounds, so site()/operator() never index outside the arrays *)
Theorem rt_mod_index_in_bounds : forall rows cols idx, 0 < rows -> 0 < cols ->
  rottoric_is_in_bounds rows cols (rottoric_mod_index rows cols idx) = true.
Proof.
  intros rows cols [x y] Hr Hc. cbn. apply rt_in_bounds_iff.
  replace (cols - 1 + 1) with cols by lia. replace (rows - 1 + 1) with rows by lia.
  pose proof (Z.mod_pos_bound x cols Hc). pose proof (Z.mod_pos_bound y rows Hr). lia.
Qed.
(* translation leads from a to b modulo the period (every size) *)
Lemma rc_mod_shift_pos c a b : 0 < c -> (a + (b mod c - a mod c) mod c - b) mod c = 0.
Proof.
  intros Hc. apply Z.mod_divide; [lia|].
  exists (a / c - (b mod c - a mod c) / c - b / c).
  pose proof (Z.div_mod a c ltac:(lia)). pose proof (Z.div_mod b c ltac:(lia)).
  pose proof (Z.div_mod (b mod c - a mod c) c ltac:(lia)). nia.
Qed.
Lemma rc_mod_shift_neg c a b : 0 < c -> (a + - ((a mod c - b mod c) mod c) - b) mod c = 0.
Proof.
  intros Hc. apply Z.mod_divide; [lia|].
  exists (a / c + (a mod c - b mod c) / c - b / c).
  pose proof (Z.div_mod a c ltac:(lia)). pose proof (Z.div_mod b c ltac:(lia)).
  pose proof (Z.div_mod (a mod c - b mod c) c ltac:(lia)). nia.
Qed.
Theorem rt_translation_target : forall rows cols a b tx ty, 0 < rows -> 0 < cols ->
  rottoric_translation rows cols a b = Some (tx, ty) ->
  (fst a + tx - fst b) mod cols = 0 /\ (snd a + ty - snd b) mod rows = 0.
Proof.
  intros rows cols [ax ay] [bx by_] tx ty Hr Hc. unfold rottoric_translation, mod2.
  destruct (negb _); [discriminate|]. cbn [fst snd].
  intros H. injection H as <- <-.
  split.
  - destruct (_ <=? _); [apply rc_mod_shift_pos|apply rc_mod_shift_neg]; assumption.
  - destruct (_ <=? _); [apply rc_mod_shift_pos|apply rc_mod_shift_neg]; assumption.
Qed.
(* translation is None exactly for plaquettes of different type *)
Theorem rt_translation_defined : forall rows cols a b,
  rottoric_translation rows cols a b <> None <-> rottoric_is_z_plaquette a = rottoric_is_z_plaquette b.
Proof.
  intros rows cols [ax ay] [bx by_]. unfold rottoric_translation, mod2.
  destruct (rottoric_is_z_plaquette (ax, ay)), (rottoric_is_z_plaquette (bx, by_)); cbn; split; intros H;
    try congruence; try discriminate.
Qed.

(* ------------------------------------------------------------------------------------------ *)
(* all sizes: site access round-trips, and the supplied logical operators have the documented   *)
(* weights (so the lighter one weighs d = min(rows, cols))                                      *)
(* ------------------------------------------------------------------------------------------ *)
Local Close Scope Z_scope.
Lemma rc_flip_at_nth_other i : forall l j d, i <> j -> nth j (rc_flip_at i l) d = nth j l d.
Proof.
  induction i as [|i IH]; intros [|b l] [|j] d H; cbn; auto; try congruence; try (apply IH; congruence).
Qed.
Lemma rc_flip_at_nth_same i : forall l d, i < length l -> nth i (rc_flip_at i l) d = negb (nth i l d).
Proof. induction i as [|i IH]; intros [|b l] d H; cbn in *; try lia; auto. apply IH. lia. Qed.
Lemma rc_flip_at_count i : forall l, i < length l -> nth i l false = false ->
  count_true (rc_flip_at i l) = S (count_true l).
Proof.
  induction i as [|i IH]; intros [|b l] H Hn; cbn in *; try lia.
  - subst b. reflexivity.
  - rewrite IH by (auto; lia). lia.
Qed.
Definition rc_flips (ps : list nat) (xs : bsf) : bsf := fold_left (fun a i => rc_flip_at i a) ps xs.
Lemma rc_flips_length ps : forall xs, length (rc_flips ps xs) = length xs.
Proof. induction ps as [|i ps IH]; intros xs; cbn; auto. unfold rc_flips in IH. now rewrite IH, rc_flip_at_length. Qed.
Lemma rc_flips_count ps : forall xs, NoDup ps ->
  (forall i, In i ps -> i < length xs /\ nth i xs false = false) ->
  count_true (rc_flips ps xs) = count_true xs + length ps.
Proof.
  induction ps as [|i ps IH]; intros xs Hnd H; cbn; [lia|].
  inversion Hnd as [|? ? Hni Hnd']; subst. destruct (H i (or_introl eq_refl)) as [Hi Hf].
  unfold rc_flips in IH. rewrite IH; auto.
  - rewrite rc_flip_at_count by auto. lia.
  - intros j Hj. destruct (H j (or_intror Hj)) as [Hj1 Hj2]. rewrite rc_flip_at_length. split; auto.
    rewrite rc_flip_at_nth_other; auto. intros ->. contradiction.
Qed.
Lemma rc_nth_zeros n i : nth i (zeros n) false = false.
Proof. unfold zeros. revert i. induction n as [|n IH]; intros [|i]; cbn; auto. Qed.
Lemma rc_count_zeros n : count_true (zeros n) = 0.
Proof. unfold zeros. induction n; cbn; auto. Qed.
Lemma rc_orv_zeros_r xs : orv xs (zeros (length xs)) = xs.
Proof. unfold zeros. induction xs as [|x xs IH]; cbn; auto. now rewrite IH, orb_false_r. Qed.
Lemma rc_orv_zeros_l zs : orv (zeros (length zs)) zs = zs.
Proof. unfold zeros. induction zs as [|z zs IH]; cbn; auto. now rewrite IH. Qed.
Lemma rc_wt_x_only xs n : length xs = n -> bsf_wt (xs ++ zeros n) = count_true xs.
Proof.
  intros <-. unfold bsf_wt. rewrite halves_app by (now rewrite zeros_length). now rewrite rc_orv_zeros_r.
Qed.
Lemma rc_wt_z_only zs n : length zs = n -> bsf_wt (zeros n ++ zs) = count_true zs.
Proof.
  intros <-. unfold bsf_wt. rewrite halves_app by (now rewrite zeros_length). now rewrite rc_orv_zeros_l.
Qed.
Lemma rc_NoDup_map_inj {A B} (f : A -> B) (l : list A) :
  (forall x y, In x l -> In y l -> f x = f y -> x = y) -> NoDup l -> NoDup (map f l).
Proof.
  induction l as [|a l IH]; intros Hinj Hnd; cbn; [constructor|].
  inversion Hnd as [|? ? Hni Hnd']; subst. constructor.
  - intros Hin. apply in_map_iff in Hin. destruct Hin as (y & Hy & Hyl).
    assert (y = a) by (apply Hinj; cbn; auto). subst. contradiction.
  - apply IH; auto. intros x y Hx Hy. apply Hinj; cbn; auto.
Qed.
Lemma rc_range_NoDup lo hi : NoDup (rc_range lo hi).
Proof.
  unfold rc_range, rc_zrange. apply rc_NoDup_map_inj; [|apply seq_NoDup]. intros x y _ _ H. lia.
Qed.
Lemma rc_range_length lo hi : length (rc_range lo hi) = Z.to_nat (hi - lo).
Proof. unfold rc_range, rc_zrange. now rewrite map_length, seq_length. Qed.

(* the X/Z arrays after a sequence of flips with one letter *)
Definition rc_apply_flips (op : pl) (ps : list nat) (p : rc_pauli) : rc_pauli :=
  rc_mk (if xbit op then rc_flips ps (rc_xs p) else rc_xs p) (if zbit op then rc_flips ps (rc_zs p) else rc_zs p).
Lemma rc_apply_flips_cons op i ps p : rc_apply_flips op (i :: ps) p = rc_apply_flips op ps (rc_flip op i p).
Proof. unfold rc_apply_flips, rc_flip. destruct (xbit op), (zbit op); reflexivity. Qed.

Local Open Scope Z_scope.
Lemma rp_sites_in_bounds rows cols op idxs : forall p,
  Forall (fun i => rotplanar_is_in_site_bounds rows cols i = true) idxs ->
  rp_sites rows cols op idxs p =
  rc_apply_flips op (map (fun i => Z.to_nat (rotplanar_flatten rows cols i)) idxs) p.
Proof.
  induction idxs as [|i idxs IH]; intros p H.
  - destruct p. unfold rc_apply_flips. cbn. destruct (xbit op), (zbit op); reflexivity.
  - inversion H as [|? ? Hi Hr]; subst. cbn [map]. rewrite rc_apply_flips_cons.
    unfold rp_sites in *. cbn [fold_left]. rewrite IH by auto. unfold rp_site. now rewrite Hi.
Qed.
Lemma rp_flat_nat_inj rows cols i j :
  rotplanar_is_in_site_bounds rows cols i = true -> rotplanar_is_in_site_bounds rows cols j = true ->
  Z.to_nat (rotplanar_flatten rows cols i) = Z.to_nat (rotplanar_flatten rows cols j) -> i = j.
Proof.
  intros Hi Hj E. apply (rp_flatten_injective rows cols); auto.
  pose proof (rp_flatten_range rows cols i Hi). pose proof (rp_flatten_range rows cols j Hj). lia.
Qed.
(* weight of one letter laid on a duplicate-free list of in-bounds sites of the identity *)
Lemma rp_sites_weight rows cols op idxs : op <> pI -> NoDup idxs ->
  Forall (fun i => rotplanar_is_in_site_bounds rows cols i = true) idxs ->
  bsf_wt (rc_to_bsf (rp_sites rows cols op idxs (rp_identity rows cols))) = length idxs /\
  (op = pX -> rc_zs (rp_sites rows cols op idxs (rp_identity rows cols)) = zeros (rp_n rows cols)) /\
  (op = pZ -> rc_xs (rp_sites rows cols op idxs (rp_identity rows cols)) = zeros (rp_n rows cols)).
Proof.
  intros Hop Hnd Hin. rewrite rp_sites_in_bounds by auto.
  set (ps := map (fun i => Z.to_nat (rotplanar_flatten rows cols i)) idxs).
  assert (Hps : NoDup ps).
  { apply rc_NoDup_map_inj; auto. rewrite Forall_forall in Hin. intros x y Hx Hy. apply rp_flat_nat_inj; auto. }
  assert (Hlt : forall i, In i ps -> (i < length (zeros (rp_n rows cols)) /\ nth i (zeros (rp_n rows cols)) false = false)%nat).
  { intros i Hi. rewrite zeros_length, rc_nth_zeros. split; auto.
    apply in_map_iff in Hi. destruct Hi as (idx & <- & Hidx). rewrite Forall_forall in Hin.
    pose proof (rp_flatten_range rows cols idx (Hin _ Hidx)) as Hr. unfold rp_n.
    destruct (rotplanar_n_k_d rows cols) as [[n k] d]. cbn [fst] in Hr. lia. }
  assert (Hc : count_true (rc_flips ps (zeros (rp_n rows cols))) = length idxs).
  { rewrite rc_flips_count by auto. rewrite rc_count_zeros. unfold ps. now rewrite map_length. }
  assert (Hl : length (rc_flips ps (zeros (rp_n rows cols))) = rp_n rows cols) by (now rewrite rc_flips_length, zeros_length).
  unfold rc_apply_flips, rp_identity, rc_identity, rc_to_bsf. cbn [rc_xs rc_zs].
  destruct op; try congruence; cbn [xbit zbit]; (split; [|split; intros; congruence || reflexivity]).
  - now rewrite rc_wt_x_only.
  - unfold bsf_wt. rewrite halves_app by (now rewrite Hl).
    assert (E : orv (rc_flips ps (zeros (rp_n rows cols))) (rc_flips ps (zeros (rp_n rows cols))) = rc_flips ps (zeros (rp_n rows cols))).
    { generalize (rc_flips ps (zeros (rp_n rows cols))). intros l. induction l as [|b l IH]; cbn; auto. now rewrite IH, orb_diag. }
    now rewrite E.
  - now rewrite rc_wt_z_only.
Qed.

Theorem rp_logical_x_weight : forall rows cols, 1 <= rows -> 1 <= cols ->
  bsf_wt (rc_to_bsf (rp_logical_x rows cols (rp_identity rows cols))) = Z.to_nat cols.
Proof.
  intros rows cols Hr Hc. unfold rp_logical_x. cbn [rotplanar_site_bounds].
  destruct (rp_sites_weight rows cols pX (map (fun x => (x, 0)) (rc_range 0 (cols - 1 + 1)))) as (H & _).
  - discriminate.
  - apply rc_NoDup_map_inj; [|apply rc_range_NoDup]. intros x y _ _ E. congruence.
  - apply Forall_forall. intros i Hi. apply in_map_iff in Hi. destruct Hi as (x & <- & Hx).
    apply rc_range_In in Hx. apply rp_in_site_bounds_iff. lia.
  - rewrite H, map_length, rc_range_length. f_equal. lia.
Qed.
Theorem rp_logical_z_weight : forall rows cols, 1 <= rows -> 1 <= cols ->
  bsf_wt (rc_to_bsf (rp_logical_z rows cols (rp_identity rows cols))) = Z.to_nat rows.
Proof.
  intros rows cols Hr Hc. unfold rp_logical_z. cbn [rotplanar_site_bounds].
  destruct (rp_sites_weight rows cols pZ (map (fun y => (cols - 1, y)) (rc_range 0 (rows - 1 + 1)))) as (H & _).
  - discriminate.
  - apply rc_NoDup_map_inj; [|apply rc_range_NoDup]. intros x y _ _ E. congruence.
  - apply Forall_forall. intros i Hi. apply in_map_iff in Hi. destruct Hi as (y & <- & Hy).
    apply rc_range_In in Hy. apply rp_in_site_bounds_iff. lia.
  - rewrite H, map_length, rc_range_length. f_equal. lia.
Qed.
(* the lighter supplied logical weighs exactly the advertised d, for every size *)
Theorem rp_logical_weights_all : forall rows cols, 1 <= rows -> 1 <= cols ->
  let '(_, _, d) := rotplanar_n_k_d rows cols in
  Nat.min (bsf_wt (rc_to_bsf (rp_logical_x rows cols (rp_identity rows cols))))
          (bsf_wt (rc_to_bsf (rp_logical_z rows cols (rp_identity rows cols)))) = Z.to_nat d.
Proof.
  intros rows cols Hr Hc. cbn [rotplanar_n_k_d]. rewrite rp_logical_x_weight, rp_logical_z_weight by auto. lia.
Qed.
(* site access round trip, every size: after site(op, idx) on the identity, operator(idx) = op and every other
   in-bounds site still reads I *)
Theorem rp_site_operator_roundtrip : forall rows cols op i j, 
  rotplanar_is_in_site_bounds rows cols i = true -> rotplanar_is_in_site_bounds rows cols j = true ->
  rp_operator rows cols j (rp_site rows cols op i (rp_identity rows cols)) = Some (if rc_idx_eqb i j then op else pI).
Proof.
  intros rows cols op i j Hi Hj. unfold rp_operator, rp_site. rewrite Hi, Hj. f_equal.
  unfold rc_letter, rc_flip, rp_identity, rc_identity. cbn [rc_xs rc_zs].
  set (n := rp_n rows cols). set (fi := Z.to_nat (rotplanar_flatten rows cols i)). set (fj := Z.to_nat (rotplanar_flatten rows cols j)).
  assert (Hlt : (fi < n)%nat).
  { pose proof (rp_flatten_range rows cols i Hi) as Hr. unfold n, rp_n, fi.
    destruct (rotplanar_n_k_d rows cols) as [[n' k] d]. cbn [fst] in Hr. lia. }
  destruct (rc_idx_eqb i j) eqn:E.
  - apply rc_idx_eqb_spec in E. subst j. fold fi.
    destruct op; cbn [xbit zbit]; rewrite ?rc_flip_at_nth_same by (now rewrite zeros_length); rewrite ?rc_nth_zeros; reflexivity.
  - assert (Hne : fi <> fj).
    { intros Ef. apply (rp_flat_nat_inj rows cols i j Hi Hj) in Ef. subst. 
      assert (rc_idx_eqb j j = true) by (now apply rc_idx_eqb_spec). congruence. }
    destruct op; cbn [xbit zbit]; rewrite ?rc_flip_at_nth_other by auto; rewrite ?rc_nth_zeros; reflexivity.
Qed.

(* ---------- rotated toric: the same for its four logicals ---------- *)
Lemma rt_mod_index_small rows cols x y : 0 <= x < cols -> 0 <= y < rows -> rottoric_mod_index rows cols (x, y) = (x, y).
Proof.
  intros Hx Hy. cbn. replace (cols - 1 + 1) with cols by lia. replace (rows - 1 + 1) with rows by lia.
  now rewrite !Z.mod_small by lia.
Qed.
Lemma rt_sites_flips rows cols op idxs : forall p,
  rt_sites rows cols op idxs p = rc_apply_flips op (map (rt_flat rows cols) idxs) p.
Proof.
  induction idxs as [|i idxs IH]; intros p.
  - destruct p. unfold rc_apply_flips. cbn. destruct (xbit op), (zbit op); reflexivity.
  - cbn [map]. rewrite rc_apply_flips_cons. unfold rt_sites in *. cbn [fold_left]. now rewrite IH.
Qed.
Lemma rt_sites_weight rows cols op idxs : op = pX \/ op = pZ -> NoDup idxs ->
  Forall (fun i => rottoric_is_in_bounds rows cols i = true) idxs ->
  bsf_wt (rc_to_bsf (rt_sites rows cols op idxs (rt_identity rows cols))) = length idxs.
Proof.
  intros Hop Hnd Hin. rewrite rt_sites_flips. rewrite Forall_forall in Hin.
  assert (Hflat : forall i, In i idxs -> rt_flat rows cols i = Z.to_nat (rottoric_flatten rows cols i)).
  { intros [x y] Hi. unfold rt_flat. pose proof (Hin _ Hi) as Hb. apply rt_in_bounds_iff in Hb.
    now rewrite rt_mod_index_small by lia. }
  set (ps := map (rt_flat rows cols) idxs).
  assert (Hps : NoDup ps).
  { apply rc_NoDup_map_inj; auto. intros a b Ha Hb E. rewrite (Hflat a Ha), (Hflat b Hb) in E.
    apply (rt_flatten_injective rows cols); auto.
    pose proof (rt_flatten_range rows cols a (Hin _ Ha)). pose proof (rt_flatten_range rows cols b (Hin _ Hb)). lia. }
  assert (Hlt : forall i, In i ps -> (i < length (zeros (rt_n rows cols)) /\ nth i (zeros (rt_n rows cols)) false = false)%nat).
  { intros i Hi. rewrite zeros_length, rc_nth_zeros. split; auto.
    apply in_map_iff in Hi. destruct Hi as (idx & <- & Hidx). rewrite (Hflat _ Hidx).
    pose proof (rt_flatten_range rows cols idx (Hin _ Hidx)) as Hr. unfold rt_n.
    destruct (rottoric_n_k_d rows cols) as [[n k] d]. cbn [fst] in Hr. lia. }
  assert (Hc : count_true (rc_flips ps (zeros (rt_n rows cols))) = length idxs).
  { rewrite rc_flips_count by auto. rewrite rc_count_zeros. unfold ps. now rewrite map_length. }
  assert (Hl : length (rc_flips ps (zeros (rt_n rows cols))) = rt_n rows cols) by (now rewrite rc_flips_length, zeros_length).
  unfold rc_apply_flips, rt_identity, rc_identity, rc_to_bsf. cbn [rc_xs rc_zs].
  destruct Hop as [-> | ->]; cbn [xbit zbit]; [now rewrite rc_wt_x_only|now rewrite rc_wt_z_only].
Qed.
Lemma rt_column0_facts rows cols : 1 <= rows -> 1 <= cols ->
  NoDup (rt_column0 rows cols) /\ Forall (fun i => rottoric_is_in_bounds rows cols i = true) (rt_column0 rows cols) /\
  length (rt_column0 rows cols) = Z.to_nat rows.
Proof.
  intros Hr Hc. unfold rt_column0. cbn [rottoric_bounds]. repeat split.
  - apply rc_NoDup_map_inj; [|apply rc_range_NoDup]. intros x y _ _ E. congruence.
  - apply Forall_forall. intros i Hi. apply in_map_iff in Hi. destruct Hi as (y & <- & Hy).
    apply rc_range_In in Hy. apply rt_in_bounds_iff. lia.
  - rewrite map_length, rc_range_length. f_equal. lia.
Qed.
Lemma rt_row0_facts rows cols : 1 <= rows -> 1 <= cols ->
  NoDup (rt_row0 rows cols) /\ Forall (fun i => rottoric_is_in_bounds rows cols i = true) (rt_row0 rows cols) /\
  length (rt_row0 rows cols) = Z.to_nat cols.
Proof.
  intros Hr Hc. unfold rt_row0. cbn [rottoric_bounds]. repeat split.
  - apply rc_NoDup_map_inj; [|apply rc_range_NoDup]. intros x y _ _ E. congruence.
  - apply Forall_forall. intros i Hi. apply in_map_iff in Hi. destruct Hi as (x & <- & Hx).
    apply rc_range_In in Hx. apply rt_in_bounds_iff. lia.
  - rewrite map_length, rc_range_length. f_equal. lia.
Qed.
(* X1, Z2 (column x = 0) weigh rows; X2, Z1 (row y = 0) weigh cols; the lightest weighs d — every size *)
Theorem rt_logical_weights_all : forall rows cols, 1 <= rows -> 1 <= cols ->
  let w := fun p => bsf_wt (rc_to_bsf p) in
  let id := rt_identity rows cols in
  w (rt_logical_x1 rows cols id) = Z.to_nat rows /\ w (rt_logical_x2 rows cols id) = Z.to_nat cols /\
  w (rt_logical_z1 rows cols id) = Z.to_nat cols /\ w (rt_logical_z2 rows cols id) = Z.to_nat rows /\
  let '(_, _, d) := rottoric_n_k_d rows cols in
  Nat.min (w (rt_logical_x1 rows cols id)) (w (rt_logical_x2 rows cols id)) = Z.to_nat d.
Proof.
  intros rows cols Hr Hc w id.
  destruct (rt_column0_facts rows cols Hr Hc) as (C1 & C2 & C3).
  destruct (rt_row0_facts rows cols Hr Hc) as (R1 & R2 & R3).
  assert (H1 : w (rt_logical_x1 rows cols id) = Z.to_nat rows).
  { unfold w, rt_logical_x1, id. rewrite rt_sites_weight; auto. }
  assert (H2 : w (rt_logical_x2 rows cols id) = Z.to_nat cols).
  { unfold w, rt_logical_x2, id. rewrite rt_sites_weight; auto. }
  assert (H3 : w (rt_logical_z1 rows cols id) = Z.to_nat cols).
  { unfold w, rt_logical_z1, id. rewrite rt_sites_weight; auto. }
  assert (H4 : w (rt_logical_z2 rows cols id) = Z.to_nat rows).
  { unfold w, rt_logical_z2, id. rewrite rt_sites_weight; auto. }
  repeat split; auto. cbn [rottoric_n_k_d]. rewrite H1, H2. lia.
Qed.

