(* Lattice/RotToric.v — model of RotatedToricCode / RotatedToricPauli
   (src/qecsim/models/rotatedtoric/_rotatedtoriccode.py, _rotatedtoricpauli.py).
   Integer kernels (n_k_d, bounds, is_z_plaquette, translation, _flatten_site_index, _mod_index)
   come from Generated/LatticeArith.v. *)
From Coq Require Import List Bool Arith ZArith Lia.
From QV Require Import Core.Bits Core.Pauli Core.Symp Core.Code Generated.LatticeArith Lattice.RotPlanar.
Import ListNotations.
Local Open Scope Z_scope.

Section RotToric.
Variables rows cols : Z.

Definition rt_n : nat := let '(n, _, _) := rottoric_n_k_d rows cols in Z.to_nat n.
Definition rt_identity : rc_pauli := rc_identity rt_n.
Definition rt_flat (idx : Z * Z) : nat :=
  Z.to_nat (rottoric_flatten rows cols (rottoric_mod_index rows cols idx)).

(* RotatedToricPauli.site: index = _mod_index(index); flip at _flatten_site_index(index) *)
Definition rt_site (op : pl) (idx : Z * Z) (p : rc_pauli) : rc_pauli := rc_flip op (rt_flat idx) p.
Definition rt_sites (op : pl) (idxs : list (Z * Z)) (p : rc_pauli) : rc_pauli :=
  fold_left (fun q i => rt_site op i q) idxs p.
(* RotatedToricPauli.operator: never raises, index taken modulo the lattice *)
Definition rt_operator (idx : Z * Z) (p : rc_pauli) : pl := rc_letter (rt_flat idx) p.
(* RotatedToricPauli.plaquette: type from the raw index; SW, NW, NE, SE *)
Definition rt_corners (idx : Z * Z) : list (Z * Z) :=
  let '(x, y) := idx in [(x, y); (x, y + 1); (x + 1, y + 1); (x + 1, y)].
Definition rt_plaquette (idx : Z * Z) (p : rc_pauli) : rc_pauli :=
  let op := if rottoric_is_z_plaquette idx then pZ else pX in
  rt_sites op (rt_corners idx) p.
(* logical_x1: X on (0, y); logical_x2: X on (x, 0); logical_z1: Z on (x, 0); logical_z2: Z on (0, y) *)
Definition rt_column0 : list (Z * Z) :=
  let '(max_x, max_y) := rottoric_bounds rows cols in map (fun y => (0, y)) (rc_range 0 (max_y + 1)).
Definition rt_row0 : list (Z * Z) :=
  let '(max_x, max_y) := rottoric_bounds rows cols in map (fun x => (x, 0)) (rc_range 0 (max_x + 1)).
Definition rt_logical_x1 (p : rc_pauli) : rc_pauli := rt_sites pX rt_column0 p.
Definition rt_logical_x2 (p : rc_pauli) : rc_pauli := rt_sites pX rt_row0 p.
Definition rt_logical_z1 (p : rc_pauli) : rc_pauli := rt_sites pZ rt_row0 p.
Definition rt_logical_z2 (p : rc_pauli) : rc_pauli := rt_sites pZ rt_column0 p.

(* _plaquette_indices: for y in range(max_y+1): for x in range(max_x+1); Z-type list then X-type list *)
Definition rt_scan : list (Z * Z) :=
  let '(max_x, max_y) := rottoric_bounds rows cols in
  flat_map (fun y => map (fun x => (x, y)) (rc_range 0 (max_x + 1))) (rc_range 0 (max_y + 1)).
Definition rt_plaquette_indices : list (Z * Z) :=
  filter rottoric_is_z_plaquette rt_scan ++ filter (fun i => negb (rottoric_is_z_plaquette i)) rt_scan.

Definition rt_stabilizers : list bsf :=
  map (fun i => rc_to_bsf (rt_plaquette i rt_identity)) rt_plaquette_indices.
Definition rt_logical_xs : list bsf :=
  [rc_to_bsf (rt_logical_x1 rt_identity); rc_to_bsf (rt_logical_x2 rt_identity)].
Definition rt_logical_zs : list bsf :=
  [rc_to_bsf (rt_logical_z1 rt_identity); rc_to_bsf (rt_logical_z2 rt_identity)].
Definition rt_syndrome_to_plaquette_indices (syndrome : bsf) : list (Z * Z) :=
  rc_select syndrome rt_plaquette_indices.

(* RotatedToricCode.translation: IndexError (None) for plaquettes of different type *)
Definition rt_translation (a b : Z * Z) : option (Z * Z) := rottoric_translation rows cols a b.

(* RotatedToricPauli.path, the `while x_steps or y_steps` loop.  `first` is `not path_indices`:
   on the first iteration a negative step does not move (plaquettes are indexed by their lower-left
   corner).  Recursion on fuel; None if the fuel runs out before both step counters reach 0. *)
Definition rt_step (first : bool) (steps cur : Z) : Z * Z :=
  if 0 <? steps then (cur + 1, steps - 1)
  else if steps <? 0 then ((if first then cur else cur - 1), steps + 1)
  else (cur, steps).
Fixpoint rt_path_loop (fuel : nat) (x_steps y_steps cx cy : Z) (first : bool) (acc : list (Z * Z))
  : option (list (Z * Z)) :=
  if (x_steps =? 0) && (y_steps =? 0) then Some (rev acc) else
  match fuel with
  | O => None
  | S f =>
      let '(cx', xs') := rt_step first x_steps cx in
      let '(cy', ys') := rt_step first y_steps cy in
      rt_path_loop f xs' ys' cx' cy' false ((cx', cy') :: acc)
  end.
Definition rt_path_indices (a b : Z * Z) : option (list (Z * Z)) :=
  if rc_idx_eqb a b then Some [] else
  match rt_translation a b with
  | None => None
  | Some (x_steps, y_steps) =>
      rt_path_loop (Z.to_nat (Z.abs x_steps + Z.abs y_steps)) x_steps y_steps (fst a) (snd a) true []
  end.
(* apply Xs if Z plaquettes, Zs otherwise *)
Definition rt_path (a b : Z * Z) (p : rc_pauli) : option rc_pauli :=
  match rt_path_indices a b with
  | None => None
  | Some idxs => Some (rt_sites (if rottoric_is_z_plaquette a then pX else pZ) idxs p)
  end.
End RotToric.

Definition rottoric_code (rows cols : Z) : code :=
  mkCode (rt_stabilizers rows cols) (rt_logical_xs rows cols) (rt_logical_zs rows cols).

(* RotatedToricCode.__init__: as the rotated planar one with minimum 2, then
   `if rows % 2 or columns % 2: raise ValueError` *)
Definition rt_ctor (a b : rc_arg) : rc_ctor_res :=
  match rc_index a with
  | None => RTypeError
  | Some r => if r <? 2 then RValueError else
      match rc_index b with
      | None => RTypeError
      | Some c => if c <? 2 then RValueError else
          if negb (r mod 2 =? 0) || negb (c mod 2 =? 0) then RValueError else ROk
      end
  end.

Theorem rt_ctor_ok_iff a b : rt_ctor a b = ROk <->
  exists r c, rc_index a = Some r /\ rc_index b = Some c /\ 2 <= r /\ 2 <= c /\ r mod 2 = 0 /\ c mod 2 = 0.
Proof.
  unfold rt_ctor. split.
  - destruct (rc_index a) as [r|]; [|discriminate]. destruct (Z.ltb_spec r 2); [discriminate|].
    destruct (rc_index b) as [c|]; [|discriminate]. destruct (Z.ltb_spec c 2); [discriminate|].
    destruct (Z.eqb_spec (r mod 2) 0), (Z.eqb_spec (c mod 2) 0); cbn; try discriminate.
    intros _. exists r, c. auto 6.
  - intros (r & c & -> & -> & Hr & Hc & Er & Ec).
    destruct (Z.ltb_spec r 2); [lia|]. destruct (Z.ltb_spec c 2); [lia|]. rewrite Er, Ec. reflexivity.
Qed.
Theorem rt_ctor_type_error_iff a b : rt_ctor a b = RTypeError <->
  rc_index a = None \/ (exists r, rc_index a = Some r /\ 2 <= r /\ rc_index b = None).
Proof.
  unfold rt_ctor. split.
  - destruct (rc_index a) as [r|]; [|auto]. destruct (Z.ltb_spec r 2); [discriminate|].
    destruct (rc_index b) as [c|].
    + destruct (Z.ltb_spec c 2); [discriminate|]. destruct (negb _ || negb _); discriminate.
    + intros _. right. exists r. auto.
  - intros [->|(r & -> & Hr & ->)]; [reflexivity|]. destruct (Z.ltb_spec r 2); [lia|]. reflexivity.
Qed.

(* the loop always terminates within the fuel handed to it by rt_path_indices *)
Lemma rt_step_abs first s c : Z.abs (snd (rt_step first s c)) = Z.max 0 (Z.abs s - 1).
Proof.
  unfold rt_step. destruct (Z.ltb_spec 0 s); [cbn; lia|]. destruct (Z.ltb_spec s 0); cbn; lia.
Qed.
Lemma rt_path_loop_fuel : forall fuel xs ys cx cy first acc,
  (Z.to_nat (Z.max (Z.abs xs) (Z.abs ys)) <= fuel)%nat ->
  exists l, rt_path_loop fuel xs ys cx cy first acc = Some l /\
            length l = (length acc + Z.to_nat (Z.max (Z.abs xs) (Z.abs ys)))%nat.
Proof.
  induction fuel as [|f IH]; intros xs ys cx cy first acc Hf.
  - assert (xs = 0 /\ ys = 0) as [-> ->] by lia. cbn. exists (rev acc). rewrite rev_length. split; auto.
  - cbn [rt_path_loop]. destruct ((xs =? 0) && (ys =? 0)) eqn:E.
    + apply andb_true_iff in E. destruct E as [Ex Ey]. apply Z.eqb_eq in Ex, Ey. subst.
      exists (rev acc). rewrite rev_length. split; auto.
    + assert (Hnz : xs <> 0 \/ ys <> 0).
      { apply andb_false_iff in E. destruct E as [E|E]; apply Z.eqb_neq in E; auto. }
      pose proof (rt_step_abs first xs cx) as Ax. pose proof (rt_step_abs first ys cy) as Ay.
      destruct (rt_step first xs cx) as [cx' xs'], (rt_step first ys cy) as [cy' ys']. cbn [snd] in Ax, Ay.
      destruct (IH xs' ys' cx' cy' false ((cx', cy') :: acc)) as (l & Hl & Hn); [lia|].
      exists l. split; [exact Hl|]. cbn [length] in Hn. lia.
Qed.

(* P-forall: for every size and every pair of same-type plaquettes the path is defined and visits
   exactly max(|x_steps|, |y_steps|) sites (counted with multiplicity) *)
Theorem rt_path_indices_defined rows cols a b xs ys :
  rt_translation rows cols a b = Some (xs, ys) -> a <> b ->
  exists l, rt_path_indices rows cols a b = Some l /\ length l = Z.to_nat (Z.max (Z.abs xs) (Z.abs ys)).
Proof.
  intros Ht Hab. unfold rt_path_indices. destruct (rc_idx_eqb a b) eqn:E; [apply rc_idx_eqb_spec in E; contradiction|].
  rewrite Ht. destruct (rt_path_loop_fuel (Z.to_nat (Z.abs xs + Z.abs ys)) xs ys (fst a) (snd a) true []) as (l & Hl & Hn); [lia|].
  exists l. split; auto.
Qed.
