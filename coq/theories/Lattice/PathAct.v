(* Lattice/PathAct.v — a lattice path applied to ANY Pauli multiplies it by the path operator.
   For the planar, toric and rotated toric models: if path a b p is defined then path a b (identity) is defined and
       to_bsf (path a b p) = to_bsf p  XOR  to_bsf (path a b identity)
   for every Pauli p of the lattice's length (whatever operators it already carries); consequently path a b applied
   twice restores p.  No condition on a, b, rows, cols beyond definedness: a flip beyond the array is a no-op on both
   sides.  This is what the operation histories of harness/lat_pathhist.py (C15) decide the implementation against:
   expected bsf after path(a, b) on an existing Pauli = previous bsf XOR the model's path operator. *)
From Coq Require Import List Bool Arith ZArith Lia.
From QV Require Import Core.Bits Core.Pauli Generated.LatticeArith Lattice.Planar Lattice.Toric Lattice.RotPlanar Lattice.RotToric.
Import ListNotations.

(* ---- flipping one entry = XOR with the flipped zero vector (no bound on the position) ---- *)
Lemma flipn_xor_any k : forall u, flipn k u = xorv u (flipn k (zeros (length u))).
Proof.
  induction k as [|k IH]; intros [|x u]; cbn; auto.
  - destruct x; cbn; f_equal; symmetry; apply (xorv_zeros_r u).
  - destruct x; cbn; f_equal; apply IH.
Qed.
Lemma rc_flip_at_xor_any k : forall u, rc_flip_at k u = xorv u (rc_flip_at k (zeros (length u))).
Proof.
  induction k as [|k IH]; intros [|x u]; cbn; auto.
  - destruct x; cbn; f_equal; symmetry; apply (xorv_zeros_r u).
  - destruct x; cbn; f_equal; apply IH.
Qed.
Lemma rc_flip_at_length i l : length (rc_flip_at i l) = length l.
Proof. revert i. induction l as [|x l IH]; intros [|i]; cbn; auto. Qed.

(* ---- operations that act by XOR, over any two-array state ---- *)
Section Act.
  Variable St : Type.
  Variables (gx gz : St -> bsf) (zero : St) (n : nat).
  Hypothesis zero_x : gx zero = zeros n.
  Hypothesis zero_z : gz zero = zeros n.
  Definition tb (s : St) : bsf := gx s ++ gz s.
  Definition lens (s : St) : Prop := length (gx s) = n /\ length (gz s) = n.
  Definition act (g : St -> St) : Prop :=
    forall s, lens s -> lens (g s) /\ tb (g s) = xorv (tb s) (tb (g zero)).

  Lemma lens_zero : lens zero.
  Proof. unfold lens. now rewrite zero_x, zero_z, zeros_length. Qed.
  Lemma tb_length s : lens s -> length (tb s) = (n + n)%nat.
  Proof. intros [Hx Hz]. unfold tb. rewrite app_length. lia. Qed.
  Lemma tb_zero : tb zero = zeros (n + n).
  Proof. unfold tb. rewrite zero_x, zero_z. unfold zeros. symmetry. apply repeat_app. Qed.

  Lemma act_id : act (fun s => s).
  Proof.
    intros s Hs. split; auto. rewrite tb_zero, <- (tb_length s Hs). symmetry. apply xorv_zeros_r.
  Qed.
  Lemma act_comp g1 g2 : act g1 -> act g2 -> act (fun s => g2 (g1 s)).
  Proof.
    intros H1 H2 s Hs. destruct (H1 s Hs) as [L1 E1]. destruct (H2 (g1 s) L1) as [L2 E2].
    destruct (H1 zero lens_zero) as [L10 _]. destruct (H2 (g1 zero) L10) as [_ E20].
    split; auto. rewrite E2, E1, E20. apply xorv_assoc.
  Qed.
  Lemma act_fold {I} (f : I -> St -> St) (L : list I) :
    (forall i, act (f i)) -> act (fun s => fold_left (fun q i => f i q) L s).
  Proof.
    intros Hf. induction L as [|i L IH]; cbn [fold_left]; [apply act_id|].
    exact (act_comp (f i) (fun s => fold_left (fun q j => f j q) L s) (Hf i) IH).
  Qed.
  Lemma act_twice g : act g -> forall s, lens s -> lens (g (g s)) /\ tb (g (g s)) = tb s.
  Proof.
    intros Hg s Hs. destruct (Hg s Hs) as [L1 E1]. destruct (Hg (g s) L1) as [L2 E2].
    destruct (Hg zero lens_zero) as [L0 _].
    split; auto. rewrite E2, E1, xorv_assoc, xorv_self, (tb_length _ L0), <- (tb_length s Hs). apply xorv_zeros_r.
  Qed.
End Act.

(* ---- the dense Pauli of Lattice/Planar.v (planar and toric) ---- *)
Lemma flip_op_act n op k : act pauli pxs pzs (pzero n) n (flip_op op k).
Proof.
  intros s [Hx Hz]. destruct (flip_op_lengths op k s) as [Lx Lz]. split; [split; lia|].
  unfold tb, flip_op. cbn [pxs pzs pzero].
  rewrite xorv_app by (destruct (xbit op); rewrite ?flipn_length, ?zeros_length; auto). f_equal.
  - destruct (xbit op); [rewrite <- Hx; apply flipn_xor_any|rewrite <- Hx; symmetry; apply xorv_zeros_r].
  - destruct (zbit op); [rewrite <- Hz; apply flipn_xor_any|rewrite <- Hz; symmetry; apply xorv_zeros_r].
Qed.

Section PlanarPath.
  Variables rows cols : Z.
  Let N := planar_n rows cols.
  Let A := act pauli pxs pzs (pzero N) N.
  Lemma planar_site_act op i : A (site rows cols op i).
  Proof.
    unfold A, site. destruct (planar_is_in_bounds rows cols i).
    - apply flip_op_act.
    - apply (act_id pauli pxs pzs (pzero N) N); reflexivity.
  Qed.
  Lemma planar_sites_act op L : A (sites rows cols op L).
  Proof.
    unfold A, sites. apply (act_fold pauli pxs pzs (pzero N) N); try reflexivity. intros i. apply planar_site_act.
  Qed.

  (* path on any Pauli = XOR with the path operator of the identity Pauli *)
  Theorem planar_path_acts_by_xor (a b : idx) (p p' : pauli) :
    length (pxs p) = N -> length (pzs p) = N -> path rows cols a b p = Some p' ->
    exists q, path rows cols a b (new_pauli rows cols) = Some q /\
      p_to_bsf p' = xorv (p_to_bsf p) (p_to_bsf q) /\ length (pxs p') = N /\ length (pzs p') = N.
  Proof.
    intros Hx Hz. unfold path. destruct (planar_translation rows cols a b) as [[rs cs]|]; [|discriminate].
    intros E. injection E as <-. eexists. split; [reflexivity|].
    destruct (planar_sites_act (path_op a) (path_sites a rs cs) p (conj Hx Hz)) as [[Lx Lz] Eb].
    split; [exact Eb|split; assumption].
  Qed.
  (* path(a, b) applied twice restores the Pauli *)
  Theorem planar_path_twice (a b : idx) (p p' : pauli) :
    length (pxs p) = N -> length (pzs p) = N -> path rows cols a b p = Some p' ->
    exists p'', path rows cols a b p' = Some p'' /\ p_to_bsf p'' = p_to_bsf p.
  Proof.
    intros Hx Hz. unfold path. destruct (planar_translation rows cols a b) as [[rs cs]|]; [|discriminate].
    intros E. injection E as <-. eexists. split; [reflexivity|].
    exact (proj2 (act_twice pauli pxs pzs (pzero N) N eq_refl eq_refl _ (planar_sites_act (path_op a) (path_sites a rs cs)) p (conj Hx Hz))).
  Qed.
End PlanarPath.

Section ToricPath.
  Variables rows cols : Z.
  Let N := toric_n rows cols.
  Let A := act pauli pxs pzs (pzero N) N.
  Lemma toric_sites_act op L : A (tsites rows cols op L).
  Proof.
    unfold A, tsites. apply (act_fold pauli pxs pzs (pzero N) N); try reflexivity. intros i. unfold tsite. apply flip_op_act.
  Qed.
  Theorem toric_path_acts_by_xor (a b : tidx) (p p' : pauli) :
    length (pxs p) = N -> length (pzs p) = N -> tpath rows cols a b p = Some p' ->
    exists q, tpath rows cols a b (tnew_pauli rows cols) = Some q /\
      p_to_bsf p' = xorv (p_to_bsf p) (p_to_bsf q) /\ length (pxs p') = N /\ length (pzs p') = N.
  Proof.
    intros Hx Hz. unfold tpath. destruct (toric_translation rows cols a b) as [[rs cs]|]; [|discriminate].
    intros E. injection E as <-. eexists. split; [reflexivity|].
    destruct (toric_sites_act (tpath_op rows cols a) (tpath_sites (mod3 a (tshape rows cols)) rs cs) p (conj Hx Hz)) as [[Lx Lz] Eb].
    split; [exact Eb|split; assumption].
  Qed.
  Theorem toric_path_twice (a b : tidx) (p p' : pauli) :
    length (pxs p) = N -> length (pzs p) = N -> tpath rows cols a b p = Some p' ->
    exists p'', tpath rows cols a b p' = Some p'' /\ p_to_bsf p'' = p_to_bsf p.
  Proof.
    intros Hx Hz. unfold tpath. destruct (toric_translation rows cols a b) as [[rs cs]|]; [|discriminate].
    intros E. injection E as <-. eexists. split; [reflexivity|].
    exact (proj2 (act_twice pauli pxs pzs (pzero N) N eq_refl eq_refl _
                   (toric_sites_act (tpath_op rows cols a) (tpath_sites (mod3 a (tshape rows cols)) rs cs)) p (conj Hx Hz))).
  Qed.
End ToricPath.

(* ---- the rotated-lattice Pauli of Lattice/RotPlanar.v (rotated toric) ---- *)
Lemma rc_flip_act n op k : act rc_pauli rc_xs rc_zs (rc_identity n) n (rc_flip op k).
Proof.
  intros s [Hx Hz]. unfold lens, tb, rc_flip. cbn [rc_xs rc_zs rc_identity]. split.
  - destruct (xbit op), (zbit op); rewrite ?rc_flip_at_length; auto.
  - rewrite xorv_app by (destruct (xbit op); rewrite ?rc_flip_at_length, ?zeros_length; auto). f_equal.
    + destruct (xbit op); [rewrite <- Hx; apply rc_flip_at_xor_any|rewrite <- Hx; symmetry; apply xorv_zeros_r].
    + destruct (zbit op); [rewrite <- Hz; apply rc_flip_at_xor_any|rewrite <- Hz; symmetry; apply xorv_zeros_r].
Qed.

Section RotToricPath.
  Variables rows cols : Z.
  Let N := rt_n rows cols.
  Let A := act rc_pauli rc_xs rc_zs (rc_identity N) N.
  Lemma rottoric_sites_act op L : A (rt_sites rows cols op L).
  Proof.
    unfold A, rt_sites. apply (act_fold rc_pauli rc_xs rc_zs (rc_identity N) N); try reflexivity.
    intros i. unfold rt_site. apply rc_flip_act.
  Qed.
  Theorem rottoric_path_acts_by_xor (a b : Z * Z) (p p' : rc_pauli) :
    length (rc_xs p) = N -> length (rc_zs p) = N -> rt_path rows cols a b p = Some p' ->
    exists q, rt_path rows cols a b (rt_identity rows cols) = Some q /\
      rc_to_bsf p' = xorv (rc_to_bsf p) (rc_to_bsf q) /\ length (rc_xs p') = N /\ length (rc_zs p') = N.
  Proof.
    intros Hx Hz. unfold rt_path. destruct (rt_path_indices rows cols a b) as [L|]; [|discriminate].
    intros E. injection E as <-. eexists. split; [reflexivity|].
    destruct (rottoric_sites_act (if rottoric_is_z_plaquette a then pX else pZ) L p (conj Hx Hz)) as [[Lx Lz] Eb].
    split; [exact Eb|split; assumption].
  Qed.
  Theorem rottoric_path_twice (a b : Z * Z) (p p' : rc_pauli) :
    length (rc_xs p) = N -> length (rc_zs p) = N -> rt_path rows cols a b p = Some p' ->
    exists p'', rt_path rows cols a b p' = Some p'' /\ rc_to_bsf p'' = rc_to_bsf p.
  Proof.
    intros Hx Hz. unfold rt_path. destruct (rt_path_indices rows cols a b) as [L|]; [|discriminate].
    intros E. injection E as <-. eexists. split; [reflexivity|].
    exact (proj2 (act_twice rc_pauli rc_xs rc_zs (rc_identity N) N eq_refl eq_refl _
                   (rottoric_sites_act (if rottoric_is_z_plaquette a then pX else pZ) L) p (conj Hx Hz))).
  Qed.
End RotToricPath.

Print Assumptions planar_path_acts_by_xor.
Print Assumptions planar_path_twice.
Print Assumptions toric_path_acts_by_xor.
Print Assumptions toric_path_twice.
Print Assumptions rottoric_path_acts_by_xor.
Print Assumptions rottoric_path_twice.
