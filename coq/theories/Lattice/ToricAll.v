(* Lattice/ToricAll.v — all-sizes (P-forall) theorems about the toric model of Lattice/Toric.v,
   for every rows, cols >= 2.  Uses the generic dense/sparse transfer (Part A) of Lattice/PlanarAll.v.

   Proved here: the index -> qubit map is a bijection from the in-range indices onto [0, n) and
   is invariant under np.mod; all plaquette operators commute, they commute with the four
   logical operators, X_i / Z_j anticommute exactly when i = j, hence
   validate (toric_code rows cols) = VOk for every size; weights of the logicals (C08 upper bound).
   Not proved for all sizes (statement kept visible): the path theorem on the torus. *)
From Coq Require Import ZArith List Bool Lia ZifyBool.
From QV Require Import Core.Bits Core.Pauli Core.Symp Core.Code Generated.LatticeArith
  Lattice.Planar Lattice.PlanarAll Lattice.Toric.
Import ListNotations.
Open Scope Z_scope.
Ltac Zify.zify_post_hook ::= Z.to_euclidean_division_equations.

(* successor / predecessor on Z_m, for representatives in [0, m) *)
Definition inc (m x : Z) : Z := if x + 1 =? m then 0 else x + 1.
Definition dec (m x : Z) : Z := if x =? 0 then m - 1 else x - 1.
Lemma mod_inc m x : 0 <= x < m -> (x + 1) mod m = inc m x.
Proof.
  intros H. unfold inc. destruct (Z.eqb_spec (x + 1) m) as [E|E].
  - rewrite E. apply Z_mod_same_full.
  - apply Z.mod_small. lia.
Qed.
Lemma mod_dec m x : 0 <= x < m -> (x - 1) mod m = dec m x.
Proof.
  intros H. unfold dec. destruct (Z.eqb_spec x 0) as [E|E].
  - subst x. symmetry. apply (Z.mod_unique_pos (0 - 1) m (-1) (m - 1)); lia.
  - apply Z.mod_small. lia.
Qed.

Definition cnt3 (s : tidx) (B : list tidx) : Z := fold_right (fun t acc => Z.b2z (zeqb3 s t) + acc) 0 B.
Definition pairs3 (A B : list tidx) : Z := fold_right (fun a acc => cnt3 a B + acc) 0 A.
Lemma cnt3_cons s t B : cnt3 s (t :: B) = Z.b2z (zeqb3 s t) + cnt3 s B.
Proof. reflexivity. Qed.
Lemma cnt3_app s A B : cnt3 s (A ++ B) = cnt3 s A + cnt3 s B.
Proof. induction A as [|a A IH]; [reflexivity|]. rewrite <- app_comm_cons, !cnt3_cons, IH. lia. Qed.
Lemma pairs3_cons a A B : pairs3 (a :: A) B = cnt3 a B + pairs3 A B.
Proof. reflexivity. Qed.
Lemma zeqb3_eq a b : zeqb3 a b = true <-> a = b.
Proof.
  destruct a as [[a0 a1] a2], b as [[b0 b1] b2]. unfold zeqb3. split.
  - intros H. f_equal; [f_equal|]; lia.
  - intros H. injection H as -> -> ->. lia.
Qed.
Lemma zeqb3_refl a : zeqb3 a a = true.
Proof. now apply zeqb3_eq. Qed.

(* sums over 0 .. m-1 *)
Definition zsum (f : nat -> Z) (m : nat) : Z := fold_right (fun i acc => f i + acc) 0 (seq 0 m).
Lemma zsum_S f m : zsum f (S m) = zsum f m + f m.
Proof.
  unfold zsum. rewrite seq_S, fold_right_app. cbn [fold_right Nat.add].
  generalize (seq 0 m). intros l. induction l as [|a l IH]; cbn [fold_right]; lia.
Qed.
Lemma zsum_ext f g m : (forall i, (i < m)%nat -> f i = g i) -> zsum f m = zsum g m.
Proof. induction m as [|m IH]; intros H; [reflexivity|]. rewrite !zsum_S, IH, H by (intros; auto; lia). reflexivity. Qed.
Lemma zsum_indicator k m : zsum (fun i => Z.b2z (Z.of_nat i =? k)) m = Z.b2z ((0 <=? k) && (k <? Z.of_nat m)).
Proof. induction m as [|m IH]; [cbn; lia|]. rewrite zsum_S, IH. lia. Qed.
Lemma zsum_zero f m : (forall i, (i < m)%nat -> f i = 0) -> zsum f m = 0.
Proof. induction m as [|m IH]; intros H; [reflexivity|]. rewrite zsum_S, IH, H by (intros; auto; lia). reflexivity. Qed.
Lemma pairs3_map_seq (f : nat -> tidx) m B : pairs3 (map f (seq 0 m)) B = zsum (fun i => cnt3 (f i) B) m.
Proof. unfold pairs3, zsum. generalize (seq 0 m). intros l. induction l as [|a l IH]; cbn [map fold_right]; [reflexivity|]. now rewrite IH. Qed.
Lemma cnt3_map_seq s (f : nat -> tidx) m : cnt3 s (map f (seq 0 m)) = zsum (fun i => Z.b2z (zeqb3 s (f i))) m.
Proof. unfold cnt3, zsum. generalize (seq 0 m). intros l. induction l as [|a l IH]; cbn [map fold_right]; [reflexivity|]. now rewrite IH. Qed.

Section ToricAll.
Variables rows cols : Z.
Hypothesis Hr : 2 <= rows.
Hypothesis Hc : 2 <= cols.

Definition m3 (i : tidx) : tidx := mod3 i (tshape rows cols).
Definition inrange (i : tidx) : Prop := 0 <= fst (fst i) < 2 /\ 0 <= snd (fst i) < rows /\ 0 <= snd i < cols.
Lemma m3_unfold l r c : m3 (l, r, c) = (l mod 2, r mod rows, c mod cols).
Proof. reflexivity. Qed.
Lemma m3_range i : inrange (m3 i).
Proof.
  destruct i as [[l r] c]. rewrite m3_unfold. unfold inrange. cbn [fst snd].
  pose proof (Z.mod_pos_bound l 2). pose proof (Z.mod_pos_bound r rows). pose proof (Z.mod_pos_bound c cols). lia.
Qed.
Lemma m3_id i : inrange i -> m3 i = i.
Proof.
  destruct i as [[l r] c]. unfold inrange. cbn [fst snd]. intros (H1 & H2 & H3). rewrite m3_unfold.
  now rewrite !Z.mod_small by lia.
Qed.
Lemma m3_idem i : m3 (m3 i) = m3 i.
Proof. apply m3_id, m3_range. Qed.

(* ---------- the index map ---------- *)
Lemma tflat_range i : inrange i -> 0 <= tflat rows cols i < 2 * rows * cols.
Proof.
  destruct i as [[l r] c]. unfold inrange, tflat. cbn [fst snd]. intros (H1 & H2 & H3).
  pose proof (lin_range l r 2 rows H1 H2) as HA. pose proof (lin_range (l * rows + r) c (2 * rows) cols HA H3). lia.
Qed.
Lemma tflat_inj i j : inrange i -> inrange j -> tflat rows cols i = tflat rows cols j -> i = j.
Proof.
  destruct i as [[l r] c], j as [[l' r'] c']. unfold inrange, tflat. cbn [fst snd].
  intros (H1 & H2 & H3) (H1' & H2' & H3') H.
  destruct (lin_inj _ _ _ _ cols H3 H3' H) as [HA ->].
  destruct (lin_inj _ _ _ _ rows H2 H2' HA) as [-> ->]. reflexivity.
Qed.
Definition tunflat (k : Z) : tidx := ((k / cols) / rows, (k / cols) mod rows, k mod cols).
Lemma tflat_surj k : 0 <= k < 2 * rows * cols -> inrange (tunflat k) /\ tflat rows cols (tunflat k) = k.
Proof.
  intros Hk. unfold tunflat, inrange, tflat. cbn [fst snd].
  assert (Hq : 0 <= k / cols < 2 * rows) by (split; [apply Z.div_pos; lia|apply Z.div_lt_upper_bound; nia]).
  assert (Hqq : 0 <= k / cols / rows < 2) by (split; [apply Z.div_pos; lia|apply Z.div_lt_upper_bound; lia]).
  pose proof (Z.mod_pos_bound (k / cols) rows ltac:(lia)). pose proof (Z.mod_pos_bound k cols ltac:(lia)).
  split; [lia|].
  pose proof (Z.div_mod (k / cols) rows ltac:(lia)) as D1. pose proof (Z.div_mod k cols ltac:(lia)) as D2.
  replace (k / cols / rows * rows + (k / cols) mod rows) with (k / cols) by lia. lia.
Qed.

Definition tfl (i : tidx) : nat := Z.to_nat (tflat rows cols (m3 i)).
Notation TN := (toric_n rows cols).
Notation always := (fun _ : tidx => true).

Lemma tfl_lt i : (tfl i < TN)%nat.
Proof. unfold tfl, toric_n. pose proof (tflat_range (m3 i) (m3_range i)). lia. Qed.
Lemma tfl_eq i j : tfl i = tfl j <-> m3 i = m3 j.
Proof.
  split; [|unfold tfl; now intros ->]. intros H. apply tflat_inj; auto using m3_range.
  pose proof (tflat_range (m3 i) (m3_range i)). pose proof (tflat_range (m3 j) (m3_range j)). unfold tfl in H. lia.
Qed.

(* C07: the index -> qubit map is a bijection from the in-range indices onto [0, n), invariant under np.mod *)
Theorem toric_flatten_bijective_all :
  (forall i, (tfl i < TN)%nat) /\ (forall i, tfl (m3 i) = tfl i) /\
  (forall i j, inrange i -> inrange j -> tfl i = tfl j -> i = j) /\
  (forall k, (k < TN)%nat -> exists i, inrange i /\ tfl i = k).
Proof.
  split; [exact tfl_lt|]. split; [intros i; unfold tfl; now rewrite m3_idem|]. split.
  - intros i j Hi Hj H. apply tfl_eq in H. now rewrite !m3_id in H.
  - intros k Hk. unfold toric_n in Hk. destruct (tflat_surj (Z.of_nat k) ltac:(lia)) as [H1 H2].
    exists (tunflat (Z.of_nat k)). split; [exact H1|]. unfold tfl. rewrite m3_id, H2 by exact H1. lia.
Qed.

(* ---------- the toric model is the generic dense model ---------- *)
Definition tsop (op : pl) (L : list tidx) : bsf := p_to_bsf (tsites rows cols op L (tnew_pauli rows cols)).
Lemma tsop_gop op L : tsop op L = gop always tfl TN op L.
Proof. reflexivity. Qed.
Lemma tklt L : klt always tfl TN L.
Proof. intros i _ _. apply tfl_lt. Qed.
Lemma filter_always (L : list tidx) : filter always L = L.
Proof. induction L as [|a L IH]; cbn; auto. now rewrite IH. Qed.

Lemma tovk_pairs A B : ovk always tfl A B = Z.odd (pairs3 (map m3 A) (map m3 B)).
Proof.
  unfold ovk, keys. rewrite !filter_always, xsumb_map. unfold pairs3.
  rewrite <- (xsumb_odd (fun a => cnt3 a (map m3 B)) (map m3 A)), xsumb_map.
  apply xsumb_ext. intros a _. rewrite xsumb_map. unfold cnt3.
  rewrite <- (xsumb_odd (fun t => Z.b2z (zeqb3 (m3 a) t)) (map m3 B)), xsumb_map.
  apply xsumb_ext. intros b _.
  destruct (zeqb3 (m3 a) (m3 b)) eqn:E; cbn.
  - apply zeqb3_eq in E. apply Nat.eqb_eq. now apply tfl_eq.
  - apply Nat.eqb_neq. intros Hf. apply tfl_eq in Hf. rewrite Hf, zeqb3_refl in E. discriminate.
Qed.

Theorem bsp_tsop opA A opB B :
  bsp (tsop opA A) (tsop opB B) =
  let P := Z.odd (pairs3 (map m3 A) (map m3 B)) in
  xorb (zbit opA && xbit opB && P) (xbit opA && zbit opB && P).
Proof.
  change (tsop opA A) with (gop always tfl TN opA A). change (tsop opB B) with (gop always tfl TN opB B).
  rewrite bsp_gop by apply tklt. now rewrite tovk_pairs.
Qed.
Lemma tsop_length op L : length (tsop op L) = (TN + TN)%nat.
Proof. rewrite tsop_gop. apply gop_length. Qed.
Lemma bsp_tsop_sym opA A opB B : bsp (tsop opA A) (tsop opB B) = bsp (tsop opB B) (tsop opA A).
Proof. apply bsp_sym; [now rewrite !tsop_length|rewrite tsop_gop; apply gop_even]. Qed.

(* ---------- plaquettes ---------- *)
Definition tstab (q : tidx) : bsf := tsop (tplaq_op rows cols q) (tplaq_sites rows cols q).
Lemma tstabilizers_eq : tstabilizers rows cols = map tstab (tindices rows cols).
Proof. reflexivity. Qed.

Lemma in_tindices q : In q (tindices rows cols) -> inrange q.
Proof.
  unfold tindices, tshape, ndindex3. intros H. apply in_flat_map in H. destruct H as (l & Hl & H).
  apply in_map_iff in H. destruct H as ([r c] & <- & Hrc). apply in_ndindex2 in Hrc. apply in_seq in Hl.
  unfold inrange. cbn [fst snd]. lia.
Qed.

(* canonical (reduced) site lists of a plaquette with an in-range index *)
Definition psites (r c : Z) : list tidx := [(0, r, c); (0, inc rows r, c); (1, r, c); (1, r, inc cols c)].
Definition dsites (r c : Z) : list tidx := [(1, r, c); (1, inc rows r, c); (0, inc rows r, dec cols c); (0, inc rows r, c)].
Lemma tplaq_sites_primal r c : 0 <= r < rows -> 0 <= c < cols ->
  map m3 (tplaq_sites rows cols (0, r, c)) = psites r c /\ tplaq_op rows cols (0, r, c) = pZ.
Proof.
  intros H1 H2. unfold tplaq_sites, tplaq_op. fold (m3 (0, r, c)). rewrite m3_id by (unfold inrange; cbn [fst snd]; lia).
  split; [|reflexivity]. cbn [map]. rewrite !m3_unfold. unfold psites.
  replace (0 + 1) with 1 by lia. replace (r + 0) with r by lia. replace (c - 0) with c by lia.
  rewrite !mod_inc by lia. rewrite !Z.mod_small by lia. reflexivity.
Qed.
Lemma tplaq_sites_dual r c : 0 <= r < rows -> 0 <= c < cols ->
  map m3 (tplaq_sites rows cols (1, r, c)) = dsites r c /\ tplaq_op rows cols (1, r, c) = pX.
Proof.
  intros H1 H2. unfold tplaq_sites, tplaq_op. fold (m3 (1, r, c)). rewrite m3_id by (unfold inrange; cbn [fst snd]; lia).
  split; [|reflexivity]. cbn [map]. rewrite !m3_unfold. unfold dsites.
  replace (c - 1 + 1) with c by lia. replace ((1 + 1) mod 2) with 0 by reflexivity.
  rewrite !mod_inc, !mod_dec by lia. rewrite !Z.mod_small by lia. reflexivity.
Qed.

Lemma plaq_overlap_even3 r c r' c' : 0 <= r < rows -> 0 <= c < cols -> 0 <= r' < rows -> 0 <= c' < cols ->
  Z.odd (pairs3 (psites r c) (dsites r' c')) = false.
Proof.
  intros H1 H2 H3 H4. apply odd_of_mod2_0. unfold psites, dsites, pairs3, cnt3, zeqb3. cbn [fold_right].
  change (0 =? 1) with false. change (1 =? 0) with false. change (0 =? 0) with true. change (1 =? 1) with true.
  cbn [andb Z.b2z]. unfold inc, dec.
  destruct (r + 1 =? rows) eqn:E1, (c + 1 =? cols) eqn:E2, (r' + 1 =? rows) eqn:E3, (c' =? 0) eqn:E4; lia.
Qed.

(* ---------- logical operators ---------- *)
Definition x1_list : list tidx := map (fun i => (0, Z.of_nat i, cols / 2)) (seq 0 (Z.to_nat rows)).
Definition x2_list : list tidx := map (fun i => (1, rows / 2, Z.of_nat i)) (seq 0 (Z.to_nat cols)).
Lemma x1_sites_eq : logical_x1_sites rows cols = x1_list.
Proof. unfold logical_x1_sites, zrange, x1_list. now rewrite map_map. Qed.
Lemma x2_sites_eq : logical_x2_sites rows cols = x2_list.
Proof. unfold logical_x2_sites, zrange, x2_list. now rewrite map_map. Qed.
Definition z1_list : list tidx := map (fun i => (0, rows / 2, Z.of_nat i)) (seq 0 (Z.to_nat cols)).
Definition z2_list : list tidx := map (fun i => (1, Z.of_nat i, cols / 2)) (seq 0 (Z.to_nat rows)).
Lemma z1_sites_eq : logical_z1_sites rows cols = z1_list.
Proof. unfold logical_z1_sites, zrange, z1_list. now rewrite map_map. Qed.
Lemma z2_sites_eq : logical_z2_sites rows cols = z2_list.
Proof. unfold logical_z2_sites, zrange, z2_list. now rewrite map_map. Qed.

(* a column (fixed lattice and column) and a row (fixed lattice and row) of in-range sites are fixed by m3 *)
Lemma map_m3_col l C : 0 <= l < 2 -> 0 <= C < cols ->
  map m3 (map (fun i => (l, Z.of_nat i, C)) (seq 0 (Z.to_nat rows))) = map (fun i => (l, Z.of_nat i, C)) (seq 0 (Z.to_nat rows)).
Proof.
  intros Hl HC. rewrite map_map. apply map_ext_in. intros i Hi. apply in_seq in Hi. apply m3_id.
  unfold inrange. cbn [fst snd]. lia.
Qed.
Lemma map_m3_row l R : 0 <= l < 2 -> 0 <= R < rows ->
  map m3 (map (fun i => (l, R, Z.of_nat i)) (seq 0 (Z.to_nat cols))) = map (fun i => (l, R, Z.of_nat i)) (seq 0 (Z.to_nat cols)).
Proof.
  intros Hl HR. rewrite map_map. apply map_ext_in. intros i Hi. apply in_seq in Hi. apply m3_id.
  unfold inrange. cbn [fst snd]. lia.
Qed.
Lemma half_rows : 0 <= rows / 2 < rows.
Proof. lia. Qed.
Lemma half_cols : 0 <= cols / 2 < cols.
Proof. lia. Qed.

Lemma cnt3_col s l C m : cnt3 s (map (fun i => (l, Z.of_nat i, C)) (seq 0 m)) =
  Z.b2z ((fst (fst s) =? l) && (snd s =? C) && (0 <=? snd (fst s)) && (snd (fst s) <? Z.of_nat m)).
Proof.
  rewrite cnt3_map_seq. destruct s as [[s0 s1] s2]. cbn [fst snd].
  rewrite (zsum_ext _ (fun i => Z.b2z ((s0 =? l) && (s2 =? C)) * Z.b2z (Z.of_nat i =? s1))).
  - unfold zsum. assert (G : forall L, fold_right (fun i acc => Z.b2z ((s0 =? l) && (s2 =? C)) * Z.b2z (Z.of_nat i =? s1) + acc) 0 L
      = Z.b2z ((s0 =? l) && (s2 =? C)) * fold_right (fun i acc => Z.b2z (Z.of_nat i =? s1) + acc) 0 L).
    { induction L as [|a L IH]; cbn [fold_right]; [lia|]. rewrite IH. lia. }
    rewrite G. fold (zsum (fun i => Z.b2z (Z.of_nat i =? s1)) m). rewrite zsum_indicator. lia.
  - intros i _. unfold zeqb3. lia.
Qed.
Lemma cnt3_row s l R m : cnt3 s (map (fun i => (l, R, Z.of_nat i)) (seq 0 m)) =
  Z.b2z ((fst (fst s) =? l) && (snd (fst s) =? R) && (0 <=? snd s) && (snd s <? Z.of_nat m)).
Proof.
  rewrite cnt3_map_seq. destruct s as [[s0 s1] s2]. cbn [fst snd].
  rewrite (zsum_ext _ (fun i => Z.b2z ((s0 =? l) && (s1 =? R)) * Z.b2z (Z.of_nat i =? s2))).
  - unfold zsum. assert (G : forall L, fold_right (fun i acc => Z.b2z ((s0 =? l) && (s1 =? R)) * Z.b2z (Z.of_nat i =? s2) + acc) 0 L
      = Z.b2z ((s0 =? l) && (s1 =? R)) * fold_right (fun i acc => Z.b2z (Z.of_nat i =? s2) + acc) 0 L).
    { induction L as [|a L IH]; cbn [fold_right]; [lia|]. rewrite IH. lia. }
    rewrite G. fold (zsum (fun i => Z.b2z (Z.of_nat i =? s2)) m). rewrite zsum_indicator. lia.
  - intros i _. unfold zeqb3. lia.
Qed.

(* reduced site lists of the four logicals *)
Lemma m3_x1 : map m3 x1_list = x1_list.
Proof. apply map_m3_col; [lia|apply half_cols]. Qed.
Lemma m3_z2 : map m3 z2_list = z2_list.
Proof. apply map_m3_col; [lia|apply half_cols]. Qed.
Lemma m3_x2 : map m3 x2_list = x2_list.
Proof. apply map_m3_row; [lia|apply half_rows]. Qed.
Lemma m3_z1 : map m3 z1_list = z1_list.
Proof. apply map_m3_row; [lia|apply half_rows]. Qed.

(* plaquettes against logicals: every plaquette meets each logical line in 0 or 2 sites *)
Ltac four_sites := cbn [pairs3 fold_right]; rewrite ?cnt3_col, ?cnt3_row, ?Z2Nat.id by lia; cbn [fst snd].
Lemma psites_x1 r c : 0 <= r < rows -> 0 <= c < cols -> Z.odd (pairs3 (psites r c) x1_list) = false.
Proof.
  intros H1 H2. apply odd_of_mod2_0. unfold psites, x1_list. four_sites. unfold inc.
  destruct (r + 1 =? rows) eqn:E1, (c + 1 =? cols) eqn:E2; lia.
Qed.
Lemma psites_x2 r c : 0 <= r < rows -> 0 <= c < cols -> Z.odd (pairs3 (psites r c) x2_list) = false.
Proof.
  intros H1 H2. apply odd_of_mod2_0. unfold psites, x2_list. four_sites. unfold inc.
  destruct (r + 1 =? rows) eqn:E1, (c + 1 =? cols) eqn:E2; lia.
Qed.
Lemma dsites_z1 r c : 0 <= r < rows -> 0 <= c < cols -> Z.odd (pairs3 (dsites r c) z1_list) = false.
Proof.
  intros H1 H2. apply odd_of_mod2_0. unfold dsites, z1_list. four_sites. unfold inc, dec.
  destruct (r + 1 =? rows) eqn:E1, (c =? 0) eqn:E2; lia.
Qed.
Lemma dsites_z2 r c : 0 <= r < rows -> 0 <= c < cols -> Z.odd (pairs3 (dsites r c) z2_list) = false.
Proof.
  intros H1 H2. apply odd_of_mod2_0. unfold dsites, z2_list. four_sites. unfold inc, dec.
  destruct (r + 1 =? rows) eqn:E1, (c =? 0) eqn:E2; lia.
Qed.

(* logicals against logicals *)
Lemma x1_z1_odd : Z.odd (pairs3 x1_list z1_list) = true.
Proof.
  apply odd_of_mod2_1. unfold x1_list at 1. rewrite pairs3_map_seq.
  rewrite (zsum_ext _ (fun i => Z.b2z (Z.of_nat i =? rows / 2))).
  - rewrite zsum_indicator. lia.
  - intros i _. unfold z1_list. rewrite cnt3_row. cbn [fst snd]. lia.
Qed.
Lemma x2_z2_odd : Z.odd (pairs3 x2_list z2_list) = true.
Proof.
  apply odd_of_mod2_1. unfold x2_list at 1. rewrite pairs3_map_seq.
  rewrite (zsum_ext _ (fun i => Z.b2z (Z.of_nat i =? cols / 2))).
  - rewrite zsum_indicator. lia.
  - intros i _. unfold z2_list. rewrite cnt3_col. cbn [fst snd]. lia.
Qed.
Lemma x1_z2_even : Z.odd (pairs3 x1_list z2_list) = false.
Proof.
  apply odd_of_mod2_0. unfold x1_list at 1. rewrite pairs3_map_seq, zsum_zero; [reflexivity|].
  intros i _. unfold z2_list. rewrite cnt3_col. cbn [fst snd]. lia.
Qed.
Lemma x2_z1_even : Z.odd (pairs3 x2_list z1_list) = false.
Proof.
  apply odd_of_mod2_0. unfold x2_list at 1. rewrite pairs3_map_seq, zsum_zero; [reflexivity|].
  intros i _. unfold z1_list. rewrite cnt3_row. cbn [fst snd]. lia.
Qed.

(* ---------- validity for every size ---------- *)
Definition x1op : bsf := tsop pX (logical_x1_sites rows cols).
Definition x2op : bsf := tsop pX (logical_x2_sites rows cols).
Definition z1op : bsf := tsop pZ (logical_z1_sites rows cols).
Definition z2op : bsf := tsop pZ (logical_z2_sites rows cols).
Lemma tcode_eq : toric_code rows cols = mkCode (map tstab (tindices rows cols)) [x1op; x2op] [z1op; z2op].
Proof. reflexivity. Qed.

Lemma tindex_cases q : In q (tindices rows cols) ->
  exists l r c, q = (l, r, c) /\ (l = 0 \/ l = 1) /\ 0 <= r < rows /\ 0 <= c < cols.
Proof.
  intros H. apply in_tindices in H. destruct q as [[l r] c]. unfold inrange in H. cbn [fst snd] in H.
  exists l, r, c. split; [reflexivity|]. lia.
Qed.

Lemma tstab_pd r c r' c' : 0 <= r < rows -> 0 <= c < cols -> 0 <= r' < rows -> 0 <= c' < cols ->
  bsp (tstab (0, r, c)) (tstab (1, r', c')) = false.
Proof.
  intros H1 H2 H3 H4. unfold tstab. rewrite bsp_tsop. cbv zeta.
  destruct (tplaq_sites_primal r c H1 H2) as [-> ->]. destruct (tplaq_sites_dual r' c' H3 H4) as [-> ->].
  cbn [xbit zbit andb]. now rewrite plaq_overlap_even3.
Qed.

Theorem toric_stabilizers_commute p q :
  In p (tindices rows cols) -> In q (tindices rows cols) -> bsp (tstab p) (tstab q) = false.
Proof.
  intros Hp Hq. destruct (tindex_cases p Hp) as (l & r & c & -> & Hl & H1 & H2).
  destruct (tindex_cases q Hq) as (l' & r' & c' & -> & Hl' & H3 & H4).
  destruct Hl as [-> | ->], Hl' as [-> | ->].
  - unfold tstab. rewrite bsp_tsop. cbv zeta.
    destruct (tplaq_sites_primal r c H1 H2) as [_ ->]. destruct (tplaq_sites_primal r' c' H3 H4) as [_ ->]. reflexivity.
  - now apply tstab_pd.
  - unfold tstab. rewrite bsp_tsop_sym. now apply tstab_pd.
  - unfold tstab. rewrite bsp_tsop. cbv zeta.
    destruct (tplaq_sites_dual r c H1 H2) as [_ ->]. destruct (tplaq_sites_dual r' c' H3 H4) as [_ ->]. reflexivity.
Qed.

Theorem toric_stabilizer_logicals p : In p (tindices rows cols) ->
  bsp (tstab p) x1op = false /\ bsp (tstab p) x2op = false /\ bsp (tstab p) z1op = false /\ bsp (tstab p) z2op = false.
Proof.
  intros Hp. destruct (tindex_cases p Hp) as (l & r & c & -> & Hl & H1 & H2).
  unfold tstab, x1op, x2op, z1op, z2op. rewrite !bsp_tsop. cbv zeta.
  rewrite x1_sites_eq, x2_sites_eq, z1_sites_eq, z2_sites_eq, m3_x1, m3_x2, m3_z1, m3_z2.
  destruct Hl as [-> | ->].
  - destruct (tplaq_sites_primal r c H1 H2) as [-> ->]. cbn [xbit zbit andb].
    rewrite psites_x1, psites_x2 by assumption. auto.
  - destruct (tplaq_sites_dual r c H1 H2) as [-> ->]. cbn [xbit zbit andb].
    rewrite dsites_z1, dsites_z2 by assumption. auto.
Qed.

Theorem toric_logicals_canonical : canonical [x1op; x2op] [z1op; z2op].
Proof.
  assert (XZ : bsp x1op z1op = true /\ bsp x1op z2op = false /\ bsp x2op z1op = false /\ bsp x2op z2op = true).
  { unfold x1op, x2op, z1op, z2op. rewrite !bsp_tsop. cbv zeta.
    rewrite x1_sites_eq, x2_sites_eq, z1_sites_eq, z2_sites_eq, m3_x1, m3_x2, m3_z1, m3_z2. cbn [xbit zbit andb].
    now rewrite x1_z1_odd, x1_z2_even, x2_z1_even, x2_z2_odd. }
  destruct XZ as (A & B & C & D).
  assert (ZX : bsp z1op x1op = true /\ bsp z2op x1op = false /\ bsp z1op x2op = false /\ bsp z2op x2op = true).
  { unfold x1op, x2op, z1op, z2op in *. rewrite (bsp_tsop_sym pZ _ pX (logical_x1_sites rows cols)).
    rewrite (bsp_tsop_sym pZ (logical_z2_sites rows cols) pX (logical_x1_sites rows cols)).
    rewrite (bsp_tsop_sym pZ (logical_z1_sites rows cols) pX (logical_x2_sites rows cols)).
    rewrite (bsp_tsop_sym pZ (logical_z2_sites rows cols) pX (logical_x2_sites rows cols)). auto. }
  destruct ZX as (A' & B' & C' & D').
  assert (XX : forall a b, bsp (tsop pX a) (tsop pX b) = false) by (intros; now rewrite bsp_tsop).
  assert (ZZ : forall a b, bsp (tsop pZ a) (tsop pZ b) = false) by (intros; now rewrite bsp_tsop).
  intros i j Hi Hj. cbn [length] in Hi, Hj.
  destruct i as [|[|i]]; [| |lia]; (destruct j as [|[|j]]; [| |lia]); cbn [nth Nat.eqb];
    unfold x1op, x2op, z1op, z2op in *; rewrite ?XX, ?ZZ; auto.
Qed.

Theorem toric_valid_all : validate (toric_code rows cols) = VOk.
Proof.
  apply validate_iff_canonical; [reflexivity|]. rewrite tcode_eq. cbn [stabs lxs lzs logicals]. split; [|split].
  - intros s s' Hs Hs'. apply in_map_iff in Hs, Hs'. destruct Hs as (p & <- & Hp), Hs' as (q & <- & Hq).
    now apply toric_stabilizers_commute.
  - intros s l Hs Hl. apply in_map_iff in Hs. destruct Hs as (p & <- & Hp).
    destruct (toric_stabilizer_logicals p Hp) as (A & B & C & D).
    cbn in Hl. destruct Hl as [<-|[<-|[<-|[<-|[]]]]]; assumption.
  - apply toric_logicals_canonical.
Qed.

(* ---------- weights of the logicals: C08 upper bound ---------- *)
Lemma tsop_weight_nodup op L : op <> pI -> (forall a, In a L -> inrange a) -> NoDup L -> bsf_wt (tsop op L) = length L.
Proof.
  intros Hop Hin Hnd. change (tsop op L) with (gop always tfl TN op L).
  rewrite bsf_wt_gop_nodup; auto using tklt.
  - unfold keys. now rewrite map_length, filter_always.
  - unfold keys. rewrite filter_always. apply NoDup_map_inj_in; auto.
    intros x y Hx Hy H. apply tfl_eq in H. rewrite !m3_id in H by auto. exact H.
Qed.
Lemma col_list_props l C : 0 <= l < 2 -> 0 <= C < cols ->
  let L := map (fun i => (l, Z.of_nat i, C)) (seq 0 (Z.to_nat rows)) in
  (forall a, In a L -> inrange a) /\ NoDup L /\ Z.of_nat (length L) = rows.
Proof.
  intros Hl HC L. split; [|split].
  - intros a Ha. apply in_map_iff in Ha. destruct Ha as (i & <- & Hi). apply in_seq in Hi. unfold inrange. cbn [fst snd]. lia.
  - apply NoDup_map_inj_in; [|apply seq_NoDup]. intros x y _ _ H.
    apply (f_equal (fun t : tidx => snd (fst t))) in H. cbn [fst snd] in H. lia.
  - unfold L. rewrite map_length, seq_length. lia.
Qed.
Lemma row_list_props l R : 0 <= l < 2 -> 0 <= R < rows ->
  let L := map (fun i => (l, R, Z.of_nat i)) (seq 0 (Z.to_nat cols)) in
  (forall a, In a L -> inrange a) /\ NoDup L /\ Z.of_nat (length L) = cols.
Proof.
  intros Hl HR L. split; [|split].
  - intros a Ha. apply in_map_iff in Ha. destruct Ha as (i & <- & Hi). apply in_seq in Hi. unfold inrange. cbn [fst snd]. lia.
  - apply NoDup_map_inj_in; [|apply seq_NoDup]. intros x y _ _ H.
    apply (f_equal (fun t : tidx => snd t)) in H. cbn [fst snd] in H. lia.
  - unfold L. rewrite map_length, seq_length. lia.
Qed.
Theorem toric_logical_weights :
  Z.of_nat (bsf_wt x1op) = rows /\ Z.of_nat (bsf_wt x2op) = cols /\
  Z.of_nat (bsf_wt z1op) = cols /\ Z.of_nat (bsf_wt z2op) = rows.
Proof.
  unfold x1op, x2op, z1op, z2op. rewrite x1_sites_eq, x2_sites_eq, z1_sites_eq, z2_sites_eq.
  destruct (col_list_props 0 (cols / 2) ltac:(lia) half_cols) as (A1 & A2 & A3).
  destruct (col_list_props 1 (cols / 2) ltac:(lia) half_cols) as (B1 & B2 & B3).
  destruct (row_list_props 0 (rows / 2) ltac:(lia) half_rows) as (C1 & C2 & C3).
  destruct (row_list_props 1 (rows / 2) ltac:(lia) half_rows) as (D1 & D2 & D3).
  unfold x1_list, x2_list, z1_list, z2_list.
  rewrite !tsop_weight_nodup; auto; discriminate.
Qed.
(* C08 upper bound, all sizes: d = min(rows, cols) is the weight of a supplied logical (X1 when rows <= cols, X2
   otherwise) that commutes with all stabilizers and anticommutes with its partner; no supplied logical is lighter *)
Theorem toric_distance_upper :
  let '(n, k, d) := toric_n_k_d rows cols in
  d = Z.min rows cols /\
  (Z.of_nat (bsf_wt x1op) = d \/ Z.of_nat (bsf_wt x2op) = d) /\
  d <= Z.of_nat (bsf_wt x1op) /\ d <= Z.of_nat (bsf_wt x2op) /\ d <= Z.of_nat (bsf_wt z1op) /\ d <= Z.of_nat (bsf_wt z2op).
Proof.
  unfold toric_n_k_d. cbv beta iota zeta. destruct toric_logical_weights as (A & B & C & D). rewrite A, B, C, D. lia.
Qed.

(* ================================================================== *)
(** * Paths on the torus                                               *)
(* ================================================================== *)
Lemma mod_dec' m x : 0 < m -> (x - 1) mod m = dec m (x mod m).
Proof. intros Hm. rewrite <- Zminus_mod_idemp_l. apply mod_dec. apply Z.mod_pos_bound. lia. Qed.
Lemma mod_inc' m x : 0 < m -> (x + 1) mod m = inc m (x mod m).
Proof. intros Hm. rewrite <- Zplus_mod_idemp_l. apply mod_inc. apply Z.mod_pos_bound. lia. Qed.

(* reduced site list of the plaquette with in-range index q; plaquette q sits at position x when q = m3 x *)
Definition csites (q : tidx) : list tidx :=
  let '(l, r, c) := q in if l =? 0 then psites r c else dsites r c.
Definition peq (q x : tidx) : bool := zeqb3 q (m3 x).
Definition wsum3 (L : list tidx) (q : tidx) : Z := fold_right (fun s acc => cnt3 (m3 s) (csites q) + acc) 0 L.
Lemma wsum3_app L1 L2 q : wsum3 (L1 ++ L2) q = wsum3 L1 q + wsum3 L2 q.
Proof. unfold wsum3. induction L1 as [|a L IH]; cbn [app fold_right]; [lia|]. rewrite IH. lia. Qed.
Lemma pairs3_wsum3 L q : pairs3 (map m3 L) (csites q) = wsum3 L q.
Proof. unfold pairs3, wsum3. induction L as [|a L IH]; cbn [map fold_right]; [reflexivity|]. now rewrite IH. Qed.

(* a site on the lattice of q, read as the north edge of position (l, r, c): it belongs to the plaquettes at
   (l, r, c) and at (l, r - 1, c) *)
Lemma nsite_overlap l qr qc r c : (l = 0 \/ l = 1) -> 0 <= qr < rows -> 0 <= qc < cols ->
  cnt3 (m3 (l, r, c)) (csites (l, qr, qc)) = Z.b2z (peq (l, qr, qc) (l, r, c)) + Z.b2z (peq (l, qr, qc) (l, r - 1, c)).
Proof.
  intros Hl H1 H2. unfold peq. rewrite !m3_unfold, mod_dec' by lia.
  pose proof (Z.mod_pos_bound r rows ltac:(lia)) as Hp. pose proof (Z.mod_pos_bound c cols ltac:(lia)) as Hpc.
  set (p := r mod rows) in *. set (pc := c mod cols) in *. clearbody p pc.
  destruct Hl as [-> | ->]; cbn [csites Z.eqb]; unfold psites, dsites, cnt3, zeqb3; cbn [fold_right];
    rewrite ?Z.mod_small by lia;
    change (0 =? 1) with false; change (1 =? 0) with false; change (0 =? 0) with true; change (1 =? 1) with true;
    cbn [andb Z.b2z]; unfold inc, dec;
    destruct (qr + 1 =? rows) eqn:E1, (p =? 0) eqn:E2; lia.
Qed.
(* the west edge of position (l, r, c), i.e. the site (l + 1, r + l, c - l): it belongs to the plaquettes at
   (l, r, c) and at (l, r, c - 1) *)
Lemma wsite_overlap l qr qc r c : (l = 0 \/ l = 1) -> 0 <= qr < rows -> 0 <= qc < cols ->
  cnt3 (m3 (l + 1, r + l, c - l)) (csites (l, qr, qc)) =
  Z.b2z (peq (l, qr, qc) (l, r, c)) + Z.b2z (peq (l, qr, qc) (l, r, c - 1)).
Proof.
  intros Hl H1 H2. unfold peq. rewrite !m3_unfold, (mod_dec' cols c) by lia.
  pose proof (Z.mod_pos_bound r rows ltac:(lia)) as Hp. pose proof (Z.mod_pos_bound c cols ltac:(lia)) as Hpc.
  destruct Hl as [-> | ->].
  - replace (r + 0) with r by lia. replace (c - 0) with c by lia.
    set (p := r mod rows) in *. set (pc := c mod cols) in *. clearbody p pc.
    cbn [csites Z.eqb]. unfold psites, cnt3, zeqb3. cbn [fold_right]. rewrite ?Z.mod_small by lia.
    change ((0 + 1) mod 2) with 1.
    change (0 =? 1) with false; change (1 =? 0) with false; change (0 =? 0) with true; change (1 =? 1) with true.
    cbn [andb Z.b2z]. unfold inc, dec. destruct (qc + 1 =? cols) eqn:E1, (pc =? 0) eqn:E2; lia.
  - rewrite (mod_inc' rows r), (mod_dec' cols c) by lia.
    set (p := r mod rows) in *. set (pc := c mod cols) in *. clearbody p pc.
    cbn [csites Z.eqb]. unfold dsites, cnt3, zeqb3. cbn [fold_right]. rewrite ?Z.mod_small by lia.
    change ((1 + 1) mod 2) with 0.
    change (0 =? 1) with false; change (1 =? 0) with false; change (0 =? 0) with true; change (1 =? 1) with true.
    cbn [andb Z.b2z]. unfold inc, dec.
    destruct (qr + 1 =? rows) eqn:E1, (qc =? 0) eqn:E2, (p + 1 =? rows) eqn:E3, (pc =? 0) eqn:E4; lia.
Qed.

Lemma tri_eq (a b c a' b' c' : Z) : a = a' -> b = b' -> c = c' -> (a, b, c) = (a', b', c').
Proof. now intros -> -> ->. Qed.

Section Legs.
Variables (l qr qc : Z).
Hypothesis Hl : l = 0 \/ l = 1.
Hypothesis Hqr : 0 <= qr < rows.
Hypothesis Hqc : 0 <= qc < cols.
Notation q := (l, qr, qc).

Lemma tele (A B C W : Z) : W mod 2 = (B + C) mod 2 -> (A + B + W) mod 2 = (A + C) mod 2.
Proof. lia. Qed.

Lemma leg_pre_north k : forall r c,
  wsum3 (twalk_pre k (-1, 0) (l, r, c)) q mod 2 = (Z.b2z (peq q (l, r, c)) + Z.b2z (peq q (l, r - Z.of_nat k, c))) mod 2.
Proof.
  induction k as [|k IH]; intros r c.
  - cbn [twalk_pre wsum3 fold_right]. replace (r - Z.of_nat 0) with r by lia. destruct (peq q (l, r, c)); reflexivity.
  - cbn [twalk_pre tstep fst snd]. replace (l, r + -1, c + 0) with (l, r - 1, c) by (apply tri_eq; lia).
    change (wsum3 ((l, r, c) :: twalk_pre k (-1, 0) (l, r - 1, c)) q)
      with (cnt3 (m3 (l, r, c)) (csites q) + wsum3 (twalk_pre k (-1, 0) (l, r - 1, c)) q).
    rewrite (nsite_overlap l qr qc r c Hl Hqr Hqc).
    replace (r - Z.of_nat (S k)) with (r - 1 - Z.of_nat k) by lia. apply tele, IH.
Qed.
Lemma leg_post_south k : forall r c,
  wsum3 (twalk_post k (1, 0) (l, r, c)) q mod 2 = (Z.b2z (peq q (l, r, c)) + Z.b2z (peq q (l, r + Z.of_nat k, c))) mod 2.
Proof.
  induction k as [|k IH]; intros r c.
  - cbn [twalk_post wsum3 fold_right]. replace (r + Z.of_nat 0) with r by lia. destruct (peq q (l, r, c)); reflexivity.
  - cbn [twalk_post tstep fst snd]. replace (l, r + 1, c + 0) with (l, r + 1, c) by (apply tri_eq; lia).
    change (wsum3 ((l, r + 1, c) :: twalk_post k (1, 0) (l, r + 1, c)) q)
      with (cnt3 (m3 (l, r + 1, c)) (csites q) + wsum3 (twalk_post k (1, 0) (l, r + 1, c)) q).
    rewrite (nsite_overlap l qr qc (r + 1) c Hl Hqr Hqc). replace (r + 1 - 1) with r by lia.
    replace (r + Z.of_nat (S k)) with (r + 1 + Z.of_nat k) by lia.
    rewrite (Z.add_comm (Z.b2z (peq q (l, r + 1, c)))). apply tele, IH.
Qed.
Lemma leg_pre_west k : forall r c,
  wsum3 (twalk_pre k (0, -1) (l + 1, r + l, c - l)) q mod 2 =
  (Z.b2z (peq q (l, r, c)) + Z.b2z (peq q (l, r, c - Z.of_nat k))) mod 2.
Proof.
  induction k as [|k IH]; intros r c.
  - cbn [twalk_pre wsum3 fold_right]. replace (c - Z.of_nat 0) with c by lia. destruct (peq q (l, r, c)); reflexivity.
  - cbn [twalk_pre tstep fst snd].
    replace (l + 1, r + l + 0, c - l + -1) with (l + 1, r + l, c - 1 - l) by (apply tri_eq; lia).
    change (wsum3 ((l + 1, r + l, c - l) :: twalk_pre k (0, -1) (l + 1, r + l, c - 1 - l)) q)
      with (cnt3 (m3 (l + 1, r + l, c - l)) (csites q) + wsum3 (twalk_pre k (0, -1) (l + 1, r + l, c - 1 - l)) q).
    rewrite (wsite_overlap l qr qc r c Hl Hqr Hqc).
    replace (c - Z.of_nat (S k)) with (c - 1 - Z.of_nat k) by lia. apply tele, IH.
Qed.
Lemma leg_post_east k : forall r c,
  wsum3 (twalk_post k (0, 1) (l + 1, r + l, c - l)) q mod 2 =
  (Z.b2z (peq q (l, r, c)) + Z.b2z (peq q (l, r, c + Z.of_nat k))) mod 2.
Proof.
  induction k as [|k IH]; intros r c.
  - cbn [twalk_post wsum3 fold_right]. replace (c + Z.of_nat 0) with c by lia. destruct (peq q (l, r, c)); reflexivity.
  - cbn [twalk_post tstep fst snd].
    replace (l + 1, r + l + 0, c - l + 1) with (l + 1, r + l, c + 1 - l) by (apply tri_eq; lia).
    change (wsum3 ((l + 1, r + l, c + 1 - l) :: twalk_post k (0, 1) (l + 1, r + l, c + 1 - l)) q)
      with (cnt3 (m3 (l + 1, r + l, c + 1 - l)) (csites q) + wsum3 (twalk_post k (0, 1) (l + 1, r + l, c + 1 - l)) q).
    rewrite (wsite_overlap l qr qc r (c + 1) Hl Hqr Hqc). replace (c + 1 - 1) with c by lia.
    replace (c + Z.of_nat (S k)) with (c + 1 + Z.of_nat k) by lia.
    rewrite (Z.add_comm (Z.b2z (peq q (l, r, c + 1)))). apply tele, IH.
Qed.

Lemma twalk_end_eq k : forall d x, twalk_end k d x =
  (fst (fst x), snd (fst x) + Z.of_nat k * fst d, snd x + Z.of_nat k * snd d).
Proof.
  induction k as [|k IH]; intros d [[xl xr] xc].
  - cbn [twalk_end fst snd]. apply tri_eq; lia.
  - cbn [twalk_end]. rewrite IH. unfold tstep. cbn [fst snd]. apply tri_eq; lia.
Qed.

Lemma tpath_sites_wsum r c rs cs :
  wsum3 (tpath_sites (l, r, c) rs cs) q mod 2 =
  (Z.b2z (peq q (l, r, c)) + Z.b2z (peq q (l, r + rs, c + cs))) mod 2.
Proof.
  unfold tpath_sites. rewrite !wsum3_app, !twalk_end_eq. cbn [fst snd].
  set (kn := Z.to_nat (- rs)). set (ks := Z.to_nat rs). set (kw := Z.to_nat (- cs)). set (ke := Z.to_nat cs).
  replace (r + Z.of_nat kn * -1) with (r - Z.of_nat kn) by lia. replace (c + Z.of_nat kn * 0) with c by lia.
  replace (r - Z.of_nat kn + Z.of_nat ks * 1) with (r + rs) by lia. replace (c + Z.of_nat ks * 0) with c by lia.
  replace (r + rs + l + Z.of_nat kw * 0) with (r + rs + l) by lia.
  replace (c - l + Z.of_nat kw * -1) with (c - Z.of_nat kw - l) by lia.
  pose proof (leg_pre_north kn r c) as W1. pose proof (leg_post_south ks (r - Z.of_nat kn) c) as W2.
  pose proof (leg_pre_west kw (r + rs) c) as W3. pose proof (leg_post_east ke (r + rs) (c - Z.of_nat kw)) as W4.
  replace (r - Z.of_nat kn + Z.of_nat ks) with (r + rs) in W2 by lia.
  replace (c - Z.of_nat kw + Z.of_nat ke) with (c + cs) in W4 by lia.
  set (A0 := Z.b2z (peq q (l, r, c))) in *. set (A1 := Z.b2z (peq q (l, r - Z.of_nat kn, c))) in *.
  set (A2 := Z.b2z (peq q (l, r + rs, c))) in *. set (A3 := Z.b2z (peq q (l, r + rs, c - Z.of_nat kw))) in *.
  set (A4 := Z.b2z (peq q (l, r + rs, c + cs))) in *.
  set (X1 := wsum3 (twalk_pre kn (-1, 0) (l, r, c)) q) in *.
  set (X2 := wsum3 (twalk_post ks (1, 0) (l, r - Z.of_nat kn, c)) q) in *.
  set (X3 := wsum3 (twalk_pre kw (0, -1) (l + 1, r + rs + l, c - l)) q) in *.
  set (X4 := wsum3 (twalk_post ke (0, 1) (l + 1, r + rs + l, c - Z.of_nat kw - l)) q) in *.
  clearbody A0 A1 A2 A3 A4 X1 X2 X3 X4. lia.
Qed.
End Legs.

Lemma csites_eq l r c : (l = 0 \/ l = 1) -> 0 <= r < rows -> 0 <= c < cols ->
  map m3 (tplaq_sites rows cols (l, r, c)) = csites (l, r, c) /\
  tplaq_op rows cols (l, r, c) = (if l =? 0 then pZ else pX).
Proof.
  intros [-> | ->] H1 H2; cbn [csites Z.eqb]; [now apply tplaq_sites_primal|now apply tplaq_sites_dual].
Qed.

(* the generated translation leads from a to b modulo the period *)
Lemma translation_end a b : fst (fst (m3 a)) = fst (fst (m3 b)) ->
  exists rs cs, toric_translation rows cols a b = Some (rs, cs) /\
    m3 (fst (fst (m3 a)), snd (fst (m3 a)) + rs, snd (m3 a) + cs) = m3 b.
Proof.
  destruct a as [[a0 a1] a2], b as [[b0 b1] b2]. rewrite !m3_unfold. cbn [fst snd]. intros Hl.
  cbv beta iota zeta delta [toric_translation mod3]. rewrite Hl, Z.eqb_refl. cbn [negb].
  eexists. eexists. split; [reflexivity|]. rewrite m3_unfold. apply tri_eq.
  - apply Zmod_mod.
  - set (ar := a1 mod rows). set (br := b1 mod rows).
    assert (Hbr : br mod rows = br) by (unfold br; apply Zmod_mod).
    destruct ((br - ar) mod rows <=? (ar - br) mod rows).
    + rewrite Zplus_mod_idemp_r. replace (ar + (br - ar)) with br by lia. exact Hbr.
    + replace (ar + - ((ar - br) mod rows)) with (ar - (ar - br) mod rows) by lia.
      rewrite Zminus_mod_idemp_r. replace (ar - (ar - br)) with br by lia. exact Hbr.
  - set (ac := a2 mod cols). set (bc := b2 mod cols).
    assert (Hbc : bc mod cols = bc) by (unfold bc; apply Zmod_mod).
    destruct ((bc - ac) mod cols <=? (ac - bc) mod cols).
    + rewrite Zplus_mod_idemp_r. replace (ac + (bc - ac)) with bc by lia. exact Hbc.
    + replace (ac + - ((ac - bc) mod cols)) with (ac - (ac - bc) mod cols) by lia.
      rewrite Zminus_mod_idemp_r. replace (ac - (ac - bc)) with bc by lia. exact Hbc.
Qed.

(* C15 on the torus, one syndrome bit: the path between two plaquettes of the same lattice (indices taken modulo
   the shape) anticommutes with the stabilizer of plaquette q exactly when q is one of its two ends *)
Theorem toric_path_syndrome_bit a b q : fst (fst (m3 a)) = fst (fst (m3 b)) -> In q (tindices rows cols) ->
  exists p, tpath rows cols a b (tnew_pauli rows cols) = Some p /\
    bsp (p_to_bsf p) (tstab q) = xorb (zeqb3 q (m3 a)) (zeqb3 q (m3 b)).
Proof.
  intros Hl Hq. destruct (translation_end a b Hl) as (rs & cs & Ht & Hend).
  unfold tpath. rewrite Ht. eexists. split; [reflexivity|].
  change (p_to_bsf (tsites rows cols (tpath_op rows cols a) (tpath_sites (mod3 a (tshape rows cols)) rs cs) (tnew_pauli rows cols)))
    with (tsop (tpath_op rows cols a) (tpath_sites (m3 a) rs cs)).
  unfold tstab. rewrite bsp_tsop. cbv zeta.
  destruct (tindex_cases q Hq) as (ql & qr & qc & -> & Hql & Hqr & Hqc).
  destruct (csites_eq ql qr qc Hql Hqr Hqc) as [-> ->].
  unfold tpath_op. fold (m3 a). pose proof (m3_range a) as Ha. pose proof (m3_idem a) as Hida.
  destruct (m3 a) as [[l r] c] eqn:Ea. unfold inrange in Ha. cbn [fst snd] in Ha, Hend, Hl.
  assert (Hl01 : l = 0 \/ l = 1) by lia.
  rewrite pairs3_wsum3.
  destruct (Z.eq_dec ql l) as [->|Hne].
  - assert (HP : Z.odd (wsum3 (tpath_sites (l, r, c) rs cs) (l, qr, qc)) = xorb (zeqb3 (l, qr, qc) (l, r, c)) (zeqb3 (l, qr, qc) (m3 b))).
    { apply odd_xorb. rewrite (tpath_sites_wsum l qr qc Hl01 Hqr Hqc r c rs cs). unfold peq. now rewrite Hida, Hend. }
    rewrite HP. destruct Hl01 as [-> | ->]; cbn [Z.eqb xbit zbit andb];
      now destruct (xorb (zeqb3 (_, qr, qc) (_, r, c)) (zeqb3 (_, qr, qc) (m3 b))).
  - assert (E1 : zeqb3 (ql, qr, qc) (l, r, c) = false) by (unfold zeqb3; lia).
    assert (E2 : zeqb3 (ql, qr, qc) (m3 b) = false).
    { destruct (m3 b) as [[bl br] bc]. cbn [fst snd] in Hl. unfold zeqb3. lia. }
    rewrite E1, E2. destruct Hql as [-> | ->], Hl01 as [-> | ->]; try lia; cbn [Z.eqb xbit zbit andb]; reflexivity.
Qed.

Theorem toric_path_syndrome_all a b : fst (fst (m3 a)) = fst (fst (m3 b)) ->
  exists p, tpath rows cols a b (tnew_pauli rows cols) = Some p /\
    syndrome_of (stabs (toric_code rows cols)) (p_to_bsf p) =
    map (fun q => xorb (zeqb3 q (m3 a)) (zeqb3 q (m3 b))) (tindices rows cols).
Proof.
  intros Hl. destruct (translation_end a b Hl) as (rs & cs & Ht & _).
  eexists. split; [unfold tpath; rewrite Ht; reflexivity|].
  rewrite tcode_eq. cbn [stabs]. unfold syndrome_of. rewrite map_map. apply map_ext_in. intros q Hq.
  destruct (toric_path_syndrome_bit a b q Hl Hq) as (p & Hp & Hbsp).
  unfold tpath in Hp. rewrite Ht in Hp. injection Hp as <-. exact Hbsp.
Qed.

(* weight never exceeds the decoder's distance *)
Theorem toric_path_weight_le a b p d :
  tpath rows cols a b (tnew_pauli rows cols) = Some p -> tdistance rows cols a b = Some d ->
  Z.of_nat (bsf_wt (p_to_bsf p)) <= d.
Proof.
  unfold tpath, tdistance. destruct (toric_translation rows cols a b) as [[rs cs]|]; [|discriminate].
  intros Hp Hd. injection Hp as <-. injection Hd as <-.
  change (p_to_bsf (tsites rows cols (tpath_op rows cols a) (tpath_sites (mod3 a (tshape rows cols)) rs cs) (tnew_pauli rows cols)))
    with (gop always tfl TN (tpath_op rows cols a) (tpath_sites (m3 a) rs cs)).
  assert (Hop : tpath_op rows cols a <> pI).
  { unfold tpath_op. destruct (mod3 a (tshape rows cols)) as [[la r] c]. destruct (la =? 0); discriminate. }
  pose proof (bsf_wt_gop_le always tfl TN _ (tpath_sites (m3 a) rs cs) Hop) as H.
  assert (HL : Z.of_nat (length (tpath_sites (m3 a) rs cs)) = Z.abs rs + Z.abs cs).
  { unfold tpath_sites. rewrite !app_length.
    assert (L1 : forall k d x, length (twalk_pre k d x) = k) by (induction k; intros; cbn; auto).
    assert (L2 : forall k d x, length (twalk_post k d x) = k) by (induction k; intros; cbn; auto).
    rewrite !L1, !L2. lia. }
  lia.
Qed.
End ToricAll.

(* ================================================================== *)
(** * Statements not proved for all sizes (visible, not claimed)        *)
(* ================================================================== *)
(* weight of a toric path = decoder distance (the sites of a shortest path are pairwise distinct because
   2|row_steps| <= rows and 2|col_steps| <= cols); established for all pairs on all sizes <= 7x7 by
   ToricBounded.toric_paths_upto7.  The proved part for all sizes is [toric_path_weight_le]. *)
Definition toric_path_weight_statement : Prop :=
  forall rows cols, 2 <= rows -> 2 <= cols -> forall a b p d,
    tpath rows cols a b (tnew_pauli rows cols) = Some p -> tdistance rows cols a b = Some d ->
    Z.of_nat (bsf_wt (p_to_bsf p)) = d.
Definition toric_path_weight_partial := toric_path_weight_le.
(* C08 lower bound: every non-trivial normalizer element has weight >= min(rows, cols).
   PROVED for all sizes in Lattice/ToricDistAll.v (toric_distance_lower_all, toric_is_distance_all); the statement is
   kept here because this file is upstream of that proof. *)
Definition toric_distance_lower_statement : Prop :=
  forall rows cols, 2 <= rows -> 2 <= cols ->
  forall e : bsf, length e = (toric_n rows cols + toric_n rows cols)%nat ->
    (forall s, In s (stabs (toric_code rows cols)) -> bsp e s = false) ->
    (forall sel, xsum (toric_n rows cols + toric_n rows cols) (select sel (stabs (toric_code rows cols))) <> e) ->
    Z.min rows cols <= Z.of_nat (bsf_wt e).
Definition toric_distance_partial := toric_distance_upper.

(* non-vacuity *)
Example toric_valid_all_3x4 : validate (toric_code 3 4) = VOk.
Proof. apply toric_valid_all; lia. Qed.
Example toric_path_syndrome_all_4x3 : exists p, tpath 4 3 (0, 0, 0) (2, 6, -1) (tnew_pauli 4 3) = Some p /\
  syndrome_of (stabs (toric_code 4 3)) (p_to_bsf p) =
  map (fun q => xorb (zeqb3 q (0, 0, 0)) (zeqb3 q (0, 2, 2))) (tindices 4 3).
Proof. apply (toric_path_syndrome_all 4 3 ltac:(lia) ltac:(lia) (0, 0, 0) (2, 6, -1)). reflexivity. Qed.

(* ================================================================== *)
(** * Constructors (planar and toric share [size_ctor 2 2]): accepted exactly on the documented range *)
(* ================================================================== *)
Theorem size_ctor_ok_iff mr mc a b : size_ctor mr mc a b = COk <->
  exists r c, arg_index a = Some r /\ arg_index b = Some c /\ mr <= r /\ mc <= c.
Proof.
  unfold size_ctor. destruct (arg_index a) as [r|]; [|split; [discriminate|intros (r & c & H & _); discriminate]].
  destruct (Z.ltb_spec r mr) as [Hlt|Hge].
  - split; [discriminate|]. intros (r' & c & H & _ & Hr & _). injection H as <-. lia.
  - destruct (arg_index b) as [c|]; [|split; [discriminate|intros (r' & c & _ & H & _); discriminate]].
    destruct (Z.ltb_spec c mc) as [Hlt|Hge'].
    + split; [discriminate|]. intros (r' & c' & _ & H & _ & Hc). injection H as <-. lia.
    + split; [intros _; exists r, c; auto|reflexivity].
Qed.
Theorem size_ctor_type_error_iff mr mc a b : size_ctor mr mc a b = CTypeError <->
  arg_index a = None \/ exists r, arg_index a = Some r /\ mr <= r /\ arg_index b = None.
Proof.
  unfold size_ctor. destruct (arg_index a) as [r|]; [|split; auto].
  destruct (Z.ltb_spec r mr) as [Hlt|Hge].
  - split; [discriminate|]. intros [H|(r' & H & Hr & _)]; [discriminate|]. injection H as <-. lia.
  - destruct (arg_index b) as [c|].
    + destruct (c <? mc); (split; [discriminate|intros [H|(r' & _ & _ & H)]; discriminate]).
    + split; [intros _; right; exists r; auto|reflexivity].
Qed.
Theorem size_ctor_value_error_iff mr mc a b : size_ctor mr mc a b = CValueError <->
  exists r, arg_index a = Some r /\ (r < mr \/ exists c, arg_index b = Some c /\ c < mc).
Proof.
  unfold size_ctor. destruct (arg_index a) as [r|]; [|split; [discriminate|intros (r & H & _); discriminate]].
  destruct (Z.ltb_spec r mr) as [Hlt|Hge].
  - split; [intros _; exists r; auto|reflexivity].
  - destruct (arg_index b) as [c|].
    + destruct (Z.ltb_spec c mc) as [Hlt|Hge'].
      * split; [intros _; exists r; split; auto; right; exists c; auto|reflexivity].
      * split; [discriminate|]. intros (r' & H & [Hr|(c' & Hc & Hlt)]); injection H as <-; [lia|]. injection Hc as <-. lia.
    + split; [discriminate|]. intros (r' & H & [Hr|(c' & Hc & _)]); [injection H as <-; lia|discriminate].
Qed.
(* PlanarCode(rows, columns) / ToricCode(rows, columns): accepted iff both arguments are ints (bool counts as
   int) >= 2; TypeError iff the first is not an int, or it is >= 2 and the second is not an int; else ValueError *)
Theorem planar_ctor_ok_iff a b : planar_ctor a b = COk <->
  exists r c, arg_index a = Some r /\ arg_index b = Some c /\ 2 <= r /\ 2 <= c.
Proof. apply size_ctor_ok_iff. Qed.
Theorem toric_ctor_ok_iff a b : toric_ctor a b = COk <->
  exists r c, arg_index a = Some r /\ arg_index b = Some c /\ 2 <= r /\ 2 <= c.
Proof. apply size_ctor_ok_iff. Qed.
Theorem planar_ctor_type_error_iff a b : planar_ctor a b = CTypeError <->
  arg_index a = None \/ exists r, arg_index a = Some r /\ 2 <= r /\ arg_index b = None.
Proof. apply size_ctor_type_error_iff. Qed.
Theorem toric_ctor_type_error_iff a b : toric_ctor a b = CTypeError <->
  arg_index a = None \/ exists r, arg_index a = Some r /\ 2 <= r /\ arg_index b = None.
Proof. apply size_ctor_type_error_iff. Qed.
