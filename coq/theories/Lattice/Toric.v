(* Lattice/Toric.v — executable model of qecsim.models.toric.{ToricCode, ToricPauli}
   (and of ToricMWPMDecoder.distance).  n_k_d and translation are the generated definitions
   of Generated/LatticeArith.v (as is the element-wise np.mod, [mod3]); the dense Pauli
   machinery is the generic part of Lattice/Planar.v. *)
From Coq Require Import ZArith List Bool Lia.
From QV Require Import Core.Bits Core.Pauli Core.Symp Core.Code Generated.LatticeArith Lattice.Planar.
Import ListNotations.
Open Scope Z_scope.

Notation tidx := (Z * Z * Z)%type.

(* np.ndindex((L, R, C)) *)
Definition ndindex3 (L R C : Z) : list tidx :=
  flat_map (fun l => map (fun rc => (Z.of_nat l, fst rc, snd rc)) (ndindex2 R C)) (seq 0 (Z.to_nat L)).
Definition zeqb3 (a b : tidx) : bool :=
  let '(a0, a1, a2) := a in let '(b0, b1, b2) := b in (a0 =? b0) && (a1 =? b1) && (a2 =? b2).

Section Toric.
Variables rows cols : Z.

(* ToricCode.shape *)
Definition tshape : tidx := (2, rows, cols).
(* np.zeros(shape).flatten() has 2*rows*cols entries *)
Definition toric_n : nat := Z.to_nat (2 * rows * cols).
Definition tnew_pauli : pauli := pzero toric_n.
(* position of entry [l, r, c] of an array of shape (2, rows, cols) in its row-major flattening *)
Definition tflat (i : tidx) : Z := let '(l, r, c) := i in (l * rows + r) * cols + c.

(* ToricPauli.site for one index: index = tuple(np.mod(index, shape)); xs[index] ^= 1 ... *)
Definition tsite (op : pl) (i : tidx) (p : pauli) : pauli :=
  flip_op op (Z.to_nat (tflat (mod3 i tshape))) p.
Definition tsites (op : pl) (L : list tidx) (p : pauli) : pauli := fold_left (fun q i => tsite op i q) L p.
(* ToricPauli.operator *)
Definition toperator (i : tidx) (p : pauli) : pl := op_at (Z.to_nat (tflat (mod3 i tshape))) p.

(* ToricPauli.plaquette *)
Definition tplaq_sites (i : tidx) : list tidx :=
  let '(la, r, c) := mod3 i tshape in
  [(la, r, c); (la, r + 1, c); (la + 1, r + la, c - la); (la + 1, r + la, c - la + 1)].
Definition tplaq_op (i : tidx) : pl := let '(la, r, c) := mod3 i tshape in if la =? 0 then pZ else pX.
Definition tplaquette (i : tidx) (p : pauli) : pauli := tsites (tplaq_op i) (tplaq_sites i) p.

(* the while-loops of ToricPauli.path; the index is (l, r, c), the step (dr, dc).
   [twalk_pre]: flip current, then move (north / west);  [twalk_post]: move, then flip (south / east) *)
Definition tstep (d : Z * Z) (cur : tidx) : tidx := let '(l, r, c) := cur in (l, r + fst d, c + snd d).
Fixpoint twalk_pre (k : nat) (d : Z * Z) (cur : tidx) : list tidx :=
  match k with O => [] | S k' => cur :: twalk_pre k' d (tstep d cur) end.
Fixpoint twalk_post (k : nat) (d : Z * Z) (cur : tidx) : list tidx :=
  match k with O => [] | S k' => tstep d cur :: twalk_post k' d (tstep d cur) end.
Fixpoint twalk_end (k : nat) (d : Z * Z) (cur : tidx) : tidx :=
  match k with O => cur | S k' => twalk_end k' d (tstep d cur) end.
Definition tpath_sites (a0 : tidx) (row_steps col_steps : Z) : list tidx :=
  let kn := Z.to_nat (- row_steps) in
  let c1 := twalk_end kn (-1, 0) a0 in
  let ks := Z.to_nat row_steps in
  let c2 := twalk_end ks (1, 0) c1 in
  (* switch to west site: c_l, c_r, c_c = c_l + 1, c_r + c_l, c_c - c_l *)
  let c2' := let '(l, r, c) := c2 in (l + 1, r + l, c - l) in
  let kw := Z.to_nat (- col_steps) in
  let c3 := twalk_end kw (0, -1) c2' in
  let ke := Z.to_nat col_steps in
  twalk_pre kn (-1, 0) a0 ++ twalk_post ks (1, 0) c1 ++ twalk_pre kw (0, -1) c2' ++ twalk_post ke (0, 1) c3.
Definition tpath_op (a : tidx) : pl := let '(la, r, c) := mod3 a tshape in if la =? 0 then pX else pZ.
Definition tpath (a b : tidx) (p : pauli) : option pauli :=
  match toric_translation rows cols a b with
  | None => None   (* IndexError *)
  | Some (rs, cs) => Some (tsites (tpath_op a) (tpath_sites (mod3 a tshape) rs cs) p)
  end.

(* logical operators: slices of the 3-d arrays *)
Definition logical_x1_sites : list tidx := map (fun r => (0, r, cols / 2)) (zrange rows).
Definition logical_x2_sites : list tidx := map (fun c => (1, rows / 2, c)) (zrange cols).
Definition logical_z1_sites : list tidx := map (fun c => (0, rows / 2, c)) (zrange cols).
Definition logical_z2_sites : list tidx := map (fun r => (1, r, cols / 2)) (zrange rows).
Definition logical_x1 (p : pauli) : pauli := tsites pX logical_x1_sites p.
Definition logical_x2 (p : pauli) : pauli := tsites pX logical_x2_sites p.
Definition logical_z1 (p : pauli) : pauli := tsites pZ logical_z1_sites p.
Definition logical_z2 (p : pauli) : pauli := tsites pZ logical_z2_sites p.

(* _indices: list(np.ndindex(shape)) *)
Definition tindices : list tidx := let '(l, r, c) := tshape in ndindex3 l r c.

Definition tstabilizers : list bsf := map (fun i => p_to_bsf (tplaquette i tnew_pauli)) tindices.
Definition tlogical_xs : list bsf := [p_to_bsf (logical_x1 tnew_pauli); p_to_bsf (logical_x2 tnew_pauli)].
Definition tlogical_zs : list bsf := [p_to_bsf (logical_z1 tnew_pauli); p_to_bsf (logical_z2 tnew_pauli)].
Definition toric_code : code := mkCode tstabilizers tlogical_xs tlogical_zs.

Definition tsyndrome_to_plaquette_indices (syn : bsf) : list tidx := select syn tindices.

(* ToricMWPMDecoder.distance *)
Definition tdistance (a b : tidx) : option Z :=
  match toric_translation rows cols a b with
  | None => None
  | Some (rs, cs) => Some (Z.abs rs + Z.abs cs)
  end.
End Toric.

(* ToricCode.__init__ with MIN_SIZE = (2, 2) *)
Definition toric_ctor (r c : parg) : cres := size_ctor 2 2 r c.

Lemma tsite_lengths rows cols op i p :
  length (pxs (tsite rows cols op i p)) = length (pxs p) /\ length (pzs (tsite rows cols op i p)) = length (pzs p).
Proof. apply flip_op_lengths. Qed.
Lemma tsites_lengths rows cols op L : forall p,
  length (pxs (tsites rows cols op L p)) = length (pxs p) /\ length (pzs (tsites rows cols op L p)) = length (pzs p).
Proof.
  induction L as [|i L IH]; intros p; cbn; auto.
  destruct (IH (tsite rows cols op i p)) as [H1 H2], (tsite_lengths rows cols op i p) as [H3 H4].
  unfold tsites in *. split; congruence.
Qed.
