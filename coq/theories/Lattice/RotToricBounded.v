(* Lattice/RotToricBounded.v — P<=B theorems for the rotated toric family, closed by vm_compute.
   Bounds: validity / shapes / supports for every even size rows, cols in 2..10 (25 sizes);
   path theorem for every even size in 2..8 (16 sizes) and ALL ordered pairs of plaquettes, plus wrapping
   indices in [-2, max+2] for every even size in 2..6. *)
From Coq Require Import List Bool Arith ZArith Lia.
From QV Require Import Core.Bits Core.Pauli Core.Symp Core.Code Core.Span Core.Rank Core.Dist Core.DistCSS
  Generated.LatticeArith Lattice.RotPlanar Lattice.RotPlanarBounded Lattice.RotToric.
Import ListNotations.
Local Open Scope Z_scope.

Definition rt_evens (B : Z) : list Z := map (fun i => 2 * i) (rc_range 1 (B / 2 + 1)).
Definition rt_sizes (B : Z) : list (Z * Z) := flat_map (fun r => map (fun c => (r, c)) (rt_evens B)) (rt_evens B).
Lemma rt_evens_In B r : 2 <= r <= B -> r mod 2 = 0 -> In r (rt_evens B).
Proof.
  intros Hr He. unfold rt_evens. apply in_map_iff. exists (r / 2).
  pose proof (Z.div_mod r 2 ltac:(lia)). split; [lia|]. apply rc_range_In.
  assert (r / 2 <= B / 2) by (apply Z.div_le_mono; lia). lia.
Qed.
Lemma rt_sizes_In B r c : 2 <= r <= B -> r mod 2 = 0 -> 2 <= c <= B -> c mod 2 = 0 -> In (r, c) (rt_sizes B).
Proof.
  intros Hr Er Hc Ec. unfold rt_sizes. apply in_flat_map. exists r. split; [now apply rt_evens_In|].
  apply in_map. now apply rt_evens_In.
Qed.
Lemma rt_upto (B : Z) (f : Z * Z -> bool) : forallb f (rt_sizes B) = true ->
  forall rows cols, 2 <= rows <= B -> rows mod 2 = 0 -> 2 <= cols <= B -> cols mod 2 = 0 -> f (rows, cols) = true.
Proof. intros H rows cols Hr Er Hc Ec. exact (proj1 (forallb_forall _ _) H _ (rt_sizes_In B rows cols Hr Er Hc Ec)). Qed.

(* ---- validity ---- *)
Definition rt_valid_b (s : Z * Z) : bool := validb (rottoric_code (fst s) (snd s)).
Lemma rottoric_valid_upto_10_b : forallb rt_valid_b (rt_sizes 10) = true.
Proof. vm_compute. reflexivity. Qed.
Theorem rottoric_valid_upto_10 : forall rows cols,
  2 <= rows <= 10 -> rows mod 2 = 0 -> 2 <= cols <= 10 -> cols mod 2 = 0 ->
  let c := rottoric_code rows cols in
  (forall s s', In s (stabs c) -> In s' (stabs c) -> bsp s s' = false) /\
  (forall s l, In s (stabs c) -> In l (logicals c) -> bsp s l = false) /\
  canonical (lxs c) (lzs c).
Proof.
  intros rows cols Hr Er Hc Ec c.
  pose proof (rt_upto 10 _ rottoric_valid_upto_10_b rows cols Hr Er Hc Ec) as H.
  unfold rt_valid_b, validb in H. cbn [fst snd] in H. fold c in H.
  apply (validate_iff_canonical c); [reflexivity|]. destruct (validate c); try discriminate. reflexivity.
Qed.

(* ---- shapes: rows*cols stabilizer rows (n - k + 2: two generators are dependent), k = 2 ---- *)
Definition rt_shape_b (s : Z * Z) : bool :=
  rc_shape_b (rottoric_n_k_d (fst s) (snd s)) (rottoric_code (fst s) (snd s)) 2.
Lemma rottoric_shapes_upto_10_b : forallb rt_shape_b (rt_sizes 10) = true.
Proof. vm_compute. reflexivity. Qed.
Theorem rottoric_shapes_upto_10 : forall rows cols,
  2 <= rows <= 10 -> rows mod 2 = 0 -> 2 <= cols <= 10 -> cols mod 2 = 0 ->
  rc_shape (rottoric_n_k_d rows cols) (rottoric_code rows cols) 2.
Proof.
  intros rows cols Hr Er Hc Ec. apply rc_shape_b_spec.
  exact (rt_upto 10 _ rottoric_shapes_upto_10_b rows cols Hr Er Hc Ec).
Qed.
(* the two dependencies: the product of all Z-type (resp. all X-type) plaquettes is the identity *)
Definition rt_dependent_b (s : Z * Z) : bool :=
  let '(r, c) := s in
  let st := rt_stabilizers r c in
  let h := (length st / 2)%nat in
  is_zero (xsum (2 * rt_n r c) (firstn h st)) && is_zero (xsum (2 * rt_n r c) (skipn h st)).
Lemma rottoric_dependent_upto_10_b : forallb rt_dependent_b (rt_sizes 10) = true.
Proof. vm_compute. reflexivity. Qed.

(* ---- flatten numbers the sites 0..n-1 in scan order (all sizes: RotPlanarAll.v) ---- *)
Definition rt_flat_b (s : Z * Z) : bool :=
  let '(r, c) := s in
  let fl := map (rt_flat r c) (rt_scan r c) in
  forallb (rottoric_is_in_bounds r c) (rt_scan r c) &&
  forallb (fun p => (fst p =? snd p)%nat) (combine fl (seq 0 (rt_n r c))) &&
  (length fl =? rt_n r c)%nat.
Lemma rottoric_flatten_upto_10_b : forallb rt_flat_b (rt_sizes 10) = true.
Proof. vm_compute. reflexivity. Qed.

(* ---- plaquettes: every lattice index once, Z-type first; rows = documented 4-site supports;
        syndrome bit i <-> plaquette i ---- *)
Definition rt_support_row (r c : Z) (idx : Z * Z) : bsf :=
  let ind := rc_indicator (rt_n r c) (map (rt_flat r c) (rt_corners idx)) in
  if rottoric_is_z_plaquette idx then zeros (rt_n r c) ++ ind else ind ++ zeros (rt_n r c).
Definition rt_plaq_b (s : Z * Z) : bool :=
  let '(r, c) := s in
  let pis := rt_plaquette_indices r c in
  rc_nodup_b pis && (length pis =? rt_n r c)%nat && forallb (rottoric_is_in_bounds r c) pis &&
  beqm (rt_stabilizers r c) (map (rt_support_row r c) pis) &&
  forallb (fun row => (bsf_wt row =? 4)%nat) (rt_stabilizers r c) &&
  forallb (fun j => match rt_syndrome_to_plaquette_indices r c (rc_unit (length pis) j) with
                    | [i] => rc_idx_eqb i (nth j pis (0, 0)) | _ => false end) (seq 0 (length pis)).
Lemma rottoric_plaquettes_upto_10_b : forallb rt_plaq_b (rt_sizes 10) = true.
Proof. vm_compute. reflexivity. Qed.

(* ---- logical weights: X1, Z2 on a column (weight rows), X2, Z1 on a row (weight cols); lightest = d ---- *)
Definition rt_weights_b (s : Z * Z) : bool :=
  let '(r, c) := s in
  let '(_, _, d) := rottoric_n_k_d r c in
  match rt_logical_xs r c, rt_logical_zs r c with
  | [x1; x2], [z1; z2] =>
      (bsf_wt x1 =? Z.to_nat r)%nat && (bsf_wt x2 =? Z.to_nat c)%nat &&
      (bsf_wt z1 =? Z.to_nat c)%nat && (bsf_wt z2 =? Z.to_nat r)%nat &&
      (Nat.min (bsf_wt x1) (bsf_wt x2) =? Z.to_nat d)%nat
  | _, _ => false
  end.
Lemma rottoric_logical_weights_upto_10_b : forallb rt_weights_b (rt_sizes 10) = true.
Proof. vm_compute. reflexivity. Qed.

(* ---- C15: paths ---- *)
(* what the property asks of path(a, b) for same-type a, b (indices taken modulo the lattice):
   defined; syndrome = indicator of {a, b} (empty when they coincide); identity when they coincide;
   only X letters between Z plaquettes and only Z letters between X plaquettes;
   weight = max(|x_steps|, |y_steps|) of the translation (= the SMWPM decoder's step count);
   a + translation = b modulo the period; |translation a b| = |translation b a| componentwise;
   translation no longer than half the period.  For different types: path and translation undefined. *)
Definition rt_path_ok (r c : Z) (pis : list (Z * Z)) (st : list bsf) (a b : Z * Z) : bool :=
  if Bool.eqb (rottoric_is_z_plaquette a) (rottoric_is_z_plaquette b) then
    match rt_path r c a b (rt_identity r c), rt_translation r c a b, rt_translation r c b a with
    | Some p, Some (tx, ty), Some (ux, uy) =>
        let v := rc_to_bsf p in
        let am := rottoric_mod_index r c a in
        let bm := rottoric_mod_index r c b in
        let same := rc_idx_eqb am bm in
        beqv (syndrome_of st v) (map (fun i => negb same && (rc_idx_eqb i am || rc_idx_eqb i bm)) pis) &&
        (if same then is_zero v else true) &&
        is_zero (if rottoric_is_z_plaquette a then rc_zs p else rc_xs p) &&
        (bsf_wt v =? Z.to_nat (Z.max (Z.abs tx) (Z.abs ty)))%nat &&
        ((fst a + tx - fst b) mod c =? 0) && ((snd a + ty - snd b) mod r =? 0) &&
        (Z.abs tx =? Z.abs ux) && (Z.abs ty =? Z.abs uy) &&
        (2 * Z.abs tx <=? c) && (2 * Z.abs ty <=? r)
    | _, _, _ => false
    end
  else
    match rt_path r c a b (rt_identity r c), rt_translation r c a b with None, None => true | _, _ => false end.
Definition rt_window (r c e : Z) : list (Z * Z) :=
  flat_map (fun y => map (fun x => (x, y)) (rc_range (- e) (c + e))) (rc_range (- e) (r + e)).
Definition rt_paths_b (e : Z) (s : Z * Z) : bool :=
  let '(r, c) := s in
  let pis := rt_plaquette_indices r c in
  let st := rt_stabilizers r c in
  let w := rt_window r c e in
  forallb (fun a => forallb (rt_path_ok r c pis st a) w) w.

Lemma rottoric_paths_upto_8_b : forallb (rt_paths_b 0) (rt_sizes 8) = true.
Proof. vm_compute. reflexivity. Qed.
Lemma rottoric_paths_wrapping_upto_6_b : forallb (rt_paths_b 2) (rt_sizes 6) = true.
Proof. vm_compute. reflexivity. Qed.

Lemma rt_window_In r c e x y : - e <= x < c + e -> - e <= y < r + e -> In (x, y) (rt_window r c e).
Proof.
  intros Hx Hy. unfold rt_window. apply in_flat_map. exists y. split; [apply rc_range_In; lia|].
  apply in_map_iff. exists x. split; [reflexivity|]. apply rc_range_In. lia.
Qed.
Theorem rottoric_paths_upto_8 : forall rows cols ax ay bx by_,
  2 <= rows <= 8 -> rows mod 2 = 0 -> 2 <= cols <= 8 -> cols mod 2 = 0 ->
  0 <= ax < cols -> 0 <= ay < rows -> 0 <= bx < cols -> 0 <= by_ < rows ->
  rt_path_ok rows cols (rt_plaquette_indices rows cols) (rt_stabilizers rows cols) (ax, ay) (bx, by_) = true.
Proof.
  intros rows cols ax ay bx by_ Hr Er Hc Ec Hax Hay Hbx Hby.
  pose proof (rt_upto 8 _ rottoric_paths_upto_8_b rows cols Hr Er Hc Ec) as H.
  unfold rt_paths_b in H. rewrite forallb_forall in H.
  specialize (H (ax, ay) (rt_window_In rows cols 0 ax ay ltac:(lia) ltac:(lia))).
  rewrite forallb_forall in H. exact (H (bx, by_) (rt_window_In rows cols 0 bx by_ ltac:(lia) ltac:(lia))).
Qed.
Theorem rottoric_paths_wrapping_upto_6 : forall rows cols ax ay bx by_,
  2 <= rows <= 6 -> rows mod 2 = 0 -> 2 <= cols <= 6 -> cols mod 2 = 0 ->
  -2 <= ax < cols + 2 -> -2 <= ay < rows + 2 -> -2 <= bx < cols + 2 -> -2 <= by_ < rows + 2 ->
  rt_path_ok rows cols (rt_plaquette_indices rows cols) (rt_stabilizers rows cols) (ax, ay) (bx, by_) = true.
Proof.
  intros rows cols ax ay bx by_ Hr Er Hc Ec Hax Hay Hbx Hby.
  pose proof (rt_upto 6 _ rottoric_paths_wrapping_upto_6_b rows cols Hr Er Hc Ec) as H.
  unfold rt_paths_b in H. rewrite forallb_forall in H.
  specialize (H (ax, ay) (rt_window_In rows cols 2 ax ay ltac:(lia) ltac:(lia))).
  rewrite forallb_forall in H. exact (H (bx, by_) (rt_window_In rows cols 2 bx by_ ltac:(lia) ltac:(lia))).
Qed.

(* non-vacuity *)
Example rottoric_ex_4x6 : validate (rottoric_code 4 6) = VOk /\ length (stabs (rottoric_code 4 6)) = 24%nat /\
  rt_path_indices 4 6 (1, 1) (4, 0) = Some [(2, 1); (3, 1); (4, 1)] /\
  rt_path_indices 4 6 (1, 1) (0, 0) = Some [(1, 1)] /\
  rt_translation 4 6 (0, 0) (3, 1) = Some (3, 1) /\ rt_translation 4 6 (0, 0) (0, 1) = None.
Proof. vm_compute. auto 10. Qed.

(* ---- GF(2) ranks: n-k = rows*cols-2 for the rows*cols generators; n+k with the four logicals ---- *)
Definition rt_rank_b (s : Z * Z) : bool := rc_rank_b (rottoric_n_k_d (fst s) (snd s)) (rottoric_code (fst s) (snd s)).
Lemma rottoric_rank_upto_10_b : forallb rt_rank_b (rt_sizes 10) = true.
Proof. vm_compute. reflexivity. Qed.
Theorem rottoric_rank_upto_10 : forall rows cols,
  2 <= rows <= 10 -> rows mod 2 = 0 -> 2 <= cols <= 10 -> cols mod 2 = 0 ->
  rc_rank (rottoric_n_k_d rows cols) (rottoric_code rows cols).
Proof.
  intros rows cols Hr Er Hc Ec. apply rc_rank_b_spec. exact (rt_upto 10 _ rottoric_rank_upto_10_b rows cols Hr Er Hc Ec).
Qed.

(* ---- C08: advertised d = min(rows, cols) is the minimum distance; witness X1 (column, weight rows) against Z1,
        or X2 (row, weight cols) against Z2.  Bound: even rows, cols in 2..6 except 6x6, and the strips 2 x c, r x 2
        up to 12 ---- *)
Definition rt_dist_b (s : Z * Z) : bool :=
  let '(r, c) := s in
  match rt_logical_xs r c, rt_logical_zs r c with
  | [x1; x2], [z1; z2] =>
      if r <=? c then rc_dist_b (rottoric_n_k_d r c) (rottoric_code r c) x1 z1
      else rc_dist_b (rottoric_n_k_d r c) (rottoric_code r c) x2 z2
  | _, _ => false
  end.
Definition rt_dist_sizes : list (Z * Z) :=
  filter (fun s => (Z.min (fst s) (snd s) =? 2) || ((Z.max (fst s) (snd s) <=? 6) && (Z.min (fst s) (snd s) <=? 4)))
         (rt_sizes 12).
Lemma rottoric_distance_b : forallb rt_dist_b rt_dist_sizes = true.
Proof. vm_compute. reflexivity. Qed.
Theorem rottoric_distance_small : forall rows cols,
  2 <= rows <= 12 -> rows mod 2 = 0 -> 2 <= cols <= 12 -> cols mod 2 = 0 ->
  Z.min rows cols = 2 \/ (Z.max rows cols <= 6 /\ Z.min rows cols <= 4) ->
  rc_dist (rottoric_n_k_d rows cols) (rottoric_code rows cols).
Proof.
  intros rows cols Hr Er Hc Ec Hm.
  assert (Hin : In (rows, cols) rt_dist_sizes).
  { unfold rt_dist_sizes. apply filter_In. split; [apply rt_sizes_In; auto|]. cbn [fst snd].
    apply orb_true_iff. destruct Hm as [Hm|[H1 H2]]; [left; now apply Z.eqb_eq|right].
    apply andb_true_iff. split; now apply Z.leb_le. }
  pose proof (proj1 (forallb_forall _ _) rottoric_distance_b _ Hin) as H. unfold rt_dist_b in H.
  destruct (rt_logical_xs rows cols) as [|x1 [|x2 [|? ?]]]; try discriminate.
  destruct (rt_logical_zs rows cols) as [|z1 [|z2 [|? ?]]]; try discriminate.
  destruct (rows <=? cols); eapply rc_dist_b_spec; exact H.
Qed.
Definition rottoric_distance_statement : Prop := forall rows cols,
  2 <= rows -> rows mod 2 = 0 -> 2 <= cols -> cols mod 2 = 0 ->
  rc_dist (rottoric_n_k_d rows cols) (rottoric_code rows cols).
Definition rottoric_distance_partial := rottoric_distance_small.

(* ---- full statements (all even sizes) and the proved parts ---- *)
Definition rottoric_valid_statement : Prop := forall rows cols,
  2 <= rows -> rows mod 2 = 0 -> 2 <= cols -> cols mod 2 = 0 ->
  validate (rottoric_code rows cols) = VOk /\ rc_shape (rottoric_n_k_d rows cols) (rottoric_code rows cols) 2.
Theorem rottoric_valid_partial : forall rows cols,
  2 <= rows <= 10 -> rows mod 2 = 0 -> 2 <= cols <= 10 -> cols mod 2 = 0 ->
  validate (rottoric_code rows cols) = VOk /\ rc_shape (rottoric_n_k_d rows cols) (rottoric_code rows cols) 2.
Proof.
  intros rows cols Hr Er Hc Ec. split; [|now apply rottoric_shapes_upto_10].
  pose proof (rt_upto 10 _ rottoric_valid_upto_10_b rows cols Hr Er Hc Ec) as H. unfold rt_valid_b, validb in H. cbn [fst snd] in H.
  destruct (validate (rottoric_code rows cols)); try discriminate. reflexivity.
Qed.
Definition rottoric_paths_statement : Prop := forall rows cols a b,
  2 <= rows -> rows mod 2 = 0 -> 2 <= cols -> cols mod 2 = 0 ->
  rt_path_ok rows cols (rt_plaquette_indices rows cols) (rt_stabilizers rows cols) a b = true.
(* proved parts: rottoric_paths_upto_8 (all in-lattice pairs, sizes <= 8x8), rottoric_paths_wrapping_upto_6
   (indices in [-2, max+2], sizes <= 6x6), and for every size RotToric.rt_path_indices_defined (path defined, number of
   sites = max(|x_steps|,|y_steps|)), RotPlanarAll.rt_translation_target, rt_translation_defined *)
Definition rottoric_paths_partial := rottoric_paths_upto_8.
