(* Lattice/ToricPathWeightAll.v — C15 on the torus, all sizes: the weight of the path operator between two
   plaquettes equals the decoder's distance |row_steps| + |col_steps| (ToricAll.v proves <= ; here = ).
   The translation returned by the generated toric_translation is a shortest one (2|row_steps| <= rows,
   2|col_steps| <= cols), so the sites flipped by the four loops of ToricPauli.path are pairwise distinct
   modulo the lattice shape. *)
From Coq Require Import ZArith List Bool Lia ZifyBool.
From QV Require Import Core.Bits Core.Pauli Core.Symp Core.Code Generated.LatticeArith
  Lattice.Planar Lattice.PlanarAll Lattice.Toric Lattice.ToricAll.
Import ListNotations.
Open Scope Z_scope.
Ltac Zify.zify_post_hook ::= Z.to_euclidean_division_equations.

Lemma mod_eq_small a b m : 0 < m -> a mod m = b mod m -> Z.abs (a - b) < m -> a = b.
Proof.
  intros Hm He Hs. assert (H0 : (a - b) mod m = 0) by (rewrite Zminus_mod, He, Z.sub_diag; apply Zmod_0_l).
  apply Z.mod_divide in H0; [|lia]. destruct H0 as [k Hk]. assert (k = 0) by nia. subst k. lia.
Qed.

(* steps to the south and to the north add up to 0 or to the period *)
Lemma mod_opp_sum x m : 0 < m -> (x mod m = 0 /\ (- x) mod m = 0) \/ (x mod m + (- x) mod m = m).
Proof.
  intros Hm. destruct (Z.eq_dec (x mod m) 0) as [E|E].
  - left. split; [exact E|]. apply Z.mod_opp_l_z; lia.
  - right. rewrite Z.mod_opp_l_nz by lia. lia.
Qed.

Lemma in_twalk_pre k : forall d x s, In s (twalk_pre k d x) ->
  exists j, 0 <= j < Z.of_nat k /\ s = (fst (fst x), snd (fst x) + j * fst d, snd x + j * snd d).
Proof.
  induction k as [|k IH]; intros d [[xl xr] xc] s Hs; [destruct Hs|]. cbn [twalk_pre] in Hs. destruct Hs as [<-|Hs].
  - exists 0. split; [lia|]. cbn [fst snd]. apply tri_eq; lia.
  - apply IH in Hs. destruct Hs as (j & Hj & ->). exists (j + 1). split; [lia|]. unfold tstep. cbn [fst snd].
    apply tri_eq; ring.
Qed.
Lemma in_twalk_post k : forall d x s, In s (twalk_post k d x) ->
  exists j, 1 <= j <= Z.of_nat k /\ s = (fst (fst x), snd (fst x) + j * fst d, snd x + j * snd d).
Proof.
  induction k as [|k IH]; intros d [[xl xr] xc] s Hs; [destruct Hs|]. cbn [twalk_post] in Hs. destruct Hs as [<-|Hs].
  - exists 1. split; [lia|]. unfold tstep. cbn [fst snd]. apply tri_eq; ring.
  - apply IH in Hs. destruct Hs as (j & Hj & ->). exists (j + 1). split; [lia|]. unfold tstep. cbn [fst snd].
    apply tri_eq; ring.
Qed.

Section ToricWeight.
Variables rows cols : Z.
Hypothesis Hr : 2 <= rows.
Hypothesis Hc : 2 <= cols.
Notation m3 := (ToricAll.m3 rows cols).
Notation tfl := (ToricAll.tfl rows cols).
Notation TN := (toric_n rows cols).
Notation always := (fun _ : tidx => true).

(* the generated translation is a shortest one *)
Lemma translation_short a b rs cs : toric_translation rows cols a b = Some (rs, cs) ->
  2 * Z.abs rs <= rows /\ 2 * Z.abs cs <= cols.
Proof.
  destruct a as [[a0 a1] a2], b as [[b0 b1] b2].
  cbv beta iota zeta delta [toric_translation mod3].
  destruct (negb (a0 mod 2 =? b0 mod 2)); [discriminate|]. intros H. injection H as <- <-.
  set (ar := a1 mod rows). set (br := b1 mod rows). set (ac := a2 mod cols). set (bc := b2 mod cols).
  pose proof (mod_opp_sum (br - ar) rows ltac:(lia)) as HR. replace (- (br - ar)) with (ar - br) in HR by lia.
  pose proof (mod_opp_sum (bc - ac) cols ltac:(lia)) as HC. replace (- (bc - ac)) with (ac - bc) in HC by lia.
  pose proof (Z.mod_pos_bound (br - ar) rows ltac:(lia)). pose proof (Z.mod_pos_bound (ar - br) rows ltac:(lia)).
  pose proof (Z.mod_pos_bound (bc - ac) cols ltac:(lia)). pose proof (Z.mod_pos_bound (ac - bc) cols ltac:(lia)).
  set (ss := (br - ar) mod rows) in *. set (sn := (ar - br) mod rows) in *.
  set (se := (bc - ac) mod cols) in *. set (sw := (ac - bc) mod cols) in *. clearbody ss sn se sw.
  split.
  - destruct (ss <=? sn) eqn:E; lia.
  - destruct (se <=? sw) eqn:E; lia.
Qed.

(* the sites of a shortest path are pairwise distinct, also modulo the shape *)
Lemma tpath_sites_distinct l r c rs cs : (l = 0 \/ l = 1) -> 2 * Z.abs rs <= rows -> 2 * Z.abs cs <= cols ->
  let L := tpath_sites (l, r, c) rs cs in
  NoDup L /\ forall x y, In x L -> In y L -> m3 x = m3 y -> x = y.
Proof.
  intros Hl Hrs Hcs L.
  (* every site of the path is (l, r + t, c) with t in a window shorter than rows, or
     (l + 1, r + rs + l, c - l + t) with t in a window shorter than cols *)
  assert (Hshape : forall s, In s L ->
            (exists t, s = (l, r + t, c) /\ - Z.of_nat (Z.to_nat (- rs)) < t <= Z.of_nat (Z.to_nat rs)) \/
            (exists t, s = (l + 1, r + rs + l, c - l + t) /\ - Z.of_nat (Z.to_nat (- cs)) < t <= Z.of_nat (Z.to_nat cs))).
  { intros s Hs. unfold L, tpath_sites in Hs. rewrite !twalk_end_eq in Hs. cbn [fst snd] in Hs.
    apply in_app_iff in Hs. destruct Hs as [Hs|Hs]; [|apply in_app_iff in Hs; destruct Hs as [Hs|Hs];
      [|apply in_app_iff in Hs; destruct Hs as [Hs|Hs]]].
    - apply in_twalk_pre in Hs. destruct Hs as (j & Hj & ->). cbn [fst snd]. left. exists (- j). split; [apply tri_eq; lia|lia].
    - apply in_twalk_post in Hs. destruct Hs as (j & Hj & ->). cbn [fst snd]. left.
      exists (j - Z.of_nat (Z.to_nat (- rs))). split; [apply tri_eq; lia|lia].
    - apply in_twalk_pre in Hs. destruct Hs as (j & Hj & ->). cbn [fst snd]. right. exists (- j). split; [apply tri_eq; lia|lia].
    - apply in_twalk_post in Hs. destruct Hs as (j & Hj & ->). cbn [fst snd]. right.
      exists (j - Z.of_nat (Z.to_nat (- cs))). split; [apply tri_eq; lia|lia]. }
  split.
  - unfold L, tpath_sites. rewrite !twalk_end_eq. cbn [fst snd].
    assert (NP : forall k d x, d = (-1, 0) \/ d = (1, 0) \/ d = (0, -1) \/ d = (0, 1) -> NoDup (twalk_pre k d x)).
    { induction k as [|k IH]; intros d x Hd; cbn [twalk_pre]; constructor; [|now apply IH].
      intros Hin. apply in_twalk_pre in Hin. destruct Hin as (j & Hj & Heq). destruct x as [[xl xr] xc].
      unfold tstep in Heq. cbn [fst snd] in Heq.
      destruct Hd as [-> | [-> | [-> | ->]]]; cbn [fst snd] in Heq; injection Heq; lia. }
    assert (NQ : forall k d x, d = (-1, 0) \/ d = (1, 0) \/ d = (0, -1) \/ d = (0, 1) -> NoDup (twalk_post k d x)).
    { induction k as [|k IH]; intros d x Hd; cbn [twalk_post]; constructor; [|now apply IH].
      intros Hin. apply in_twalk_post in Hin. destruct Hin as (j & Hj & Heq). destruct x as [[xl xr] xc].
      unfold tstep in Heq. cbn [fst snd] in Heq.
      destruct Hd as [-> | [-> | [-> | ->]]]; cbn [fst snd] in Heq; injection Heq; lia. }
    repeat apply NoDup_app_disj; auto 6.
    + intros x H1 H2. apply in_twalk_pre in H1. apply in_twalk_post in H2.
      destruct H1 as (j1 & Hj1 & ->), H2 as (j2 & Hj2 & Heq). cbn [fst snd] in Heq. injection Heq. lia.
    + intros x H1 H2. apply in_twalk_post in H1. apply in_app_iff in H2. destruct H2 as [H2|H2];
        [apply in_twalk_pre in H2|apply in_twalk_post in H2];
        destruct H1 as (j1 & Hj1 & ->), H2 as (j2 & Hj2 & Heq); cbn [fst snd] in Heq; injection Heq; lia.
    + intros x H1 H2. apply in_twalk_pre in H1. apply in_app_iff in H2.
      destruct H2 as [H2|H2]; [|apply in_app_iff in H2; destruct H2 as [H2|H2]];
        [apply in_twalk_post in H2|apply in_twalk_pre in H2|apply in_twalk_post in H2];
        destruct H1 as (j1 & Hj1 & ->), H2 as (j2 & Hj2 & Heq); cbn [fst snd] in Heq; injection Heq; lia.
  - intros x y Hx Hy He. apply Hshape in Hx, Hy.
    destruct Hx as [(t & -> & Ht)|(t & -> & Ht)], Hy as [(t' & -> & Ht')|(t' & -> & Ht')];
      rewrite !m3_unfold in He;
      pose proof (f_equal (fun z : tidx => fst (fst z)) He) as E0; pose proof (f_equal (fun z : tidx => snd (fst z)) He) as E1;
      pose proof (f_equal (fun z : tidx => snd z) He) as E2; cbn [fst snd] in E0, E1, E2.
    + assert (r + t = r + t') by (apply (mod_eq_small _ _ rows); lia). apply tri_eq; lia.
    + exfalso. destruct Hl as [-> | ->]; cbn in E0; discriminate.
    + exfalso. destruct Hl as [-> | ->]; cbn in E0; discriminate.
    + assert (c - l + t = c - l + t') by (apply (mod_eq_small _ _ cols); lia). apply tri_eq; lia.
Qed.

Theorem toric_path_weight_eq a b p d :
  tpath rows cols a b (tnew_pauli rows cols) = Some p -> tdistance rows cols a b = Some d ->
  Z.of_nat (bsf_wt (p_to_bsf p)) = d.
Proof.
  unfold tpath, tdistance. destruct (toric_translation rows cols a b) as [[rs cs]|] eqn:Ht; [|discriminate].
  intros Hp Hd. injection Hp as <-. injection Hd as <-.
  destruct (translation_short a b rs cs Ht) as [Hrs Hcs].
  change (p_to_bsf (tsites rows cols (tpath_op rows cols a) (tpath_sites (mod3 a (tshape rows cols)) rs cs) (tnew_pauli rows cols)))
    with (gop always tfl TN (tpath_op rows cols a) (tpath_sites (m3 a) rs cs)).
  assert (Hop : tpath_op rows cols a <> pI).
  { unfold tpath_op. destruct (mod3 a (tshape rows cols)) as [[la r] c]. destruct (la =? 0); discriminate. }
  pose proof (m3_range rows cols Hr Hc a) as Ha. destruct (m3 a) as [[l r] c]. unfold inrange in Ha. cbn [fst snd] in Ha.
  destruct (tpath_sites_distinct l r c rs cs ltac:(lia) Hrs Hcs) as [Hnd Hinj].
  rewrite bsf_wt_gop_nodup; auto using tklt.
  - unfold keys. rewrite filter_always, map_length.
    unfold tpath_sites. rewrite !app_length.
    assert (L1 : forall k d x, length (twalk_pre k d x) = k) by (induction k; intros; cbn; auto).
    assert (L2 : forall k d x, length (twalk_post k d x) = k) by (induction k; intros; cbn; auto).
    rewrite !L1, !L2. lia.
  - unfold keys. rewrite filter_always. apply NoDup_map_inj_in; auto.
    intros x y Hx Hy H. apply (tfl_eq rows cols Hr Hc) in H. now apply Hinj.
Qed.
End ToricWeight.

(* the statement left open in ToricAll.v, now a theorem *)
Theorem toric_path_weight_all : toric_path_weight_statement.
Proof. intros rows cols Hr Hc a b p d. apply toric_path_weight_eq; assumption. Qed.

Example toric_path_weight_4x3 : forall p d, tpath 4 3 (0, 0, 0) (2, 6, -1) (tnew_pauli 4 3) = Some p ->
  tdistance 4 3 (0, 0, 0) (2, 6, -1) = Some d -> Z.of_nat (bsf_wt (p_to_bsf p)) = d.
Proof. intros p d. apply toric_path_weight_all; lia. Qed.
