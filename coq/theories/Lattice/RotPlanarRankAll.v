(* Lattice/RotPlanarRankAll.v — C07 for the rotated planar code, ALL sizes rows, cols >= 3:
     [rotplanar_stabilizers_length]  the number of stabilizer generators is n - 1 = n - k (n = rows * cols, k = 1);
     [rotplanar_rank_is_all]         the generators are linearly independent over GF(2) (rank n - k) and stay
                                     independent together with the two logical operators (rank n + k);
     [rotplanar_rank_nkd]            the same, reading n and k off the translated n_k_d formula
                                     (RotPlanarBounded.rc_rank).

   Method.  Dual vectors (PlanarRankAll.dual_independent): for an X-type plaquette (x, y) the Z-string on the
   sites (c, 0), ..., (c, y) of an in-lattice column c in {x, x + 1} anticommutes with that plaquette and with
   no other generator; for a Z-type plaquette (x, y) the X-string on (0, r), ..., (x, r) of an in-lattice row
   r in {y, y + 1}.  The logicals are separated by each other (RotPlanarValidAll).
   The count: the (cols - 1)(rows - 1) bulk cells are all plaquettes, and the two-site boundary plaquettes are
   arithmetic progressions on the four sides; the plaquette list and this explicit list are duplicate-free
   with the same members.
   The file also provides the accessors used by RotPlanarDistAll.v: X / Z components of an operator at a site
   ([rp_xat], [rp_zat]), the symplectic product with a one-letter site-list operator as a sum of components,
   and commutation with a generator as a four-corner relation.
   All statements are about the translator's output in Generated/LatticeArith.v. *)
From Coq Require Import ZArith List Bool Lia ZifyBool.
From QV Require Import Core.Bits Core.Pauli Core.Symp Core.Code Core.Span Core.Rank Core.Dist Core.DistCSS
  Generated.LatticeArith Lattice.Planar Lattice.PlanarAll Lattice.PlanarRankAll Lattice.PlanarDistAll
  Lattice.ToricRankAll Lattice.RotPlanar Lattice.RotPlanarAll Lattice.RotPlanarValidAll Lattice.RotPlanarBounded.
Import ListNotations.
Open Scope Z_scope.
Ltac Zify.zify_post_hook ::= Z.to_euclidean_division_equations.

(* ------------------------------------------------------------------ *)
(** * Generic lemmas                                                   *)
(* ------------------------------------------------------------------ *)
Lemma rc_xsumb_xsumb {A} (f : A -> bool) L : rc_xsumb f L = xsumb f L.
Proof. induction L as [|a L IH]; cbn; auto. Qed.
Lemma rpr_even_double n : Nat.even (n + n) = true.
Proof. replace (n + n)%nat with (2 * n)%nat by lia. apply Nat.even_spec. now exists n. Qed.
Lemma rc_zrange_NoDup lo m : NoDup (rc_zrange lo m).
Proof. unfold rc_zrange. apply rc_NoDup_map_inj; [|apply seq_NoDup]. intros x y _ _ H. lia. Qed.
Lemma rc_zrange_length lo m : length (rc_zrange lo m) = m.
Proof. unfold rc_zrange. now rewrite map_length, seq_length. Qed.

(* arithmetic progressions of step 2 *)
Definition rc_prog (a : Z) (m : nat) : list Z := map (fun i => a + 2 * Z.of_nat i) (seq 0 m).
Lemma rc_prog_In a m z : In z (rc_prog a m) <-> a <= z < a + 2 * Z.of_nat m /\ (z - a) mod 2 = 0.
Proof.
  unfold rc_prog. rewrite in_map_iff. split.
  - intros (i & <- & Hi). apply in_seq in Hi. lia.
  - intros [H1 H2]. exists (Z.to_nat ((z - a) / 2)). split; [lia|]. apply in_seq. lia.
Qed.
Lemma rc_prog_NoDup a m : NoDup (rc_prog a m).
Proof. unfold rc_prog. apply rc_NoDup_map_inj; [|apply seq_NoDup]. intros x y _ _ H. lia. Qed.
Lemma rc_prog_length a m : length (rc_prog a m) = m.
Proof. unfold rc_prog. now rewrite map_length, seq_length. Qed.

(* a rectangle of indices, row by row *)
Definition rc_rect (x0 : Z) (w : nat) (y0 : Z) (h : nat) : list ridx :=
  flat_map (fun y => map (fun x => (x, y)) (rc_zrange x0 w)) (rc_zrange y0 h).
Lemma rc_rect_In x0 w y0 h x y : In (x, y) (rc_rect x0 w y0 h) <->
  x0 <= x < x0 + Z.of_nat w /\ y0 <= y < y0 + Z.of_nat h.
Proof.
  unfold rc_rect. rewrite in_flat_map. split.
  - intros (y' & Hy & Hx). apply in_map_iff in Hx. destruct Hx as (x' & E & Hx). injection E as -> ->.
    apply rc_zrange_In in Hy, Hx. lia.
  - intros [Hx Hy]. exists y. split; [apply rc_zrange_In; lia|]. apply (in_map (fun x' => (x', y))). apply rc_zrange_In. lia.
Qed.
Lemma rc_rect_NoDup x0 w y0 h : NoDup (rc_rect x0 w y0 h).
Proof.
  unfold rc_rect. apply NoDup_flat_map_disj.
  - apply rc_zrange_NoDup.
  - intros y _. apply rc_NoDup_map_inj; [|apply rc_zrange_NoDup]. intros a b _ _ E. congruence.
  - intros y1 y2 b _ _ H1 H2. apply in_map_iff in H1, H2. destruct H1 as (x1 & <- & _), H2 as (x2 & E & _). congruence.
Qed.
Lemma rc_rect_length x0 w y0 h : length (rc_rect x0 w y0 h) = (h * w)%nat.
Proof.
  unfold rc_rect. rewrite <- (rc_zrange_length y0 h) at 2. generalize (rc_zrange y0 h). intros l.
  induction l as [|a l IH]; cbn [flat_map length]; [reflexivity|].
  rewrite app_length, map_length, rc_zrange_length, IH. lia.
Qed.

(* two duplicate-free lists with the same members have the same length *)
Lemma rc_NoDup_same_length {A} (l1 l2 : list A) : NoDup l1 -> NoDup l2 -> (forall a, In a l1 <-> In a l2) ->
  length l1 = length l2.
Proof.
  intros H1 H2 H. apply Nat.le_antisymm; apply NoDup_incl_length; auto; intros a Ha; now apply H.
Qed.

(* ------------------------------------------------------------------ *)
(** * The rotated planar code                                          *)
(* ------------------------------------------------------------------ *)
Section RotPlanarRank.
Variables rows cols : Z.
Hypothesis Hr : 3 <= rows.
Hypothesis Hc : 3 <= cols.

Notation insb := (rotplanar_is_in_site_bounds rows cols).
Notation inpb := (rotplanar_is_in_plaquette_bounds rows cols).
Notation N := (rp_n rows cols).
Notation PI := (rp_plaquette_indices rows cols).
Notation fl := (rp_fl rows cols).
Notation sop := (rp_sop rows cols).
Notation stab := (rp_stab rows cols).
Notation lxop := (rp_lxop rows cols).
Notation lzop := (rp_lzop rows cols).
Notation STABS := (stabs (rotplanar_code rows cols)).
Notation isx := rotplanar_is_x_plaquette.

Lemma rp_n_unfold : N = Z.to_nat (rows * cols).
Proof. reflexivity. Qed.
Lemma rp_even_NN : Nat.even (N + N) = true.
Proof. apply rpr_even_double. Qed.
Lemma rp_sop_length op L : length (sop op L) = (N + N)%nat.
Proof. rewrite rp_sop_gop. apply rc_gop_length. Qed.
Lemma rp_stab_length q : length (stab q) = (N + N)%nat.
Proof. apply rp_sop_length. Qed.
Lemma rp_fl_lt s : insb s = true -> (fl s < N)%nat.
Proof.
  intros H. pose proof (rp_flatten_range rows cols s H) as Hf. unfold rp_fl, rp_n.
  destruct (rotplanar_n_k_d rows cols) as [[n k] d]. cbn [fst] in Hf. lia.
Qed.
Lemma rp_fl_inj s t : insb s = true -> insb t = true -> fl s = fl t -> s = t.
Proof. apply rp_flat_nat_inj. Qed.

(* ---------- the plaquette list ---------- *)
Lemma rp_scan_eq : rp_scan rows cols = rc_rect (-1) (Z.to_nat (cols + 2)) (-1) (Z.to_nat (rows + 2)).
Proof.
  unfold rp_scan, rc_rect, rc_range. cbn [rotplanar_site_bounds].
  replace (Z.to_nat (cols - 1 + 2 - -1)) with (Z.to_nat (cols + 2)) by lia.
  replace (Z.to_nat (rows - 1 + 2 - -1)) with (Z.to_nat (rows + 2)) by lia. reflexivity.
Qed.
Lemma rp_PI_iff q : In q PI <-> inpb q = true.
Proof.
  split; [apply rp_in_plaquette_indices|]. intros H. unfold rp_plaquette_indices.
  rewrite in_app_iff, !filter_In. rewrite rp_scan_eq. destruct q as [x y].
  assert (Hs : In (x, y) (rc_rect (-1) (Z.to_nat (cols + 2)) (-1) (Z.to_nat (rows + 2)))).
  { apply rc_rect_In. apply rp_inpb_iff in H. lia. }
  destruct (rotplanar_is_z_plaquette (x, y)); cbn [negb]; auto.
Qed.
Lemma rp_PI_NoDup : NoDup PI.
Proof.
  unfold rp_plaquette_indices. rewrite rp_scan_eq. cbv zeta.
  apply NoDup_app_disj; try (apply NoDup_filter, NoDup_filter, rc_rect_NoDup).
  intros q H1 H2. apply filter_In in H1, H2. destruct H1 as [_ H1], H2 as [_ H2]. rewrite H1 in H2. discriminate.
Qed.
Lemma rp_PI_x x y : In (x, y) PI -> isx (x, y) = true -> -1 <= x <= cols - 1 /\ 0 <= y <= rows - 2 /\ (x - y) mod 2 = 1.
Proof.
  intros H T. apply rp_PI_iff in H. pose proof (rp_x_inpb rows cols x y T H). rewrite rp_xplaq_unfold in T. cbn [fst snd] in T. lia.
Qed.
Lemma rp_PI_z x y : In (x, y) PI -> isx (x, y) = false -> 0 <= x <= cols - 2 /\ -1 <= y <= rows - 1 /\ (x - y) mod 2 = 0.
Proof.
  intros H T. apply rp_PI_iff in H. pose proof (rp_z_inpb rows cols x y T H). rewrite rp_xplaq_unfold in T. cbn [fst snd] in T. lia.
Qed.
Lemma rp_PI_x_intro x y : -1 <= x <= cols - 1 -> 0 <= y <= rows - 2 -> (x - y) mod 2 = 1 -> In (x, y) PI.
Proof. intros H1 H2 H3. apply rp_PI_iff, rp_inpb_iff. lia. Qed.
Lemma rp_PI_z_intro x y : 0 <= x <= cols - 2 -> -1 <= y <= rows - 1 -> (x - y) mod 2 = 0 -> In (x, y) PI.
Proof. intros H1 H2 H3. apply rp_PI_iff, rp_inpb_iff. lia. Qed.

(* ---------- components of an operator at a site (false outside the lattice) ---------- *)
Definition rp_xat (e : bsf) (s : ridx) : bool := insb s && nth (fl s) (firstn N e) false.
Definition rp_zat (e : bsf) (s : ridx) : bool := insb s && nth (fl s) (skipn N e) false.
Lemma rp_halves e : length e = (N + N)%nat -> halves e = (firstn N e, skipn N e).
Proof. intros H. apply halves_2n. lia. Qed.
Lemma rp_xat_out e s : insb s = false -> rp_xat e s = false.
Proof. intros H. unfold rp_xat. now rewrite H. Qed.
Lemma rp_zat_out e s : insb s = false -> rp_zat e s = false.
Proof. intros H. unfold rp_zat. now rewrite H. Qed.

(* the symplectic product with a Z-type (X-type) site-list operator reads the X (Z) components on its sites *)
Lemma rp_bsp_e_sopZ e L : length e = (N + N)%nat -> bsp e (sop pZ L) = xsumb (rp_xat e) L.
Proof.
  intros He. unfold bsp, swap_halves. rewrite (rp_halves e He), rp_sop_gop, rc_gop_parts.
  assert (L1 : length (skipn N e) = N) by (rewrite skipn_length; lia).
  assert (L2 : length (firstn N e) = N) by (rewrite firstn_length; lia).
  unfold rc_xpart, rc_zpart. cbn [xbit zbit].
  rewrite dot_app by now rewrite zeros_length. rewrite dot_zeros_r, xorb_false_l.
  rewrite dot_comm, rc_dot_flips.
  - rewrite dot_zeros_l, xorb_false_r. unfold rp_keys. rewrite rc_xsumb_xsumb, xsumb_map, xsumb_filter. reflexivity.
  - now rewrite zeros_length.
  - intros k Hk. rewrite zeros_length. now apply (rp_keys_klt rows cols L).
Qed.
Lemma rp_bsp_e_sopX e L : length e = (N + N)%nat -> bsp e (sop pX L) = xsumb (rp_zat e) L.
Proof.
  intros He. unfold bsp, swap_halves. rewrite (rp_halves e He), rp_sop_gop, rc_gop_parts.
  assert (L1 : length (skipn N e) = N) by (rewrite skipn_length; lia).
  assert (L2 : length (firstn N e) = N) by (rewrite firstn_length; lia).
  unfold rc_xpart, rc_zpart. cbn [xbit zbit].
  rewrite dot_app by now rewrite rc_flips_length, zeros_length. rewrite dot_zeros_r, xorb_false_r.
  rewrite dot_comm, rc_dot_flips.
  - rewrite dot_zeros_l, xorb_false_r. unfold rp_keys. rewrite rc_xsumb_xsumb, xsumb_map, xsumb_filter. reflexivity.
  - now rewrite zeros_length.
  - intros k Hk. rewrite zeros_length. now apply (rp_keys_klt rows cols L).
Qed.

(* commutation with a generator is a four-corner relation on the components *)
Definition rp_four (g : ridx -> bool) (x y : Z) : bool :=
  xorb (xorb (g (x, y)) (g (x, y + 1))) (xorb (g (x + 1, y + 1)) (g (x + 1, y))).
Lemma rp_stab_z_four e x y : length e = (N + N)%nat -> isx (x, y) = false ->
  bsp e (stab (x, y)) = rp_four (rp_xat e) x y.
Proof.
  intros He T. unfold rp_stab, rp_plaq_op, rotplanar_is_z_plaquette. rewrite T. cbn [negb].
  rewrite rp_bsp_e_sopZ by auto. cbn [rp_corners xsumb]. unfold rp_four.
  now destruct (rp_xat e (x, y)), (rp_xat e (x, y + 1)), (rp_xat e (x + 1, y + 1)), (rp_xat e (x + 1, y)).
Qed.
Lemma rp_stab_x_four e x y : length e = (N + N)%nat -> isx (x, y) = true ->
  bsp e (stab (x, y)) = rp_four (rp_zat e) x y.
Proof.
  intros He T. unfold rp_stab, rp_plaq_op, rotplanar_is_z_plaquette. rewrite T. cbn [negb].
  rewrite rp_bsp_e_sopX by auto. cbn [rp_corners xsumb]. unfold rp_four.
  now destruct (rp_zat e (x, y)), (rp_zat e (x, y + 1)), (rp_zat e (x + 1, y + 1)), (rp_zat e (x + 1, y)).
Qed.

(* ---------- dual vectors ---------- *)
Definition rp_colseg (c y : Z) : list ridx := map (fun b => (c, b)) (rc_zrange 0 (Z.to_nat (y + 1))).
Definition rp_rowseg (x r : Z) : list ridx := map (fun a => (a, r)) (rc_zrange 0 (Z.to_nat (x + 1))).
Definition rp_dualv (q : ridx) : bsf :=
  if isx q then sop pZ (rp_colseg (Z.max (fst q) 0) (snd q)) else sop pX (rp_rowseg (fst q) (Z.max (snd q) 0)).

Lemma rp_dual_x_pairs x y x' y' : In (x, y) PI -> isx (x, y) = true -> In (x', y') PI -> isx (x', y') = true ->
  Z.odd (rc_pairs (filter insb (rp_corners (x', y'))) (filter insb (rp_colseg (Z.max x 0) y))) = rc_idx_eqb (x', y') (x, y).
Proof.
  intros H1 T1 H2 T2. pose proof (rp_PI_x x y H1 T1) as B1. pose proof (rp_PI_x x' y' H2 T2) as B2. clear H1 T1 H2 T2.
  rewrite rc_pairs_filter.
  change (rp_corners (x', y')) with [(x', y'); (x', y' + 1); (x' + 1, y' + 1); (x' + 1, y')]. cbn [fold_right].
  unfold rp_colseg. rewrite !rc_cnt_filter, !rc_cnt_vline, !rc_b2z_mul, !andb_assoc, !andb_diag. cbn [fst snd].
  rewrite !rp_insb_unfold. cbn [fst snd].
  destruct (rc_idx_eqb (x', y') (x, y)) eqn:E.
  - apply rc_idx_eqb_spec in E. injection E as -> ->. apply rc_odd_of_mod2_1. lia.
  - assert (Hne : x' <> x \/ y' <> y).
    { destruct (Z.eq_dec x' x) as [->|]; [|auto]. destruct (Z.eq_dec y' y) as [->|]; [|auto].
      rewrite rc_idx_eqb_refl in E. discriminate. }
    clear E. apply rc_odd_of_mod2_0. lia.
Qed.

Lemma rp_dual_z_pairs x y x' y' : In (x, y) PI -> isx (x, y) = false -> In (x', y') PI -> isx (x', y') = false ->
  Z.odd (rc_pairs (filter insb (rp_corners (x', y'))) (filter insb (rp_rowseg x (Z.max y 0)))) = rc_idx_eqb (x', y') (x, y).
Proof.
  intros H1 T1 H2 T2. pose proof (rp_PI_z x y H1 T1) as B1. pose proof (rp_PI_z x' y' H2 T2) as B2. clear H1 T1 H2 T2.
  rewrite rc_pairs_filter.
  change (rp_corners (x', y')) with [(x', y'); (x', y' + 1); (x' + 1, y' + 1); (x' + 1, y')]. cbn [fold_right].
  unfold rp_rowseg. rewrite !rc_cnt_filter, !rc_cnt_hline, !rc_b2z_mul, !andb_assoc, !andb_diag. cbn [fst snd].
  rewrite !rp_insb_unfold. cbn [fst snd].
  destruct (rc_idx_eqb (x', y') (x, y)) eqn:E.
  - apply rc_idx_eqb_spec in E. injection E as -> ->. apply rc_odd_of_mod2_1. lia.
  - assert (Hne : x' <> x \/ y' <> y).
    { destruct (Z.eq_dec x' x) as [->|]; [|auto]. destruct (Z.eq_dec y' y) as [->|]; [|auto].
      rewrite rc_idx_eqb_refl in E. discriminate. }
    clear E. apply rc_odd_of_mod2_0. lia.
Qed.

Lemma rp_dualv_length q : length (rp_dualv q) = (N + N)%nat.
Proof. unfold rp_dualv. destruct (isx q); apply rp_sop_length. Qed.
Lemma rp_idx_eqb_types q q' : isx q = true -> isx q' = false -> rc_idx_eqb q' q = false.
Proof.
  intros T T'. destruct (rc_idx_eqb q' q) eqn:E; [|reflexivity]. apply rc_idx_eqb_spec in E. subst. congruence.
Qed.
Lemma rp_dualv_spec q q' : In q PI -> In q' PI -> bsp (rp_dualv q) (stab q') = rc_idx_eqb q' q.
Proof.
  intros Hq Hq'. unfold rp_dualv, rp_stab, rp_plaq_op, rotplanar_is_z_plaquette.
  destruct q as [x y], q' as [x' y']. cbn [fst snd].
  destruct (isx (x, y)) eqn:T, (isx (x', y')) eqn:T'; cbn [negb];
    rewrite rp_bsp_sop_sym, rp_bsp_sop; cbv zeta; cbn [xbit zbit].
  - rewrite rp_dual_x_pairs by auto. now destruct (rc_idx_eqb (x', y') (x, y)).
  - rewrite (rp_idx_eqb_types (x, y) (x', y')) by auto. now destruct (Z.odd _).
  - assert (E : rc_idx_eqb (x', y') (x, y) = false).
    { destruct (rc_idx_eqb (x', y') (x, y)) eqn:E; [|reflexivity]. apply rc_idx_eqb_spec in E. congruence. }
    rewrite E. now destruct (Z.odd _).
  - rewrite rp_dual_z_pairs by auto. now destruct (rc_idx_eqb (x', y') (x, y)).
Qed.

(* ---------- C07: independence ---------- *)
Lemma rp_code_stabs : STABS = map stab PI.
Proof. rewrite rp_code_eq by assumption. reflexivity. Qed.
Lemma rp_stabs_rowlen : rowlen (N + N) STABS.
Proof.
  rewrite rp_code_stabs. apply Forall_forall. intros r Hr'. apply in_map_iff in Hr'. destruct Hr' as (q & <- & _). apply rp_stab_length.
Qed.
Theorem rotplanar_stabilizers_independent_sel sel : length sel = length STABS ->
  xsum (N + N) (select sel STABS) = zeros (N + N) -> forall b, In b sel -> b = false.
Proof.
  rewrite rp_code_stabs, map_length. intros HL Hz.
  apply (dual_independent rc_idx_eqb rc_idx_eqb_spec PI stab rp_dualv (N + N) rp_PI_NoDup rp_even_NN); auto.
  - intros q _. apply rp_stab_length.
  - intros q _. apply rp_dualv_length.
  - intros q q' Hq Hq'. now apply rp_dualv_spec.
Qed.
Theorem rotplanar_stabilizers_independent : independent (N + N) STABS.
Proof.
  intros cs HL Hz. rewrite lincomb_select in Hz. rewrite <- HL. apply all_false_zeros.
  now apply rotplanar_stabilizers_independent_sel.
Qed.

(* ... and they stay independent together with the two logical operators *)
Theorem rotplanar_stabilizers_logicals_independent :
  independent (N + N) (STABS ++ lxs (rotplanar_code rows cols) ++ lzs (rotplanar_code rows cols)).
Proof.
  intros cs HL Hz. rewrite lincomb_select in Hz. rewrite <- HL. apply all_false_zeros.
  pose proof rotplanar_stabilizers_independent_sel as Hind.
  rewrite rp_code_eq in * by assumption. cbn [stabs lxs lzs app] in *. rewrite app_length in HL. cbn [length] in HL.
  set (S := map stab PI) in *.
  assert (Hsplit : exists cs1 a b, cs = cs1 ++ [a; b] /\ length cs1 = length S).
  { exists (firstn (length S) cs), (nth (length S) cs false), (nth (Datatypes.S (length S)) cs false).
    split; [|rewrite firstn_length; lia].
    rewrite <- (firstn_skipn (length S) cs) at 1. f_equal.
    assert (Hsk : length (skipn (length S) cs) = 2%nat) by (rewrite skipn_length; lia).
    rewrite <- (firstn_skipn (length S) cs) at 2 3.
    assert (Hf : length (firstn (length S) cs) = length S) by (rewrite firstn_length; lia).
    rewrite !app_nth2 by lia. rewrite Hf, Nat.sub_diag. replace (Datatypes.S (length S) - length S)%nat with 1%nat by lia.
    destruct (skipn (length S) cs) as [|x [|y [|z t]]]; cbn in Hsk; try lia. reflexivity. }
  destruct Hsplit as (cs1 & a & b & -> & Hl1).
  rewrite select_app in Hz by exact Hl1.
  assert (HS : rowlen (N + N) S).
  { apply Forall_forall. intros r Hr'. apply in_map_iff in Hr'. destruct Hr' as (q & <- & _). apply rp_stab_length. }
  assert (Hlx : length lxop = (N + N)%nat) by apply rp_sop_length.
  assert (Hlz : length lzop = (N + N)%nat) by apply rp_sop_length.
  set (T := select cs1 S ++ select [a; b] [lxop; lzop]) in *.
  assert (HT : Forall (fun r => length r = (N + N)%nat) T).
  { apply Forall_app. split.
    - apply Forall_forall. intros r Hr'. apply select_In in Hr'. unfold rowlen in HS. rewrite Forall_forall in HS. auto.
    - apply Forall_forall. intros r Hr'. apply select_In in Hr'. cbn in Hr'. destruct Hr' as [<-|[<-|[]]]; auto. }
  destruct (rotplanar_logicals_anticommute_all rows cols Hr Hc) as (XZ & ZX & XX & ZZ).
  assert (Hsel0 : forall l, (forall q, In q PI -> bsp (stab q) l = false) ->
                            xsumb (fun s => bsp s l) (select cs1 S) = false).
  { intros l Hl. rewrite <- (xsumb_false (select cs1 S)). apply xsumb_ext. intros s Hs. apply select_In in Hs.
    apply in_map_iff in Hs. destruct Hs as (q & <- & Hq). now apply Hl. }
  (* pairing with logical Z isolates the coefficient of logical X, and conversely *)
  assert (Ha : a = false).
  { pose proof (bsp_xsum_l (N + N) lzop T Hlz rp_even_NN HT) as HB. rewrite Hz in HB.
    rewrite bsp_zeros_l in HB by (auto using rp_even_NN). unfold T in HB. rewrite xsumb_app in HB.
    rewrite Hsel0 in HB by (intros q Hq; now apply rotplanar_stabilizer_logical_z_all).
    destruct a, b; cbn [select xsumb] in HB; rewrite ?XZ, ?ZZ in HB; cbn [xorb] in HB; auto; discriminate. }
  assert (Hb : b = false).
  { pose proof (bsp_xsum_l (N + N) lxop T Hlx rp_even_NN HT) as HB. rewrite Hz in HB.
    rewrite bsp_zeros_l in HB by (auto using rp_even_NN). unfold T in HB. rewrite xsumb_app in HB.
    rewrite Hsel0 in HB by (intros q Hq; now apply rotplanar_stabilizer_logical_x_all).
    destruct a, b; cbn [select xsumb] in HB; rewrite ?ZX, ?XX in HB; cbn [xorb] in HB; auto; discriminate. }
  subst a b. unfold T in Hz. cbn [select] in Hz. rewrite app_nil_r in Hz.
  intros x Hx. apply in_app_iff in Hx. destruct Hx as [Hx|Hx]; [|cbn in Hx; destruct Hx as [<-|[<-|[]]]; reflexivity].
  apply (Hind cs1); auto.
Qed.

(* ---------- counting: length stabilizers = n - 1 = n - k ---------- *)
Lemma rp_in_map_col (c : Z) (l : list Z) (x y : Z) : In (x, y) (map (fun b : Z => (c, b)) l) <-> x = c /\ In y l.
Proof.
  rewrite in_map_iff. split.
  - intros (b & E & Hb). injection E as <- <-. auto.
  - intros [-> H]. exists y. auto.
Qed.
Lemma rp_in_map_row (r : Z) (l : list Z) (x y : Z) : In (x, y) (map (fun a : Z => (a, r)) l) <-> y = r /\ In x l.
Proof.
  rewrite in_map_iff. split.
  - intros (a & E & Ha). injection E as <- <-. auto.
  - intros [-> H]. exists x. auto.
Qed.
Definition rp_bulk : list ridx := rc_rect 0 (Z.to_nat (cols - 1)) 0 (Z.to_nat (rows - 1)).
Definition rp_left : list ridx := map (fun y => (-1, y)) (rc_prog 0 (Z.to_nat (rows / 2))).
Definition rp_right : list ridx :=
  map (fun y => (cols - 1, y)) (rc_prog (cols mod 2) (Z.to_nat ((rows - cols mod 2) / 2))).
Definition rp_bottom : list ridx := map (fun x => (x, -1)) (rc_prog 1 (Z.to_nat ((cols - 1) / 2))).
Definition rp_top : list ridx :=
  map (fun x => (x, rows - 1)) (rc_prog ((rows - 1) mod 2) (Z.to_nat ((cols - (rows - 1) mod 2) / 2))).
Definition rp_explicit : list ridx := rp_bulk ++ rp_left ++ rp_right ++ rp_bottom ++ rp_top.

Lemma rp_bulk_In x y : In (x, y) rp_bulk <-> 0 <= x <= cols - 2 /\ 0 <= y <= rows - 2.
Proof. unfold rp_bulk. rewrite rc_rect_In. lia. Qed.
Lemma rp_left_In x y : In (x, y) rp_left <-> x = -1 /\ 0 <= y <= rows - 2 /\ y mod 2 = 0.
Proof. unfold rp_left. rewrite rp_in_map_col, rc_prog_In. lia. Qed.
Lemma rp_right_In x y : In (x, y) rp_right <-> x = cols - 1 /\ 0 <= y <= rows - 2 /\ (cols - 1 - y) mod 2 = 1.
Proof. unfold rp_right. rewrite rp_in_map_col, rc_prog_In. lia. Qed.
Lemma rp_bottom_In x y : In (x, y) rp_bottom <-> y = -1 /\ 0 <= x <= cols - 2 /\ x mod 2 = 1.
Proof. unfold rp_bottom. rewrite rp_in_map_row, rc_prog_In. lia. Qed.
Lemma rp_top_In x y : In (x, y) rp_top <-> y = rows - 1 /\ 0 <= x <= cols - 2 /\ (x - (rows - 1)) mod 2 = 0.
Proof. unfold rp_top. rewrite rp_in_map_row, rc_prog_In. lia. Qed.
Lemma rp_explicit_In q : In q rp_explicit <-> inpb q = true.
Proof.
  destruct q as [x y]. unfold rp_explicit.
  rewrite !in_app_iff, rp_bulk_In, rp_left_In, rp_right_In, rp_bottom_In, rp_top_In, rp_inpb_iff. lia.
Qed.
Lemma rp_explicit_NoDup : NoDup rp_explicit.
Proof.
  unfold rp_explicit. repeat apply NoDup_app_disj.
  - apply rc_rect_NoDup.
  - apply rc_NoDup_map_inj; [|apply rc_prog_NoDup]. intros a b _ _ E. congruence.
  - apply rc_NoDup_map_inj; [|apply rc_prog_NoDup]. intros a b _ _ E. congruence.
  - apply rc_NoDup_map_inj; [|apply rc_prog_NoDup]. intros a b _ _ E. congruence.
  - apply rc_NoDup_map_inj; [|apply rc_prog_NoDup]. intros a b _ _ E. congruence.
  - intros [x y]. rewrite rp_bottom_In, rp_top_In. lia.
  - intros [x y]. rewrite !in_app_iff, rp_right_In, rp_bottom_In, rp_top_In. lia.
  - intros [x y]. rewrite !in_app_iff, rp_left_In, rp_right_In, rp_bottom_In, rp_top_In. lia.
  - intros [x y]. rewrite !in_app_iff, rp_bulk_In, rp_left_In, rp_right_In, rp_bottom_In, rp_top_In. lia.
Qed.
Lemma rp_explicit_length : S (length rp_explicit) = N.
Proof.
  unfold rp_explicit, rp_bulk, rp_left, rp_right, rp_bottom, rp_top.
  rewrite !app_length, !map_length, !rc_prog_length, rc_rect_length, rp_n_unfold.
  rewrite <- Z2Nat.inj_mul by lia.
  assert (E : (rows - 1) * (cols - 1) = rows * cols - rows - cols + 1) by ring. rewrite E.
  assert (P : 9 <= rows * cols) by nia. assert (P2 : 4 <= rows * cols - rows - cols + 1) by nia.
  set (RC := rows * cols) in *. lia.
Qed.
Theorem rotplanar_stabilizers_length : S (length STABS) = N.
Proof.
  rewrite rp_code_stabs, map_length. rewrite <- rp_explicit_length. f_equal.
  apply rc_NoDup_same_length; [apply rp_PI_NoDup|apply rp_explicit_NoDup|].
  intros q. now rewrite rp_PI_iff, rp_explicit_In.
Qed.
(* ... so, with k = 1:  n_k_d gives n - k = number of generators *)
Theorem rotplanar_stabilizers_count :
  let '(n, k, d) := rotplanar_n_k_d rows cols in Z.of_nat (length STABS) = n - k.
Proof.
  pose proof rotplanar_stabilizers_length as H. rewrite rp_n_unfold in H. unfold rotplanar_n_k_d. cbv beta iota zeta.
  assert (P : 9 <= rows * cols) by nia. lia.
Qed.

(* ---------- C07 in the vocabulary of Core/Rank.v ---------- *)
Theorem rotplanar_rank_is_all_sec :
  rank_is (N + N) STABS (N - 1) /\
  rank_is (N + N) (STABS ++ lxs (rotplanar_code rows cols) ++ lzs (rotplanar_code rows cols)) (N + 1).
Proof.
  pose proof rotplanar_stabilizers_length as HL. split.
  - exists STABS. split; [apply incl_refl|]. split; [lia|].
    split; [apply rotplanar_stabilizers_independent|]. intros r Hr'. apply in_spanP_In; auto using rp_stabs_rowlen.
  - set (R := STABS ++ lxs (rotplanar_code rows cols) ++ lzs (rotplanar_code rows cols)).
    assert (HR : rowlen (N + N) R).
    { unfold R. apply Forall_app. split; [apply rp_stabs_rowlen|]. rewrite rp_code_eq by assumption. cbn [lxs lzs app].
      repeat constructor; apply rp_sop_length. }
    exists R. split; [apply incl_refl|]. split.
    + unfold R. rewrite app_length. rewrite rp_code_eq in * by assumption. cbn [stabs lxs lzs app length] in *. lia.
    + split; [apply rotplanar_stabilizers_logicals_independent|]. intros r Hr'. now apply in_spanP_In.
Qed.

End RotPlanarRank.

(* ================================================================== *)
(** * C07 for the rotated planar code, every size                      *)
(* ================================================================== *)
Theorem rotplanar_rank_is_all : forall rows cols, 3 <= rows -> 3 <= cols ->
  let c := rotplanar_code rows cols in
  let n := rp_n rows cols in
  rank_is (n + n) (stabs c) (n - 1) /\ rank_is (n + n) (stabs c ++ lxs c ++ lzs c) (n + 1).
Proof. intros rows cols Hr Hc. exact (rotplanar_rank_is_all_sec rows cols Hr Hc). Qed.

(* the same, with n and k read off the translated n_k_d formula (the all-sizes form of RotPlanarBounded.rotplanar_rank_upto_9) *)
Theorem rotplanar_rank_nkd : forall rows cols, 3 <= rows -> 3 <= cols ->
  rc_rank (rotplanar_n_k_d rows cols) (rotplanar_code rows cols).
Proof.
  intros rows cols Hr Hc. destruct (rotplanar_rank_is_all_sec rows cols Hr Hc) as [H1 H2].
  unfold rc_rank, rotplanar_n_k_d, logicals. cbv beta iota zeta.
  assert (P : 9 <= rows * cols) by nia.
  assert (E0 : rp_n rows cols = Z.to_nat (rows * cols)) by reflexivity.
  replace (Z.to_nat (2 * (rows * cols))) with (rp_n rows cols + rp_n rows cols)%nat by lia.
  replace (Z.to_nat (rows * cols - 1)) with (rp_n rows cols - 1)%nat by lia.
  replace (Z.to_nat (rows * cols + 1)) with (rp_n rows cols + 1)%nat by lia.
  split; assumption.
Qed.
Theorem rotplanar_stabilizers_count_all : forall rows cols, 3 <= rows -> 3 <= cols ->
  let '(n, k, d) := rotplanar_n_k_d rows cols in Z.of_nat (length (stabs (rotplanar_code rows cols))) = n - k.
Proof. intros rows cols Hr Hc. exact (rotplanar_stabilizers_count rows cols Hr Hc). Qed.

(* validity and the matrix shapes, every size: the statement left open in RotPlanarBounded.v *)
Theorem rotplanar_shape_all : forall rows cols, 3 <= rows -> 3 <= cols ->
  rc_shape (rotplanar_n_k_d rows cols) (rotplanar_code rows cols) 0.
Proof.
  intros rows cols Hr Hc. pose proof (rotplanar_stabilizers_length rows cols Hr Hc) as HL.
  pose proof (rp_stabs_rowlen rows cols Hr Hc) as HR. unfold rowlen in HR. rewrite Forall_forall in HR.
  assert (P : 9 <= rows * cols) by nia. assert (E0 : rp_n rows cols = Z.to_nat (rows * cols)) by reflexivity.
  unfold rc_shape, rotplanar_n_k_d. cbv beta iota zeta. repeat split; try lia.
  - intros r Hin. replace (Z.to_nat (2 * (rows * cols))) with (rp_n rows cols + rp_n rows cols)%nat by lia.
    apply in_app_iff in Hin. destruct Hin as [Hin|Hin]; [now apply HR|].
    rewrite rp_code_eq in Hin by assumption. cbn in Hin. destruct Hin as [<-|[<-|[]]]; apply rp_sop_length.
Qed.
Theorem rotplanar_valid_shape_all : rotplanar_valid_statement.
Proof. intros rows cols Hr Hc. split; [now apply rotplanar_valid_all|now apply rotplanar_shape_all]. Qed.

(* non-vacuity *)
Example rotplanar_rank_is_3x5 : rank_is 30 (stabs (rotplanar_code 3 5)) 14.
Proof. exact (proj1 (rotplanar_rank_is_all 3 5 ltac:(lia) ltac:(lia))). Qed.
Example rotplanar_rank_nkd_4x7 : rank_is 56 (stabs (rotplanar_code 4 7)) 27 /\
  rank_is 56 (stabs (rotplanar_code 4 7) ++ logicals (rotplanar_code 4 7)) 29.
Proof. exact (rotplanar_rank_nkd 4 7 ltac:(lia) ltac:(lia)). Qed.
Print Assumptions rotplanar_rank_is_all.
Print Assumptions rotplanar_rank_nkd.
Print Assumptions rotplanar_valid_shape_all.
