(* Lattice/Basic.v — the two literal codes of models/basic.py (FiveQubitCode, SteaneCode) through
   pauli_to_bsf, with their validity, rank and distance decided in the kernel. *)
From Coq Require Import Arith List Bool Lia.
From QV Require Import Core.Bits Core.Pauli Core.Symp Core.Code Core.Span Core.Rank Core.Dist.
Import ListNotations.

Definition five_qubit_code : code :=
  mkCode (map to_bsf [[pX;pZ;pZ;pX;pI]; [pI;pX;pZ;pZ;pX]; [pX;pI;pX;pZ;pZ]; [pZ;pX;pI;pX;pZ]])
         [to_bsf [pX;pX;pX;pX;pX]] [to_bsf [pZ;pZ;pZ;pZ;pZ]].
Definition steane_code : code :=
  mkCode (map to_bsf [[pI;pI;pI;pX;pX;pX;pX]; [pI;pX;pX;pI;pI;pX;pX]; [pX;pI;pX;pI;pX;pI;pX];
                      [pI;pI;pI;pZ;pZ;pZ;pZ]; [pI;pZ;pZ;pI;pI;pZ;pZ]; [pZ;pI;pZ;pI;pZ;pI;pZ]])
         [to_bsf [pX;pX;pX;pX;pX;pX;pX]] [to_bsf [pZ;pZ;pZ;pZ;pZ;pZ;pZ]].

Theorem basic_valid : validate five_qubit_code = VOk /\ validate steane_code = VOk.
Proof. vm_compute. auto. Qed.
Theorem basic_rank :
  rank_is 10 (stabs five_qubit_code) 4 /\ rank_is 10 (stabs five_qubit_code ++ logicals five_qubit_code) 6 /\
  rank_is 14 (stabs steane_code) 6 /\ rank_is 14 (stabs steane_code ++ logicals steane_code) 8.
Proof. repeat split; apply rank_check_sound; vm_compute; reflexivity. Qed.
Theorem basic_distance : is_distance 5 (stabs five_qubit_code) 3 /\ is_distance 7 (stabs steane_code) 3.
Proof.
  split.
  - apply (distance_check_sound 5 _ 3 (to_bsf [pX;pY;pX;pI;pI]) (to_bsf [pX;pX;pX;pX;pX])). vm_compute. reflexivity.
  - apply (distance_check_sound 7 _ 3 (to_bsf [pX;pX;pX;pI;pI;pI;pI]) (to_bsf [pZ;pZ;pZ;pZ;pZ;pZ;pZ])). vm_compute. reflexivity.
Qed.
