(* Lattice/RotPlanar.v — model of RotatedPlanarCode / RotatedPlanarPauli
   (src/qecsim/models/rotatedplanar/_rotatedplanarcode.py, _rotatedplanarpauli.py).
   Every integer kernel (n_k_d, site_bounds, is_in_site_bounds, is_in_plaquette_bounds,
   is_z_plaquette, _flatten_site_index) is the translator's output in Generated/LatticeArith.v.
   The first part (prefix rc_) is the dense-Pauli machinery shared with RotToric.v and Color.v. *)
From Coq Require Import List Bool Arith ZArith Lia.
From QV Require Import Core.Bits Core.Pauli Core.Symp Core.Code Generated.LatticeArith.
Import ListNotations.
Local Open Scope Z_scope.

(* ------------------------------------------------------------------ *)
(* dense lattice Paulis: the two numpy arrays _xs, _zs                 *)
(* ------------------------------------------------------------------ *)
Record rc_pauli := rc_mk { rc_xs : bsf; rc_zs : bsf }.
Definition rc_identity (n : nat) : rc_pauli := rc_mk (zeros n) (zeros n).
(* a[i] ^= 1 *)
Fixpoint rc_flip_at (i : nat) (l : bsf) : bsf :=
  match l with
  | [] => []
  | b :: r => match i with O => negb b :: r | S j => b :: rc_flip_at j r end
  end.
(* if operator in ('X','Y'): xs[i] ^= 1 ; if operator in ('Z','Y'): zs[i] ^= 1 *)
Definition rc_flip (op : pl) (i : nat) (p : rc_pauli) : rc_pauli :=
  rc_mk (if xbit op then rc_flip_at i (rc_xs p) else rc_xs p)
        (if zbit op then rc_flip_at i (rc_zs p) else rc_zs p).
(* to_bsf: np.concatenate((xs, zs)) *)
Definition rc_to_bsf (p : rc_pauli) : bsf := rc_xs p ++ rc_zs p.
(* _from_bsf: np.hsplit(bsf, 2) *)
Definition rc_of_bsf (b : bsf) : rc_pauli := let '(x, z) := halves b in rc_mk x z.
(* operator(): Y if x and z, X if x, Z if z, else I *)
Definition rc_letter (i : nat) (p : rc_pauli) : pl := letter (nth i (rc_xs p) false) (nth i (rc_zs p) false).
(* Python range(lo, hi) *)
Definition rc_zrange (lo : Z) (n : nat) : list Z := map (fun i => lo + Z.of_nat i) (seq 0 n).
Definition rc_range (lo hi : Z) : list Z := rc_zrange lo (Z.to_nat (hi - lo)).
(* np.array(indices)[syndrome.nonzero()] *)
Fixpoint rc_select {A} (s : bsf) (l : list A) : list A :=
  match s, l with
  | b :: s', i :: l' => if b then i :: rc_select s' l' else rc_select s' l'
  | _, _ => []
  end.
Definition rc_idx_eqb (a b : Z * Z) : bool := (fst a =? fst b) && (snd a =? snd b).
(* independent description of a support: 1 exactly at the listed flat positions *)
Definition rc_indicator (n : nat) (pos : list nat) : bsf :=
  map (fun i => existsb (Nat.eqb i) pos) (seq 0 n).

(* constructor arguments: a small AST of Python values *)
Inductive rc_arg := RInt (z : Z) | RBool (b : bool) | RFloat | RStr | RNone.
Inductive rc_ctor_res := ROk | RValueError | RTypeError.
(* operator.index: ints and bools have __index__, floats / str / None raise TypeError *)
Definition rc_index (a : rc_arg) : option Z :=
  match a with RInt z => Some z | RBool b => Some (if b then 1 else 0) | _ => None end.

Lemma rc_flip_at_length i : forall l, length (rc_flip_at i l) = length l.
Proof. induction i as [|i IH]; intros [|b l]; cbn; auto. Qed.
Lemma rc_idx_eqb_spec a b : rc_idx_eqb a b = true <-> a = b.
Proof.
  destruct a as [a1 a2], b as [b1 b2]. unfold rc_idx_eqb. cbn. rewrite andb_true_iff, !Z.eqb_eq.
  split; [intros [-> ->]; reflexivity|intros H; injection H; auto].
Qed.
Lemma rc_zrange_In lo n z : In z (rc_zrange lo n) <-> lo <= z < lo + Z.of_nat n.
Proof.
  unfold rc_zrange. rewrite in_map_iff. split.
  - intros (i & <- & Hi). apply in_seq in Hi. lia.
  - intros H. exists (Z.to_nat (z - lo)). split; [lia|]. apply in_seq. lia.
Qed.
Lemma rc_range_In lo hi z : In z (rc_range lo hi) <-> lo <= z < hi.
Proof. unfold rc_range. rewrite rc_zrange_In. lia. Qed.

(* ------------------------------------------------------------------ *)
(* rotated planar                                                       *)
(* ------------------------------------------------------------------ *)
Section RotPlanar.
Variables rows cols : Z.

Definition rp_n : nat := let '(n, _, _) := rotplanar_n_k_d rows cols in Z.to_nat n.
Definition rp_identity : rc_pauli := rc_identity rp_n.

(* RotatedPlanarPauli.site: applied only if code.is_in_site_bounds(index) *)
Definition rp_site (op : pl) (idx : Z * Z) (p : rc_pauli) : rc_pauli :=
  if rotplanar_is_in_site_bounds rows cols idx
  then rc_flip op (Z.to_nat (rotplanar_flatten rows cols idx)) p else p.
Definition rp_sites (op : pl) (idxs : list (Z * Z)) (p : rc_pauli) : rc_pauli :=
  fold_left (fun q i => rp_site op i q) idxs p.
(* RotatedPlanarPauli.operator: IndexError (None) outside the site bounds *)
Definition rp_operator (idx : Z * Z) (p : rc_pauli) : option pl :=
  if rotplanar_is_in_site_bounds rows cols idx
  then Some (rc_letter (Z.to_nat (rotplanar_flatten rows cols idx)) p) else None.
(* RotatedPlanarPauli.plaquette: SW, NW, NE, SE if in plaquette bounds *)
Definition rp_corners (idx : Z * Z) : list (Z * Z) :=
  let '(x, y) := idx in [(x, y); (x, y + 1); (x + 1, y + 1); (x + 1, y)].
Definition rp_plaquette (idx : Z * Z) (p : rc_pauli) : rc_pauli :=
  if rotplanar_is_in_plaquette_bounds rows cols idx then
    let op := if rotplanar_is_z_plaquette idx then pZ else pX in
    rp_sites op (rp_corners idx) p
  else p.
(* logical_x: X on (x, 0) for x in range(0, max_site_x + 1) *)
Definition rp_logical_x (p : rc_pauli) : rc_pauli :=
  let '(max_site_x, max_site_y) := rotplanar_site_bounds rows cols in
  rp_sites pX (map (fun x => (x, 0)) (rc_range 0 (max_site_x + 1))) p.
(* logical_z: Z on (max_site_x, y) for y in range(0, max_site_y + 1) *)
Definition rp_logical_z (p : rc_pauli) : rc_pauli :=
  let '(max_site_x, max_site_y) := rotplanar_site_bounds rows cols in
  rp_sites pZ (map (fun y => (max_site_x, y)) (rc_range 0 (max_site_y + 1))) p.

(* _plaquette_indices: for y in range(-1, max_site_y+2): for x in range(-1, max_site_x+2);
   in-bounds ones, Z-type list then X-type list *)
Definition rp_scan : list (Z * Z) :=
  let '(max_site_x, max_site_y) := rotplanar_site_bounds rows cols in
  flat_map (fun y => map (fun x => (x, y)) (rc_range (-1) (max_site_x + 2))) (rc_range (-1) (max_site_y + 2)).
Definition rp_plaquette_indices : list (Z * Z) :=
  let inb := filter (rotplanar_is_in_plaquette_bounds rows cols) rp_scan in
  filter rotplanar_is_z_plaquette inb ++ filter (fun i => negb (rotplanar_is_z_plaquette i)) inb.
(* all site indices, in flat order (y-major) *)
Definition rp_site_indices : list (Z * Z) :=
  let '(max_site_x, max_site_y) := rotplanar_site_bounds rows cols in
  flat_map (fun y => map (fun x => (x, y)) (rc_range 0 (max_site_x + 1))) (rc_range 0 (max_site_y + 1)).

Definition rp_stabilizers : list bsf :=
  map (fun i => rc_to_bsf (rp_plaquette i rp_identity)) rp_plaquette_indices.
Definition rp_logical_xs : list bsf := [rc_to_bsf (rp_logical_x rp_identity)].
Definition rp_logical_zs : list bsf := [rc_to_bsf (rp_logical_z rp_identity)].
Definition rp_syndrome_to_plaquette_indices (syndrome : bsf) : list (Z * Z) :=
  rc_select syndrome rp_plaquette_indices.
End RotPlanar.

Definition rotplanar_code (rows cols : Z) : code :=
  mkCode (rp_stabilizers rows cols) (rp_logical_xs rows cols) (rp_logical_zs rows cols).

(* RotatedPlanarCode.__init__: operator.index(rows) < 3 or operator.index(columns) < 3 -> ValueError
   (short-circuit: a too-small rows hides a badly typed columns); TypeError from operator.index *)
Definition rp_ctor (a b : rc_arg) : rc_ctor_res :=
  match rc_index a with
  | None => RTypeError
  | Some r => if r <? 3 then RValueError else
      match rc_index b with
      | None => RTypeError
      | Some c => if c <? 3 then RValueError else ROk
      end
  end.

Theorem rp_ctor_ok_iff a b : rp_ctor a b = ROk <->
  exists r c, rc_index a = Some r /\ rc_index b = Some c /\ 3 <= r /\ 3 <= c.
Proof.
  unfold rp_ctor. split.
  - destruct (rc_index a) as [r|]; [|discriminate]. destruct (Z.ltb_spec r 3); [discriminate|].
    destruct (rc_index b) as [c|]; [|discriminate]. destruct (Z.ltb_spec c 3); [discriminate|].
    intros _. exists r, c. auto.
  - intros (r & c & -> & -> & Hr & Hc).
    destruct (Z.ltb_spec r 3); [lia|]. destruct (Z.ltb_spec c 3); [lia|]. reflexivity.
Qed.
Theorem rp_ctor_type_error_iff a b : rp_ctor a b = RTypeError <->
  rc_index a = None \/ (exists r, rc_index a = Some r /\ 3 <= r /\ rc_index b = None).
Proof.
  unfold rp_ctor. split.
  - destruct (rc_index a) as [r|]; [|auto]. destruct (Z.ltb_spec r 3); [discriminate|].
    destruct (rc_index b) as [c|].
    + destruct (Z.ltb_spec c 3); discriminate.
    + intros _. right. exists r. auto.
  - intros [->|(r & -> & Hr & ->)]; [reflexivity|]. destruct (Z.ltb_spec r 3); [lia|]. reflexivity.
Qed.
