(* Lattice/PlanarBounded.v — P<=B theorems about the planar model (Lattice/Planar.v with the integer
   kernels of Generated/LatticeArith.v): every statement is a closed boolean closed by vm_compute, with
   the bound in the statement, plus its Prop-level reading.
     sizes:  all (rows, cols) with 2 <= rows, cols <= 8 (validity, shapes, flatten bijection),
             all (rows, cols) with 2 <= rows, cols <= 7 (paths: ALL ordered same-type pairs, virtual included),
             all (rows, cols) with 2 <= rows, cols <= 6 (GF(2) ranks, Core/Rank.v certificate checker),
             all (rows, cols) with 2 <= rows, cols <= 5 except 5x5 (true minimum distance, Core/DistCSS.v). *)
From Coq Require Import ZArith List Bool Lia.
From QV Require Import Core.Bits Core.Pauli Core.Symp Core.Code Core.Span Core.Rank Core.Dist Core.DistCSS
  Generated.LatticeArith Lattice.Planar.
Import ListNotations.
Open Scope Z_scope.

(* 2, 3, ..., B *)
Definition zfrom2 (B : Z) : list Z := map (fun i => Z.of_nat i + 2) (seq 0 (Z.to_nat (B - 1))).
Definition sizes_upto (B : Z) : list (Z * Z) := flat_map (fun r => map (fun c => (r, c)) (zfrom2 B)) (zfrom2 B).
Lemma zfrom2_In B x : 2 <= x <= B -> In x (zfrom2 B).
Proof.
  intros H. unfold zfrom2. apply in_map_iff. exists (Z.to_nat (x - 2)). split; [lia|]. apply in_seq. lia.
Qed.
Lemma sizes_upto_In B r c : 2 <= r <= B -> 2 <= c <= B -> In (r, c) (sizes_upto B).
Proof.
  intros Hr Hc. unfold sizes_upto. apply in_flat_map. exists r. split; [now apply zfrom2_In|].
  apply in_map_iff. exists c. split; [reflexivity|now apply zfrom2_In].
Qed.
Definition all_sizes (B : Z) (f : Z -> Z -> bool) : bool := forallb (fun s => f (fst s) (snd s)) (sizes_upto B).
Lemma all_sizes_spec B f : all_sizes B f = true -> forall r c, 2 <= r <= B -> 2 <= c <= B -> f r c = true.
Proof.
  intros H r c Hr Hc. unfold all_sizes in H. rewrite forallb_forall in H.
  exact (H (r, c) (sizes_upto_In B r c Hr Hc)).
Qed.

(* ---------------- C07: validity ---------------- *)
Theorem planar_valid_upto8 : all_sizes 8 (fun r c => validb (planar_code r c)) = true.
Proof. vm_compute. reflexivity. Qed.

Lemma validb_validate c : validb c = true -> validate c = VOk.
Proof. unfold validb. destruct (validate c); congruence. Qed.

Theorem planar_valid_upto8_spec : forall r c, 2 <= r <= 8 -> 2 <= c <= 8 ->
  let cd := planar_code r c in
  (forall s s', In s (stabs cd) -> In s' (stabs cd) -> bsp s s' = false) /\
  (forall s l, In s (stabs cd) -> In l (logicals cd) -> bsp s l = false) /\
  canonical (lxs cd) (lzs cd).
Proof.
  intros r c Hr Hc cd.
  pose proof (all_sizes_spec _ _ planar_valid_upto8 r c Hr Hc) as H. cbv beta in H.
  apply validb_validate in H. apply validate_iff_canonical in H; [exact H|reflexivity].
Qed.

(* ---------------- C07: n, k agree with the matrix shapes and with n_k_d ---------------- *)
Definition shapes_ok (r c : Z) : bool :=
  let '(n, k, d) := planar_n_k_d r c in
  let cd := planar_code r c in
  (Z.of_nat (length (stabs cd)) =? n - k) && (Z.of_nat (length (lxs cd)) =? k) && (Z.of_nat (length (lzs cd)) =? k)
  && forallb (fun row => Z.of_nat (length row) =? 2 * n) (stabs cd ++ lxs cd ++ lzs cd)
  && (Z.of_nat (planar_n r c) =? n).
Theorem planar_shapes_upto8 : all_sizes 8 shapes_ok = true.
Proof. vm_compute. reflexivity. Qed.
Theorem planar_shapes_upto8_spec : forall r c, 2 <= r <= 8 -> 2 <= c <= 8 ->
  let '(n, k, d) := planar_n_k_d r c in
  let cd := planar_code r c in
  Z.of_nat (length (stabs cd)) = n - k /\ Z.of_nat (length (lxs cd)) = k /\ Z.of_nat (length (lzs cd)) = k /\
  (forall row, In row (stabs cd ++ lxs cd ++ lzs cd) -> Z.of_nat (length row) = 2 * n).
Proof.
  intros r c Hr Hc. pose proof (all_sizes_spec _ _ planar_shapes_upto8 r c Hr Hc) as H. unfold shapes_ok in H.
  destruct (planar_n_k_d r c) as [[n k] d].
  apply andb_true_iff in H. destruct H as [H _].
  apply andb_true_iff in H. destruct H as [H HF].
  apply andb_true_iff in H. destruct H as [H HZ].
  apply andb_true_iff in H. destruct H as [HS HX].
  repeat split; try (now apply Z.eqb_eq).
  intros row Hrow. rewrite forallb_forall in HF. apply Z.eqb_eq. now apply HF.
Qed.

(* ---------------- C07: flatten is a bijection from the in-bounds sites onto [0, n) ---------------- *)
Definition countz (k : Z) (l : list Z) : nat := length (filter (Z.eqb k) l).
Definition flatten_bij_ok (r c : Z) : bool :=
  let ks := map (planar_flatten r c) (site_indices r c) in
  (length ks =? planar_n r c)%nat &&
  forallb (fun k => (countz (Z.of_nat k) ks =? 1)%nat) (seq 0 (planar_n r c)) &&
  forallb (fun i => planar_is_site i && planar_is_in_bounds r c i) (site_indices r c).
Theorem planar_flatten_bijective_upto8 : all_sizes 8 flatten_bij_ok = true.
Proof. vm_compute. reflexivity. Qed.
(* reading: the n in-bounds sites are sent to n values among which every k < n occurs exactly once *)
Theorem planar_flatten_bijective_upto8_spec : forall r c, 2 <= r <= 8 -> 2 <= c <= 8 ->
  length (site_indices r c) = planar_n r c /\
  forall k, (k < planar_n r c)%nat -> countz (Z.of_nat k) (map (planar_flatten r c) (site_indices r c)) = 1%nat.
Proof.
  intros r c Hr Hc. pose proof (all_sizes_spec _ _ planar_flatten_bijective_upto8 r c Hr Hc) as H.
  unfold flatten_bij_ok in H. apply andb_true_iff in H. destruct H as [H H3]. apply andb_true_iff in H. destruct H as [H1 H2].
  split.
  - apply Nat.eqb_eq in H1. now rewrite map_length in H1.
  - intros k Hk. rewrite forallb_forall in H2. apply Nat.eqb_eq. apply H2. apply in_seq. lia.
Qed.

(* ---------------- C07: GF(2) ranks (sound checker of Core/Rank.v) ---------------- *)
Definition rank_ok (r c : Z) : bool :=
  let cd := planar_code r c in
  let '(n, k, d) := planar_n_k_d r c in
  rank_check (2 * Z.to_nat n) (stabs cd) (Z.to_nat (n - k)) &&
  rank_check (2 * Z.to_nat n) (stabs cd ++ lxs cd ++ lzs cd) (Z.to_nat (n + k)).
Theorem planar_rank_upto6 : all_sizes 6 rank_ok = true.
Proof. vm_compute. reflexivity. Qed.
Theorem planar_rank_upto6_spec : forall r c, 2 <= r <= 6 -> 2 <= c <= 6 ->
  let cd := planar_code r c in
  let '(n, k, d) := planar_n_k_d r c in
  rank_is (2 * Z.to_nat n) (stabs cd) (Z.to_nat (n - k)) /\
  rank_is (2 * Z.to_nat n) (stabs cd ++ lxs cd ++ lzs cd) (Z.to_nat (n + k)).
Proof.
  intros r c Hr Hc. pose proof (all_sizes_spec _ _ planar_rank_upto6 r c Hr Hc) as H. unfold rank_ok in H.
  cbv zeta. destruct (planar_n_k_d r c) as [[n k] d]. apply andb_true_iff in H. destruct H as [H1 H2].
  split; now apply rank_check_sound.
Qed.

(* ---------------- C08: the advertised d is the true minimum distance (sound checker of Core/DistCSS.v:
   a supplied logical of weight d that anticommutes with its partner, and the exhaustive CSS lower bound) -------- *)
Definition dist_ok (r c : Z) : bool :=
  let cd := planar_code r c in
  let '(n, k, d) := planar_n_k_d r c in
  let lx := nth 0 (lxs cd) [] in
  let lz := nth 0 (lzs cd) [] in
  css_distance_check (Z.to_nat n) (stabs cd) (Z.to_nat d) (if r <=? c then lx else lz) (if r <=? c then lz else lx).
Definition dist_sizes : list (Z * Z) := filter (fun s => negb (zeqb2 s (5, 5))) (sizes_upto 5).
Theorem planar_distance_upto5 : forallb (fun s => dist_ok (fst s) (snd s)) dist_sizes = true.
Proof. vm_compute. reflexivity. Qed.
Theorem planar_distance_upto5_spec : forall r c, 2 <= r <= 5 -> 2 <= c <= 5 -> (r, c) <> (5, 5) ->
  let '(n, k, d) := planar_n_k_d r c in
  is_distance (Z.to_nat n) (stabs (planar_code r c)) (Z.to_nat d).
Proof.
  intros r c Hr Hc Hne. pose proof planar_distance_upto5 as H. rewrite forallb_forall in H.
  specialize (H (r, c)). cbn [fst snd] in H. unfold dist_ok in H. destruct (planar_n_k_d r c) as [[n k] d].
  eapply css_distance_check_sound. apply H. unfold dist_sizes. apply filter_In. split; [now apply sizes_upto_In|].
  destruct (zeqb2 (r, c) (5, 5)) eqn:E; [|reflexivity]. exfalso. apply Hne. unfold zeqb2 in E. cbn [fst snd] in E.
  apply andb_true_iff in E. destruct E as [E1 E2]. apply Z.eqb_eq in E1, E2. now subst.
Qed.

(* ---------------- C15: plaquette supports, virtual plaquettes, all paths ---------------- *)
Definition adjacent (s q : idx) : bool := (Z.abs (fst s - fst q) + Z.abs (snd s - snd q) =? 1).
Definition opt_pl_eqb (a : option pl) (b : pl) : bool := match a with Some x => pl_eqb x b | None => false end.
(* the operator of plaquette q reads plaq_op q on the in-bounds sites adjacent to q and I elsewhere *)
Definition plaq_support_ok (r c : Z) : bool :=
  forallb (fun q => let p := plaquette_op r c q (new_pauli r c) in
     forallb (fun s => opt_pl_eqb (operator r c s p) (if adjacent s q then plaq_op q else pI)) (site_indices r c))
    (plaquette_indices r c).
Theorem planar_plaquette_support_upto7 : all_sizes 7 plaq_support_ok = true.
Proof. vm_compute. reflexivity. Qed.

(* the virtual plaquette of a real one: same lattice, just outside the nearer boundary (ties north / west) *)
Definition virtual_ok (r c : Z) : bool :=
  forallb (fun q => match planar_virtual_plaquette_index r c q with
     | None => false
     | Some v =>
       if planar_is_primal q
       then let dn := (fst q + 1) / 2 in let ds := (2 * r - 1 - fst q) / 2 in
            zeqb2 v (if dn <=? ds then (-1, snd q) else (2 * r - 1, snd q))
       else let dw := (snd q + 1) / 2 in let de := (2 * c - 1 - snd q) / 2 in
            zeqb2 v (if dw <=? de then (fst q, -1) else (fst q, 2 * c - 1))
     end) (plaquette_indices r c).
Theorem planar_virtual_nearest_upto8 : all_sizes 8 virtual_ok = true.
Proof. vm_compute. reflexivity. Qed.

Definition is_real (pis : list idx) (x : idx) : bool := existsb (zeqb2 x) pis.
Definition indicator (pis : list idx) (a b : idx) : bsf := map (fun q => xorb (zeqb2 q a) (zeqb2 q b)) pis.
Definition path_ok (r c : Z) (st : list bsf) (pis : list idx) (a b : idx) : bool :=
  match path r c a b (new_pauli r c), distance r c a b, planar_translation r c a b, planar_translation r c b a with
  | Some p, Some d, Some (rs, cs), Some (rs', cs') =>
      let e := p_to_bsf p in
      (* anticommutes with exactly the in-lattice endpoints (nothing when a = b) *)
      beqv (syndrome_of st e) (indicator pis a b)
      (* weight = distance for real pairs, <= with a virtual end *)
      && (if is_real pis a && is_real pis b then Z.of_nat (bsf_wt e) =? d else Z.of_nat (bsf_wt e) <=? d)
      (* translations: symmetric length; lead from a to b unless both ends are virtual, then (0,0) *)
      && (Z.abs rs =? Z.abs rs') && (Z.abs cs =? Z.abs cs') && (d =? Z.abs rs + Z.abs cs)
      && (if is_real pis a || is_real pis b then zeqb2 (fst a + 2 * rs, snd a + 2 * cs) b else zeqb2 (rs, cs) (0, 0))
  | _, _, _, _ => false
  end.
Definition nodes (r c : Z) (primal : bool) : list idx :=
  filter (fun i => Bool.eqb (planar_is_primal i) primal) (plaquette_indices r c ++ virtual_indices r c).
Definition all_paths_ok (r c : Z) : bool :=
  let st := stabilizers r c in
  let pis := plaquette_indices r c in
  forallb (fun pr => let nd := nodes r c pr in forallb (fun a => forallb (fun b => path_ok r c st pis a b) nd) nd)
          [true; false].
Theorem planar_paths_upto7 : all_sizes 7 all_paths_ok = true.
Proof. vm_compute. reflexivity. Qed.

Theorem planar_paths_upto7_spec : forall r c, 2 <= r <= 7 -> 2 <= c <= 7 ->
  forall primal a b, In a (nodes r c primal) -> In b (nodes r c primal) ->
  exists p d, path r c a b (new_pauli r c) = Some p /\ distance r c a b = Some d /\
    syndrome_of (stabs (planar_code r c)) (p_to_bsf p) = indicator (plaquette_indices r c) a b /\
    (is_real (plaquette_indices r c) a = true -> is_real (plaquette_indices r c) b = true -> Z.of_nat (bsf_wt (p_to_bsf p)) = d) /\
    Z.of_nat (bsf_wt (p_to_bsf p)) <= d.
Proof.
  intros r c Hr Hc primal a b Ha Hb.
  pose proof (all_sizes_spec _ _ planar_paths_upto7 r c Hr Hc) as H. unfold all_paths_ok in H.
  rewrite forallb_forall in H. specialize (H primal ltac:(destruct primal; cbn; auto)). cbv beta zeta in H.
  rewrite forallb_forall in H. specialize (H a Ha). rewrite forallb_forall in H. specialize (H b Hb).
  unfold path_ok in H.
  destruct (path r c a b (new_pauli r c)) as [p|]; [|discriminate].
  destruct (distance r c a b) as [d|]; [|discriminate].
  destruct (planar_translation r c a b) as [[rs cs]|]; [|discriminate].
  destruct (planar_translation r c b a) as [[rs' cs']|]; [|discriminate].
  apply andb_true_iff in H. destruct H as [H _].
  apply andb_true_iff in H. destruct H as [H _].
  apply andb_true_iff in H. destruct H as [H _].
  apply andb_true_iff in H. destruct H as [H _].
  apply andb_true_iff in H. destruct H as [HS HW].
  exists p, d. split; [reflexivity|]. split; [reflexivity|]. split; [now apply beqv_spec|].
  destruct (is_real (plaquette_indices r c) a && is_real (plaquette_indices r c) b) eqn:E.
  - apply Z.eqb_eq in HW. split; [auto|lia].
  - apply Z.leb_le in HW. split; [|exact HW]. intros Ea Eb. rewrite Ea, Eb in E. discriminate.
Qed.

(* syndrome bit i maps back to plaquette i (for every size: select of a unit vector) *)
Fixpoint unit (n i : nat) : bsf :=
  match n with O => [] | S n' => match i with O => true :: zeros n' | S i' => false :: unit n' i' end end.
Lemma select_zeros {A} (l : list A) n : select (zeros n) l = [].
Proof. revert l. induction n as [|n IH]; intros [|a l]; cbn; auto. Qed.
Theorem syndrome_bit_maps_back rows cols i : (i < length (plaquette_indices rows cols))%nat ->
  syndrome_to_plaquette_indices rows cols (unit (length (plaquette_indices rows cols)) i)
  = [nth i (plaquette_indices rows cols) (0, 0)].
Proof.
  unfold syndrome_to_plaquette_indices. generalize (plaquette_indices rows cols) as l.
  intros l. revert i. induction l as [|a l IH]; intros i Hi; cbn in Hi; [lia|].
  destruct i as [|i]; cbn.
  - now rewrite select_zeros.
  - apply IH. lia.
Qed.

(* non-vacuity: instances at a non-square size *)
Example planar_valid_3x5 : validate (planar_code 3 5) = VOk.
Proof. apply validb_validate. exact (all_sizes_spec _ _ planar_valid_upto8 3 5 ltac:(lia) ltac:(lia)). Qed.
Example planar_path_3x4 :
  option_map p_to_bsf (path 3 4 (1, 0) (3, 4) (new_pauli 3 4)) =
  Some (bits_of_N 36 0x80180000%N).
Proof. vm_compute. reflexivity. Qed.
