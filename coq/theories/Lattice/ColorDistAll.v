(* Lattice/ColorDistAll.v — C08 for the colour 6.6.6 code, ALL odd sizes >= 3: the advertised d = size is the true
   minimum distance ([color_distance_all] : ColorBounded.color_distance_statement, in the sense of Core/Dist.is_distance).

   Part 1  (pure combinatorics on boolean functions f : Z -> Z -> bool on the triangle 0 <= c <= r <= 3j)
           [tri_lower]: if f has even overlap with every (possibly cut) hexagon of the triangle of side j and an odd
           number of points on the bottom row r = 3j, then f has at least 2j + 1 points.
           Induction on j.  The bottom three rows 3j+1, 3j+2, 3j+3 of the triangle of side j+1 are a strip of j + 1
           cells; a prefix parity delta along row 3j+1 says which pairs of row 3j have to be flipped to obtain a
           function f' on the triangle of side j with the same properties; a left-to-right scan of the strip with a
           5-bit state and an explicit potential shows |f'| + 2 <= |f| (the two finite tables [check_step],
           [check_final] are verified by vm_compute: 2^12 + 2^10 cases).
   Part 2  the dense bit vectors: X / Z components at a lattice site, readers for the symplectic product.
   Part 3  completeness ([color_centralizer]): an operator commuting with every generator whose X and Z components
           both have even parity on the bottom row is a product of generators (clean with ColorRankAll.tri_clean, then
           the rows above the bottom vanish by induction on the row, and the bottom row is constant).
   Part 4  the distance. *)
From Coq Require Import ZArith List Bool Lia ZifyBool.
From QV Require Import Core.Bits Core.Pauli Core.Symp Core.Code Core.Span Core.Rank Core.Dist Core.DistCSS
  Generated.LatticeArith Lattice.RotPlanar Lattice.Color Lattice.RotPlanarAll Lattice.RotPlanarBounded
  Lattice.RotPlanarValidAll Lattice.ColorBounded Lattice.ColorValidAll Lattice.ColorRankAll.
Import ListNotations.
Open Scope Z_scope.
Ltac Zify.zify_post_hook ::= Z.to_euclidean_division_equations.

(* ================================================================== *)
(** * Part 1 — the combinatorial lower bound                           *)
(* ================================================================== *)
Local Notation B := Z.b2z.
Fixpoint zsum (g : nat -> Z) (n : nat) : Z := match n with O => 0 | S k => zsum g k + g k end.
Fixpoint bsum (g : nat -> bool) (n : nat) : bool := match n with O => false | S k => xorb (bsum g k) (g k) end.
Lemma zsum_ext g h n : (forall k, (k < n)%nat -> g k = h k) -> zsum g n = zsum h n.
Proof. induction n as [|n IH]; intros H; cbn [zsum]; [reflexivity|]. rewrite IH, H by (auto; intros; apply H; lia). reflexivity. Qed.
Lemma bsum_ext g h n : (forall k, (k < n)%nat -> g k = h k) -> bsum g n = bsum h n.
Proof. induction n as [|n IH]; intros H; cbn [bsum]; [reflexivity|]. rewrite IH, H by (auto; intros; apply H; lia). reflexivity. Qed.
Lemma zsum_lin5 (g g1 g2 g3 g4 g5 : nat -> Z) n : (forall k, (k < n)%nat -> g k = g1 k + g2 k + g3 k + g4 k - g5 k) ->
  zsum g n = zsum g1 n + zsum g2 n + zsum g3 n + zsum g4 n - zsum g5 n.
Proof. induction n as [|n IH]; intros H; cbn [zsum]; [reflexivity|]. rewrite IH, H by (auto; intros; apply H; lia). lia. Qed.

Definition hex6 (p1 p2 p3 p4 p5 p6 : bool) : bool := xorb (xorb (xorb p1 p2) (xorb p3 p4)) (xorb p5 p6).
Definition hexsum (f : Z -> Z -> bool) (r c : Z) : bool :=
  hex6 (f (r - 1) (c - 1)) (f (r - 1) c) (f r (c - 1)) (f r (c + 1)) (f (r + 1) c) (f (r + 1) (c + 1)).
(* f lives on the triangle of side j, commutes with its hexagons *)
Definition Tsupp (J : Z) (f : Z -> Z -> bool) : Prop := forall r c, f r c = true -> 0 <= c <= r /\ r <= 3 * J.
Definition Tnorm (J : Z) (f : Z -> Z -> bool) : Prop :=
  forall r c, 0 <= c <= r -> r <= 3 * J -> (r + c) mod 3 = 2 -> hexsum f r c = false.

(* weights of the rows 3J, 3J+1, 3J+2 in groups of three columns *)
Definition row2 (f : Z -> Z -> bool) (R o1 o2 : Z) (n : nat) : Z :=
  zsum (fun k => B (f R (3 * Z.of_nat k + o1)) + B (f R (3 * Z.of_nat k + o2))) n.
Definition rowE (j : nat) f : Z := let J := Z.of_nat j in row2 f (3 * J) 0 1 j + B (f (3 * J) (3 * J)).
Definition rowB (j : nat) f : Z := let J := Z.of_nat j in row2 f (3 * J + 1) 0 2 j + B (f (3 * J + 1) (3 * J)).
Definition rowC (j : nat) f : Z :=
  let J := Z.of_nat j in row2 f (3 * J + 2) 1 2 j + B (f (3 * J + 2) (3 * J + 1)) + B (f (3 * J + 2) (3 * J + 2)).
Fixpoint Wlow (j : nat) f : Z := match j with O => 0 | S i => Wlow i f + rowE i f + rowB i f + rowC i f end.
Definition Wt (j : nat) f : Z := Wlow j f + rowE j f.
Definition oddE (j : nat) (f : Z -> Z -> bool) : bool :=
  let J := Z.of_nat j in
  xorb (bsum (fun k => xorb (f (3 * J) (3 * Z.of_nat k + 0)) (f (3 * J) (3 * Z.of_nat k + 1))) j) (f (3 * J) (3 * J)).

Lemma row2_ext f g R o1 o2 n : (forall c, f R c = g R c) -> row2 f R o1 o2 n = row2 g R o1 o2 n.
Proof. intros H. unfold row2. apply zsum_ext. intros k _. now rewrite !H. Qed.
Lemma Wlow_ext j : forall f g, (forall r c, r < 3 * Z.of_nat j -> f r c = g r c) -> Wlow j f = Wlow j g.
Proof.
  induction j as [|j IH]; intros f g H; [reflexivity|]. cbn [Wlow].
  rewrite (IH f g) by (intros; apply H; lia). unfold rowE, rowB, rowC. cbv zeta.
  rewrite (row2_ext f g (3 * Z.of_nat j)), (row2_ext f g (3 * Z.of_nat j + 1)), (row2_ext f g (3 * Z.of_nat j + 2))
    by (intros; apply H; lia).
  rewrite !(H (3 * Z.of_nat j)), !(H (3 * Z.of_nat j + 1)), !(H (3 * Z.of_nat j + 2)) by lia. reflexivity.
Qed.

(* ---- exhaustive boolean checks ---- *)
Definition fb (P : bool -> bool) : bool := P true && P false.
Lemma fb_spec P : fb P = true -> forall b, P b = true.
Proof. unfold fb. intros H b. apply andb_true_iff in H. destruct b; tauto. Qed.
Ltac fb_inst H b := let H' := fresh in pose proof (fb_spec _ H b) as H'; cbv beta in H'; clear H; rename H' into H.

Definition nu (b2 c2 : bool) := xorb b2 c2.
Definition nh (c1 c2 e1 : bool) := xorb (xorb c1 c2) e1.
Definition ndd (dd b0 b2 : bool) := xorb (xorb dd b0) b2.
Definition good (u h dd pa pe : bool) : bool := negb (xorb (xorb h dd) u) && negb (xorb (xorb pa pe) u).
Definition pot (u h pa : bool) : Z := if u then 1 else if negb h && pa then 2 else 0.
Definition ccost (dd a0 a1 b0 b2 c1 c2 e0 e1 : bool) : Z :=
  let d := xorb dd b0 in B a0 + B a1 + B b0 + B b2 + B c1 + B c2 + B e0 + B e1 - B (xorb a0 d) - B (xorb a1 d).
Definition okc (u b0 c1 e0 e1 : bool) : bool := negb (xorb (xorb u b0) (xorb c1 (xorb e0 e1))).
Definition check_step : bool :=
  fb (fun u => fb (fun h => fb (fun dd => fb (fun pa => fb (fun pe => fb (fun a0 => fb (fun a1 => fb (fun b0 =>
  fb (fun b2 => fb (fun c1 => fb (fun c2 => fb (fun e1 =>
    implb (good u h dd pa pe && negb (hex6 a0 a1 b0 b2 c1 c2) && okc u b0 c1 h e1)
          (good (nu b2 c2) (nh c1 c2 e1) (ndd dd b0 b2) (xorb pa (xorb a0 a1)) (xorb pe (xorb h e1)) &&
           (pot (nu b2 c2) (nh c1 c2 e1) (xorb pa (xorb a0 a1)) <=? pot u h pa + ccost dd a0 a1 b0 b2 c1 c2 h e1))
  )))))))))))).
Definition fcost (dd a0 b0 c1 c2 e0 e1 em : bool) : Z :=
  B a0 + B b0 + B c1 + B c2 + B e0 + B e1 + B em - B (xorb a0 (xorb dd b0)).
Definition check_final : bool :=
  fb (fun u => fb (fun h => fb (fun dd => fb (fun pa => fb (fun pe => fb (fun a0 => fb (fun b0 =>
  fb (fun c1 => fb (fun c2 => fb (fun e1 =>
    implb (good u h dd pa pe && negb (hex6 a0 false b0 false c1 c2) && okc u b0 c1 h e1 &&
           xorb (xorb pe (xorb h e1)) (nh c1 c2 e1))
          (xorb (xorb pa a0) (xorb dd b0) && (2 <=? pot u h pa + fcost dd a0 b0 c1 c2 h e1 (nh c1 c2 e1)))
  )))))))))).
Lemma check_step_ok : check_step = true.
Proof. vm_compute. reflexivity. Qed.
Lemma check_final_ok : check_final = true.
Proof. vm_compute. reflexivity. Qed.

Lemma hex6_shift x1 x2 y1 y2 z1 z2 d : hex6 x1 x2 y1 y2 z1 z2 = false ->
  hex6 x1 x2 (xorb y1 d) (xorb y2 (xorb d (xorb z1 z2))) false false = false.
Proof. unfold hex6. destruct x1, x2, y1, y2, z1, z2, d; cbn; auto. Qed.
Lemma hex6_pair x1 x2 x3 x4 y1 y2 d : hex6 x1 x2 x3 x4 (xorb y1 d) (xorb y2 d) = hex6 x1 x2 x3 x4 y1 y2.
Proof. unfold hex6. destruct x1, x2, x3, x4, y1, y2, d; reflexivity. Qed.

Ltac xeq := unfold hexsum, hex6; repeat apply (f_equal2 xorb); (apply f_equal2; lia).

(* ---- one step of the induction: from the triangle of side j+1 to the triangle of side j ---- *)
Section Step.
Variable j : nat.
Variable J : Z.
Hypothesis HJ : J = Z.of_nat j.
Variable f : Z -> Z -> bool.
Hypothesis Hsupp : forall r c, f r c = true -> 0 <= c <= r /\ r <= 3 * J + 3.
Hypothesis Hnorm : forall r c, 0 <= c <= r -> r <= 3 * J + 3 -> (r + c) mod 3 = 2 -> hexsum f r c = false.

Lemma fout r c : ~ (0 <= c <= r /\ r <= 3 * J + 3) -> f r c = false.
Proof. intros H. destruct (f r c) eqn:E; [|reflexivity]. exfalso. apply H. now apply Hsupp. Qed.

(* the cells of the strip *)
Definition a0 (k : nat) := f (3 * J) (3 * Z.of_nat k).
Definition a1 (k : nat) := f (3 * J) (3 * Z.of_nat k + 1).
Definition b0 (k : nat) := f (3 * J + 1) (3 * Z.of_nat k).
Definition b2 (k : nat) := f (3 * J + 1) (3 * Z.of_nat k + 2).
Definition c1 (k : nat) := f (3 * J + 2) (3 * Z.of_nat k + 1).
Definition c2 (k : nat) := f (3 * J + 2) (3 * Z.of_nat k + 2).
Definition e0 (k : nat) := f (3 * J + 3) (3 * Z.of_nat k).
Definition e1 (k : nat) := f (3 * J + 3) (3 * Z.of_nat k + 1).
(* the state before cell k *)
Definition su (k : nat) := xorb (f (3 * J + 1) (3 * Z.of_nat k - 1)) (f (3 * J + 2) (3 * Z.of_nat k - 1)).
Definition sdd (k : nat) := xorb (e0 0) (bsum (fun i => xorb (b0 i) (b2 i)) k).
Definition spa (k : nat) := bsum (fun i => xorb (a0 i) (a1 i)) k.
Definition spe (k : nat) := bsum (fun i => xorb (e0 i) (e1 i)) k.
(* which pairs of row 3J are flipped *)
Definition delta (k : nat) := xorb (sdd k) (b0 k).

Lemma Hb k : (k <= j)%nat -> hex6 (a0 k) (a1 k) (b0 k) (b2 k) (c1 k) (c2 k) = false.
Proof.
  intros Hk. rewrite <- (Hnorm (3 * J + 1) (3 * Z.of_nat k + 1)) by lia.
  unfold a0, a1, b0, b2, c1, c2. xeq.
Qed.
Lemma Hc k : (k <= j)%nat -> okc (su k) (b0 k) (c1 k) (e0 k) (e1 k) = true.
Proof.
  intros Hk. pose proof (Hnorm (3 * J + 2) (3 * Z.of_nat k) ltac:(lia) ltac:(lia) ltac:(lia)) as H.
  assert (E : hexsum f (3 * J + 2) (3 * Z.of_nat k) =
              hex6 (f (3 * J + 1) (3 * Z.of_nat k - 1)) (b0 k) (f (3 * J + 2) (3 * Z.of_nat k - 1)) (c1 k) (e0 k) (e1 k))
    by (unfold b0, c1, e0, e1; xeq).
  rewrite E in H. unfold okc, su. unfold hex6 in H.
  destruct (f (3 * J + 1) (3 * Z.of_nat k - 1)), (b0 k), (f (3 * J + 2) (3 * Z.of_nat k - 1)), (c1 k), (e0 k), (e1 k);
    cbn in *; congruence.
Qed.
Lemma He k : (k <= j)%nat -> f (3 * J + 3) (3 * Z.of_nat k + 3) = nh (c1 k) (c2 k) (e1 k).
Proof.
  intros Hk. pose proof (Hnorm (3 * J + 3) (3 * Z.of_nat k + 2) ltac:(lia) ltac:(lia) ltac:(lia)) as H.
  assert (E : hexsum f (3 * J + 3) (3 * Z.of_nat k + 2) =
              hex6 (c1 k) (c2 k) (e1 k) (f (3 * J + 3) (3 * Z.of_nat k + 3)) (f (3 * J + 4) (3 * Z.of_nat k + 2))
                   (f (3 * J + 4) (3 * Z.of_nat k + 3)))
    by (unfold c1, c2, e1; xeq).
  rewrite E in H. rewrite !(fout (3 * J + 4)) in H by lia. unfold nh. unfold hex6 in H.
  destruct (c1 k), (c2 k), (e1 k), (f (3 * J + 3) (3 * Z.of_nat k + 3)); cbn in *; congruence.
Qed.
Lemma He0 k : (k <= j)%nat -> e0 (S k) = nh (c1 k) (c2 k) (e1 k).
Proof. intros Hk. rewrite <- He by exact Hk. unfold e0. f_equal. lia. Qed.
Lemma Ha k : (k < j)%nat ->
  hex6 (f (3 * J - 1) (3 * Z.of_nat k + 1)) (f (3 * J - 1) (3 * Z.of_nat k + 2)) (a1 k) (a0 (S k)) (b2 k) (b0 (S k)) = false.
Proof.
  intros Hk. rewrite <- (Hnorm (3 * J) (3 * Z.of_nat k + 2)) by lia.
  unfold a0, a1, b0, b2. xeq.
Qed.

Lemma su_0 : su 0 = false.
Proof. unfold su. rewrite !fout by lia. reflexivity. Qed.
Lemma su_S k : su (S k) = nu (b2 k) (c2 k).
Proof. unfold su, nu, b2, c2. f_equal; f_equal; lia. Qed.
Lemma sdd_S k : sdd (S k) = ndd (sdd k) (b0 k) (b2 k).
Proof.
  unfold sdd, ndd. cbn [bsum].
  destruct (e0 0), (bsum (fun i => xorb (b0 i) (b2 i)) k), (b0 k), (b2 k); reflexivity.
Qed.
Lemma delta_S k : delta (S k) = xorb (delta k) (xorb (b2 k) (b0 (S k))).
Proof. unfold delta. rewrite sdd_S. unfold ndd. destruct (sdd k), (b0 k), (b2 k), (b0 (S k)); reflexivity. Qed.

Definition cost (k : nat) : Z := ccost (sdd k) (a0 k) (a1 k) (b0 k) (b2 k) (c1 k) (c2 k) (e0 k) (e1 k).
Lemma scan k : (k <= j)%nat ->
  good (su k) (e0 k) (sdd k) (spa k) (spe k) = true /\ pot (su k) (e0 k) (spa k) <= zsum cost k.
Proof.
  induction k as [|k IH]; intros Hk.
  - rewrite su_0. unfold sdd, spa, spe. cbn [bsum zsum]. destruct (e0 0); cbn; split; [reflexivity|lia|reflexivity|lia].
  - destruct (IH ltac:(lia)) as [G P].
    pose proof check_step_ok as C.
    fb_inst C (su k). fb_inst C (e0 k). fb_inst C (sdd k). fb_inst C (spa k). fb_inst C (spe k).
    fb_inst C (a0 k). fb_inst C (a1 k). fb_inst C (b0 k). fb_inst C (b2 k). fb_inst C (c1 k). fb_inst C (c2 k).
    fb_inst C (e1 k).
    rewrite G, (Hb k ltac:(lia)), (Hc k ltac:(lia)) in C. cbn [negb andb implb] in C.
    apply andb_true_iff in C. destruct C as [G' P']. apply Z.leb_le in P'.
    rewrite su_S, sdd_S, (He0 k ltac:(lia)). unfold spa, spe in *. cbn [bsum zsum]. split; [exact G'|].
    fold (cost k) in P'. lia.
Qed.

(* the function on the smaller triangle *)
Definition f' (r c : Z) : bool :=
  (0 <=? c) && (c <=? r) && (r <=? 3 * J) &&
  (if r =? 3 * J then xorb (f r c) (delta (Z.to_nat (c / 3))) else f r c).
Lemma f'_low r c : r < 3 * J -> f' r c = f r c.
Proof.
  intros Hr. unfold f'. replace (r =? 3 * J) with false by lia. destruct (f r c) eqn:E.
  - apply Hsupp in E. rewrite andb_true_r. lia.
  - apply andb_false_r.
Qed.
Lemma f'_out r c : 3 * J < r -> f' r c = false.
Proof. intros Hr. unfold f'. replace (r <=? 3 * J) with false by lia. now rewrite andb_false_r. Qed.
Lemma f'_bot c k : 0 <= c <= 3 * J -> c / 3 = Z.of_nat k -> f' (3 * J) c = xorb (f (3 * J) c) (delta k).
Proof.
  intros Hc Hk. unfold f'. rewrite Z.eqb_refl. replace (Z.to_nat (c / 3)) with k by lia.
  replace (0 <=? c) with true by lia. replace (c <=? 3 * J) with true by lia. replace (3 * J <=? 3 * J) with true by lia.
  reflexivity.
Qed.
Lemma f'_supp : Tsupp J f'.
Proof.
  intros r c H. unfold f' in H. apply andb_true_iff in H. destruct H as [H _]. lia.
Qed.
Lemma f'_norm : Tnorm J f'.
Proof.
  intros r c Hc Hr Hm.
  assert (D : r <= 3 * J - 2 \/ r = 3 * J - 1 \/ r = 3 * J) by lia. destruct D as [D|[D|D]].
  - rewrite <- (Hnorm r c) by lia. unfold hexsum. rewrite !f'_low by lia. reflexivity.
  - subst r. rewrite <- (Hnorm (3 * J - 1) c) by lia. unfold hexsum.
    rewrite !(f'_low (3 * J - 1 - 1)), !(f'_low (3 * J - 1)) by lia.
    replace (3 * J - 1 + 1) with (3 * J) by lia.
    rewrite (f'_bot c (Z.to_nat (c / 3))), (f'_bot (c + 1) (Z.to_nat (c / 3))) by lia.
    apply hex6_pair.
  - subst r. assert (Ek : exists k, c = 3 * Z.of_nat k + 2 /\ (k < j)%nat).
    { exists (Z.to_nat (c / 3)). lia. }
    destruct Ek as (k & -> & Hk). unfold hexsum.
    replace (3 * Z.of_nat k + 2 - 1) with (3 * Z.of_nat k + 1) by lia.
    replace (3 * Z.of_nat k + 2 + 1) with (3 * Z.of_nat (S k)) by lia.
    rewrite !(f'_low (3 * J - 1)), !(f'_out (3 * J + 1)) by lia.
    rewrite (f'_bot (3 * Z.of_nat k + 1) k), (f'_bot (3 * Z.of_nat (S k)) (S k)) by lia.
    rewrite delta_S. apply hex6_shift. exact (Ha k Hk).
Qed.

Hypothesis Hodd : xorb (spe (S j)) (f (3 * J + 3) (3 * J + 3)) = true.

Lemma final_facts :
  xorb (xorb (spa j) (a0 j)) (delta j) = true /\
  2 <= pot (su j) (e0 j) (spa j) +
       fcost (sdd j) (a0 j) (b0 j) (c1 j) (c2 j) (e0 j) (e1 j) (f (3 * J + 3) (3 * J + 3)).
Proof.
  destruct (scan j ltac:(lia)) as [G _].
  pose proof check_final_ok as C.
  fb_inst C (su j). fb_inst C (e0 j). fb_inst C (sdd j). fb_inst C (spa j). fb_inst C (spe j).
  fb_inst C (a0 j). fb_inst C (b0 j). fb_inst C (c1 j). fb_inst C (c2 j). fb_inst C (e1 j).
  pose proof (Hb j ltac:(lia)) as H1. unfold a1, b2 in H1. rewrite !fout in H1 by lia.
  pose proof (He j ltac:(lia)) as H3. replace (3 * Z.of_nat j + 3) with (3 * J + 3) in H3 by lia.
  assert (H4 : xorb (xorb (spe j) (xorb (e0 j) (e1 j))) (nh (c1 j) (c2 j) (e1 j)) = true).
  { rewrite <- H3. exact Hodd. }
  rewrite G, H1, (Hc j ltac:(lia)), H4 in C. cbn [negb andb implb] in C.
  apply andb_true_iff in C. destruct C as [C1 C2]. apply Z.leb_le in C2. rewrite <- H3 in C2.
  split; [|exact C2]. unfold delta. exact C1.
Qed.

Lemma f'_odd : oddE j f' = true.
Proof.
  unfold oddE. cbv zeta. rewrite <- HJ.
  rewrite (bsum_ext _ (fun k => xorb (a0 k) (a1 k))).
  - rewrite (f'_bot (3 * J) j) by lia. fold (spa j). replace (f (3 * J) (3 * J)) with (a0 j) by (unfold a0; f_equal; lia).
    destruct final_facts as [H _]. rewrite <- H. now destruct (spa j), (a0 j), (delta j).
  - intros k Hk. rewrite (f'_bot (3 * Z.of_nat k + 0) k), (f'_bot (3 * Z.of_nat k + 1) k) by lia.
    unfold a0, a1. replace (3 * Z.of_nat k + 0) with (3 * Z.of_nat k) by lia.
    now destruct (f (3 * J) (3 * Z.of_nat k)), (f (3 * J) (3 * Z.of_nat k + 1)), (delta k).
Qed.

Lemma f'_weight : Wt j f' + 2 <= Wt (S j) f.
Proof.
  unfold Wt. cbn [Wlow]. rewrite (Wlow_ext j f' f) by (intros; apply f'_low; lia).
  destruct (scan j ltac:(lia)) as [_ P]. destruct final_facts as [_ Q].
  assert (ES : 3 * Z.of_nat (S j) = 3 * J + 3) by lia.
  unfold rowE, rowB, rowC, row2. cbv zeta. rewrite ES, <- HJ. cbn [zsum].
  replace (3 * Z.of_nat j + 0) with (3 * J) by lia. replace (3 * Z.of_nat j + 1) with (3 * J + 1) by lia.
  rewrite (zsum_ext (fun k => B (f' (3 * J) (3 * Z.of_nat k + 0)) + B (f' (3 * J) (3 * Z.of_nat k + 1)))
                    (fun k => B (xorb (a0 k) (delta k)) + B (xorb (a1 k) (delta k)))).
  2:{ intros k Hk. rewrite (f'_bot (3 * Z.of_nat k + 0) k), (f'_bot (3 * Z.of_nat k + 1) k) by lia.
      unfold a0, a1. now replace (3 * Z.of_nat k + 0) with (3 * Z.of_nat k) by lia. }
  rewrite (f'_bot (3 * J) j) by lia.
  rewrite (zsum_lin5 cost (fun k => B (a0 k) + B (a1 k)) (fun k => B (b0 k) + B (b2 k)) (fun k => B (c1 k) + B (c2 k))
             (fun k => B (e0 k) + B (e1 k)) (fun k => B (xorb (a0 k) (delta k)) + B (xorb (a1 k) (delta k)))) in P.
  2:{ intros k Hk. unfold cost, ccost, delta. cbv zeta. lia. }
  unfold fcost in Q. fold (delta j) in Q.
  unfold a0, a1, b0, b2, c1, c2, e0, e1 in *.
  replace (3 * Z.of_nat j) with (3 * J) in * by lia.
  rewrite (zsum_ext (fun k => B (f (3 * J) (3 * Z.of_nat k + 0)) + B (f (3 * J) (3 * Z.of_nat k + 1)))
                    (fun k => B (f (3 * J) (3 * Z.of_nat k)) + B (f (3 * J) (3 * Z.of_nat k + 1))))
    by (intros k _; now replace (3 * Z.of_nat k + 0) with (3 * Z.of_nat k) by lia).
  rewrite (zsum_ext (fun k => B (f (3 * J + 1) (3 * Z.of_nat k + 0)) + B (f (3 * J + 1) (3 * Z.of_nat k + 2)))
                    (fun k => B (f (3 * J + 1) (3 * Z.of_nat k)) + B (f (3 * J + 1) (3 * Z.of_nat k + 2))))
    by (intros k _; now replace (3 * Z.of_nat k + 0) with (3 * Z.of_nat k) by lia).
  rewrite (zsum_ext (fun k => B (f (3 * J + 3) (3 * Z.of_nat k + 0)) + B (f (3 * J + 3) (3 * Z.of_nat k + 1)))
                    (fun k => B (f (3 * J + 3) (3 * Z.of_nat k)) + B (f (3 * J + 3) (3 * Z.of_nat k + 1))))
    by (intros k _; now replace (3 * Z.of_nat k + 0) with (3 * Z.of_nat k) by lia).
  lia.
Qed.
End Step.

Theorem tri_lower : forall (j : nat) f, Tsupp (Z.of_nat j) f -> Tnorm (Z.of_nat j) f -> oddE j f = true ->
  2 * Z.of_nat j + 1 <= Wt j f.
Proof.
  induction j as [|j IH]; intros f Hs Hn Ho.
  - unfold oddE in Ho. cbv zeta in Ho. cbn [bsum] in Ho. change (3 * Z.of_nat 0) with 0 in Ho. rewrite xorb_false_l in Ho.
    unfold Wt, rowE, row2. cbv zeta. cbn [Wlow zsum]. change (3 * Z.of_nat 0) with 0. rewrite Ho. cbn. lia.
  - assert (ES : 3 * Z.of_nat (S j) = 3 * Z.of_nat j + 3) by lia.
    assert (Hs' : forall r c, f r c = true -> 0 <= c <= r /\ r <= 3 * Z.of_nat j + 3).
    { intros r c H. rewrite <- ES. now apply Hs. }
    assert (Hn' : forall r c, 0 <= c <= r -> r <= 3 * Z.of_nat j + 3 -> (r + c) mod 3 = 2 -> hexsum f r c = false).
    { intros r c H1 H2 H3. apply Hn; auto. lia. }
    assert (Ho' : xorb (spe (Z.of_nat j) f (S j)) (f (3 * Z.of_nat j + 3) (3 * Z.of_nat j + 3)) = true).
    { unfold oddE in Ho. cbv zeta in Ho. rewrite ES in Ho. rewrite <- Ho. f_equal. unfold spe. apply bsum_ext.
      intros k _. unfold e0, e1. now replace (3 * Z.of_nat k + 0) with (3 * Z.of_nat k) by lia. }
    pose proof (f'_weight j (Z.of_nat j) eq_refl f Hs' Hn' Ho') as HW.
    pose proof (IH (f' (Z.of_nat j) f) (f'_supp j (Z.of_nat j) f Hs' Hn') (f'_norm j (Z.of_nat j) eq_refl f Hs' Hn')
                   (f'_odd j (Z.of_nat j) eq_refl f Hs' Hn' Ho')) as HI.
    lia.
Qed.

(* ---- the converse structure: a function commuting with all hexagons that vanishes on the owned sites
        (ColorRankAll.c6_pivot) vanishes above the bottom row and is constant on the bottom row ---- *)
Lemma bsum_false n : bsum (fun _ => false) n = false.
Proof. induction n as [|n IH]; cbn [bsum]; [reflexivity|now rewrite IH]. Qed.

Section Vanish.
Variable j : nat.
Variable J : Z.
Hypothesis HJ : J = Z.of_nat j.
Variable y : Z -> Z -> bool.
Hypothesis Ysupp : Tsupp J y.
Hypothesis Ynorm : Tnorm J y.
Hypothesis Ysite : forall r c, y r c = true -> (r + c) mod 3 <> 2.
Hypothesis Ypiv : forall r c, 0 <= c <= r -> r <= 3 * J -> (r + c) mod 3 = 2 -> y (r - 1) (Z.max (c - 1) 0) = false.
Hypothesis Yeven : oddE j y = false.

Lemma yout r c : ~ (0 <= c <= r /\ r <= 3 * J) -> y r c = false.
Proof. intros H. destruct (y r c) eqn:E; [|reflexivity]. exfalso. apply H. now apply Ysupp. Qed.
Lemma van_A r c : r <= 3 * J - 1 -> (r + c) mod 3 = 0 -> y r c = false.
Proof.
  intros Hr Hm. destruct (y r c) eqn:E; [|reflexivity]. pose proof (Ysupp r c E) as Hb.
  pose proof (Ypiv (r + 1) (c + 1) ltac:(lia) ltac:(lia) ltac:(lia)) as H.
  replace (r + 1 - 1) with r in H by lia. replace (Z.max (c + 1 - 1) 0) with c in H by lia. congruence.
Qed.
Lemma van_B : forall (n : nat) r c, r < Z.of_nat n -> r <= 3 * J - 1 -> (r + c) mod 3 = 1 -> y r c = false.
Proof.
  induction n as [|n IH]; intros r c Hn Hr Hm.
  - apply yout. lia.
  - destruct (y r c) eqn:E; [|reflexivity]. exfalso. pose proof (Ysupp r c E) as Hb.
    destruct (Z.eq_dec c 0) as [->|Hc].
    + pose proof (Ypiv (r + 1) 0 ltac:(lia) ltac:(lia) ltac:(lia)) as H.
      replace (r + 1 - 1) with r in H by lia. change (Z.max (0 - 1) 0) with 0 in H. congruence.
    + pose proof (Ynorm (r - 1) (c - 1) ltac:(lia) ltac:(lia) ltac:(lia)) as H.
      assert (EH : hexsum y (r - 1) (c - 1) =
                   hex6 (y (r - 2) (c - 2)) (y (r - 2) (c - 1)) (y (r - 1) (c - 2)) (y (r - 1) c) (y r (c - 1)) (y r c))
        by xeq.
      rewrite EH in H.
      rewrite (van_A (r - 2) (c - 2)), (van_A (r - 1) c), (van_A r (c - 1)) in H by lia.
      rewrite (IH (r - 2) (c - 1)), (IH (r - 1) (c - 2)) in H by lia.
      rewrite E in H. discriminate.
Qed.
Lemma van_low r c : r <= 3 * J - 1 -> y r c = false.
Proof.
  intros Hr. assert (D : (r + c) mod 3 = 0 \/ (r + c) mod 3 = 1 \/ (r + c) mod 3 = 2) by lia.
  destruct D as [D|[D|D]].
  - now apply van_A.
  - destruct (Z.ltb_spec r 0) as [Hneg|Hpos]; [apply yout; lia|]. apply (van_B (Z.to_nat (r + 1)) r c); lia.
  - destruct (y r c) eqn:E; [|reflexivity]. apply Ysite in E. contradiction.
Qed.
Lemma bot_pair k : 0 <= k -> 3 * k + 1 <= 3 * J -> y (3 * J) (3 * k) = y (3 * J) (3 * k + 1).
Proof.
  intros H0 H1. pose proof (Ynorm (3 * J - 1) (3 * k) ltac:(lia) ltac:(lia) ltac:(lia)) as H.
  assert (EH : hexsum y (3 * J - 1) (3 * k) =
               hex6 (y (3 * J - 2) (3 * k - 1)) (y (3 * J - 2) (3 * k)) (y (3 * J - 1) (3 * k - 1)) (y (3 * J - 1) (3 * k + 1))
                    (y (3 * J) (3 * k)) (y (3 * J) (3 * k + 1))) by xeq.
  rewrite EH in H. rewrite !(van_low (3 * J - 2)), !(van_low (3 * J - 1)) in H by lia. unfold hex6 in H.
  destruct (y (3 * J) (3 * k)), (y (3 * J) (3 * k + 1)); cbn in H; congruence.
Qed.
Lemma bot_next k : 0 <= k -> 3 * k + 3 <= 3 * J -> y (3 * J) (3 * k + 1) = y (3 * J) (3 * k + 3).
Proof.
  intros H0 H1. pose proof (Ynorm (3 * J) (3 * k + 2) ltac:(lia) ltac:(lia) ltac:(lia)) as H.
  assert (EH : hexsum y (3 * J) (3 * k + 2) =
               hex6 (y (3 * J - 1) (3 * k + 1)) (y (3 * J - 1) (3 * k + 2)) (y (3 * J) (3 * k + 1)) (y (3 * J) (3 * k + 3))
                    (y (3 * J + 1) (3 * k + 2)) (y (3 * J + 1) (3 * k + 3))) by xeq.
  rewrite EH in H. rewrite !(van_low (3 * J - 1)), !(yout (3 * J + 1)) in H by lia. unfold hex6 in H.
  destruct (y (3 * J) (3 * k + 1)), (y (3 * J) (3 * k + 3)); cbn in H; congruence.
Qed.
Lemma bot_const : forall k : nat, Z.of_nat k <= J ->
  y (3 * J) (3 * Z.of_nat k) = y (3 * J) 0 /\ (Z.of_nat k < J -> y (3 * J) (3 * Z.of_nat k + 1) = y (3 * J) 0).
Proof.
  induction k as [|k IH]; intros Hk.
  - split; [reflexivity|]. intros H. change (Z.of_nat 0) with 0. rewrite <- (bot_pair 0) by lia. reflexivity.
  - destruct (IH ltac:(lia)) as [_ I2]. specialize (I2 ltac:(lia)).
    assert (E : y (3 * J) (3 * Z.of_nat (S k)) = y (3 * J) 0).
    { replace (3 * Z.of_nat (S k)) with (3 * Z.of_nat k + 3) by lia. rewrite <- (bot_next (Z.of_nat k)) by lia. exact I2. }
    split; [exact E|]. intros H. rewrite <- (bot_pair (Z.of_nat (S k))) by lia. exact E.
Qed.
Lemma bot_zero : y (3 * J) 0 = false.
Proof.
  pose proof Yeven as H. unfold oddE in H. cbv zeta in H. rewrite <- HJ in H.
  rewrite (bsum_ext _ (fun _ => false)) in H.
  - rewrite bsum_false in H. replace (3 * J) with (3 * Z.of_nat j) in H at 2 by lia.
    rewrite (proj1 (bot_const j ltac:(lia))) in H. now rewrite xorb_false_l in H.
  - intros k Hk. destruct (bot_const k ltac:(lia)) as [I1 I2].
    replace (3 * Z.of_nat k + 0) with (3 * Z.of_nat k) by lia. rewrite I1, I2 by lia. apply xorb_nilpotent.
Qed.
Theorem van_all r c : y r c = false.
Proof.
  destruct (Z_le_gt_dec r (3 * J - 1)) as [H|H]; [now apply van_low|].
  destruct (Z_le_gt_dec r (3 * J)) as [H'|H']; [|apply yout; lia].
  assert (r = 3 * J) by lia. subst r.
  destruct (y (3 * J) c) eqn:E; [|reflexivity]. pose proof (Ysupp _ _ E) as Hb. pose proof (Ysite _ _ E) as Hs.
  assert (D : c mod 3 = 0 \/ c mod 3 = 1) by lia. destruct D as [D|D].
  - replace c with (3 * Z.of_nat (Z.to_nat (c / 3))) in E by lia.
    rewrite (proj1 (bot_const (Z.to_nat (c / 3)) ltac:(lia))), bot_zero in E. discriminate.
  - replace c with (3 * Z.of_nat (Z.to_nat (c / 3)) + 1) in E by lia.
    rewrite (proj2 (bot_const (Z.to_nat (c / 3)) ltac:(lia))), bot_zero in E by lia. discriminate.
Qed.
End Vanish.

(* ================================================================== *)
(** * Part 2 — components of a dense operator at a lattice site        *)
(* ================================================================== *)
Lemma rc_xsumb_app {A} (f : A -> bool) L1 L2 : rc_xsumb f (L1 ++ L2) = xorb (rc_xsumb f L1) (rc_xsumb f L2).
Proof. induction L1 as [|a L IH]; cbn; [now destruct (rc_xsumb f L2)|]. rewrite IH. now rewrite xorb_assoc. Qed.
Lemma rc_xsumb_filter {A} (p f : A -> bool) L : rc_xsumb f (filter p L) = rc_xsumb (fun a => p a && f a) L.
Proof.
  induction L as [|a L IH]; cbn [filter rc_xsumb]; auto.
  destruct (p a); cbn [rc_xsumb andb]; rewrite IH, ?xorb_false_l; reflexivity.
Qed.
Lemma xsumb6_hex6 x1 x2 x3 x4 x5 x6 :
  xorb x1 (xorb x2 (xorb x3 (xorb x4 (xorb x5 (xorb x6 false))))) = hex6 x1 x2 x3 x4 x5 x6.
Proof. unfold hex6. destruct x1, x2, x3, x4, x5, x6; reflexivity. Qed.
Lemma all_false_zeros_nth : forall l : bsf, (forall i, (i < length l)%nat -> nth i l false = false) -> l = zeros (length l).
Proof.
  induction l as [|b l IH]; intros H; [reflexivity|]. cbn [length]. change (zeros (S (length l))) with (false :: zeros (length l)).
  f_equal; [exact (H 0%nat ltac:(cbn; lia))|]. apply IH. intros i Hi. apply (H (S i)). cbn. lia.
Qed.
(* at least as many true bits as distinct true positions *)
Lemma count_true_positions ks : forall v : bsf, NoDup ks -> (forall k, In k ks -> nth k v false = true) ->
  (length ks <= count_true v)%nat.
Proof.
  induction ks as [|k ks IH]; intros v Hnd H; cbn [length]; [lia|].
  inversion Hnd as [|? ? Hn Hnd']; subst. pose proof (H k (or_introl eq_refl)) as Hk.
  assert (Hlt : (k < length v)%nat).
  { destruct (le_lt_dec (length v) k) as [Hle|]; [|assumption]. rewrite nth_overflow in Hk by exact Hle. discriminate. }
  assert (E : count_true v = S (count_true (rc_flip_at k v))).
  { clear -Hk. revert v Hk. induction k as [|k IHk]; intros [|x v] Hk; cbn in *; try discriminate.
    - subst x. reflexivity.
    - rewrite (IHk v Hk). lia. }
  rewrite E. apply le_n_S. apply IH; auto.
  intros k' Hk'. rewrite rc_flip_at_nth_other by (intros ->; contradiction). apply H. cbn; auto.
Qed.

Section ColorDist.
Variables size m : Z.
Hypothesis Hm : 1 <= m.
Hypothesis Hsize : size = 2 * m + 1.
Notation inb := (color_is_in_bounds size).
Notation CN := (c6_n size).
Notation PI := (c6_plaquette_indices size).
Notation STABS := (stabs (color_code size)).
Let j := Z.to_nat m.

Definition c6_xat (e : bsf) (s : ridx) : bool := inb s && color_is_site s && nth (c6_fl s) (firstn CN e) false.
Definition c6_zat (e : bsf) (s : ridx) : bool := inb s && color_is_site s && nth (c6_fl s) (skipn CN e) false.
Definition c6_fx (e : bsf) (r c : Z) : bool := c6_xat e (r, c).
Definition c6_fz (e : bsf) (r c : Z) : bool := c6_zat e (r, c).

Lemma c6_halves e : length e = (CN + CN)%nat -> halves e = (firstn CN e, skipn CN e).
Proof. intros H. apply halves_2n. lia. Qed.
(* the symplectic product with a Z-type (X-type) site-list operator reads the X (Z) components on its sites *)
Lemma c6_bsp_e_sopZ e L : length e = (CN + CN)%nat -> c6_all_sites L ->
  bsp e (c6_sop size pZ L) = rc_xsumb (c6_xat e) L.
Proof.
  intros He HL. unfold bsp, swap_halves. rewrite (c6_halves e He). unfold c6_sop. rewrite rc_gop_parts.
  assert (L1 : length (skipn CN e) = CN) by (rewrite skipn_length; lia).
  assert (L2 : length (firstn CN e) = CN) by (rewrite firstn_length; lia).
  unfold rc_xpart, rc_zpart. cbn [xbit zbit].
  rewrite dot_app by now rewrite zeros_length. rewrite dot_zeros_r, xorb_false_l.
  rewrite dot_comm, rc_dot_flips.
  - rewrite dot_zeros_l, xorb_false_r. unfold c6_keys. rewrite rc_xsumb_map, rc_xsumb_filter.
    apply rc_xsumb_ext. intros a Ha. unfold c6_xat. rewrite (HL a Ha). now rewrite andb_true_r.
  - now rewrite zeros_length.
  - intros k Hk. rewrite zeros_length. now apply (c6_keys_klt size m Hm Hsize L HL).
Qed.
Lemma c6_bsp_e_sopX e L : length e = (CN + CN)%nat -> c6_all_sites L ->
  bsp e (c6_sop size pX L) = rc_xsumb (c6_zat e) L.
Proof.
  intros He HL. unfold bsp, swap_halves. rewrite (c6_halves e He). unfold c6_sop. rewrite rc_gop_parts.
  assert (L1 : length (skipn CN e) = CN) by (rewrite skipn_length; lia).
  assert (L2 : length (firstn CN e) = CN) by (rewrite firstn_length; lia).
  unfold rc_xpart, rc_zpart. cbn [xbit zbit].
  rewrite dot_app by now rewrite rc_flips_length, zeros_length. rewrite dot_zeros_r, xorb_false_r.
  rewrite dot_comm, rc_dot_flips.
  - rewrite dot_zeros_l, xorb_false_r. unfold c6_keys. rewrite rc_xsumb_map, rc_xsumb_filter.
    apply rc_xsumb_ext. intros a Ha. unfold c6_zat. rewrite (HL a Ha). now rewrite andb_true_r.
  - now rewrite zeros_length.
  - intros k Hk. rewrite zeros_length. now apply (c6_keys_klt size m Hm Hsize L HL).
Qed.

Lemma c6_in_PI r c : 0 <= c <= r -> r <= 3 * m -> (r + c) mod 3 = 2 -> In (r, c) PI.
Proof.
  intros Hc Hr Hs. unfold c6_plaquette_indices. apply filter_In. split.
  - unfold c6_product. rewrite (c6_bound_eq size m Hsize). apply in_flat_map. exists r.
    split; [apply rc_range_In; lia|]. apply in_map. apply rc_range_In. lia.
  - rewrite (c6_inb_unfold size m Hsize), c6_plaq_unfold. cbn [fst snd]. lia.
Qed.
Lemma c6_stab_hexsum_Z e r c : length e = (CN + CN)%nat -> (r + c) mod 3 = 2 ->
  bsp e (c6_stab size pZ (r, c)) = hexsum (c6_fx e) r c.
Proof.
  intros He Hs. unfold c6_stab. rewrite c6_bsp_e_sopZ; auto.
  - cbn [c6_neighbours rc_xsumb]. rewrite xsumb6_hex6. reflexivity.
  - apply c6_nbrs_sites. rewrite c6_plaq_unfold. cbn [fst snd]. lia.
Qed.
Lemma c6_stab_hexsum_X e r c : length e = (CN + CN)%nat -> (r + c) mod 3 = 2 ->
  bsp e (c6_stab size pX (r, c)) = hexsum (c6_fz e) r c.
Proof.
  intros He Hs. unfold c6_stab. rewrite c6_bsp_e_sopX; auto.
  - cbn [c6_neighbours rc_xsumb]. rewrite xsumb6_hex6. reflexivity.
  - apply c6_nbrs_sites. rewrite c6_plaq_unfold. cbn [fst snd]. lia.
Qed.
Lemma c6_normalizer_stab e op q : normalizer STABS e -> (op = pX \/ op = pZ) -> In q PI -> bsp e (c6_stab size op q) = false.
Proof.
  intros Hn Hop Hq. apply Hn. rewrite c6_code_eq. cbn [stabs]. apply in_app_iff.
  destruct Hop as [-> | ->]; [left|right]; now apply in_map.
Qed.

Lemma c6_fx_supp e : Tsupp m (c6_fx e).
Proof.
  intros r c H. unfold c6_fx, c6_xat in H. rewrite (c6_inb_unfold size m Hsize) in H. cbn [fst snd] in H. lia.
Qed.
Lemma c6_fz_supp e : Tsupp m (c6_fz e).
Proof.
  intros r c H. unfold c6_fz, c6_zat in H. rewrite (c6_inb_unfold size m Hsize) in H. cbn [fst snd] in H. lia.
Qed.
Lemma c6_fx_site e r c : c6_fx e r c = true -> (r + c) mod 3 <> 2.
Proof. unfold c6_fx, c6_xat. rewrite c6_site_unfold0. cbn [fst snd]. lia. Qed.
Lemma c6_fz_site e r c : c6_fz e r c = true -> (r + c) mod 3 <> 2.
Proof. unfold c6_fz, c6_zat. rewrite c6_site_unfold0. cbn [fst snd]. lia. Qed.
Lemma c6_fx_norm e : length e = (CN + CN)%nat -> normalizer STABS e -> Tnorm m (c6_fx e).
Proof.
  intros He Hn r c Hc Hr Hs. rewrite <- c6_stab_hexsum_Z by auto.
  apply c6_normalizer_stab; auto. now apply c6_in_PI.
Qed.
Lemma c6_fz_norm e : length e = (CN + CN)%nat -> normalizer STABS e -> Tnorm m (c6_fz e).
Proof.
  intros He Hn r c Hc Hr Hs. rewrite <- c6_stab_hexsum_X by auto.
  apply c6_normalizer_stab; auto. now apply c6_in_PI.
Qed.

(* ---- the bottom row r = 3m ---- *)
Definition c6_bottom : list ridx :=
  filter color_is_site (map (fun c => (3 * m, c)) (rc_zrange 0 (3 * j + 1))).
Definition c6_bop (op : pl) : bsf := c6_sop size op c6_bottom.
Lemma c6_bottom_sites : c6_all_sites c6_bottom.
Proof. intros a Ha. unfold c6_bottom in Ha. apply filter_In in Ha. tauto. Qed.
Lemma c6_bottom_parity (F : ridx -> bool) : forall n : nat,
  rc_xsumb F (filter color_is_site (map (fun c => (3 * m, c)) (rc_zrange 0 (3 * n + 1)))) =
  xorb (bsum (fun k => xorb (F (3 * m, 3 * Z.of_nat k + 0)) (F (3 * m, 3 * Z.of_nat k + 1))) n) (F (3 * m, 3 * Z.of_nat n)).
Proof.
  induction n as [|n IH].
  - cbn [Nat.mul Nat.add rc_zrange seq map filter bsum]. rewrite c6_site_unfold0. cbn [fst snd].
    replace ((3 * m + (0 + Z.of_nat 0)) mod 3 =? 2) with false by lia. cbn [negb rc_xsumb].
    replace (0 + Z.of_nat 0) with (3 * Z.of_nat 0) by lia. now destruct (F (3 * m, 3 * Z.of_nat 0)).
  - replace (3 * S n + 1)%nat with ((3 * n + 1) + 3)%nat by lia.
    rewrite rc_zrange_app, map_app, filter_app, rc_xsumb_app, IH.
    cbn [rc_zrange seq map filter]. rewrite !c6_site_unfold0. cbn [fst snd].
    replace ((3 * m + (0 + Z.of_nat (3 * n + 1) + Z.of_nat 0)) mod 3 =? 2) with false by lia.
    replace ((3 * m + (0 + Z.of_nat (3 * n + 1) + Z.of_nat 1)) mod 3 =? 2) with true by lia.
    replace ((3 * m + (0 + Z.of_nat (3 * n + 1) + Z.of_nat 2)) mod 3 =? 2) with false by lia.
    cbn [negb rc_xsumb bsum].
    replace (0 + Z.of_nat (3 * n + 1) + Z.of_nat 0) with (3 * Z.of_nat n + 1) by lia.
    replace (0 + Z.of_nat (3 * n + 1) + Z.of_nat 2) with (3 * Z.of_nat (S n)) by lia.
    replace (3 * Z.of_nat n + 0) with (3 * Z.of_nat n) by lia.
    destruct (bsum (fun k => xorb (F (3 * m, 3 * Z.of_nat k + 0)) (F (3 * m, 3 * Z.of_nat k + 1))) n),
      (F (3 * m, 3 * Z.of_nat n)), (F (3 * m, 3 * Z.of_nat n + 1)), (F (3 * m, 3 * Z.of_nat (S n))); reflexivity.
Qed.
Lemma c6_bsp_bopZ e : length e = (CN + CN)%nat -> bsp e (c6_bop pZ) = oddE j (c6_fx e).
Proof.
  intros He. unfold c6_bop. rewrite c6_bsp_e_sopZ by (auto using c6_bottom_sites). unfold c6_bottom.
  rewrite c6_bottom_parity. unfold oddE, c6_fx. cbv zeta. replace (Z.of_nat j) with m by (unfold j; lia). reflexivity.
Qed.
Lemma c6_bsp_bopX e : length e = (CN + CN)%nat -> bsp e (c6_bop pX) = oddE j (c6_fz e).
Proof.
  intros He. unfold c6_bop. rewrite c6_bsp_e_sopX by (auto using c6_bottom_sites). unfold c6_bottom.
  rewrite c6_bottom_parity. unfold oddE, c6_fz. cbv zeta. replace (Z.of_nat j) with m by (unfold j; lia). reflexivity.
Qed.

(* a hexagon meets the bottom row in 0 or 2 lattice sites *)
Ltac c6_decide_eqb :=
  repeat match goal with
  | |- context [?a =? ?b] =>
      first [ replace (a =? b) with true by (symmetry; apply Z.eqb_eq; lia)
            | replace (a =? b) with false by (symmetry; apply Z.eqb_neq; lia) ]
  end.
Lemma c6_cnt_bottom s : rc_cnt s c6_bottom =
  Z.b2z (color_is_site s) * Z.b2z ((fst s =? 3 * m) && (0 <=? snd s) && (snd s <? 3 * m + 1)).
Proof.
  unfold c6_bottom. rewrite rc_cnt_filter, rc_cnt_vline. replace (Z.of_nat (3 * j + 1)) with (3 * m + 1) by (unfold j; lia).
  reflexivity.
Qed.
Lemma c6_hex_bottom_even q : color_is_plaquette q = true -> inb q = true ->
  Z.odd (rc_pairs (filter inb (c6_neighbours q)) (filter inb c6_bottom)) = false.
Proof.
  intros Tq Bq. apply rc_odd_of_mod2_0. rewrite rc_pairs_filter. destruct q as [r c].
  rewrite c6_plaq_unfold in Tq. rewrite (c6_inb_unfold size m Hsize) in Bq. cbn [fst snd] in Tq, Bq. apply Z.eqb_eq in Tq.
  assert (Bq' : 0 <= c <= r /\ r <= 3 * m) by lia. clear Bq.
  change (c6_neighbours (r, c)) with [(r - 1, c - 1); (r - 1, c); (r, c - 1); (r, c + 1); (r + 1, c); (r + 1, c + 1)].
  cbn [fold_right]. rewrite !rc_cnt_filter, !c6_cnt_bottom, !c6_site_unfold0, !(c6_inb_unfold size m Hsize). cbn [fst snd].
  assert (Hd : r = 3 * m \/ r = 3 * m - 1 \/ r <= 3 * m - 2) by lia.
  destruct Hd as [-> | [-> | Hd]]; c6_decide_eqb; cbn [negb andb Z.b2z]; rewrite ?andb_false_r; cbn [Z.b2z]; lia.
Qed.
Lemma c6_stab_bop opA q opB : In q PI -> bsp (c6_stab size opA q) (c6_bop opB) = false.
Proof.
  intros Hq. apply c6_in_plaquette_indices in Hq. destruct Hq as [Tq Bq].
  unfold c6_stab, c6_bop. rewrite (c6_bsp_sop size m Hm Hsize) by (auto using c6_nbrs_sites, c6_bottom_sites). cbv zeta.
  rewrite c6_hex_bottom_even by auto. now rewrite !andb_false_r.
Qed.
Lemma c6_span_bop op v : in_spanP (CN + CN) STABS v -> bsp v (c6_bop op) = false.
Proof.
  apply span_commutes; [apply (c6_stabs_rowlen size m Hm Hsize)|].
  intros s Hs. rewrite c6_code_eq in Hs. cbn [stabs] in Hs. apply in_app_iff in Hs.
  destruct Hs as [Hs|Hs]; apply in_map_iff in Hs; destruct Hs as (q & <- & Hq); now apply c6_stab_bop.
Qed.

(* ================================================================== *)
(** * Part 3 — completeness of the generators                          *)
(* ================================================================== *)
Lemma c6_span_normalizer v : in_spanP (CN + CN) STABS v -> normalizer STABS v.
Proof.
  intros Hv s Hs. apply (span_commutes (CN + CN) STABS s); auto; [apply (c6_stabs_rowlen size m Hm Hsize)|].
  intros s' Hs'. destruct (color_valid_all_conditions size ltac:(lia) ltac:(lia)) as (H & _). now apply H.
Qed.
Lemma c6_xat_single e s : length e = (CN + CN)%nat -> color_is_site s = true ->
  bsp e (c6_sop size pZ [s]) = c6_xat e s.
Proof. intros He Hs. rewrite c6_bsp_e_sopZ by (auto using c6_single_sites). cbn [rc_xsumb]. apply xorb_false_r. Qed.
Lemma c6_zat_single e s : length e = (CN + CN)%nat -> color_is_site s = true ->
  bsp e (c6_sop size pX [s]) = c6_zat e s.
Proof. intros He Hs. rewrite c6_bsp_e_sopX by (auto using c6_single_sites). cbn [rc_xsumb]. apply xorb_false_r. Qed.

(* an operator whose X and Z components vanish at every lattice site is the identity *)
Lemma c6_components_zero e : length e = (CN + CN)%nat ->
  (forall s, c6_xat e s = false) -> (forall s, c6_zat e s = false) -> e = zeros (CN + CN).
Proof.
  intros He HX HZ.
  assert (L1 : length (skipn CN e) = CN) by (rewrite skipn_length; lia).
  assert (L2 : length (firstn CN e) = CN) by (rewrite firstn_length; lia).
  assert (G : forall u : bsf, length u = CN ->
            (forall s, inb s && color_is_site s && nth (c6_fl s) u false = false) -> u = zeros CN).
  { intros u Hu H. rewrite <- Hu. apply all_false_zeros_nth. intros i Hi.
    destruct (c6_flatten_surjective_sec size m Hm Hsize i ltac:(lia)) as (s & Ss & Bs & Fs).
    specialize (H s). rewrite Ss, Bs in H. unfold c6_fl in H. now rewrite Fs in H. }
  rewrite <- (firstn_skipn CN e). rewrite (G _ L2 HX), (G _ L1 HZ). unfold zeros. now rewrite repeat_app.
Qed.

Theorem color_centralizer_sec e : length e = (CN + CN)%nat -> normalizer STABS e ->
  bsp e (c6_bop pZ) = false -> bsp e (c6_bop pX) = false -> in_spanP (CN + CN) STABS e.
Proof.
  intros He Hn HZ HX.
  destruct (tri_clean (CN + CN) (c6_stab_pairs size) (c6_stab_pairs_tri size m Hm Hsize) e He) as (cs & Hcs & Hall).
  rewrite (c6_stab_pairs_fst size) in Hall. set (T := lincomb (CN + CN) cs STABS) in *.
  assert (HT : in_spanP (CN + CN) STABS T).
  { exists cs. split; [|reflexivity]. rewrite Hcs, <- (c6_stab_pairs_fst size). now rewrite map_length. }
  assert (LT : length T = (CN + CN)%nat) by (apply lincomb_length, (c6_stabs_rowlen size m Hm Hsize)).
  set (e' := xorv e T) in *.
  assert (He' : length e' = (CN + CN)%nat) by (unfold e'; rewrite xorv_length; lia).
  assert (Hn' : normalizer STABS e').
  { intros s Hs. unfold e'. rewrite bsp_linear_l by lia. rewrite (Hn s Hs), (c6_span_normalizer T HT s Hs). reflexivity. }
  assert (HZ' : oddE j (c6_fx e') = false).
  { rewrite <- c6_bsp_bopZ by exact He'. unfold e'. rewrite bsp_linear_l by lia. now rewrite HZ, c6_span_bop. }
  assert (HX' : oddE j (c6_fz e') = false).
  { rewrite <- c6_bsp_bopX by exact He'. unfold e'. rewrite bsp_linear_l by lia. now rewrite HX, c6_span_bop. }
  assert (PX : forall r c, 0 <= c <= r -> r <= 3 * m -> (r + c) mod 3 = 2 -> c6_fx e' (r - 1) (Z.max (c - 1) 0) = false).
  { intros r c Hc Hr Hs. pose proof (c6_in_PI r c Hc Hr Hs) as Hq.
    destruct (c6_PI_props size (r, c) Hq) as [Pq Bq]. destruct (c6_pivot_site size m Hsize (r, c) Pq Bq) as [Sp _].
    specialize (Hall (c6_stab size pX (r, c), c6_dual size pZ (r, c))). cbn [snd] in Hall.
    unfold c6_dual in Hall. rewrite c6_xat_single in Hall by auto. apply Hall.
    unfold c6_stab_pairs. apply in_app_iff. left. unfold c6_pairs.
    apply (in_map (fun q => (c6_stab size pX q, c6_dual size pZ q))). exact Hq. }
  assert (PZ : forall r c, 0 <= c <= r -> r <= 3 * m -> (r + c) mod 3 = 2 -> c6_fz e' (r - 1) (Z.max (c - 1) 0) = false).
  { intros r c Hc Hr Hs. pose proof (c6_in_PI r c Hc Hr Hs) as Hq.
    destruct (c6_PI_props size (r, c) Hq) as [Pq Bq]. destruct (c6_pivot_site size m Hsize (r, c) Pq Bq) as [Sp _].
    specialize (Hall (c6_stab size pZ (r, c), c6_dual size pX (r, c))). cbn [snd] in Hall.
    unfold c6_dual in Hall. rewrite c6_zat_single in Hall by auto. apply Hall.
    unfold c6_stab_pairs. apply in_app_iff. right. unfold c6_pairs.
    apply (in_map (fun q => (c6_stab size pZ q, c6_dual size pX q))). exact Hq. }
  assert (Hjm : m = Z.of_nat j) by (unfold j; lia).
  assert (VX : forall s, c6_xat e' s = false).
  { intros [r c]. apply (van_all j m Hjm (c6_fx e') (c6_fx_supp e') (c6_fx_norm e' He' Hn') (c6_fx_site e') PX HZ' r c). }
  assert (VZ : forall s, c6_zat e' s = false).
  { intros [r c]. apply (van_all j m Hjm (c6_fz e') (c6_fz_supp e') (c6_fz_norm e' He' Hn') (c6_fz_site e') PZ HX' r c). }
  pose proof (c6_components_zero e' He' VX VZ) as E0. unfold e' in E0.
  assert (E : e = T).
  { rewrite <- (xorv_cancel_l e T) by lia. rewrite E0. rewrite <- He. symmetry. apply xorv_zeros_r. }
  rewrite E. exact HT.
Qed.
End ColorDist.

(* ================================================================== *)
(** * Part 4 — the distance                                            *)
(* ================================================================== *)
(* the weight Wt of Part 1 as a sum over an explicit duplicate-free list of lattice sites *)
Definition lsum (f : Z -> Z -> bool) (L : list ridx) : Z := fold_right (fun s acc => B (f (fst s) (snd s)) + acc) 0 L.
Lemma lsum_app f L1 L2 : lsum f (L1 ++ L2) = lsum f L1 + lsum f L2.
Proof. unfold lsum. induction L1 as [|a L IH]; cbn [app fold_right]; [lia|]. rewrite IH. lia. Qed.
Lemma lsum_filter_length f L : lsum f L = Z.of_nat (length (filter (fun s => f (fst s) (snd s)) L)).
Proof.
  induction L as [|a L IH]; [reflexivity|]. cbn [lsum fold_right filter]. fold (lsum f L). rewrite IH.
  destruct (f (fst a) (snd a)); cbn [B length]; lia.
Qed.
Definition cellrow (R o1 o2 : Z) (n : nat) : list ridx :=
  flat_map (fun k => [(R, 3 * Z.of_nat k + o1); (R, 3 * Z.of_nat k + o2)]) (seq 0 n).
Lemma cellrow_S R o1 o2 n :
  cellrow R o1 o2 (S n) = cellrow R o1 o2 n ++ [(R, 3 * Z.of_nat n + o1); (R, 3 * Z.of_nat n + o2)].
Proof. unfold cellrow. rewrite seq_S, flat_map_app. cbn [flat_map Nat.add]. now rewrite app_nil_r. Qed.
Lemma in_cellrow R o1 o2 n s : In s (cellrow R o1 o2 n) ->
  fst s = R /\ exists k : nat, (k < n)%nat /\ (snd s = 3 * Z.of_nat k + o1 \/ snd s = 3 * Z.of_nat k + o2).
Proof.
  unfold cellrow. intros H. apply in_flat_map in H. destruct H as (k & Hk & Hs). apply in_seq in Hk.
  destruct Hs as [<-|[<-|[]]]; cbn [fst snd]; (split; [reflexivity|]); exists k; split; auto; lia.
Qed.
Lemma row2_lsum f R o1 o2 n : row2 f R o1 o2 n = lsum f (cellrow R o1 o2 n).
Proof.
  induction n as [|n IH]; [reflexivity|]. rewrite cellrow_S, lsum_app, <- IH. unfold row2. cbn [zsum lsum fold_right fst snd]. lia.
Qed.
Lemma cellrow_NoDup R o1 o2 n : 0 <= o1 < 3 -> 0 <= o2 < 3 -> o1 <> o2 -> NoDup (cellrow R o1 o2 n).
Proof.
  intros H1 H2 Hne. induction n as [|n IH]; [constructor|]. rewrite cellrow_S. apply c6_NoDup_app; auto.
  - constructor; [|constructor; [intros []|constructor]]. intros [E|[]]. injection E as E. lia.
  - intros s Hs Hs'. apply in_cellrow in Hs. destruct Hs as (_ & k & Hk & Hs).
    destruct Hs' as [<-|[<-|[]]]; cbn [snd] in Hs; lia.
Qed.

Definition lE (j : nat) : list ridx := let J := Z.of_nat j in cellrow (3 * J) 0 1 j ++ [(3 * J, 3 * J)].
Definition lB (j : nat) : list ridx := let J := Z.of_nat j in cellrow (3 * J + 1) 0 2 j ++ [(3 * J + 1, 3 * J)].
Definition lC (j : nat) : list ridx :=
  let J := Z.of_nat j in cellrow (3 * J + 2) 1 2 j ++ [(3 * J + 2, 3 * J + 1); (3 * J + 2, 3 * J + 2)].
Fixpoint c6_tlow (j : nat) : list ridx := match j with O => [] | S i => c6_tlow i ++ lE i ++ lB i ++ lC i end.
Definition c6_tl (j : nat) : list ridx := c6_tlow j ++ lE j.

Lemma Wlow_lsum f j : Wlow j f = lsum f (c6_tlow j).
Proof.
  induction j as [|j IH]; [reflexivity|]. cbn [Wlow c6_tlow]. rewrite !lsum_app, <- IH.
  unfold rowE, rowB, rowC, lE, lB, lC. cbv zeta. rewrite !lsum_app, <- !row2_lsum. cbn [lsum fold_right fst snd]. lia.
Qed.
Lemma Wt_lsum f j : Wt j f = lsum f (c6_tl j).
Proof.
  unfold Wt, c6_tl. rewrite lsum_app, <- Wlow_lsum. unfold rowE, lE. cbv zeta. rewrite lsum_app, <- row2_lsum.
  cbn [lsum fold_right fst snd]. lia.
Qed.

Definition tsite (J : Z) (s : ridx) : Prop := 0 <= snd s <= fst s /\ fst s <= 3 * J /\ (fst s + snd s) mod 3 <> 2.
Lemma lE_props j s : In s (lE j) -> fst s = 3 * Z.of_nat j /\ tsite (Z.of_nat j) s.
Proof.
  unfold lE, tsite. cbv zeta. intros H. apply in_app_iff in H. destruct H as [H|[<-|[]]]; [|cbn [fst snd]; lia].
  apply in_cellrow in H. destruct H as (H1 & k & Hk & H2). lia.
Qed.
Lemma lB_props j s : In s (lB j) -> fst s = 3 * Z.of_nat j + 1 /\ tsite (Z.of_nat j + 1) s.
Proof.
  unfold lB, tsite. cbv zeta. intros H. apply in_app_iff in H. destruct H as [H|[<-|[]]]; [|cbn [fst snd]; lia].
  apply in_cellrow in H. destruct H as (H1 & k & Hk & H2). lia.
Qed.
Lemma lC_props j s : In s (lC j) -> fst s = 3 * Z.of_nat j + 2 /\ tsite (Z.of_nat j + 1) s.
Proof.
  unfold lC, tsite. cbv zeta. intros H. apply in_app_iff in H. destruct H as [H|[<-|[<-|[]]]]; [|cbn [fst snd]; lia..].
  apply in_cellrow in H. destruct H as (H1 & k & Hk & H2). lia.
Qed.
Lemma tsite_mono J J' s : J <= J' -> tsite J s -> tsite J' s.
Proof. unfold tsite. lia. Qed.
Lemma tlow_props j s : In s (c6_tlow j) -> fst s < 3 * Z.of_nat j /\ tsite (Z.of_nat j) s.
Proof.
  induction j as [|j IH]; [intros []|]. cbn [c6_tlow]. intros H. rewrite !in_app_iff in H.
  destruct H as [H|[H|[H|H]]].
  - destruct (IH H) as [H1 H2]. split; [lia|]. apply (tsite_mono (Z.of_nat j)); [lia|exact H2].
  - destruct (lE_props j s H) as [H1 H2]. split; [lia|]. apply (tsite_mono (Z.of_nat j)); [lia|exact H2].
  - destruct (lB_props j s H) as [H1 H2]. split; [lia|]. apply (tsite_mono (Z.of_nat j + 1)); [lia|exact H2].
  - destruct (lC_props j s H) as [H1 H2]. split; [lia|]. apply (tsite_mono (Z.of_nat j + 1)); [lia|exact H2].
Qed.
Lemma tl_props j s : In s (c6_tl j) -> tsite (Z.of_nat j) s.
Proof.
  unfold c6_tl. intros H. apply in_app_iff in H. destruct H as [H|H]; [apply (tlow_props j s H)|apply (lE_props j s H)].
Qed.
Lemma lE_NoDup j : NoDup (lE j).
Proof.
  unfold lE. cbv zeta. apply c6_NoDup_app; [apply cellrow_NoDup; lia|constructor; [intros []|constructor]|].
  intros s Hs [<-|[]]. apply in_cellrow in Hs. cbn [fst snd] in Hs. destruct Hs as (_ & k & Hk & Hs). lia.
Qed.
Lemma lB_NoDup j : NoDup (lB j).
Proof.
  unfold lB. cbv zeta. apply c6_NoDup_app; [apply cellrow_NoDup; lia|constructor; [intros []|constructor]|].
  intros s Hs [<-|[]]. apply in_cellrow in Hs. cbn [fst snd] in Hs. destruct Hs as (_ & k & Hk & Hs). lia.
Qed.
Lemma lC_NoDup j : NoDup (lC j).
Proof.
  unfold lC. cbv zeta. rewrite <- cellrow_S. apply cellrow_NoDup; lia.
Qed.
Lemma tlow_NoDup j : NoDup (c6_tlow j).
Proof.
  induction j as [|j IH]; [constructor|]. cbn [c6_tlow]. apply c6_NoDup_app; [exact IH| |].
  - apply c6_NoDup_app; [apply lE_NoDup| |].
    + apply c6_NoDup_app; [apply lB_NoDup|apply lC_NoDup|].
      intros s H1 H2. apply lB_props in H1. apply lC_props in H2. lia.
    + intros s H1 H2. apply lE_props in H1. apply in_app_iff in H2. destruct H2 as [H2|H2];
        [apply lB_props in H2|apply lC_props in H2]; lia.
  - intros s H1 H2. apply tlow_props in H1. rewrite !in_app_iff in H2. destruct H2 as [H2|[H2|H2]];
      [apply lE_props in H2|apply lB_props in H2|apply lC_props in H2]; lia.
Qed.
Lemma tl_NoDup j : NoDup (c6_tl j).
Proof.
  unfold c6_tl. apply c6_NoDup_app; [apply tlow_NoDup|apply lE_NoDup|].
  intros s H1 H2. apply tlow_props in H1. apply lE_props in H2. lia.
Qed.

Section ColorDistFinal.
Variables size m : Z.
Hypothesis Hm : 1 <= m.
Hypothesis Hsize : size = 2 * m + 1.
Notation inb := (color_is_in_bounds size).
Notation CN := (c6_n size).
Notation STABS := (stabs (color_code size)).
Let j := Z.to_nat m.

(* the number of lattice sites carrying a component is at most the number of true bits *)
Lemma c6_Wt_le_count (u : bsf) :
  Wt j (fun r c => inb (r, c) && color_is_site (r, c) && nth (c6_fl (r, c)) u false) <= Z.of_nat (count_true u).
Proof.
  rewrite Wt_lsum, lsum_filter_length.
  set (g := fun s : ridx => inb (fst s, snd s) && color_is_site (fst s, snd s) && nth (c6_fl (fst s, snd s)) u false).
  change (Z.of_nat (length (filter g (c6_tl j))) <= Z.of_nat (count_true u)).
  assert (G : forall s, In s (filter g (c6_tl j)) -> inb s = true /\ color_is_site s = true /\ nth (c6_fl s) u false = true).
  { intros [r c] Hs. apply filter_In in Hs. destruct Hs as [_ Hs]. unfold g in Hs. cbn [fst snd] in Hs.
    apply andb_true_iff in Hs. destruct Hs as [Hs H3]. apply andb_true_iff in Hs. tauto. }
  apply inj_le. rewrite <- (map_length c6_fl). apply count_true_positions.
  - apply rc_NoDup_map_inj; [|apply NoDup_filter, tl_NoDup]. intros x y Hx Hy.
    destruct (G x Hx) as (A1 & A2 & _), (G y Hy) as (B1 & B2 & _). now apply (c6_fl_inj size m Hm Hsize).
  - intros k Hk. apply in_map_iff in Hk. destruct Hk as (s & <- & Hs). now apply G.
Qed.

(* C08, lower bound: every non-trivial logical operator has weight at least size *)
Theorem color_distance_lower_sec v : nontrivial CN STABS v -> size <= Z.of_nat (bsf_wt v).
Proof.
  intros (Hl & Hn & Hs). assert (He : length v = (CN + CN)%nat) by lia.
  destruct (parts_weight CN v Hl) as (_ & _ & Lx & Lz).
  assert (Hjm : Z.of_nat j = m) by (unfold j; lia).
  destruct (bsp v (c6_bop size m pZ)) eqn:EZ.
  - rewrite (c6_bsp_bopZ size m Hm Hsize) in EZ by exact He. fold j in EZ.
    pose proof (tri_lower j (c6_fx size v)) as H. rewrite Hjm in H.
    specialize (H (c6_fx_supp size m Hsize v) (c6_fx_norm size m Hm Hsize v He Hn) EZ).
    pose proof (c6_Wt_le_count (firstn CN v)) as HW. unfold c6_fx, c6_xat in H. lia.
  - destruct (bsp v (c6_bop size m pX)) eqn:EX.
    + rewrite (c6_bsp_bopX size m Hm Hsize) in EX by exact He. fold j in EX.
      pose proof (tri_lower j (c6_fz size v)) as H. rewrite Hjm in H.
      specialize (H (c6_fz_supp size m Hsize v) (c6_fz_norm size m Hm Hsize v He Hn) EX).
      pose proof (c6_Wt_le_count (skipn CN v)) as HW. unfold c6_fz, c6_zat in H. lia.
    + exfalso. apply Hs. replace (2 * CN)%nat with (CN + CN)%nat by lia.
      now apply (color_centralizer_sec size m Hm Hsize).
Qed.
Theorem color_is_distance_sec : is_distance CN STABS (Z.to_nat size).
Proof.
  split.
  - destruct (color_distance_upper_sec size m Hm Hsize) as [H1 H2]. exists (c6_lop size pX). split; [exact H1|lia].
  - intros v Hv. pose proof (color_distance_lower_sec v Hv). lia.
Qed.
End ColorDistFinal.

(* ColorBounded.color_distance_statement, now a theorem: d = size is the minimum distance of the colour 6.6.6 code of
   every odd size >= 3 *)
Theorem color_distance_all : color_distance_statement.
Proof.
  intros size Hs Ho. assert (Hm : 1 <= size / 2) by lia. assert (Hsize : size = 2 * (size / 2) + 1) by lia.
  rewrite (c6_nkd size (size / 2) Hm Hsize). unfold rc_dist. rewrite Nat2Z.id.
  apply (color_is_distance_sec size (size / 2) Hm Hsize).
Qed.
(* completeness of the generators: what commutes with all of them and has even X / Z parity on the bottom row
   r = bound is a product of generators *)
Theorem color_centralizer_all : forall size, 3 <= size -> size mod 2 = 1 -> forall e,
  length e = (c6_n size + c6_n size)%nat -> normalizer (stabs (color_code size)) e ->
  bsp e (c6_bop size (size / 2) pZ) = false -> bsp e (c6_bop size (size / 2) pX) = false ->
  in_spanP (c6_n size + c6_n size) (stabs (color_code size)) e.
Proof. intros size Hs Ho. apply (color_centralizer_sec size (size / 2)); lia. Qed.
Theorem color_distance_lower_all : forall size, 3 <= size -> size mod 2 = 1 -> forall v,
  nontrivial (c6_n size) (stabs (color_code size)) v -> size <= Z.of_nat (bsf_wt v).
Proof. intros size Hs Ho. apply (color_distance_lower_sec size (size / 2)); lia. Qed.

(* non-vacuity: a size beyond the in-kernel enumeration of ColorBounded (sizes 3, 5); the bottom row; the hypotheses
   of tri_lower are satisfiable (the bottom row of the triangle of side 1, i.e. a weight-3 logical of the 7-qubit code) *)
Example color_distance_ex_9 : rc_dist (color_n_k_d 9) (color_code 9).
Proof. apply color_distance_all; [lia|reflexivity]. Qed.
Example color_bottom_ex : c6_bottom 1 = [(3, 0); (3, 1); (3, 3)] /\ c6_bottom 2 = [(6, 0); (6, 1); (6, 3); (6, 4); (6, 6)].
Proof. vm_compute. auto. Qed.
Example tri_lower_ex : let f := fun r c => (r =? 3) && ((c =? 0) || (c =? 1) || (c =? 3)) in
  oddE 1 f = true /\ Wt 1 f = 3 /\ hexsum f 1 1 = false /\ hexsum f 2 0 = false /\ hexsum f 3 2 = false.
Proof. vm_compute. auto 10. Qed.
