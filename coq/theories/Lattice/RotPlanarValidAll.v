(* Lattice/RotPlanarValidAll.v — validate (rotplanar_code rows cols) = VOk for ALL rows, cols >= 3.

   Part A  generic dense/sparse transfer for the rc_ dense Paulis of Lattice/RotPlanar.v (shared with
           RotToricValidAll.v): an operator laid on the identity by flips at a list of flat positions; the
           symplectic product of two such operators is the parity of the number of coinciding positions;
           through an injective index map this is the parity of the number of coinciding lattice sites.
   Part B  rotated planar: the plaquette-bounds rule in closed form; X-type and Z-type plaquettes share an
           even number of in-lattice sites; plaquettes against the two logicals; the logicals against each
           other; the theorem.
   All statements are about the translator's output in Generated/LatticeArith.v. *)
From Coq Require Import ZArith List Bool Lia ZifyBool.
From QV Require Import Core.Bits Core.Pauli Core.Symp Core.Code Generated.LatticeArith
  Lattice.RotPlanar Lattice.RotPlanarAll.
Import ListNotations.
Open Scope Z_scope.
Ltac Zify.zify_post_hook ::= Z.to_euclidean_division_equations.

(* ================================================================== *)
(** * Part A — generic dense/sparse transfer                           *)
(* ================================================================== *)
Fixpoint rc_xsumb {A} (f : A -> bool) (L : list A) : bool :=
  match L with [] => false | a :: r => xorb (f a) (rc_xsumb f r) end.
Lemma rc_xsumb_ext {A} (f g : A -> bool) L : (forall a, In a L -> f a = g a) -> rc_xsumb f L = rc_xsumb g L.
Proof. induction L as [|a L IH]; intros H; cbn; auto. rewrite H by (cbn; auto). f_equal. apply IH. intros; apply H; cbn; auto. Qed.
Lemma rc_xsumb_map {A B} (f : B -> bool) (g : A -> B) L : rc_xsumb f (map g L) = rc_xsumb (fun a => f (g a)) L.
Proof. induction L as [|a L IH]; cbn; auto. now rewrite IH. Qed.
Lemma rc_xsumb_odd {A} (f : A -> Z) L :
  rc_xsumb (fun a => Z.odd (f a)) L = Z.odd (fold_right (fun a acc => f a + acc) 0 L).
Proof. induction L as [|a L IH]; cbn [rc_xsumb fold_right]; [reflexivity|]. now rewrite IH, Z.odd_add. Qed.

Lemma rc_nth_flip_at k : forall u j, (k < length u)%nat ->
  nth j (rc_flip_at k u) false = xorb (j =? k)%nat (nth j u false).
Proof.
  induction k as [|k IH]; intros [|x u] j Hk; cbn in Hk; try lia.
  - destruct j; cbn; [now destruct x|now destruct (nth j u false)].
  - destruct j; cbn; [now destruct x|]. apply IH. lia.
Qed.
Lemma rc_dot_flip_at k : forall u v, length u = length v -> (k < length u)%nat ->
  dot (rc_flip_at k u) v = xorb (nth k v false) (dot u v).
Proof.
  induction k as [|k IH]; intros [|x u] [|y v] HL Hk; cbn in *; try lia.
  - now destruct x, y, (dot u v).
  - rewrite IH by lia. now destruct (x && y), (nth k v false), (dot u v).
Qed.
Lemma rc_nth_flips ks : forall u j, (forall k, In k ks -> (k < length u)%nat) ->
  nth j (rc_flips ks u) false = xorb (rc_xsumb (fun k => (j =? k)%nat) ks) (nth j u false).
Proof.
  induction ks as [|k ks IH]; intros u j H; cbn [rc_flips fold_left rc_xsumb]; [now destruct (nth j u false)|].
  change (fold_left (fun a i => rc_flip_at i a) ks (rc_flip_at k u)) with (rc_flips ks (rc_flip_at k u)).
  rewrite IH by (intros k' Hk'; rewrite rc_flip_at_length; apply H; cbn; auto).
  rewrite rc_nth_flip_at by (apply H; cbn; auto).
  now destruct (j =? k)%nat, (rc_xsumb (fun k0 => (j =? k0)%nat) ks), (nth j u false).
Qed.
Lemma rc_dot_flips ks : forall u v, length u = length v -> (forall k, In k ks -> (k < length u)%nat) ->
  dot (rc_flips ks u) v = xorb (rc_xsumb (fun k => nth k v false) ks) (dot u v).
Proof.
  induction ks as [|k ks IH]; intros u v HL H; cbn [rc_flips fold_left rc_xsumb]; [now destruct (dot u v)|].
  change (fold_left (fun a i => rc_flip_at i a) ks (rc_flip_at k u)) with (rc_flips ks (rc_flip_at k u)).
  rewrite IH by (rewrite ?rc_flip_at_length; auto; intros k' Hk'; apply H; cbn; auto).
  rewrite rc_dot_flip_at by (auto; apply H; cbn; auto).
  now destruct (nth k v false), (rc_xsumb (fun k0 => nth k0 v false) ks), (dot u v).
Qed.

(* the operator obtained from the identity on n qubits by flipping, with one letter, at the listed positions *)
Definition rc_gop (n : nat) (op : pl) (ks : list nat) : bsf := rc_to_bsf (rc_apply_flips op ks (rc_identity n)).
Definition rc_klt (n : nat) (ks : list nat) : Prop := forall k, In k ks -> (k < n)%nat.
Definition rc_ovk (A B : list nat) : bool := rc_xsumb (fun a => rc_xsumb (fun b => (a =? b)%nat) B) A.
Definition rc_xpart (n : nat) (op : pl) (ks : list nat) : bsf := if xbit op then rc_flips ks (zeros n) else zeros n.
Definition rc_zpart (n : nat) (op : pl) (ks : list nat) : bsf := if zbit op then rc_flips ks (zeros n) else zeros n.
Lemma rc_gop_parts n op ks : rc_gop n op ks = rc_xpart n op ks ++ rc_zpart n op ks.
Proof. reflexivity. Qed.
Lemma rc_xpart_length n op ks : length (rc_xpart n op ks) = n.
Proof. unfold rc_xpart. destruct (xbit op); rewrite ?rc_flips_length; apply zeros_length. Qed.
Lemma rc_zpart_length n op ks : length (rc_zpart n op ks) = n.
Proof. unfold rc_zpart. destruct (zbit op); rewrite ?rc_flips_length; apply zeros_length. Qed.
Lemma rc_gop_length n op ks : length (rc_gop n op ks) = (n + n)%nat.
Proof. rewrite rc_gop_parts, app_length, rc_xpart_length, rc_zpart_length. reflexivity. Qed.
Lemma rc_gop_even n op ks : Nat.even (length (rc_gop n op ks)) = true.
Proof. rewrite rc_gop_length. replace (n + n)%nat with (2 * n)%nat by lia. apply Nat.even_spec. now exists n. Qed.
Lemma rc_dot_flips_flips n A B : rc_klt n A -> rc_klt n B ->
  dot (rc_flips A (zeros n)) (rc_flips B (zeros n)) = rc_ovk A B.
Proof.
  intros HA HB. rewrite rc_dot_flips.
  - rewrite dot_zeros_l, xorb_false_r. unfold rc_ovk. apply rc_xsumb_ext. intros a Ha.
    rewrite rc_nth_flips by (intros k Hk; rewrite zeros_length; now apply HB).
    now rewrite rc_nth_zeros, xorb_false_r.
  - now rewrite rc_flips_length.
  - intros k Hk. rewrite zeros_length. now apply HA.
Qed.
Theorem rc_bsp_gop n opA A opB B : rc_klt n A -> rc_klt n B ->
  bsp (rc_gop n opA A) (rc_gop n opB B) =
  xorb (zbit opA && xbit opB && rc_ovk A B) (xbit opA && zbit opB && rc_ovk A B).
Proof.
  intros HA HB. unfold bsp, swap_halves.
  rewrite (rc_gop_parts n opA), halves_app by now rewrite rc_xpart_length, rc_zpart_length.
  rewrite rc_gop_parts, dot_app by now rewrite rc_zpart_length, rc_xpart_length.
  unfold rc_xpart, rc_zpart.
  destruct (xbit opA), (zbit opA), (xbit opB), (zbit opB); cbn [andb];
    rewrite ?dot_zeros_l, ?dot_zeros_r, ?(rc_dot_flips_flips n) by auto; try reflexivity;
    now destruct (rc_ovk A B).
Qed.
Lemma rc_bsp_gop_sym n opA A opB B : bsp (rc_gop n opA A) (rc_gop n opB B) = bsp (rc_gop n opB B) (rc_gop n opA A).
Proof. apply bsp_sym; [now rewrite !rc_gop_length|apply rc_gop_even]. Qed.

(* ---- lattice level: counting coinciding indices ---- *)
Notation ridx := (Z * Z)%type.
Definition rc_cnt (s : ridx) (B : list ridx) : Z := fold_right (fun t acc => Z.b2z (rc_idx_eqb s t) + acc) 0 B.
Definition rc_pairs (A B : list ridx) : Z := fold_right (fun a acc => rc_cnt a B + acc) 0 A.
Lemma rc_idx_eqb_refl a : rc_idx_eqb a a = true.
Proof. now apply rc_idx_eqb_spec. Qed.
Lemma rc_cnt_cons s t B : rc_cnt s (t :: B) = Z.b2z (rc_idx_eqb s t) + rc_cnt s B.
Proof. reflexivity. Qed.
Lemma rc_cnt_app s A B : rc_cnt s (A ++ B) = rc_cnt s A + rc_cnt s B.
Proof. induction A as [|a A IH]; [reflexivity|]. rewrite <- app_comm_cons, !rc_cnt_cons, IH. lia. Qed.
Lemma rc_pairs_cons a A B : rc_pairs (a :: A) B = rc_cnt a B + rc_pairs A B.
Proof. reflexivity. Qed.
Lemma rc_pairs_app A1 A2 B : rc_pairs (A1 ++ A2) B = rc_pairs A1 B + rc_pairs A2 B.
Proof. induction A1 as [|a A IH]; [reflexivity|]. rewrite <- app_comm_cons, !rc_pairs_cons, IH. lia. Qed.
Lemma rc_cnt_filter f s B : rc_cnt s (filter f B) = Z.b2z (f s) * rc_cnt s B.
Proof.
  induction B as [|t B IH]; [cbn; lia|]. cbn [filter]. rewrite rc_cnt_cons.
  destruct (rc_idx_eqb s t) eqn:E.
  - apply rc_idx_eqb_spec in E. subst t. destruct (f s) eqn:Hfs.
    + rewrite rc_cnt_cons, IH, rc_idx_eqb_refl. change (Z.b2z true) with 1. lia.
    + rewrite IH. change (Z.b2z false) with 0. lia.
  - destruct (f t).
    + rewrite rc_cnt_cons, IH, E. change (Z.b2z false) with 0. lia.
    + rewrite IH. change (Z.b2z false) with 0. lia.
Qed.
Lemma rc_pairs_filter f A B : rc_pairs (filter f A) B = fold_right (fun a acc => Z.b2z (f a) * rc_cnt a B + acc) 0 A.
Proof.
  induction A as [|a A IH]; [reflexivity|]. cbn [filter fold_right]. destruct (f a); cbn [Z.b2z].
  - rewrite rc_pairs_cons, IH. lia.
  - rewrite IH. lia.
Qed.
Lemma rc_pairs_zero A B : (forall a, In a A -> rc_cnt a B = 0) -> rc_pairs A B = 0.
Proof.
  induction A as [|a A IH]; intros H; [reflexivity|].
  rewrite rc_pairs_cons, H, IH by (cbn; auto; intros; apply H; cbn; auto). reflexivity.
Qed.
(* through an index map that is injective on the listed indices *)
Lemma rc_ovk_pairs (f : ridx -> nat) (A B : list ridx) :
  (forall a b, In a A -> In b B -> f a = f b -> a = b) ->
  rc_ovk (map f A) (map f B) = Z.odd (rc_pairs A B).
Proof.
  intros Hinj. unfold rc_ovk. rewrite rc_xsumb_map. unfold rc_pairs. rewrite <- rc_xsumb_odd.
  apply rc_xsumb_ext. intros a Ha. rewrite rc_xsumb_map. unfold rc_cnt. rewrite <- rc_xsumb_odd.
  apply rc_xsumb_ext. intros b Hb.
  destruct (rc_idx_eqb a b) eqn:E.
  - apply rc_idx_eqb_spec in E. subst b. cbn. apply Nat.eqb_refl.
  - cbn. apply Nat.eqb_neq. intros Hf. apply Hinj in Hf; auto. subst b. rewrite rc_idx_eqb_refl in E. discriminate.
Qed.
Lemma rc_odd_of_mod2_0 z : z mod 2 = 0 -> Z.odd z = false.
Proof. intros H. rewrite Zmod_odd in H. destruct (Z.odd z); [discriminate|reflexivity]. Qed.
Lemma rc_odd_of_mod2_1 z : z mod 2 = 1 -> Z.odd z = true.
Proof. intros H. rewrite Zmod_odd in H. destruct (Z.odd z); [reflexivity|discriminate]. Qed.
Lemma rc_b2z_mul a b : Z.b2z a * Z.b2z b = Z.b2z (a && b).
Proof. now destruct a, b. Qed.
(* indices laid along a line: count of s in map g (rc_range lo hi) *)
Lemma rc_cnt_range (g : Z -> ridx) s lo hi :
  rc_cnt s (map g (rc_range lo hi)) =
  fold_right (fun i acc => Z.b2z (rc_idx_eqb s (g (lo + Z.of_nat i))) + acc) 0 (seq 0 (Z.to_nat (hi - lo))).
Proof.
  unfold rc_range, rc_zrange. rewrite map_map. generalize (seq 0 (Z.to_nat (hi - lo))). intros l.
  induction l as [|a l IH]; cbn [map fold_right]; [reflexivity|]. rewrite rc_cnt_cons, IH. reflexivity.
Qed.
Lemma rc_sum_indicator k m :
  fold_right (fun i acc => Z.b2z (Z.of_nat i =? k) + acc) 0 (seq 0 m) = Z.b2z ((0 <=? k) && (k <? Z.of_nat m)).
Proof.
  induction m as [|m IH]; [cbn; lia|]. rewrite seq_S, fold_right_app. cbn [fold_right Nat.add].
  assert (G : forall l c, fold_right (fun i acc => Z.b2z (Z.of_nat i =? k) + acc) c l =
                          fold_right (fun i acc => Z.b2z (Z.of_nat i =? k) + acc) 0 l + c).
  { intros l c. induction l as [|a l IHl]; cbn [fold_right]; lia. }
  rewrite G, IH. lia.
Qed.

(* indices laid along a horizontal / vertical line *)
Lemma rc_zrange_S lo m : rc_zrange lo (S m) = rc_zrange lo m ++ [lo + Z.of_nat m].
Proof. unfold rc_zrange. now rewrite seq_S, map_app. Qed.
Lemma rc_cnt_hline s Y m : rc_cnt s (map (fun x => (x, Y)) (rc_zrange 0 m)) =
  Z.b2z ((snd s =? Y) && (0 <=? fst s) && (fst s <? Z.of_nat m)).
Proof.
  induction m as [|m IH]; [cbn; lia|]. rewrite rc_zrange_S, map_app, rc_cnt_app, IH. cbn [map]. rewrite rc_cnt_cons.
  destruct s as [a b]. unfold rc_idx_eqb, rc_cnt. cbn [fst snd fold_right]. lia.
Qed.
Lemma rc_cnt_vline s X m : rc_cnt s (map (fun y => (X, y)) (rc_zrange 0 m)) =
  Z.b2z ((fst s =? X) && (0 <=? snd s) && (snd s <? Z.of_nat m)).
Proof.
  induction m as [|m IH]; [cbn; lia|]. rewrite rc_zrange_S, map_app, rc_cnt_app, IH. cbn [map]. rewrite rc_cnt_cons.
  destruct s as [a b]. unfold rc_idx_eqb, rc_cnt. cbn [fst snd fold_right]. lia.
Qed.

(* ================================================================== *)
(** * Part B — rotated planar                                          *)
(* ================================================================== *)
Section RotPlanarValid.
Variables rows cols : Z.
Hypothesis Hr : 3 <= rows.
Hypothesis Hc : 3 <= cols.

Notation insb := (rotplanar_is_in_site_bounds rows cols).
Notation inpb := (rotplanar_is_in_plaquette_bounds rows cols).
Notation RN := (rp_n rows cols).
Definition rp_fl (i : ridx) : nat := Z.to_nat (rotplanar_flatten rows cols i).
Definition rp_keys (L : list ridx) : list nat := map rp_fl (filter insb L).

Lemma rp_insb_unfold i : insb i = (((0 <=? fst i) && (fst i <=? cols - 1)) && ((0 <=? snd i) && (snd i <=? rows - 1))).
Proof. destruct i; reflexivity. Qed.
Lemma rp_xplaq_unfold i : rotplanar_is_x_plaquette i = ((fst i - snd i) mod 2 =? 1).
Proof. destruct i; reflexivity. Qed.
Lemma rp_zplaq_unfold i : rotplanar_is_z_plaquette i = negb ((fst i - snd i) mod 2 =? 1).
Proof. destruct i; reflexivity. Qed.

(* the plaquette-bounds rule in closed form: the bulk, X-type plaquettes just outside the left / right
   boundary, Z-type plaquettes just outside the bottom / top boundary *)
Lemma rp_inpb_iff x y : inpb (x, y) = true <->
  -1 <= x <= cols - 1 /\ -1 <= y <= rows - 1 /\
  ((x = -1 \/ x = cols - 1) -> (x - y) mod 2 = 1) /\ ((y = -1 \/ y = rows - 1) -> (x - y) mod 2 = 0).
Proof.
  unfold rotplanar_is_in_plaquette_bounds, rotplanar_site_bounds. cbv zeta.
  destruct (Z.eqb_spec (y mod 2) 0) as [Ey|Ey], (Z.eqb_spec (x mod 2) 0) as [Ex|Ex],
           (Z.eqb_spec ((cols - 1) mod 2) 0) as [Ec|Ec], (Z.eqb_spec ((rows - 1) mod 2) 0) as [Er|Er];
    rewrite !andb_true_iff, !Z.leb_le; lia.
Qed.

(* the model is the generic dense model *)
Lemma rp_sites_keys op L : forall p, rp_sites rows cols op L p = rc_apply_flips op (rp_keys L) p.
Proof.
  induction L as [|i L IH]; intros p.
  - destruct p. unfold rc_apply_flips, rp_keys. cbn. destruct (xbit op), (zbit op); reflexivity.
  - unfold rp_sites in *. cbn [fold_left]. rewrite IH. unfold rp_site, rp_keys. cbn [filter].
    destruct (insb i); cbn [map]; [now rewrite rc_apply_flips_cons|reflexivity].
Qed.
Definition rp_sop (op : pl) (L : list ridx) : bsf := rc_to_bsf (rp_sites rows cols op L (rp_identity rows cols)).
Lemma rp_sop_gop op L : rp_sop op L = rc_gop RN op (rp_keys L).
Proof. unfold rp_sop, rc_gop, rp_identity. now rewrite rp_sites_keys. Qed.
Lemma rp_keys_klt L : rc_klt RN (rp_keys L).
Proof.
  intros k Hk. unfold rp_keys in Hk. apply in_map_iff in Hk. destruct Hk as (i & <- & Hi). apply filter_In in Hi.
  destruct Hi as [_ Hi]. pose proof (rp_flatten_range rows cols i Hi) as H. unfold rp_fl, rp_n.
  destruct (rotplanar_n_k_d rows cols) as [[n k] d]. cbn [fst] in H. lia.
Qed.
Theorem rp_bsp_sop opA A opB B :
  bsp (rp_sop opA A) (rp_sop opB B) =
  let P := Z.odd (rc_pairs (filter insb A) (filter insb B)) in
  xorb (zbit opA && xbit opB && P) (xbit opA && zbit opB && P).
Proof.
  rewrite !rp_sop_gop, rc_bsp_gop by apply rp_keys_klt. unfold rp_keys. rewrite rc_ovk_pairs; [reflexivity|].
  intros a b Ha Hb. apply filter_In in Ha, Hb. apply rp_flat_nat_inj; tauto.
Qed.
Lemma rp_bsp_sop_sym opA A opB B : bsp (rp_sop opA A) (rp_sop opB B) = bsp (rp_sop opB B) (rp_sop opA A).
Proof. rewrite !rp_sop_gop. apply rc_bsp_gop_sym. Qed.

(* ---- counting ---- *)
Definition rp_corner (s q : ridx) : bool :=
  ((fst s =? fst q) || (fst s =? fst q + 1)) && ((snd s =? snd q) || (snd s =? snd q + 1)).
Lemma rp_cnt_corners s q : rc_cnt s (rp_corners q) = Z.b2z (rp_corner s q).
Proof. destruct s as [a b], q as [x y]. unfold rp_corners, rp_corner, rc_cnt, rc_idx_eqb. cbn [fold_right fst snd]. lia. Qed.

(* an X-type plaquette inside the plaquette bounds is never on the bottom / top boundary row; a Z-type one is
   never on the left / right boundary column *)
Lemma rp_x_inpb x y : rotplanar_is_x_plaquette (x, y) = true -> inpb (x, y) = true ->
  -1 <= x <= cols - 1 /\ 0 <= y <= rows - 2.
Proof. rewrite rp_xplaq_unfold. cbn [fst snd]. intros T H. apply rp_inpb_iff in H. lia. Qed.
Lemma rp_z_inpb x y : rotplanar_is_x_plaquette (x, y) = false -> inpb (x, y) = true ->
  0 <= x <= cols - 2 /\ -1 <= y <= rows - 1.
Proof. rewrite rp_xplaq_unfold. cbn [fst snd]. intros T H. apply rp_inpb_iff in H. lia. Qed.

Ltac rc_decide_eqb :=
  repeat match goal with
  | |- context [?a =? ?b] =>
      first [ replace (a =? b) with true by (symmetry; apply Z.eqb_eq; lia)
            | replace (a =? b) with false by (symmetry; apply Z.eqb_neq; lia) ]
  end.

Lemma rp_plaq_overlap_even p q :
  rotplanar_is_x_plaquette p = true -> rotplanar_is_x_plaquette q = false -> inpb p = true -> inpb q = true ->
  Z.odd (rc_pairs (filter insb (rp_corners p)) (filter insb (rp_corners q))) = false.
Proof.
  intros Tp Tq Hp Hq. apply rc_odd_of_mod2_0. rewrite rc_pairs_filter. destruct p as [x y], q as [x' y'].
  pose proof (rp_x_inpb x y Tp Hp) as Bp. pose proof (rp_z_inpb x' y' Tq Hq) as Bq. clear Hp Hq.
  rewrite rp_xplaq_unfold in Tp, Tq. cbn [fst snd] in Tp, Tq.
  apply Z.eqb_eq in Tp. apply Z.eqb_neq in Tq.
  change (rp_corners (x, y)) with [(x, y); (x, y + 1); (x + 1, y + 1); (x + 1, y)]. cbn [fold_right].
  rewrite !rc_cnt_filter, !rp_cnt_corners, !rc_b2z_mul, !andb_assoc, !andb_diag.
  unfold rp_corner. cbn [fst snd].
  assert (Hd : x' = x + 1 \/ x' = x - 1 \/ x' = x \/ (x' <> x + 1 /\ x' <> x - 1 /\ x' <> x)) by lia.
  assert (Hd2 : y' = y + 1 \/ y' = y - 1 \/ y' = y \/ (y' <> y + 1 /\ y' <> y - 1 /\ y' <> y)) by lia.
  destruct Hd as [-> | [-> | [-> | Hd]]]; destruct Hd2 as [-> | [-> | [-> | Hd2]]];
    try (exfalso; clear Bp Bq; lia);
    clear Tp Tq; rc_decide_eqb; cbn [orb andb]; rewrite ?andb_true_r, ?andb_false_r; cbn [Z.b2z];
    rewrite ?rp_insb_unfold; cbn [fst snd]; lia.
Qed.

(* ---- the logical operators' site lists ---- *)
Definition rp_lx_sites : list ridx := map (fun x => (x, 0)) (rc_zrange 0 (Z.to_nat cols)).
Definition rp_lz_sites : list ridx := map (fun y => (cols - 1, y)) (rc_zrange 0 (Z.to_nat rows)).
Lemma rp_logical_x_eq p : rp_logical_x rows cols p = rp_sites rows cols pX rp_lx_sites p.
Proof.
  unfold rp_logical_x, rp_lx_sites, rc_range. cbn [rotplanar_site_bounds].
  now replace (Z.to_nat (cols - 1 + 1 - 0)) with (Z.to_nat cols) by lia.
Qed.
Lemma rp_logical_z_eq p : rp_logical_z rows cols p = rp_sites rows cols pZ rp_lz_sites p.
Proof.
  unfold rp_logical_z, rp_lz_sites, rc_range. cbn [rotplanar_site_bounds].
  now replace (Z.to_nat (rows - 1 + 1 - 0)) with (Z.to_nat rows) by lia.
Qed.
Lemma rp_cnt_lx s : rc_cnt s rp_lx_sites = Z.b2z ((snd s =? 0) && (0 <=? fst s) && (fst s <? cols)).
Proof. unfold rp_lx_sites. rewrite rc_cnt_hline, Z2Nat.id by lia. reflexivity. Qed.
Lemma rp_cnt_lz s : rc_cnt s rp_lz_sites = Z.b2z ((fst s =? cols - 1) && (0 <=? snd s) && (snd s <? rows)).
Proof. unfold rp_lz_sites. rewrite rc_cnt_vline, Z2Nat.id by lia. reflexivity. Qed.

(* a Z-type plaquette meets the bottom row in 0 or 2 lattice sites *)
Lemma rp_plaq_lx_even q : rotplanar_is_x_plaquette q = false -> inpb q = true ->
  Z.odd (rc_pairs (filter insb (rp_corners q)) (filter insb rp_lx_sites)) = false.
Proof.
  intros Tq Hq. apply rc_odd_of_mod2_0. rewrite rc_pairs_filter. destruct q as [x y].
  pose proof (rp_z_inpb x y Tq Hq) as Bq. clear Tq Hq.
  change (rp_corners (x, y)) with [(x, y); (x, y + 1); (x + 1, y + 1); (x + 1, y)]. cbn [fold_right].
  rewrite !rc_cnt_filter, !rp_cnt_lx, !rc_b2z_mul, !andb_assoc, !andb_diag. cbn [fst snd].
  assert (Hd : y = 0 \/ y = -1 \/ (y <> 0 /\ y <> -1)) by lia.
  destruct Hd as [-> | [-> | Hd]]; rc_decide_eqb; rewrite ?andb_false_r; cbn [andb Z.b2z];
    rewrite ?rp_insb_unfold; cbn [fst snd]; lia.
Qed.
(* an X-type plaquette meets the rightmost column in 0 or 2 lattice sites *)
Lemma rp_plaq_lz_even p : rotplanar_is_x_plaquette p = true -> inpb p = true ->
  Z.odd (rc_pairs (filter insb (rp_corners p)) (filter insb rp_lz_sites)) = false.
Proof.
  intros Tp Hp. apply rc_odd_of_mod2_0. rewrite rc_pairs_filter. destruct p as [x y].
  pose proof (rp_x_inpb x y Tp Hp) as Bp. clear Tp Hp.
  change (rp_corners (x, y)) with [(x, y); (x, y + 1); (x + 1, y + 1); (x + 1, y)]. cbn [fold_right].
  rewrite !rc_cnt_filter, !rp_cnt_lz, !rc_b2z_mul, !andb_assoc, !andb_diag. cbn [fst snd].
  assert (Hd : x = cols - 1 \/ x = cols - 2 \/ (x <> cols - 1 /\ x <> cols - 2)) by lia.
  destruct Hd as [-> | [-> | Hd]]; rc_decide_eqb; rewrite ?andb_false_r; cbn [andb Z.b2z];
    rewrite ?rp_insb_unfold; cbn [fst snd]; lia.
Qed.
(* the bottom row and the rightmost column share exactly the corner site *)
Lemma rp_lx_lz_odd : Z.odd (rc_pairs (filter insb rp_lx_sites) (filter insb rp_lz_sites)) = true.
Proof.
  unfold rp_lx_sites at 1. replace (Z.to_nat cols) with (S (Z.to_nat (cols - 1))) by lia.
  rewrite rc_zrange_S, map_app, filter_app, rc_pairs_app. cbn [map].
  rewrite rc_pairs_zero.
  - replace (0 + Z.of_nat (Z.to_nat (cols - 1))) with (cols - 1) by lia.
    assert (Hin : insb (cols - 1, 0) = true) by (rewrite rp_insb_unfold; cbn [fst snd]; lia).
    cbn [filter]. rewrite Hin, rc_pairs_cons. cbn [rc_pairs fold_right]. rewrite rc_cnt_filter, rp_cnt_lz, Hin. cbn [fst snd].
    apply rc_odd_of_mod2_1. lia.
  - intros a Ha. apply filter_In in Ha. destruct Ha as [Ha _]. apply in_map_iff in Ha. destruct Ha as (x & <- & Hx).
    apply rc_zrange_In in Hx. rewrite rc_cnt_filter, rp_cnt_lz. cbn [fst snd]. lia.
Qed.

(* ---- the code ---- *)
Definition rp_plaq_op (q : ridx) : pl := if rotplanar_is_z_plaquette q then pZ else pX.
Definition rp_stab (q : ridx) : bsf := rp_sop (rp_plaq_op q) (rp_corners q).
Definition rp_lxop : bsf := rp_sop pX rp_lx_sites.
Definition rp_lzop : bsf := rp_sop pZ rp_lz_sites.
Lemma rp_in_plaquette_indices q : In q (rp_plaquette_indices rows cols) -> inpb q = true.
Proof.
  unfold rp_plaquette_indices. rewrite in_app_iff, !filter_In. tauto.
Qed.
Lemma rp_stabilizers_eq : rp_stabilizers rows cols = map rp_stab (rp_plaquette_indices rows cols).
Proof.
  unfold rp_stabilizers. apply map_ext_in. intros q Hq. apply rp_in_plaquette_indices in Hq.
  unfold rp_plaquette, rp_stab, rp_sop, rp_plaq_op. now rewrite Hq.
Qed.
Lemma rp_code_eq : rotplanar_code rows cols = mkCode (map rp_stab (rp_plaquette_indices rows cols)) [rp_lxop] [rp_lzop].
Proof.
  unfold rotplanar_code. rewrite rp_stabilizers_eq. unfold rp_logical_xs, rp_logical_zs.
  now rewrite rp_logical_x_eq, rp_logical_z_eq.
Qed.

Theorem rotplanar_stabilizers_commute_all p q :
  In p (rp_plaquette_indices rows cols) -> In q (rp_plaquette_indices rows cols) -> bsp (rp_stab p) (rp_stab q) = false.
Proof.
  intros Hp Hq. apply rp_in_plaquette_indices in Hp, Hq. unfold rp_stab, rp_plaq_op, rotplanar_is_z_plaquette.
  destruct (rotplanar_is_x_plaquette p) eqn:Tp, (rotplanar_is_x_plaquette q) eqn:Tq; cbn [negb].
  - rewrite rp_bsp_sop. reflexivity.
  - rewrite rp_bsp_sop. cbv zeta. cbn [xbit zbit andb]. now rewrite rp_plaq_overlap_even.
  - rewrite rp_bsp_sop_sym, rp_bsp_sop. cbv zeta. cbn [xbit zbit andb]. now rewrite rp_plaq_overlap_even.
  - rewrite rp_bsp_sop. reflexivity.
Qed.
Theorem rotplanar_stabilizer_logical_x_all p : In p (rp_plaquette_indices rows cols) -> bsp (rp_stab p) rp_lxop = false.
Proof.
  intros Hp. apply rp_in_plaquette_indices in Hp. unfold rp_stab, rp_lxop, rp_plaq_op, rotplanar_is_z_plaquette.
  rewrite rp_bsp_sop. cbv zeta.
  destruct (rotplanar_is_x_plaquette p) eqn:Tp; cbn [negb xbit zbit andb]; [reflexivity|].
  now rewrite rp_plaq_lx_even.
Qed.
Theorem rotplanar_stabilizer_logical_z_all p : In p (rp_plaquette_indices rows cols) -> bsp (rp_stab p) rp_lzop = false.
Proof.
  intros Hp. apply rp_in_plaquette_indices in Hp. unfold rp_stab, rp_lzop, rp_plaq_op, rotplanar_is_z_plaquette.
  rewrite rp_bsp_sop. cbv zeta.
  destruct (rotplanar_is_x_plaquette p) eqn:Tp; cbn [negb xbit zbit andb]; [|reflexivity].
  now rewrite rp_plaq_lz_even.
Qed.
Theorem rotplanar_logicals_anticommute_all :
  bsp rp_lxop rp_lzop = true /\ bsp rp_lzop rp_lxop = true /\ bsp rp_lxop rp_lxop = false /\ bsp rp_lzop rp_lzop = false.
Proof.
  assert (H : bsp rp_lxop rp_lzop = true).
  { unfold rp_lxop, rp_lzop. rewrite rp_bsp_sop. cbv zeta. cbn [xbit zbit andb]. now rewrite rp_lx_lz_odd. }
  split; [exact H|]. split; [unfold rp_lxop, rp_lzop in *; now rewrite rp_bsp_sop_sym|].
  unfold rp_lxop, rp_lzop. rewrite !rp_bsp_sop. cbv zeta. cbn [xbit zbit andb]. split; reflexivity.
Qed.

Theorem rotplanar_valid_all_sec : validate (rotplanar_code rows cols) = VOk.
Proof.
  apply validate_iff_canonical; [reflexivity|]. rewrite rp_code_eq. cbn [stabs lxs lzs logicals]. split; [|split].
  - intros s s' Hs Hs'. apply in_map_iff in Hs, Hs'. destruct Hs as (p & <- & Hp), Hs' as (q & <- & Hq).
    now apply rotplanar_stabilizers_commute_all.
  - intros s l Hs Hl. apply in_map_iff in Hs. destruct Hs as (p & <- & Hp).
    cbn in Hl. destruct Hl as [<-|[<-|[]]];
      [now apply rotplanar_stabilizer_logical_x_all|now apply rotplanar_stabilizer_logical_z_all].
  - intros i j Hi Hj. cbn in Hi, Hj. assert (i = 0%nat) by lia. assert (j = 0%nat) by lia. subst. cbn [nth Nat.eqb].
    destruct rotplanar_logicals_anticommute_all as (H1 & H2 & H3 & H4). auto.
Qed.
End RotPlanarValid.

(* C07, all sizes: the rotated planar code of every size accepted by the constructor is a valid stabilizer code *)
Theorem rotplanar_valid_all : forall rows cols, 3 <= rows -> 3 <= cols -> validate (rotplanar_code rows cols) = VOk.
Proof. exact rotplanar_valid_all_sec. Qed.
Theorem rotplanar_valid_all_conditions : forall rows cols, 3 <= rows -> 3 <= cols ->
  let c := rotplanar_code rows cols in
  (forall s s', In s (stabs c) -> In s' (stabs c) -> bsp s s' = false) /\
  (forall s l, In s (stabs c) -> In l (logicals c) -> bsp s l = false) /\
  canonical (lxs c) (lzs c).
Proof.
  intros rows cols Hr Hc c. apply (validate_iff_canonical c); [reflexivity|]. now apply rotplanar_valid_all.
Qed.

(* non-vacuity *)
Example rotplanar_valid_all_ex : validate (rotplanar_code 3 14) = VOk /\ validate (rotplanar_code 12 5) = VOk.
Proof. split; apply rotplanar_valid_all; lia. Qed.
