(* Lattice/RotToricDistAll.v — C08 for the rotated toric code, ALL even sizes rows, cols >= 2: the advertised
   d = min(rows, cols) is the true minimum distance ([rottoric_is_distance_all], in the sense of Core/Dist.is_distance;
   [rottoric_distance_all] is RotToricBounded.rottoric_distance_statement).

   1. Translate argument (RotToricRankAll.rottoric_translates).  For an operator e commuting with all stabilizer
      generators, the parity of its X bits along the row y of sites equals bsp e Z1 for EVERY one of the `rows` rows
      (the row translates of the loop Z1 are stabilizer-equivalent), and these rows are pairwise disjoint; so if e
      anticommutes with Z1 it has an X or Y on at least one site of each row: weight >= rows.  Likewise Z2 (columns,
      X bits, weight >= cols), X1 (columns, Z bits, >= cols) and X2 (rows, Z bits, >= rows)
      ([rottoric_anticommute_*_weight], [rottoric_distance_lower_partial]).
   2. Centralizer lemma (RotToricRankAll.rottoric_centralizer): an operator commuting with all stabilizer generators
      and with the four logicals is a product of stabilizer generators.
   3. Hence a non-trivial normalizer element anticommutes with one of the four logicals and 1 applies.  The upper
      bound is RotPlanarAll.rt_logical_weights_all: X1 has weight rows, X2 has weight cols, both non-trivial. *)
From Coq Require Import ZArith Znumtheory List Bool Lia ZifyBool.
From QV Require Import Core.Bits Core.Pauli Core.Symp Core.Code Core.Span Core.Rank Core.Dist Core.DistCSS
  Generated.LatticeArith Lattice.Planar Lattice.PlanarAll Lattice.Toric Lattice.ToricAll
  Lattice.PlanarRankAll Lattice.PlanarDistAll Lattice.ToricRankAll
  Lattice.RotPlanar Lattice.RotToric Lattice.RotPlanarAll Lattice.RotPlanarBounded Lattice.RotPlanarValidAll
  Lattice.RotToricValidAll Lattice.RotToricPathAll Lattice.RotToricBounded Lattice.RotToricRankAll.
Import ListNotations.
Open Scope Z_scope.
Ltac Zify.zify_post_hook ::= Z.to_euclidean_division_equations.

Section RotToricDist.
Variables rows cols : Z.
Hypothesis Hr : 2 <= rows.
Hypothesis Er : rows mod 2 = 0.
Hypothesis Hc : 2 <= cols.
Hypothesis Ec : cols mod 2 = 0.
Notation N := (rt_n rows cols).
Notation PI := (rt_plaquette_indices rows cols).
Notation STABS := (stabs (rottoric_code rows cols)).
Notation m2 := (rt_m2 rows cols).
Notation fl := (rt_flat rows cols).
Notation stab := (rt_stab rows cols).
Notation x1op := (rt_x1 rows cols).
Notation x2op := (rt_x2 rows cols).
Notation z1op := (rt_z1 rows cols).
Notation z2op := (rt_z2 rows cols).
Notation rxat := (RotToricRankAll.rxat rows cols).
Notation rzat := (RotToricRankAll.rzat rows cols).
Notation rnormal := (RotToricRankAll.rnormal rows cols).
Notation inrange := (fun s : ridx => 0 <= fst s < cols /\ 0 <= snd s < rows).

Lemma fl_inj a b : inrange a -> inrange b -> fl a = fl b -> a = b.
Proof.
  intros Ha Hb E. rewrite !(rt_flat_f rows cols) in E.
  assert (Ia : In a PI) by now apply (in_PI_iff rows cols).
  assert (Ib : In b PI) by now apply (in_PI_iff rows cols).
  rewrite (m2_PI rows cols a Ia), (m2_PI rows cols b Ib) in E.
  apply (rt_f_inj rows cols); auto; destruct a, b; apply rt_in_bounds_iff; cbn [fst snd] in *; lia.
Qed.

(* m lines, each hit in a site whose line number is given by kappa: at least m true bits *)
Lemma rsites_hit_count (v : bsf) (kappa : ridx -> Z) : forall m : nat,
  (forall i, 0 <= i < Z.of_nat m -> exists s, inrange s /\ nth (fl s) v false = true /\ kappa s = i) ->
  (m <= count_true v)%nat.
Proof.
  intros m H.
  assert (HL : exists L : list ridx, length L = m /\ NoDup L /\
             forall s, In s L -> inrange s /\ nth (fl s) v false = true /\ 0 <= kappa s < Z.of_nat m).
  { induction m as [|m IH].
    - exists []. split; [reflexivity|]. split; [constructor|]. intros s [].
    - destruct IH as (L & HLl & Hnd & HLs); [intros i Hi; apply H; lia|].
      destruct (H (Z.of_nat m) ltac:(lia)) as (s & Hs1 & Hs2 & Hs3).
      exists (s :: L). split; [cbn; lia|]. split.
      + constructor; auto. intros Hin. apply HLs in Hin. lia.
      + intros s' [<-|Hs']; [split; [exact Hs1|split; [exact Hs2|lia]]|].
        destruct (HLs s' Hs') as (A & B & C). split; [exact A|split; [exact B|lia]]. }
  destruct HL as (L & HLl & Hnd & HLs). rewrite <- HLl, <- (map_length fl L).
  apply count_true_ge_positions.
  - apply NoDup_map_inj_in; auto. intros x y Hx Hy. apply fl_inj; [apply (HLs x Hx)|apply (HLs y Hy)].
  - intros k Hk. apply in_map_iff in Hk. destruct Hk as (s & <- & Hs). apply (HLs s Hs).
Qed.

Lemma psum_true_ex P h : psum P h = true -> exists x, 0 <= x < P /\ h x = true.
Proof.
  unfold psum. intros H. apply xsumb_true_ex in H. destruct H as (i & Hi & Hx). apply in_seq in Hi.
  exists (Z.of_nat i). split; [lia|exact Hx].
Qed.

(* C08, translate argument: a normalizer element anticommuting with one of the four logicals *)
Theorem rottoric_anticommute_z1_weight e : length e = (N + N)%nat -> rnormal e -> bsp e z1op = true ->
  rows <= Z.of_nat (bsf_wt e).
Proof.
  intros He Hn Hb. destruct (rottoric_translates rows cols Hr Er Hc Ec e He Hn) as (T & _ & _ & _).
  assert (HC : (Z.to_nat rows <= count_true (firstn N e))%nat).
  { apply (rsites_hit_count _ (fun s => snd s)). intros i Hi.
    pose proof (T i ltac:(lia)) as H. rewrite Hb in H. apply psum_true_ex in H. destruct H as (x & Hx & Hv).
    exists (x, i). cbn [fst snd]. split; [lia|]. split; [exact Hv|reflexivity]. }
  destruct (parts_weight N e ltac:(lia)) as (_ & _ & W & _). lia.
Qed.
Theorem rottoric_anticommute_z2_weight e : length e = (N + N)%nat -> rnormal e -> bsp e z2op = true ->
  cols <= Z.of_nat (bsf_wt e).
Proof.
  intros He Hn Hb. destruct (rottoric_translates rows cols Hr Er Hc Ec e He Hn) as (_ & T & _ & _).
  assert (HC : (Z.to_nat cols <= count_true (firstn N e))%nat).
  { apply (rsites_hit_count _ (fun s => fst s)). intros i Hi.
    pose proof (T i ltac:(lia)) as H. rewrite Hb in H. apply psum_true_ex in H. destruct H as (y & Hy & Hv).
    exists (i, y). cbn [fst snd]. split; [lia|]. split; [exact Hv|reflexivity]. }
  destruct (parts_weight N e ltac:(lia)) as (_ & _ & W & _). lia.
Qed.
Theorem rottoric_anticommute_x1_weight e : length e = (N + N)%nat -> rnormal e -> bsp e x1op = true ->
  cols <= Z.of_nat (bsf_wt e).
Proof.
  intros He Hn Hb. destruct (rottoric_translates rows cols Hr Er Hc Ec e He Hn) as (_ & _ & T & _).
  assert (HC : (Z.to_nat cols <= count_true (skipn N e))%nat).
  { apply (rsites_hit_count _ (fun s => fst s)). intros i Hi.
    pose proof (T i ltac:(lia)) as H. rewrite Hb in H. apply psum_true_ex in H. destruct H as (y & Hy & Hv).
    exists (i, y). cbn [fst snd]. split; [lia|]. split; [exact Hv|reflexivity]. }
  destruct (parts_weight N e ltac:(lia)) as (_ & _ & _ & W). lia.
Qed.
Theorem rottoric_anticommute_x2_weight e : length e = (N + N)%nat -> rnormal e -> bsp e x2op = true ->
  rows <= Z.of_nat (bsf_wt e).
Proof.
  intros He Hn Hb. destruct (rottoric_translates rows cols Hr Er Hc Ec e He Hn) as (_ & _ & _ & T).
  assert (HC : (Z.to_nat rows <= count_true (skipn N e))%nat).
  { apply (rsites_hit_count _ (fun s => snd s)). intros i Hi.
    pose proof (T i ltac:(lia)) as H. rewrite Hb in H. apply psum_true_ex in H. destruct H as (x & Hx & Hv).
    exists (x, i). cbn [fst snd]. split; [lia|]. split; [exact Hv|reflexivity]. }
  destruct (parts_weight N e ltac:(lia)) as (_ & _ & _ & W). lia.
Qed.

(* the lower bound for every normalizer element that anticommutes with a supplied logical *)
Theorem rottoric_distance_lower_partial e : length e = (N + N)%nat -> normalizer STABS e ->
  bsp e x1op = true \/ bsp e x2op = true \/ bsp e z1op = true \/ bsp e z2op = true ->
  Z.min rows cols <= Z.of_nat (bsf_wt e).
Proof.
  intros He Hn Hb. apply (rnormal_normalizer rows cols Hr Hc) in Hn. destruct Hb as [Hb|[Hb|[Hb|Hb]]].
  - pose proof (rottoric_anticommute_x1_weight e He Hn Hb). lia.
  - pose proof (rottoric_anticommute_x2_weight e He Hn Hb). lia.
  - pose proof (rottoric_anticommute_z1_weight e He Hn Hb). lia.
  - pose proof (rottoric_anticommute_z2_weight e He Hn Hb). lia.
Qed.

(* ... hence, with the centralizer lemma, for every normalizer element outside the span of the generators *)
Theorem rottoric_distance_lower e : length e = (N + N)%nat -> normalizer STABS e -> ~ in_spanP (N + N) STABS e ->
  Z.min rows cols <= Z.of_nat (bsf_wt e).
Proof.
  intros He Hn Hs.
  destruct (bsp e x1op) eqn:E1; [apply rottoric_distance_lower_partial; auto|].
  destruct (bsp e x2op) eqn:E2; [apply rottoric_distance_lower_partial; auto|].
  destruct (bsp e z1op) eqn:E3; [apply rottoric_distance_lower_partial; auto|].
  destruct (bsp e z2op) eqn:E4; [apply rottoric_distance_lower_partial; auto|].
  exfalso. apply Hs. now apply (rottoric_centralizer rows cols Hr Er Hc Ec).
Qed.

(* the supplied logicals X1, X2 are normalizer elements outside the span of the stabilizer generators *)
Lemma rlogical_normalizer l : length l = (N + N)%nat -> (forall q, bsp (stab q) l = false) -> normalizer STABS l.
Proof.
  intros Hl H. apply (rnormal_normalizer rows cols Hr Hc). intros q Hq.
  rewrite bsp_sym by (rewrite ?Hl, ?(stab_length rows cols); auto using (even_NN rows cols)). apply H.
Qed.
Lemma stabs_commute_with l : (forall q, bsp (stab q) l = false) -> forall s, In s STABS -> bsp s l = false.
Proof.
  intros H s Hs. rewrite (rstabs_eq rows cols Hr Hc) in Hs. apply in_map_iff in Hs. destruct Hs as (q & <- & _). apply H.
Qed.
Lemma rx1op_nontrivial : nontrivial N STABS x1op.
Proof.
  assert (E2 : (2 * N = N + N)%nat) by lia. unfold nontrivial. rewrite E2.
  pose proof (rottoric_stabilizer_logicals_all rows cols Hr Er Hc Ec) as SL.
  split; [apply (sop_length rows cols)|]. split.
  - apply rlogical_normalizer; [apply (sop_length rows cols)|]. intros q. apply (SL q).
  - intros Hin.
    destruct (rottoric_logical_values rows cols Hr Er Hc Ec) as (V1 & _).
    rewrite (span_commutes (N + N) STABS z1op (rstabs_rowlen rows cols Hr Hc)) in V1; [discriminate| |exact Hin].
    apply stabs_commute_with. intros q. apply (SL q).
Qed.
Lemma rx2op_nontrivial : nontrivial N STABS x2op.
Proof.
  assert (E2 : (2 * N = N + N)%nat) by lia. unfold nontrivial. rewrite E2.
  pose proof (rottoric_stabilizer_logicals_all rows cols Hr Er Hc Ec) as SL.
  split; [apply (sop_length rows cols)|]. split.
  - apply rlogical_normalizer; [apply (sop_length rows cols)|]. intros q. apply (SL q).
  - intros Hin.
    destruct (rottoric_logical_values rows cols Hr Er Hc Ec) as (_ & _ & _ & _ & _ & V6 & _).
    rewrite (span_commutes (N + N) STABS z2op (rstabs_rowlen rows cols Hr Hc)) in V6; [discriminate| |exact Hin].
    apply stabs_commute_with. intros q. apply (SL q).
Qed.
Lemma rx1op_weight : bsf_wt x1op = Z.to_nat rows.
Proof.
  destruct (rt_logical_weights_all rows cols ltac:(lia) ltac:(lia)) as (W1 & _).
  unfold rt_logical_x1 in W1. rewrite (rt_column0_eq rows cols Hr) in W1. exact W1.
Qed.
Lemma rx2op_weight : bsf_wt x2op = Z.to_nat cols.
Proof.
  destruct (rt_logical_weights_all rows cols ltac:(lia) ltac:(lia)) as (_ & W2 & _).
  unfold rt_logical_x2 in W2. rewrite (rt_row0_eq rows cols Hc) in W2. exact W2.
Qed.

(* C08 for the rotated toric code: min(rows, cols) is the minimum weight of a non-trivial logical operator *)
Theorem rottoric_is_distance : is_distance N STABS (Z.to_nat (Z.min rows cols)).
Proof.
  assert (E2 : (2 * N = N + N)%nat) by lia. split.
  - destruct (Z.le_ge_cases rows cols) as [Hle|Hge].
    + exists x1op. split; [apply rx1op_nontrivial|rewrite rx1op_weight; lia].
    + exists x2op. split; [apply rx2op_nontrivial|rewrite rx2op_weight; lia].
  - intros v (Hl & Hn & Hs). rewrite E2 in Hl, Hs.
    pose proof (rottoric_distance_lower v Hl Hn Hs). lia.
Qed.
End RotToricDist.

(* ================================================================== *)
(** * Closed statements for all admissible sizes (rows, cols even, >= 2) *)
(* ================================================================== *)
(* every non-trivial normalizer element weighs >= min(rows, cols) *)
Definition rottoric_distance_lower_statement : Prop :=
  forall rows cols, 2 <= rows -> rows mod 2 = 0 -> 2 <= cols -> cols mod 2 = 0 ->
  forall e : bsf, length e = (rt_n rows cols + rt_n rows cols)%nat ->
    (forall s, In s (stabs (rottoric_code rows cols)) -> bsp e s = false) ->
    (forall sel, xsum (rt_n rows cols + rt_n rows cols) (select sel (stabs (rottoric_code rows cols))) <> e) ->
    Z.min rows cols <= Z.of_nat (bsf_wt e).
(* the lower bound follows from the centralizer lemma alone (kept as a separately usable implication) *)
Theorem rottoric_distance_lower_from_centralizer : rottoric_centralizer_statement -> rottoric_distance_lower_statement.
Proof.
  intros HC rows cols Hr Er Hc Ec e He Hn Hs.
  destruct (bsp e (rt_x1 rows cols)) eqn:E1; [apply (rottoric_distance_lower_partial rows cols Hr Er Hc Ec e He Hn); auto|].
  destruct (bsp e (rt_x2 rows cols)) eqn:E2; [apply (rottoric_distance_lower_partial rows cols Hr Er Hc Ec e He Hn); auto|].
  destruct (bsp e (rt_z1 rows cols)) eqn:E3; [apply (rottoric_distance_lower_partial rows cols Hr Er Hc Ec e He Hn); auto|].
  destruct (bsp e (rt_z2 rows cols)) eqn:E4; [apply (rottoric_distance_lower_partial rows cols Hr Er Hc Ec e He Hn); auto|].
  exfalso. destruct (HC rows cols Hr Er Hc Ec e He Hn E1 E2 E3 E4) as (cs & _ & Hl). rewrite lincomb_select in Hl. exact (Hs cs Hl).
Qed.
Theorem rottoric_distance_lower_all : rottoric_distance_lower_statement.
Proof. exact (rottoric_distance_lower_from_centralizer rottoric_centralizer). Qed.

(* C08 for the rotated toric code, every size: the advertised d = min(rows, cols) is the true minimum distance *)
Theorem rottoric_is_distance_all : forall rows cols, 2 <= rows -> rows mod 2 = 0 -> 2 <= cols -> cols mod 2 = 0 ->
  is_distance (rt_n rows cols) (stabs (rottoric_code rows cols)) (Z.to_nat (Z.min rows cols)).
Proof. exact rottoric_is_distance. Qed.
Theorem rottoric_is_distance_nkd : forall rows cols, 2 <= rows -> rows mod 2 = 0 -> 2 <= cols -> cols mod 2 = 0 ->
  let '(n, k, d) := rottoric_n_k_d rows cols in
  is_distance (Z.to_nat n) (stabs (rottoric_code rows cols)) (Z.to_nat d).
Proof. intros rows cols Hr Er Hc Ec. unfold rottoric_n_k_d. cbv beta iota zeta. now apply rottoric_is_distance_all. Qed.
(* the statement left open in RotToricBounded.v, now a theorem *)
Theorem rottoric_distance_all : rottoric_distance_statement.
Proof. intros rows cols Hr Er Hc Ec. unfold rc_dist. now apply rottoric_is_distance_nkd. Qed.

(* non-vacuity on a 4 x 6 lattice *)
Example rottoric_is_distance_4x6 : is_distance 24 (stabs (rottoric_code 4 6)) 4.
Proof. exact (rottoric_is_distance_all 4 6 ltac:(lia) ltac:(reflexivity) ltac:(lia) ltac:(reflexivity)). Qed.
Example rottoric_is_distance_6x4 : is_distance 24 (stabs (rottoric_code 6 4)) 4.
Proof. exact (rottoric_is_distance_all 6 4 ltac:(lia) ltac:(reflexivity) ltac:(lia) ltac:(reflexivity)). Qed.
(* a weight-4 normalizer element anticommuting with Z1: the hypotheses of [rottoric_anticommute_z1_weight] hold *)
Example rottoric_lower_hyps_4x6 :
  let e := rt_x1 4 6 in
  length e = 48%nat /\ normalizerb (stabs (rottoric_code 4 6)) e = true /\ bsp e (rt_z1 4 6) = true /\ bsf_wt e = 4%nat.
Proof. vm_compute. repeat split; reflexivity. Qed.

Print Assumptions rottoric_distance_lower_all.
Print Assumptions rottoric_is_distance_all.
Print Assumptions rottoric_distance_all.
