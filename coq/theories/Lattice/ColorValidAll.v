(* Lattice/ColorValidAll.v — validate (color_code size) = VOk for ALL odd size >= 3.
   Part 1  the hand-modelled c6_flatten is injective on the in-lattice sites and lands below n, for every size
           (rows r = 3k + j start at 3k^2+k, 3k^2+3k+1, 3k^2+5k+2).
   Part 2  sparse view (generic layer of RotPlanarValidAll.v): two hexagons share 0, 2, or (the same hexagon) 4 / 6
           lattice sites; a hexagon meets the column c = 0 in 0 or 2 sites; that column carries `size` sites. *)
From Coq Require Import ZArith List Bool Lia ZifyBool.
From QV Require Import Core.Bits Core.Pauli Core.Symp Core.Code Generated.LatticeArith
  Lattice.RotPlanar Lattice.Color Lattice.RotPlanarAll Lattice.RotPlanarValidAll.
Import ListNotations.
Open Scope Z_scope.
Ltac Zify.zify_post_hook ::= Z.to_euclidean_division_equations.

Notation ridx := (Z * Z)%type.

(* ================================================================== *)
(** * Part 1 — c6_flatten                                              *)
(* ================================================================== *)
(* number of sites in the rows above row r *)
Definition c6_rowstart (r : Z) : Z := ((2 * r + 1) ^ 2 + 3) / 12.
Lemma c6_rowstart_0 k : c6_rowstart (3 * k) = 3 * (k * k) + k.
Proof. unfold c6_rowstart. symmetry. apply (Z.div_unique _ 12 _ 4); [lia|ring]. Qed.
Lemma c6_rowstart_1 k : c6_rowstart (3 * k + 1) = 3 * (k * k) + 3 * k + 1.
Proof. unfold c6_rowstart. symmetry. apply (Z.div_unique _ 12 _ 0); [lia|ring]. Qed.
Lemma c6_rowstart_2 k : c6_rowstart (3 * k + 2) = 3 * (k * k) + 5 * k + 2.
Proof. unfold c6_rowstart. symmetry. apply (Z.div_unique _ 12 _ 4); [lia|ring]. Qed.
Lemma c6_rowstart_3 k : c6_rowstart (3 * k + 3) = 3 * (k * k) + 7 * k + 4.
Proof. replace (3 * k + 3) with (3 * (k + 1)) by lia. rewrite c6_rowstart_0. ring. Qed.
Lemma c6_flatten_unfold r c : c6_flatten (r, c) = c6_rowstart r + (2 * c + (2 - r mod 3)) / 3.
Proof. reflexivity. Qed.

Definition c6_isite (r c : Z) : Prop := (r + c) mod 3 <> 2 /\ 0 <= c <= r.
(* a site of row r is numbered inside [rowstart r, rowstart (r+1)) *)
Lemma c6_split3 r : 0 <= r -> exists k j, r = 3 * k + j /\ 0 <= k /\ (j = 0 \/ j = 1 \/ j = 2).
Proof. intros Hr. exists (r / 3), (r mod 3). lia. Qed.
Lemma c6_flatten_row r c : c6_isite r c -> c6_rowstart r <= c6_flatten (r, c) < c6_rowstart (r + 1).
Proof.
  intros [Hs Hb]. rewrite c6_flatten_unfold.
  destruct (c6_split3 r ltac:(lia)) as (k & j & -> & Hk & [-> | [-> | ->]]).
  - replace (3 * k + 0) with (3 * k) in * by lia. rewrite c6_rowstart_0, c6_rowstart_1. lia.
  - replace (3 * k + 1 + 1) with (3 * k + 2) by lia. rewrite c6_rowstart_1, c6_rowstart_2. lia.
  - replace (3 * k + 2 + 1) with (3 * k + 3) by lia. rewrite c6_rowstart_2, c6_rowstart_3. lia.
Qed.
Lemma c6_rowstart_step r : 0 <= r -> c6_rowstart r < c6_rowstart (r + 1).
Proof.
  intros Hr. destruct (c6_split3 r Hr) as (k & j & -> & Hk & [-> | [-> | ->]]).
  - replace (3 * k + 0) with (3 * k) in * by lia. rewrite c6_rowstart_0, c6_rowstart_1. lia.
  - replace (3 * k + 1 + 1) with (3 * k + 2) by lia. rewrite c6_rowstart_1, c6_rowstart_2. lia.
  - replace (3 * k + 2 + 1) with (3 * k + 3) by lia. rewrite c6_rowstart_2, c6_rowstart_3. lia.
Qed.
Lemma c6_rowstart_mono r r' : 0 <= r -> r <= r' -> c6_rowstart r <= c6_rowstart r'.
Proof.
  intros Hr Hle. replace r' with (r + Z.of_nat (Z.to_nat (r' - r))) by lia.
  generalize (Z.to_nat (r' - r)). intros d. induction d as [|d IH]; [replace (r + Z.of_nat 0) with r by lia; lia|].
  replace (r + Z.of_nat (S d)) with (r + Z.of_nat d + 1) by lia.
  pose proof (c6_rowstart_step (r + Z.of_nat d) ltac:(lia)). lia.
Qed.
Theorem c6_flatten_injective_all r c r' c' : c6_isite r c -> c6_isite r' c' ->
  c6_flatten (r, c) = c6_flatten (r', c') -> (r, c) = (r', c').
Proof.
  intros Hs Hs' E. pose proof (c6_flatten_row r c Hs) as B. pose proof (c6_flatten_row r' c' Hs') as B'.
  assert (Hr : r = r').
  { destruct (Z.lt_trichotomy r r') as [Hlt | [Heq | Hgt]]; [exfalso|exact Heq|exfalso].
    - pose proof (c6_rowstart_mono (r + 1) r' ltac:(unfold c6_isite in *; lia) ltac:(lia)). lia.
    - pose proof (c6_rowstart_mono (r' + 1) r ltac:(unfold c6_isite in *; lia) ltac:(lia)). lia. }
  subst r'. f_equal. rewrite !c6_flatten_unfold in E. destruct Hs as [Hs Hb], Hs' as [Hs' Hb']. lia.
Qed.

Lemma c6_sum_ones {A} (f : A -> Z) (L : list A) : (forall a, In a L -> f a = 1) ->
  fold_right (fun a acc => f a + acc) 0 L = Z.of_nat (length L).
Proof.
  induction L as [|a L IH]; intros H; [reflexivity|]. cbn [fold_right length].
  rewrite H, IH by (cbn; auto; intros; apply H; cbn; auto). lia.
Qed.
Lemma c6_site_unfold0 i : color_is_site i = negb ((fst i + snd i) mod 3 =? 2).
Proof.
  destruct i as [r c]. unfold color_is_site, color_is_plaquette. cbn [fst snd].
  destruct (Z.eqb_spec (c mod 3) (2 - r mod 3)), (Z.eqb_spec ((r + c) mod 3) 2); cbn; auto; lia.
Qed.
(* the column c = 0 of a lattice with bound 3M carries 2M+1 sites *)
Lemma c6_col_len M : length (filter color_is_site (map (fun r => (r, 0)) (rc_zrange 0 (3 * M + 1)))) = (2 * M + 1)%nat.
Proof.
  induction M as [|M IH]; [reflexivity|].
  replace (3 * S M + 1)%nat with (S (S (S (3 * M + 1)))) by lia.
  rewrite !rc_zrange_S, !map_app, !filter_app, !app_length, IH. cbn [map filter].
  rewrite !c6_site_unfold0. cbn [fst snd].
  replace ((0 + Z.of_nat (3 * M + 1) + 0) mod 3 =? 2) with false by (symmetry; apply Z.eqb_neq; lia).
  replace ((0 + Z.of_nat (S (3 * M + 1)) + 0) mod 3 =? 2) with true by (symmetry; apply Z.eqb_eq; lia).
  replace ((0 + Z.of_nat (S (S (3 * M + 1))) + 0) mod 3 =? 2) with false by (symmetry; apply Z.eqb_neq; lia).
  cbn [negb length]. lia.
Qed.

(* ================================================================== *)
(** * Part 2 — the code                                                *)
(* ================================================================== *)
Section ColorValid.
Variables size m : Z.
Hypothesis Hm : 1 <= m.
Hypothesis Hsize : size = 2 * m + 1.

Notation inb := (color_is_in_bounds size).
Notation CN := (c6_n size).
Lemma c6_bound_eq : color_bound size = 3 * m.
Proof. unfold color_bound. subst size. lia. Qed.
Lemma c6_n_eq : Z.of_nat CN = 3 * (m * m) + 3 * m + 1.
Proof.
  unfold c6_n, color_n_k_d. subst size. rewrite Z2Nat.id.
  - symmetry. apply (Z.div_unique _ 4 _ 0); [lia|ring].
  - apply Z.div_pos; [|lia]. nia.
Qed.
Lemma c6_inb_unfold i : inb i = ((0 <=? snd i) && (snd i <=? fst i) && (fst i <=? 3 * m)).
Proof. destruct i as [r c]. unfold color_is_in_bounds. rewrite c6_bound_eq. reflexivity. Qed.
Lemma c6_site_unfold i : color_is_site i = negb ((fst i + snd i) mod 3 =? 2).
Proof.
  destruct i as [r c]. unfold color_is_site, color_is_plaquette. cbn [fst snd].
  destruct (Z.eqb_spec (c mod 3) (2 - r mod 3)), (Z.eqb_spec ((r + c) mod 3) 2); cbn; auto; lia.
Qed.
Lemma c6_plaq_unfold i : color_is_plaquette i = ((fst i + snd i) mod 3 =? 2).
Proof. pose proof (c6_site_unfold i) as H. unfold color_is_site in H. now destruct (color_is_plaquette i), (_ =? 2). Qed.
Lemma c6_isite_of i : color_is_site i = true -> inb i = true -> c6_isite (fst i) (snd i).
Proof. rewrite c6_site_unfold, c6_inb_unfold. unfold c6_isite. lia. Qed.

Definition c6_fl (i : ridx) : nat := Z.to_nat (c6_flatten i).
Definition c6_keys (L : list ridx) : list nat := map c6_fl (filter inb L).
Definition c6_all_sites (L : list ridx) : Prop := forall a, In a L -> color_is_site a = true.

Lemma c6_sites_keys op L : c6_all_sites L -> forall p, c6_sites size op L p = Some (rc_apply_flips op (c6_keys L) p).
Proof.
  induction L as [|i L IH]; intros HL p.
  - destruct p. unfold rc_apply_flips, c6_keys. cbn. destruct (xbit op), (zbit op); reflexivity.
  - cbn [c6_sites]. unfold c6_site. rewrite (HL i) by (cbn; auto). cbn [negb].
    unfold c6_keys. cbn [filter]. destruct (inb i); cbn [map].
    + rewrite rc_apply_flips_cons. apply IH. intros a Ha. apply HL. cbn; auto.
    + apply IH. intros a Ha. apply HL. cbn; auto.
Qed.
Lemma c6_flatten_range_sec i : color_is_site i = true -> inb i = true -> 0 <= c6_flatten i < Z.of_nat CN.
Proof.
  intros Hs Hb. pose proof (c6_isite_of i Hs Hb) as Hi. destruct i as [r c]. cbn [fst snd] in Hi.
  pose proof (c6_flatten_row r c Hi) as [H0 H1]. rewrite c6_inb_unfold in Hb. cbn [fst snd] in Hb.
  pose proof (c6_rowstart_mono (r + 1) (3 * m + 1) ltac:(unfold c6_isite in Hi; lia) ltac:(lia)) as Hmono.
  rewrite c6_rowstart_1 in Hmono.
  assert (0 <= c6_rowstart r) by (unfold c6_rowstart; apply Z.div_pos; nia).
  pose proof c6_n_eq. lia.
Qed.
Definition c6_sop (op : pl) (L : list ridx) : bsf := rc_gop CN op (c6_keys L).
Lemma c6_keys_klt L : c6_all_sites L -> rc_klt CN (c6_keys L).
Proof.
  intros HL k Hk. unfold c6_keys in Hk. apply in_map_iff in Hk. destruct Hk as (i & <- & Hi). apply filter_In in Hi.
  destruct Hi as [Hi Hb]. pose proof (c6_isite_of i (HL i Hi) Hb) as Hs. destruct i as [r c]. cbn [fst snd] in Hs.
  pose proof (c6_flatten_row r c Hs) as [H0 H1].
  rewrite c6_inb_unfold in Hb. cbn [fst snd] in Hb.
  pose proof (c6_rowstart_mono (r + 1) (3 * m + 1) ltac:(unfold c6_isite in Hs; lia) ltac:(lia)) as Hmono.
  rewrite c6_rowstart_1 in Hmono.
  assert (0 <= c6_rowstart r) by (unfold c6_rowstart; apply Z.div_pos; nia).
  unfold c6_fl. pose proof c6_n_eq. lia.
Qed.
Theorem c6_bsp_sop opA A opB B : c6_all_sites A -> c6_all_sites B ->
  bsp (c6_sop opA A) (c6_sop opB B) =
  let P := Z.odd (rc_pairs (filter inb A) (filter inb B)) in
  xorb (zbit opA && xbit opB && P) (xbit opA && zbit opB && P).
Proof.
  intros HA HB. unfold c6_sop. rewrite rc_bsp_gop by now apply c6_keys_klt. unfold c6_keys.
  rewrite rc_ovk_pairs; [reflexivity|].
  intros a b Ha Hb Hf. apply filter_In in Ha, Hb. destruct Ha as [Ha Hia], Hb as [Hb Hib].
  pose proof (c6_isite_of a (HA a Ha) Hia) as Sa. pose proof (c6_isite_of b (HB b Hb) Hib) as Sb.
  destruct a as [r c], b as [r' c']. cbn [fst snd] in *. apply c6_flatten_injective_all; auto.
  pose proof (c6_flatten_row r c Sa). pose proof (c6_flatten_row r' c' Sb).
  assert (0 <= c6_rowstart r) by (unfold c6_rowstart; apply Z.div_pos; nia).
  assert (0 <= c6_rowstart r') by (unfold c6_rowstart; apply Z.div_pos; nia).
  unfold c6_fl in Hf. lia.
Qed.
Lemma c6_bsp_sop_sym opA A opB B : bsp (c6_sop opA A) (c6_sop opB B) = bsp (c6_sop opB B) (c6_sop opA A).
Proof. apply rc_bsp_gop_sym. Qed.

(* ---- counting ---- *)
Definition c6_hex (s q : ridx) : bool :=
  let dr := fst s - fst q in let dc := snd s - snd q in
  ((dr =? -1) && (dc =? -1)) || ((dr =? -1) && (dc =? 0)) || ((dr =? 0) && (dc =? -1)) ||
  ((dr =? 0) && (dc =? 1)) || ((dr =? 1) && (dc =? 0)) || ((dr =? 1) && (dc =? 1)).
Ltac c6_decide_eqb :=
  repeat match goal with
  | |- context [?a =? ?b] =>
      first [ replace (a =? b) with true by (symmetry; apply Z.eqb_eq; lia)
            | replace (a =? b) with false by (symmetry; apply Z.eqb_neq; lia) ]
  end.

Lemma c6_cnt_nbrs s q : rc_cnt s (c6_neighbours q) = Z.b2z (c6_hex s q).
Proof.
  destruct s as [a b], q as [r c]. unfold c6_neighbours, c6_hex, rc_cnt, rc_idx_eqb. cbn [fold_right fst snd].
  assert (Hd : a = r - 1 \/ a = r \/ a = r + 1 \/ (a <> r - 1 /\ a <> r /\ a <> r + 1)) by lia.
  assert (Hd2 : b = c - 1 \/ b = c \/ b = c + 1 \/ (b <> c - 1 /\ b <> c /\ b <> c + 1)) by lia.
  destruct Hd as [-> | [-> | [-> | Hd]]]; destruct Hd2 as [-> | [-> | [-> | Hd2]]];
    c6_decide_eqb; reflexivity.
Qed.
(* two hexagons of the lattice (possibly the same one) share an even number of lattice sites *)
Lemma c6_hex_overlap_even p q :
  color_is_plaquette p = true -> color_is_plaquette q = true -> inb p = true -> inb q = true ->
  Z.odd (rc_pairs (filter inb (c6_neighbours p)) (filter inb (c6_neighbours q))) = false.
Proof.
  intros Tp Tq Bp Bq. apply rc_odd_of_mod2_0. rewrite rc_pairs_filter. destruct p as [r c], q as [r' c'].
  rewrite c6_plaq_unfold in Tp, Tq. rewrite c6_inb_unfold in Bp, Bq. cbn [fst snd] in Tp, Tq, Bp, Bq.
  apply Z.eqb_eq in Tp, Tq.
  assert (Bp' : 0 <= c <= r /\ r <= 3 * m) by lia. assert (Bq' : 0 <= c' <= r' /\ r' <= 3 * m) by lia. clear Bp Bq.
  change (c6_neighbours (r, c)) with [(r - 1, c - 1); (r - 1, c); (r, c - 1); (r, c + 1); (r + 1, c); (r + 1, c + 1)].
  cbn [fold_right]. rewrite !rc_cnt_filter, !c6_cnt_nbrs, !rc_b2z_mul, !andb_assoc, !andb_diag.
  unfold c6_hex. cbn [fst snd].
  assert (Hd : r' = r - 2 \/ r' = r - 1 \/ r' = r \/ r' = r + 1 \/ r' = r + 2 \/ (r' < r - 2 \/ r + 2 < r')) by lia.
  assert (Hd2 : c' = c - 2 \/ c' = c - 1 \/ c' = c \/ c' = c + 1 \/ c' = c + 2 \/ (c' < c - 2 \/ c + 2 < c')) by lia.
  destruct Hd as [-> | [-> | [-> | [-> | [-> | Hd]]]]]; destruct Hd2 as [-> | [-> | [-> | [-> | [-> | Hd2]]]]];
    try (exfalso; clear Bp' Bq'; lia);
    c6_decide_eqb; cbn [orb andb]; rewrite ?andb_true_r, ?andb_false_r; cbn [Z.b2z];
    rewrite ?c6_inb_unfold; cbn [fst snd]; lia.
Qed.

(* ---- the logical operators: the sites of column c = 0 ---- *)
Notation c6_col := (c6_column0 size).
Lemma c6_col_sites : c6_all_sites c6_col.
Proof. intros a Ha. unfold c6_column0 in Ha. apply filter_In in Ha. tauto. Qed.
Lemma c6_cnt_col s : rc_cnt s c6_col =
  Z.b2z (color_is_site s) * Z.b2z ((snd s =? 0) && (0 <=? fst s) && (fst s <? 3 * m + 1)).
Proof.
  unfold c6_column0, rc_range. rewrite rc_cnt_filter, c6_bound_eq, rc_cnt_hline, Z2Nat.id by lia.
  now replace (3 * m + 1 - 0) with (3 * m + 1) by lia.
Qed.
Lemma c6_hex_col_even q : color_is_plaquette q = true -> inb q = true ->
  Z.odd (rc_pairs (filter inb (c6_neighbours q)) (filter inb c6_col)) = false.
Proof.
  intros Tq Bq. apply rc_odd_of_mod2_0. rewrite rc_pairs_filter. destruct q as [r c].
  rewrite c6_plaq_unfold in Tq. rewrite c6_inb_unfold in Bq. cbn [fst snd] in Tq, Bq. apply Z.eqb_eq in Tq.
  assert (Bq' : 0 <= c <= r /\ r <= 3 * m) by lia. clear Bq.
  change (c6_neighbours (r, c)) with [(r - 1, c - 1); (r - 1, c); (r, c - 1); (r, c + 1); (r + 1, c); (r + 1, c + 1)].
  cbn [fold_right]. rewrite !rc_cnt_filter, !c6_cnt_col, !c6_site_unfold, !c6_inb_unfold. cbn [fst snd].
  assert (Hd : c = 0 \/ c = 1 \/ 2 <= c) by lia.
  destruct Hd as [-> | [-> | Hd]]; c6_decide_eqb; cbn [negb andb Z.b2z]; rewrite ?andb_false_r; cbn [Z.b2z]; lia.
Qed.
Lemma c6_col_col_odd : Z.odd (rc_pairs (filter inb c6_col) (filter inb c6_col)) = true.
Proof.
  rewrite rc_pairs_filter. rewrite (c6_sum_ones _ c6_col).
  - unfold c6_column0, rc_range. rewrite c6_bound_eq.
    replace (Z.to_nat (3 * m + 1 - 0)) with (3 * Z.to_nat m + 1)%nat by lia. rewrite c6_col_len.
    apply rc_odd_of_mod2_1. lia.
  - intros a Ha. rewrite rc_cnt_filter, c6_cnt_col. pose proof (c6_col_sites a Ha) as Hs. rewrite Hs.
    unfold c6_column0 in Ha. apply filter_In in Ha. destruct Ha as [Ha _]. apply in_map_iff in Ha.
    destruct Ha as (r & <- & Hr). apply rc_range_In in Hr. rewrite c6_bound_eq in Hr.
    rewrite c6_inb_unfold. cbn [fst snd]. lia.
Qed.

(* ---- the code ---- *)
Definition c6_stab (op : pl) (q : ridx) : bsf := c6_sop op (c6_neighbours q).
Definition c6_lop (op : pl) : bsf := c6_sop op c6_col.
Lemma c6_nbrs_sites q : color_is_plaquette q = true -> c6_all_sites (c6_neighbours q).
Proof.
  intros Hq a Ha. pose proof (c6_neighbours_sites q Hq) as H. rewrite forallb_forall in H. now apply H.
Qed.
Lemma c6_in_plaquette_indices q : In q (c6_plaquette_indices size) -> color_is_plaquette q = true /\ inb q = true.
Proof. unfold c6_plaquette_indices. rewrite filter_In, andb_true_iff. tauto. Qed.
Lemma c6_row_plaquette op q : color_is_plaquette q = true ->
  c6_row (c6_plaquette size op q (c6_identity size)) = c6_stab op q.
Proof.
  intros Hq. unfold c6_plaquette. rewrite Hq. cbn [negb]. rewrite c6_sites_keys by now apply c6_nbrs_sites. reflexivity.
Qed.
Lemma c6_row_logical op : c6_row (c6_logical size op (c6_identity size)) = c6_lop op.
Proof. unfold c6_logical. rewrite c6_sites_keys by apply c6_col_sites. reflexivity. Qed.
Lemma c6_code_eq : color_code size =
  mkCode (map (c6_stab pX) (c6_plaquette_indices size) ++ map (c6_stab pZ) (c6_plaquette_indices size))
         [c6_lop pX] [c6_lop pZ].
Proof.
  unfold color_code, c6_stabilizers, c6_logical_xs, c6_logical_zs. rewrite !c6_row_logical. f_equal. f_equal;
    apply map_ext_in; intros q Hq; apply c6_row_plaquette; now apply c6_in_plaquette_indices.
Qed.

Lemma c6_stab_commute opA p opB q : (opA = pX \/ opA = pZ) -> (opB = pX \/ opB = pZ) ->
  In p (c6_plaquette_indices size) -> In q (c6_plaquette_indices size) ->
  bsp (c6_stab opA p) (c6_stab opB q) = false.
Proof.
  intros HA HB Hp Hq. apply c6_in_plaquette_indices in Hp, Hq. destruct Hp as [Tp Bp], Hq as [Tq Bq].
  unfold c6_stab. rewrite c6_bsp_sop by now apply c6_nbrs_sites. cbv zeta.
  rewrite c6_hex_overlap_even by auto. now rewrite !andb_false_r.
Qed.
Lemma c6_stab_logical opA p opB : In p (c6_plaquette_indices size) -> bsp (c6_stab opA p) (c6_lop opB) = false.
Proof.
  intros Hp. apply c6_in_plaquette_indices in Hp. destruct Hp as [Tp Bp].
  unfold c6_stab, c6_lop. rewrite c6_bsp_sop by (auto using c6_nbrs_sites, c6_col_sites). cbv zeta.
  rewrite c6_hex_col_even by auto. now rewrite !andb_false_r.
Qed.

Theorem color_valid_all_sec : validate (color_code size) = VOk.
Proof.
  apply validate_iff_canonical; [reflexivity|]. rewrite c6_code_eq. cbn [stabs lxs lzs logicals]. split; [|split].
  - intros s s' Hs Hs'. apply in_app_iff in Hs, Hs'.
    destruct Hs as [Hs|Hs], Hs' as [Hs'|Hs']; apply in_map_iff in Hs, Hs';
      destruct Hs as (p & <- & Hp), Hs' as (q & <- & Hq); apply c6_stab_commute; auto.
  - intros s l Hs Hl. apply in_app_iff in Hs. cbn [In app] in Hl.
    destruct Hs as [Hs|Hs]; apply in_map_iff in Hs; destruct Hs as (p & <- & Hp);
      destruct Hl as [<-|[<-|[]]]; now apply c6_stab_logical.
  - intros i j Hi Hj. cbn [length] in Hi, Hj. assert (i = 0%nat) by lia. assert (j = 0%nat) by lia. subst. cbn [nth Nat.eqb].
    unfold c6_lop. rewrite !c6_bsp_sop by apply c6_col_sites. cbv zeta. rewrite c6_col_col_odd. cbn. auto.
Qed.
End ColorValid.

(* C07, all sizes: the colour 6.6.6 code of every size accepted by the constructor is a valid stabilizer code *)
Theorem color_valid_all : forall size, 3 <= size -> size mod 2 = 1 -> validate (color_code size) = VOk.
Proof.
  intros size Hs Ho. apply (color_valid_all_sec size (size / 2)); lia.
Qed.
Theorem color_valid_all_conditions : forall size, 3 <= size -> size mod 2 = 1 ->
  let c := color_code size in
  (forall s s', In s (stabs c) -> In s' (stabs c) -> bsp s s' = false) /\
  (forall s l, In s (stabs c) -> In l (logicals c) -> bsp s l = false) /\
  canonical (lxs c) (lzs c).
Proof.
  intros size Hs Ho c. apply (validate_iff_canonical c); [reflexivity|]. now apply color_valid_all.
Qed.
(* the flatten bijection for every size (the bounded version is ColorBounded.color_flatten_bijective_upto_21) *)
Theorem color_flatten_injective_all : forall size i j,
  color_is_site i = true -> color_is_in_bounds size i = true ->
  color_is_site j = true -> color_is_in_bounds size j = true ->
  c6_flatten i = c6_flatten j -> i = j.
Proof.
  intros size [r c] [r' c'] Si Bi Sj Bj E. apply c6_flatten_injective_all; auto.
  - rewrite c6_site_unfold0 in Si. unfold color_is_in_bounds in Bi. unfold c6_isite. cbn [fst snd] in *. lia.
  - rewrite c6_site_unfold0 in Sj. unfold color_is_in_bounds in Bj. unfold c6_isite. cbn [fst snd] in *. lia.
Qed.

Theorem color_flatten_range_all : forall size i, 3 <= size -> size mod 2 = 1 ->
  color_is_site i = true -> color_is_in_bounds size i = true ->
  0 <= c6_flatten i < fst (fst (color_n_k_d size)).
Proof.
  intros size i Hs Ho Si Bi. pose proof (c6_flatten_range_sec size (size / 2) ltac:(lia) ltac:(lia) i Si Bi) as H.
  unfold c6_n in H. destruct (color_n_k_d size) as [[n k] d]. cbn [fst]. lia.
Qed.

(* non-vacuity *)
Example color_valid_all_ex : validate (color_code 25) = VOk.
Proof. apply color_valid_all; reflexivity || lia. Qed.
