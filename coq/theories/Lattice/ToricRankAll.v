(* Lattice/ToricRankAll.v — C07 for the toric code, ALL sizes rows, cols >= 2:
     [toric_rank_is_all]   the 2*rows*cols stabilizer generators have GF(2) rank n - k = n - 2 (the only
                           dependencies are: product of all vertex operators = product of all plaquette
                           operators = identity), and together with the four logical operators rank n + k = n + 2;
     [toric_centralizer]   an operator commuting with every stabilizer generator and with the four logical
                           operators is a product of stabilizer generators (even of the n - 2 generators other
                           than the two at position (0, 0)).

   Method.  Components: [xat e s] / [zat e s] are the X / Z bits of e at site s; the symplectic product with a
   Z-type (X-type) site-list operator reads the X (Z) bits on its sites.  Commutation with the primal (dual)
   plaquettes is a four-term relation on the X (Z) bits; summing it along a row or a column of plaquettes shows
   that the parity of the bits along a row / column of sites of one sublattice does not depend on the row /
   column (the translates of a logical loop are stabilizer-equivalent).  If these four parities vanish, the bits
   are the coboundary of an explicit potential on the torus Z_rows x Z_cols ([Potential]), i.e. e is the product of
   the plaquettes selected by the potential; the potential vanishes at (0, 0).
   Independence of the n - 2 generators: dual vectors = paths to the plaquette at (0, 0) (ToricAll.
   toric_path_syndrome_bit) through PlanarRankAll.dual_independent. *)
From Coq Require Import ZArith List Bool Lia ZifyBool.
From QV Require Import Core.Bits Core.Pauli Core.Symp Core.Code Core.Span Core.Rank Core.Dist Core.DistCSS
  Generated.LatticeArith Lattice.Planar Lattice.PlanarAll Lattice.Toric Lattice.ToricAll
  Lattice.PlanarRankAll Lattice.PlanarDistAll.
Import ListNotations.
Open Scope Z_scope.
Ltac Zify.zify_post_hook ::= Z.to_euclidean_division_equations.

(* ------------------------------------------------------------------ *)
(** * Generic lemmas                                                   *)
(* ------------------------------------------------------------------ *)
Lemma xsumb_seq_shift (f : nat -> bool) k : xsumb f (seq 1 k) = xsumb (fun j => f (S j)) (seq 0 k).
Proof. rewrite <- seq_shift, xsumb_map. reflexivity. Qed.
Lemma xsumb_seq_head (f : nat -> bool) k : xsumb f (seq 0 (S k)) = xorb (f 0%nat) (xsumb (fun j => f (S j)) (seq 0 k)).
Proof. cbn [seq xsumb]. now rewrite xsumb_seq_shift. Qed.

(* sums over Z_m are invariant under the cyclic shifts *)
Lemma xsumb_cyc_dec (f : Z -> bool) (m : nat) :
  xsumb (fun j => f (dec (Z.of_nat m) (Z.of_nat j))) (seq 0 m) = xsumb (fun j => f (Z.of_nat j)) (seq 0 m).
Proof.
  destruct m as [|k]; [reflexivity|]. rewrite xsumb_seq_head, xsumb_seq_S.
  rewrite xorb_comm. f_equal.
  - apply xsumb_ext. intros j Hj. apply in_seq in Hj. unfold dec. f_equal.
    destruct (Z.eqb_spec (Z.of_nat (S j)) 0); lia.
  - unfold dec. f_equal. destruct (Z.eqb_spec (Z.of_nat 0) 0); lia.
Qed.
Lemma xsumb_cyc_inc (f : Z -> bool) (m : nat) :
  xsumb (fun j => f (inc (Z.of_nat m) (Z.of_nat j))) (seq 0 m) = xsumb (fun j => f (Z.of_nat j)) (seq 0 m).
Proof.
  destruct m as [|k]; [reflexivity|]. rewrite xsumb_seq_S, xsumb_seq_head.
  rewrite xorb_comm. f_equal.
  - unfold inc. f_equal. destruct (Z.eqb_spec (Z.of_nat k + 1) (Z.of_nat (S k))); lia.
  - apply xsumb_ext. intros j Hj. apply in_seq in Hj. unfold inc. f_equal.
    destruct (Z.eqb_spec (Z.of_nat j + 1) (Z.of_nat (S k))); lia.
Qed.

Ltac case_if := repeat match goal with |- context [if ?b then _ else _] => destruct b eqn:? end.
Lemma inc_range m x : 0 <= x < m -> 0 <= inc m x < m.
Proof. unfold inc. case_if; lia. Qed.
Lemma dec_range m x : 0 <= x < m -> 0 <= dec m x < m.
Proof. unfold dec. case_if; lia. Qed.
Lemma inc_dec m x : 0 <= x < m -> inc m (dec m x) = x.
Proof. unfold dec. destruct (Z.eqb_spec x 0); unfold inc; case_if; lia. Qed.
Lemma dec_inc m x : 0 <= x < m -> dec m (inc m x) = x.
Proof. unfold inc. destruct (Z.eqb_spec (x + 1) m); unfold dec; case_if; lia. Qed.

Lemma filter_filter_impl {A} (g k : A -> bool) L : (forall a, In a L -> g a = true -> k a = true) ->
  filter g (filter k L) = filter g L.
Proof.
  induction L as [|a L IH]; intros H; cbn [filter]; [reflexivity|].
  destruct (k a) eqn:Ek; cbn [filter].
  - rewrite IH by (intros; apply H; cbn; auto). reflexivity.
  - destruct (g a) eqn:Eg; [rewrite (H a) in Ek by (cbn; auto); discriminate|].
    apply IH. intros; apply H; cbn; auto.
Qed.
Lemma select_map_filter2 {A B} (f : A -> B) (g : A -> bool) L : select (map g L) (map f L) = map f (filter g L).
Proof. induction L as [|a L IH]; cbn [map filter select]; auto. destruct (g a); cbn [map]; now rewrite IH. Qed.

(* span is monotone in the generating family *)
Lemma lincomb_app_rows n : forall cs1 g1 cs2 g2, length cs1 = length g1 -> rowlen n g1 -> rowlen n g2 ->
  lincomb n (cs1 ++ cs2) (g1 ++ g2) = xorv (lincomb n cs1 g1) (lincomb n cs2 g2).
Proof.
  induction cs1 as [|c cs1 IH]; intros [|g g1] cs2 g2 HL H1 H2; cbn [length] in HL; try lia.
  - cbn [app lincomb]. rewrite xorv_zeros_l; [reflexivity|]. destruct cs2; [apply zeros_length|]. now apply lincomb_length.
  - cbn [app lincomb]. inversion H1 as [|? ? Hg Hg1]; subst. rewrite IH by (auto; lia).
    destruct c; [now rewrite xorv_assoc|reflexivity].
Qed.
Lemma lincomb_nil_cs n gens : lincomb n [] gens = zeros n.
Proof. reflexivity. Qed.
Lemma in_spanP_app_l n g1 g2 v : rowlen n g1 -> rowlen n g2 -> in_spanP n g1 v -> in_spanP n (g1 ++ g2) v.
Proof.
  intros H1 H2 (cs & HL & <-). exists (cs ++ zeros (length g2)). split; [rewrite !app_length, zeros_length; lia|].
  rewrite lincomb_app_rows by auto. rewrite lincomb_zeros. rewrite <- (lincomb_length n cs g1 H1) at 2. apply xorv_zeros_r.
Qed.
Lemma in_spanP_app_r n g1 g2 v : rowlen n g1 -> rowlen n g2 -> in_spanP n g2 v -> in_spanP n (g1 ++ g2) v.
Proof.
  intros H1 H2 (cs & HL & <-). exists (zeros (length g1) ++ cs). split; [rewrite !app_length, zeros_length; lia|].
  rewrite lincomb_app_rows by (auto; apply zeros_length). rewrite lincomb_zeros. apply xorv_zeros_l. now apply lincomb_length.
Qed.

(* ------------------------------------------------------------------ *)
(** * A potential on the torus Z_R x Z_C                               *)
(*    u r c : the bit on the edge between (r - 1, c) and (r, c); v r c : the bit on the edge between
      (r, c - 1) and (r, c).  Closed (every plaquette sum vanishes) + vanishing holonomies => coboundary. *)
(* ------------------------------------------------------------------ *)
Section Potential.
Variables R C : Z.
Hypothesis HR : 1 <= R.
Hypothesis HC : 1 <= C.
Variables u v : Z -> Z -> bool.
Hypothesis closed : forall r c, 0 <= r < R -> 0 <= c < C ->
  xorb (u r c) (u r (dec C c)) = xorb (v r c) (v (dec R r) c).
Hypothesis hol_r : xsumb (fun i => u (Z.of_nat i) 0) (seq 0 (Z.to_nat R)) = false.
Hypothesis hol_c : forall r, 0 <= r < R -> xsumb (fun j => v r (Z.of_nat j)) (seq 0 (Z.to_nat C)) = false.

Definition potU (r : Z) : bool := xsumb (fun i => u (Z.of_nat i + 1) 0) (seq 0 (Z.to_nat r)).
Definition potV (r c : Z) : bool := xsumb (fun j => v r (Z.of_nat j + 1)) (seq 0 (Z.to_nat c)).
Definition pot (r c : Z) : bool := xorb (potU r) (potV r c).

Lemma pot_origin : pot 0 0 = false.
Proof. reflexivity. Qed.

Lemma potV_step r c : 1 <= c -> potV r c = xorb (potV r (c - 1)) (v r c).
Proof.
  intros Hc. unfold potV. replace (Z.to_nat c) with (S (Z.to_nat (c - 1))) by lia. rewrite xsumb_seq_S.
  do 2 f_equal. lia.
Qed.
Lemma potU_step r : 1 <= r -> potU r = xorb (potU (r - 1)) (u r 0).
Proof.
  intros Hr. unfold potU. replace (Z.to_nat r) with (S (Z.to_nat (r - 1))) by lia. rewrite xsumb_seq_S.
  do 2 f_equal. lia.
Qed.
Lemma potV_full r : 0 <= r < R -> potV r (C - 1) = v r 0.
Proof.
  intros Hr. pose proof (hol_c r Hr) as H. replace (Z.to_nat C) with (S (Z.to_nat (C - 1))) in H by lia.
  rewrite xsumb_seq_head in H. unfold potV.
  rewrite (xsumb_ext _ (fun j => v r (Z.of_nat (S j))) (seq 0 (Z.to_nat (C - 1)))).
  - change (Z.of_nat 0) with 0 in H. destruct (v r 0), (xsumb (fun j => v r (Z.of_nat (S j))) (seq 0 (Z.to_nat (C - 1)))); cbn in *; congruence.
  - intros j _. f_equal. lia.
Qed.
Lemma potU_full : potU (R - 1) = u 0 0.
Proof.
  pose proof hol_r as H. replace (Z.to_nat R) with (S (Z.to_nat (R - 1))) in H by lia.
  rewrite xsumb_seq_head in H. unfold potU.
  rewrite (xsumb_ext _ (fun i => u (Z.of_nat (S i)) 0) (seq 0 (Z.to_nat (R - 1)))).
  - change (Z.of_nat 0) with 0 in H. destruct (u 0 0), (xsumb (fun i => u (Z.of_nat (S i)) 0) (seq 0 (Z.to_nat (R - 1)))); cbn in *; congruence.
  - intros i _. f_equal. lia.
Qed.

(* difference along a row *)
Theorem pot_dc r c : 0 <= r < R -> 0 <= c < C -> xorb (pot r c) (pot r (dec C c)) = v r c.
Proof using HR HC closed hol_r hol_c.
  intros Hr Hc. unfold pot, dec. destruct (Z.eqb_spec c 0) as [->|Hne].
  - rewrite potV_full by auto. change (potV r 0) with false. now destruct (potU r), (v r 0).
  - rewrite (potV_step r c) by lia. now destruct (potU r), (potV r (c - 1)), (v r c).
Qed.

(* the column differences telescope *)
Lemma potV_dr r : 0 <= r < R -> forall k : nat, Z.of_nat k < C ->
  xorb (potV r (Z.of_nat k)) (potV (dec R r) (Z.of_nat k)) = xorb (u r (Z.of_nat k)) (u r 0).
Proof.
  intros Hr. induction k as [|k IH]; intros Hk.
  - change (potV r (Z.of_nat 0)) with false. change (potV (dec R r) (Z.of_nat 0)) with false.
    change (Z.of_nat 0) with 0. now destruct (u r 0).
  - rewrite (potV_step r), (potV_step (dec R r)) by lia.
    replace (Z.of_nat (S k) - 1) with (Z.of_nat k) by lia.
    pose proof (closed r (Z.of_nat (S k)) Hr ltac:(lia)) as Hcl.
    replace (dec C (Z.of_nat (S k))) with (Z.of_nat k) in Hcl by (unfold dec; case_if; lia).
    specialize (IH ltac:(lia)).
    destruct (potV r (Z.of_nat k)), (potV (dec R r) (Z.of_nat k)), (u r (Z.of_nat k)), (u r 0),
      (v r (Z.of_nat (S k))), (v (dec R r) (Z.of_nat (S k))), (u r (Z.of_nat (S k))); cbn in *; congruence.
Qed.
Lemma potU_dr r : 0 <= r < R -> xorb (potU r) (potU (dec R r)) = u r 0.
Proof.
  intros Hr. unfold dec. destruct (Z.eqb_spec r 0) as [->|Hne].
  - rewrite potU_full. change (potU 0) with false. now destruct (u 0 0).
  - rewrite (potU_step r) by lia. now destruct (potU (r - 1)), (u r 0).
Qed.

(* difference along a column *)
Theorem pot_dr r c : 0 <= r < R -> 0 <= c < C -> xorb (pot r c) (pot (dec R r) c) = u r c.
Proof using HR HC closed hol_r hol_c.
  intros Hr Hc. unfold pot. pose proof (potU_dr r Hr) as H1. pose proof (potV_dr r Hr (Z.to_nat c) ltac:(lia)) as H2.
  rewrite Z2Nat.id in H2 by lia.
  destruct (potU r), (potU (dec R r)), (potV r c), (potV (dec R r) c), (u r c), (u r 0); cbn in *; congruence.
Qed.
End Potential.

(* ------------------------------------------------------------------ *)
(** * Sums that pick out one or two elements of a duplicate-free list  *)
(* ------------------------------------------------------------------ *)
Section Pick.
Context {I : Type}.
Variable ieqb : I -> I -> bool.
Hypothesis ieqb_eq : forall a b, ieqb a b = true <-> a = b.
Lemma ieqb_refl a : ieqb a a = true.
Proof. now apply ieqb_eq. Qed.
Lemma xsumb_pick1 (g : I -> bool) q1 : forall L, NoDup L -> In q1 L -> xsumb (fun q => g q && ieqb q q1) L = g q1.
Proof.
  induction L as [|a L IH]; intros Hnd Hin; [destruct Hin|]. cbn [xsumb].
  inversion Hnd as [|? ? Hn Hnd']; subst. destruct Hin as [->|Hin].
  - rewrite ieqb_refl, andb_true_r. rewrite (xsumb_ext _ (fun _ => false)), xsumb_false; [apply xorb_false_r|].
    intros q Hq. destruct (ieqb q q1) eqn:E; [|apply andb_false_r]. apply ieqb_eq in E. subst. contradiction.
  - rewrite IH by auto. destruct (ieqb a q1) eqn:E; [apply ieqb_eq in E; subst; contradiction|].
    rewrite andb_false_r. apply xorb_false_l.
Qed.
Lemma xsumb_pick2 (g F : I -> bool) q1 q2 L : NoDup L -> In q1 L -> In q2 L ->
  (forall q, In q L -> F q = xorb (ieqb q q1) (ieqb q q2)) ->
  xsumb (fun q => g q && F q) L = xorb (g q1) (g q2).
Proof.
  intros Hnd H1 H2 HF. rewrite <- (xsumb_pick1 g q1 L Hnd H1), <- (xsumb_pick1 g q2 L Hnd H2), <- xsumb_xorb.
  apply xsumb_ext. intros q Hq. rewrite (HF q Hq). now destruct (g q), (ieqb q q1), (ieqb q q2).
Qed.
End Pick.

Lemma xsumb4 {A} (a b c d : A -> bool) L :
  xsumb (fun j => xorb (a j) (xorb (b j) (xorb (c j) (xorb (d j) false)))) L =
  xorb (xorb (xsumb a L) (xsumb b L)) (xorb (xsumb c L) (xsumb d L)).
Proof.
  induction L as [|x L IH]; cbn [xsumb]; [reflexivity|]. rewrite IH.
  now destruct (a x), (b x), (c x), (d x), (xsumb a L), (xsumb b L), (xsumb c L), (xsumb d L).
Qed.

(* a function on Z_m invariant under the successor (predecessor) is constant *)
Lemma const_inc (g : Z -> bool) m : (forall x, 0 <= x < m -> g x = g (inc m x)) -> forall x, 0 <= x < m -> g x = g 0.
Proof.
  intros H x Hx. replace x with (Z.of_nat (Z.to_nat x)) by lia. assert (Hk : Z.of_nat (Z.to_nat x) < m) by lia.
  induction (Z.to_nat x) as [|k IH]; [reflexivity|]. rewrite <- IH by lia. rewrite (H (Z.of_nat k)) by lia.
  f_equal. unfold inc. case_if; lia.
Qed.
Lemma const_dec (g : Z -> bool) m : (forall x, 0 <= x < m -> g (dec m x) = g x) -> forall x, 0 <= x < m -> g x = g 0.
Proof.
  intros H x Hx. replace x with (Z.of_nat (Z.to_nat x)) by lia. assert (Hk : Z.of_nat (Z.to_nat x) < m) by lia.
  induction (Z.to_nat x) as [|k IH]; [reflexivity|]. rewrite <- IH by lia. rewrite <- (H (Z.of_nat (S k))) by lia.
  f_equal. unfold dec. case_if; lia.
Qed.

(* ------------------------------------------------------------------ *)
(** * The toric code                                                   *)
(* ------------------------------------------------------------------ *)
Section ToricRank.
Variables rows cols : Z.
Hypothesis Hr : 2 <= rows.
Hypothesis Hc : 2 <= cols.
Notation N := (toric_n rows cols).
Notation TI := (tindices rows cols).
Notation STABS := (stabs (toric_code rows cols)).
Notation always := (fun _ : tidx => true).
Notation tfl := (ToricAll.tfl rows cols).
Notation m3 := (ToricAll.m3 rows cols).
Notation tsop := (ToricAll.tsop rows cols).
Notation tstab := (ToricAll.tstab rows cols).
Notation inrange := (ToricAll.inrange rows cols).
Notation psites := (ToricAll.psites rows cols).
Notation dsites := (ToricAll.dsites rows cols).
Notation csites := (ToricAll.csites rows cols).
Notation x1op := (ToricAll.x1op rows cols).
Notation x2op := (ToricAll.x2op rows cols).
Notation z1op := (ToricAll.z1op rows cols).
Notation z2op := (ToricAll.z2op rows cols).

(* ---------- the index list ---------- *)
Lemma NoDup_tindices : NoDup TI.
Proof.
  unfold tindices, tshape, ndindex3. apply NoDup_flat_map_disj.
  - apply seq_NoDup.
  - intros l _. apply NoDup_map_inj_in; [|apply NoDup_ndindex2]. intros [x1 y1] [x2 y2] _ _ H. cbn [fst snd] in H. congruence.
  - intros x y b _ _ Hx Hy. apply in_map_iff in Hx, Hy. destruct Hx as (rc1 & <- & _), Hy as (rc2 & E & _).
    injection E as E _ _. lia.
Qed.
Lemma tindices_iff q : In q TI <-> inrange q.
Proof.
  split; [apply in_tindices|]. destruct q as [[l r] c]. unfold ToricAll.inrange. cbn [fst snd]. intros (H1 & H2 & H3).
  unfold tindices, tshape, ndindex3. apply in_flat_map. exists (Z.to_nat l). split; [apply in_seq; lia|].
  apply in_map_iff. exists (r, c). cbn [fst snd]. split; [f_equal; f_equal; lia|]. apply in_ndindex2. lia.
Qed.
Lemma in_TI l r c : (l = 0 \/ l = 1) -> 0 <= r < rows -> 0 <= c < cols -> In (l, r, c) TI.
Proof. intros Hl H1 H2. apply tindices_iff. unfold ToricAll.inrange. cbn [fst snd]. lia. Qed.
Lemma tindices_length : length TI = N.
Proof.
  unfold tindices, tshape, ndindex3, toric_n.
  assert (H : forall L : list nat, length (flat_map (fun l => map (fun rc : Z * Z => (Z.of_nat l, fst rc, snd rc)) (ndindex2 rows cols)) L)
              = (length L * length (ndindex2 rows cols))%nat).
  { induction L as [|a L IH]; cbn [flat_map length]; auto. rewrite app_length, map_length, IH. lia. }
  rewrite H, seq_length, ndindex2_length. nia.
Qed.

(* ---------- components ---------- *)
Definition txat (e : bsf) (s : tidx) : bool := nth (tfl s) (firstn N e) false.
Definition tzat (e : bsf) (s : tidx) : bool := nth (tfl s) (skipn N e) false.

Lemma even_TNN : Nat.even (N + N) = true.
Proof. replace (N + N)%nat with (2 * N)%nat by lia. apply Nat.even_spec. now exists N. Qed.
Lemma thalves e : length e = (N + N)%nat -> halves e = (firstn N e, skipn N e).
Proof. intros H. apply halves_2n. lia. Qed.
Lemma tfl_m3 s : tfl (m3 s) = tfl s.
Proof. unfold ToricAll.tfl. now rewrite (m3_idem rows cols Hr Hc). Qed.
Lemma txat_m3 e s : txat e (m3 s) = txat e s.
Proof. unfold txat. now rewrite tfl_m3. Qed.
Lemma tzat_m3 e s : tzat e (m3 s) = tzat e s.
Proof. unfold tzat. now rewrite tfl_m3. Qed.

(* the symplectic product with a Z-type (X-type) site-list operator reads the X (Z) components on its sites *)
Lemma bsp_e_tsopZ e L : length e = (N + N)%nat -> bsp e (tsop pZ L) = xsumb (txat e) L.
Proof.
  intros He. unfold bsp, swap_halves. rewrite (thalves e He).
  change (tsop pZ L) with (gop always tfl N pZ L). rewrite gop_parts.
  assert (L1 : length (skipn N e) = N) by (rewrite skipn_length; lia).
  assert (L2 : length (firstn N e) = N) by (rewrite firstn_length; lia).
  unfold PlanarAll.xpart, PlanarAll.zpart. cbn [xbit zbit].
  rewrite dot_app by now rewrite zeros_length. rewrite dot_zeros_r, xorb_false_l.
  rewrite dot_comm, dot_flips.
  - rewrite dot_zeros_l, xorb_false_r. unfold keys. rewrite xsumb_map, filter_always. reflexivity.
  - now rewrite zeros_length.
  - intros k Hk. rewrite zeros_length. eapply keys_lt; [|exact Hk]. apply (tklt rows cols Hr Hc).
Qed.
Lemma bsp_e_tsopX e L : length e = (N + N)%nat -> bsp e (tsop pX L) = xsumb (tzat e) L.
Proof.
  intros He. unfold bsp, swap_halves. rewrite (thalves e He).
  change (tsop pX L) with (gop always tfl N pX L). rewrite gop_parts.
  assert (L1 : length (skipn N e) = N) by (rewrite skipn_length; lia).
  assert (L2 : length (firstn N e) = N) by (rewrite firstn_length; lia).
  unfold PlanarAll.xpart, PlanarAll.zpart. cbn [xbit zbit].
  rewrite dot_app by now rewrite flips_length, zeros_length. rewrite dot_zeros_r, xorb_false_r.
  rewrite dot_comm, dot_flips.
  - rewrite dot_zeros_l, xorb_false_r. unfold keys. rewrite xsumb_map, filter_always. reflexivity.
  - now rewrite zeros_length.
  - intros k Hk. rewrite zeros_length. eapply keys_lt; [|exact Hk]. apply (tklt rows cols Hr Hc).
Qed.
Lemma xsumb_m3 (f : tidx -> bool) L : (forall s, f (m3 s) = f s) -> xsumb f (map m3 L) = xsumb f L.
Proof. intros H. rewrite xsumb_map. apply xsumb_ext. intros; apply H. Qed.

Lemma tstab_length q : length (tstab q) = (N + N)%nat.
Proof. apply tsop_length. Qed.

(* commutation with a plaquette operator = four-term relation on the components *)
Lemma stab_primal_sum e r c : length e = (N + N)%nat -> 0 <= r < rows -> 0 <= c < cols ->
  bsp e (tstab (0, r, c)) = xsumb (txat e) (psites r c).
Proof.
  intros He H1 H2. unfold ToricAll.tstab. destruct (tplaq_sites_primal rows cols r c H1 H2) as [E ->].
  rewrite bsp_e_tsopZ by auto. rewrite <- E. symmetry. apply xsumb_m3. apply txat_m3.
Qed.
Lemma stab_dual_sum e r c : length e = (N + N)%nat -> 0 <= r < rows -> 0 <= c < cols ->
  bsp e (tstab (1, r, c)) = xsumb (tzat e) (dsites r c).
Proof.
  intros He H1 H2. unfold ToricAll.tstab. destruct (tplaq_sites_dual rows cols r c H1 H2) as [E ->].
  rewrite bsp_e_tsopX by auto. rewrite <- E. symmetry. apply xsumb_m3. apply tzat_m3.
Qed.

(* e commutes with every stabilizer generator *)
Definition tnormal (e : bsf) : Prop := forall q, In q TI -> bsp e (tstab q) = false.
Lemma tnormal_normalizer e : tnormal e <-> normalizer STABS e.
Proof.
  unfold tnormal, normalizer. rewrite tcode_eq. cbn [stabs]. split.
  - intros H s Hs. apply in_map_iff in Hs. destruct Hs as (q & <- & Hq). auto.
  - intros H q Hq. apply H. now apply in_map.
Qed.

(* ---------- parities along rows and columns of one sublattice ---------- *)
Definition rowp (f : tidx -> bool) (l r : Z) : bool := xsumb (fun j => f (l, r, Z.of_nat j)) (seq 0 (Z.to_nat cols)).
Definition colp (f : tidx -> bool) (l c : Z) : bool := xsumb (fun i => f (l, Z.of_nat i, c)) (seq 0 (Z.to_nat rows)).
Definition Pc (f : tidx -> bool) : Prop := forall r c, 0 <= r < rows -> 0 <= c < cols -> xsumb f (psites r c) = false.
Definition Dc (f : tidx -> bool) : Prop := forall r c, 0 <= r < rows -> 0 <= c < cols -> xsumb f (dsites r c) = false.

Lemma cyc_inc_cols (f : Z -> bool) :
  xsumb (fun j => f (inc cols (Z.of_nat j))) (seq 0 (Z.to_nat cols)) = xsumb (fun j => f (Z.of_nat j)) (seq 0 (Z.to_nat cols)).
Proof. pose proof (xsumb_cyc_inc f (Z.to_nat cols)) as H. rewrite Z2Nat.id in H by lia. exact H. Qed.
Lemma cyc_dec_cols (f : Z -> bool) :
  xsumb (fun j => f (dec cols (Z.of_nat j))) (seq 0 (Z.to_nat cols)) = xsumb (fun j => f (Z.of_nat j)) (seq 0 (Z.to_nat cols)).
Proof. pose proof (xsumb_cyc_dec f (Z.to_nat cols)) as H. rewrite Z2Nat.id in H by lia. exact H. Qed.
Lemma cyc_inc_rows (f : Z -> bool) :
  xsumb (fun j => f (inc rows (Z.of_nat j))) (seq 0 (Z.to_nat rows)) = xsumb (fun j => f (Z.of_nat j)) (seq 0 (Z.to_nat rows)).
Proof. pose proof (xsumb_cyc_inc f (Z.to_nat rows)) as H. rewrite Z2Nat.id in H by lia. exact H. Qed.

Lemma sum_zero_rows (F : Z -> bool) : (forall i, 0 <= i < rows -> F i = false) ->
  xsumb (fun i => F (Z.of_nat i)) (seq 0 (Z.to_nat rows)) = false.
Proof. intros H. rewrite (xsumb_ext _ (fun _ => false)), xsumb_false; auto. intros i Hi. apply in_seq in Hi. apply H. lia. Qed.
Lemma sum_zero_cols (F : Z -> bool) : (forall j, 0 <= j < cols -> F j = false) ->
  xsumb (fun j => F (Z.of_nat j)) (seq 0 (Z.to_nat cols)) = false.
Proof. intros H. rewrite (xsumb_ext _ (fun _ => false)), xsumb_false; auto. intros i Hi. apply in_seq in Hi. apply H. lia. Qed.

Lemma rowp0_step f r : Pc f -> 0 <= r < rows -> rowp f 0 r = rowp f 0 (inc rows r).
Proof.
  intros HP H1. pose proof (sum_zero_cols (fun j => xsumb f (psites r j)) (fun j Hj => HP r j H1 Hj)) as T.
  unfold ToricAll.psites in T. cbn [xsumb] in T. rewrite xsumb4 in T.
  assert (E : xsumb (fun j => f (1, r, inc cols (Z.of_nat j))) (seq 0 (Z.to_nat cols)) =
              xsumb (fun j => f (1, r, Z.of_nat j)) (seq 0 (Z.to_nat cols))) by apply (cyc_inc_cols (fun x => f (1, r, x))).
  rewrite E in T. unfold rowp.
  destruct (xsumb (fun j => f (0, r, Z.of_nat j)) (seq 0 (Z.to_nat cols))),
    (xsumb (fun j => f (0, inc rows r, Z.of_nat j)) (seq 0 (Z.to_nat cols))),
    (xsumb (fun j => f (1, r, Z.of_nat j)) (seq 0 (Z.to_nat cols))); cbn in T; congruence.
Qed.
Lemma colp1_step f c : Pc f -> 0 <= c < cols -> colp f 1 c = colp f 1 (inc cols c).
Proof.
  intros HP H1. pose proof (sum_zero_rows (fun i => xsumb f (psites i c)) (fun i Hi => HP i c Hi H1)) as T.
  unfold ToricAll.psites in T. cbn [xsumb] in T. rewrite xsumb4 in T.
  assert (E : xsumb (fun i => f (0, inc rows (Z.of_nat i), c)) (seq 0 (Z.to_nat rows)) =
              xsumb (fun i => f (0, Z.of_nat i, c)) (seq 0 (Z.to_nat rows))) by apply (cyc_inc_rows (fun x => f (0, x, c))).
  rewrite E in T. unfold colp.
  destruct (xsumb (fun i => f (0, Z.of_nat i, c)) (seq 0 (Z.to_nat rows))),
    (xsumb (fun i => f (1, Z.of_nat i, c)) (seq 0 (Z.to_nat rows))),
    (xsumb (fun i => f (1, Z.of_nat i, inc cols c)) (seq 0 (Z.to_nat rows))); cbn in T; congruence.
Qed.
Lemma colp0_step f c : Dc f -> 0 <= c < cols -> colp f 0 (dec cols c) = colp f 0 c.
Proof.
  intros HD H1. pose proof (sum_zero_rows (fun i => xsumb f (dsites i c)) (fun i Hi => HD i c Hi H1)) as T.
  unfold ToricAll.dsites in T. cbn [xsumb] in T. rewrite xsumb4 in T.
  assert (E1 : xsumb (fun i => f (1, inc rows (Z.of_nat i), c)) (seq 0 (Z.to_nat rows)) =
               xsumb (fun i => f (1, Z.of_nat i, c)) (seq 0 (Z.to_nat rows))) by apply (cyc_inc_rows (fun x => f (1, x, c))).
  assert (E2 : xsumb (fun i => f (0, inc rows (Z.of_nat i), dec cols c)) (seq 0 (Z.to_nat rows)) =
               xsumb (fun i => f (0, Z.of_nat i, dec cols c)) (seq 0 (Z.to_nat rows))) by apply (cyc_inc_rows (fun x => f (0, x, dec cols c))).
  assert (E3 : xsumb (fun i => f (0, inc rows (Z.of_nat i), c)) (seq 0 (Z.to_nat rows)) =
               xsumb (fun i => f (0, Z.of_nat i, c)) (seq 0 (Z.to_nat rows))) by apply (cyc_inc_rows (fun x => f (0, x, c))).
  rewrite E1, E2, E3 in T. unfold colp.
  destruct (xsumb (fun i => f (1, Z.of_nat i, c)) (seq 0 (Z.to_nat rows))),
    (xsumb (fun i => f (0, Z.of_nat i, dec cols c)) (seq 0 (Z.to_nat rows))),
    (xsumb (fun i => f (0, Z.of_nat i, c)) (seq 0 (Z.to_nat rows))); cbn in T; congruence.
Qed.
Lemma rowp1_step f r : Dc f -> 0 <= r < rows -> rowp f 1 r = rowp f 1 (inc rows r).
Proof.
  intros HD H1. pose proof (sum_zero_cols (fun j => xsumb f (dsites r j)) (fun j Hj => HD r j H1 Hj)) as T.
  unfold ToricAll.dsites in T. cbn [xsumb] in T. rewrite xsumb4 in T.
  assert (E : xsumb (fun j => f (0, inc rows r, dec cols (Z.of_nat j))) (seq 0 (Z.to_nat cols)) =
              xsumb (fun j => f (0, inc rows r, Z.of_nat j)) (seq 0 (Z.to_nat cols)))
    by apply (cyc_dec_cols (fun x => f (0, inc rows r, x))).
  rewrite E in T. unfold rowp.
  destruct (xsumb (fun j => f (1, r, Z.of_nat j)) (seq 0 (Z.to_nat cols))),
    (xsumb (fun j => f (1, inc rows r, Z.of_nat j)) (seq 0 (Z.to_nat cols))),
    (xsumb (fun j => f (0, inc rows r, Z.of_nat j)) (seq 0 (Z.to_nat cols))); cbn in T; congruence.
Qed.

Lemma rowp0_const f r : Pc f -> 0 <= r < rows -> rowp f 0 r = rowp f 0 0.
Proof. intros HP. apply (const_inc (rowp f 0) rows). intros x Hx. now apply rowp0_step. Qed.
Lemma colp1_const f c : Pc f -> 0 <= c < cols -> colp f 1 c = colp f 1 0.
Proof. intros HP. apply (const_inc (colp f 1) cols). intros x Hx. now apply colp1_step. Qed.
Lemma colp0_const f c : Dc f -> 0 <= c < cols -> colp f 0 c = colp f 0 0.
Proof. intros HD. apply (const_dec (colp f 0) cols). intros x Hx. now apply colp0_step. Qed.
Lemma rowp1_const f r : Dc f -> 0 <= r < rows -> rowp f 1 r = rowp f 1 0.
Proof. intros HD. apply (const_inc (rowp f 1) rows). intros x Hx. now apply rowp1_step. Qed.

Lemma normal_Pc e : length e = (N + N)%nat -> tnormal e -> Pc (txat e).
Proof. intros He Hn r c H1 H2. rewrite <- stab_primal_sum by auto. apply Hn. apply in_TI; auto. Qed.
Lemma normal_Dc e : length e = (N + N)%nat -> tnormal e -> Dc (tzat e).
Proof. intros He Hn r c H1 H2. rewrite <- stab_dual_sum by auto. apply Hn. apply in_TI; auto. Qed.

(* the symplectic products with the four logicals are these parities *)
Lemma bsp_z1_rowp e : length e = (N + N)%nat -> bsp e z1op = rowp (txat e) 0 (rows / 2).
Proof. intros He. unfold ToricAll.z1op. rewrite bsp_e_tsopZ by auto. rewrite z1_sites_eq. unfold z1_list. now rewrite xsumb_map. Qed.
Lemma bsp_z2_colp e : length e = (N + N)%nat -> bsp e z2op = colp (txat e) 1 (cols / 2).
Proof. intros He. unfold ToricAll.z2op. rewrite bsp_e_tsopZ by auto. rewrite z2_sites_eq. unfold z2_list. now rewrite xsumb_map. Qed.
Lemma bsp_x1_colp e : length e = (N + N)%nat -> bsp e x1op = colp (tzat e) 0 (cols / 2).
Proof. intros He. unfold ToricAll.x1op. rewrite bsp_e_tsopX by auto. rewrite x1_sites_eq. unfold x1_list. now rewrite xsumb_map. Qed.
Lemma bsp_x2_rowp e : length e = (N + N)%nat -> bsp e x2op = rowp (tzat e) 1 (rows / 2).
Proof. intros He. unfold ToricAll.x2op. rewrite bsp_e_tsopX by auto. rewrite x2_sites_eq. unfold x2_list. now rewrite xsumb_map. Qed.

(* translation invariance: every row / column translate of a logical loop has the same symplectic product with a
   normalizer element *)
Theorem toric_translates e : length e = (N + N)%nat -> tnormal e ->
  (forall r, 0 <= r < rows -> rowp (txat e) 0 r = bsp e z1op) /\
  (forall c, 0 <= c < cols -> colp (txat e) 1 c = bsp e z2op) /\
  (forall c, 0 <= c < cols -> colp (tzat e) 0 c = bsp e x1op) /\
  (forall r, 0 <= r < rows -> rowp (tzat e) 1 r = bsp e x2op).
Proof.
  intros He Hn. pose proof (normal_Pc e He Hn) as HP. pose proof (normal_Dc e He Hn) as HD.
  rewrite bsp_z1_rowp, bsp_z2_colp, bsp_x1_colp, bsp_x2_rowp by auto.
  pose proof (half_rows rows Hr) as Hhr. pose proof (half_cols cols Hc) as Hhc.
  repeat split; intros x Hx.
  - rewrite (rowp0_const _ x HP Hx), (rowp0_const _ (rows / 2) HP Hhr). reflexivity.
  - rewrite (colp1_const _ x HP Hx), (colp1_const _ (cols / 2) HP Hhc). reflexivity.
  - rewrite (colp0_const _ x HD Hx), (colp0_const _ (cols / 2) HD Hhc). reflexivity.
  - rewrite (rowp1_const _ x HD Hx), (rowp1_const _ (rows / 2) HD Hhr). reflexivity.
Qed.

(* ------------------------------------------------------------------ *)
(** ** Products of stabilizer generators, component by component       *)
(* ------------------------------------------------------------------ *)
Lemma txat_reader e s : length e = (N + N)%nat -> txat e s = bsp (tsop pZ [s]) e.
Proof.
  intros He. rewrite bsp_sym by (rewrite ?tsop_length; auto using even_TNN).
  rewrite bsp_e_tsopZ by auto. cbn [xsumb]. now rewrite xorb_false_r.
Qed.
Lemma tzat_reader e s : length e = (N + N)%nat -> tzat e s = bsp (tsop pX [s]) e.
Proof.
  intros He. rewrite bsp_sym by (rewrite ?tsop_length; auto using even_TNN).
  rewrite bsp_e_tsopX by auto. cbn [xsumb]. now rewrite xorb_false_r.
Qed.

(* the Pauli letter of the plaquette with index q *)
Definition qop (q : tidx) : pl := if fst (fst q) =? 0 then pZ else pX.
Lemma reader_stab op s q : In q TI -> bsp (tsop op [s]) (tstab q) =
  xorb (zbit op && xbit (qop q) && Z.odd (cnt3 (m3 s) (csites q)))
       (xbit op && zbit (qop q) && Z.odd (cnt3 (m3 s) (csites q))).
Proof.
  intros Hq. destruct (tindex_cases rows cols q Hq) as (l & r & c & -> & Hl & H1 & H2).
  unfold ToricAll.tstab. rewrite (bsp_tsop rows cols Hr Hc). cbv zeta.
  destruct (csites_eq rows cols l r c Hl H1 H2) as [-> ->]. unfold qop, pairs3. cbn [fst snd map fold_right].
  rewrite Z.add_0_r. reflexivity.
Qed.

Definition tprod (g : tidx -> bool) : bsf := xsum (N + N) (map tstab (filter g TI)).
Lemma tprod_rows g : Forall (fun r => length r = (N + N)%nat) (map tstab (filter g TI)).
Proof. apply Forall_forall. intros r Hr'. apply in_map_iff in Hr'. destruct Hr' as (q & <- & _). apply tstab_length. Qed.
Lemma tprod_length g : length (tprod g) = (N + N)%nat.
Proof. apply xsum_len, tprod_rows. Qed.

Lemma txat_tprod g s :
  txat (tprod g) s = xsumb (fun q => g q && (xbit (qop q) && Z.odd (cnt3 (m3 s) (csites q)))) TI.
Proof.
  rewrite txat_reader by apply tprod_length. unfold tprod.
  rewrite bsp_xsum_r by (auto using even_TNN, tprod_rows, tsop_length). rewrite xsumb_map, xsumb_filter.
  apply xsumb_ext. intros q Hq. rewrite reader_stab by auto. cbn [xbit zbit andb]. now rewrite xorb_false_r.
Qed.
Lemma tzat_tprod g s :
  tzat (tprod g) s = xsumb (fun q => g q && (zbit (qop q) && Z.odd (cnt3 (m3 s) (csites q)))) TI.
Proof.
  rewrite tzat_reader by apply tprod_length. unfold tprod.
  rewrite bsp_xsum_r by (auto using even_TNN, tprod_rows, tsop_length). rewrite xsumb_map, xsumb_filter.
  apply xsumb_ext. intros q Hq. rewrite reader_stab by auto. cbn [xbit zbit andb]. now rewrite xorb_false_l.
Qed.

(* which plaquettes contain a given site *)
Lemma odd_b2z2 A B : Z.odd (Z.b2z A + Z.b2z B) = xorb A B.
Proof. now destruct A, B. Qed.
Lemma m3_in l r c : (l = 0 \/ l = 1) -> 0 <= r < rows -> 0 <= c < cols -> m3 (l, r, c) = (l, r, c).
Proof. intros Hl H1 H2. apply m3_id. unfold ToricAll.inrange. cbn [fst snd]. lia. Qed.
Lemma m3_dec_r l r c : (l = 0 \/ l = 1) -> 0 <= r < rows -> 0 <= c < cols -> m3 (l, r - 1, c) = (l, dec rows r, c).
Proof.
  intros Hl H1 H2. rewrite m3_unfold. rewrite mod_dec by lia. rewrite (Z.mod_small c) by lia.
  destruct Hl as [-> | ->]; reflexivity.
Qed.
Lemma m3_dec_c l r c : (l = 0 \/ l = 1) -> 0 <= r < rows -> 0 <= c < cols -> m3 (l, r, c - 1) = (l, r, dec cols c).
Proof.
  intros Hl H1 H2. rewrite m3_unfold. rewrite mod_dec by lia. rewrite (Z.mod_small r) by lia.
  destruct Hl as [-> | ->]; reflexivity.
Qed.
Lemma zeqb3_lat l l' r c r' c' : l <> l' -> zeqb3 (l, r, c) (l', r', c') = false.
Proof. intros H. unfold zeqb3. lia. Qed.

Lemma overlap_n l r c q : (l = 0 \/ l = 1) -> 0 <= r < rows -> 0 <= c < cols -> In q TI ->
  (fst (fst q) =? l) && Z.odd (cnt3 (m3 (l, r, c)) (csites q)) = xorb (zeqb3 q (l, r, c)) (zeqb3 q (l, dec rows r, c)).
Proof.
  intros Hl H1 H2 Hq. destruct (tindex_cases rows cols q Hq) as (ql & qr & qc & -> & Hql & Hqr & Hqc). cbn [fst snd].
  destruct (Z.eqb_spec ql l) as [->|Hne].
  - rewrite (nsite_overlap rows cols Hr Hc l qr qc r c Hl Hqr Hqc). unfold peq.
    rewrite m3_in, m3_dec_r by auto. cbn [andb]. apply odd_b2z2.
  - rewrite !zeqb3_lat by auto. reflexivity.
Qed.
(* the site west of position (l, r, c) lies on the other sublattice: it is (1, r, c) for l = 0 and
   (0, r + 1, c - 1) for l = 1 *)
Lemma overlap_w l r c q s : (l = 0 \/ l = 1) -> 0 <= r < rows -> 0 <= c < cols -> In q TI ->
  m3 s = m3 (l + 1, r + l, c - l) ->
  (fst (fst q) =? l) && Z.odd (cnt3 (m3 s) (csites q)) = xorb (zeqb3 q (l, r, c)) (zeqb3 q (l, r, dec cols c)).
Proof.
  intros Hl H1 H2 Hq Hs. destruct (tindex_cases rows cols q Hq) as (ql & qr & qc & -> & Hql & Hqr & Hqc). cbn [fst snd].
  destruct (Z.eqb_spec ql l) as [->|Hne].
  - rewrite Hs. rewrite (wsite_overlap rows cols Hr Hc l qr qc r c Hl Hqr Hqc). unfold peq.
    rewrite m3_in, m3_dec_c by auto. cbn [andb]. apply odd_b2z2.
  - rewrite !zeqb3_lat by auto. reflexivity.
Qed.
Lemma qop_bits q : In q TI -> xbit (qop q) = (fst (fst q) =? 1) /\ zbit (qop q) = (fst (fst q) =? 0).
Proof.
  intros Hq. destruct (tindex_cases rows cols q Hq) as (ql & qr & qc & -> & Hql & _). unfold qop. cbn [fst snd].
  destruct Hql as [-> | ->]; cbn; auto.
Qed.

Lemma pick2_TI (g F : tidx -> bool) q1 q2 : In q1 TI -> In q2 TI ->
  (forall q, In q TI -> F q = xorb (zeqb3 q q1) (zeqb3 q q2)) -> xsumb (fun q => g q && F q) TI = xorb (g q1) (g q2).
Proof. intros H1 H2 HF. apply (xsumb_pick2 zeqb3 zeqb3_eq g F q1 q2 TI NoDup_tindices H1 H2 HF). Qed.

Section Sites.
Variables (g : tidx -> bool) (r c : Z).
Hypothesis H1 : 0 <= r < rows.
Hypothesis H2 : 0 <= c < cols.
Let Hdr := dec_range rows r H1.
Let Hdc := dec_range cols c H2.
Let Hic := inc_range cols c H2.

Lemma txat_tprod_1 : txat (tprod g) (1, r, c) = xorb (g (1, r, c)) (g (1, dec rows r, c)).
Proof.
  rewrite txat_tprod. apply pick2_TI; [apply in_TI; auto..|].
  intros q Hq. destruct (qop_bits q Hq) as [-> _]. apply overlap_n; auto.
Qed.
Lemma tzat_tprod_0 : tzat (tprod g) (0, r, c) = xorb (g (0, r, c)) (g (0, dec rows r, c)).
Proof.
  rewrite tzat_tprod. apply pick2_TI; [apply in_TI; auto..|].
  intros q Hq. destruct (qop_bits q Hq) as [_ ->]. apply overlap_n; auto.
Qed.
Lemma tzat_tprod_1 : tzat (tprod g) (1, r, c) = xorb (g (0, r, c)) (g (0, r, dec cols c)).
Proof.
  rewrite tzat_tprod. apply pick2_TI; [apply in_TI; auto..|].
  intros q Hq. destruct (qop_bits q Hq) as [_ ->]. apply overlap_w; auto.
  f_equal. apply tri_eq; lia.
Qed.
Lemma txat_tprod_0 : txat (tprod g) (0, r, c) = xorb (g (1, dec rows r, inc cols c)) (g (1, dec rows r, c)).
Proof.
  rewrite txat_tprod.
  assert (E : dec cols (inc cols c) = c) by now apply dec_inc.
  replace (g (1, dec rows r, c)) with (g (1, dec rows r, dec cols (inc cols c))) by now rewrite E.
  apply pick2_TI; [apply in_TI; auto; rewrite ?E; auto..|].
  intros q Hq. destruct (qop_bits q Hq) as [-> _]. apply overlap_w; auto.
  rewrite !m3_unfold. apply tri_eq; [reflexivity| |].
  - rewrite mod_inc by auto. rewrite inc_dec by auto. apply Z.mod_small; lia.
  - rewrite mod_dec by auto. rewrite E. apply Z.mod_small; lia.
Qed.
End Sites.

(* two operators with the same X and Z components at every site are equal *)
Lemma text_sites a b : length a = (N + N)%nat -> length b = (N + N)%nat ->
  (forall s, inrange s -> txat a s = txat b s /\ tzat a s = tzat b s) -> a = b.
Proof.
  intros La Lb H. rewrite <- (firstn_skipn N a), <- (firstn_skipn N b).
  destruct (toric_flatten_bijective_all rows cols Hr Hc) as (_ & _ & _ & Hsurj).
  assert (Hk : forall k, (k < N)%nat -> nth k (firstn N a) false = nth k (firstn N b) false /\
                                      nth k (skipn N a) false = nth k (skipn N b) false).
  { intros k Hk. destruct (Hsurj k Hk) as (s & Hs & <-). apply (H s Hs). }
  f_equal.
  - apply (nth_ext _ _ false false); [rewrite !firstn_length; lia|]. intros k Hk'. rewrite firstn_length in Hk'.
    apply Hk. lia.
  - apply (nth_ext _ _ false false); [rewrite !skipn_length; lia|]. intros k Hk'. rewrite skipn_length in Hk'.
    apply Hk. lia.
Qed.

(* ------------------------------------------------------------------ *)
(** ** Completeness of the four logicals (centralizer lemma)           *)
(* ------------------------------------------------------------------ *)
Definition uX (e : bsf) (r c : Z) : bool := txat e (1, r, c).
Definition vX (e : bsf) (r c : Z) : bool := txat e (0, inc rows r, dec cols c).
Definition uZ (e : bsf) (r c : Z) : bool := tzat e (0, r, c).
Definition vZ (e : bsf) (r c : Z) : bool := tzat e (1, r, c).
(* coefficient of the plaquette q in the product: a potential of the X bits for the vertex (dual) operators, of the
   Z bits for the plaquette (primal) operators *)
Definition tgamma (e : bsf) (q : tidx) : bool :=
  let '(l, r, c) := q in if l =? 0 then pot (uZ e) (vZ e) r c else pot (uX e) (vX e) r c.

Section Central.
Variable e : bsf.
Hypothesis He : length e = (N + N)%nat.
Hypothesis Hn : tnormal e.
Hypothesis Hx1 : bsp e x1op = false.
Hypothesis Hx2 : bsp e x2op = false.
Hypothesis Hz1 : bsp e z1op = false.
Hypothesis Hz2 : bsp e z2op = false.

Lemma closedX r c : 0 <= r < rows -> 0 <= c < cols ->
  xorb (uX e r c) (uX e r (dec cols c)) = xorb (vX e r c) (vX e (dec rows r) c).
Proof.
  intros H1 H2. pose proof (normal_Pc e He Hn r (dec cols c) H1 (dec_range cols c H2)) as T.
  unfold ToricAll.psites in T. cbn [xsumb] in T. rewrite inc_dec in T by auto.
  unfold uX, vX. rewrite inc_dec by auto.
  destruct (txat e (1, r, c)), (txat e (1, r, dec cols c)), (txat e (0, inc rows r, dec cols c)), (txat e (0, r, dec cols c));
    cbn in T; cbn; congruence.
Qed.
Lemma hol_rX : xsumb (fun i => uX e (Z.of_nat i) 0) (seq 0 (Z.to_nat rows)) = false.
Proof. destruct (toric_translates e He Hn) as (_ & T & _ & _). rewrite <- Hz2, <- (T 0) by lia. reflexivity. Qed.
Lemma hol_cX r : 0 <= r < rows -> xsumb (fun j => vX e r (Z.of_nat j)) (seq 0 (Z.to_nat cols)) = false.
Proof.
  intros H1. destruct (toric_translates e He Hn) as (T & _ & _ & _).
  rewrite <- Hz1, <- (T (inc rows r)) by now apply inc_range.
  apply (cyc_dec_cols (fun x => txat e (0, inc rows r, x))).
Qed.
Lemma closedZ r c : 0 <= r < rows -> 0 <= c < cols ->
  xorb (uZ e r c) (uZ e r (dec cols c)) = xorb (vZ e r c) (vZ e (dec rows r) c).
Proof.
  intros H1 H2. pose proof (normal_Dc e He Hn (dec rows r) c (dec_range rows r H1) H2) as T.
  unfold ToricAll.dsites in T. cbn [xsumb] in T. rewrite inc_dec in T by auto.
  unfold uZ, vZ.
  destruct (tzat e (0, r, c)), (tzat e (0, r, dec cols c)), (tzat e (1, r, c)), (tzat e (1, dec rows r, c));
    cbn in T; cbn; congruence.
Qed.
Lemma hol_rZ : xsumb (fun i => uZ e (Z.of_nat i) 0) (seq 0 (Z.to_nat rows)) = false.
Proof. destruct (toric_translates e He Hn) as (_ & _ & T & _). rewrite <- Hx1, <- (T 0) by lia. reflexivity. Qed.
Lemma hol_cZ r : 0 <= r < rows -> xsumb (fun j => vZ e r (Z.of_nat j)) (seq 0 (Z.to_nat cols)) = false.
Proof. intros H1. destruct (toric_translates e He Hn) as (_ & _ & _ & T). rewrite <- Hx2, <- (T r) by auto. reflexivity. Qed.

Notation GX := (pot (uX e) (vX e)).
Notation GZ := (pot (uZ e) (vZ e)).
Lemma GX_dr r c : 0 <= r < rows -> 0 <= c < cols -> xorb (GX r c) (GX (dec rows r) c) = uX e r c.
Proof. apply (pot_dr rows cols ltac:(lia) ltac:(lia) (uX e) (vX e) closedX hol_rX hol_cX). Qed.
Lemma GX_dc r c : 0 <= r < rows -> 0 <= c < cols -> xorb (GX r c) (GX r (dec cols c)) = vX e r c.
Proof. apply (pot_dc rows cols ltac:(lia) ltac:(lia) (uX e) (vX e) closedX hol_rX hol_cX). Qed.
Lemma GZ_dr r c : 0 <= r < rows -> 0 <= c < cols -> xorb (GZ r c) (GZ (dec rows r) c) = uZ e r c.
Proof. apply (pot_dr rows cols ltac:(lia) ltac:(lia) (uZ e) (vZ e) closedZ hol_rZ hol_cZ). Qed.
Lemma GZ_dc r c : 0 <= r < rows -> 0 <= c < cols -> xorb (GZ r c) (GZ r (dec cols c)) = vZ e r c.
Proof. apply (pot_dc rows cols ltac:(lia) ltac:(lia) (uZ e) (vZ e) closedZ hol_rZ hol_cZ). Qed.

Lemma tprod_agrees s : inrange s -> txat (tprod (tgamma e)) s = txat e s /\ tzat (tprod (tgamma e)) s = tzat e s.
Proof.
  destruct s as [[l r] c]. unfold ToricAll.inrange. cbn [fst snd]. intros (Hl & H1 & H2).
  assert (Hl' : l = 0 \/ l = 1) by lia. destruct Hl' as [-> | ->].
  - rewrite txat_tprod_0, tzat_tprod_0 by auto. unfold tgamma. cbn [Z.eqb]. split.
    + pose proof (GX_dc (dec rows r) (inc cols c) (dec_range rows r H1) (inc_range cols c H2)) as T.
      rewrite dec_inc in T by auto. unfold vX in T. rewrite inc_dec, dec_inc in T by auto. exact T.
    + now apply GZ_dr.
  - rewrite txat_tprod_1, tzat_tprod_1 by auto. unfold tgamma. cbn [Z.eqb]. split.
    + now apply GX_dr.
    + now apply GZ_dc.
Qed.

Theorem tprod_gamma : tprod (tgamma e) = e.
Proof. apply text_sites; auto using tprod_length. apply tprod_agrees. Qed.
End Central.

(* ------------------------------------------------------------------ *)
(** ** Spans: all generators, and the generators other than the two at position (0, 0) *)
(* ------------------------------------------------------------------ *)
Definition tkeep (q : tidx) : bool := negb (zeqb3 q (0, 0, 0) || zeqb3 q (1, 0, 0)).
Definition toric_reduced_indices : list tidx := filter tkeep TI.
Definition toric_reduced_stabs : list bsf := map tstab toric_reduced_indices.

Lemma in_toric_reduced q : In q toric_reduced_indices <-> In q TI /\ tkeep q = true.
Proof. apply filter_In. Qed.
Lemma NoDup_toric_reduced : NoDup toric_reduced_indices.
Proof. apply NoDup_filter, NoDup_tindices. Qed.
Lemma tstabs_rowlen : rowlen (N + N) STABS.
Proof. rewrite tcode_eq. cbn [stabs]. apply Forall_forall. intros r Hr'. apply in_map_iff in Hr'. destruct Hr' as (q & <- & _). apply tstab_length. Qed.
Lemma trstabs_rowlen : rowlen (N + N) toric_reduced_stabs.
Proof. apply Forall_forall. intros r Hr'. apply in_map_iff in Hr'. destruct Hr' as (q & <- & _). apply tstab_length. Qed.
Lemma toric_reduced_incl : incl toric_reduced_stabs STABS.
Proof.
  rewrite tcode_eq. cbn [stabs]. intros s Hs. apply in_map_iff in Hs. destruct Hs as (q & <- & Hq).
  apply in_map. now apply in_toric_reduced in Hq.
Qed.

Lemma tgamma_keep e q : tgamma e q = true -> tkeep q = true.
Proof.
  intros H. unfold tkeep. destruct (zeqb3 q (0, 0, 0)) eqn:E1.
  { apply zeqb3_eq in E1. subst q. unfold tgamma in H. cbn [Z.eqb] in H. rewrite pot_origin in H. discriminate. }
  destruct (zeqb3 q (1, 0, 0)) eqn:E2; [|reflexivity].
  apply zeqb3_eq in E2. subst q. unfold tgamma in H. cbn [Z.eqb] in H. rewrite pot_origin in H. discriminate.
Qed.

Lemma tprod_in_span g : in_spanP (N + N) STABS (tprod g).
Proof.
  unfold tprod. rewrite tcode_eq. cbn [stabs]. exists (map g TI). split; [now rewrite !map_length|].
  rewrite lincomb_select. f_equal. apply select_map_filter2.
Qed.
Lemma tprod_in_rspan g : (forall q, g q = true -> tkeep q = true) -> in_spanP (N + N) toric_reduced_stabs (tprod g).
Proof.
  intros H. exists (map g toric_reduced_indices). split; [unfold toric_reduced_stabs; now rewrite !map_length|].
  rewrite lincomb_select. unfold toric_reduced_stabs, tprod. rewrite select_map_filter2. unfold toric_reduced_indices.
  rewrite filter_filter_impl by (intros; auto). reflexivity.
Qed.

(* C08/C07, completeness of the four logicals: an operator commuting with every stabilizer generator and with the
   four logical operators is a product of stabilizer generators *)
Theorem toric_centralizer_reduced e : length e = (N + N)%nat -> normalizer STABS e ->
  bsp e x1op = false -> bsp e x2op = false -> bsp e z1op = false -> bsp e z2op = false ->
  in_spanP (N + N) toric_reduced_stabs e.
Proof.
  intros He Hn A B C D. apply tnormal_normalizer in Hn.
  rewrite <- (tprod_gamma e He Hn A B C D). apply tprod_in_rspan. apply tgamma_keep.
Qed.
Theorem toric_centralizer e : length e = (N + N)%nat -> normalizer STABS e ->
  bsp e x1op = false -> bsp e x2op = false -> bsp e z1op = false -> bsp e z2op = false ->
  in_spanP (N + N) STABS e.
Proof.
  intros He Hn A B C D. apply tnormal_normalizer in Hn.
  rewrite <- (tprod_gamma e He Hn A B C D). apply tprod_in_span.
Qed.

(* every generator is a product of the n - 2 others: the two dependencies *)
Lemma tstab_normalizer q : In q TI -> normalizer STABS (tstab q).
Proof. intros Hq. apply tnormal_normalizer. intros q' Hq'. now apply toric_stabilizers_commute. Qed.
Theorem toric_stab_in_reduced_span q : In q TI -> in_spanP (N + N) toric_reduced_stabs (tstab q).
Proof.
  intros Hq. destruct (toric_stabilizer_logicals rows cols Hr Hc q Hq) as (A & B & C & D).
  apply toric_centralizer_reduced; auto using tstab_length, tstab_normalizer.
Qed.

(* ------------------------------------------------------------------ *)
(** ** Independence of the n - 2 generators: dual vectors = paths to position (0, 0) *)
(* ------------------------------------------------------------------ *)
Definition tdualv (q : tidx) : bsf :=
  match tpath rows cols q (fst (fst q), 0, 0) (tnew_pauli rows cols) with Some p => p_to_bsf p | None => [] end.
Lemma tdualv_spec q : In q toric_reduced_indices -> length (tdualv q) = (N + N)%nat /\
  forall q', In q' toric_reduced_indices -> bsp (tdualv q) (tstab q') = zeqb3 q' q.
Proof.
  intros Hq. apply in_toric_reduced in Hq. destruct Hq as [Hq Hk].
  destruct (tindex_cases rows cols q Hq) as (l & r & c & -> & Hl & H1 & H2). cbn [fst snd] in *.
  assert (Ea : m3 (l, r, c) = (l, r, c)) by now apply m3_in.
  assert (Eb : m3 (l, 0, 0) = (l, 0, 0)) by (apply m3_in; auto; lia).
  assert (Hlat : fst (fst (m3 (l, r, c))) = fst (fst (m3 (l, 0, 0)))) by now rewrite Ea, Eb.
  unfold tdualv. cbn [fst snd]. split.
  - destruct (toric_path_syndrome_bit rows cols Hr Hc (l, r, c) (l, 0, 0) (l, r, c) Hlat Hq) as (p & Hp & _).
    rewrite Hp. unfold tpath in Hp. destruct (toric_translation rows cols (l, r, c) (l, 0, 0)) as [[rs cs]|]; [|discriminate].
    injection Hp as <-. apply (tsop_length rows cols).
  - intros q' Hq'. apply in_toric_reduced in Hq'. destruct Hq' as [Hq' Hk'].
    destruct (toric_path_syndrome_bit rows cols Hr Hc (l, r, c) (l, 0, 0) q' Hlat Hq') as (p & Hp & Hb).
    rewrite Hp, Hb, Ea, Eb.
    assert (E : zeqb3 q' (l, 0, 0) = false).
    { unfold tkeep in Hk'. destruct Hl as [-> | ->]; destruct (zeqb3 q' (0, 0, 0)), (zeqb3 q' (1, 0, 0)); cbn in Hk'; congruence. }
    rewrite E. apply xorb_false_r.
Qed.

Theorem toric_reduced_independent : independent (N + N) toric_reduced_stabs.
Proof.
  intros cs HL Hz. rewrite lincomb_select in Hz. rewrite <- HL. apply all_false_zeros.
  unfold toric_reduced_stabs in *. rewrite map_length in HL.
  apply (dual_independent zeqb3 zeqb3_eq toric_reduced_indices tstab tdualv (N + N) NoDup_toric_reduced even_TNN); auto.
  - intros q _. apply tstab_length.
  - intros q Hq. apply (tdualv_spec q Hq).
  - intros q q' Hq Hq'. now apply (tdualv_spec q Hq).
Qed.

(* ---------- counting ---------- *)
Lemma toric_reduced_length : (length toric_reduced_indices + 2 = N)%nat.
Proof.
  rewrite <- tindices_length. rewrite <- (filter_partition_length tkeep TI). fold toric_reduced_indices. f_equal.
  set (M := filter (fun a => negb (tkeep a)) TI).
  assert (HM : forall q, In q M <-> q = (0, 0, 0) \/ q = (1, 0, 0)).
  { intros q. unfold M. rewrite filter_In. unfold tkeep. rewrite negb_involutive, orb_true_iff, !zeqb3_eq. split; [tauto|].
    intros H. split; [|exact H]. destruct H as [-> | ->]; apply in_TI; auto; lia. }
  assert (L1 : (length M <= 2)%nat).
  { apply (NoDup_incl_length (l' := [(0, 0, 0); (1, 0, 0)])); [apply NoDup_filter, NoDup_tindices|].
    intros q Hq. apply HM in Hq. cbn. destruct Hq; auto. }
  assert (L2 : (2 <= length M)%nat).
  { apply (NoDup_incl_length (l := [(0, 0, 0); (1, 0, 0)])).
    - constructor; [intros [H|[]]; discriminate|]. constructor; [intros []|constructor].
    - intros q Hq. apply HM. cbn in Hq. destruct Hq as [<-|[<-|[]]]; auto. }
  lia.
Qed.
Lemma toric_n_ge_8 : (8 <= N)%nat.
Proof. unfold toric_n. nia. Qed.

(* ---------- C07: rank of the stabilizer generators ---------- *)
Theorem toric_stabilizers_rank : rank_is (N + N) STABS (N - 2).
Proof.
  exists toric_reduced_stabs. split; [apply toric_reduced_incl|]. split; [unfold toric_reduced_stabs; rewrite map_length; pose proof toric_reduced_length; lia|].
  split; [apply toric_reduced_independent|].
  rewrite tcode_eq. cbn [stabs]. intros r Hr'. apply in_map_iff in Hr'. destruct Hr' as (q & <- & Hq).
  now apply toric_stab_in_reduced_span.
Qed.

(* ---------- ... and together with the four logical operators ---------- *)
Lemma select4 {A} (f : A -> bool) a b c d w x y z :
  xsumb f (select [a; b; c; d] [w; x; y; z]) = xorb (a && f w) (xorb (b && f x) (xorb (c && f y) (d && f z))).
Proof. destruct a, b, c, d; cbn [select xsumb andb]; destruct (f w), (f x), (f y), (f z); reflexivity. Qed.
Lemma split4 (cs : bsf) n : length cs = (n + 4)%nat ->
  exists cs1 a b c d, cs = cs1 ++ [a; b; c; d] /\ length cs1 = n.
Proof.
  intros HL. exists (firstn n cs).
  assert (Hsk : length (skipn n cs) = 4%nat) by (rewrite skipn_length; lia).
  destruct (skipn n cs) as [|a [|b [|c [|d [|x t]]]]] eqn:E; cbn in Hsk; try lia.
  exists a, b, c, d. split; [|rewrite firstn_length; lia]. rewrite <- E. symmetry. apply firstn_skipn.
Qed.

Lemma toric_logical_values :
  bsp x1op z1op = true /\ bsp x2op z1op = false /\ bsp z1op z1op = false /\ bsp z2op z1op = false /\
  bsp x1op z2op = false /\ bsp x2op z2op = true /\ bsp z1op z2op = false /\ bsp z2op z2op = false /\
  bsp x1op x1op = false /\ bsp x2op x1op = false /\ bsp z1op x1op = true /\ bsp z2op x1op = false /\
  bsp x1op x2op = false /\ bsp x2op x2op = false /\ bsp z1op x2op = false /\ bsp z2op x2op = true.
Proof.
  pose proof (toric_logicals_canonical rows cols Hr Hc) as H.
  destruct (H 0%nat 0%nat ltac:(cbn; lia) ltac:(cbn; lia)) as (A1 & A2 & A3 & A4).
  destruct (H 0%nat 1%nat ltac:(cbn; lia) ltac:(cbn; lia)) as (B1 & B2 & B3 & B4).
  destruct (H 1%nat 0%nat ltac:(cbn; lia) ltac:(cbn; lia)) as (C1 & C2 & C3 & C4).
  destruct (H 1%nat 1%nat ltac:(cbn; lia) ltac:(cbn; lia)) as (D1 & D2 & D3 & D4).
  cbn [nth Nat.eqb] in *. repeat split; assumption.
Qed.

Notation LOGS := [x1op; x2op; z1op; z2op].
Lemma logs_rowlen : rowlen (N + N) LOGS.
Proof. repeat constructor; apply tsop_length. Qed.

Theorem toric_reduced_logicals_independent : independent (N + N) (toric_reduced_stabs ++ LOGS).
Proof.
  intros cs HL Hz. rewrite lincomb_select in Hz. rewrite <- HL. apply all_false_zeros.
  rewrite app_length in HL. cbn [length] in HL.
  destruct (split4 cs (length toric_reduced_stabs) HL) as (cs1 & a & b & c & d & -> & Hl1).
  rewrite select_app in Hz by exact Hl1.
  set (T := select cs1 toric_reduced_stabs ++ select [a; b; c; d] LOGS) in *.
  assert (HT : Forall (fun r => length r = (N + N)%nat) T).
  { apply Forall_app. split; apply Forall_forall; intros r Hr'; apply select_In in Hr'.
    - pose proof trstabs_rowlen as HS. unfold rowlen in HS. rewrite Forall_forall in HS. auto.
    - pose proof logs_rowlen as HS. unfold rowlen in HS. rewrite Forall_forall in HS. auto. }
  assert (Hsel0 : forall l, (forall q, In q TI -> bsp (tstab q) l = false) ->
                            xsumb (fun s => bsp s l) (select cs1 toric_reduced_stabs) = false).
  { intros l Hl. rewrite <- (xsumb_false (select cs1 toric_reduced_stabs)). apply xsumb_ext. intros s Hs. apply select_In in Hs.
    apply in_map_iff in Hs. destruct Hs as (q & <- & Hq). apply Hl. now apply in_toric_reduced in Hq. }
  assert (Hpair : forall l, length l = (N + N)%nat -> (forall q, In q TI -> bsp (tstab q) l = false) ->
            xorb (a && bsp x1op l) (xorb (b && bsp x2op l) (xorb (c && bsp z1op l) (d && bsp z2op l))) = false).
  { intros l Hll Hl. pose proof (bsp_xsum_l (N + N) l T Hll even_TNN HT) as HB. rewrite Hz in HB.
    rewrite bsp_zeros_l in HB by (auto using even_TNN). unfold T in HB. rewrite xsumb_app in HB.
    rewrite (Hsel0 l Hl), select4 in HB. rewrite xorb_false_l in HB. now symmetry. }
  destruct toric_logical_values as (V1 & V2 & V3 & V4 & V5 & V6 & V7 & V8 & V9 & V10 & V11 & V12 & V13 & V14 & V15 & V16).
  assert (Ha : a = false).
  { pose proof (Hpair z1op (tsop_length rows cols _ _) (fun q Hq => proj1 (proj2 (proj2 (toric_stabilizer_logicals rows cols Hr Hc q Hq))))) as H.
    rewrite V1, V2, V3, V4 in H. destruct a, b, c, d; cbn in H; congruence. }
  assert (Hb : b = false).
  { pose proof (Hpair z2op (tsop_length rows cols _ _) (fun q Hq => proj2 (proj2 (proj2 (toric_stabilizer_logicals rows cols Hr Hc q Hq))))) as H.
    rewrite V5, V6, V7, V8 in H. destruct a, b, c, d; cbn in H; congruence. }
  assert (Hc' : c = false).
  { pose proof (Hpair x1op (tsop_length rows cols _ _) (fun q Hq => proj1 (toric_stabilizer_logicals rows cols Hr Hc q Hq))) as H.
    rewrite V9, V10, V11, V12 in H. destruct a, b, c, d; cbn in H; congruence. }
  assert (Hd : d = false).
  { pose proof (Hpair x2op (tsop_length rows cols _ _) (fun q Hq => proj1 (proj2 (toric_stabilizer_logicals rows cols Hr Hc q Hq)))) as H.
    rewrite V13, V14, V15, V16 in H. destruct a, b, c, d; cbn in H; congruence. }
  subst a b c d. unfold T in Hz. cbn [select] in Hz. rewrite app_nil_r in Hz.
  intros x Hx. apply in_app_iff in Hx. destruct Hx as [Hx|Hx]; [|cbn in Hx; destruct Hx as [<-|[<-|[<-|[<-|[]]]]]; reflexivity].
  pose proof toric_reduced_independent as HI. specialize (HI cs1 Hl1). rewrite lincomb_select in HI. specialize (HI Hz).
  rewrite HI in Hx. unfold zeros in Hx. now apply repeat_spec in Hx.
Qed.

(* C07 in the vocabulary of Core/Rank.v: rank n - k of the stabilizer matrix, rank n + k with the logicals *)
Theorem toric_rank_is_all :
  rank_is (N + N) (stabs (toric_code rows cols)) (N - 2) /\
  rank_is (N + N) (stabs (toric_code rows cols) ++ lxs (toric_code rows cols) ++ lzs (toric_code rows cols)) (N + 2).
Proof.
  split; [apply toric_stabilizers_rank|].
  exists (toric_reduced_stabs ++ LOGS). pose proof toric_reduced_incl as HI. rewrite tcode_eq in *. cbn [stabs lxs lzs app] in *.
  split; [|split; [|split]].
  - intros s Hs. apply in_app_iff in Hs. apply in_app_iff. destruct Hs as [Hs|Hs]; [left; now apply HI|right; exact Hs].
  - rewrite app_length. unfold toric_reduced_stabs. rewrite map_length. cbn [length]. pose proof toric_reduced_length. pose proof toric_n_ge_8. lia.
  - apply toric_reduced_logicals_independent.
  - intros r Hr'. apply in_app_iff in Hr'. destruct Hr' as [Hs|Hs].
    + apply in_spanP_app_l; [apply trstabs_rowlen|apply logs_rowlen|].
      apply in_map_iff in Hs. destruct Hs as (q & <- & Hq). now apply toric_stab_in_reduced_span.
    + apply in_spanP_In; [apply Forall_app; split; [apply trstabs_rowlen|apply logs_rowlen]|].
      apply in_app_iff. right. exact Hs.
Qed.

(* ---------- the two dependencies, explicitly: the plaquette (primal) operators multiply to the identity, and so
   do the vertex (dual) operators ---------- *)
Lemma nth_all_false k (l : bsf) : (forall x, In x l -> x = false) -> nth k l false = false.
Proof. intros H. destruct (nth_in_or_default k l false) as [Hi|Hd]; auto. Qed.
Lemma tat_zeros s : txat (zeros (N + N)) s = false /\ tzat (zeros (N + N)) s = false.
Proof.
  unfold txat, tzat, zeros. split; apply nth_all_false; intros x Hx;
    [apply firstn_In_l in Hx|apply skipn_In_l in Hx]; now apply repeat_spec in Hx.
Qed.
Theorem toric_sublattice_products_identity :
  tprod (fun q => fst (fst q) =? 0) = zeros (N + N) /\ tprod (fun q => fst (fst q) =? 1) = zeros (N + N).
Proof.
  split; apply text_sites; try apply tprod_length; try apply zeros_length;
    intros [[l r] c]; unfold ToricAll.inrange; cbn [fst snd]; intros (Hl & H1 & H2);
    destruct (tat_zeros (l, r, c)) as [-> ->];
    assert (Hl' : l = 0 \/ l = 1) by lia; destruct Hl' as [-> | ->];
    rewrite ?txat_tprod_0, ?tzat_tprod_0, ?txat_tprod_1, ?tzat_tprod_1 by auto; cbn [fst snd Z.eqb]; auto.
Qed.
End ToricRank.

(* in the vocabulary of the bounded theorem ToricBounded.toric_rank_upto6_spec, for every size *)
Theorem toric_rank_all : forall r c, 2 <= r -> 2 <= c ->
  let cd := toric_code r c in
  let '(n, k, d) := toric_n_k_d r c in
  rank_is (2 * Z.to_nat n) (stabs cd) (Z.to_nat (n - k)) /\
  rank_is (2 * Z.to_nat n) (stabs cd ++ lxs cd ++ lzs cd) (Z.to_nat (n + k)).
Proof.
  intros r c Hr Hc. unfold toric_n_k_d. cbv beta iota zeta.
  destruct (toric_rank_is_all r c Hr Hc) as [H1 H2]. unfold toric_n in *.
  replace (2 * Z.to_nat (2 * r * c))%nat with (Z.to_nat (2 * r * c) + Z.to_nat (2 * r * c))%nat by lia.
  replace (Z.to_nat (2 * r * c - 2)) with (Z.to_nat (2 * r * c) - 2)%nat by lia.
  replace (Z.to_nat (2 * r * c + 2)) with (Z.to_nat (2 * r * c) + 2)%nat by lia.
  split; assumption.
Qed.

(* the centralizer lemma as a closed statement *)
Definition toric_centralizer_statement : Prop :=
  forall rows cols, 2 <= rows -> 2 <= cols -> forall e : bsf,
    length e = (toric_n rows cols + toric_n rows cols)%nat -> normalizer (stabs (toric_code rows cols)) e ->
    bsp e (x1op rows cols) = false -> bsp e (x2op rows cols) = false ->
    bsp e (z1op rows cols) = false -> bsp e (z2op rows cols) = false ->
    in_spanP (toric_n rows cols + toric_n rows cols) (stabs (toric_code rows cols)) e.
Theorem toric_centralizer_all : toric_centralizer_statement.
Proof. intros rows cols Hr Hc e. now apply toric_centralizer. Qed.

(* non-vacuity *)
Example toric_rank_is_3x4 : rank_is 48 (stabs (toric_code 3 4)) 22.
Proof. exact (proj1 (toric_rank_is_all 3 4 ltac:(lia) ltac:(lia))). Qed.
Example toric_rank_logicals_3x4 :
  rank_is 48 (stabs (toric_code 3 4) ++ lxs (toric_code 3 4) ++ lzs (toric_code 3 4)) 26.
Proof. exact (proj2 (toric_rank_is_all 3 4 ltac:(lia) ltac:(lia))). Qed.

Print Assumptions toric_rank_is_all.
Print Assumptions toric_centralizer_all.
