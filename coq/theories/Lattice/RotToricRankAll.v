(* Lattice/RotToricRankAll.v — C07 for the rotated toric code, ALL even sizes rows, cols >= 2:
     [rottoric_rank_is_all]  the rows*cols stabilizer generators have GF(2) rank n - k = n - 2 (the only dependencies
                             are: product of all Z-type plaquettes = product of all X-type plaquettes = identity),
                             and together with the four logical operators rank n + k = n + 2;
     [rottoric_centralizer]  an operator commuting with every stabilizer generator and with the four logical
                             operators is a product of stabilizer generators (even of the n - 2 generators other
                             than the Z-type plaquette (0, 0) and the X-type plaquette (1, 0)).

   Method.  Qubits sit on the sites (x, y) of the torus Z_cols x Z_rows; plaquette (x, y) has the corners
   (x, y), (x, y+1), (x+1, y+1), (x+1, y) and is of X type when x - y is odd, of Z type otherwise.  Every site is a
   corner of exactly two plaquettes of each type (RotToricPathAll.rt_edge), so for each type the plaquettes are the
   vertices, the sites the edges and the plaquettes of the other type the faces of a (twisted) torus: the two
   diagonal sublattices.  [Checker] below: a function F on the sites whose sum around every even plaquette vanishes
   has the same parity along every row and every column; if these parities vanish F is the coboundary of a
   potential G on the odd plaquettes.  The proof maps the odd sublattice onto the standard torus Z_rows x Z_(cols/2)
   (row y, x = 2 j + 1 for even y and x = 2 j for odd y) and uses ToricRankAll.Potential there.
   X bits of a normalizer element: F = xat e; Z bits: the same after a shift by one column.
   Independence of the n - 2 generators: dual vectors = paths to the base plaquette of the same type
   (RotToricPathAll.rottoric_path_bsp_all) through PlanarRankAll.dual_independent. *)
From Coq Require Import ZArith Znumtheory List Bool Lia ZifyBool.
From QV Require Import Core.Bits Core.Pauli Core.Symp Core.Code Core.Span Core.Rank Core.Dist Core.DistCSS
  Generated.LatticeArith Lattice.Planar Lattice.PlanarAll Lattice.Toric Lattice.ToricAll
  Lattice.PlanarRankAll Lattice.PlanarDistAll Lattice.ToricRankAll
  Lattice.RotPlanar Lattice.RotToric Lattice.RotPlanarAll Lattice.RotPlanarBounded Lattice.RotPlanarValidAll
  Lattice.RotToricValidAll Lattice.RotToricPathAll Lattice.RotToricBounded.
Import ListNotations.
Open Scope Z_scope.
Ltac Zify.zify_post_hook ::= Z.to_euclidean_division_equations.

(* ------------------------------------------------------------------ *)
(** * Sums over one period                                             *)
(* ------------------------------------------------------------------ *)
Definition psum (P : Z) (h : Z -> bool) : bool := xsumb (fun i => h (Z.of_nat i)) (seq 0 (Z.to_nat P)).

Lemma psum_ext P h k : (forall x, 0 <= x < P -> h x = k x) -> psum P h = psum P k.
Proof. intros H. apply xsumb_ext. intros i Hi. apply in_seq in Hi. apply H. lia. Qed.
Lemma psum_xorb P h k : psum P (fun x => xorb (h x) (k x)) = xorb (psum P h) (psum P k).
Proof. unfold psum. now rewrite <- xsumb_xorb. Qed.
Lemma psum_false P h : (forall x, 0 <= x < P -> h x = false) -> psum P h = false.
Proof. intros H. rewrite (psum_ext P h (fun _ => false) H). apply xsumb_false. Qed.
(* shift invariance for a P-periodic function *)
Lemma psum_shift P h : 1 <= P -> (forall x, h (x + P) = h x) -> psum P (fun x => h (x + 1)) = psum P h.
Proof.
  intros HP Hper. unfold psum.
  rewrite <- (xsumb_cyc_inc h (Z.to_nat P)). apply xsumb_ext. intros i Hi. apply in_seq in Hi.
  rewrite Z2Nat.id by lia. unfold inc. destruct (Z.eqb_spec (Z.of_nat i + 1) P) as [E|E]; [|reflexivity].
  rewrite E. rewrite <- (Hper 0). reflexivity.
Qed.
(* a period of even length, summed in pairs *)
Lemma xsumb_pairs (h : Z -> bool) : forall m : nat,
  xsumb (fun i => h (Z.of_nat i)) (seq 0 (2 * m)) =
  xsumb (fun j => xorb (h (2 * Z.of_nat j)) (h (2 * Z.of_nat j + 1))) (seq 0 m).
Proof.
  induction m as [|m IH]; [reflexivity|].
  replace (2 * S m)%nat with (S (S (2 * m))) by lia. rewrite !xsumb_seq_S, IH.
  replace (Z.of_nat (2 * m)) with (2 * Z.of_nat m) by lia.
  replace (Z.of_nat (S (2 * m))) with (2 * Z.of_nat m + 1) by lia.
  now destruct (xsumb _ (seq 0 m)), (h (2 * Z.of_nat m)), (h (2 * Z.of_nat m + 1)).
Qed.
Lemma psum_pairs P h : 0 <= P -> P mod 2 = 0 ->
  psum P h = psum (P / 2) (fun j => xorb (h (2 * j)) (h (2 * j + 1))).
Proof.
  intros HP HE. unfold psum. replace (Z.to_nat P) with (2 * Z.to_nat (P / 2))%nat by lia. apply xsumb_pairs.
Qed.

Lemma xorb_false_eq a b : xorb a b = false -> a = b.
Proof. destruct a, b; cbn; congruence. Qed.
Lemma dec_per (f : Z -> bool) m x : 0 <= x < m -> (forall z, f (z + m) = f z) -> f (dec m x) = f (x - 1).
Proof.
  intros Hx Hper. unfold dec. destruct (Z.eqb_spec x 0) as [->|]; [|reflexivity].
  rewrite <- (Hper (0 - 1)). f_equal. lia.
Qed.

(* ------------------------------------------------------------------ *)
(** * The checkerboard on the torus Z_C x Z_R                          *)
(*    F x y : a bit on the site (x, y), periodic.  Closed: the sum of F around every plaquette (x, y) with x - y
      even vanishes.  Then the row and column parities are constant, and if they vanish F is the coboundary of a
      potential G living on the plaquettes (x, y) with x - y odd. *)
(* ------------------------------------------------------------------ *)
Section Checker.
Variables R C : Z.
Hypothesis HR : 2 <= R.
Hypothesis ER : R mod 2 = 0.
Hypothesis HC : 2 <= C.
Hypothesis EC : C mod 2 = 0.
Variable F : Z -> Z -> bool.
Hypothesis permod : forall x y, F x y = F (x mod C) (y mod R).
Hypothesis closed : forall x y, (x - y) mod 2 = 0 ->
  xorb (xorb (F x y) (F x (y + 1))) (xorb (F (x + 1) (y + 1)) (F (x + 1) y)) = false.

Lemma ck_perx x y : F (x + C) y = F x y.
Proof. rewrite (permod (x + C)), (permod x y). f_equal. rewrite <- (Z_mod_plus_full x 1 C). f_equal. lia. Qed.
Lemma ck_pery x y : F x (y + R) = F x y.
Proof. rewrite (permod x (y + R)), (permod x y). f_equal. rewrite <- (Z_mod_plus_full y 1 R). f_equal. lia. Qed.

Definition ck_rowp (y : Z) : bool := psum C (fun x => F x y).
Definition ck_colp (x : Z) : bool := psum R (fun y => F x y).

(* the plaquettes (2 j + s, y), s = y mod 2, tile the rows y and y + 1 *)
Lemma ck_rowp_shift s y : s = 0 \/ s = 1 -> psum C (fun x => F (x + s) y) = ck_rowp y.
Proof.
  intros [-> | ->].
  - apply psum_ext. intros x _. f_equal. lia.
  - apply (psum_shift C (fun x => F x y)); [lia|]. intros x. apply ck_perx.
Qed.
Lemma ck_colp_shift s x : s = 0 \/ s = 1 -> psum R (fun y => F x (y + s)) = ck_colp x.
Proof.
  intros [-> | ->].
  - apply psum_ext. intros y _. f_equal. lia.
  - apply (psum_shift R (fun y => F x y)); [lia|]. intros y. apply ck_pery.
Qed.
Lemma ck_rowp_step y : ck_rowp y = ck_rowp (y + 1).
Proof.
  assert (Hs : y mod 2 = 0 \/ y mod 2 = 1) by lia. set (s := y mod 2) in *.
  apply xorb_false_eq. rewrite <- (ck_rowp_shift s y Hs), <- (ck_rowp_shift s (y + 1) Hs).
  rewrite (psum_pairs C (fun x => F (x + s) y)), (psum_pairs C (fun x => F (x + s) (y + 1))) by lia.
  rewrite <- psum_xorb. apply psum_false. intros j Hj.
  replace (2 * j + 1 + s) with (2 * j + s + 1) by lia.
  pose proof (closed (2 * j + s) y ltac:(subst s; lia)) as Hcl.
  destruct (F (2 * j + s) y), (F (2 * j + s) (y + 1)), (F (2 * j + s + 1) (y + 1)), (F (2 * j + s + 1) y);
    cbn in Hcl |- *; congruence.
Qed.
Lemma ck_colp_step x : ck_colp x = ck_colp (x + 1).
Proof.
  assert (Hs : x mod 2 = 0 \/ x mod 2 = 1) by lia. set (s := x mod 2) in *.
  apply xorb_false_eq. rewrite <- (ck_colp_shift s x Hs), <- (ck_colp_shift s (x + 1) Hs).
  rewrite (psum_pairs R (fun y => F x (y + s))), (psum_pairs R (fun y => F (x + 1) (y + s))) by lia.
  rewrite <- psum_xorb. apply psum_false. intros i Hi.
  replace (2 * i + 1 + s) with (2 * i + s + 1) by lia.
  pose proof (closed x (2 * i + s) ltac:(subst s; lia)) as Hcl.
  destruct (F x (2 * i + s)), (F x (2 * i + s + 1)), (F (x + 1) (2 * i + s + 1)), (F (x + 1) (2 * i + s));
    cbn in Hcl |- *; congruence.
Qed.
(* translation invariance *)
Theorem ck_rowp_const y : 0 <= y -> ck_rowp y = ck_rowp 0.
Proof using HR ER HC EC permod closed.
  intros Hy. replace y with (Z.of_nat (Z.to_nat y)) by lia. induction (Z.to_nat y) as [|k IH]; [reflexivity|].
  rewrite <- IH. replace (Z.of_nat (S k)) with (Z.of_nat k + 1) by lia. symmetry. apply ck_rowp_step.
Qed.
Theorem ck_colp_const x : 0 <= x -> ck_colp x = ck_colp 0.
Proof using HR ER HC EC permod closed.
  intros Hx. replace x with (Z.of_nat (Z.to_nat x)) by lia. induction (Z.to_nat x) as [|k IH]; [reflexivity|].
  rewrite <- IH. replace (Z.of_nat (S k)) with (Z.of_nat k + 1) by lia. symmetry. apply ck_colp_step.
Qed.

(* ---------- the potential ---------- *)
Hypothesis Hrow : ck_rowp 0 = false.
Hypothesis Hcol : ck_colp 0 = false.
Notation Ch := (C / 2).
(* odd plaquette (x, y) <-> (r, c) = (y, j) with x = 2 j + 1 for even y and x = 2 j for odd y *)
Definition ck_u (r c : Z) : bool := F (2 * c + 1) r.
Definition ck_v (r c : Z) : bool := xorb (F (2 * c - r mod 2) r) (F (2 * c + 1 - r mod 2) r).

Lemma ck_u_dec r c : 0 <= c < Ch -> ck_u r (dec Ch c) = F (2 * c - 1) r.
Proof.
  intros Hc. unfold ck_u, dec. destruct (Z.eqb_spec c 0) as [->|Hne]; [|f_equal; lia].
  rewrite <- (ck_perx (2 * 0 - 1) r). f_equal. lia.
Qed.
Lemma ck_v_dec r c : 0 <= r < R -> ck_v (dec R r) c = ck_v (r - 1) c.
Proof.
  intros Hr. unfold dec. destruct (Z.eqb_spec r 0) as [->|Hne]; [|reflexivity].
  unfold ck_v. replace ((R - 1) mod 2) with ((0 - 1) mod 2) by lia.
  rewrite <- (ck_pery _ (0 - 1)), <- (ck_pery (2 * c + 1 - (0 - 1) mod 2) (0 - 1)).
  replace (0 - 1 + R) with (R - 1) by lia. reflexivity.
Qed.
Lemma ck_closedP r c : 0 <= r < R -> 0 <= c < Ch ->
  xorb (ck_u r c) (ck_u r (dec Ch c)) = xorb (ck_v r c) (ck_v (dec R r) c).
Proof.
  intros Hr Hc. rewrite ck_u_dec, ck_v_dec by auto. unfold ck_u, ck_v.
  assert (Hs : r mod 2 = 0 \/ r mod 2 = 1) by lia. destruct Hs as [Hs|Hs].
  - assert (Hs' : (r - 1) mod 2 = 1) by lia. rewrite Hs, Hs'.
    pose proof (closed (2 * c - 1) (r - 1) ltac:(lia)) as Hcl.
    replace (r - 1 + 1) with r in Hcl by lia. replace (2 * c - 1 + 1) with (2 * c) in Hcl by lia.
    replace (2 * c - 0) with (2 * c) by lia. replace (2 * c + 1 - 0) with (2 * c + 1) by lia.
    replace (2 * c + 1 - 1) with (2 * c) by lia.
    destruct (F (2 * c - 1) (r - 1)), (F (2 * c - 1) r), (F (2 * c) r), (F (2 * c) (r - 1)), (F (2 * c + 1) r);
      cbn in Hcl |- *; congruence.
  - assert (Hs' : (r - 1) mod 2 = 0) by lia. rewrite Hs, Hs'.
    pose proof (closed (2 * c) (r - 1) ltac:(lia)) as Hcl.
    replace (r - 1 + 1) with r in Hcl by lia.
    replace (2 * c - 0) with (2 * c) by lia. replace (2 * c + 1 - 0) with (2 * c + 1) by lia.
    replace (2 * c + 1 - 1) with (2 * c) by lia.
    destruct (F (2 * c) (r - 1)), (F (2 * c) r), (F (2 * c + 1) r), (F (2 * c + 1) (r - 1)), (F (2 * c - 1) r);
      cbn in Hcl |- *; congruence.
Qed.
Lemma ck_hol_r : xsumb (fun i => ck_u (Z.of_nat i) 0) (seq 0 (Z.to_nat R)) = false.
Proof. rewrite <- Hcol, <- (ck_colp_const 1) by lia. reflexivity. Qed.
Lemma ck_hol_c r : 0 <= r < R -> xsumb (fun j => ck_v r (Z.of_nat j)) (seq 0 (Z.to_nat Ch)) = false.
Proof.
  intros Hr. rewrite <- Hrow, <- (ck_rowp_const r) by lia.
  assert (Hs : r mod 2 = 0 \/ r mod 2 = 1) by lia. set (s := r mod 2) in *.
  change (psum Ch (fun j => xorb (F (2 * j - s) r) (F (2 * j + 1 - s) r)) = ck_rowp r).
  rewrite <- (psum_pairs C (fun x => F (x - s) r)) by lia.
  destruct Hs as [-> | ->].
  - apply psum_ext. intros x _. f_equal. lia.
  - rewrite <- (psum_shift C (fun x => F (x - 1) r)); [|lia|].
    + apply psum_ext. intros x _. f_equal. lia.
    + intros x. rewrite <- (ck_perx (x - 1) r). f_equal. lia.
Qed.

Definition ck_pot : Z -> Z -> bool := pot ck_u ck_v.
Lemma ck_pot_dr r c : 0 <= r < R -> 0 <= c < Ch -> xorb (ck_pot r c) (ck_pot (dec R r) c) = ck_u r c.
Proof. apply (pot_dr R Ch ltac:(lia) ltac:(lia) ck_u ck_v ck_closedP ck_hol_r ck_hol_c). Qed.
Lemma ck_pot_dc r c : 0 <= r < R -> 0 <= c < Ch -> xorb (ck_pot r c) (ck_pot r (dec Ch c)) = ck_v r c.
Proof. apply (pot_dc R Ch ltac:(lia) ltac:(lia) ck_u ck_v ck_closedP ck_hol_r ck_hol_c). Qed.

(* the potential on the plaquette positions, periodic by construction *)
Definition ck_G (x y : Z) : bool := ck_pot (y mod R) ((x mod C - 1 + (y mod R) mod 2) / 2).
Lemma ck_G_mod x y : ck_G x y = ck_G (x mod C) (y mod R).
Proof using HR ER HC EC. unfold ck_G. rewrite !Z.mod_mod by (clear - HR HC; lia). reflexivity. Qed.
Lemma ck_G_val x y x' y' j : x mod C = x' -> y mod R = y' -> (x' - 1 + y' mod 2) / 2 = j -> ck_G x y = ck_pot y' j.
Proof. intros <- <- <-. reflexivity. Qed.
Lemma ck_G_origin : ck_G 1 0 = false.
Proof using HR ER HC EC. rewrite (ck_G_val 1 0 1 0 0); [reflexivity|apply Z.mod_small; clear - HC; lia|apply Z.mod_0_l; clear - HR; lia|reflexivity]. Qed.
Lemma ck_G_00 x y j : 0 <= x < C -> 0 <= y < R -> (x - 1 + y mod 2) / 2 = j -> ck_G x y = ck_pot y j.
Proof. intros Hx Hy Hj. apply (ck_G_val x y x y j); auto; apply Z.mod_small; lia. Qed.
Lemma ck_G_10 x y j : 0 <= x < C -> 0 <= y < R -> (dec C x - 1 + y mod 2) / 2 = j -> ck_G (x - 1) y = ck_pot y j.
Proof. intros Hx Hy Hj. apply (ck_G_val (x - 1) y (dec C x) y j); auto; [apply mod_dec; lia|apply Z.mod_small; lia]. Qed.
Lemma ck_G_01 x y j : 0 <= x < C -> 0 <= y < R -> (x - 1 + (dec R y) mod 2) / 2 = j -> ck_G x (y - 1) = ck_pot (dec R y) j.
Proof. intros Hx Hy Hj. apply (ck_G_val x (y - 1) x (dec R y) j); auto; [apply Z.mod_small; lia|apply mod_dec; lia]. Qed.
Lemma ck_G_11 x y j : 0 <= x < C -> 0 <= y < R -> (dec C x - 1 + (dec R y) mod 2) / 2 = j ->
  ck_G (x - 1) (y - 1) = ck_pot (dec R y) j.
Proof. intros Hx Hy Hj. apply (ck_G_val (x - 1) (y - 1) (dec C x) (dec R y) j); auto; apply mod_dec; lia. Qed.

Lemma ck_exact_canon x y : 0 <= x < C -> 0 <= y < R ->
  F x y = if (x - y) mod 2 =? 1 then xorb (ck_G x y) (ck_G (x - 1) (y - 1))
          else xorb (ck_G (x - 1) y) (ck_G x (y - 1)).
Proof.
  intros Hx Hy. set (j := x / 2).
  assert (Hj : 0 <= j < Ch) by (subst j; lia).
  assert (Px : x = 2 * j \/ x = 2 * j + 1) by (subst j; lia).
  clearbody j.
  assert (Py : y mod 2 = 0 \/ y mod 2 = 1) by lia.
  assert (Dy1 : (dec R y) mod 2 = 1 - y mod 2) by (unfold dec; destruct (Z.eqb_spec y 0); lia).
  assert (Dx : (x <> 0 /\ dec C x = x - 1) \/ (x = 0 /\ dec C x = C - 1)) by (unfold dec; destruct (Z.eqb_spec x 0); lia).
  assert (Dj : 0 <= dec Ch j < Ch) by (apply dec_range; lia).
  assert (Dj' : (j <> 0 /\ dec Ch j = j - 1) \/ (j = 0 /\ dec Ch j = Ch - 1)) by (unfold dec; destruct (Z.eqb_spec j 0); lia).
  pose proof (ck_pot_dr y j Hy Hj) as A1. pose proof (ck_pot_dc y j Hy Hj) as A2.
  pose proof (ck_pot_dr y (dec Ch j) Hy Dj) as A3. rewrite ck_u_dec in A3 by auto.
  unfold ck_u in A1. unfold ck_v in A2.
  destruct Px as [Px|Px], Py as [Py|Py].
  - (* x, y even *)
    replace ((x - y) mod 2 =? 1) with false by lia.
    rewrite (ck_G_10 x y (dec Ch j)) by (auto; rewrite Py; lia).
    rewrite (ck_G_01 x y j) by (auto; rewrite Dy1, Py; lia).
    rewrite Py in A2. replace (2 * j - 0) with x in A2 by lia. replace (2 * j + 1 - 0) with (2 * j + 1) in A2 by lia.
    destruct (F x y), (F (2 * j + 1) y), (ck_pot y j), (ck_pot y (dec Ch j)), (ck_pot (dec R y) j); cbn in *; congruence.
  - (* x even, y odd *)
    replace ((x - y) mod 2 =? 1) with true by lia.
    rewrite (ck_G_00 x y j) by (auto; rewrite Py; lia).
    rewrite (ck_G_11 x y (dec Ch j)) by (auto; rewrite Dy1, Py; lia).
    rewrite Py in A2. replace (2 * j + 1 - 1) with x in A2 by lia.
    destruct (F x y), (F (2 * j - 1) y), (ck_pot y j), (ck_pot y (dec Ch j)), (ck_pot (dec R y) (dec Ch j)); cbn in *; congruence.
  - (* x odd, y even *)
    replace ((x - y) mod 2 =? 1) with true by lia.
    rewrite (ck_G_00 x y j) by (auto; rewrite Py; lia).
    rewrite (ck_G_11 x y j) by (auto; rewrite Dy1, Py; lia).
    rewrite <- Px in A1. rewrite <- A1. reflexivity.
  - (* x, y odd *)
    replace ((x - y) mod 2 =? 1) with false by lia.
    rewrite (ck_G_10 x y j) by (auto; rewrite Py; lia).
    rewrite (ck_G_01 x y j) by (auto; rewrite Dy1, Py; lia).
    rewrite <- Px in A1. rewrite <- A1. reflexivity.
Qed.

(* ... for every integer site index *)
Theorem ck_exact x y :
  F x y = if (x - y) mod 2 =? 1 then xorb (ck_G x y) (ck_G (x - 1) (y - 1))
          else xorb (ck_G (x - 1) y) (ck_G x (y - 1)).
Proof.
  rewrite (permod x y).
  rewrite (ck_exact_canon (x mod C) (y mod R)) by (apply Z.mod_pos_bound; lia).
  rewrite <- (rt_type_mod R C HR ER HC EC x y).
  rewrite <- (ck_G_mod x y).
  rewrite (ck_G_mod (x mod C - 1) (y mod R - 1)), (ck_G_mod (x mod C - 1) (y mod R)), (ck_G_mod (x mod C) (y mod R - 1)).
  rewrite !Zminus_mod_idemp_l, !Z.mod_mod by lia.
  rewrite <- (ck_G_mod (x - 1) (y - 1)), <- (ck_G_mod (x - 1) y), <- (ck_G_mod x (y - 1)). reflexivity.
Qed.
End Checker.

(* ------------------------------------------------------------------ *)
(** * The rotated toric code                                           *)
(* ------------------------------------------------------------------ *)
Lemma rc_xsumb_xsumb {A} (f : A -> bool) L : rc_xsumb f L = xsumb f L.
Proof. induction L as [|a L IH]; cbn; congruence. Qed.
Lemma length_flat_map_const {A B} (f : A -> list B) k : forall L, (forall a, In a L -> length (f a) = k) ->
  length (flat_map f L) = (length L * k)%nat.
Proof.
  induction L as [|a L IH]; intros H; cbn [flat_map length]; [reflexivity|].
  rewrite app_length, IH, H by (cbn; auto; intros; apply H; cbn; auto). lia.
Qed.

Section RotToricRank.
Variables rows cols : Z.
Hypothesis Hr : 2 <= rows.
Hypothesis Er : rows mod 2 = 0.
Hypothesis Hc : 2 <= cols.
Hypothesis Ec : cols mod 2 = 0.
Notation N := (rt_n rows cols).
Notation PI := (rt_plaquette_indices rows cols).
Notation STABS := (stabs (rottoric_code rows cols)).
Notation m2 := (rt_m2 rows cols).
Notation fl := (rt_flat rows cols).
Notation sop := (rt_sop rows cols).
Notation stab := (rt_stab rows cols).
Notation x1op := (rt_x1 rows cols).
Notation x2op := (rt_x2 rows cols).
Notation z1op := (rt_z1 rows cols).
Notation z2op := (rt_z2 rows cols).
Notation ztype := rottoric_is_z_plaquette.

Lemma rt_n_eq : N = Z.to_nat (rows * cols).
Proof. reflexivity. Qed.
Lemma even_NN : Nat.even (N + N) = true.
Proof. replace (N + N)%nat with (2 * N)%nat by lia. apply Nat.even_spec. now exists N. Qed.
Lemma sop_length op L : length (sop op L) = (N + N)%nat.
Proof. rewrite (rt_sop_gop rows cols). apply rc_gop_length. Qed.
Lemma stab_length q : length (stab q) = (N + N)%nat.
Proof. apply sop_length. Qed.

(* ---------- the index list ---------- *)
Lemma in_scan_iff q : In q (rt_scan rows cols) <-> 0 <= fst q < cols /\ 0 <= snd q < rows.
Proof.
  unfold rt_scan. cbn [rottoric_bounds]. rewrite in_flat_map. split.
  - intros (y & Hy & Hq). apply in_map_iff in Hq. destruct Hq as (x & <- & Hx). apply rc_range_In in Hx, Hy. cbn [fst snd]. lia.
  - intros [Hx Hy]. exists (snd q). split; [apply rc_range_In; lia|]. apply in_map_iff. exists (fst q).
    split; [now destruct q|apply rc_range_In; lia].
Qed.
Lemma NoDup_scan : NoDup (rt_scan rows cols).
Proof.
  unfold rt_scan. cbn [rottoric_bounds]. apply NoDup_flat_map_disj.
  - apply rc_range_NoDup.
  - intros y _. apply rc_NoDup_map_inj; [|apply rc_range_NoDup]. intros a b _ _ E. congruence.
  - intros y y' b _ _ H1 H2. apply in_map_iff in H1, H2. destruct H1 as (x1 & <- & _), H2 as (x2 & E & _). congruence.
Qed.
Lemma length_scan : length (rt_scan rows cols) = N.
Proof.
  unfold rt_scan. cbn [rottoric_bounds]. rewrite (length_flat_map_const _ (Z.to_nat cols)).
  - rewrite rc_range_length, rt_n_eq. nia.
  - intros y _. rewrite map_length, rc_range_length. f_equal. lia.
Qed.
Lemma in_PI_iff q : In q PI <-> 0 <= fst q < cols /\ 0 <= snd q < rows.
Proof.
  unfold rt_plaquette_indices. rewrite in_app_iff, !filter_In, in_scan_iff.
  destruct (ztype q); cbn [negb]; intuition discriminate.
Qed.
Lemma NoDup_PI : NoDup PI.
Proof.
  unfold rt_plaquette_indices. apply NoDup_app_disj; try apply NoDup_filter, NoDup_scan.
  intros q H1 H2. apply filter_In in H1, H2. destruct H1 as [_ H1], H2 as [_ H2]. rewrite H1 in H2. discriminate.
Qed.
Lemma length_PI : length PI = N.
Proof. unfold rt_plaquette_indices. rewrite app_length, filter_partition_length. apply length_scan. Qed.
Lemma m2_range q : In (m2 q) PI.
Proof.
  apply in_PI_iff. destruct q as [x y]. rewrite rt_m2_unfold by lia. cbn [fst snd].
  split; apply Z.mod_pos_bound; lia.
Qed.
Lemma m2_PI q : In q PI -> m2 q = q.
Proof. apply rt_in_plaquette_indices; auto. Qed.
Lemma m2_idem q : m2 (m2 q) = m2 q.
Proof. apply m2_PI, m2_range. Qed.
Lemma ztype_m2 q : ztype (m2 q) = ztype q.
Proof. apply rt_z_m2; auto. Qed.
Lemma fl_m2 q : fl (m2 q) = fl q.
Proof. rewrite !(rt_flat_f rows cols). now rewrite m2_idem. Qed.
Lemma m2_shift x y a b : m2 (x mod cols + a, y mod rows + b) = m2 (x + a, y + b).
Proof. rewrite !rt_m2_unfold by lia. now rewrite !Zplus_mod_idemp_l. Qed.
Lemma stab_m2 q : stab (m2 q) = stab q.
Proof.
  unfold rt_stab, rt_plaq_op. rewrite ztype_m2. rewrite !(rt_sop_gop rows cols). f_equal.
  destruct q as [x y]. rewrite rt_m2_unfold by lia. cbn [rt_corners map].
  rewrite !(rt_flat_f rows cols).
  rewrite <- (Z.add_0_r (x mod cols)) at 1 2. rewrite <- (Z.add_0_r (y mod rows)) at 1 4.
  rewrite !m2_shift. now rewrite !Z.add_0_r.
Qed.

(* ---------- components ---------- *)
Definition rxat (e : bsf) (s : ridx) : bool := nth (fl s) (firstn N e) false.
Definition rzat (e : bsf) (s : ridx) : bool := nth (fl s) (skipn N e) false.
Lemma rxat_m2 e s : rxat e (m2 s) = rxat e s.
Proof. unfold rxat. now rewrite fl_m2. Qed.
Lemma rzat_m2 e s : rzat e (m2 s) = rzat e s.
Proof. unfold rzat. now rewrite fl_m2. Qed.
Lemma rhalves e : length e = (N + N)%nat -> halves e = (firstn N e, skipn N e).
Proof. intros H. apply halves_2n. lia. Qed.

(* the symplectic product with a Z-type (X-type) site-list operator reads the X (Z) components on its sites *)
Lemma bsp_e_sopZ e L : length e = (N + N)%nat -> bsp e (sop pZ L) = xsumb (rxat e) L.
Proof.
  intros He. unfold bsp, swap_halves. rewrite (rhalves e He), (rt_sop_gop rows cols), rc_gop_parts.
  assert (L1 : length (skipn N e) = N) by (rewrite skipn_length; lia).
  assert (L2 : length (firstn N e) = N) by (rewrite firstn_length; lia).
  unfold rc_xpart, rc_zpart. cbn [xbit zbit].
  rewrite dot_app by now rewrite zeros_length. rewrite dot_zeros_r, xorb_false_l.
  rewrite dot_comm, rc_dot_flips.
  - rewrite dot_zeros_l, xorb_false_r, rc_xsumb_map, rc_xsumb_xsumb. reflexivity.
  - now rewrite zeros_length.
  - intros k Hk. rewrite zeros_length. now apply (rt_keys_klt rows cols Hr Hc L).
Qed.
Lemma bsp_e_sopX e L : length e = (N + N)%nat -> bsp e (sop pX L) = xsumb (rzat e) L.
Proof.
  intros He. unfold bsp, swap_halves. rewrite (rhalves e He), (rt_sop_gop rows cols), rc_gop_parts.
  assert (L1 : length (skipn N e) = N) by (rewrite skipn_length; lia).
  assert (L2 : length (firstn N e) = N) by (rewrite firstn_length; lia).
  unfold rc_xpart, rc_zpart. cbn [xbit zbit].
  rewrite dot_app by now rewrite rc_flips_length, zeros_length. rewrite dot_zeros_r, xorb_false_r.
  rewrite dot_comm, rc_dot_flips.
  - rewrite dot_zeros_l, xorb_false_r, rc_xsumb_map, rc_xsumb_xsumb. reflexivity.
  - now rewrite zeros_length.
  - intros k Hk. rewrite zeros_length. now apply (rt_keys_klt rows cols Hr Hc L).
Qed.

(* commutation with a plaquette operator = four-term relation on the components *)
Lemma stab_z_sum e x y : length e = (N + N)%nat -> (x - y) mod 2 = 0 ->
  bsp e (stab (x, y)) = xorb (xorb (rxat e (x, y)) (rxat e (x, y + 1))) (xorb (rxat e (x + 1, y + 1)) (rxat e (x + 1, y))).
Proof.
  intros He Hp. unfold rt_stab, rt_plaq_op, rottoric_is_z_plaquette, rottoric_is_x_plaquette.
  replace ((x - y) mod 2 =? 1) with false by lia. cbn [negb].
  rewrite bsp_e_sopZ by auto. cbn [rt_corners xsumb].
  now destruct (rxat e (x, y)), (rxat e (x, y + 1)), (rxat e (x + 1, y + 1)), (rxat e (x + 1, y)).
Qed.
Lemma stab_x_sum e x y : length e = (N + N)%nat -> (x - y) mod 2 = 1 ->
  bsp e (stab (x, y)) = xorb (xorb (rzat e (x, y)) (rzat e (x, y + 1))) (xorb (rzat e (x + 1, y + 1)) (rzat e (x + 1, y))).
Proof.
  intros He Hp. unfold rt_stab, rt_plaq_op, rottoric_is_z_plaquette, rottoric_is_x_plaquette.
  replace ((x - y) mod 2 =? 1) with true by lia. cbn [negb].
  rewrite bsp_e_sopX by auto. cbn [rt_corners xsumb].
  now destruct (rzat e (x, y)), (rzat e (x, y + 1)), (rzat e (x + 1, y + 1)), (rzat e (x + 1, y)).
Qed.

(* e commutes with every stabilizer generator *)
Definition rnormal (e : bsf) : Prop := forall q, In q PI -> bsp e (stab q) = false.
Lemma rnormal_normalizer e : rnormal e <-> normalizer STABS e.
Proof.
  unfold rnormal, normalizer. rewrite (rt_code_eq rows cols Hr Hc). cbn [stabs]. split.
  - intros H s Hs. apply in_map_iff in Hs. destruct Hs as (q & <- & Hq). auto.
  - intros H q Hq. apply H. now apply in_map.
Qed.
(* ... hence with the plaquette operator at every integer index *)
Lemma rnormal_all e q : rnormal e -> bsp e (stab q) = false.
Proof. intros Hn. rewrite <- stab_m2. apply Hn, m2_range. Qed.

(* ---------- parities along rows and columns: the symplectic products with the four logicals ---------- *)
Definition FX (e : bsf) (x y : Z) : bool := rxat e (x, y).
Definition FZ (e : bsf) (x y : Z) : bool := rzat e (x, y).
(* the Z components shifted by one column: closed on the even plaquettes *)
Definition FZs (e : bsf) (x y : Z) : bool := rzat e (x - 1, y).

Lemma FX_permod e x y : FX e x y = FX e (x mod cols) (y mod rows).
Proof. unfold FX. now rewrite <- (rxat_m2 e (x, y)), rt_m2_unfold. Qed.
Lemma FZ_permod e x y : FZ e x y = FZ e (x mod cols) (y mod rows).
Proof. unfold FZ. now rewrite <- (rzat_m2 e (x, y)), rt_m2_unfold. Qed.
Lemma FZs_permod e x y : FZs e x y = FZs e (x mod cols) (y mod rows).
Proof.
  unfold FZs. rewrite <- (rzat_m2 e (x - 1, y)), <- (rzat_m2 e (x mod cols - 1, y mod rows)), !rt_m2_unfold.
  now rewrite Zminus_mod_idemp_l, Z.mod_mod by lia.
Qed.
Lemma FX_closed e : length e = (N + N)%nat -> rnormal e -> forall x y, (x - y) mod 2 = 0 ->
  xorb (xorb (FX e x y) (FX e x (y + 1))) (xorb (FX e (x + 1) (y + 1)) (FX e (x + 1) y)) = false.
Proof. intros He Hn x y Hp. unfold FX. rewrite <- stab_z_sum by auto. now apply rnormal_all. Qed.
Lemma FZs_closed e : length e = (N + N)%nat -> rnormal e -> forall x y, (x - y) mod 2 = 0 ->
  xorb (xorb (FZs e x y) (FZs e x (y + 1))) (xorb (FZs e (x + 1) (y + 1)) (FZs e (x + 1) y)) = false.
Proof.
  intros He Hn x y Hp. unfold FZs. replace (x + 1 - 1) with (x - 1 + 1) by lia.
  rewrite <- stab_x_sum by (auto; lia). now apply rnormal_all.
Qed.

Lemma xsumb_row (f : ridx -> bool) : xsumb f (rt_row cols) = psum cols (fun x => f (x, 0)).
Proof. unfold rt_row, rc_zrange, psum. now rewrite !xsumb_map. Qed.
Lemma xsumb_col (f : ridx -> bool) : xsumb f (rt_col rows) = psum rows (fun y => f (0, y)).
Proof. unfold rt_col, rc_zrange, psum. now rewrite !xsumb_map. Qed.
Lemma bsp_z1_rowp e : length e = (N + N)%nat -> bsp e z1op = ck_rowp cols (FX e) 0.
Proof. intros He. unfold rt_z1. rewrite bsp_e_sopZ, xsumb_row by auto. reflexivity. Qed.
Lemma bsp_z2_colp e : length e = (N + N)%nat -> bsp e z2op = ck_colp rows (FX e) 0.
Proof. intros He. unfold rt_z2. rewrite bsp_e_sopZ, xsumb_col by auto. reflexivity. Qed.
Lemma bsp_x1_colp e : length e = (N + N)%nat -> bsp e x1op = ck_colp rows (FZ e) 0.
Proof. intros He. unfold rt_x1. rewrite bsp_e_sopX, xsumb_col by auto. reflexivity. Qed.
Lemma bsp_x2_rowp e : length e = (N + N)%nat -> bsp e x2op = ck_rowp cols (FZ e) 0.
Proof. intros He. unfold rt_x2. rewrite bsp_e_sopX, xsumb_row by auto. reflexivity. Qed.

Lemma FZs_rowp e y : ck_rowp cols (FZs e) y = ck_rowp cols (FZ e) y.
Proof.
  unfold ck_rowp. rewrite <- (psum_shift cols (fun x => FZs e x y)); [|lia|].
  - apply psum_ext. intros x _. unfold FZs, FZ. do 2 f_equal. lia.
  - intros x. rewrite (FZs_permod e (x + cols)), (FZs_permod e x y). f_equal.
    rewrite <- (Z_mod_plus_full x 1 cols). f_equal. lia.
Qed.
Lemma FZs_colp e x : ck_colp rows (FZs e) (x + 1) = ck_colp rows (FZ e) x.
Proof. unfold ck_colp. apply psum_ext. intros y _. unfold FZs, FZ. do 2 f_equal. lia. Qed.

(* translation invariance: every row / column translate of a logical loop has the same symplectic product with a
   normalizer element *)
Theorem rottoric_translates e : length e = (N + N)%nat -> rnormal e ->
  (forall y, 0 <= y -> psum cols (fun x => rxat e (x, y)) = bsp e z1op) /\
  (forall x, 0 <= x -> psum rows (fun y => rxat e (x, y)) = bsp e z2op) /\
  (forall x, 0 <= x -> psum rows (fun y => rzat e (x, y)) = bsp e x1op) /\
  (forall y, 0 <= y -> psum cols (fun x => rzat e (x, y)) = bsp e x2op).
Proof.
  intros He Hn. rewrite bsp_z1_rowp, bsp_z2_colp, bsp_x1_colp, bsp_x2_rowp by auto.
  pose proof (ck_rowp_const rows cols Hr Er Hc Ec (FX e) (FX_permod e) (FX_closed e He Hn)) as RX.
  pose proof (ck_colp_const rows cols Hr Er Hc Ec (FX e) (FX_permod e) (FX_closed e He Hn)) as CX.
  pose proof (ck_rowp_const rows cols Hr Er Hc Ec (FZs e) (FZs_permod e) (FZs_closed e He Hn)) as RZ.
  pose proof (ck_colp_const rows cols Hr Er Hc Ec (FZs e) (FZs_permod e) (FZs_closed e He Hn)) as CZ.
  repeat split.
  - intros y Hy. apply (RX y Hy).
  - intros x Hx. apply (CX x Hx).
  - intros x Hx. change (ck_colp rows (FZ e) x = ck_colp rows (FZ e) 0).
    rewrite <- (FZs_colp e x), <- (FZs_colp e 0), (CZ (x + 1)), (CZ (0 + 1)) by lia. reflexivity.
  - intros y Hy. change (ck_rowp cols (FZ e) y = ck_rowp cols (FZ e) 0).
    rewrite <- !FZs_rowp. apply (RZ y Hy).
Qed.

(* ------------------------------------------------------------------ *)
(** ** Products of stabilizer generators, component by component       *)
(* ------------------------------------------------------------------ *)
Lemma rxat_reader e s : length e = (N + N)%nat -> rxat e s = bsp (sop pZ [s]) e.
Proof.
  intros He. rewrite bsp_sym by (rewrite ?sop_length; auto using even_NN).
  rewrite bsp_e_sopZ by auto. cbn [xsumb]. now rewrite xorb_false_r.
Qed.
Lemma rzat_reader e s : length e = (N + N)%nat -> rzat e s = bsp (sop pX [s]) e.
Proof.
  intros He. rewrite bsp_sym by (rewrite ?sop_length; auto using even_NN).
  rewrite bsp_e_sopX by auto. cbn [xsumb]. now rewrite xorb_false_r.
Qed.
Notation inc2 := (rt_inc rows cols).
Lemma reader_stab op s q : bsp (sop op [s]) (stab q) =
  xorb (zbit op && xbit (rt_plaq_op q) && Z.odd (inc2 s q)) (xbit op && zbit (rt_plaq_op q) && Z.odd (inc2 s q)).
Proof.
  unfold rt_stab. rewrite (rt_bsp_sop rows cols Hr Hc). cbv zeta. unfold rt_inc. cbn [map]. rewrite rc_pairs_cons.
  change (rc_pairs [] _) with 0. now rewrite Z.add_0_r.
Qed.

Definition rprod (g : ridx -> bool) : bsf := xsum (N + N) (map stab (filter g PI)).
Lemma rprod_rows g : Forall (fun r => length r = (N + N)%nat) (map stab (filter g PI)).
Proof. apply Forall_forall. intros r Hr'. apply in_map_iff in Hr'. destruct Hr' as (q & <- & _). apply stab_length. Qed.
Lemma rprod_length g : length (rprod g) = (N + N)%nat.
Proof. apply xsum_len, rprod_rows. Qed.
Lemma plaq_op_bits q : xbit (rt_plaq_op q) = Bool.eqb (ztype q) false /\ zbit (rt_plaq_op q) = Bool.eqb (ztype q) true.
Proof. unfold rt_plaq_op. destruct (ztype q); split; reflexivity. Qed.
Lemma rxat_rprod g s : rxat (rprod g) s = xsumb (fun q => g q && (Bool.eqb (ztype q) false && Z.odd (inc2 s q))) PI.
Proof.
  rewrite rxat_reader by apply rprod_length. unfold rprod.
  rewrite bsp_xsum_r by (auto using even_NN, rprod_rows, sop_length). rewrite xsumb_map, xsumb_filter.
  apply xsumb_ext. intros q Hq. rewrite reader_stab. destruct (plaq_op_bits q) as [-> _]. cbn [xbit zbit andb].
  now rewrite xorb_false_r.
Qed.
Lemma rzat_rprod g s : rzat (rprod g) s = xsumb (fun q => g q && (Bool.eqb (ztype q) true && Z.odd (inc2 s q))) PI.
Proof.
  rewrite rzat_reader by apply rprod_length. unfold rprod.
  rewrite bsp_xsum_r by (auto using even_NN, rprod_rows, sop_length). rewrite xsumb_map, xsumb_filter.
  apply xsumb_ext. intros q Hq. rewrite reader_stab. destruct (plaq_op_bits q) as [_ ->]. cbn [xbit zbit andb].
  now rewrite xorb_false_l.
Qed.

(* the two plaquettes of type T (true: Z type) that have the site s as a corner *)
Definition radj (T : bool) (s : ridx) : ridx * ridx :=
  if Bool.eqb (ztype s) T then (m2 s, m2 (fst s - 1, snd s - 1)) else (m2 (fst s - 1, snd s), m2 (fst s, snd s - 1)).
Lemma ztype_unfold x y : ztype (x, y) = negb ((x - y) mod 2 =? 1).
Proof. reflexivity. Qed.
Lemma radj_type T s : ztype (fst (radj T s)) = T /\ ztype (snd (radj T s)) = T.
Proof.
  destruct s as [x y]. unfold radj. cbn [fst snd]. destruct (Bool.eqb (ztype (x, y)) T) eqn:E; cbn [fst snd]; rewrite !ztype_m2.
  - apply eqb_prop in E. rewrite <- E, !ztype_unfold. replace (x - 1 - (y - 1)) with (x - y) by lia. auto.
  - rewrite !ztype_unfold in *.
    replace ((x - 1 - y) mod 2 =? 1) with (negb ((x - y) mod 2 =? 1)) by lia.
    replace ((x - (y - 1)) mod 2 =? 1) with (negb ((x - y) mod 2 =? 1)) by lia.
    destruct ((x - y) mod 2 =? 1), T; cbn in *; auto; discriminate.
Qed.
Lemma radj_in T s : In (fst (radj T s)) PI /\ In (snd (radj T s)) PI.
Proof. unfold radj. destruct (Bool.eqb (ztype s) T); cbn [fst snd]; split; apply m2_range. Qed.
Lemma odd_b2z_2 a b : Z.odd (Z.b2z a + Z.b2z b) = xorb a b.
Proof. now destruct a, b. Qed.
Lemma inc_type T s q : In q PI ->
  Bool.eqb (ztype q) T && Z.odd (inc2 s q) = xorb (rc_idx_eqb q (fst (radj T s))) (rc_idx_eqb q (snd (radj T s))).
Proof.
  intros Hq. destruct (Bool.eqb (ztype q) T) eqn:ET; cbn [andb].
  - apply eqb_prop in ET. destruct s as [sx sy], q as [qx qy]. rewrite (rt_edge rows cols Hr Er Hc Ec).
    unfold radj, rt_eqm. rewrite (m2_PI _ Hq). cbn [fst snd]. rewrite <- ET, !ztype_unfold.
    destruct (Z.eqb_spec ((sx - sy - (qx - qy)) mod 2) 0) as [E|E].
    + replace (Bool.eqb (negb ((sx - sy) mod 2 =? 1)) (negb ((qx - qy) mod 2 =? 1))) with true by lia.
      cbn [fst snd]. apply odd_b2z_2.
    + replace (Bool.eqb (negb ((sx - sy) mod 2 =? 1)) (negb ((qx - qy) mod 2 =? 1))) with false by lia.
      cbn [fst snd]. apply odd_b2z_2.
  - destruct (radj_type T s) as [T1 T2].
    destruct (rc_idx_eqb q (fst (radj T s))) eqn:E1.
    { apply rc_idx_eqb_spec in E1. rewrite <- E1 in T1. rewrite T1 in ET. destruct T; discriminate. }
    destruct (rc_idx_eqb q (snd (radj T s))) eqn:E2; [|reflexivity].
    apply rc_idx_eqb_spec in E2. rewrite <- E2 in T2. rewrite T2 in ET. destruct T; discriminate.
Qed.
Lemma pick2_PI (g Fq : ridx -> bool) q1 q2 : In q1 PI -> In q2 PI ->
  (forall q, In q PI -> Fq q = xorb (rc_idx_eqb q q1) (rc_idx_eqb q q2)) -> xsumb (fun q => g q && Fq q) PI = xorb (g q1) (g q2).
Proof. intros H1 H2 HF. apply (xsumb_pick2 rc_idx_eqb rc_idx_eqb_spec g Fq q1 q2 PI NoDup_PI H1 H2 HF). Qed.
Theorem rxat_rprod_adj g s : rxat (rprod g) s = xorb (g (fst (radj false s))) (g (snd (radj false s))).
Proof.
  rewrite rxat_rprod. destruct (radj_in false s) as [I1 I2]. apply pick2_PI; auto. intros q Hq. now apply inc_type.
Qed.
Theorem rzat_rprod_adj g s : rzat (rprod g) s = xorb (g (fst (radj true s))) (g (snd (radj true s))).
Proof.
  rewrite rzat_rprod. destruct (radj_in true s) as [I1 I2]. apply pick2_PI; auto. intros q Hq. now apply inc_type.
Qed.

(* two operators with the same X and Z components at every site are equal *)
Lemma rext_sites a b : length a = (N + N)%nat -> length b = (N + N)%nat ->
  (forall s, rxat a s = rxat b s /\ rzat a s = rzat b s) -> a = b.
Proof.
  intros La Lb H. rewrite <- (firstn_skipn N a), <- (firstn_skipn N b).
  assert (Hk : forall k, (k < N)%nat -> nth k (firstn N a) false = nth k (firstn N b) false /\
                                      nth k (skipn N a) false = nth k (skipn N b) false).
  { intros k Hk. destruct (rt_flatten_surjective rows cols (Z.of_nat k) ltac:(lia)) as [Hb Hf].
    { cbn [rottoric_n_k_d fst]. rewrite rt_n_eq in Hk. lia. }
    set (s := rt_unflatten cols (Z.of_nat k)) in *.
    assert (Es : fl s = k).
    { unfold rt_flat. destruct s as [x y]. apply rt_in_bounds_iff in Hb. rewrite rt_mod_index_small by lia.
      rewrite Hf. lia. }
    specialize (H s). unfold rxat, rzat in H. now rewrite Es in H. }
  f_equal.
  - apply (nth_ext _ _ false false); [rewrite !firstn_length; lia|]. intros k Hk'. rewrite firstn_length in Hk'.
    apply Hk. lia.
  - apply (nth_ext _ _ false false); [rewrite !skipn_length; lia|]. intros k Hk'. rewrite skipn_length in Hk'.
    apply Hk. lia.
Qed.

(* ------------------------------------------------------------------ *)
(** ** Completeness of the four logicals (centralizer lemma)           *)
(* ------------------------------------------------------------------ *)
Definition GX (e : bsf) : Z -> Z -> bool := ck_G rows cols (FX e).
Definition GZ (e : bsf) (x y : Z) : bool := ck_G rows cols (FZs e) (x + 1) y.
(* coefficient of the plaquette q in the product: a potential of the X bits for the X-type plaquettes, of the
   Z bits for the Z-type plaquettes *)
Definition rgamma (e : bsf) (q : ridx) : bool := if ztype q then GZ e (fst q) (snd q) else GX e (fst q) (snd q).
Lemma rgamma_m2 e q : rgamma e (m2 q) = rgamma e q.
Proof.
  unfold rgamma. rewrite ztype_m2. destruct q as [x y]. rewrite rt_m2_unfold. cbn [fst snd]. unfold GZ, GX.
  destruct (ztype (x, y)).
  - rewrite (ck_G_mod rows cols Hr Er Hc Ec), (ck_G_mod rows cols Hr Er Hc Ec _ (x + 1) y).
    now rewrite Zplus_mod_idemp_l, Z.mod_mod by lia.
  - now rewrite <- (ck_G_mod rows cols Hr Er Hc Ec).
Qed.

Section Central.
Variable e : bsf.
Hypothesis He : length e = (N + N)%nat.
Hypothesis Hn : rnormal e.
Hypothesis Hx1 : bsp e x1op = false.
Hypothesis Hx2 : bsp e x2op = false.
Hypothesis Hz1 : bsp e z1op = false.
Hypothesis Hz2 : bsp e z2op = false.

Lemma FX_exact x y : FX e x y = if (x - y) mod 2 =? 1 then xorb (GX e x y) (GX e (x - 1) (y - 1))
                                else xorb (GX e (x - 1) y) (GX e x (y - 1)).
Proof.
  apply (ck_exact rows cols Hr Er Hc Ec (FX e) (FX_permod e) (FX_closed e He Hn)).
  - now rewrite <- bsp_z1_rowp.
  - now rewrite <- bsp_z2_colp.
Qed.
Lemma FZ_exact x y : FZ e x y = if (x - y) mod 2 =? 0 then xorb (GZ e x y) (GZ e (x - 1) (y - 1))
                                else xorb (GZ e (x - 1) y) (GZ e x (y - 1)).
Proof.
  pose proof (ck_exact rows cols Hr Er Hc Ec (FZs e) (FZs_permod e) (FZs_closed e He Hn)) as H.
  specialize (H ltac:(rewrite FZs_rowp, <- bsp_x2_rowp; auto)).
  specialize (H ltac:(rewrite <- (ck_colp_const rows cols Hr Er Hc Ec (FZs e) (FZs_permod e) (FZs_closed e He Hn) (0 + 1)) by lia;
                      rewrite FZs_colp, <- bsp_x1_colp; auto)).
  specialize (H (x + 1) y). unfold FZs in H at 1. replace (x + 1 - 1) with x in H by lia.
  unfold FZ. rewrite H. unfold GZ. replace (x - 1 + 1) with x by lia.
  replace ((x + 1 - y) mod 2 =? 1) with ((x - y) mod 2 =? 0) by lia. reflexivity.
Qed.

Lemma rprod_agrees s : rxat (rprod (rgamma e)) s = rxat e s /\ rzat (rprod (rgamma e)) s = rzat e s.
Proof.
  destruct s as [x y]. rewrite rxat_rprod_adj, rzat_rprod_adj. unfold radj. cbn [fst snd].
  pose proof (FX_exact x y) as EX. pose proof (FZ_exact x y) as EZ. unfold FX in EX. unfold FZ in EZ.
  rewrite EX, EZ. clear EX EZ.
  assert (P1 : ((x - 1 - (y - 1)) mod 2 =? 1) = ((x - y) mod 2 =? 1)) by lia.
  assert (P2 : ((x - 1 - y) mod 2 =? 1) = negb ((x - y) mod 2 =? 1)) by lia.
  assert (P3 : ((x - (y - 1)) mod 2 =? 1) = negb ((x - y) mod 2 =? 1)) by lia.
  assert (P4 : ((x - y) mod 2 =? 0) = negb ((x - y) mod 2 =? 1)) by lia.
  rewrite ztype_unfold, P4.
  destruct ((x - y) mod 2 =? 1) eqn:E; cbn [negb Bool.eqb fst snd]; rewrite !rgamma_m2; unfold rgamma;
    rewrite !ztype_unfold; cbn [fst snd]; rewrite ?P1, ?P2, ?P3, E; cbn [negb]; auto.
Qed.
Theorem rprod_gamma : rprod (rgamma e) = e.
Proof. apply rext_sites; auto using rprod_length. apply rprod_agrees. Qed.
End Central.

(* ------------------------------------------------------------------ *)
(** ** Spans: all generators, and the generators other than the base plaquettes (0, 0) [Z type], (1, 0) [X type] *)
(* ------------------------------------------------------------------ *)
Definition rbase (q : ridx) : ridx := if ztype q then (0, 0) else (1, 0).
Definition rkeep (q : ridx) : bool := negb (rc_idx_eqb q (0, 0) || rc_idx_eqb q (1, 0)).
Definition rottoric_reduced_indices : list ridx := filter rkeep PI.
Definition rottoric_reduced_stabs : list bsf := map stab rottoric_reduced_indices.

Lemma in_rreduced q : In q rottoric_reduced_indices <-> In q PI /\ rkeep q = true.
Proof. apply filter_In. Qed.
Lemma NoDup_rreduced : NoDup rottoric_reduced_indices.
Proof. apply NoDup_filter, NoDup_PI. Qed.
Lemma rstabs_eq : STABS = map stab PI.
Proof. now rewrite (rt_code_eq rows cols Hr Hc). Qed.
Lemma rstabs_rowlen : rowlen (N + N) STABS.
Proof. rewrite rstabs_eq. apply Forall_forall. intros r Hr'. apply in_map_iff in Hr'. destruct Hr' as (q & <- & _). apply stab_length. Qed.
Lemma rrstabs_rowlen : rowlen (N + N) rottoric_reduced_stabs.
Proof. apply Forall_forall. intros r Hr'. apply in_map_iff in Hr'. destruct Hr' as (q & <- & _). apply stab_length. Qed.
Lemma rreduced_incl : incl rottoric_reduced_stabs STABS.
Proof.
  rewrite rstabs_eq. intros s Hs. apply in_map_iff in Hs. destruct Hs as (q & <- & Hq).
  apply in_map. now apply in_rreduced in Hq.
Qed.
Lemma base_in_PI : In (0, 0) PI /\ In (1, 0) PI.
Proof. split; apply in_PI_iff; cbn [fst snd]; lia. Qed.

Lemma rgamma_keep e : length e = (N + N)%nat -> rnormal e -> forall q, rgamma e q = true -> rkeep q = true.
Proof.
  intros He Hn q H. unfold rkeep. destruct (rc_idx_eqb q (0, 0)) eqn:E1.
  { apply rc_idx_eqb_spec in E1. subst q. unfold rgamma, GZ in H. cbn [ztype rottoric_is_x_plaquette fst snd] in H.
    change (ck_G rows cols (FZs e) 1 0 = true) in H.
    rewrite (ck_G_origin rows cols Hr Er Hc Ec) in H. discriminate. }
  destruct (rc_idx_eqb q (1, 0)) eqn:E2; [|reflexivity].
  apply rc_idx_eqb_spec in E2. subst q. unfold rgamma, GX in H. change (ck_G rows cols (FX e) 1 0 = true) in H.
  rewrite (ck_G_origin rows cols Hr Er Hc Ec) in H. discriminate.
Qed.

Lemma rprod_in_span g : in_spanP (N + N) STABS (rprod g).
Proof.
  unfold rprod. rewrite rstabs_eq. exists (map g PI). split; [now rewrite !map_length|].
  rewrite lincomb_select. f_equal. apply select_map_filter2.
Qed.
Lemma rprod_in_rspan g : (forall q, g q = true -> rkeep q = true) -> in_spanP (N + N) rottoric_reduced_stabs (rprod g).
Proof.
  intros H. exists (map g rottoric_reduced_indices). split; [unfold rottoric_reduced_stabs; now rewrite !map_length|].
  rewrite lincomb_select. unfold rottoric_reduced_stabs, rprod. rewrite select_map_filter2. unfold rottoric_reduced_indices.
  rewrite filter_filter_impl by (intros; auto). reflexivity.
Qed.

(* C08/C07, completeness of the four logicals: an operator commuting with every stabilizer generator and with the
   four logical operators is a product of stabilizer generators *)
Theorem rottoric_centralizer_reduced e : length e = (N + N)%nat -> normalizer STABS e ->
  bsp e x1op = false -> bsp e x2op = false -> bsp e z1op = false -> bsp e z2op = false ->
  in_spanP (N + N) rottoric_reduced_stabs e.
Proof.
  intros He Hn A B C D. apply rnormal_normalizer in Hn.
  rewrite <- (rprod_gamma e He Hn A B C D). apply rprod_in_rspan. now apply rgamma_keep.
Qed.
Theorem rottoric_centralizer_sec e : length e = (N + N)%nat -> normalizer STABS e ->
  bsp e x1op = false -> bsp e x2op = false -> bsp e z1op = false -> bsp e z2op = false ->
  in_spanP (N + N) STABS e.
Proof.
  intros He Hn A B C D. apply rnormal_normalizer in Hn.
  rewrite <- (rprod_gamma e He Hn A B C D). apply rprod_in_span.
Qed.

(* every generator is a product of the n - 2 others: the two dependencies *)
Lemma stab_normalizer q : normalizer STABS (stab q).
Proof. apply rnormal_normalizer. intros q' Hq'. now apply rottoric_stabilizers_commute_all. Qed.
Theorem rottoric_stab_in_reduced_span q : in_spanP (N + N) rottoric_reduced_stabs (stab q).
Proof.
  destruct (rottoric_stabilizer_logicals_all rows cols Hr Er Hc Ec q) as (A & B & C & D).
  apply rottoric_centralizer_reduced; auto using stab_length, stab_normalizer.
Qed.

(* ------------------------------------------------------------------ *)
(** ** Independence of the n - 2 generators: dual vectors = paths to the base plaquette of the same type *)
(* ------------------------------------------------------------------ *)
Definition rdualv (q : ridx) : bsf :=
  match rt_path rows cols q (rbase q) (rt_identity rows cols) with Some p => rc_to_bsf p | None => [] end.
Lemma rbase_type q : ztype q = ztype (rbase q).
Proof. unfold rbase. destruct (ztype q) eqn:E; reflexivity. Qed.
Lemma rkeep_spec q : rkeep q = true -> rc_idx_eqb q (rbase q) = false.
Proof.
  unfold rkeep, rbase. destruct (ztype q); destruct (rc_idx_eqb q (0, 0)), (rc_idx_eqb q (1, 0)); cbn; congruence.
Qed.
Lemma rdualv_spec q : In q rottoric_reduced_indices -> length (rdualv q) = (N + N)%nat /\
  forall q', In q' rottoric_reduced_indices -> bsp (rdualv q) (stab q') = rc_idx_eqb q' q.
Proof.
  intros Hq. apply in_rreduced in Hq. destruct Hq as [Hq Hk].
  destruct (rottoric_path_bsp_all_sec rows cols Hr Er Hc Ec q (rbase q) (rbase_type q)) as (p & Hp & Hb).
  unfold rdualv. rewrite Hp. split.
  - unfold rt_path in Hp. destruct (rt_path_indices rows cols q (rbase q)) as [L|]; [|discriminate]. injection Hp as <-.
    apply (sop_length _ L).
  - intros q' Hq'. apply in_rreduced in Hq'. destruct Hq' as [Hq' Hk']. rewrite Hb.
    assert (Eb : m2 (rbase q) = rbase q).
    { apply m2_PI. unfold rbase. destruct base_in_PI. now destruct (ztype q). }
    rewrite (m2_PI _ Hq), (m2_PI _ Hq'), Eb.
    destruct (Bool.eqb (ztype q') (ztype q)) eqn:ET; cbn [andb].
    + apply eqb_prop in ET. assert (Eq : rbase q = rbase q') by (unfold rbase; now rewrite ET).
      rewrite Eq, (rkeep_spec q' Hk'). apply xorb_false_r.
    + destruct (rc_idx_eqb q' q) eqn:E; [|reflexivity]. apply rc_idx_eqb_spec in E. subst q'.
      rewrite eqb_reflx in ET. discriminate.
Qed.

Theorem rottoric_reduced_independent : independent (N + N) rottoric_reduced_stabs.
Proof.
  intros cs HL Hz. rewrite lincomb_select in Hz. rewrite <- HL. apply all_false_zeros.
  unfold rottoric_reduced_stabs in *. rewrite map_length in HL.
  apply (dual_independent rc_idx_eqb rc_idx_eqb_spec rottoric_reduced_indices stab rdualv (N + N) NoDup_rreduced even_NN); auto.
  - intros q _. apply stab_length.
  - intros q Hq. apply (rdualv_spec q Hq).
  - intros q q' Hq Hq'. now apply (rdualv_spec q Hq).
Qed.

(* ---------- counting ---------- *)
Lemma rreduced_length : (length rottoric_reduced_indices + 2 = N)%nat.
Proof.
  rewrite <- length_PI. rewrite <- (filter_partition_length rkeep PI). fold rottoric_reduced_indices. f_equal.
  set (M := filter (fun a => negb (rkeep a)) PI).
  assert (HM : forall q, In q M <-> q = (0, 0) \/ q = (1, 0)).
  { intros q. unfold M. rewrite filter_In. unfold rkeep. rewrite negb_involutive, orb_true_iff, !rc_idx_eqb_spec. split; [tauto|].
    intros H. split; [|exact H]. destruct base_in_PI. destruct H as [-> | ->]; auto. }
  assert (L1 : (length M <= 2)%nat).
  { apply (NoDup_incl_length (l' := [(0, 0); (1, 0)])); [apply NoDup_filter, NoDup_PI|].
    intros q Hq. apply HM in Hq. cbn. destruct Hq; auto. }
  assert (L2 : (2 <= length M)%nat).
  { apply (NoDup_incl_length (l := [(0, 0); (1, 0)])).
    - constructor; [intros [H|[]]; discriminate|]. constructor; [intros []|constructor].
    - intros q Hq. apply HM. cbn in Hq. destruct Hq as [<-|[<-|[]]]; auto. }
  lia.
Qed.
Lemma rt_n_ge_4 : (4 <= N)%nat.
Proof. rewrite rt_n_eq. nia. Qed.

(* ---------- C07: rank of the stabilizer generators ---------- *)
Theorem rottoric_stabilizers_rank : rank_is (N + N) STABS (N - 2).
Proof.
  exists rottoric_reduced_stabs. split; [apply rreduced_incl|].
  split; [unfold rottoric_reduced_stabs; rewrite map_length; pose proof rreduced_length; lia|].
  split; [apply rottoric_reduced_independent|].
  rewrite rstabs_eq. intros r Hr'. apply in_map_iff in Hr'. destruct Hr' as (q & <- & Hq).
  apply rottoric_stab_in_reduced_span.
Qed.

(* ---------- ... and together with the four logical operators ---------- *)
Lemma rottoric_logical_values :
  bsp x1op z1op = true /\ bsp x2op z1op = false /\ bsp z1op z1op = false /\ bsp z2op z1op = false /\
  bsp x1op z2op = false /\ bsp x2op z2op = true /\ bsp z1op z2op = false /\ bsp z2op z2op = false /\
  bsp x1op x1op = false /\ bsp x2op x1op = false /\ bsp z1op x1op = true /\ bsp z2op x1op = false /\
  bsp x1op x2op = false /\ bsp x2op x2op = false /\ bsp z1op x2op = false /\ bsp z2op x2op = true.
Proof.
  pose proof (rottoric_logicals_canonical_all rows cols Hr Er Hc Ec) as H.
  destruct (H 0%nat 0%nat ltac:(cbn; lia) ltac:(cbn; lia)) as (A1 & A2 & A3 & A4).
  destruct (H 0%nat 1%nat ltac:(cbn; lia) ltac:(cbn; lia)) as (B1 & B2 & B3 & B4).
  destruct (H 1%nat 0%nat ltac:(cbn; lia) ltac:(cbn; lia)) as (C1 & C2 & C3 & C4).
  destruct (H 1%nat 1%nat ltac:(cbn; lia) ltac:(cbn; lia)) as (D1 & D2 & D3 & D4).
  cbn [nth Nat.eqb] in *. repeat split; assumption.
Qed.

Notation LOGS := [x1op; x2op; z1op; z2op].
Lemma rlogs_rowlen : rowlen (N + N) LOGS.
Proof. repeat constructor; apply sop_length. Qed.

Theorem rottoric_reduced_logicals_independent : independent (N + N) (rottoric_reduced_stabs ++ LOGS).
Proof.
  intros cs HL Hz. rewrite lincomb_select in Hz. rewrite <- HL. apply all_false_zeros.
  rewrite app_length in HL. cbn [length] in HL.
  destruct (split4 cs (length rottoric_reduced_stabs) HL) as (cs1 & a & b & c & d & -> & Hl1).
  rewrite select_app in Hz by exact Hl1.
  set (T := select cs1 rottoric_reduced_stabs ++ select [a; b; c; d] LOGS) in *.
  assert (HT : Forall (fun r => length r = (N + N)%nat) T).
  { apply Forall_app. split; apply Forall_forall; intros r Hr'; apply select_In in Hr'.
    - pose proof rrstabs_rowlen as HS. unfold rowlen in HS. rewrite Forall_forall in HS. auto.
    - pose proof rlogs_rowlen as HS. unfold rowlen in HS. rewrite Forall_forall in HS. auto. }
  assert (Hsel0 : forall l, (forall q, bsp (stab q) l = false) ->
                            xsumb (fun s => bsp s l) (select cs1 rottoric_reduced_stabs) = false).
  { intros l Hl. rewrite <- (xsumb_false (select cs1 rottoric_reduced_stabs)). apply xsumb_ext. intros s Hs. apply select_In in Hs.
    apply in_map_iff in Hs. destruct Hs as (q & <- & Hq). apply Hl. }
  assert (Hpair : forall l, length l = (N + N)%nat -> (forall q, bsp (stab q) l = false) ->
            xorb (a && bsp x1op l) (xorb (b && bsp x2op l) (xorb (c && bsp z1op l) (d && bsp z2op l))) = false).
  { intros l Hll Hl. pose proof (bsp_xsum_l (N + N) l T Hll even_NN HT) as HB. rewrite Hz in HB.
    rewrite bsp_zeros_l in HB by (auto using even_NN). unfold T in HB. rewrite xsumb_app in HB.
    rewrite (Hsel0 l Hl), select4 in HB. rewrite xorb_false_l in HB. now symmetry. }
  destruct rottoric_logical_values as (V1 & V2 & V3 & V4 & V5 & V6 & V7 & V8 & V9 & V10 & V11 & V12 & V13 & V14 & V15 & V16).
  pose proof (rottoric_stabilizer_logicals_all rows cols Hr Er Hc Ec) as SL.
  assert (Ha : a = false).
  { pose proof (Hpair z1op (sop_length _ _) (fun q => proj1 (proj2 (proj2 (SL q))))) as H.
    rewrite V1, V2, V3, V4 in H. destruct a, b, c, d; cbn in H; congruence. }
  assert (Hb : b = false).
  { pose proof (Hpair z2op (sop_length _ _) (fun q => proj2 (proj2 (proj2 (SL q))))) as H.
    rewrite V5, V6, V7, V8 in H. destruct a, b, c, d; cbn in H; congruence. }
  assert (Hc' : c = false).
  { pose proof (Hpair x1op (sop_length _ _) (fun q => proj1 (SL q))) as H.
    rewrite V9, V10, V11, V12 in H. destruct a, b, c, d; cbn in H; congruence. }
  assert (Hd : d = false).
  { pose proof (Hpair x2op (sop_length _ _) (fun q => proj1 (proj2 (SL q)))) as H.
    rewrite V13, V14, V15, V16 in H. destruct a, b, c, d; cbn in H; congruence. }
  subst a b c d. unfold T in Hz. cbn [select] in Hz. rewrite app_nil_r in Hz.
  intros x Hx. apply in_app_iff in Hx. destruct Hx as [Hx|Hx]; [|cbn in Hx; destruct Hx as [<-|[<-|[<-|[<-|[]]]]]; reflexivity].
  pose proof rottoric_reduced_independent as HI. specialize (HI cs1 Hl1). rewrite lincomb_select in HI. specialize (HI Hz).
  rewrite HI in Hx. unfold zeros in Hx. now apply repeat_spec in Hx.
Qed.

(* C07 in the vocabulary of Core/Rank.v: rank n - k of the stabilizer matrix, rank n + k with the logicals *)
Theorem rottoric_rank_is_all_sec :
  rank_is (N + N) STABS (N - 2) /\
  rank_is (N + N) (STABS ++ lxs (rottoric_code rows cols) ++ lzs (rottoric_code rows cols)) (N + 2).
Proof.
  split; [apply rottoric_stabilizers_rank|].
  exists (rottoric_reduced_stabs ++ LOGS). pose proof rreduced_incl as HI. pose proof rstabs_eq as ES.
  rewrite (rt_code_eq rows cols Hr Hc) in *. cbn [stabs lxs lzs app] in *.
  split; [|split; [|split]].
  - intros s Hs. apply in_app_iff in Hs. apply in_app_iff. destruct Hs as [Hs|Hs]; [left; now apply HI|right; exact Hs].
  - rewrite app_length. unfold rottoric_reduced_stabs. rewrite map_length. cbn [length]. pose proof rreduced_length. pose proof rt_n_ge_4. lia.
  - apply rottoric_reduced_logicals_independent.
  - intros r Hr'. apply in_app_iff in Hr'. destruct Hr' as [Hs|Hs].
    + apply in_spanP_app_l; [apply rrstabs_rowlen|apply rlogs_rowlen|].
      apply in_map_iff in Hs. destruct Hs as (q & <- & Hq). apply rottoric_stab_in_reduced_span.
    + apply in_spanP_In; [apply Forall_app; split; [apply rrstabs_rowlen|apply rlogs_rowlen]|].
      apply in_app_iff. right. exact Hs.
Qed.

(* ---------- the two dependencies, explicitly: the Z-type plaquette operators multiply to the identity, and so do the
   X-type plaquette operators ---------- *)
Lemma rat_zeros s : rxat (zeros (N + N)) s = false /\ rzat (zeros (N + N)) s = false.
Proof.
  unfold rxat, rzat, zeros. split; apply nth_all_false; intros x Hx;
    [apply firstn_In_l in Hx|apply skipn_In_l in Hx]; now apply repeat_spec in Hx.
Qed.
Theorem rottoric_type_products_identity :
  rprod ztype = zeros (N + N) /\ rprod (fun q => negb (ztype q)) = zeros (N + N).
Proof.
  split; apply rext_sites; try apply rprod_length; try apply zeros_length; intros s;
    destruct (rat_zeros s) as [-> ->]; rewrite rxat_rprod_adj, rzat_rprod_adj;
    destruct (radj_type false s) as [-> ->]; destruct (radj_type true s) as [-> ->]; auto.
Qed.

(* ---------- the matrix shapes: rows*cols generators (n - k + 2: two are dependent), all rows of length 2 n ---------- *)
Theorem rottoric_shape_sec : rc_shape (rottoric_n_k_d rows cols) (rottoric_code rows cols) 2.
Proof.
  assert (H4 : 4 <= rows * cols) by nia.
  unfold rc_shape, rottoric_n_k_d. cbv beta iota zeta. rewrite (rt_code_eq rows cols Hr Hc). cbn [stabs lxs lzs].
  split; [|split; [|split; [|split]]].
  - rewrite map_length, length_PI, rt_n_eq. lia.
  - intros r Hr'. replace (Z.to_nat (2 * (rows * cols))) with (N + N)%nat by (rewrite rt_n_eq; lia).
    apply in_app_iff in Hr'. destruct Hr' as [Hs|Hs].
    + apply in_map_iff in Hs. destruct Hs as (q & <- & _). apply stab_length.
    + cbn in Hs. destruct Hs as [<-|[<-|[<-|[<-|[]]]]]; apply sop_length.
  - reflexivity.
  - reflexivity.
  - lia.
Qed.
End RotToricRank.

(* ================================================================== *)
(** * Closed statements for all admissible sizes (rows, cols even, >= 2) *)
(* ================================================================== *)
(* C07 in the vocabulary of the bounded theorem RotToricBounded.rottoric_rank_upto_10, for every size *)
Theorem rottoric_rank_is_all : forall rows cols, 2 <= rows -> rows mod 2 = 0 -> 2 <= cols -> cols mod 2 = 0 ->
  rc_rank (rottoric_n_k_d rows cols) (rottoric_code rows cols).
Proof.
  intros rows cols Hr Er Hc Ec. unfold rc_rank, rottoric_n_k_d, logicals. cbv beta iota zeta.
  destruct (rottoric_rank_is_all_sec rows cols Hr Er Hc Ec) as [H1 H2]. rewrite rt_n_eq in *.
  replace (Z.to_nat (2 * (rows * cols))) with (Z.to_nat (rows * cols) + Z.to_nat (rows * cols))%nat by lia.
  replace (Z.to_nat (rows * cols - 2)) with (Z.to_nat (rows * cols) - 2)%nat by lia.
  replace (Z.to_nat (rows * cols + 2)) with (Z.to_nat (rows * cols) + 2)%nat by lia.
  split; assumption.
Qed.
Definition rottoric_rank_statement : Prop := forall rows cols, 2 <= rows -> rows mod 2 = 0 -> 2 <= cols -> cols mod 2 = 0 ->
  let cd := rottoric_code rows cols in
  let '(n, k, d) := rottoric_n_k_d rows cols in
  rank_is (2 * Z.to_nat n) (stabs cd) (Z.to_nat (n - k)) /\
  rank_is (2 * Z.to_nat n) (stabs cd ++ lxs cd ++ lzs cd) (Z.to_nat (n + k)).
Theorem rottoric_rank_all : rottoric_rank_statement.
Proof.
  intros rows cols Hr Er Hc Ec. unfold rottoric_n_k_d. cbv beta iota zeta.
  destruct (rottoric_rank_is_all_sec rows cols Hr Er Hc Ec) as [H1 H2]. rewrite rt_n_eq in *.
  replace (2 * Z.to_nat (rows * cols))%nat with (Z.to_nat (rows * cols) + Z.to_nat (rows * cols))%nat by lia.
  replace (Z.to_nat (rows * cols - 2)) with (Z.to_nat (rows * cols) - 2)%nat by lia.
  replace (Z.to_nat (rows * cols + 2)) with (Z.to_nat (rows * cols) + 2)%nat by lia.
  split; assumption.
Qed.

(* C07: validity and shapes for every size — the statement left open in RotToricBounded.v, now a theorem *)
Theorem rottoric_valid_shape_all : rottoric_valid_statement.
Proof.
  intros rows cols Hr Er Hc Ec. split; [now apply rottoric_valid_all|now apply rottoric_shape_sec].
Qed.

(* the centralizer lemma as a closed statement *)
Definition rottoric_centralizer_statement : Prop :=
  forall rows cols, 2 <= rows -> rows mod 2 = 0 -> 2 <= cols -> cols mod 2 = 0 -> forall e : bsf,
    length e = (rt_n rows cols + rt_n rows cols)%nat -> normalizer (stabs (rottoric_code rows cols)) e ->
    bsp e (rt_x1 rows cols) = false -> bsp e (rt_x2 rows cols) = false ->
    bsp e (rt_z1 rows cols) = false -> bsp e (rt_z2 rows cols) = false ->
    in_spanP (rt_n rows cols + rt_n rows cols) (stabs (rottoric_code rows cols)) e.
Theorem rottoric_centralizer : rottoric_centralizer_statement.
Proof. intros rows cols Hr Er Hc Ec e. now apply rottoric_centralizer_sec. Qed.
(* the same with the logical operators as the code object supplies them *)
Theorem rottoric_centralizer_code : forall rows cols, 2 <= rows -> rows mod 2 = 0 -> 2 <= cols -> cols mod 2 = 0 ->
  forall e : bsf, length e = (2 * rt_n rows cols)%nat -> normalizer (stabs (rottoric_code rows cols)) e ->
    (forall l, In l (logicals (rottoric_code rows cols)) -> bsp e l = false) ->
    in_spanP (2 * rt_n rows cols) (stabs (rottoric_code rows cols)) e.
Proof.
  intros rows cols Hr Er Hc Ec e He Hn Hl.
  replace (2 * rt_n rows cols)%nat with (rt_n rows cols + rt_n rows cols)%nat in * by lia.
  rewrite (rt_code_eq rows cols Hr Hc) in Hl. unfold logicals in Hl. cbn [lxs lzs app] in Hl.
  apply rottoric_centralizer; auto; apply Hl; cbn; auto.
Qed.

(* non-vacuity *)
Example rottoric_rank_is_4x6 : rank_is 48 (stabs (rottoric_code 4 6)) 22.
Proof. exact (proj1 (rottoric_rank_is_all_sec 4 6 ltac:(lia) ltac:(reflexivity) ltac:(lia) ltac:(reflexivity))). Qed.
Example rottoric_rank_logicals_4x6 :
  rank_is 48 (stabs (rottoric_code 4 6) ++ lxs (rottoric_code 4 6) ++ lzs (rottoric_code 4 6)) 26.
Proof. exact (proj2 (rottoric_rank_is_all_sec 4 6 ltac:(lia) ltac:(reflexivity) ltac:(lia) ltac:(reflexivity))). Qed.
(* a product of two generators of different types: the hypotheses of the centralizer lemma hold *)
Example rottoric_centralizer_hyps_4x6 :
  let e := xorv (rt_stab 4 6 (1, 2)) (rt_stab 4 6 (5, 3)) in
  length e = 48%nat /\ normalizerb (stabs (rottoric_code 4 6)) e = true /\
  bsp e (rt_x1 4 6) = false /\ bsp e (rt_x2 4 6) = false /\ bsp e (rt_z1 4 6) = false /\ bsp e (rt_z2 4 6) = false /\
  bsf_wt e = 8%nat.
Proof. vm_compute. repeat split; reflexivity. Qed.

Print Assumptions rottoric_rank_is_all.
Print Assumptions rottoric_rank_all.
Print Assumptions rottoric_centralizer.
Print Assumptions rottoric_valid_shape_all.
