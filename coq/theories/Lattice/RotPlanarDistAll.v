(* Lattice/RotPlanarDistAll.v — C08 for the rotated planar code, ALL sizes rows, cols >= 3: the advertised
   d = min(rows, cols) is the true minimum distance ([rotplanar_is_distance_all], in the sense of
   Core/Dist.is_distance; [rotplanar_distance_all] is RotPlanarBounded.rotplanar_distance_statement).

   1. Translate argument.  Commutation with a Z-type (X-type) generator is a four-corner relation on the X (Z)
      components; summed along a column (row) of generators of one type it telescopes: the X components on the
      sites (x, 0..y) and (x + 1, 0..y) have the same parity whenever the Z-type plaquettes (x, y') tile these
      two column segments.  Hence for an operator e commuting with all generators the parity of the X components
      along a full column does not depend on the column (the column translates of logical Z are
      stabilizer-equivalent), so if e anticommutes with logical Z it has an X or Y in every one of the `cols`
      columns; symmetrically, anticommuting with logical X gives a Z or Y in every one of the `rows` rows
      ([rotplanar_anticommute_z_weight], [rotplanar_anticommute_x_weight], [rotplanar_distance_lower_partial]).
   2. Completeness of the logical pair ([rotplanar_centralizer]): an operator commuting with all generators and
      with both logicals IS a product of generators, with explicit coefficients: the X-type plaquette (x, y) is
      taken iff the X components on (c, 0), ..., (c, y) have odd parity (c = an in-lattice column of the
      plaquette; the choice does not matter by 1), the Z-type plaquette (x, y) iff the Z components on
      (0, r), ..., (x, r) have odd parity.  Checked site by site through the flatten bijection.
   3. Hence a non-trivial normalizer element anticommutes with a logical and 1 applies; the upper bound is the
      lighter supplied logical (RotPlanarAll.rp_logical_x_weight / rp_logical_z_weight). *)
From Coq Require Import ZArith List Bool Lia ZifyBool.
From QV Require Import Core.Bits Core.Pauli Core.Symp Core.Code Core.Span Core.Rank Core.Dist Core.DistCSS
  Generated.LatticeArith Lattice.Planar Lattice.PlanarAll Lattice.PlanarRankAll Lattice.PlanarDistAll
  Lattice.ToricRankAll Lattice.RotPlanar Lattice.RotPlanarAll Lattice.RotPlanarValidAll Lattice.RotPlanarBounded
  Lattice.RotPlanarRankAll.
Import ListNotations.
Open Scope Z_scope.
Ltac Zify.zify_post_hook ::= Z.to_euclidean_division_equations.

(* ------------------------------------------------------------------ *)
(** * Generic: prefix sums along a column and the telescoping lemma    *)
(* ------------------------------------------------------------------ *)
(* g (x, 0) + ... + g (x, y) *)
Definition rc_colsum (g : ridx -> bool) (x y : Z) : bool :=
  xsumb (fun i => g (x, Z.of_nat i)) (seq 0 (Z.to_nat (y + 1))).
Definition rc_tr (g : ridx -> bool) : ridx -> bool := fun s => g (snd s, fst s).

Lemma rc_colsum_neg g x y : y <= -1 -> rc_colsum g x y = false.
Proof. intros H. unfold rc_colsum. replace (Z.to_nat (y + 1)) with 0%nat by lia. reflexivity. Qed.
Lemma rc_colsum_step g x y : 0 <= y -> rc_colsum g x y = xorb (rc_colsum g x (y - 1)) (g (x, y)).
Proof.
  intros H. unfold rc_colsum. replace (Z.to_nat (y + 1)) with (S (Z.to_nat (y - 1 + 1))) by lia.
  rewrite xsumb_seq_S. do 3 f_equal. lia.
Qed.
Lemma rc_colsum_step2 g x y : g (x, -1) = false -> -2 <= y ->
  rc_colsum g x (y + 2) = xorb (rc_colsum g x y) (xorb (g (x, y + 1)) (g (x, y + 2))).
Proof.
  intros H0 Hy. rewrite (rc_colsum_step g x (y + 2)) by lia. replace (y + 2 - 1) with (y + 1) by lia.
  destruct (Z.eq_dec y (-2)) as [->|Hne].
  - rewrite !rc_colsum_neg by lia. change (-2 + 1) with (-1). rewrite H0. now destruct (g (x, -2 + 2)).
  - rewrite (rc_colsum_step g x (y + 1)) by lia. replace (y + 1 - 1) with y by lia.
    now destruct (rc_colsum g x y), (g (x, y + 1)), (g (x, y + 2)).
Qed.
Lemma rp_four_tr g x y : rp_four (rc_tr g) y x = rp_four g x y.
Proof.
  unfold rp_four, rc_tr. cbn [fst snd].
  now destruct (g (x, y)), (g (x, y + 1)), (g (x + 1, y + 1)), (g (x + 1, y)).
Qed.

(* if the four-corner relations hold on the plaquettes (x, y') with y' = p (mod 2), then the prefix sums of the
   columns x and x + 1 agree at every height y = p + 1 (mod 2) *)
Lemma rc_col_telescope (g : ridx -> bool) (x H p : Z) :
  g (x, -1) = false -> g (x + 1, -1) = false ->
  (forall y', -1 <= y' <= H - 1 -> (y' - p) mod 2 = 0 -> rp_four g x y' = false) ->
  forall y, -2 <= y <= H -> (y - p) mod 2 = 1 -> rc_colsum g x y = rc_colsum g (x + 1) y.
Proof.
  intros G0 G1 HF.
  assert (K : forall k : nat, forall y, y = 2 * Z.of_nat k - 2 + (p + 1) mod 2 -> y <= H ->
              rc_colsum g x y = rc_colsum g (x + 1) y).
  { induction k as [|k IH]; intros y Ey Hy.
    - destruct (Z.eq_dec y (-1)) as [->|Hne]; [now rewrite !rc_colsum_neg by lia|].
      now rewrite !rc_colsum_neg by lia.
    - replace y with (y - 2 + 2) by lia. rewrite !rc_colsum_step2 by (auto; lia).
      rewrite (IH (y - 2)) by lia. specialize (HF (y - 2 + 1) ltac:(lia) ltac:(lia)). unfold rp_four in HF.
      replace (y - 2 + 1 + 1) with (y - 2 + 2) in HF by lia.
      destruct (rc_colsum g (x + 1) (y - 2)), (g (x, y - 2 + 1)), (g (x, y - 2 + 2)), (g (x + 1, y - 2 + 1)),
        (g (x + 1, y - 2 + 2)); cbn in *; congruence. }
  intros y Hy Hp. apply (K (Z.to_nat ((y + 2) / 2))); lia.
Qed.

Section RotPlanarDist.
Variables rows cols : Z.
Hypothesis Hr : 3 <= rows.
Hypothesis Hc : 3 <= cols.

Notation insb := (rotplanar_is_in_site_bounds rows cols).
Notation inpb := (rotplanar_is_in_plaquette_bounds rows cols).
Notation N := (rp_n rows cols).
Notation PI := (rp_plaquette_indices rows cols).
Notation fl := (rp_fl rows cols).
Notation sop := (rp_sop rows cols).
Notation stab := (rp_stab rows cols).
Notation lxop := (rp_lxop rows cols).
Notation lzop := (rp_lzop rows cols).
Notation STABS := (stabs (rotplanar_code rows cols)).
Notation isx := rotplanar_is_x_plaquette.
Notation xat := (rp_xat rows cols).
Notation zat := (rp_zat rows cols).

(* e commutes with every stabilizer generator *)
Definition rp_normal (e : bsf) : Prop := forall q, In q PI -> bsp e (stab q) = false.
Lemma rp_normal_normalizer e : rp_normal e <-> normalizer STABS e.
Proof.
  unfold rp_normal, normalizer. rewrite (rp_code_stabs rows cols Hr Hc). split.
  - intros H s Hs. apply in_map_iff in Hs. destruct Hs as (q & <- & Hq). auto.
  - intros H q Hq. apply H. now apply in_map.
Qed.
Lemma rp_insb_iff x y : insb (x, y) = true <-> 0 <= x <= cols - 1 /\ 0 <= y <= rows - 1.
Proof. rewrite rp_in_site_bounds_iff. lia. Qed.
Lemma rp_insb_false x y : x < 0 \/ cols <= x \/ y < 0 \/ rows <= y -> insb (x, y) = false.
Proof. intros H. destruct (insb (x, y)) eqn:E; [|reflexivity]. apply rp_insb_iff in E. lia. Qed.
Lemma rp_xat_off e x y : x < 0 \/ cols <= x \/ y < 0 \/ rows <= y -> xat e (x, y) = false.
Proof. intros H. apply rp_xat_out. now apply rp_insb_false. Qed.
Lemma rp_zat_off e x y : x < 0 \/ cols <= x \/ y < 0 \/ rows <= y -> zat e (x, y) = false.
Proof. intros H. apply rp_zat_out. now apply rp_insb_false. Qed.

(* ---------- the four-corner relations of a normalizer element ---------- *)
Lemma rp_xat_four e x y : length e = (N + N)%nat -> rp_normal e ->
  0 <= x <= cols - 2 -> -1 <= y <= rows - 1 -> (y - x) mod 2 = 0 -> rp_four (xat e) x y = false.
Proof.
  intros He Hn Hx Hy Hp. rewrite <- (rp_stab_z_four rows cols) by (auto; rewrite rp_xplaq_unfold; cbn [fst snd]; lia).
  apply Hn. apply (rp_PI_z_intro rows cols); lia.
Qed.
Lemma rp_zat_four e x y : length e = (N + N)%nat -> rp_normal e ->
  -1 <= x <= cols - 1 -> 0 <= y <= rows - 2 -> (x - y) mod 2 = 1 -> rp_four (zat e) x y = false.
Proof.
  intros He Hn Hx Hy Hp. rewrite <- (rp_stab_x_four rows cols) by (auto; rewrite rp_xplaq_unfold; cbn [fst snd]; lia).
  apply Hn. apply (rp_PI_x_intro rows cols); lia.
Qed.

(* the prefix sums of the X components along two neighbouring columns agree at the heights where the Z-type
   plaquettes between them tile the two segments; the same for the Z components along neighbouring rows *)
Lemma rp_xcol_eq e x y : length e = (N + N)%nat -> rp_normal e ->
  0 <= x <= cols - 2 -> -2 <= y <= rows -> (y - x) mod 2 = 1 ->
  rc_colsum (xat e) x y = rc_colsum (xat e) (x + 1) y.
Proof.
  intros He Hn Hx Hy Hp. apply (rc_col_telescope (xat e) x rows x).
  - apply rp_xat_off. lia.
  - apply rp_xat_off. lia.
  - intros y' Hy' Hp'. apply rp_xat_four; auto.
  - exact Hy.
  - exact Hp.
Qed.
Lemma rp_zrow_eq e x y : length e = (N + N)%nat -> rp_normal e ->
  0 <= y <= rows - 2 -> -2 <= x <= cols -> (x - y) mod 2 = 0 ->
  rc_colsum (rc_tr (zat e)) y x = rc_colsum (rc_tr (zat e)) (y + 1) x.
Proof.
  intros He Hn Hy Hx Hp. apply (rc_col_telescope (rc_tr (zat e)) y cols (y + 1)).
  - unfold rc_tr. cbn [fst snd]. apply rp_zat_off. lia.
  - unfold rc_tr. cbn [fst snd]. apply rp_zat_off. lia.
  - intros x' Hx' Hp'. rewrite rp_four_tr. apply rp_zat_four; auto. lia.
  - exact Hx.
  - lia.
Qed.

(* parity of the X components along a column / of the Z components along a row *)
Definition rp_colpar (e : bsf) (x : Z) : bool := rc_colsum (xat e) x (rows - 1).
Definition rp_rowpar (e : bsf) (y : Z) : bool := rc_colsum (rc_tr (zat e)) y (cols - 1).

(* the column translates of logical Z (row translates of logical X) are stabilizer-equivalent *)
Lemma rp_colpar_step e x : length e = (N + N)%nat -> rp_normal e -> 0 <= x <= cols - 2 ->
  rp_colpar e x = rp_colpar e (x + 1).
Proof.
  intros He Hn Hx. unfold rp_colpar.
  destruct (Z.eq_dec ((rows - 1 - x) mod 2) 1) as [Hp|Hp]; [apply rp_xcol_eq; auto; lia|].
  pose proof (rp_xcol_eq e x rows He Hn Hx ltac:(lia) ltac:(lia)) as H.
  rewrite (rc_colsum_step _ x rows), (rc_colsum_step _ (x + 1) rows) in H by lia.
  rewrite !rp_xat_off in H by lia. now rewrite !xorb_false_r in H.
Qed.
Lemma rp_rowpar_step e y : length e = (N + N)%nat -> rp_normal e -> 0 <= y <= rows - 2 ->
  rp_rowpar e y = rp_rowpar e (y + 1).
Proof.
  intros He Hn Hy. unfold rp_rowpar.
  destruct (Z.eq_dec ((cols - 1 - y) mod 2) 0) as [Hp|Hp]; [apply rp_zrow_eq; auto; lia|].
  pose proof (rp_zrow_eq e cols y He Hn Hy ltac:(lia) ltac:(lia)) as H.
  rewrite (rc_colsum_step _ y cols), (rc_colsum_step _ (y + 1) cols) in H by lia.
  unfold rc_tr at 2 4 in H. cbn [fst snd] in H.
  rewrite !rp_zat_off in H by lia. now rewrite !xorb_false_r in H.
Qed.
Lemma rp_colpar_all e : length e = (N + N)%nat -> rp_normal e -> forall x, 0 <= x <= cols - 1 ->
  rp_colpar e x = rp_colpar e (cols - 1).
Proof.
  intros He Hn x Hx. replace x with (cols - 1 - Z.of_nat (Z.to_nat (cols - 1 - x))) by lia.
  assert (Hk : Z.of_nat (Z.to_nat (cols - 1 - x)) <= cols - 1) by lia.
  induction (Z.to_nat (cols - 1 - x)) as [|k IH]; [f_equal; lia|].
  rewrite <- IH by lia. rewrite (rp_colpar_step e (cols - 1 - Z.of_nat (S k))) by (auto; lia). f_equal. lia.
Qed.
Lemma rp_rowpar_all e : length e = (N + N)%nat -> rp_normal e -> forall y, 0 <= y <= rows - 1 ->
  rp_rowpar e y = rp_rowpar e 0.
Proof.
  intros He Hn y Hy. replace y with (Z.of_nat (Z.to_nat y)) by lia.
  assert (Hk : Z.of_nat (Z.to_nat y) <= rows - 1) by lia.
  induction (Z.to_nat y) as [|k IH]; [reflexivity|].
  rewrite <- IH by lia. rewrite (rp_rowpar_step e (Z.of_nat k)) by (auto; lia). f_equal. lia.
Qed.

Lemma rp_bsp_lz_colpar e : length e = (N + N)%nat -> bsp e lzop = rp_colpar e (cols - 1).
Proof.
  intros He. unfold rp_lzop. rewrite (rp_bsp_e_sopZ rows cols) by auto. unfold rp_lz_sites, rc_zrange.
  rewrite !xsumb_map. unfold rp_colpar, rc_colsum. replace (Z.to_nat (rows - 1 + 1)) with (Z.to_nat rows) by lia.
  reflexivity.
Qed.
Lemma rp_bsp_lx_rowpar e : length e = (N + N)%nat -> bsp e lxop = rp_rowpar e 0.
Proof.
  intros He. unfold rp_lxop. rewrite (rp_bsp_e_sopX rows cols) by auto. unfold rp_lx_sites, rc_zrange.
  rewrite !xsumb_map. unfold rp_rowpar, rc_colsum, rc_tr. replace (Z.to_nat (cols - 1 + 1)) with (Z.to_nat cols) by lia.
  reflexivity.
Qed.

(* an operator anticommuting with logical Z has an X component in every column; with logical X, a Z component in every row *)
Lemma rp_cols_hit e : length e = (N + N)%nat -> rp_normal e -> bsp e lzop = true ->
  forall x, 0 <= x < cols -> exists y, 0 <= y < rows /\ xat e (x, y) = true.
Proof.
  intros He Hn Hb x Hx. rewrite rp_bsp_lz_colpar in Hb by auto. rewrite <- (rp_colpar_all e He Hn x) in Hb by lia.
  unfold rp_colpar, rc_colsum in Hb. apply xsumb_true_ex in Hb. destruct Hb as (i & Hi & Hv). apply in_seq in Hi.
  exists (Z.of_nat i). split; [lia|exact Hv].
Qed.
Lemma rp_rows_hit e : length e = (N + N)%nat -> rp_normal e -> bsp e lxop = true ->
  forall y, 0 <= y < rows -> exists x, 0 <= x < cols /\ zat e (x, y) = true.
Proof.
  intros He Hn Hb y Hy. rewrite rp_bsp_lx_rowpar in Hb by auto. rewrite <- (rp_rowpar_all e He Hn y) in Hb by lia.
  unfold rp_rowpar, rc_colsum in Hb. apply xsumb_true_ex in Hb. destruct Hb as (i & Hi & Hv). apply in_seq in Hi.
  exists (Z.of_nat i). split; [lia|exact Hv].
Qed.

(* m lines, each hit in a lattice site whose line number is given by kappa: at least m true bits *)
Lemma rp_sites_hit_count (v : bsf) (kappa : ridx -> Z) : forall m : nat,
  (forall i, 0 <= i < Z.of_nat m -> exists s, insb s = true /\ nth (fl s) v false = true /\ kappa s = i) ->
  (m <= count_true v)%nat.
Proof.
  intros m H.
  assert (HL : exists L : list ridx, length L = m /\ NoDup L /\
             forall s, In s L -> insb s = true /\ nth (fl s) v false = true /\ 0 <= kappa s < Z.of_nat m).
  { induction m as [|m IH].
    - exists []. split; [reflexivity|]. split; [constructor|]. intros s [].
    - destruct IH as (L & HLl & Hnd & HLs); [intros i Hi; apply H; lia|].
      destruct (H (Z.of_nat m) ltac:(lia)) as (s & Hs1 & Hs2 & Hs3).
      exists (s :: L). split; [cbn; lia|]. split.
      + constructor; auto. intros Hin. apply HLs in Hin. lia.
      + intros s' [<-|Hs']; [split; [exact Hs1|split; [exact Hs2|lia]]|].
        destruct (HLs s' Hs') as (A & B & C). split; [exact A|split; [exact B|lia]]. }
  destruct HL as (L & HLl & Hnd & HLs). rewrite <- HLl, <- (map_length fl L).
  apply count_true_ge_positions.
  - apply NoDup_map_inj_in; auto. intros x y Hx Hy. apply (rp_fl_inj rows cols); [apply (HLs x Hx)|apply (HLs y Hy)].
  - intros k Hk. apply in_map_iff in Hk. destruct Hk as (s & <- & Hs). apply (HLs s Hs).
Qed.

(* C08, translate argument: a normalizer element anticommuting with logical Z (X) has weight >= cols (rows) *)
Theorem rotplanar_anticommute_z_weight e : length e = (N + N)%nat -> rp_normal e -> bsp e lzop = true ->
  cols <= Z.of_nat (bsf_wt e).
Proof.
  intros He Hn Hb.
  assert (HC : (Z.to_nat cols <= count_true (firstn N e))%nat).
  { apply (rp_sites_hit_count _ fst). intros x Hx.
    destruct (rp_cols_hit e He Hn Hb x ltac:(lia)) as (y & Hy & Hv). unfold rp_xat in Hv. apply andb_true_iff in Hv.
    destruct Hv as [Hin Hbit]. exists (x, y). split; [exact Hin|split; [exact Hbit|reflexivity]]. }
  destruct (parts_weight N e ltac:(lia)) as (_ & _ & W & _). lia.
Qed.
Theorem rotplanar_anticommute_x_weight e : length e = (N + N)%nat -> rp_normal e -> bsp e lxop = true ->
  rows <= Z.of_nat (bsf_wt e).
Proof.
  intros He Hn Hb.
  assert (HC : (Z.to_nat rows <= count_true (skipn N e))%nat).
  { apply (rp_sites_hit_count _ snd). intros y Hy.
    destruct (rp_rows_hit e He Hn Hb y ltac:(lia)) as (x & Hx & Hv). unfold rp_zat in Hv. apply andb_true_iff in Hv.
    destruct Hv as [Hin Hbit]. exists (x, y). split; [exact Hin|split; [exact Hbit|reflexivity]]. }
  destruct (parts_weight N e ltac:(lia)) as (_ & _ & _ & W). lia.
Qed.

(* the proved part of the lower bound: every normalizer element that anticommutes with a supplied logical *)
Theorem rotplanar_distance_lower_partial e : length e = (N + N)%nat -> normalizer STABS e ->
  bsp e lxop = true \/ bsp e lzop = true -> Z.min rows cols <= Z.of_nat (bsf_wt e).
Proof.
  intros He Hn [Hb|Hb]; apply rp_normal_normalizer in Hn.
  - pose proof (rotplanar_anticommute_x_weight e He Hn Hb). lia.
  - pose proof (rotplanar_anticommute_z_weight e He Hn Hb). lia.
Qed.

(* the supplied logicals are normalizer elements outside the span of the stabilizers *)
Lemma rp_lxop_normalizer : normalizer STABS lxop.
Proof.
  apply rp_normal_normalizer. intros q Hq. unfold rp_lxop, rp_stab. rewrite rp_bsp_sop_sym.
  now apply rotplanar_stabilizer_logical_x_all.
Qed.
Lemma rp_lzop_normalizer : normalizer STABS lzop.
Proof.
  apply rp_normal_normalizer. intros q Hq. unfold rp_lzop, rp_stab. rewrite rp_bsp_sop_sym.
  now apply rotplanar_stabilizer_logical_z_all.
Qed.
Lemma rp_lxop_not_in_span : ~ in_spanP (N + N) STABS lxop.
Proof.
  intros Hin. destruct (rotplanar_logicals_anticommute_all rows cols Hr Hc) as (XZ & _).
  rewrite (span_commutes (N + N) STABS lzop) in XZ; [discriminate| | |exact Hin].
  - apply (rp_stabs_rowlen rows cols Hr Hc).
  - intros s Hs. rewrite (rp_code_stabs rows cols Hr Hc) in Hs. apply in_map_iff in Hs. destruct Hs as (q & <- & Hq).
    now apply rotplanar_stabilizer_logical_z_all.
Qed.
Lemma rp_lzop_not_in_span : ~ in_spanP (N + N) STABS lzop.
Proof.
  intros Hin. destruct (rotplanar_logicals_anticommute_all rows cols Hr Hc) as (_ & ZX & _).
  rewrite (span_commutes (N + N) STABS lxop) in ZX; [discriminate| | |exact Hin].
  - apply (rp_stabs_rowlen rows cols Hr Hc).
  - intros s Hs. rewrite (rp_code_stabs rows cols Hr Hc) in Hs. apply in_map_iff in Hs. destruct Hs as (q & <- & Hq).
    now apply rotplanar_stabilizer_logical_x_all.
Qed.

(* ------------------------------------------------------------------ *)
(** * Completeness: a normalizer element commuting with both logicals is a product of stabilizers *)
(* ------------------------------------------------------------------ *)
Lemma rp_xat_reader e s : length e = (N + N)%nat -> xat e s = bsp (sop pZ [s]) e.
Proof.
  intros He. rewrite bsp_sym by (rewrite ?rp_sop_length; auto using rp_even_NN).
  rewrite (rp_bsp_e_sopZ rows cols) by auto. cbn [xsumb]. now rewrite xorb_false_r.
Qed.
Lemma rp_zat_reader e s : length e = (N + N)%nat -> zat e s = bsp (sop pX [s]) e.
Proof.
  intros He. rewrite bsp_sym by (rewrite ?rp_sop_length; auto using rp_even_NN).
  rewrite (rp_bsp_e_sopX rows cols) by auto. cbn [xsumb]. now rewrite xorb_false_r.
Qed.
Lemma rp_reader_stab op s q : bsp (sop op [s]) (stab q) =
  xorb (zbit op && xbit (rp_plaq_op q) && (insb s && rp_corner s q))
       (xbit op && zbit (rp_plaq_op q) && (insb s && rp_corner s q)).
Proof.
  unfold rp_stab. rewrite rp_bsp_sop. cbv zeta. rewrite rc_pairs_filter. cbn [fold_right].
  rewrite rc_cnt_filter, rp_cnt_corners.
  assert (E : Z.odd (Z.b2z (insb s) * (Z.b2z (insb s) * Z.b2z (rp_corner s q)) + 0) = insb s && rp_corner s q)
    by (destruct (insb s), (rp_corner s q); reflexivity).
  now rewrite E.
Qed.
Lemma rp_plaq_op_bits q : xbit (rp_plaq_op q) = isx q /\ zbit (rp_plaq_op q) = negb (isx q).
Proof. unfold rp_plaq_op, rotplanar_is_z_plaquette. destruct (isx q); split; reflexivity. Qed.

(* the product of the generators selected by g *)
Definition rp_prod (g : ridx -> bool) : bsf := xsum (N + N) (map stab (filter g PI)).
Lemma rp_prod_rows g : Forall (fun r => length r = (N + N)%nat) (map stab (filter g PI)).
Proof. apply Forall_forall. intros r Hr'. apply in_map_iff in Hr'. destruct Hr' as (q & <- & _). apply rp_stab_length. Qed.
Lemma rp_prod_length g : length (rp_prod g) = (N + N)%nat.
Proof. apply xsum_len, rp_prod_rows. Qed.
Lemma rp_prod_in_span g : in_spanP (N + N) STABS (rp_prod g).
Proof.
  unfold rp_prod. rewrite (rp_code_stabs rows cols Hr Hc). exists (map g PI). split; [now rewrite !map_length|].
  rewrite lincomb_select. f_equal. induction PI as [|q L IH]; cbn [map filter select]; auto.
  destruct (g q); cbn [map]; now rewrite IH.
Qed.
Lemma rp_xat_prod g s : insb s = true ->
  xat (rp_prod g) s = xsumb (fun q => g q && (isx q && rp_corner s q)) PI.
Proof.
  intros Hs. rewrite rp_xat_reader by apply rp_prod_length. unfold rp_prod.
  rewrite bsp_xsum_r by (auto using rp_even_NN, rp_prod_rows, rp_sop_length). rewrite xsumb_map, xsumb_filter.
  apply xsumb_ext. intros q Hq. rewrite rp_reader_stab. destruct (rp_plaq_op_bits q) as [-> ->]. rewrite Hs.
  cbn [xbit zbit andb]. now rewrite xorb_false_r.
Qed.
Lemma rp_zat_prod g s : insb s = true ->
  zat (rp_prod g) s = xsumb (fun q => g q && (negb (isx q) && rp_corner s q)) PI.
Proof.
  intros Hs. rewrite rp_zat_reader by apply rp_prod_length. unfold rp_prod.
  rewrite bsp_xsum_r by (auto using rp_even_NN, rp_prod_rows, rp_sop_length). rewrite xsumb_map, xsumb_filter.
  apply xsumb_ext. intros q Hq. rewrite rp_reader_stab. destruct (rp_plaq_op_bits q) as [-> ->]. rewrite Hs.
  cbn [xbit zbit andb]. now rewrite xorb_false_l.
Qed.

(* sums over the (duplicate-free) plaquette list that pick out one or two plaquettes *)
Lemma rp_pick1 (g : ridx -> bool) q1 : xsumb (fun q => g q && rc_idx_eqb q q1) PI = inpb q1 && g q1.
Proof.
  destruct (inpb q1) eqn:E; cbn [andb].
  - apply (xsumb_pick1 rc_idx_eqb rc_idx_eqb_spec); [apply (rp_PI_NoDup rows cols Hr Hc)|now apply (rp_PI_iff rows cols Hr Hc)].
  - rewrite <- (xsumb_false PI). apply xsumb_ext. intros q Hq.
    destruct (rc_idx_eqb q q1) eqn:E2; [|apply andb_false_r]. apply rc_idx_eqb_spec in E2. subst.
    apply (rp_PI_iff rows cols Hr Hc) in Hq. congruence.
Qed.
Lemma rp_pick2 (g F : ridx -> bool) q1 q2 : q1 <> q2 ->
  (forall q, In q PI -> F q = rc_idx_eqb q q1 || rc_idx_eqb q q2) ->
  xsumb (fun q => g q && F q) PI = xorb (inpb q1 && g q1) (inpb q2 && g q2).
Proof.
  intros Hne HF. rewrite <- !rp_pick1, <- xsumb_xorb. apply xsumb_ext. intros q Hq. rewrite (HF q Hq).
  destruct (rc_idx_eqb q q1) eqn:E1, (rc_idx_eqb q q2) eqn:E2; destruct (g q); try reflexivity.
  apply rc_idx_eqb_spec in E1, E2. congruence.
Qed.

(* the (at most) two X-type plaquettes and the two Z-type plaquettes around the site (a, b) *)
Definition rp_up (a b : Z) : ridx := (a - 1 + (a - b) mod 2, b).
Definition rp_dn (a b : Z) : ridx := (a - (a - b) mod 2, b - 1).
Definition rp_rt (a b : Z) : ridx := (a, b - (a - b) mod 2).
Definition rp_lt (a b : Z) : ridx := (a - 1, b - 1 + (a - b) mod 2).
Lemma rp_x_around a b q : isx q && rp_corner (a, b) q = rc_idx_eqb q (rp_up a b) || rc_idx_eqb q (rp_dn a b).
Proof.
  destruct q as [x y]. rewrite rp_xplaq_unfold. unfold rp_corner, rc_idx_eqb, rp_up, rp_dn. cbn [fst snd]. lia.
Qed.
Lemma rp_z_around a b q : negb (isx q) && rp_corner (a, b) q = rc_idx_eqb q (rp_rt a b) || rc_idx_eqb q (rp_lt a b).
Proof.
  destruct q as [x y]. rewrite rp_xplaq_unfold. unfold rp_corner, rc_idx_eqb, rp_rt, rp_lt. cbn [fst snd]. lia.
Qed.

(* the coefficients *)
Definition rp_gamma (e : bsf) (q : ridx) : bool :=
  if isx q then rc_colsum (xat e) (Z.max (fst q) 0) (snd q)
  else rc_colsum (rc_tr (zat e)) (Z.max (snd q) 0) (fst q).

Section Central.
Variable e : bsf.
Hypothesis He : length e = (N + N)%nat.
Hypothesis Hn : rp_normal e.
Hypothesis Hx : bsp e lxop = false.
Hypothesis Hz : bsp e lzop = false.

Lemma rp_colpar_zero x : 0 <= x <= cols - 1 -> rp_colpar e x = false.
Proof. intros Hx'. rewrite (rp_colpar_all e He Hn x Hx'), <- rp_bsp_lz_colpar by auto. exact Hz. Qed.
Lemma rp_rowpar_zero y : 0 <= y <= rows - 1 -> rp_rowpar e y = false.
Proof. intros Hy'. rewrite (rp_rowpar_all e He Hn y Hy'), <- rp_bsp_lx_rowpar by auto. exact Hx. Qed.

(* the coefficient of a plaquette around (a, b) does not depend on the column / row used to define it *)
Lemma rp_gamma_up a b : 0 <= a <= cols - 1 -> 0 <= b <= rows - 1 ->
  rp_gamma e (rp_up a b) = rc_colsum (xat e) a b.
Proof.
  intros Ha Hb. unfold rp_gamma, rp_up. rewrite rp_xplaq_unfold. cbn [fst snd].
  replace ((a - 1 + (a - b) mod 2 - b) mod 2 =? 1) with true by lia.
  destruct (Z.eq_dec ((a - b) mod 2) 1) as [E|E].
  - f_equal. lia.
  - destruct (Z.eq_dec a 0) as [->|Ha0]; [f_equal; lia|].
    replace (Z.max (a - 1 + (a - b) mod 2) 0) with (a - 1) by lia.
    rewrite (rp_xcol_eq e (a - 1) b) by (auto; lia). f_equal. lia.
Qed.
Lemma rp_gamma_dn a b : 0 <= a <= cols - 1 -> 0 <= b <= rows - 1 ->
  rp_gamma e (rp_dn a b) = rc_colsum (xat e) a (b - 1).
Proof.
  intros Ha Hb. unfold rp_gamma, rp_dn. rewrite rp_xplaq_unfold. cbn [fst snd].
  replace ((a - (a - b) mod 2 - (b - 1)) mod 2 =? 1) with true by lia.
  destruct (Z.eq_dec ((a - b) mod 2) 0) as [E|E].
  - f_equal. lia.
  - destruct (Z.eq_dec a 0) as [->|Ha0]; [f_equal; lia|].
    replace (Z.max (a - (a - b) mod 2) 0) with (a - 1) by lia.
    rewrite (rp_xcol_eq e (a - 1) (b - 1)) by (auto; lia). f_equal. lia.
Qed.
Lemma rp_gamma_rt a b : 0 <= a <= cols - 1 -> 0 <= b <= rows - 1 ->
  rp_gamma e (rp_rt a b) = rc_colsum (rc_tr (zat e)) b a.
Proof.
  intros Ha Hb. unfold rp_gamma, rp_rt. rewrite rp_xplaq_unfold. cbn [fst snd].
  replace ((a - (b - (a - b) mod 2)) mod 2 =? 1) with false by lia.
  destruct (Z.eq_dec ((a - b) mod 2) 0) as [E|E].
  - f_equal. lia.
  - destruct (Z.eq_dec b 0) as [->|Hb0]; [f_equal; lia|].
    replace (Z.max (b - (a - b) mod 2) 0) with (b - 1) by lia.
    rewrite (rp_zrow_eq e a (b - 1)) by (auto; lia). f_equal. lia.
Qed.
Lemma rp_gamma_lt a b : 0 <= a <= cols - 1 -> 0 <= b <= rows - 1 ->
  rp_gamma e (rp_lt a b) = rc_colsum (rc_tr (zat e)) b (a - 1).
Proof.
  intros Ha Hb. unfold rp_gamma, rp_lt. rewrite rp_xplaq_unfold. cbn [fst snd].
  replace ((a - 1 - (b - 1 + (a - b) mod 2)) mod 2 =? 1) with false by lia.
  destruct (Z.eq_dec ((a - b) mod 2) 1) as [E|E].
  - f_equal. lia.
  - destruct (Z.eq_dec b 0) as [->|Hb0]; [f_equal; lia|].
    replace (Z.max (b - 1 + (a - b) mod 2) 0) with (b - 1) by lia.
    rewrite (rp_zrow_eq e (a - 1) (b - 1)) by (auto; lia). f_equal. lia.
Qed.

Lemma rp_xat_prod_site a b : 0 <= a <= cols - 1 -> 0 <= b <= rows - 1 ->
  xat (rp_prod (rp_gamma e)) (a, b) = xat e (a, b).
Proof.
  intros Ha Hb. rewrite rp_xat_prod by (apply rp_insb_iff; lia).
  rewrite (rp_pick2 (rp_gamma e) _ (rp_up a b) (rp_dn a b)).
  - rewrite rp_gamma_up, rp_gamma_dn by auto.
    pose proof (rc_colsum_step (xat e) a b ltac:(lia)) as S1.
    assert (U : inpb (rp_up a b) = false -> rc_colsum (xat e) a b = false).
    { intros Hu. assert (b = rows - 1).
      { destruct (Z.eq_dec b (rows - 1)); auto. exfalso.
        assert (inpb (rp_up a b) = true) by (apply rp_inpb_iff; lia). congruence. }
      subst b. apply (rp_colpar_zero a Ha). }
    assert (D : inpb (rp_dn a b) = false -> rc_colsum (xat e) a (b - 1) = false).
    { intros Hd. assert (b = 0).
      { destruct (Z.eq_dec b 0); auto. exfalso.
        assert (inpb (rp_dn a b) = true) by (apply rp_inpb_iff; lia). congruence. }
      subst b. apply rc_colsum_neg. lia. }
    destruct (inpb (rp_up a b)), (inpb (rp_dn a b)); cbn [andb];
      try (specialize (U eq_refl)); try (specialize (D eq_refl)); rewrite S1 in *;
      destruct (rc_colsum (xat e) a (b - 1)), (xat e (a, b)); cbn in *; congruence.
  - unfold rp_up, rp_dn. intros E. apply (f_equal snd) in E. cbn in E. lia.
  - intros q _. apply rp_x_around.
Qed.
Lemma rp_zat_prod_site a b : 0 <= a <= cols - 1 -> 0 <= b <= rows - 1 ->
  zat (rp_prod (rp_gamma e)) (a, b) = zat e (a, b).
Proof.
  intros Ha Hb. rewrite rp_zat_prod by (apply rp_insb_iff; lia).
  rewrite (rp_pick2 (rp_gamma e) _ (rp_rt a b) (rp_lt a b)).
  - rewrite rp_gamma_rt, rp_gamma_lt by auto.
    pose proof (rc_colsum_step (rc_tr (zat e)) b a ltac:(lia)) as S1. unfold rc_tr at 3 in S1. cbn [fst snd] in S1.
    assert (U : inpb (rp_rt a b) = false -> rc_colsum (rc_tr (zat e)) b a = false).
    { intros Hu. assert (a = cols - 1).
      { destruct (Z.eq_dec a (cols - 1)); auto. exfalso.
        assert (inpb (rp_rt a b) = true) by (apply rp_inpb_iff; lia). congruence. }
      subst a. apply (rp_rowpar_zero b Hb). }
    assert (D : inpb (rp_lt a b) = false -> rc_colsum (rc_tr (zat e)) b (a - 1) = false).
    { intros Hd. assert (a = 0).
      { destruct (Z.eq_dec a 0); auto. exfalso.
        assert (inpb (rp_lt a b) = true) by (apply rp_inpb_iff; lia). congruence. }
      subst a. apply rc_colsum_neg. lia. }
    destruct (inpb (rp_rt a b)), (inpb (rp_lt a b)); cbn [andb];
      try (specialize (U eq_refl)); try (specialize (D eq_refl)); rewrite S1 in *;
      destruct (rc_colsum (rc_tr (zat e)) b (a - 1)), (zat e (a, b)); cbn in *; congruence.
  - unfold rp_rt, rp_lt. intros E. apply (f_equal fst) in E. cbn in E. lia.
  - intros q _. apply rp_z_around.
Qed.
Lemma rp_prod_agrees s : insb s = true ->
  xat (rp_prod (rp_gamma e)) s = xat e s /\ zat (rp_prod (rp_gamma e)) s = zat e s.
Proof.
  destruct s as [a b]. intros Hs. apply rp_insb_iff in Hs. split; [apply rp_xat_prod_site|apply rp_zat_prod_site]; lia.
Qed.
End Central.

(* two operators with the same X and Z components at every site are equal *)
Lemma rp_ext_sites a b : length a = (N + N)%nat -> length b = (N + N)%nat ->
  (forall s, insb s = true -> xat a s = xat b s /\ zat a s = zat b s) -> a = b.
Proof.
  intros La Lb H. rewrite <- (firstn_skipn N a), <- (firstn_skipn N b).
  assert (Hk : forall k, (k < N)%nat -> nth k (firstn N a) false = nth k (firstn N b) false /\
                                      nth k (skipn N a) false = nth k (skipn N b) false).
  { intros k Hk.
    destruct (rp_flatten_surjective rows cols (Z.of_nat k) ltac:(lia)) as [Hs Hf].
    { unfold rp_n in Hk. destruct (rotplanar_n_k_d rows cols) as [[n k'] d]. cbn [fst]. lia. }
    destruct (H _ Hs) as [Hxa Hza]. unfold rp_xat, rp_zat, rp_fl in Hxa, Hza. rewrite Hf, Hs in Hxa, Hza.
    cbn [andb] in Hxa, Hza. rewrite Nat2Z.id in Hxa, Hza. auto. }
  f_equal.
  - apply (nth_ext _ _ false false); [rewrite !firstn_length; lia|]. intros k Hk'. rewrite firstn_length in Hk'.
    apply Hk. lia.
  - apply (nth_ext _ _ false false); [rewrite !skipn_length; lia|]. intros k Hk'. rewrite skipn_length in Hk'.
    apply Hk. lia.
Qed.

(* C08, completeness of the logical pair, all sizes *)
Theorem rotplanar_centralizer_sec e : length e = (N + N)%nat -> normalizer STABS e ->
  bsp e lxop = false -> bsp e lzop = false -> in_spanP (N + N) STABS e.
Proof.
  intros He Hn Hx Hz. apply rp_normal_normalizer in Hn.
  assert (E : rp_prod (rp_gamma e) = e).
  { apply rp_ext_sites; auto using rp_prod_length. intros s Hs. now apply rp_prod_agrees. }
  rewrite <- E. apply rp_prod_in_span.
Qed.

End RotPlanarDist.

(* ================================================================== *)
(** * C08 for the rotated planar code, every size                      *)
(* ================================================================== *)
(* completeness of the logical pair: an operator commuting with all stabilizer generators and with both logical
   operators is a product of stabilizer generators *)
Theorem rotplanar_centralizer : forall rows cols, 3 <= rows -> 3 <= cols -> forall e : bsf,
  length e = (rp_n rows cols + rp_n rows cols)%nat -> normalizer (stabs (rotplanar_code rows cols)) e ->
  bsp e (rp_lxop rows cols) = false -> bsp e (rp_lzop rows cols) = false ->
  in_spanP (rp_n rows cols + rp_n rows cols) (stabs (rotplanar_code rows cols)) e.
Proof. intros rows cols Hr Hc e. now apply rotplanar_centralizer_sec. Qed.
(* ... in terms of the code's own logical operator lists *)
Theorem rotplanar_centralizer_code : forall rows cols, 3 <= rows -> 3 <= cols -> forall e : bsf,
  let c := rotplanar_code rows cols in
  length e = (rp_n rows cols + rp_n rows cols)%nat -> normalizer (stabs c) e ->
  (forall l, In l (logicals c) -> bsp e l = false) ->
  in_spanP (rp_n rows cols + rp_n rows cols) (stabs c) e.
Proof.
  intros rows cols Hr Hc e c He Hn Hl. apply rotplanar_centralizer; auto; apply Hl; unfold c;
    rewrite rp_code_eq by assumption; cbn; auto.
Qed.

(* every non-trivial normalizer element weighs at least min(rows, cols) *)
Theorem rotplanar_distance_lower_all : forall rows cols, 3 <= rows -> 3 <= cols ->
  forall v, nontrivial (rp_n rows cols) (stabs (rotplanar_code rows cols)) v ->
  (Z.to_nat (Z.min rows cols) <= bsf_wt v)%nat.
Proof.
  intros rows cols Hr Hc v (Hl & Hn & Hs). set (N := rp_n rows cols) in *.
  assert (E2 : (2 * N = N + N)%nat) by lia. rewrite E2 in Hl, Hs.
  assert (H : Z.min rows cols <= Z.of_nat (bsf_wt v)); [|lia].
  destruct (bsp v (rp_lxop rows cols)) eqn:Ex; [apply (rotplanar_distance_lower_partial rows cols Hr Hc v Hl Hn); auto|].
  destruct (bsp v (rp_lzop rows cols)) eqn:Ez; [apply (rotplanar_distance_lower_partial rows cols Hr Hc v Hl Hn); auto|].
  exfalso. apply Hs. now apply rotplanar_centralizer.
Qed.

(* the supplied logical operators are non-trivial normalizer elements of weights cols and rows *)
Theorem rotplanar_logicals_nontrivial : forall rows cols, 3 <= rows -> 3 <= cols ->
  nontrivial (rp_n rows cols) (stabs (rotplanar_code rows cols)) (rp_lxop rows cols) /\
  nontrivial (rp_n rows cols) (stabs (rotplanar_code rows cols)) (rp_lzop rows cols) /\
  bsf_wt (rp_lxop rows cols) = Z.to_nat cols /\ bsf_wt (rp_lzop rows cols) = Z.to_nat rows.
Proof.
  intros rows cols Hr Hc. set (N := rp_n rows cols). assert (E2 : (2 * N = N + N)%nat) by lia.
  split; [|split; [|split]].
  - split; [rewrite E2; apply rp_sop_length|]. split; [now apply rp_lxop_normalizer|]. rewrite E2. now apply rp_lxop_not_in_span.
  - split; [rewrite E2; apply rp_sop_length|]. split; [now apply rp_lzop_normalizer|]. rewrite E2. now apply rp_lzop_not_in_span.
  - unfold rp_lxop, rp_sop. rewrite <- rp_logical_x_eq by assumption. apply rp_logical_x_weight; lia.
  - unfold rp_lzop, rp_sop. rewrite <- rp_logical_z_eq by assumption. apply rp_logical_z_weight; lia.
Qed.

(* C08: the advertised d = min(rows, cols) is the true minimum distance *)
Theorem rotplanar_is_distance_all : forall rows cols, 3 <= rows -> 3 <= cols ->
  is_distance (rp_n rows cols) (stabs (rotplanar_code rows cols)) (Z.to_nat (Z.min rows cols)).
Proof.
  intros rows cols Hr Hc. destruct (rotplanar_logicals_nontrivial rows cols Hr Hc) as (NX & NZ & WX & WZ). split.
  - destruct (Z.le_ge_cases cols rows) as [Hle|Hge].
    + exists (rp_lxop rows cols). split; [exact NX|]. rewrite WX. f_equal. lia.
    + exists (rp_lzop rows cols). split; [exact NZ|]. rewrite WZ. f_equal. lia.
  - now apply rotplanar_distance_lower_all.
Qed.
(* ... reading n and d off the translated n_k_d formula: the statement left open in RotPlanarBounded.v *)
Theorem rotplanar_is_distance_nkd : forall rows cols, 3 <= rows -> 3 <= cols ->
  let '(n, k, d) := rotplanar_n_k_d rows cols in
  is_distance (Z.to_nat n) (stabs (rotplanar_code rows cols)) (Z.to_nat d).
Proof. intros rows cols Hr Hc. unfold rotplanar_n_k_d. cbv beta iota zeta. now apply rotplanar_is_distance_all. Qed.
Theorem rotplanar_distance_all : rotplanar_distance_statement.
Proof. intros rows cols Hr Hc. exact (rotplanar_is_distance_nkd rows cols Hr Hc). Qed.

(* non-vacuity: sizes far outside the bounded results *)
Example rotplanar_is_distance_7x12 : is_distance 84 (stabs (rotplanar_code 7 12)) 7.
Proof. exact (rotplanar_is_distance_all 7 12 ltac:(lia) ltac:(lia)). Qed.
Example rotplanar_centralizer_ex :
  let e := xorv (rp_stab 3 4 (0, 0)) (rp_stab 3 4 (1, 0)) in
  length e = 24%nat /\ normalizerb (stabs (rotplanar_code 3 4)) e = true /\
  bsp e (rp_lxop 3 4) = false /\ bsp e (rp_lzop 3 4) = false /\ bsf_wt e = 6%nat.
Proof. vm_compute. auto. Qed.
Example rotplanar_lower_hyp_ex : normalizerb (stabs (rotplanar_code 3 4)) (rp_lzop 3 4) = true /\
  bsp (rp_lzop 3 4) (rp_lxop 3 4) = true /\ bsf_wt (rp_lzop 3 4) = 3%nat.
Proof. vm_compute. auto. Qed.
Print Assumptions rotplanar_centralizer.
Print Assumptions rotplanar_distance_lower_all.
Print Assumptions rotplanar_is_distance_all.
Print Assumptions rotplanar_distance_all.
