(* Lattice/PlanarRankAll.v — all-sizes rank theorems for the planar code (C07):
   the n-1 stabilizer generators are linearly independent for every rows, cols >= 2, and remain independent
   together with the two logical operators; in the vocabulary of Core/Rank.v:
     rank_is (2n) stabilizers (n-k)   and   rank_is (2n) (stabilizers ++ logical_xs ++ logical_zs) (n+k).

   Method (dual vectors instead of elimination): for every plaquette q the path operator from q to its own
   virtual plaquette anticommutes with the stabilizer of q and commutes with every other stabilizer
   (PlanarAll.planar_path_syndrome_bit + planar_virtual_props), so a vanishing product of stabilizers cannot
   contain q.  The logicals are separated by each other (planar_logicals_anticommute).
   The count  length stabilizers = n - 1  follows from the flatten bijection (sites <-> [0,n)) by counting the
   cells of the (2 rows - 1) x (2 cols - 1) index grid. *)
From Coq Require Import ZArith List Bool Lia ZifyBool.
From QV Require Import Core.Bits Core.Pauli Core.Symp Core.Code Core.Span Core.Rank Generated.LatticeArith
  Lattice.Planar Lattice.PlanarAll.
Import ListNotations.
Open Scope Z_scope.
Ltac Zify.zify_post_hook ::= Z.to_euclidean_division_equations.

(* ------------------------------------------------------------------ *)
(** * Generic: independence from dual vectors                          *)
(* ------------------------------------------------------------------ *)
Lemma select_map {A B} (f : A -> B) : forall sel l, select sel (map f l) = map f (select sel l).
Proof. induction sel as [|b sel IH]; intros [|a l]; cbn; auto. destruct b; cbn; now rewrite IH. Qed.
Lemma select_app {A} : forall s1 (l1 : list A) s2 l2, length s1 = length l1 ->
  select (s1 ++ s2) (l1 ++ l2) = select s1 l1 ++ select s2 l2.
Proof.
  induction s1 as [|b s1 IH]; intros [|a l1] s2 l2 H; cbn in *; try lia; auto.
  destruct b; cbn; now rewrite IH by lia.
Qed.
Lemma select_In {A} : forall sel (l : list A) x, In x (select sel l) -> In x l.
Proof.
  induction sel as [|b sel IH]; intros [|a l] x H; cbn in *; try contradiction.
  destruct b; cbn in H; [destruct H|]; auto.
Qed.
Lemma lincomb_select n : forall cs gens, lincomb n cs gens = xsum n (select cs gens).
Proof. induction cs as [|c cs IH]; intros [|g gens]; cbn; auto. destruct c; cbn; now rewrite IH. Qed.
Lemma all_false_zeros : forall l : bsf, (forall b, In b l -> b = false) -> l = zeros (length l).
Proof. induction l as [|b l IH]; intros H; cbn; auto. rewrite (H b) by (cbn; auto). f_equal. apply IH. intros; apply H; cbn; auto. Qed.

Lemma bsp_zeros_r m e : length e = m -> Nat.even m = true -> bsp e (zeros m) = false.
Proof.
  intros HL Hev. rewrite bsp_sym by (rewrite ?zeros_length; congruence). now apply bsp_zeros_l.
Qed.
(* bsp is linear in each argument over products of rows *)
Lemma bsp_xsum_r m e : forall L, length e = m -> Nat.even m = true -> Forall (fun r => length r = m) L ->
  bsp e (xsum m L) = xsumb (fun s => bsp e s) L.
Proof.
  induction L as [|s L IH]; intros HL Hev HF.
  - now apply bsp_zeros_r.
  - inversion HF as [|? ? Hs HF']; subst. rewrite xsum_cons, bsp_linear_r by (rewrite xsum_len; auto). cbn [xsumb].
    now rewrite IH.
Qed.
Lemma bsp_xsum_l m e : forall L, length e = m -> Nat.even m = true -> Forall (fun r => length r = m) L ->
  bsp (xsum m L) e = xsumb (fun s => bsp s e) L.
Proof.
  induction L as [|s L IH]; intros HL Hev HF.
  - now apply bsp_zeros_l.
  - inversion HF as [|? ? Hs HF']; subst. rewrite xsum_cons, bsp_linear_l by (rewrite xsum_len; auto). cbn [xsumb].
    now rewrite IH.
Qed.

Section Dual.
Context {I : Type}.
Variable ieqb : I -> I -> bool.
Hypothesis ieqb_eq : forall a b, ieqb a b = true <-> a = b.

Lemma xsumb_notin q : forall l, ~ In q l -> xsumb (fun q' => ieqb q' q) l = false.
Proof.
  induction l as [|a l IH]; intros H; cbn [xsumb]; auto. rewrite IH by (intros Hi; apply H; cbn; auto).
  destruct (ieqb a q) eqn:E; [|reflexivity]. apply ieqb_eq in E. subst. exfalso. apply H. cbn; auto.
Qed.
Lemma select_all_false : forall l sel, NoDup l -> length sel = length l ->
  (forall q, In q l -> xsumb (fun q' => ieqb q' q) (select sel l) = false) -> forall b, In b sel -> b = false.
Proof.
  induction l as [|a l IH]; intros [|b0 sel] Hnd HL H b Hb; cbn [length] in HL; try lia; [destruct Hb|].
  cbn [select] in H. inversion Hnd as [|? ? Hnotin Hnd']; subst.
  assert (Hb0 : b0 = false).
  { specialize (H a (or_introl eq_refl)). destruct b0; [|reflexivity]. cbn [xsumb] in H.
    rewrite xsumb_notin in H by (intros Hi; apply select_In in Hi; contradiction).
    assert (E : ieqb a a = true) by now apply ieqb_eq. rewrite E in H. discriminate. }
  destruct Hb as [<-|Hb]; [exact Hb0|]. subst b0.
  apply (IH sel Hnd' ltac:(lia)); auto. intros q Hq. apply H. cbn; auto.
Qed.

Variables (idx : list I) (row dual : I -> bsf) (m : nat).
Hypothesis idx_nodup : NoDup idx.
Hypothesis m_even : Nat.even m = true.
Hypothesis row_len : forall q, In q idx -> length (row q) = m.
Hypothesis dual_len : forall q, In q idx -> length (dual q) = m.
Hypothesis dual_row : forall q q', In q idx -> In q' idx -> bsp (dual q) (row q') = ieqb q' q.

Theorem dual_independent sel : length sel = length idx ->
  xsum m (select sel (map row idx)) = zeros m -> forall b, In b sel -> b = false.
Proof.
  intros HL Hz. apply (select_all_false idx sel idx_nodup HL). intros q Hq.
  rewrite select_map in Hz.
  assert (HF : Forall (fun r => length r = m) (map row (select sel idx))).
  { apply Forall_forall. intros r Hr. apply in_map_iff in Hr. destruct Hr as (q' & <- & Hq'). apply row_len. eapply select_In; eauto. }
  pose proof (bsp_xsum_r m (dual q) _ (dual_len q Hq) m_even HF) as HB. rewrite Hz in HB.
  rewrite bsp_zeros_r in HB by (auto using dual_len). rewrite xsumb_map in HB.
  rewrite HB. apply xsumb_ext. intros q' Hq'. symmetry. apply dual_row; auto. eapply select_In; eauto.
Qed.
End Dual.

(* a row of a family is in the family's span *)
Lemma in_spanP_In n : forall gens r, rowlen n gens -> In r gens -> in_spanP n gens r.
Proof.
  induction gens as [|g gens IH]; intros r HF Hr; [destruct Hr|]. unfold rowlen in *.
  apply Forall_cons_iff in HF. destruct HF as [Hg HF'].
  destruct Hr as [->|Hr].
  - exists (true :: zeros (length gens)). split; [cbn; now rewrite zeros_length|].
    cbn [lincomb]. rewrite lincomb_zeros. rewrite <- Hg. apply xorv_zeros_r.
  - destruct (IH r HF' Hr) as (cs & Hcs & Hl). exists (false :: cs). split; [cbn; lia|exact Hl].
Qed.

(* ------------------------------------------------------------------ *)
(** * NoDup of the index enumerations                                  *)
(* ------------------------------------------------------------------ *)
Lemma filter_partition_length {A} (f : A -> bool) l :
  (length (filter f l) + length (filter (fun a => negb (f a)) l) = length l)%nat.
Proof. induction l as [|a l IH]; cbn; auto. destruct (f a); cbn; lia. Qed.
Lemma NoDup_flat_map_disj {A B} (f : A -> list B) : forall l, NoDup l -> (forall x, In x l -> NoDup (f x)) ->
  (forall x y b, In x l -> In y l -> In b (f x) -> In b (f y) -> x = y) -> NoDup (flat_map f l).
Proof.
  induction l as [|a l IH]; intros Hnd Hf Hd; cbn; [constructor|]. inversion Hnd as [|? ? Hn Hnd']; subst.
  apply NoDup_app_disj.
  - apply Hf. cbn; auto.
  - apply IH; auto. intros x Hx. apply Hf. cbn; auto. intros x y b Hx Hy. apply Hd; cbn; auto.
  - intros b Hb1 Hb2. apply in_flat_map in Hb2. destruct Hb2 as (y & Hy & Hby).
    assert (a = y) by (apply (Hd a y b); cbn; auto). subst. contradiction.
Qed.
Lemma NoDup_ndindex2 R C : NoDup (ndindex2 R C).
Proof.
  unfold ndindex2. apply NoDup_flat_map_disj.
  - apply seq_NoDup.
  - intros r _. apply NoDup_map_inj_in; [|apply seq_NoDup]. intros x y _ _ H. apply (f_equal snd) in H. cbn in H. lia.
  - intros x y b _ _ Hx Hy. apply in_map_iff in Hx, Hy. destruct Hx as (c1 & <- & _), Hy as (c2 & E & _).
    apply (f_equal fst) in E. cbn in E. lia.
Qed.
Lemma NoDup_plaquette_indices rows cols : NoDup (plaquette_indices rows cols).
Proof.
  unfold plaquette_indices. destruct (planar_bounds rows cols) as [mr mc].
  apply NoDup_app_disj; try (apply NoDup_filter, NoDup_filter, NoDup_ndindex2).
  intros x H1 H2. apply filter_In in H1, H2. destruct H1 as [_ H1], H2 as [_ H2]. rewrite H1 in H2. discriminate.
Qed.

(* ------------------------------------------------------------------ *)
(** * The planar code                                                  *)
(* ------------------------------------------------------------------ *)
Section PlanarRank.
Variables rows cols : Z.
Hypothesis Hr : 2 <= rows.
Hypothesis Hc : 2 <= cols.
Notation N := (planar_n rows cols).
Notation PI := (plaquette_indices rows cols).

(* the dual vector of plaquette q: the path from q to its own virtual plaquette *)
Definition dualv (q : idx) : bsf :=
  match planar_virtual_plaquette_index rows cols q with
  | Some v => match path rows cols q v (new_pauli rows cols) with Some p => p_to_bsf p | None => [] end
  | None => []
  end.

Lemma dualv_spec q : In q PI -> length (dualv q) = (N + N)%nat /\
  forall q', In q' PI -> bsp (dualv q) (stab rows cols q') = zeqb2 q' q.
Proof.
  intros Hq. destruct (planar_virtual_props rows cols Hr Hc q Hq) as (v & Hv & Pv & Svq & Iv & Ov & Pq & Iq).
  unfold dualv. rewrite Hv.
  assert (Sqv : same_type q v) by (unfold same_type in *; lia).
  split.
  - destruct (translation_cases rows cols q v Pq Pv Sqv) as (rs & cs & Ht & _). unfold path. rewrite Ht.
    apply (sop_length rows cols).
  - intros q' Hq'. destruct (planar_path_syndrome_bit rows cols Hr Hc q v q' Pq Pv Sqv Iq Iv Hq') as (p & Hp & Hb).
    rewrite Hp, Hb. apply in_plaquette_indices in Hq'. destruct Hq' as [_ Hin'].
    rewrite (zeqb2_inb_neq rows cols q' v Hin' Ov). apply xorb_false_r.
Qed.

(* C07: the stabilizer generators are linearly independent (the statement left open in PlanarAll.v) *)
Theorem planar_stabilizers_independent sel : length sel = length (stabs (planar_code rows cols)) ->
  xsum (N + N) (select sel (stabs (planar_code rows cols))) = zeros (N + N) -> forall b, In b sel -> b = false.
Proof.
  rewrite code_eq. cbn [stabs]. rewrite map_length. intros HL Hz.
  apply (dual_independent zeqb2 zeqb2_eq PI (stab rows cols) dualv (N + N) (NoDup_plaquette_indices rows cols)
           (even_NN rows cols)); auto.
  - intros q _. apply stab_length.
  - intros q Hq. apply (dualv_spec q Hq).
  - intros q q' Hq Hq'. now apply (dualv_spec q Hq).
Qed.

Lemma stabs_rowlen : rowlen (N + N) (stabs (planar_code rows cols)).
Proof. rewrite code_eq. cbn [stabs]. apply Forall_forall. intros r Hr'. apply in_map_iff in Hr'. destruct Hr' as (q & <- & _). apply stab_length. Qed.

Theorem planar_stabilizers_independent_rank : independent (N + N) (stabs (planar_code rows cols)).
Proof.
  intros cs HL Hz. rewrite lincomb_select in Hz. rewrite <- HL. apply all_false_zeros.
  now apply planar_stabilizers_independent.
Qed.

(* ... and they stay independent together with the two logical operators *)
Theorem planar_stabilizers_logicals_independent :
  independent (N + N) (stabs (planar_code rows cols) ++ lxs (planar_code rows cols) ++ lzs (planar_code rows cols)).
Proof.
  intros cs HL Hz. rewrite lincomb_select in Hz. rewrite <- HL. apply all_false_zeros.
  rewrite code_eq in *. cbn [stabs lxs lzs app] in *. rewrite app_length in HL. cbn [length] in HL.
  set (S := map (stab rows cols) PI) in *.
  assert (Hsplit : exists cs1 a b, cs = cs1 ++ [a; b] /\ length cs1 = length S).
  { exists (firstn (length S) cs), (nth (length S) cs false), (nth (Datatypes.S (length S)) cs false).
    split; [|rewrite firstn_length; lia].
    rewrite <- (firstn_skipn (length S) cs) at 1. f_equal.
    assert (Hsk : length (skipn (length S) cs) = 2%nat) by (rewrite skipn_length; lia).
    rewrite <- (firstn_skipn (length S) cs) at 2 3.
    assert (Hf : length (firstn (length S) cs) = length S) by (rewrite firstn_length; lia).
    rewrite !app_nth2 by lia. rewrite Hf, Nat.sub_diag. replace (Datatypes.S (length S) - length S)%nat with 1%nat by lia.
    destruct (skipn (length S) cs) as [|x [|y [|z t]]]; cbn in Hsk; try lia. reflexivity. }
  destruct Hsplit as (cs1 & a & b & -> & Hl1).
  rewrite select_app in Hz by exact Hl1.
  assert (HS : rowlen (N + N) S).
  { apply Forall_forall. intros r Hr'. apply in_map_iff in Hr'. destruct Hr' as (q & <- & _). apply stab_length. }
  assert (Hlx : length (lxop rows cols) = (N + N)%nat) by apply sop_length.
  assert (Hlz : length (lzop rows cols) = (N + N)%nat) by apply sop_length.
  set (T := select cs1 S ++ select [a; b] [lxop rows cols; lzop rows cols]) in *.
  assert (HT : Forall (fun r => length r = (N + N)%nat) T).
  { apply Forall_app. split.
    - apply Forall_forall. intros r Hr'. apply select_In in Hr'. unfold rowlen in HS. rewrite Forall_forall in HS. auto.
    - apply Forall_forall. intros r Hr'. apply select_In in Hr'. cbn in Hr'. destruct Hr' as [<-|[<-|[]]]; auto. }
  destruct (planar_logicals_anticommute rows cols Hr Hc) as (XZ & ZX & XX & ZZ).
  assert (Hsel0 : forall l, (forall q, In q PI -> bsp (stab rows cols q) l = false) ->
                            xsumb (fun s => bsp s l) (select cs1 S) = false).
  { intros l Hl. rewrite <- (xsumb_false (select cs1 S)). apply xsumb_ext. intros s Hs. apply select_In in Hs.
    apply in_map_iff in Hs. destruct Hs as (q & <- & Hq). now apply Hl. }
  (* pairing with logical Z isolates the coefficient of logical X, and conversely *)
  assert (Ha : a = false).
  { pose proof (bsp_xsum_l (N + N) (lzop rows cols) T Hlz (even_NN rows cols) HT) as HB. rewrite Hz in HB.
    rewrite bsp_zeros_l in HB by (auto using even_NN). unfold T in HB. rewrite xsumb_app in HB.
    rewrite Hsel0 in HB by (intros q Hq; now apply planar_stabilizer_logical_z).
    destruct a, b; cbn [select xsumb] in HB; rewrite ?XZ, ?ZZ in HB; cbn [xorb] in HB; auto; discriminate. }
  assert (Hb : b = false).
  { pose proof (bsp_xsum_l (N + N) (lxop rows cols) T Hlx (even_NN rows cols) HT) as HB. rewrite Hz in HB.
    rewrite bsp_zeros_l in HB by (auto using even_NN). unfold T in HB. rewrite xsumb_app in HB.
    rewrite Hsel0 in HB by (intros q Hq; now apply planar_stabilizer_logical_x).
    destruct a, b; cbn [select xsumb] in HB; rewrite ?ZX, ?XX in HB; cbn [xorb] in HB; auto; discriminate. }
  subst a b. unfold T in Hz. cbn [select] in Hz. rewrite app_nil_r in Hz.
  intros x Hx. apply in_app_iff in Hx. destruct Hx as [Hx|Hx]; [|cbn in Hx; destruct Hx as [<-|[<-|[]]]; reflexivity].
  apply (planar_stabilizers_independent cs1); try (rewrite code_eq; cbn [stabs]); auto.
Qed.

(* ---------- counting: length stabilizers = n - 1 = n - k ---------- *)
Lemma site_indices_props :
  NoDup (site_indices rows cols) /\ (forall s, In s (site_indices rows cols) <-> isite rows cols s).
Proof.
  unfold site_indices. change (planar_bounds rows cols) with (2 * rows - 2, 2 * cols - 2). split.
  - apply NoDup_filter, NoDup_ndindex2.
  - intros [r c]. rewrite filter_In, in_ndindex2. unfold isite. rewrite inb_unfold. cbn [fst snd]. intuition lia.
Qed.
Lemma site_indices_length : length (site_indices rows cols) = N.
Proof.
  destruct site_indices_props as [Hnd Hin].
  set (S := site_indices rows cols) in *. set (K := map (fl rows cols) S).
  assert (HK : NoDup K).
  { apply NoDup_map_inj_in; auto. intros x y Hx Hy. apply (fl_inj rows cols Hr Hc); now apply Hin. }
  assert (L1 : (length K <= N)%nat).
  { rewrite <- (seq_length N 0). apply NoDup_incl_length; auto. intros k Hk. apply in_map_iff in Hk.
    destruct Hk as (s & <- & Hs). apply Hin in Hs. destruct Hs as [H1 H2]. apply in_seq.
    pose proof (fl_lt rows cols Hr Hc s H1 H2). lia. }
  assert (L2 : (N <= length K)%nat).
  { rewrite <- (seq_length N 0). apply NoDup_incl_length; [apply seq_NoDup|]. intros k Hk. apply in_seq in Hk.
    destruct (planar_flatten_surjective rows cols Hr Hc (Z.of_nat k) ltac:(lia)) as [Hs Hf].
    apply in_map_iff. exists (unflatten rows cols (Z.of_nat k)). split; [unfold fl; rewrite Hf; lia|now apply Hin]. }
  unfold K in *. rewrite map_length in *. lia.
Qed.
Lemma ndindex2_length R C : length (ndindex2 R C) = (Z.to_nat R * Z.to_nat C)%nat.
Proof.
  unfold ndindex2.
  assert (H : forall l : list nat, length (flat_map (fun r => map (fun c => (Z.of_nat r, Z.of_nat c)) (seq 0 (Z.to_nat C))) l)
              = (length l * Z.to_nat C)%nat).
  { induction l as [|a l IH]; cbn [flat_map length]; auto. rewrite app_length, map_length, seq_length, IH. lia. }
  rewrite H, seq_length. reflexivity.
Qed.
Theorem planar_stabilizers_length : S (length (stabs (planar_code rows cols))) = N.
Proof.
  rewrite code_eq. cbn [stabs]. rewrite map_length. unfold plaquette_indices.
  pose proof site_indices_length as HS. unfold site_indices in HS.
  change (planar_bounds rows cols) with (2 * rows - 2, 2 * cols - 2) in *. cbv beta iota in *.
  set (G := ndindex2 (2 * rows - 2 + 1) (2 * cols - 2 + 1)) in *.
  rewrite app_length.
  rewrite (filter_partition_length planar_is_primal (filter planar_is_plaquette G)).
  pose proof (filter_partition_length planar_is_plaquette G) as HP.
  change (filter (fun a => negb (planar_is_plaquette a)) G) with (filter planar_is_site G) in HP.
  assert (HG : length G = (Z.to_nat (2 * rows - 1) * Z.to_nat (2 * cols - 1))%nat).
  { unfold G. rewrite ndindex2_length. f_equal; lia. }
  rewrite n_unfold in *. nia.
Qed.
(* ... so, with k = 1:  n_k_d gives n - k = number of generators *)
Theorem planar_stabilizers_count :
  let '(n, k, d) := planar_n_k_d rows cols in Z.of_nat (length (stabs (planar_code rows cols))) = n - k.
Proof.
  pose proof planar_stabilizers_length as H. rewrite n_unfold in H. unfold planar_n_k_d. cbv beta iota zeta. nia.
Qed.

(* C07 in the vocabulary of Core/Rank.v *)
Theorem planar_rank_is_all :
  rank_is (N + N) (stabs (planar_code rows cols)) (N - 1) /\
  rank_is (N + N) (stabs (planar_code rows cols) ++ lxs (planar_code rows cols) ++ lzs (planar_code rows cols)) (N + 1).
Proof.
  pose proof planar_stabilizers_length as HL. split.
  - exists (stabs (planar_code rows cols)). split; [apply incl_refl|]. split; [lia|].
    split; [apply planar_stabilizers_independent_rank|]. intros r Hr'. apply in_spanP_In; auto using stabs_rowlen.
  - set (R := stabs (planar_code rows cols) ++ lxs (planar_code rows cols) ++ lzs (planar_code rows cols)).
    assert (HR : rowlen (N + N) R).
    { unfold R. apply Forall_app. split; [apply stabs_rowlen|]. rewrite code_eq. cbn [lxs lzs app].
      repeat constructor; apply sop_length. }
    exists R. split; [apply incl_refl|]. split.
    + unfold R. rewrite app_length. rewrite code_eq in *. cbn [stabs lxs lzs app length] in *. lia.
    + split; [apply planar_stabilizers_logicals_independent|]. intros r Hr'. now apply in_spanP_In.
Qed.
End PlanarRank.

(* the statement left open in PlanarAll.v, now a theorem *)
Theorem planar_rank_all : planar_rank_statement.
Proof. intros rows cols Hr Hc sel HL Hz. now apply (planar_stabilizers_independent rows cols Hr Hc sel). Qed.

Example planar_rank_is_3x5 : rank_is 46 (stabs (planar_code 3 5)) 22.
Proof. exact (proj1 (planar_rank_is_all 3 5 ltac:(lia) ltac:(lia))). Qed.
