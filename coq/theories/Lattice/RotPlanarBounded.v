(* Lattice/RotPlanarBounded.v — P<=B theorems for the rotated planar family, closed by vm_compute.
   Bound: every size rows, cols in 3..9 (49 sizes, non-square and even/odd combinations included). *)
From Coq Require Import List Bool Arith ZArith Lia.
From QV Require Import Core.Bits Core.Pauli Core.Symp Core.Code Core.Span Core.Rank Core.Dist Core.DistCSS
  Generated.LatticeArith Lattice.RotPlanar.
Import ListNotations.
Local Open Scope Z_scope.

Definition rp_sizes (B : Z) : list (Z * Z) :=
  flat_map (fun r => map (fun c => (r, c)) (rc_range 3 (B + 1))) (rc_range 3 (B + 1)).
Lemma rp_sizes_In B r c : 3 <= r <= B -> 3 <= c <= B -> In (r, c) (rp_sizes B).
Proof.
  intros Hr Hc. unfold rp_sizes. apply in_flat_map. exists r. split; [apply rc_range_In; lia|].
  apply in_map. apply rc_range_In. lia.
Qed.

(* ---- validity ---- *)
Definition rp_valid_b (s : Z * Z) : bool := validb (rotplanar_code (fst s) (snd s)).
Lemma rotplanar_valid_upto_9_b : forallb rp_valid_b (rp_sizes 9) = true.
Proof. vm_compute. reflexivity. Qed.

Theorem rotplanar_valid_upto_9 : forall rows cols, 3 <= rows <= 9 -> 3 <= cols <= 9 ->
  let c := rotplanar_code rows cols in
  (forall s s', In s (stabs c) -> In s' (stabs c) -> bsp s s' = false) /\
  (forall s l, In s (stabs c) -> In l (logicals c) -> bsp s l = false) /\
  canonical (lxs c) (lzs c).
Proof.
  intros rows cols Hr Hc c.
  pose proof (proj1 (forallb_forall _ _) rotplanar_valid_upto_9_b _ (rp_sizes_In 9 rows cols Hr Hc)) as H.
  unfold rp_valid_b, validb in H. cbn [fst snd] in H. fold c in H.
  apply (validate_iff_canonical c); [reflexivity|]. destruct (validate c); try discriminate. reflexivity.
Qed.

(* ---- n and k equal the matrix shapes and the generated n_k_d ---- *)
Definition rc_shape_b (nkd : Z * Z * Z) (c : code) (dependent : nat) : bool :=
  let '(n, k, _) := nkd in
  (length (stabs c) =? Z.to_nat (n - k) + dependent)%nat &&
  forallb (fun r => (length r =? Z.to_nat (2 * n))%nat) (stabs c ++ lxs c ++ lzs c) &&
  (length (lxs c) =? Z.to_nat k)%nat && (length (lzs c) =? Z.to_nat k)%nat && (0 <? k) && (k <? n).
Definition rc_shape (nkd : Z * Z * Z) (c : code) (dependent : nat) : Prop :=
  let '(n, k, _) := nkd in
  length (stabs c) = (Z.to_nat (n - k) + dependent)%nat /\
  (forall r, In r (stabs c ++ lxs c ++ lzs c) -> length r = Z.to_nat (2 * n)) /\
  length (lxs c) = Z.to_nat k /\ length (lzs c) = Z.to_nat k /\ 0 < k < n.
Lemma rc_shape_b_spec nkd c dep : rc_shape_b nkd c dep = true -> rc_shape nkd c dep.
Proof.
  destruct nkd as [[n k] d]. unfold rc_shape_b, rc_shape. rewrite !andb_true_iff, forallb_forall.
  intros (((((H1 & H2) & H3) & H4) & H5) & H6).
  apply Nat.eqb_eq in H1, H3, H4. apply Z.ltb_lt in H5, H6. repeat split; auto.
  intros r Hr. apply Nat.eqb_eq. auto.
Qed.

Definition rp_shape_b (s : Z * Z) : bool :=
  rc_shape_b (rotplanar_n_k_d (fst s) (snd s)) (rotplanar_code (fst s) (snd s)) 0.
Lemma rotplanar_shapes_upto_9_b : forallb rp_shape_b (rp_sizes 9) = true.
Proof. vm_compute. reflexivity. Qed.
Theorem rotplanar_shapes_upto_9 : forall rows cols, 3 <= rows <= 9 -> 3 <= cols <= 9 ->
  rc_shape (rotplanar_n_k_d rows cols) (rotplanar_code rows cols) 0.
Proof.
  intros rows cols Hr Hc. apply rc_shape_b_spec.
  exact (proj1 (forallb_forall _ _) rotplanar_shapes_upto_9_b _ (rp_sizes_In 9 rows cols Hr Hc)).
Qed.

(* ---- flatten numbers the in-bounds sites 0..n-1 (bounded restatement; all sizes in RotPlanarAll.v) ---- *)
Definition rp_flat_b (s : Z * Z) : bool :=
  let '(r, c) := s in
  let fl := map (fun i => Z.to_nat (rotplanar_flatten r c i)) (rp_site_indices r c) in
  forallb (rotplanar_is_in_site_bounds r c) (rp_site_indices r c) &&
  forallb (fun i => 0 <=? rotplanar_flatten r c i) (rp_site_indices r c) &&
  beqv (map (fun j => existsb (Nat.eqb j) fl) (seq 0 (rp_n r c))) (repeat true (rp_n r c)) &&
  (length fl =? rp_n r c)%nat.
Lemma rotplanar_flatten_upto_9_b : forallb rp_flat_b (rp_sizes 9) = true.
Proof. vm_compute. reflexivity. Qed.

(* ---- the plaquette list: no repetition, rows have the documented support (2 or 4 corner sites inside the
        lattice, Z letters on Z-type and X letters on X-type plaquettes), syndrome bit i <-> plaquette i ---- *)
Definition rp_support_row (r c : Z) (idx : Z * Z) : bsf :=
  let pos := map (fun i => Z.to_nat (rotplanar_flatten r c i))
                 (filter (rotplanar_is_in_site_bounds r c) (rp_corners idx)) in
  let ind := rc_indicator (rp_n r c) pos in
  if rotplanar_is_z_plaquette idx then zeros (rp_n r c) ++ ind else ind ++ zeros (rp_n r c).
Fixpoint rc_nodup_b (l : list (Z * Z)) : bool :=
  match l with [] => true | a :: r => negb (existsb (rc_idx_eqb a) r) && rc_nodup_b r end.
Fixpoint rc_unit (n i : nat) : bsf :=
  match n with O => [] | S m => match i with O => true :: zeros m | S j => false :: rc_unit m j end end.
Definition rp_plaq_b (s : Z * Z) : bool :=
  let '(r, c) := s in
  let pis := rp_plaquette_indices r c in
  rc_nodup_b pis &&
  beqm (rp_stabilizers r c) (map (rp_support_row r c) pis) &&
  forallb (fun i => let w := length (filter (rotplanar_is_in_site_bounds r c) (rp_corners i)) in
                    (w =? 2)%nat || (w =? 4)%nat) pis &&
  forallb (fun j => match rp_syndrome_to_plaquette_indices r c (rc_unit (length pis) j) with
                    | [i] => rc_idx_eqb i (nth j pis (0, 0)) | _ => false end) (seq 0 (length pis)).
Lemma rotplanar_plaquettes_upto_9_b : forallb rp_plaq_b (rp_sizes 9) = true.
Proof. vm_compute. reflexivity. Qed.

(* ---- logical weights: logical X has weight cols, logical Z has weight rows, the lighter one weighs d ---- *)
Definition rp_weights_b (s : Z * Z) : bool :=
  let '(r, c) := s in
  let '(_, _, d) := rotplanar_n_k_d r c in
  match rp_logical_xs r c, rp_logical_zs r c with
  | [lx], [lz] => (bsf_wt lx =? Z.to_nat c)%nat && (bsf_wt lz =? Z.to_nat r)%nat &&
                  (Nat.min (bsf_wt lx) (bsf_wt lz) =? Z.to_nat d)%nat
  | _, _ => false
  end.
Lemma rotplanar_logical_weights_upto_9_b : forallb rp_weights_b (rp_sizes 9) = true.
Proof. vm_compute. reflexivity. Qed.

(* lifting: each boolean check holds at every size of the bound *)
Lemma rp_upto (B : Z) (f : Z * Z -> bool) : forallb f (rp_sizes B) = true ->
  forall rows cols, 3 <= rows <= B -> 3 <= cols <= B -> f (rows, cols) = true.
Proof. intros H rows cols Hr Hc. exact (proj1 (forallb_forall _ _) H _ (rp_sizes_In B rows cols Hr Hc)). Qed.
Theorem rotplanar_flatten_upto_9 : forall rows cols, 3 <= rows <= 9 -> 3 <= cols <= 9 -> rp_flat_b (rows, cols) = true.
Proof. exact (rp_upto 9 _ rotplanar_flatten_upto_9_b). Qed.
Theorem rotplanar_plaquettes_upto_9 : forall rows cols, 3 <= rows <= 9 -> 3 <= cols <= 9 -> rp_plaq_b (rows, cols) = true.
Proof. exact (rp_upto 9 _ rotplanar_plaquettes_upto_9_b). Qed.
Theorem rotplanar_logical_weights_upto_9 : forall rows cols, 3 <= rows <= 9 -> 3 <= cols <= 9 ->
  rp_weights_b (rows, cols) = true.
Proof. exact (rp_upto 9 _ rotplanar_logical_weights_upto_9_b). Qed.

(* non-vacuity *)
Example rotplanar_ex_3x5 : validate (rotplanar_code 3 5) = VOk /\ length (stabs (rotplanar_code 3 5)) = 14%nat /\
  rp_plaquette_indices 3 3 = [(1, -1); (0, 0); (1, 1); (0, 2); (-1, 0); (1, 0); (0, 1); (2, 1)].
Proof. vm_compute. auto. Qed.

(* ---- GF(2) ranks (sound certificate checker Core/Rank.rank_check): the stabilizer matrix has rank n-k and the
        stabilizers together with the 2k logicals have rank n+k ---- *)
Definition rc_rank_b (nkd : Z * Z * Z) (c : code) : bool :=
  let '(n, k, _) := nkd in
  rank_check (Z.to_nat (2 * n)) (stabs c) (Z.to_nat (n - k)) &&
  rank_check (Z.to_nat (2 * n)) (stabs c ++ logicals c) (Z.to_nat (n + k)).
Definition rc_rank (nkd : Z * Z * Z) (c : code) : Prop :=
  let '(n, k, _) := nkd in
  rank_is (Z.to_nat (2 * n)) (stabs c) (Z.to_nat (n - k)) /\
  rank_is (Z.to_nat (2 * n)) (stabs c ++ logicals c) (Z.to_nat (n + k)).
Lemma rc_rank_b_spec nkd c : rc_rank_b nkd c = true -> rc_rank nkd c.
Proof.
  destruct nkd as [[n k] d]. unfold rc_rank_b, rc_rank. rewrite andb_true_iff. intros [H1 H2].
  split; now apply rank_check_sound.
Qed.
Definition rp_rank_b (s : Z * Z) : bool := rc_rank_b (rotplanar_n_k_d (fst s) (snd s)) (rotplanar_code (fst s) (snd s)).
Lemma rotplanar_rank_upto_9_b : forallb rp_rank_b (rp_sizes 9) = true.
Proof. vm_compute. reflexivity. Qed.
Theorem rotplanar_rank_upto_9 : forall rows cols, 3 <= rows <= 9 -> 3 <= cols <= 9 ->
  rc_rank (rotplanar_n_k_d rows cols) (rotplanar_code rows cols).
Proof. intros rows cols Hr Hc. apply rc_rank_b_spec. exact (rp_upto 9 _ rotplanar_rank_upto_9_b rows cols Hr Hc). Qed.

(* ---- C08: the advertised d is the minimum distance (Core/Dist.is_distance), decided by the verified CSS
        procedure: v = the lighter supplied logical (weight d, separated from the stabilizer group by its
        conjugate logical l), and no non-trivial normalizer element of weight < d.
        Bound: rows, cols in 3..6 except 6x6 (15 sizes; 6x6 needs 2 x 443k supports x 35 generators in-kernel) ---- *)
Definition rc_dist_b (nkd : Z * Z * Z) (c : code) (v l : bsf) : bool :=
  let '(n, _, d) := nkd in css_distance_check (Z.to_nat n) (stabs c) (Z.to_nat d) v l.
Definition rc_dist (nkd : Z * Z * Z) (c : code) : Prop :=
  let '(n, _, d) := nkd in is_distance (Z.to_nat n) (stabs c) (Z.to_nat d).
Lemma rc_dist_b_spec nkd c v l : rc_dist_b nkd c v l = true -> rc_dist nkd c.
Proof. destruct nkd as [[n k] d]. unfold rc_dist_b, rc_dist. apply css_distance_check_sound. Qed.
Definition rp_dist_b (s : Z * Z) : bool :=
  let '(r, c) := s in
  let lx := hd [] (rp_logical_xs r c) in
  let lz := hd [] (rp_logical_zs r c) in
  if c <=? r then rc_dist_b (rotplanar_n_k_d r c) (rotplanar_code r c) lx lz
  else rc_dist_b (rotplanar_n_k_d r c) (rotplanar_code r c) lz lx.
Definition rp_dist_sizes : list (Z * Z) := filter (fun s => negb ((fst s =? 6) && (snd s =? 6))) (rp_sizes 6).
Lemma rotplanar_distance_upto_6x5_b : forallb rp_dist_b rp_dist_sizes = true.
Proof. vm_compute. reflexivity. Qed.
Theorem rotplanar_distance_upto_6x5 : forall rows cols, 3 <= rows <= 6 -> 3 <= cols <= 6 -> Z.min rows cols <= 5 ->
  rc_dist (rotplanar_n_k_d rows cols) (rotplanar_code rows cols).
Proof.
  intros rows cols Hr Hc Hm.
  assert (Hin : In (rows, cols) rp_dist_sizes).
  { unfold rp_dist_sizes. apply filter_In. split; [apply rp_sizes_In; lia|]. cbn [fst snd].
    destruct (Z.eqb_spec rows 6), (Z.eqb_spec cols 6); cbn; auto. lia. }
  pose proof (proj1 (forallb_forall _ _) rotplanar_distance_upto_6x5_b _ Hin) as H. unfold rp_dist_b in H.
  destruct (cols <=? rows); eapply rc_dist_b_spec; exact H.
Qed.
Definition rotplanar_distance_statement : Prop := forall rows cols, 3 <= rows -> 3 <= cols ->
  rc_dist (rotplanar_n_k_d rows cols) (rotplanar_code rows cols).
Definition rotplanar_distance_partial := rotplanar_distance_upto_6x5.

(* ---- full statements (all sizes) and the proved parts ---- *)
Definition rotplanar_valid_statement : Prop := forall rows cols, 3 <= rows -> 3 <= cols ->
  validate (rotplanar_code rows cols) = VOk /\ rc_shape (rotplanar_n_k_d rows cols) (rotplanar_code rows cols) 0.
Theorem rotplanar_valid_partial : forall rows cols, 3 <= rows <= 9 -> 3 <= cols <= 9 ->
  validate (rotplanar_code rows cols) = VOk /\ rc_shape (rotplanar_n_k_d rows cols) (rotplanar_code rows cols) 0.
Proof.
  intros rows cols Hr Hc. split; [|now apply rotplanar_shapes_upto_9].
  pose proof (rp_upto 9 _ rotplanar_valid_upto_9_b rows cols Hr Hc) as H. unfold rp_valid_b, validb in H. cbn [fst snd] in H.
  destruct (validate (rotplanar_code rows cols)); try discriminate. reflexivity.
Qed.
