(* Lattice/RotToricPathAll.v — C15 for ALL even rows, cols >= 2 and ALL pairs of same-type plaquette indices
   (any integers: indices are taken modulo the lattice): RotatedToricPauli.path(a, b) is defined and anticommutes
   with exactly the plaquettes a and b (with none when they coincide modulo the lattice).

   Method: every path site is the shared corner of two diagonally adjacent plaquettes of the path's type (an edge
   of that type's checkerboard graph); the loop of rt_path_loop is followed with a ghost plaquette position P such
   that the k-th site joins P_(k-1) and P_k, so the overlap counts telescope; the end point is computed in closed
   form (rt_fin1) and equals a + translation, which is b modulo the period. *)
From Coq Require Import ZArith Znumtheory List Bool Lia ZifyBool.
From QV Require Import Core.Bits Core.Pauli Core.Symp Core.Code Generated.LatticeArith
  Lattice.RotPlanar Lattice.RotToric Lattice.RotPlanarAll Lattice.RotPlanarValidAll Lattice.RotToricValidAll.
Import ListNotations.
Open Scope Z_scope.
Ltac Zify.zify_post_hook ::= Z.to_euclidean_division_equations.

Notation ridx := (Z * Z)%type.

(* ---------- one coordinate of one loop iteration, with the ghost plaquette coordinate p ---------- *)
(* c - p is 0 when the site column c is the plaquette's left column and 1 when it is its right column *)
Definition rt_inv1 (first : bool) (steps c p : Z) : Prop :=
  0 <= c - p <= 1 /\ (0 < steps -> c - p = 0) /\
  (steps < 0 -> (first = true /\ c - p = 0) \/ (first = false /\ c - p = 1)) /\
  (first = true -> c - p = 0).
(* where this coordinate of the walk ends after n more iterations *)
Definition rt_fin1 (n steps c p : Z) : Z :=
  p + steps +
  (if (n - Z.abs steps) mod 2 =? 0 then 0
   else if 0 <? steps then -1 else if steps <? 0 then 1 else if c - p =? 0 then -1 else 1).
Lemma rt_step_ghost first steps c p n : rt_inv1 first steps c p -> Z.abs steps <= n -> 1 <= n ->
  let c' := fst (rt_step first steps c) in
  let s' := snd (rt_step first steps c) in
  let p' := 2 * c' - p - 1 in
  (c' = p \/ c' = p + 1) /\ rt_inv1 false s' c' p' /\ rt_fin1 (n - 1) s' c' p' = rt_fin1 n steps c p.
Proof.
  unfold rt_inv1, rt_fin1, rt_step. intros (H1 & H2 & H3 & H4) Hn Hn1.
  destruct (Z.ltb_spec 0 steps) as [Hp|Hp]; [|destruct (Z.ltb_spec steps 0) as [Hm|Hm]]; cbn [fst snd];
    (split; [destruct first; lia|split; [destruct first; lia|]]);
    repeat match goal with |- context [if ?b then _ else _] => destruct b eqn:? end; destruct first; lia.
Qed.

(* ---------- the accumulator of rt_path_loop only prefixes the result ---------- *)
Lemma rt_path_loop_acc fuel : forall xs ys cx cy first acc,
  rt_path_loop fuel xs ys cx cy first acc =
  option_map (fun l => rev acc ++ l) (rt_path_loop fuel xs ys cx cy first []).
Proof.
  induction fuel as [|f IH]; intros xs ys cx cy first acc; cbn [rt_path_loop].
  - destruct ((xs =? 0) && (ys =? 0)); cbn; [now rewrite app_nil_r|reflexivity].
  - destruct ((xs =? 0) && (ys =? 0)); cbn [option_map rev app]; [now rewrite app_nil_r|].
    destruct (rt_step first xs cx) as [cx' xs'], (rt_step first ys cy) as [cy' ys'].
    rewrite IH. rewrite (IH _ _ _ _ _ [(cx', cy')]).
    destruct (rt_path_loop f xs' ys' cx' cy' false []); cbn [option_map rev app]; [|reflexivity].
    now rewrite <- app_assoc.
Qed.

(* ---------- one site against the four corners of a plaquette, on residues ---------- *)
Lemma rt_edge_res c r su sp sv sq u0 u1 w0 w1 :
  c mod 2 = 0 -> r mod 2 = 0 -> 0 <= su < c -> 0 <= sp < c -> 0 <= sv < r -> 0 <= sq < r ->
  0 <= u0 < c -> 0 <= w0 < r ->
  rt_succ c sp su -> rt_succ r sq sv -> rt_succ c u0 u1 -> rt_succ r w0 w1 ->
  rc_cnt (su, sv) [(u0, w0); (u0, w1); (u1, w1); (u1, w0)] =
  if (su - sv - (u0 - w0)) mod 2 =? 0
  then Z.b2z ((u0 =? su) && (w0 =? sv)) + Z.b2z ((u0 =? sp) && (w0 =? sq))
  else Z.b2z ((u0 =? sp) && (w0 =? sv)) + Z.b2z ((u0 =? su) && (w0 =? sq)).
Proof.
  intros Ec Er B1 B2 B3 B4 B5 B6 S1 S2 S3 S4.
  assert (F1 : (su =? u1) = (u0 =? sp)) by (unfold rt_succ in *; clear Ec Er S2 S4; lia).
  assert (F2 : (sv =? w1) = (w0 =? sq)) by (unfold rt_succ in *; clear Ec Er S1 S3; lia).
  assert (P1 : (su - sp) mod 2 = 1) by (unfold rt_succ in *; clear Er S2 S3 S4 F1 F2; lia).
  assert (P2 : (sv - sq) mod 2 = 1) by (unfold rt_succ in *; clear Ec S1 S3 S4 F1 F2; lia).
  unfold rc_cnt, rc_idx_eqb. cbn [fold_right fst snd]. rewrite F1, F2, (Z.eqb_sym su u0), (Z.eqb_sym sv w0).
  clear S1 S2 S3 S4 F1 F2 B1 B2 B3 B4 B5 B6 Ec Er.
  destruct (Z.eqb_spec ((su - sv - (u0 - w0)) mod 2) 0) as [E|E];
    destruct (Z.eqb_spec u0 su) as [A1|A1]; destruct (Z.eqb_spec u0 sp) as [A2|A2];
    destruct (Z.eqb_spec w0 sv) as [A3|A3]; destruct (Z.eqb_spec w0 sq) as [A4|A4];
    cbn [andb Z.b2z]; try reflexivity; exfalso; subst; lia.
Qed.

Section RotToricPath.
Variables rows cols : Z.
Hypothesis Hr : 2 <= rows.
Hypothesis Er : rows mod 2 = 0.
Hypothesis Hc : 2 <= cols.
Hypothesis Ec : cols mod 2 = 0.

Notation m2 := (rt_m2 rows cols).
(* number of corners of plaquette q that are the site s (modulo the lattice); q is plaquette t modulo the lattice *)
Definition rt_inc (s q : ridx) : Z := rc_cnt (m2 s) (map m2 (rt_corners q)).
Definition rt_eqm (q t : ridx) : Z := Z.b2z (rc_idx_eqb (m2 q) (m2 t)).
Definition rt_wsum (L : list ridx) (q : ridx) : Z := fold_right (fun s acc => rt_inc s q + acc) 0 L.
Lemma rt_wsum_pairs L q : rc_pairs (map m2 L) (map m2 (rt_corners q)) = rt_wsum L q.
Proof. induction L as [|s L IH]; [reflexivity|]. cbn [map]. rewrite rc_pairs_cons, IH. reflexivity. Qed.

Lemma rt_parity4 sx sy qx qy :
  (sx - sy - (qx - qy)) mod 2 = (sx mod cols - sy mod rows - (qx mod cols - qy mod rows)) mod 2.
Proof.
  rewrite Zminus_mod, (rt_type_mod rows cols Hr Er Hc Ec sx sy), (rt_type_mod rows cols Hr Er Hc Ec qx qy), <- Zminus_mod.
  reflexivity.
Qed.

(* a site is a corner of exactly two plaquettes of each type: for the type with the site's own parity these are
   the plaquettes at the site and diagonally below-left of it, for the other type the ones left of it and below it *)
Lemma rt_edge sx sy qx qy : rt_inc (sx, sy) (qx, qy) =
  if (sx - sy - (qx - qy)) mod 2 =? 0
  then rt_eqm (qx, qy) (sx, sy) + rt_eqm (qx, qy) (sx - 1, sy - 1)
  else rt_eqm (qx, qy) (sx - 1, sy) + rt_eqm (qx, qy) (sx, sy - 1).
Proof.
  unfold rt_inc, rt_eqm. rewrite rt_corners_m2, !rt_m2_unfold, rt_parity4. unfold rc_idx_eqb. cbn [fst snd].
  pose proof (rt_succ_mod cols (sx - 1) ltac:(lia)) as S1. replace (sx - 1 + 1) with sx in S1 by lia.
  pose proof (rt_succ_mod rows (sy - 1) ltac:(lia)) as S2. replace (sy - 1 + 1) with sy in S2 by lia.
  apply (rt_edge_res cols rows); auto using rt_succ_mod; try (apply Z.mod_pos_bound; lia); apply rt_succ_mod; lia.
Qed.

(* one loop iteration: the new site joins the ghost plaquette P and P' = (2 cx' - px - 1, 2 cy' - py - 1) *)
Lemma rt_inc_ghost px py cx' cy' q : (cx' = px \/ cx' = px + 1) -> (cy' = py \/ cy' = py + 1) ->
  (px - py - (fst q - snd q)) mod 2 = 0 ->
  rt_inc (cx', cy') q = rt_eqm q (px, py) + rt_eqm q (2 * cx' - px - 1, 2 * cy' - py - 1).
Proof.
  destruct q as [qx qy]. cbn [fst snd]. intros Hx Hy Hp. rewrite rt_edge.
  destruct Hx as [-> | ->], Hy as [-> | ->];
    match goal with |- context [if ?b then _ else _] => destruct b eqn:E end; try (exfalso; lia).
  - replace (2 * px - px - 1) with (px - 1) by lia. replace (2 * py - py - 1) with (py - 1) by lia. reflexivity.
  - replace (2 * px - px - 1) with (px - 1) by lia. replace (2 * (py + 1) - py - 1) with (py + 1) by lia.
    replace (py + 1 - 1) with py by lia. lia.
  - replace (2 * (px + 1) - px - 1) with (px + 1) by lia. replace (2 * py - py - 1) with (py - 1) by lia.
    replace (px + 1 - 1) with px by lia. reflexivity.
  - replace (2 * (px + 1) - px - 1) with (px + 1) by lia. replace (2 * (py + 1) - py - 1) with (py + 1) by lia.
    replace (px + 1 - 1) with px by lia. replace (py + 1 - 1) with py by lia. lia.
Qed.

Lemma rt_loop_sem fuel : forall xs ys cx cy first px py L q,
  rt_inv1 first xs cx px -> rt_inv1 first ys cy py -> (px - py - (fst q - snd q)) mod 2 = 0 ->
  rt_path_loop fuel xs ys cx cy first [] = Some L ->
  let n := Z.max (Z.abs xs) (Z.abs ys) in
  (rt_wsum L q) mod 2 = (rt_eqm q (px, py) + rt_eqm q (rt_fin1 n xs cx px, rt_fin1 n ys cy py)) mod 2.
Proof.
  assert (Hbase : forall cx cy px py q, 
            (rt_wsum [] q) mod 2 = (rt_eqm q (px, py) + rt_eqm q (rt_fin1 (Z.max (Z.abs 0) (Z.abs 0)) 0 cx px,
                                                                 rt_fin1 (Z.max (Z.abs 0) (Z.abs 0)) 0 cy py)) mod 2).
  { intros. unfold rt_fin1. cbn [Z.abs Z.max Z.compare Z.sub Z.opp Z.add Z.modulo Z.div_eucl Z.eqb].
    replace (px + 0 + 0) with px by lia. replace (py + 0 + 0) with py by lia. cbn [rt_wsum fold_right].
    unfold rt_eqm. lia. }
  induction fuel as [|f IH]; intros xs ys cx cy first px py L q Ix Iy Hp HL n; subst n; cbn [rt_path_loop] in HL.
  - destruct ((xs =? 0) && (ys =? 0)) eqn:E; [|discriminate].
    apply andb_true_iff in E. destruct E as [E1 E2]. apply Z.eqb_eq in E1, E2. subst. injection HL as <-. apply Hbase.
  - destruct ((xs =? 0) && (ys =? 0)) eqn:E.
    + apply andb_true_iff in E. destruct E as [E1 E2]. apply Z.eqb_eq in E1, E2. subst. injection HL as <-. apply Hbase.
    + assert (Hn : 1 <= Z.max (Z.abs xs) (Z.abs ys)).
      { apply andb_false_iff in E. destruct E as [E|E]; apply Z.eqb_neq in E; lia. }
      set (n := Z.max (Z.abs xs) (Z.abs ys)) in *.
      pose proof (rt_step_ghost first xs cx px n Ix ltac:(lia) Hn) as Gx.
      pose proof (rt_step_ghost first ys cy py n Iy ltac:(lia) Hn) as Gy.
      pose proof (rt_step_abs first xs cx) as Ax. pose proof (rt_step_abs first ys cy) as Ay.
      destruct (rt_step first xs cx) as [cx' xs'], (rt_step first ys cy) as [cy' ys']. cbn [fst snd] in *.
      destruct Gx as (Cx & Ix' & Fx), Gy as (Cy & Iy' & Fy).
      rewrite rt_path_loop_acc in HL.
      destruct (rt_path_loop f xs' ys' cx' cy' false []) as [L'|] eqn:HL'; [|discriminate].
      cbn [option_map rev app] in HL. injection HL as <-.
      assert (Hp' : (2 * cx' - px - 1 - (2 * cy' - py - 1) - (fst q - snd q)) mod 2 = 0) by (clear - Hp; lia).
      pose proof (IH xs' ys' cx' cy' false _ _ L' q Ix' Iy' Hp' HL') as HI. cbv zeta in HI.
      assert (Hn' : Z.max (Z.abs xs') (Z.abs ys') = n - 1) by (subst n; clear - Ax Ay Hn; lia).
      rewrite Hn' in HI.
      rewrite Fx, Fy in HI.
      cbn [rt_wsum fold_right]. fold (rt_wsum L' q).
      rewrite (rt_inc_ghost px py cx' cy' q Cx Cy Hp).
      clear - HI. lia.
Qed.

Lemma rt_mod_eq c u v : 0 < c -> (u - v) mod c = 0 -> u mod c = v mod c.
Proof.
  intros Hc0 H. apply Z.mod_divide in H; [|lia]. destruct H as [k Hk].
  replace u with (v + k * c) by lia. apply Z_mod_plus_full.
Qed.
Lemma rt_z_unfold i : rottoric_is_z_plaquette i = negb ((fst i - snd i) mod 2 =? 1).
Proof. destruct i; reflexivity. Qed.
Lemma rt_z_m2 t : rottoric_is_z_plaquette (m2 t) = rottoric_is_z_plaquette t.
Proof.
  destruct t as [x y]. rewrite rt_m2_unfold, !rt_z_unfold. cbn [fst snd].
  now rewrite <- (rt_type_mod rows cols Hr Er Hc Ec x y).
Qed.

(* the overlap count of the path's sites with any plaquette q of the path's type *)
Theorem rt_path_wsum a b L q : rt_path_indices rows cols a b = Some L ->
  rottoric_is_z_plaquette q = rottoric_is_z_plaquette a ->
  (rt_wsum L q) mod 2 = (rt_eqm q a + rt_eqm q b) mod 2.
Proof.
  unfold rt_path_indices. intros HL Tq. destruct (rc_idx_eqb a b) eqn:Eab.
  - apply rc_idx_eqb_spec in Eab. subst b. injection HL as <-. cbn [rt_wsum fold_right]. unfold rt_eqm. lia.
  - destruct (rt_translation rows cols a b) as [[xs ys]|] eqn:Ht; [|discriminate].
    assert (Tab : rottoric_is_z_plaquette a = rottoric_is_z_plaquette b).
    { apply (rt_translation_defined rows cols). unfold rt_translation in Ht. rewrite Ht. discriminate. }
    destruct (rt_translation_target rows cols a b xs ys ltac:(lia) ltac:(lia) Ht) as [Tx Ty].
    destruct a as [ax ay], b as [bx by_], q as [qx qy]. cbn [fst snd] in *.
    rewrite !rt_z_unfold in Tq, Tab. cbn [fst snd] in Tq, Tab.
    assert (Px : (ax + xs - bx) mod 2 = 0) by (rewrite <- (rt_parity_mod cols) by lia; now rewrite Tx).
    assert (Py : (ay + ys - by_) mod 2 = 0) by (rewrite <- (rt_parity_mod rows) by lia; now rewrite Ty).
    assert (Hpar : (Z.abs xs - Z.abs ys) mod 2 = 0) by (clear - Px Py Tab; lia).
    assert (Hq : (ax - ay - (qx - qy)) mod 2 = 0) by (clear - Tq; lia).
    pose proof (rt_loop_sem (Z.to_nat (Z.abs xs + Z.abs ys)) xs ys ax ay true ax ay L (qx, qy)) as HS.
    cbv zeta in HS. cbn [fst snd] in HS.
    rewrite HS; auto; try (unfold rt_inv1; lia). clear HS HL.
    assert (F1 : rt_fin1 (Z.max (Z.abs xs) (Z.abs ys)) xs ax ax = ax + xs).
    { unfold rt_fin1. replace ((Z.max (Z.abs xs) (Z.abs ys) - Z.abs xs) mod 2 =? 0) with true; [lia|].
      symmetry. apply Z.eqb_eq. clear - Hpar. lia. }
    assert (F2 : rt_fin1 (Z.max (Z.abs xs) (Z.abs ys)) ys ay ay = ay + ys).
    { unfold rt_fin1. replace ((Z.max (Z.abs xs) (Z.abs ys) - Z.abs ys) mod 2 =? 0) with true; [lia|].
      symmetry. apply Z.eqb_eq. clear - Hpar. lia. }
    rewrite F1, F2. unfold rt_eqm. rewrite (rt_m2_unfold rows cols (ax + xs)), (rt_m2_unfold rows cols bx).
    rewrite (rt_mod_eq cols (ax + xs) bx) by (auto; lia). rewrite (rt_mod_eq rows (ay + ys) by_) by (auto; lia).
    reflexivity.
Qed.

Lemma rt_odd_b2z x y : Z.odd (Z.b2z x + Z.b2z y) = xorb x y.
Proof. now destruct x, y. Qed.

(* C15: the path operator against every plaquette operator (any plaquette index q, any indices a, b) *)
Theorem rottoric_path_bsp_all_sec a b : rottoric_is_z_plaquette a = rottoric_is_z_plaquette b ->
  exists p, rt_path rows cols a b (rt_identity rows cols) = Some p /\
  forall q, bsp (rc_to_bsf p) (rt_stab rows cols q) =
            Bool.eqb (rottoric_is_z_plaquette q) (rottoric_is_z_plaquette a) &&
            xorb (rc_idx_eqb (m2 q) (m2 a)) (rc_idx_eqb (m2 q) (m2 b)).
Proof.
  intros Tab.
  assert (HL : exists L, rt_path_indices rows cols a b = Some L).
  { destruct (rc_idx_eqb a b) eqn:Eab.
    - exists []. unfold rt_path_indices. now rewrite Eab.
    - destruct (rt_translation rows cols a b) as [[xs ys]|] eqn:Ht.
      + destruct (rt_path_indices_defined rows cols a b xs ys Ht) as (l & Hl & _); [|now exists l].
        intros E. subst b. now rewrite rc_idx_eqb_refl in Eab.
      + exfalso. apply (rt_translation_defined rows cols a b) in Tab. unfold rt_translation in Ht. contradiction. }
  destruct HL as [L HL]. unfold rt_path. rewrite HL. eexists. split; [reflexivity|]. intros q.
  change (rc_to_bsf (rt_sites rows cols (if rottoric_is_z_plaquette a then pX else pZ) L (rt_identity rows cols)))
    with (rt_sop rows cols (if rottoric_is_z_plaquette a then pX else pZ) L).
  unfold rt_stab. rewrite (rt_bsp_sop rows cols Hr Hc). cbv zeta. rewrite rt_wsum_pairs. unfold rt_plaq_op.
  destruct (Bool.eqb (rottoric_is_z_plaquette q) (rottoric_is_z_plaquette a)) eqn:Tq.
  - apply eqb_prop in Tq. pose proof (rt_path_wsum a b L q HL Tq) as HW.
    assert (HO : Z.odd (rt_wsum L q) = xorb (rc_idx_eqb (m2 q) (m2 a)) (rc_idx_eqb (m2 q) (m2 b))).
    { rewrite <- rt_odd_b2z. fold (rt_eqm q a) (rt_eqm q b). rewrite !Zmod_odd in HW.
      destruct (Z.odd (rt_wsum L q)), (Z.odd (rt_eqm q a + rt_eqm q b)); auto; discriminate. }
    rewrite HO, Tq. destruct (rottoric_is_z_plaquette a); cbn; now destruct (xorb _ _).
  - destruct (rottoric_is_z_plaquette q), (rottoric_is_z_plaquette a); cbn in *; try discriminate; reflexivity.
Qed.

(* the same as a syndrome vector over the code's own plaquette list *)
Lemma rt_in_plaquette_indices q : In q (rt_plaquette_indices rows cols) -> m2 q = q.
Proof.
  unfold rt_plaquette_indices. rewrite in_app_iff, !filter_In. intros H.
  assert (Hs : In q (rt_scan rows cols)) by tauto. clear H. unfold rt_scan in Hs. cbn [rottoric_bounds] in Hs.
  apply in_flat_map in Hs. destruct Hs as (y & Hy & Hq). apply in_map_iff in Hq. destruct Hq as (x & <- & Hx).
  apply rc_range_In in Hx, Hy. apply rt_mod_index_small; lia.
Qed.
Theorem rottoric_path_syndrome_all_sec a b : rottoric_is_z_plaquette a = rottoric_is_z_plaquette b ->
  exists p, rt_path rows cols a b (rt_identity rows cols) = Some p /\
  syndrome_of (rt_stabilizers rows cols) (rc_to_bsf p) =
  map (fun q => xorb (rc_idx_eqb q (m2 a)) (rc_idx_eqb q (m2 b))) (rt_plaquette_indices rows cols).
Proof.
  intros Tab. destruct (rottoric_path_bsp_all_sec a b Tab) as (p & Hp & Hb). exists p. split; [exact Hp|].
  unfold syndrome_of.
  change (rt_stabilizers rows cols) with (map (rt_stab rows cols) (rt_plaquette_indices rows cols)).
  rewrite map_map. apply map_ext_in. intros q Hq. rewrite Hb, (rt_in_plaquette_indices q Hq).
  destruct (rc_idx_eqb q (m2 a)) eqn:E1.
  - apply rc_idx_eqb_spec in E1. rewrite E1 at 1. rewrite rt_z_m2, eqb_reflx. reflexivity.
  - destruct (rc_idx_eqb q (m2 b)) eqn:E2; [|now rewrite andb_false_r].
    apply rc_idx_eqb_spec in E2. rewrite E2 at 1. rewrite rt_z_m2, <- Tab, eqb_reflx. reflexivity.
Qed.
End RotToricPath.

(* C15, all sizes *)
Theorem rottoric_path_bsp_all : forall rows cols a b,
  2 <= rows -> rows mod 2 = 0 -> 2 <= cols -> cols mod 2 = 0 ->
  rottoric_is_z_plaquette a = rottoric_is_z_plaquette b ->
  exists p, rt_path rows cols a b (rt_identity rows cols) = Some p /\
  forall q, bsp (rc_to_bsf p) (rt_stab rows cols q) =
            Bool.eqb (rottoric_is_z_plaquette q) (rottoric_is_z_plaquette a) &&
            xorb (rc_idx_eqb (rt_m2 rows cols q) (rt_m2 rows cols a)) (rc_idx_eqb (rt_m2 rows cols q) (rt_m2 rows cols b)).
Proof. intros rows cols a b Hr Er Hc Ec. now apply rottoric_path_bsp_all_sec. Qed.
Theorem rottoric_path_syndrome_all : forall rows cols a b,
  2 <= rows -> rows mod 2 = 0 -> 2 <= cols -> cols mod 2 = 0 ->
  rottoric_is_z_plaquette a = rottoric_is_z_plaquette b ->
  exists p, rt_path rows cols a b (rt_identity rows cols) = Some p /\
  syndrome_of (rt_stabilizers rows cols) (rc_to_bsf p) =
  map (fun q => xorb (rc_idx_eqb q (rottoric_mod_index rows cols a)) (rc_idx_eqb q (rottoric_mod_index rows cols b)))
      (rt_plaquette_indices rows cols).
Proof. intros rows cols a b Hr Er Hc Ec. now apply rottoric_path_syndrome_all_sec. Qed.

(* non-vacuity: a wrapping pair on the 4 x 6 lattice *)
Example rottoric_path_syndrome_ex : exists p, rt_path 4 6 (5, 3) (-2, 6) (rt_identity 4 6) = Some p /\
  syndrome_of (rt_stabilizers 4 6) (rc_to_bsf p) =
  map (fun q => xorb (rc_idx_eqb q (5, 3)) (rc_idx_eqb q (4, 2))) (rt_plaquette_indices 4 6).
Proof. apply (rottoric_path_syndrome_all 4 6 (5, 3) (-2, 6)); reflexivity || lia. Qed.

(* ---------- weight: never more than the decoder's step count max(|x_steps|, |y_steps|), every size ---------- *)
Lemma rc_count_flip_at_le k : forall u, (count_true (rc_flip_at k u) <= S (count_true u))%nat.
Proof. induction k as [|k IH]; intros [|x u]; cbn; try lia; [destruct x; cbn; lia|]. specialize (IH u). lia. Qed.
Lemma rc_count_flips_le ks : forall u, (count_true (rc_flips ks u) <= count_true u + length ks)%nat.
Proof.
  induction ks as [|k ks IH]; intros u; cbn [rc_flips fold_left length]; [lia|].
  change (fold_left (fun a i => rc_flip_at i a) ks (rc_flip_at k u)) with (rc_flips ks (rc_flip_at k u)).
  specialize (IH (rc_flip_at k u)). pose proof (rc_count_flip_at_le k u). lia.
Qed.
Theorem rottoric_path_weight_le_all : forall rows cols a b tx ty,
  rt_translation rows cols a b = Some (tx, ty) ->
  exists p, rt_path rows cols a b (rt_identity rows cols) = Some p /\
            (bsf_wt (rc_to_bsf p) <= Z.to_nat (Z.max (Z.abs tx) (Z.abs ty)))%nat.
Proof.
  intros rows cols a b tx ty Ht.
  assert (HL : exists L, rt_path_indices rows cols a b = Some L /\ (length L <= Z.to_nat (Z.max (Z.abs tx) (Z.abs ty)))%nat).
  { destruct (rc_idx_eqb a b) eqn:Eab.
    - exists []. unfold rt_path_indices. rewrite Eab. split; [reflexivity|cbn; lia].
    - destruct (rt_path_indices_defined rows cols a b tx ty Ht) as (l & Hl & Hn).
      + intros E. subst b. now rewrite rc_idx_eqb_refl in Eab.
      + exists l. split; [exact Hl|lia]. }
  destruct HL as (L & HL & Hlen). unfold rt_path. rewrite HL. eexists. split; [reflexivity|].
  rewrite rt_sites_flips. unfold rc_apply_flips, rt_identity, rc_identity, rc_to_bsf. cbn [rc_xs rc_zs].
  set (n := rt_n rows cols). set (ks := map (rt_flat rows cols) L).
  assert (Hc : (count_true (rc_flips ks (zeros n)) <= length L)%nat).
  { pose proof (rc_count_flips_le ks (zeros n)) as H. rewrite rc_count_zeros in H. unfold ks in H. now rewrite map_length in H. }
  assert (Hl : length (rc_flips ks (zeros n)) = n) by now rewrite rc_flips_length, zeros_length.
  destruct (rottoric_is_z_plaquette a); cbn [xbit zbit]; [rewrite rc_wt_x_only by auto|rewrite rc_wt_z_only by auto]; lia.
Qed.
(* full statement (equality) — proved for all even sizes <= 8x8 in RotToricBounded.rottoric_paths_upto_8 *)
Definition rottoric_path_weight_statement : Prop := forall rows cols a b tx ty,
  2 <= rows -> rows mod 2 = 0 -> 2 <= cols -> cols mod 2 = 0 ->
  rt_translation rows cols a b = Some (tx, ty) ->
  exists p, rt_path rows cols a b (rt_identity rows cols) = Some p /\
            bsf_wt (rc_to_bsf p) = Z.to_nat (Z.max (Z.abs tx) (Z.abs ty)).
Definition rottoric_path_weight_partial := rottoric_path_weight_le_all.
