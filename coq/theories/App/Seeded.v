(* App/Seeded.v — a seeded run as a function of the uniform stream produced by the generator (C06):
   run i reads a slice whose position does not depend on the limits nor on earlier outcomes, hence a run with
   larger limits extends a run with smaller ones. *)
From Coq Require Import Arith List Bool Lia ZArith.
From QV Require Import App.RunLoop.
Import ListNotations.

(* uniforms consumed by one run: T steps, each n for the qubit error (IID models draw one uniform per qubit)
   and m for the syndrome flips when the measurement probability is truthy *)
Definition stride (n m T : nat) (q_truthy : bool) : nat := T * (n + if q_truthy then m else 0).
Definition run_start (n m T : nat) (q_truthy : bool) (i : nat) : nat := i * stride n m T q_truthy.
Definition step_start (n m T : nat) (q_truthy : bool) (i t : nat) : nat :=
  run_start n m T q_truthy i + t * (n + if q_truthy then m else 0).

Section Seeded.
Variable U : nat -> nat.                         (* the stream (any payload type would do) *)
Variable n m T : nat.
Variable q_truthy : bool.
Definition slice (start len : nat) : list nat := map U (seq start len).
Variable once : list (list nat) -> run_data.     (* _run_once as a function of the uniforms of its T steps *)
Definition run_i (i : nat) : run_data :=
  once (map (fun t => slice (step_start n m T q_truthy i t) (n + if q_truthy then m else 0)) (seq 0 T)).

(* consecutive runs read consecutive, non-overlapping slices *)
Theorem slices_contiguous i : run_start n m T q_truthy (S i) = run_start n m T q_truthy i + stride n m T q_truthy.
Proof. unfold run_start. lia. Qed.
Theorem step_within_run i t : t < T ->
  run_start n m T q_truthy i <= step_start n m T q_truthy i t /\
  step_start n m T q_truthy i t + (n + if q_truthy then m else 0) <= run_start n m T q_truthy (S i).
Proof. intros Ht. unfold step_start, run_start, stride. nia. Qed.

Definition le_opt (a b : option nat) : Prop :=
  match a, b with _, None => True | Some x, Some y => x <= y | None, Some _ => False end.

(* larger limits: at least as many runs, and the shorter run is a prefix of the longer one *)
Theorem prefix_extension fuel fuel' mr mf mr' mf' a a' :
  limits_ok mr mf -> limits_ok mr' mf' -> le_opt mr mr' -> le_opt mf mf' ->
  rloop fuel mr mf run_i acc0 = Done a -> rloop fuel' mr' mf' run_i acc0 = Done a' ->
  a_run a <= a_run a' /\ a_ws a = firstn (a_run a) (a_ws a') /\
  state_after run_i (a_run a) = Some a.
Proof.
  intros L L' Hr Hf H H'.
  destruct (stop_exact _ _ _ _ _ L H) as (Hk & Hs & _ & _ & Hall).
  destruct (stop_exact _ _ _ _ _ L' H') as (Hk' & Hs' & Hf' & Hstop' & _).
  destruct (counts _ _ _ _ _ H) as (_ & _ & W), (counts _ _ _ _ _ H') as (_ & _ & W').
  assert (Hle : a_run a <= a_run a').
  { destruct (le_lt_dec (a_run a) (a_run a')) as [|Hlt]; [assumption|exfalso].
    destruct (Hall _ Hlt) as (_ & _ & G). unfold guard, lt_opt in G. apply andb_true_iff in G. destruct G as [G1 G2].
    destruct Hstop' as [E|E].
    - rewrite E in Hr. destruct mr as [x|]; cbn in Hr; [|contradiction]. apply Nat.ltb_lt in G1. lia.
    - rewrite E in Hf. destruct mf as [x|]; cbn in Hf; [|contradiction]. apply Nat.ltb_lt in G2. lia. }
  split; [exact Hle|]. split; [|exact Hs].
  rewrite W, W'. rewrite firstn_map. f_equal.
  replace (a_run a') with (a_run a + (a_run a' - a_run a)) by lia. rewrite seq_app, firstn_app, seq_length, Nat.sub_diag.
  cbn [firstn]. rewrite app_nil_r. pose proof (firstn_all (seq 0 (a_run a))) as FA. rewrite seq_length in FA. now rewrite FA.
Qed.

(* the aggregate is determined by the number of runs performed, whatever kind of limit stopped the loop *)
Theorem same_runs_same_aggregate fuel fuel' mr mf mr' mf' a a' :
  limits_ok mr mf -> limits_ok mr' mf' ->
  rloop fuel mr mf run_i acc0 = Done a -> rloop fuel' mr' mf' run_i acc0 = Done a' ->
  a_run a = a_run a' -> a = a'.
Proof.
  intros L L' H H' E.
  destruct (stop_exact _ _ _ _ _ L H) as (_ & Hs & _).
  destruct (stop_exact _ _ _ _ _ L' H') as (_ & Hs' & _).
  rewrite E in Hs. rewrite Hs in Hs'. now injection Hs'.
Qed.

(* cross-limit consistency: a run that stopped after N runs (by whichever limit, in particular by max_failures
   alone) is reproduced by max_runs = N, alone or together with any max_failures at least as large *)
Theorem cross_limit fuel fuel' mr mf mf' a a' :
  limits_ok mr mf -> limits_ok (Some (a_run a)) mf' -> le_opt mf mf' ->
  rloop fuel mr mf run_i acc0 = Done a ->
  rloop fuel' (Some (a_run a)) mf' run_i acc0 = Done a' -> a' = a.
Proof.
  intros L L' Hf H H'.
  destruct (stop_exact _ _ _ _ _ L H) as (_ & _ & _ & _ & Hall).
  destruct (stop_exact _ _ _ _ _ L' H') as (Hk' & _ & _ & Hstop' & Hall').
  symmetry. apply (same_runs_same_aggregate _ _ _ _ _ _ _ _ L L' H H').
  destruct (Nat.lt_trichotomy (a_run a') (a_run a)) as [Hlt|[E|Hgt]]; [exfalso| now symmetry |exfalso].
  - destruct Hstop' as [E|E]; [injection E as E; lia|].
    destruct (Hall _ Hlt) as (_ & _ & G). unfold guard, lt_opt in G. apply andb_true_iff in G. destruct G as [_ G2].
    rewrite E in Hf. destruct mf as [x|]; cbn in Hf; [|contradiction]. apply Nat.ltb_lt in G2. lia.
  - destruct (Hall' _ Hgt) as (N & _). now apply N.
Qed.
End Seeded.
