(* App/Memo.v — what "pure and history-independent" means for the cached computations (C06):
   an abstract cache (functools.lru_cache, class-level dict caches) in front of a function f.
   If the key determines the result, every history of calls returns f x; eviction never matters.
   A key coarser than f's dependencies makes results history-dependent (witness below). *)
From Coq Require Import Arith List Bool Lia.
Import ListNotations.

Section Memo.
Variable X K V : Type.
Variable key : X -> K.
Variable keqb : K -> K -> bool.
Hypothesis keqb_spec : forall a b, keqb a b = true <-> a = b.
Variable f : X -> V.

Definition cache := list (K * V).
Fixpoint find (k : K) (c : cache) : option V :=
  match c with [] => None | (k', v) :: r => if keqb k k' then Some v else find k r end.
(* a call: hit returns the stored value; miss computes, stores, and may evict arbitrary old entries *)
Variable evict : cache -> cache.
Hypothesis evict_sub : forall c k v, find k (evict c) = Some v -> find k c = Some v.
Definition call (c : cache) (x : X) : cache * V :=
  match find (key x) c with
  | Some v => (c, v)
  | None => (evict ((key x, f x) :: c), f x)
  end.
Fixpoint run_history (c : cache) (h : list X) : cache :=
  match h with [] => c | x :: r => run_history (fst (call c x)) r end.

Definition sound (c : cache) : Prop := forall k v, find k c = Some v -> exists x, key x = k /\ v = f x.
Lemma sound_call c x : sound c -> sound (fst (call c x)).
Proof.
  intros H. unfold call. destruct (find (key x) c) eqn:E; cbn [fst]; [exact H|].
  intros k v Hk. apply evict_sub in Hk. cbn [find] in Hk. destruct (keqb k (key x)) eqn:Ek.
  - apply keqb_spec in Ek. injection Hk as <-. exists x. auto.
  - now apply H.
Qed.
Lemma sound_history h : forall c, sound c -> sound (run_history c h).
Proof. induction h as [|x r IH]; intros c H; cbn; auto. apply IH, sound_call, H. Qed.

(* purity: if the key determines the result, any prior history is invisible *)
Theorem memo_pure : (forall x y, key x = key y -> f x = f y) ->
  forall h x, snd (call (run_history [] h) x) = f x.
Proof.
  intros Hk h x. assert (S : sound (run_history [] h)) by (apply sound_history; intros k v H; discriminate).
  unfold call. destruct (find (key x) (run_history [] h)) as [v|] eqn:E; cbn [snd]; auto.
  destruct (S _ _ E) as (y & Hy & ->). now apply Hk.
Qed.
End Memo.

(* a key coarser than the function's dependencies: the answer depends on what was asked before *)
Theorem memo_refuted : exists (f : nat * nat -> nat) (key : nat * nat -> nat) (h : list (nat * nat)) (x : nat * nat),
  snd (call (nat * nat) nat nat key Nat.eqb f (fun c => c) (run_history (nat * nat) nat nat key Nat.eqb f (fun c => c) [] h) x) <> f x.
Proof. exists (fun p => fst p + snd p), fst, [(1, 5)], (1, 7). vm_compute. lia. Qed.

(* ---- the same defect with a set-like key: a cache keyed on a frozenset of defects (equal irrespective of
   order) in front of a computation that depends on the order in which the defects are presented (tie-break
   between equal-weight matchings by node insertion order).  The key identifies two presentations, f does not. *)
Fixpoint ins (a : nat) (l : list nat) : list nat :=
  match l with [] => [a] | b :: r => if a <=? b then a :: l else b :: ins a r end.
Definition as_set (l : list nat) : list nat := fold_right ins [] l.
Fixpoint list_eqb (a b : list nat) : bool :=
  match a, b with [] , [] => true | x :: r, y :: s => Nat.eqb x y && list_eqb r s | _, _ => false end.
Lemma list_eqb_spec a : forall b, list_eqb a b = true <-> a = b.
Proof.
  induction a as [|x r IH]; intros [|y s]; cbn; split; intros H; try discriminate; auto.
  - apply andb_true_iff in H as [H1 H2]. apply Nat.eqb_eq in H1. apply IH in H2. now subst.
  - injection H as -> ->. rewrite Nat.eqb_refl. cbn. now apply IH.
Qed.
(* if the cached computation factors through the key, it is history-independent ... *)
Theorem memo_pure_factor : forall (X K V : Type) (key : X -> K) keqb,
  (forall a b, keqb a b = true <-> a = b) -> forall (g : K -> V) evict,
  (forall c k v, find K V keqb k (evict c) = Some v -> find K V keqb k c = Some v) ->
  forall h x, snd (call X K V key keqb (fun x => g (key x)) evict
                     (run_history X K V key keqb (fun x => g (key x)) evict [] h) x) = g (key x).
Proof.
  intros X K V key keqb Hk g evict He h x.
  apply (memo_pure X K V key keqb Hk (fun x => g (key x)) evict He). intros a b E. now rewrite E.
Qed.
(* ... and an order-dependent computation behind a set key is not: the "first defect" of [1;2] after [2;1] *)
Theorem memo_refuted_setkey : exists (f : list nat -> nat) (h : list (list nat)) (x : list nat),
  snd (call (list nat) (list nat) nat as_set list_eqb f (fun c => c)
         (run_history (list nat) (list nat) nat as_set list_eqb f (fun c => c) [] h) x) <> f x.
Proof. exists (hd 0), [[2; 1]], [1; 2]. vm_compute. lia. Qed.

(* ---- process-global ambient state (mpmath working precision, numpy error state, ...): every component call
   reads it and may write it.  If every component leaves the part of the ambient state that results depend on as
   it found it (mp.workdps: set, compute, restore), a result does not depend on what ran before; a component that
   sets it and does not restore it makes other components' results history-dependent. *)
Section Ambient.
Variable S X Y W : Type.
Variable comp : S -> X -> S * Y.
Variable view : S -> W.               (* the part of the ambient state that results depend on *)
Hypothesis reads_view : forall s s' x, view s = view s' -> snd (comp s x) = snd (comp s' x).
Fixpoint amb_history (s : S) (h : list X) : S :=
  match h with [] => s | x :: r => amb_history (fst (comp s x)) r end.
Theorem ambient_pure : (forall s x, view (fst (comp s x)) = view s) ->
  forall h s x, snd (comp (amb_history s h) x) = snd (comp s x).
Proof.
  intros Hr h. induction h as [|y r IH]; intros s x; cbn [amb_history]; [reflexivity|].
  rewrite IH. apply reads_view, Hr.
Qed.
End Ambient.
(* a scoped precision change (workdps): the body runs at precision p, the caller's precision is restored *)
Definition scoped {X Y : Type} (p : nat) (body : nat -> X -> Y) (s : nat) (x : X) : nat * Y := (s, body p x).
Lemma scoped_restores {X Y : Type} p (body : nat -> X -> Y) s x : fst (scoped p body s x) = s.
Proof. reflexivity. Qed.
(* components: inl x = "round x to the ambient precision" (reads), inr p = "set the precision to p and leave it"
   (the unscoped variant).  After [inr 3] rounding 1234 to the ambient number of digits gives another answer. *)
Definition leaky (s : nat) (c : nat + nat) : nat * nat :=
  match c with inl x => (s, x mod (10 ^ s)) | inr p => (p, 0) end.
Theorem ambient_refuted : exists (h : list (nat + nat)) (x : nat + nat),
  snd (leaky (amb_history nat (nat + nat) nat leaky 2 h) x) <> snd (leaky 2 x).
Proof. exists [inr 3], (inl 1234). vm_compute. lia. Qed.
