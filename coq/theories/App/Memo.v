(* App/Memo.v — what "pure and history-independent" means for the cached computations (C06):
   an abstract cache (functools.lru_cache, class-level dict caches) in front of a function f.
   If the key determines the result, every history of calls returns f x; eviction never matters.
   A key coarser than f's dependencies makes results history-dependent (witness below). *)
From Coq Require Import Arith List Bool Lia.
Import ListNotations.

Section Memo.
Variable X K V : Type.
Variable key : X -> K.
Variable keqb : K -> K -> bool.
Hypothesis keqb_spec : forall a b, keqb a b = true <-> a = b.
Variable f : X -> V.

Definition cache := list (K * V).
Fixpoint find (k : K) (c : cache) : option V :=
  match c with [] => None | (k', v) :: r => if keqb k k' then Some v else find k r end.
(* a call: hit returns the stored value; miss computes, stores, and may evict arbitrary old entries *)
Variable evict : cache -> cache.
Hypothesis evict_sub : forall c k v, find k (evict c) = Some v -> find k c = Some v.
Definition call (c : cache) (x : X) : cache * V :=
  match find (key x) c with
  | Some v => (c, v)
  | None => (evict ((key x, f x) :: c), f x)
  end.
Fixpoint run_history (c : cache) (h : list X) : cache :=
  match h with [] => c | x :: r => run_history (fst (call c x)) r end.

Definition sound (c : cache) : Prop := forall k v, find k c = Some v -> exists x, key x = k /\ v = f x.
Lemma sound_call c x : sound c -> sound (fst (call c x)).
Proof.
  intros H. unfold call. destruct (find (key x) c) eqn:E; cbn [fst]; [exact H|].
  intros k v Hk. apply evict_sub in Hk. cbn [find] in Hk. destruct (keqb k (key x)) eqn:Ek.
  - apply keqb_spec in Ek. injection Hk as <-. exists x. auto.
  - now apply H.
Qed.
Lemma sound_history h : forall c, sound c -> sound (run_history c h).
Proof. induction h as [|x r IH]; intros c H; cbn; auto. apply IH, sound_call, H. Qed.

(* purity: if the key determines the result, any prior history is invisible *)
Theorem memo_pure : (forall x y, key x = key y -> f x = f y) ->
  forall h x, snd (call (run_history [] h) x) = f x.
Proof.
  intros Hk h x. assert (S : sound (run_history [] h)) by (apply sound_history; intros k v H; discriminate).
  unfold call. destruct (find (key x) (run_history [] h)) as [v|] eqn:E; cbn [snd]; auto.
  destruct (S _ _ E) as (y & Hy & ->). now apply Hk.
Qed.
End Memo.

(* a key coarser than the function's dependencies: the answer depends on what was asked before *)
Theorem memo_refuted : exists (f : nat * nat -> nat) (key : nat * nat -> nat) (h : list (nat * nat)) (x : nat * nat),
  snd (call (nat * nat) nat nat key Nat.eqb f (fun c => c) (run_history (nat * nat) nat nat key Nat.eqb f (fun c => c) [] h) x) <> f x.
Proof. exists (fun p => fst p + snd p), fst, [(1, 5)], (1, 7). vm_compute. lia. Qed.
