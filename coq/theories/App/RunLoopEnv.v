(* App/RunLoopEnv.v — the environment of app._run that RunLoop.v abstracts into a stream of VALUES:
   (1) decoders that own their output arrays: a decode call writes this run's vector into a buffer of the
       decoder's choosing (possibly the very buffer it returned before) and returns a reference to it. A loop that
       takes the contents of the returned array when it is returned (app.py: zeros_like + `array_sum + array_val`,
       both fresh arrays) sees exactly the values written, whatever the decoder does with its buffers afterwards;
       so the value-stream model of RunLoop.v decides the totals for every buffer-reuse pattern.
       A loop that keeps the returned OBJECT as its running total does not, and only a decoder that writes the
       same buffer again at run 2 can tell the two apart.
   (2) the identification fields: labels, (n,k,d), step count and probabilities are echoed as passed, for an
       arbitrary type of probabilities (no arithmetic on them is available, so no rounding or reformatting), with
       the documented default of measurement_error_probability; every run is made with the echoed values. *)
From Coq Require Import Arith List Bool Lia ZArith.
From QV Require Import App.RunLoop.
Import ListNotations.
Open Scope nat_scope.

(* ---- the loop depends on the run stream pointwise only ---- *)
Lemma rloop_ext fuel mr mf outs outs' : (forall i, outs i = outs' i) ->
  forall a, rloop fuel mr mf outs a = rloop fuel mr mf outs' a.
Proof.
  intros E. induction fuel as [|fuel IH]; intros a; cbn [rloop]; destruct (guard mr mf (a_run a) (a_fail a)); auto.
  rewrite E. destruct (step a (outs' (a_run a))) as [a'|]; auto.
Qed.
Lemma run_loop_ext fuel mr mf outs outs' : (forall i, outs i = outs' i) ->
  run_loop fuel mr mf outs = run_loop fuel mr mf outs'.
Proof. intros E. unfold run_loop. destruct (norm mr mf) as [mr' mf']. apply rloop_ext, E. Qed.
Lemma arr_prefix_ext f g n : (forall i, i < n -> f i = g i) -> arr_prefix f n = arr_prefix g n.
Proof.
  induction n as [|n IH]; intros E; cbn [arr_prefix]; auto.
  rewrite IH by (intros i Hi; apply E; lia). rewrite (E n) by lia. reflexivity.
Qed.

(* ---- decoder-owned buffers ---- *)
Definition heap := nat -> list Z.                       (* address -> contents *)
Definition upd (h : heap) (a : nat) (v : list Z) : heap := fun b => if b =? a then v else h b.
(* one field (logical_commutations or custom_values) over the decode calls: at call i the decoder returns None, or
   writes v into the buffer at address a and returns that buffer *)
Definition wscript := nat -> option (nat * list Z).
Fixpoint heap_after (s : wscript) (h0 : heap) (k : nat) : heap :=     (* the decoder's memory after k calls *)
  match k with
  | O => h0
  | S k' => match s k' with Some (a, v) => upd (heap_after s h0 k') a v | None => heap_after s h0 k' end
  end.
(* reading the array returned by call i at a time when k calls have been made *)
Definition deref (s : wscript) (h0 : heap) (i k : nat) : option (list Z) :=
  match s i with Some (a, _) => Some (heap_after s h0 k a) | None => None end.
(* what a loop sees that takes the contents when the array is returned *)
Definition seen (s : wscript) (h0 : heap) (i : nat) : option (list Z) := deref s h0 i (S i).
Definition written (s : wscript) (i : nat) : option (list Z) := option_map snd (s i).

Lemma seen_written s h0 i : seen s h0 i = written s i.
Proof.
  unfold seen, deref, written. cbn [heap_after]. destruct (s i) as [[a v]|]; cbn [option_map snd]; auto.
  unfold upd. rewrite Nat.eqb_refl. reflexivity.
Qed.

Record dscript := mkDs { ds_success : nat -> bool; ds_w : nat -> Z; ds_lc : wscript; ds_cv : wscript }.
Definition outs_seen (d : dscript) (hl hc : heap) (i : nat) : run_data :=
  mkRun (ds_success d i) (seen (ds_lc d) hl i) (seen (ds_cv d) hc i) (ds_w d i).
Definition outs_written (d : dscript) (i : nat) : run_data :=
  mkRun (ds_success d i) (written (ds_lc d) i) (written (ds_cv d) i) (ds_w d i).

(* whatever buffers the decoder reuses and whatever they held before, the loop is the loop over the values written *)
Theorem snapshot_loop fuel mr mf d hl hc :
  run_loop fuel mr mf (outs_seen d hl hc) = run_loop fuel mr mf (outs_written d).
Proof. apply run_loop_ext. intros i. unfold outs_seen, outs_written. rewrite !seen_written. reflexivity. Qed.

(* A loop that keeps the array object returned by run 1 as its running total (no copy): the total is read through
   that reference when run 2 is added — or at the end when there is one run only. From run 2 on the total is a fresh
   array. In terms of the honest fold this is the fold of a stream whose first entry is read late. *)
Definition alias_stream (s : wscript) (h0 : heap) (n : nat) (i : nat) : option (list Z) :=
  if i =? 0 then deref s h0 0 (Nat.min n 2) else seen s h0 i.
Definition alias_prefix (s : wscript) (h0 : heap) (n : nat) : option (option (list Z)) :=
  arr_prefix (alias_stream s h0 n) n.

(* it agrees with the fold of the runs whenever run 2 does not write the buffer returned by run 1 (all decoders that
   return a fresh array per call; every single-run simulation) ... *)
Definition second_write_elsewhere (s : wscript) : Prop :=
  match s 0, s 1 with Some (a0, _), Some (a1, _) => a1 <> a0 | _, _ => True end.
Theorem alias_agrees_when_fresh s h0 n : second_write_elsewhere s \/ n <= 1 ->
  alias_prefix s h0 n = arr_prefix (written s) n.
Proof.
  intros H. unfold alias_prefix. apply arr_prefix_ext. intros i Hi. unfold alias_stream.
  destruct (Nat.eqb_spec i 0) as [->|Hne]; [|apply seen_written].
  rewrite <- seen_written with (h0 := h0). unfold seen, deref.
  destruct (s 0) as [[a0 v0]|] eqn:E0; auto. f_equal.
  destruct n as [|[|n]]; [lia|reflexivity|]. replace (Nat.min (S (S n)) 2) with 2 by lia.
  cbn [heap_after]. rewrite E0.
  destruct H as [H|H]; [|lia]. unfold second_write_elsewhere in H. rewrite E0 in H.
  destruct (s 1) as [[a1 v1]|]; auto. unfold upd at 1. destruct (Nat.eqb_spec a0 a1); [congruence|reflexivity].
Qed.

(* ... and differs for a decoder with one output buffer: runs [1], [2], [3] total [6], the aliasing loop gives [7] *)
Definition one_buffer (i : nat) : option (nat * list Z) := Some (0, [Z.of_nat (S i)]).
Example alias_differs : arr_prefix (written one_buffer) 3 = Some (Some [6%Z]) /\
  alias_prefix one_buffer (fun _ => []) 3 = Some (Some [7%Z]) /\ ~ second_write_elsewhere one_buffer.
Proof. repeat split; try (vm_compute; reflexivity). cbn. intros H. apply H. reflexivity. Qed.

(* ---- identification fields ---- *)
Section Ident.
  Variables (P L : Type).            (* probabilities as passed (binary64 values, opaque) and labels *)
  Variable zero : P.                 (* the literal 0.0 *)
  Inductive mode := Ideal | Ftp.
  Record ident := mkIdent { i_code : L; i_nkd : nat * nat * nat; i_steps : nat; i_model : L; i_decoder : L;
                            i_p : P; i_q : P }.
  (* run(): time_steps = 1, measurement probability 0.0; run_ftp(): None => 0.0 if time_steps = 1 else p *)
  Definition steps_eff (m : mode) (T : nat) : nat := match m with Ideal => 1 | Ftp => T end.
  Definition q_eff (m : mode) (T : nat) (p : P) (q : option P) : P :=
    match m with
    | Ideal => zero
    | Ftp => match q with Some q' => q' | None => if T =? 1 then zero else p end
    end.
  Definition run_ident (m : mode) (code : L) (nkd : nat * nat * nat) (T : nat) (em dec : L) (p : P) (q : option P) :=
    mkIdent code nkd (steps_eff m T) em dec p (q_eff m T p q).
  (* the arguments of _run_once at run i: (time_steps, error_probability, measurement_error_probability) *)
  Definition run_args (m : mode) (T : nat) (p : P) (q : option P) (i : nat) : nat * P * P :=
    (steps_eff m T, p, q_eff m T p q).

  Theorem echo m code nkd T em dec p q :
    let r := run_ident m code nkd T em dec p q in
    i_code r = code /\ i_nkd r = nkd /\ i_model r = em /\ i_decoder r = dec /\ i_p r = p /\
    i_steps r = match m with Ideal => 1 | Ftp => T end /\
    (forall q', m = Ftp -> q = Some q' -> i_q r = q') /\
    (m = Ftp -> q = None -> T <> 1 -> i_q r = p) /\
    (m = Ftp -> q = None -> T = 1 -> i_q r = zero) /\
    (m = Ideal -> i_q r = zero) /\
    (forall i, run_args m T p q i = (i_steps r, i_p r, i_q r)).
  Proof.
    cbn. repeat split; auto.
    - intros q' -> ->. reflexivity.
    - intros -> -> H. cbn. destruct (Nat.eqb_spec T 1); [contradiction|reflexivity].
    - intros -> -> ->. reflexivity.
    - intros ->. reflexivity.
  Qed.
End Ident.
