(* App/Merge.v — model of app.merge (app.py:535-602): insertion-ordered grouping by the 7-field key,
   scalar and array sums with mismatch detection, legacy defaults, recomputed rates.
   Proof architecture: the record payload is a partial commutative monoid; merge is a per-key left fold. *)
From Coq Require Import Arith List Bool Lia ZArith QArith Permutation.
Import ListNotations.
Open Scope nat_scope.

Definition bind {A B} (o : option A) (f : A -> option B) : option B := match o with Some a => f a | None => None end.

(* ================= partial commutative monoids ================= *)
Section PCM.
Variable V : Type.
Variable add : V -> V -> option V.
Hypothesis add_comm : forall a b, add a b = add b a.
Hypothesis add_assoc : forall a b c, bind (add a b) (fun ab => add ab c) = bind (add b c) (fun bc => add a bc).

Fixpoint suml (acc : V) (l : list V) : option V :=
  match l with [] => Some acc | x :: r => bind (add acc x) (fun a => suml a r) end.

Lemma suml_swap acc x y r : suml acc (x :: y :: r) = suml acc (y :: x :: r).
Proof.
  cbn [suml].
  assert (E : bind (add acc x) (fun a => add a y) = bind (add acc y) (fun a => add a x)).
  { rewrite add_assoc. rewrite (add_comm x y). rewrite <- add_assoc. reflexivity. }
  destruct (add acc x) as [ax|] eqn:Ex, (add acc y) as [ay|] eqn:Ey; cbn [bind] in *.
  - destruct (add ax y) as [axy|] eqn:E1, (add ay x) as [ayx|] eqn:E2; cbn [bind]; congruence.
  - destruct (add ax y); [discriminate|reflexivity].
  - destruct (add ay x); [discriminate|reflexivity].
  - reflexivity.
Qed.
Theorem suml_perm l l' : Permutation l l' -> forall acc, suml acc l = suml acc l'.
Proof.
  induction 1 as [| x l l' _ IH | x y l | l l' l'' _ IH1 _ IH2]; intros acc.
  - reflexivity.
  - cbn [suml]. destruct (add acc x); cbn [bind]; auto.
  - apply suml_swap.
  - now rewrite IH1.
Qed.
Lemma suml_app acc a b : suml acc (a ++ b) = bind (suml acc a) (fun s => suml s b).
Proof.
  revert acc. induction a as [|x a IH]; intros acc; cbn [suml app bind]; auto.
  destruct (add acc x); cbn [bind]; auto.
Qed.
End PCM.

(* lifting: None as a neutral element, so that a key's sum starts from "absent" *)
Section Lift.
Variable V : Type.
Variable add : V -> V -> option V.
Hypothesis add_comm : forall a b, add a b = add b a.
Hypothesis add_assoc : forall a b c, bind (add a b) (fun ab => add ab c) = bind (add b c) (fun bc => add a bc).
Definition addo (a b : option V) : option (option V) :=
  match a, b with
  | None, w | w, None => Some w
  | Some x, Some y => option_map Some (add x y)
  end.
Lemma addo_comm a b : addo a b = addo b a.
Proof. destruct a, b; cbn; auto. now rewrite add_comm. Qed.
Lemma addo_assoc a b c : bind (addo a b) (fun ab => addo ab c) = bind (addo b c) (fun bc => addo a bc).
Proof.
  destruct a as [x|], b as [y|], c as [z|]; cbn; try reflexivity.
  - pose proof (add_assoc x y z) as H. destruct (add x y) as [xy|], (add y z) as [yz|]; cbn in *;
      first [now rewrite H | now rewrite <- H | reflexivity].
  - destruct (add x y); reflexivity.
  - destruct (add y z); reflexivity.
Qed.
End Lift.

(* ================= insertion-ordered grouping ================= *)
Section Table.
Variable K : Type.
Variable keqb : K -> K -> bool.
Hypothesis keqb_spec : forall a b, keqb a b = true <-> a = b.
Variable V : Type.
Variable add : V -> V -> option V.
Hypothesis add_comm : forall a b, add a b = add b a.
Hypothesis add_assoc : forall a b c, bind (add a b) (fun ab => add ab c) = bind (add b c) (fun bc => add a bc).

Definition table := list (K * V).
(* dict update: an existing key keeps its position, a new key is appended *)
Fixpoint upd (k : K) (v : V) (t : table) : option table :=
  match t with
  | [] => Some [(k, v)]
  | (k', s) :: r => if keqb k k' then bind (add s v) (fun s' => Some ((k', s') :: r))
                    else bind (upd k v r) (fun r' => Some ((k', s) :: r'))
  end.
Fixpoint mergel (t : table) (l : list (K * V)) : option table :=
  match l with [] => Some t | (k, v) :: r => bind (upd k v t) (fun t' => mergel t' r) end.
Fixpoint lookup (k : K) (t : table) : option V :=
  match t with [] => None | (k', s) :: r => if keqb k k' then Some s else lookup k r end.
Definition vals (k : K) (l : list (K * V)) : list V := map snd (filter (fun kv => keqb k (fst kv)) l).

Lemma keqb_refl k : keqb k k = true. Proof. now apply keqb_spec. Qed.
Lemma keqb_sym a b : keqb a b = keqb b a.
Proof.
  destruct (keqb a b) eqn:E1, (keqb b a) eqn:E2; auto.
  - apply keqb_spec in E1. subst. rewrite keqb_refl in E2. discriminate.
  - apply keqb_spec in E2. subst. rewrite keqb_refl in E1. discriminate.
Qed.

Lemma upd_lookup k v t t' : upd k v t = Some t' ->
  forall j, lookup j t' = if keqb j k then match lookup k t with Some s => add s v | None => Some v end else lookup j t.
Proof.
  revert t'. induction t as [|[k' s] r IH]; intros t' H j; cbn [upd] in H.
  - injection H as <-. cbn. destruct (keqb j k); reflexivity.
  - destruct (keqb k k') eqn:E.
    + apply keqb_spec in E. subst k'. destruct (add s v) as [s'|] eqn:A; [|discriminate]. injection H as <-.
      cbn [lookup]. destruct (keqb j k) eqn:J; [now rewrite keqb_refl|reflexivity].
    + destruct (upd k v r) as [r'|] eqn:U; [|discriminate]. injection H as <-. cbn [lookup].
      specialize (IH r' eq_refl j). rewrite E.
      destruct (keqb j k') eqn:J'.
      * apply keqb_spec in J'. subst. rewrite keqb_sym, E. reflexivity.
      * exact IH.
Qed.
Lemma upd_none k v t : upd k v t = None <-> exists s, lookup k t = Some s /\ add s v = None.
Proof.
  induction t as [|[k' s] r IH]; cbn [upd lookup].
  - split; [discriminate|intros (s & H & _); discriminate].
  - destruct (keqb k k') eqn:E.
    + destruct (add s v) eqn:A; cbn [bind]; split.
      * discriminate.
      * intros (s0 & H & H'). congruence.
      * intros _. eauto.
      * reflexivity.
    + destruct (upd k v r) eqn:U; cbn [bind]; split.
      * discriminate.
      * intros Hex. apply IH in Hex. discriminate.
      * intros _. now apply IH.
      * reflexivity.
Qed.

(* per-key sum starting from an optional value, in list order *)
Definition keysum (init : option V) (vs : list V) : option (option V) :=
  suml (option V) (addo V add) init (map Some vs).

Lemma keysum_cons init v vs : keysum init (v :: vs) =
  bind (match init with Some s => option_map Some (add s v) | None => Some (Some v) end) (fun s => keysum s vs).
Proof. unfold keysum. cbn [map suml]. destruct init; reflexivity. Qed.

Theorem mergel_spec l : forall t,
  match mergel t l with
  | Some t' => forall k, keysum (lookup k t) (vals k l) = Some (lookup k t')
  | None => exists k, keysum (lookup k t) (vals k l) = None
  end.
Proof.
  induction l as [|[k v] l IH]; intros t; cbn [mergel].
  - intros k. reflexivity.
  - destruct (upd k v t) as [t1|] eqn:U; cbn [bind].
    + specialize (IH t1). pose proof (upd_lookup _ _ _ _ U) as L.
      assert (Hk : forall j, keysum (lookup j t) (vals j ((k, v) :: l)) = keysum (lookup j t1) (vals j l)).
      { intros j. unfold vals. cbn [filter fst]. rewrite (L j). destruct (keqb j k) eqn:J.
        - apply keqb_spec in J. subst j. cbn [map snd]. rewrite keysum_cons.
          destruct (lookup k t) as [s|] eqn:Lk.
          + destruct (add s v) as [sv|] eqn:A; [reflexivity|].
            exfalso. assert (upd k v t = None) by (apply upd_none; eauto). congruence.
          + reflexivity.
        - reflexivity. }
      destruct (mergel t1 l) as [t'|].
      * intros j. rewrite Hk. apply IH.
      * destruct IH as (j & Hj). exists j. now rewrite Hk.
    + apply upd_none in U. destruct U as (s & Ls & A). exists k. unfold vals. cbn [filter fst]. rewrite keqb_refl.
      cbn [map snd]. rewrite keysum_cons, Ls, A. reflexivity.
Qed.

(* permutation invariance, including whether the merge errors *)
Lemma vals_perm k l l' : Permutation l l' -> Permutation (vals k l) (vals k l').
Proof.
  intros H. unfold vals. apply Permutation_map.
  induction H as [| x l l' _ IH | x y l | l l' l'' _ IH1 _ IH2]; cbn [filter].
  - constructor.
  - destruct (keqb k (fst x)); [now constructor|exact IH].
  - destruct (keqb k (fst y)), (keqb k (fst x)); try reflexivity. constructor.
  - now rewrite IH1.
Qed.
Lemma keysum_perm init vs vs' : Permutation vs vs' -> keysum init vs = keysum init vs'.
Proof.
  intros H. unfold keysum. apply suml_perm.
  - apply addo_comm, add_comm.
  - apply addo_assoc; auto.
  - now apply Permutation_map.
Qed.

Definition merged_ok (l : list (K * V)) (t : table) : Prop := mergel [] l = Some t.
Theorem merge_perm l l' : Permutation l l' ->
  match mergel [] l, mergel [] l' with
  | Some t, Some t' => forall k, lookup k t = lookup k t'
  | None, None => True
  | _, _ => False
  end.
Proof.
  intros P. pose proof (mergel_spec l []) as S. pose proof (mergel_spec l' []) as S'.
  assert (E : forall k, keysum (lookup k []) (vals k l) = keysum (lookup k []) (vals k l'))
    by (intros k; apply keysum_perm, vals_perm, P).
  destruct (mergel [] l) as [t|], (mergel [] l') as [t'|]; auto.
  - intros k. specialize (S k). specialize (S' k). rewrite E in S. congruence.
  - destruct S' as (k & Hk). specialize (S k). rewrite E in S. congruence.
  - destruct S as (k & Hk). specialize (S' k). rewrite <- E in S'. congruence.
Qed.

(* sums of sums: merging incrementally gives, per key, the same as merging everything at once *)
Lemma suml_from acc b : suml (option V) (addo V add) acc b =
  bind (suml (option V) (addo V add) None b) (fun s => addo V add acc s).
Proof.
  revert acc. induction b as [|x r IH]; intros acc; cbn [suml bind].
  - destruct acc; reflexivity.
  - change (addo V add None x) with (Some x). cbn [bind]. rewrite (IH x).
    destruct (suml (option V) (addo V add) None r) as [s|] eqn:S; cbn [bind].
    + rewrite <- (addo_assoc V add add_assoc acc x s).
      destruct (addo V add acc x) as [a|]; cbn [bind]; [|reflexivity]. rewrite (IH a). reflexivity.
    + destruct (addo V add acc x) as [a|]; cbn [bind]; [|reflexivity]. rewrite (IH a). reflexivity.
Qed.
Lemma vals_app k l1 l2 : vals k (l1 ++ l2) = vals k l1 ++ vals k l2.
Proof. unfold vals. now rewrite filter_app, map_app. Qed.
Theorem keysum_incremental k l1 l2 :
  keysum None (vals k (l1 ++ l2)) =
  bind (keysum None (vals k l1)) (fun s1 => bind (keysum None (vals k l2)) (fun s2 => addo V add s1 s2)).
Proof.
  unfold keysum. rewrite vals_app, map_app, suml_app.
  destruct (suml (option V) (addo V add) None (map Some (vals k l1))) as [s1|]; cbn [bind]; [|reflexivity].
  apply suml_from.
Qed.

(* rows: one per distinct key, in first-occurrence order *)
Fixpoint first_keys (seen : list K) (l : list (K * V)) : list K :=
  match l with
  | [] => []
  | (k, _) :: r => if existsb (keqb k) seen then first_keys seen r else k :: first_keys (seen ++ [k]) r
  end.
Lemma upd_keys k v t t' : upd k v t = Some t' ->
  map fst t' = if existsb (keqb k) (map fst t) then map fst t else map fst t ++ [k].
Proof.
  revert t'. induction t as [|[k' s] r IH]; intros t' H; cbn [upd] in H.
  - injection H as <-. reflexivity.
  - cbn [map fst existsb]. destruct (keqb k k') eqn:E.
    + destruct (add s v); [|discriminate]. injection H as <-. reflexivity.
    + destruct (upd k v r) as [r'|] eqn:U; [|discriminate]. injection H as <-. cbn [map fst orb].
      rewrite (IH r' eq_refl). destruct (existsb (keqb k) (map fst r)); reflexivity.
Qed.
Theorem mergel_keys l : forall t t', mergel t l = Some t' -> map fst t' = map fst t ++ first_keys (map fst t) l.
Proof.
  induction l as [|[k v] l IH]; intros t t' H; cbn [mergel first_keys] in *.
  - injection H as <-. now rewrite app_nil_r.
  - destruct (upd k v t) as [t1|] eqn:U; [|discriminate]. cbn [bind] in H.
    rewrite (IH _ _ H). rewrite (upd_keys _ _ _ _ U).
    destruct (existsb (keqb k) (map fst t)); [reflexivity|]. now rewrite <- app_assoc.
Qed.
End Table.

(* ================= the concrete payload ================= *)
Record payload := mkPay { p_run : Z; p_fail : Z; p_succ : Z; p_ewt : Z; p_wall : Z (* dyadic units *);
                          p_lc : option (list Z); p_cv : option (list Z) }.
Fixpoint zip_add (a b : list Z) : list Z :=
  match a, b with x :: a', y :: b' => (x + y)%Z :: zip_add a' b' | _, _ => [] end.
(* app.py:585-590 ; outer None = ValueError *)
Definition arr_add (a b : option (list Z)) : option (option (list Z)) :=
  match a, b with
  | None, None => Some None
  | Some x, Some y => if length x =? length y then Some (Some (zip_add x y)) else None
  | _, _ => None
  end.
Definition padd (a b : payload) : option payload :=
  match arr_add (p_lc a) (p_lc b), arr_add (p_cv a) (p_cv b) with
  | Some l, Some c => Some (mkPay (p_run a + p_run b) (p_fail a + p_fail b) (p_succ a + p_succ b)
                                  (p_ewt a + p_ewt b) (p_wall a + p_wall b) l c)
  | _, _ => None
  end.

Lemma zip_add_comm a : forall b, zip_add a b = zip_add b a.
Proof. induction a as [|x a IH]; intros [|y b]; cbn; auto. now rewrite IH, Z.add_comm. Qed.
Lemma zip_add_assoc a : forall b c, zip_add (zip_add a b) c = zip_add a (zip_add b c).
Proof. induction a as [|x a IH]; intros [|y b] [|z c]; cbn; auto. now rewrite IH, Z.add_assoc. Qed.
Lemma zip_add_length a : forall b, length a = length b -> length (zip_add a b) = length a.
Proof. induction a as [|x a IH]; intros [|y b] H; cbn in *; try lia. now rewrite IH by lia. Qed.
Lemma arr_add_comm a b : arr_add a b = arr_add b a.
Proof.
  destruct a as [x|], b as [y|]; cbn; auto. rewrite (Nat.eqb_sym (length y)).
  destruct (length x =? length y); auto. now rewrite zip_add_comm.
Qed.
Lemma arr_add_assoc a b c :
  bind (arr_add a b) (fun ab => arr_add ab c) = bind (arr_add b c) (fun bc => arr_add a bc).
Proof.
  destruct a as [x|], b as [y|], c as [z|]; cbn; auto.
  - destruct (Nat.eqb_spec (length x) (length y)) as [E1|N1], (Nat.eqb_spec (length y) (length z)) as [E2|N2]; cbn.
    + rewrite !zip_add_length by lia.
      replace (length x =? length z) with true by (symmetry; apply Nat.eqb_eq; lia).
      replace (length x =? length y) with true by (symmetry; apply Nat.eqb_eq; lia).
      now rewrite zip_add_assoc.
    + rewrite zip_add_length by lia. destruct (Nat.eqb_spec (length x) (length z)); [lia|reflexivity].
    + rewrite zip_add_length by lia. destruct (Nat.eqb_spec (length x) (length y)); [lia|reflexivity].
    + reflexivity.
  - destruct (length x =? length y); reflexivity.
  - destruct (length y =? length z); reflexivity.
Qed.

Lemma padd_comm a b : padd a b = padd b a.
Proof.
  unfold padd. rewrite (arr_add_comm (p_lc a)), (arr_add_comm (p_cv a)).
  destruct (arr_add (p_lc b) (p_lc a)), (arr_add (p_cv b) (p_cv a)); auto.
  f_equal. f_equal; apply Z.add_comm.
Qed.
Lemma padd_assoc a b c : bind (padd a b) (fun ab => padd ab c) = bind (padd b c) (fun bc => padd a bc).
Proof.
  unfold padd.
  pose proof (arr_add_assoc (p_lc a) (p_lc b) (p_lc c)) as HL.
  pose proof (arr_add_assoc (p_cv a) (p_cv b) (p_cv c)) as HC.
  destruct (arr_add (p_lc a) (p_lc b)) as [lab|], (arr_add (p_lc b) (p_lc c)) as [lbc|];
    destruct (arr_add (p_cv a) (p_cv b)) as [cab|], (arr_add (p_cv b) (p_cv c)) as [cbc|]; cbn [bind] in *;
    cbn [p_lc p_cv p_run p_fail p_succ p_ewt p_wall];
    try rewrite HL; try rewrite HC; try rewrite <- HL; try rewrite <- HC;
    repeat match goal with |- context [match ?x with Some _ => _ | None => _ end] => destruct x end;
    try reflexivity; try (f_equal; f_equal; lia).
Qed.

(* ---- records, keys, legacy defaults ---- *)
Definition key := list nat.          (* the 7 key fields as equivalence-class ids under Python == *)
Fixpoint key_eqb (a b : key) : bool :=
  match a, b with [], [] => true | x :: a', y :: b' => (x =? y) && key_eqb a' b' | _, _ => false end.
Lemma key_eqb_spec a : forall b, key_eqb a b = true <-> a = b.
Proof.
  induction a as [|x a IH]; intros [|y b]; cbn; split; intros H; try discriminate; auto.
  - apply andb_true_iff in H. destruct H as [H1 H2]. apply Nat.eqb_eq in H1. apply IH in H2. now subst.
  - injection H as -> ->. rewrite Nat.eqb_refl. now apply IH.
Qed.

(* a raw record as read from a file: newer fields may be absent (None) *)
Record raw := mkRaw { w_code : nat; w_nkd : nat; w_em : nat; w_dec : nat; w_p : nat;
                      w_T : option nat; w_q : option nat;           (* ids; absent in 0.10/0.15 files *)
                      w_n : Z; w_Tval : option Z;                    (* numeric n and time_steps for the rates *)
                      w_pay : payload;
                      w_lc_present : bool; w_cv_present : bool }.    (* absent in pre-1.0b6 files *)
Definition of_raw (dT dq : nat) (r : raw) : (key * (Z * Z)) * payload :=
  let T := match w_T r with Some t => t | None => dT end in
  let q := match w_q r with Some t => t | None => dq end in
  let Tv := match w_Tval r with Some t => t | None => 1%Z end in
  let p := w_pay r in
  (([w_code r; w_nkd r; w_em r; w_dec r; w_p r; T; q], (w_n r, Tv)),
   mkPay (p_run p) (p_fail p) (p_succ p) (p_ewt p) (p_wall p)
         (if w_lc_present r then p_lc p else None) (if w_cv_present r then p_cv p else None)).

Definition kx := (key * (Z * Z))%type.
Definition kx_eqb (a b : kx) : bool :=
  key_eqb (fst a) (fst b) && Z.eqb (fst (snd a)) (fst (snd b)) && Z.eqb (snd (snd a)) (snd (snd b)).
Lemma kx_eqb_spec a b : kx_eqb a b = true <-> a = b.
Proof.
  destruct a as [ka [na ta]], b as [kb [nb tb]]. unfold kx_eqb. cbn [fst snd].
  rewrite !andb_true_iff, key_eqb_spec, !Z.eqb_eq. split; [intros [[-> ->] ->]; reflexivity|intros H; injection H; auto].
Qed.

Record row := mkRow { row_key : key; row_pay : payload; row_fr : Q; row_pr : Q }.
Definition mk_row (e : kx * payload) : row :=
  let '((k, (n, T)), p) := e in
  mkRow k p (Qmake (p_fail p) 1 / Qmake (p_run p) 1)
            (Qmake (p_ewt p) 1 / Qmake n 1 / Qmake T 1 / Qmake (p_run p) 1).
(* merge of several data lists: chain the lists, fold left to right *)
Definition merge (dT dq : nat) (ls : list (list raw)) : option (list row) :=
  option_map (map mk_row) (mergel kx kx_eqb payload padd [] (map (of_raw dT dq) (concat ls))).
(* re-reading an output row as an input record *)
Definition to_raw (n T : Z) (r : row) : raw :=
  match row_key r with
  | [c; k; e; d; p; t; q] => mkRaw c k e d p (Some t) (Some q) n (Some T) (row_pay r) true true
  | _ => mkRaw 0 0 0 0 0 None None n (Some T) (row_pay r) true true
  end.

(* ================= theorems ================= *)
Definition M_lookup := lookup kx kx_eqb payload.
Definition M_mergel := mergel kx kx_eqb payload padd.
Definition M_vals := vals kx kx_eqb payload.
Definition M_keysum := keysum payload padd.

Theorem merge_spec l :
  match M_mergel [] l with
  | Some t => forall k, M_keysum None (M_vals k l) = Some (M_lookup k t)
  | None => exists k, M_keysum None (M_vals k l) = None
  end.
Proof. exact (mergel_spec kx kx_eqb kx_eqb_spec payload padd l []). Qed.

Theorem merge_permutation l l' : Permutation l l' ->
  match M_mergel [] l, M_mergel [] l' with
  | Some t, Some t' => forall k, M_lookup k t = M_lookup k t'
  | None, None => True
  | _, _ => False
  end.
Proof. exact (merge_perm kx kx_eqb kx_eqb_spec payload padd padd_comm padd_assoc l l'). Qed.

Theorem merge_rows_order l t : M_mergel [] l = Some t -> map fst t = first_keys kx kx_eqb payload [] l.
Proof. intros H. exact (mergel_keys kx kx_eqb payload padd l [] t H). Qed.

Theorem merge_partition dT dq ls : merge dT dq ls = merge dT dq [concat ls].
Proof. unfold merge. cbn [concat]. now rewrite app_nil_r. Qed.

(* conservation of the scalar totals: the per-key sum adds up each scalar *)
Fixpoint ztotal (f : payload -> Z) (vs : list payload) : Z :=
  match vs with [] => 0%Z | v :: r => (f v + ztotal f r)%Z end.
Lemma suml_scalars vs : forall acc p, suml payload padd acc vs = Some p ->
  p_run p = (p_run acc + ztotal p_run vs)%Z /\ p_fail p = (p_fail acc + ztotal p_fail vs)%Z /\
  p_succ p = (p_succ acc + ztotal p_succ vs)%Z /\ p_ewt p = (p_ewt acc + ztotal p_ewt vs)%Z /\
  p_wall p = (p_wall acc + ztotal p_wall vs)%Z.
Proof.
  induction vs as [|v vs IH]; intros acc p H; cbn [suml ztotal] in *.
  - injection H as <-. repeat split; lia.
  - destruct (padd acc v) as [a|] eqn:A; [|discriminate]. cbn [bind] in H. apply IH in H.
    unfold padd in A. destruct (arr_add (p_lc acc) (p_lc v)); [|discriminate].
    destruct (arr_add (p_cv acc) (p_cv v)); [|discriminate]. injection A as <-. cbn in H. lia.
Qed.
Theorem conservation vs v p : M_keysum None (v :: vs) = Some (Some p) ->
  p_run p = ztotal p_run (v :: vs) /\ p_fail p = ztotal p_fail (v :: vs) /\ p_succ p = ztotal p_succ (v :: vs) /\
  p_ewt p = ztotal p_ewt (v :: vs) /\ p_wall p = ztotal p_wall (v :: vs).
Proof.
  unfold M_keysum. rewrite keysum_cons. cbn [bind]. unfold keysum.
  assert (G : forall vs acc, suml (option payload) (addo payload padd) (Some acc) (map Some vs)
                             = option_map Some (suml payload padd acc vs)).
  { clear. induction vs as [|x vs IH]; intros acc; cbn [map suml]; auto. cbn [addo].
    destruct (padd acc x); cbn; auto. }
  rewrite G. destruct (suml payload padd v vs) as [q|] eqn:E; [|discriminate]. cbn. intros H. injection H as <-.
  apply suml_scalars in E. cbn [ztotal]. lia.
Qed.

Theorem merge_incremental k l1 l2 :
  M_keysum None (M_vals k (l1 ++ l2)) =
  bind (M_keysum None (M_vals k l1)) (fun s1 => bind (M_keysum None (M_vals k l2)) (fun s2 => addo payload padd s1 s2)).
Proof. exact (keysum_incremental kx kx_eqb payload padd padd_assoc k l1 l2). Qed.

(* legacy defaults *)
Theorem legacy_defaults dT dq r :
  of_raw dT dq r = of_raw dT dq (mkRaw (w_code r) (w_nkd r) (w_em r) (w_dec r) (w_p r)
     (Some (match w_T r with Some t => t | None => dT end)) (Some (match w_q r with Some t => t | None => dq end))
     (w_n r) (Some (match w_Tval r with Some t => t | None => 1%Z end))
     (mkPay (p_run (w_pay r)) (p_fail (w_pay r)) (p_succ (w_pay r)) (p_ewt (w_pay r)) (p_wall (w_pay r))
        (if w_lc_present r then p_lc (w_pay r) else None) (if w_cv_present r then p_cv (w_pay r) else None)) true true).
Proof. unfold of_raw. cbn. destruct (w_lc_present r), (w_cv_present r); reflexivity. Qed.
