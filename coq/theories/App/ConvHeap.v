(* App/ConvHeap.v — C20: the arrays handed out by paulitools.pauli_to_bsf belong to the caller.

   A code DEFINED BY PAULI STRINGS (BasicCode) obtains its matrices by converting its strings when they are first
   read.  NumPy arrays are mutable cells; the model is a heap of cells (address = position), the conversion
   allocates, and a caller step is either a conversion (the caller keeps the address) or an arbitrary overwrite of
   any cell (a ^= v, a[:] = v, a[i] = b, writes through views are all "the cell now holds v").

   fresh  : every conversion allocates a new cell (the anchored code: _to_bsf builds a new array per call).
            For EVERY caller history the code read afterwards is code_of of its strings (build_fresh_history),
            hence validate decides the conditions of the strings (c20_validate_iff applies unchanged).
   memo   : the conversion is memoised per string and returns the shared cell.  Witness: one conversion and one
            in-place write before the five-qubit code is built make a valid code invalid and an invalid one valid. *)
From Coq Require Import Arith List Bool Lia.
From QV Require Import Core.Bits Core.Pauli Core.Symp Core.Code Core.CodeP.
Import ListNotations.

Definition heap := list bsf.
Definition read (h : heap) (a : nat) : bsf := nth a h [].
Fixpoint write (h : heap) (a : nat) (v : bsf) : heap :=
  match h, a with
  | [], _ => []
  | _ :: r, 0 => v :: r
  | x :: r, S a' => x :: write r a' v
  end.

Inductive step := Conv (s : pstr) | Write (a : nat) (v : bsf).

(* ---------------------------------------------------------------- fresh allocation *)
Definition conv_fresh (h : heap) (s : pstr) : heap * nat := (h ++ [to_bsf s], length h).
Fixpoint conv_all_fresh (h : heap) (ss : list pstr) : heap * list nat :=
  match ss with
  | [] => (h, [])
  | s :: r => let '(h1, a) := conv_fresh h s in let '(h2, l) := conv_all_fresh h1 r in (h2, a :: l)
  end.
Definition step_fresh (h : heap) (st : step) : heap :=
  match st with Conv s => fst (conv_fresh h s) | Write a v => write h a v end.
Definition run_fresh (h : heap) (steps : list step) : heap := fold_left step_fresh steps h.
(* BasicCode.stabilizers / logical_xs / logical_zs: convert the strings, read the cells *)
Definition build_fresh (h : heap) (ss xs zs : list pstr) : code :=
  let '(h1, la) := conv_all_fresh h ss in
  let '(h2, lx) := conv_all_fresh h1 xs in
  let '(h3, lz) := conv_all_fresh h2 zs in
  mkCode (map (read h3) la) (map (read h3) lx) (map (read h3) lz).

Lemma conv_all_fresh_eq ss : forall h,
  conv_all_fresh h ss = (h ++ map to_bsf ss, seq (length h) (length ss)).
Proof.
  induction ss as [|s r IH]; intros h; cbn [conv_all_fresh map length seq].
  - now rewrite app_nil_r.
  - unfold conv_fresh. rewrite IH. rewrite <- app_assoc. cbn [app]. f_equal. f_equal.
    rewrite app_length. cbn [length]. f_equal. lia.
Qed.

Lemma read_block (h l t : heap) : map (read (h ++ l ++ t)) (seq (length h) (length l)) = l.
Proof.
  revert h. induction l as [|x l IH]; intros h; cbn [length seq map app]; auto.
  f_equal.
  - unfold read. rewrite app_nth2 by lia. now rewrite Nat.sub_diag.
  - specialize (IH (h ++ [x])). rewrite app_length in IH. cbn [length] in IH.
    rewrite Nat.add_1_r in IH. rewrite <- app_assoc in IH. exact IH.
Qed.

Theorem build_fresh_eq h ss xs zs : build_fresh h ss xs zs = code_of ss xs zs.
Proof.
  unfold build_fresh, code_of. rewrite !conv_all_fresh_eq.
  set (a := map to_bsf ss). set (b := map to_bsf xs). set (c := map to_bsf zs).
  replace (length ss) with (length a) by apply map_length.
  replace (length xs) with (length b) by apply map_length.
  replace (length zs) with (length c) by apply map_length.
  f_equal.
  - rewrite <- !app_assoc. apply read_block.
  - rewrite <- (app_assoc (h ++ a) b c). apply read_block.
  - pose proof (read_block ((h ++ a) ++ b) c []) as H. rewrite app_nil_r in H. exact H.
Qed.

(* whatever the caller did before - conversions of the same strings, overwrites of any cell *)
Theorem build_fresh_history : forall steps ss xs zs,
  build_fresh (run_fresh [] steps) ss xs zs = code_of ss xs zs.
Proof. intros. apply build_fresh_eq. Qed.

Corollary validate_fresh_history : forall steps ss xs zs,
  validate (build_fresh (run_fresh [] steps) ss xs zs) = validate (code_of ss xs zs).
Proof. intros. now rewrite build_fresh_history. Qed.

(* the stacked logicals are the conversions of the X strings followed by those of the Z strings, in order *)
Corollary logicals_fresh_history : forall steps ss xs zs,
  logicals (build_fresh (run_fresh [] steps) ss xs zs) = map to_bsf xs ++ map to_bsf zs.
Proof. intros. now rewrite build_fresh_history. Qed.

Theorem strings_any_caller_history : forall steps ss xs zs,
  build_fresh (run_fresh [] steps) ss xs zs = code_of ss xs zs /\
  logicals (build_fresh (run_fresh [] steps) ss xs zs) = map to_bsf xs ++ map to_bsf zs.
Proof. intros. split. - apply build_fresh_history. - apply logicals_fresh_history. Qed.

(* two codes built from equal strings before and after a caller history are equal *)
Corollary build_fresh_before_after : forall steps1 steps2 ss xs zs,
  build_fresh (run_fresh [] steps1) ss xs zs = build_fresh (run_fresh (run_fresh [] steps1) steps2) ss xs zs.
Proof. intros. now rewrite !build_fresh_eq. Qed.

(* ---------------------------------------------------------------- memoised conversion returning the shared cell *)
Definition pstr_eqb (s t : pstr) : bool := if list_eq_dec pl_eq_dec s t then true else false.
Definition memo := list (pstr * nat).
Fixpoint lookup (s : pstr) (m : memo) : option nat :=
  match m with [] => None | (t, a) :: r => if pstr_eqb s t then Some a else lookup s r end.
Definition conv_memo (hm : heap * memo) (s : pstr) : (heap * memo) * nat :=
  let '(h, m) := hm in
  match lookup s m with
  | Some a => (hm, a)
  | None => ((h ++ [to_bsf s], (s, length h) :: m), length h)
  end.
Fixpoint conv_all_memo (hm : heap * memo) (ss : list pstr) : (heap * memo) * list nat :=
  match ss with
  | [] => (hm, [])
  | s :: r => let '(hm1, a) := conv_memo hm s in let '(hm2, l) := conv_all_memo hm1 r in (hm2, a :: l)
  end.
Definition step_memo (hm : heap * memo) (st : step) : heap * memo :=
  match st with Conv s => fst (conv_memo hm s) | Write a v => (write (fst hm) a v, snd hm) end.
Definition run_memo (hm : heap * memo) (steps : list step) : heap * memo := fold_left step_memo steps hm.
Definition build_memo (hm : heap * memo) (ss xs zs : list pstr) : code :=
  let '(hm1, la) := conv_all_memo hm ss in
  let '(hm2, lx) := conv_all_memo hm1 xs in
  let '(hm3, lz) := conv_all_memo hm2 zs in
  mkCode (map (read (fst hm3)) la) (map (read (fst hm3)) lx) (map (read (fst hm3)) lz).

Definition five_s := [[pX;pZ;pZ;pX;pI]; [pI;pX;pZ;pZ;pX]; [pX;pI;pX;pZ;pZ]; [pZ;pX;pI;pX;pZ]].
Definition xxxxx := [pX;pX;pX;pX;pX].
Definition xxxxi := [pX;pX;pX;pX;pI].
Definition zzzzz := [pZ;pZ;pZ;pZ;pZ].
(* error = pauli_to_bsf('XXXXX'); error ^= pauli_to_bsf('IIZII')   — the caller's array now reads XXYXX *)
Definition hist1 := [Conv xxxxx; Write 0 (to_bsf [pX;pX;pY;pX;pX])].
(* other = pauli_to_bsf('XXXXI'); other ^= pauli_to_bsf('IIIIX')   — the caller's array now reads XXXXX *)
Definition hist2 := [Conv xxxxi; Write 0 (to_bsf xxxxx)].

Example memo_valid_rejected :
  validate (code_of five_s [xxxxx] [zzzzz]) = VOk /\
  validate (build_memo (run_memo ([], []) hist1) five_s [xxxxx] [zzzzz]) = VErrStabLog /\
  validate (build_fresh (run_fresh [] hist1) five_s [xxxxx] [zzzzz]) = VOk.
Proof. vm_compute. auto. Qed.

Example memo_invalid_accepted :
  validate (code_of five_s [xxxxi] [zzzzz]) = VErrStabLog /\
  validate (build_memo (run_memo ([], []) hist2) five_s [xxxxi] [zzzzz]) = VOk /\
  validate (build_fresh (run_fresh [] hist2) five_s [xxxxi] [zzzzz]) = VErrStabLog.
Proof. vm_compute. auto. Qed.
