(* App/RunOnce.v — model of app._run_once / run_once / run_once_ftp (app.py:20-277).
   The generated step errors, the measurement flips and the decoder's answer are inputs. *)
From Coq Require Import Arith List Bool Lia ZArith QArith.
From QV Require Import Core.Bits Core.Pauli Core.Symp Core.Code.
Import ListNotations.
Open Scope nat_scope.

(* ---- parameter validation (before anything is simulated) ---- *)
Inductive perr := PErrSteps | PErrProb | PErrMeasProb.
(* a probability argument: None models NaN (every comparison false) *)
Definition in_unit (p : option Q) : bool :=
  match p with Some x => Qle_bool 0 x && Qle_bool x 1 | None => false end.
(* run_once_ftp order: time_steps, error_probability, measurement_error_probability *)
Definition validate_once_ftp (T : Z) (p : option Q) (q : option (option Q)) : option perr :=
  if negb (1 <=? T)%Z then Some PErrSteps
  else if negb (in_unit p) then Some PErrProb
  else match q with None => None | Some q' => if in_unit q' then None else Some PErrMeasProb end.
(* run_ftp order: error_probability, time_steps, measurement_error_probability *)
Definition validate_run_ftp (T : Z) (p : option Q) (q : option (option Q)) : option perr :=
  if negb (in_unit p) then Some PErrProb
  else if negb (1 <=? T)%Z then Some PErrSteps
  else match q with None => None | Some q' => if in_unit q' then None else Some PErrMeasProb end.
Definition validate_once (p : option Q) : option perr := if in_unit p then None else Some PErrProb.
(* measurement_error_probability default: 0.0 if time_steps == 1 else error_probability *)
Definition q_default (T : Z) (p : Q) (q : option Q) : Q :=
  match q with Some x => x | None => if (T =? 1)%Z then 0%Q else p end.

(* ---- syndromes ---- *)
Definition step_syndromes (stabs : list bsf) (errs : list bsf) : list bsf := map (syndrome_of stabs) errs.
(* step_measurement_errors[t-1] for t = 0..T-1 : Python's negative index wraps to the last row *)
Definition rot (ms : list bsf) : list bsf := match rev ms with [] => [] | l :: r => l :: rev r end.
Fixpoint rows3 (p s m : list bsf) : list bsf :=
  match p, s, m with a :: p', b :: s', c :: m' => xorv (xorv a b) c :: rows3 p' s' m' | _, _, _ => [] end.
(* flips are drawn only when the probability is truthy, otherwise zeros *)
Definition flips_used (q_truthy : bool) (nstab : nat) (T : nat) (ms : list bsf) : list bsf :=
  if q_truthy then ms else repeat (zeros nstab) T.
Definition decoder_syndrome (stabs : list bsf) (errs ms : list bsf) : list bsf :=
  rows3 (rot ms) (step_syndromes stabs errs) ms.
Definition total_error (n2 : nat) (errs : list bsf) : bsf := xsum n2 errs.

(* ---- decoder answers and their resolution (app.py:77-121) ---- *)
Inductive answer :=
| Bare (recovery : option bsf)
| DR (success : option bool) (lc : option (list Z)) (recovery : option bsf) (cv : option (list Z)).
Record data := mkData { d_success : bool; d_lc : option (list Z); d_cv : option (list Z); d_weight : nat }.
Definition b2z (b : bool) : Z := if b then 1%Z else 0%Z.

Definition resolve (c : code) (error : bsf) (w : nat) (a : answer) : option data :=   (* None = QecsimError *)
  let go (s : option bool) (lc : option (list Z)) (r : option bsf) (cv : option (list Z)) :=
    if decode_result_ok s r then
      match r with
      | Some rec =>
          let recovered := xorv rec error in
          let cws := is_zero (syndrome_of (stabs c) recovered) in
          let rlc := syndrome_of (logicals c) recovered in
          let rs := cws && is_zero rlc in
          Some (mkData (match s with None => rs | Some b => b end)
                       (match lc with None => Some (map b2z rlc) | Some l => Some l end) cv w)
      | None => match s with Some b => Some (mkData b lc cv w) | None => None end
      end
    else None in
  match a with
  | Bare r => go None None r None
  | DR s lc r cv => go s lc r cv
  end.

Definition run_once_model (c : code) (errs ms : list bsf) (q_truthy : bool) (a : answer)
  : list bsf * option data :=
  let T := length errs in
  let m := flips_used q_truthy (length (stabs c)) T ms in
  let syn := decoder_syndrome (stabs c) errs m in
  let error := total_error (length (hd [] errs)) errs in
  (syn, resolve c error (bsf_wt_rows errs) a).

(* ================= theorems ================= *)
Definition rowlen (k : nat) (l : list bsf) := Forall (fun r => length r = k) l.

Lemma rows3_length p : forall s m, length p = length s -> length s = length m -> length (rows3 p s m) = length s.
Proof. induction p as [|a p IH]; intros [|b s] [|c m] H1 H2; cbn in *; try lia. rewrite IH; lia. Qed.
Lemma rows3_nth p : forall s m t, length p = length s -> length s = length m -> t < length s ->
  nth t (rows3 p s m) [] = xorv (xorv (nth t p []) (nth t s [])) (nth t m []).
Proof.
  induction p as [|a p IH]; intros [|b s] [|c m] t H1 H2 Ht; cbn in *; try lia.
  destruct t; auto. apply IH; lia.
Qed.
Lemma rot_length ms : length (rot ms) = length ms.
Proof. unfold rot. rewrite <- (rev_length ms). destruct (rev ms) as [|l r]; [reflexivity|]. cbn [length]. now rewrite rev_length. Qed.
(* rot ms at t is ms at (t-1) mod T *)
Lemma rot_snoc r l : rot (r ++ [l]) = l :: r.
Proof. unfold rot. rewrite rev_app_distr. cbn. now rewrite rev_involutive. Qed.
Lemma rot_nth ms t : t < length ms -> nth t (rot ms) [] = nth ((t + length ms - 1) mod length ms) ms [].
Proof.
  intros Ht. destruct ms as [|a ms0]; [cbn in Ht; lia|].
  destruct (@exists_last _ (a :: ms0)) as (r & l & E); [discriminate|]. rewrite E in *. clear E a ms0.
  rewrite rot_snoc. rewrite app_length in *. cbn [length] in *.
  destruct t as [|t].
  - cbn [nth]. replace (0 + (length r + 1) - 1) with (length r) by lia. rewrite Nat.mod_small by lia.
    rewrite app_nth2 by lia. now rewrite Nat.sub_diag.
  - cbn [nth]. replace (S t + (length r + 1) - 1) with (t + 1 * (length r + 1)) by lia.
    rewrite Nat.mod_add by lia. rewrite Nat.mod_small by lia.
    rewrite app_nth1 by lia. reflexivity.
Qed.

Theorem syndrome_ftp_nth stabs errs ms t : length errs = length ms -> t < length errs ->
  nth t (decoder_syndrome stabs errs ms) [] =
  xorv (xorv (nth ((t + length ms - 1) mod length ms) ms []) (syndrome_of stabs (nth t errs []))) (nth t ms []).
Proof.
  intros HL Ht. unfold decoder_syndrome, step_syndromes.
  rewrite rows3_nth by (rewrite ?rot_length, ?map_length; lia).
  rewrite rot_nth by lia. f_equal. f_equal.
  rewrite (nth_map_in _ _ _ _ []) by lia. reflexivity.
Qed.

Theorem syndrome_ideal stabs e :
  decoder_syndrome stabs [e] [zeros (length stabs)] = [syndrome_of stabs e].
Proof.
  unfold decoder_syndrome, step_syndromes, rot. cbn [rev app map rows3]. f_equal.
  rewrite xorv_zeros_l by apply syndrome_length.
  replace (zeros (length stabs)) with (zeros (length (syndrome_of stabs e))) by now rewrite syndrome_length.
  apply xorv_zeros_r.
Qed.

Lemma xsum_rows3 k : forall p s m, rowlen k p -> rowlen k s -> rowlen k m -> length p = length s -> length s = length m ->
  xsum k (rows3 p s m) = xorv (xorv (xsum k p) (xsum k s)) (xsum k m).
Proof.
  intros p. induction p as [|a p IH]; intros [|b s] [|c m] Hp Hs Hm L1 L2; cbn [length] in *; try lia.
  - cbn [rows3]. unfold xsum; cbn [fold_right]. now rewrite !xorv_zz.
  - inversion Hp; inversion Hs; inversion Hm; subst. cbn [rows3]. rewrite !xsum_cons. rewrite IH by (auto; lia).
    set (P := xsum (length a) p). set (S := xsum (length a) s). set (M := xsum (length a) m).
    rewrite !xorv_assoc. f_equal.
    rewrite <- !xorv_assoc. rewrite (xorv_comm (xorv b c) P). rewrite !xorv_assoc. f_equal. f_equal.
    rewrite <- !xorv_assoc. rewrite (xorv_comm c S). reflexivity.
Qed.
Lemma xsum_rot k ms : rowlen k ms -> xsum k (rot ms) = xsum k ms.
Proof.
  intros H. unfold rot. rewrite <- (xsum_rev k ms H).
  assert (Hrev : rowlen k (rev ms)) by now apply Forall_rev.
  destruct (rev ms) as [|l r]; [reflexivity|].
  rewrite !xsum_cons. f_equal. apply xsum_rev. exact (Forall_inv_tail Hrev).
Qed.
Lemma rowlen_rot k ms : rowlen k ms -> rowlen k (rot ms).
Proof.
  intros Hm. assert (Hrev : rowlen k (rev ms)) by now apply Forall_rev.
  unfold rot. destruct (rev ms) as [|l r]; [constructor|]. constructor; [exact (Forall_inv Hrev)|].
  apply Forall_rev. exact (Forall_inv_tail Hrev).
Qed.
(* every flip enters exactly twice: XOR of the decoder's rows = XOR of the true step syndromes *)
Theorem ftp_parity k s m : rowlen k s -> rowlen k m -> length s = length m ->
  xsum k (rows3 (rot m) s m) = xsum k s.
Proof.
  intros Hs Hm L.
  rewrite xsum_rows3 by (auto using rowlen_rot; rewrite ?rot_length; lia). rewrite xsum_rot by auto.
  rewrite (xorv_comm (xsum k m)), xorv_assoc, xorv_self, xsum_len by auto.
  rewrite <- (xsum_len k s Hs) at 2. apply xorv_zeros_r.
Qed.
Lemma dot_false_l v : (forall x, In x v -> x = false) -> forall s, dot v s = false.
Proof.
  induction v as [|x v IH]; intros H [|y s]; cbn; auto.
  rewrite (H x) by (cbn; auto). cbn. rewrite IH; auto. intros; apply H; cbn; auto.
Qed.
Lemma firstn_In_local {A} n (l : list A) x : In x (firstn n l) -> In x l.
Proof. revert l. induction n as [|n IH]; intros [|a l] H; cbn in *; auto; try tauto. destruct H as [H|H]; [left; exact H|right; apply IH; exact H]. Qed.
Lemma skipn_In_local {A} n (l : list A) x : In x (skipn n l) -> In x l.
Proof. revert l. induction n as [|n IH]; intros [|a l] H; cbn in *; auto. Qed.
Lemma bsp_zeros_l k s : bsp (zeros k) s = false.
Proof.
  unfold bsp, swap_halves, halves, zeros. apply dot_false_l. intros x Hx.
  apply in_app_iff in Hx. destruct Hx as [Hx|Hx]; [apply skipn_In_local in Hx|apply firstn_In_local in Hx];
    now apply repeat_spec in Hx.
Qed.
Lemma syndrome_zeros stabs k : syndrome_of stabs (zeros k) = zeros (length stabs).
Proof.
  unfold syndrome_of. induction stabs as [|s st IH]; cbn [map length]; auto.
  rewrite IH, bsp_zeros_l. reflexivity.
Qed.
Lemma syndrome_xsum stabs n2 errs : rowlen n2 errs ->
  syndrome_of stabs (xsum n2 errs) = xsum (length stabs) (map (syndrome_of stabs) errs).
Proof.
  induction 1 as [|e errs He Hes IH]; cbn [map].
  - apply syndrome_zeros.
  - rewrite !xsum_cons. rewrite syndrome_xorv by (rewrite xsum_len; auto). now rewrite IH.
Qed.
Theorem ftp_parity_total stabs n2 errs ms :
  rowlen n2 errs -> rowlen (length stabs) ms -> length errs = length ms ->
  xsum (length stabs) (decoder_syndrome stabs errs ms) = syndrome_of stabs (total_error n2 errs).
Proof.
  intros He Hm HL. unfold decoder_syndrome, total_error, step_syndromes.
  rewrite ftp_parity; [now rewrite syndrome_xsum| |auto|now rewrite map_length].
  apply Forall_map. apply Forall_forall. intros; apply syndrome_length.
Qed.

(* the verdict *)
Definition commutes_all (ops : list bsf) (v : bsf) : Prop := forall o, In o ops -> bsp v o = false.
Lemma is_zero_syndrome ops v : is_zero (syndrome_of ops v) = true <-> commutes_all ops v.
Proof.
  rewrite is_zero_spec. unfold syndrome_of, commutes_all. split.
  - intros H o Ho. apply H. now apply (in_map (fun s => bsp v s)).
  - intros H x Hx. apply in_map_iff in Hx. destruct Hx as (o & <- & Ho). now apply H.
Qed.
Theorem verdict c error w r lc cv d :
  resolve c error w (DR None lc (Some r) cv) = Some d ->
  (d_success d = true <-> commutes_all (stabs c) (xorv r error) /\ commutes_all (logicals c) (xorv r error)) /\
  (lc = None -> d_lc d = Some (map b2z (map (fun l => bsp (xorv r error) l) (logicals c)))) /\
  d_cv d = cv /\ d_weight d = w.
Proof.
  cbn. intros Hd. injection Hd as <-. cbn [d_success d_lc d_cv d_weight]. split; [|split; [|split]].
  - rewrite andb_true_iff, !is_zero_syndrome. reflexivity.
  - intros ->. reflexivity.
  - reflexivity.
  - reflexivity.
Qed.
Theorem verdict_bare c error w r : resolve c error w (Bare (Some r)) = resolve c error w (DR None None (Some r) None).
Proof. reflexivity. Qed.
(* explicit values pass through unchanged; only unspecified ones are evaluated *)
Theorem passthrough c error w s lc r cv d :
  resolve c error w (DR s lc r cv) = Some d ->
  (forall b, s = Some b -> d_success d = b) /\ (forall l, lc = Some l -> d_lc d = Some l) /\ d_cv d = cv /\
  (r = None -> d_lc d = lc) /\ d_weight d = w.
Proof.
  cbn. destruct s as [b|], r as [r|]; cbn; intros H; try discriminate; injection H as <-; cbn;
    repeat split; try congruence; try (intros; subst; reflexivity); intros l ->; reflexivity.
Qed.
Theorem resolve_error_iff c error w a : resolve c error w a = None <->
  a = Bare None \/ exists lc cv, a = DR None lc None cv.
Proof.
  destruct a as [[r|]|[b|] lc [r|] cv]; cbn;
    (split; [intros H; try discriminate; auto; right; eauto | intros [H|(x & y & H)]; try discriminate; auto]).
Qed.
Theorem weight_is_sum errs : bsf_wt_rows errs = fold_right Nat.add 0 (map bsf_wt errs).
Proof. induction errs as [|e errs IH]; cbn; auto. Qed.

(* rejection is independent of every environment input *)
Theorem reject_once_ftp T p q :
  validate_once_ftp T p q = None <-> (1 <= T)%Z /\ in_unit p = true /\ (q = None \/ exists q', q = Some q' /\ in_unit q' = true).
Proof.
  unfold validate_once_ftp. destruct (Z.leb_spec 1 T); cbn; [|split; [discriminate|lia]].
  destruct (in_unit p); cbn; [|split; [discriminate|intros (_ & ? & _); discriminate]].
  destruct q as [q'|]; [|split; auto]. destruct (in_unit q') eqn:E; split; auto; try discriminate.
  - intros _. repeat split; auto. right. eauto.
  - intros (_ & _ & [Hq|(x & Hq & Hx)]); [discriminate|]. injection Hq as ->. congruence.
Qed.
