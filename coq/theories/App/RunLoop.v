(* App/RunLoop.v — model of app._run (app.py:280-374): the while-loop guard on the limits,
   per-run counting, array summation with mismatch detection, weight statistics, rates. *)
From Coq Require Import Arith List Bool Lia ZArith QArith.
Import ListNotations.
Open Scope nat_scope.

Record run_data := mkRun { r_success : bool; r_lc : option (list Z); r_cv : option (list Z); r_w : Z }.

Definition lt_opt (x : nat) (m : option nat) : bool :=
  match m with None => true | Some k => x <? k end.
Definition guard (mr mf : option nat) (nrun nfail : nat) : bool :=
  lt_opt nrun mr && lt_opt nfail mf.
(* derived default: neither limit given => max_runs = 1 *)
Definition norm (mr mf : option nat) : option nat * option nat :=
  match mr, mf with None, None => (Some 1, None) | _, _ => (mr, mf) end.

Fixpoint zip_add (a b : list Z) : list Z :=
  match a, b with x :: a', y :: b' => (x + y)%Z :: zip_add a' b' | _, _ => [] end.
(* app.py:343-352 ; outer None = QecsimError *)
Definition arr_step (first : bool) (sum val : option (list Z)) : option (option (list Z)) :=
  let sum := if first then match val with Some v => Some (map (fun _ => 0%Z) v) | None => sum end else sum in
  match sum, val with
  | None, None => Some None
  | Some s, Some v => if length s =? length v then Some (Some (zip_add s v)) else None
  | _, _ => None
  end.

Record acc := mkAcc { a_run : nat; a_fail : nat; a_lc : option (list Z); a_cv : option (list Z); a_ws : list Z }.
Definition acc0 : acc := mkAcc 0 0 None None [].
Definition step (a : acc) (d : run_data) : option acc :=
  match arr_step (a_run a =? 0) (a_lc a) (r_lc d) with
  | None => None
  | Some l =>
    match arr_step (a_run a =? 0) (a_cv a) (r_cv d) with
    | None => None
    | Some c => Some (mkAcc (S (a_run a)) (if r_success d then a_fail a else S (a_fail a)) l c (a_ws a ++ [r_w d]))
    end
  end.

Inductive outcome := Done (a : acc) | Mismatch (at_run : nat) | OutOfFuel.
Fixpoint rloop (fuel : nat) (mr mf : option nat) (outs : nat -> run_data) (a : acc) : outcome :=
  if guard mr mf (a_run a) (a_fail a) then
    match fuel with
    | O => OutOfFuel
    | S f => match step a (outs (a_run a)) with
             | Some a' => rloop f mr mf outs a'
             | None => Mismatch (S (a_run a))
             end
    end
  else Done a.
Definition run_loop (fuel : nat) (mr mf : option nat) (outs : nat -> run_data) : outcome :=
  let '(mr', mf') := norm mr mf in rloop fuel mr' mf' outs acc0.

(* ---- statistics (exact rationals) ---- *)
Definition zsum (l : list Z) : Z := fold_right Z.add 0%Z l.
Definition qsum (l : list Q) : Q := fold_right Qplus 0%Q l.
Definition qn (n : nat) : Q := inject_Z (Z.of_nat n).
Definition mean (ws : list Z) : Q := Qdiv (inject_Z (zsum ws)) (qn (length ws)).
Definition pvar (ws : list Z) : Q :=
  Qdiv (qsum (map (fun w => let d := Qminus (inject_Z w) (mean ws) in Qmult d d) ws)) (qn (length ws)).
Definition failure_rate (a : acc) : Q := Qdiv (qn (a_fail a)) (qn (a_run a)).
Definition physical_rate (n T : Z) (a : acc) : Q :=
  Qdiv (Qdiv (Qdiv (inject_Z (zsum (a_ws a))) (inject_Z n)) (inject_Z T)) (qn (a_run a)).

(* ================= specification ================= *)
Fixpoint fails (outs : nat -> run_data) (k : nat) : nat :=
  match k with O => 0 | S k' => fails outs k' + (if r_success (outs k') then 0 else 1) end.
Fixpoint state_after (outs : nat -> run_data) (n : nat) : option acc :=
  match n with
  | O => Some acc0
  | S n' => match state_after outs n' with Some a => step a (outs n') | None => None end
  end.

Lemma step_run a d a' : step a d = Some a' ->
  a_run a' = S (a_run a) /\ a_fail a' = (if r_success d then a_fail a else S (a_fail a)) /\ a_ws a' = a_ws a ++ [r_w d].
Proof.
  unfold step. destruct (arr_step _ (a_lc a) _); [|discriminate]. destruct (arr_step _ (a_cv a) _); [|discriminate].
  intros H. injection H as <-. auto.
Qed.
Lemma state_after_counts outs n a : state_after outs n = Some a ->
  a_run a = n /\ a_fail a = fails outs n /\ a_ws a = map (fun i => r_w (outs i)) (seq 0 n).
Proof.
  revert a. induction n as [|n IH]; intros a H; cbn [state_after] in H.
  - injection H as <-. auto.
  - destruct (state_after outs n) as [b|]; [|discriminate]. destruct (IH b eq_refl) as (E1 & E2 & E3).
    apply step_run in H. destruct H as (H1 & H2 & H3). rewrite H1, H2, H3, E1, E2, E3. repeat split.
    + cbn [fails]. destruct (r_success (outs n)); lia.
    + rewrite seq_S, map_app. reflexivity.
Qed.

(* the loop walks through state_after until the guard fails *)
Lemma rloop_spec fuel mr mf outs : forall n a,
  state_after outs n = Some a ->
  (forall j, j < n -> guard mr mf j (fails outs j) = true) ->
  match rloop fuel mr mf outs a with
  | Done a' => exists k, n <= k /\ state_after outs k = Some a' /\ guard mr mf k (fails outs k) = false /\
                         (forall j, j < k -> guard mr mf j (fails outs j) = true)
  | Mismatch m => exists k, n <= k /\ m = S k /\ state_after outs (S k) = None /\ state_after outs k <> None /\
                            (forall j, j <= k -> guard mr mf j (fails outs j) = true)
  | OutOfFuel => True
  end.
Proof.
  induction fuel as [|fuel IH]; intros n a Hs Hinv; cbn [rloop];
    destruct (state_after_counts _ _ _ Hs) as (E1 & E2 & _); rewrite E1, E2.
  - destruct (guard mr mf n (fails outs n)) eqn:G; [exact Logic.I|]. exists n. auto.
  - destruct (guard mr mf n (fails outs n)) eqn:G; [|exists n; auto].
    destruct (step a (outs n)) as [a'|] eqn:St.
    + assert (Hs' : state_after outs (S n) = Some a') by (cbn [state_after]; rewrite Hs; exact St).
      specialize (IH (S n) a' Hs').
      assert (Hinv' : forall j, j < S n -> guard mr mf j (fails outs j) = true).
      { intros j Hj. destruct (Nat.eq_dec j n) as [->|]; [exact G|apply Hinv; lia]. }
      specialize (IH Hinv'). destruct (rloop fuel mr mf outs a') as [a''|m|]; auto.
      * destruct IH as (k & Hk & R). exists k. split; [lia|exact R].
      * destruct IH as (k & Hk & R). exists k. split; [lia|exact R].
    + exists n. repeat split; auto.
      * cbn [state_after]. rewrite Hs. exact St.
      * rewrite Hs. discriminate.
      * intros j Hj. destruct (Nat.eq_dec j n) as [->|]; [exact G|apply Hinv; lia].
Qed.

Definition limits_ok (mr mf : option nat) : Prop :=
  (forall m, mr = Some m -> 1 <= m) /\ (forall m, mf = Some m -> 1 <= m).

Lemma fails_reaches outs k m : m < fails outs k -> exists j, j < k /\ fails outs j = m.
Proof.
  induction k as [|k IH]; cbn [fails]; intros H; [lia|].
  destruct (r_success (outs k)).
  - destruct IH as (j & Hj & E); [lia|]. exists j. split; [lia|exact E].
  - destruct (Nat.eq_dec (fails outs k) m) as [E|NE]; [exists k; split; [lia|exact E]|].
    destruct IH as (j & Hj & E); [lia|]. exists j. split; [lia|exact E].
Qed.

(* exact stopping: the number of runs is the first k >= 1 with max_runs = k or failures(k) = max_failures *)
Theorem stop_exact fuel mr mf outs a : limits_ok mr mf ->
  rloop fuel mr mf outs acc0 = Done a ->
  let k := a_run a in
  1 <= k /\ state_after outs k = Some a /\ a_fail a = fails outs k /\
  (mr = Some k \/ mf = Some (fails outs k)) /\
  (forall j, j < k -> mr <> Some j /\ mf <> Some (fails outs j) /\ guard mr mf j (fails outs j) = true).
Proof.
  intros (Hr & Hf) H. pose proof (rloop_spec fuel mr mf outs 0 acc0 eq_refl) as S.
  rewrite H in S. destruct S as (k & _ & Hs & Hg & Hall); [intros j Hj; lia|].
  destruct (state_after_counts _ _ _ Hs) as (E1 & E2 & _). cbn zeta. rewrite E1.
  assert (Hk : 1 <= k).
  { destruct k; [|lia]. exfalso. cbn [fails] in Hg. unfold guard in Hg. apply andb_false_iff in Hg.
    destruct Hg as [Hg|Hg]; unfold lt_opt in Hg.
    - destruct mr as [x|]; [|discriminate]. apply Nat.ltb_ge in Hg. specialize (Hr x eq_refl). lia.
    - destruct mf as [x|]; [|discriminate]. apply Nat.ltb_ge in Hg. specialize (Hf x eq_refl). lia. }
  split; [exact Hk|]. split; [exact Hs|]. split; [exact E2|]. split.
  - unfold guard in Hg. apply andb_false_iff in Hg. destruct Hg as [Hg|Hg]; unfold lt_opt in Hg.
    + destruct mr as [m|]; [|discriminate]. apply Nat.ltb_ge in Hg.
      destruct (Nat.eq_dec m k) as [->|NE]; [left; reflexivity|]. exfalso.
      assert (Hlt : m < k) by lia. specialize (Hall m Hlt). unfold guard, lt_opt in Hall.
      apply andb_true_iff in Hall. destruct Hall as [G _]. apply Nat.ltb_lt in G. lia.
    + destruct mf as [m|]; [|discriminate]. apply Nat.ltb_ge in Hg.
      destruct (Nat.eq_dec m (fails outs k)) as [->|NE]; [right; reflexivity|]. exfalso.
      assert (Hlt : m < fails outs k) by lia. destruct (fails_reaches _ _ _ Hlt) as (j & Hj & Ej).
      specialize (Hall j Hj). unfold guard, lt_opt in Hall. apply andb_true_iff in Hall.
      destruct Hall as [_ G]. rewrite Ej in G. apply Nat.ltb_lt in G. lia.
  - intros j Hj. specialize (Hall j Hj). split; [|split]; [| |exact Hall];
      unfold guard, lt_opt in Hall; apply andb_true_iff in Hall; destruct Hall as [G1 G2].
    + intros ->. apply Nat.ltb_lt in G1. lia.
    + intros E. rewrite E in G2. apply Nat.ltb_lt in G2. lia.
Qed.

Theorem default_once fuel outs a : run_loop fuel None None outs = Done a -> a_run a = 1.
Proof.
  unfold run_loop. cbn [norm]. intros H.
  assert (L : limits_ok (Some 1) None) by (split; intros m E; [injection E as <-; lia|discriminate]).
  destruct (stop_exact _ _ _ _ _ L H) as (_ & _ & _ & [E|E] & _); [now injection E|discriminate].
Qed.

(* requested runs are exactly outs 0 .. outs (k-1), in order: the loop reads outs only at a_run, which
   increases by one per iteration — captured by state_after being the fold over that prefix *)
Theorem counts fuel mr mf outs a : rloop fuel mr mf outs acc0 = Done a ->
  a_fail a = fails outs (a_run a) /\ a_fail a <= a_run a /\
  a_ws a = map (fun i => r_w (outs i)) (seq 0 (a_run a)).
Proof.
  intros H. pose proof (rloop_spec fuel mr mf outs 0 acc0 eq_refl) as S. rewrite H in S.
  destruct S as (k & _ & Hs & _); [intros j Hj; lia|].
  destruct (state_after_counts _ _ _ Hs) as (E1 & E2 & E3). rewrite E1, E2, E3. repeat split.
  clear. induction k as [|k IH]; cbn [fails]; [lia|]. destruct (r_success (outs k)); lia.
Qed.

(* ---- array sums ---- *)
(* the accumulator after n runs, as a function of the per-run values f 0 .. f (n-1) *)
Fixpoint arr_prefix (f : nat -> option (list Z)) (n : nat) : option (option (list Z)) :=
  match n with
  | O => Some None
  | S n' => match arr_prefix f n' with Some s => arr_step (n' =? 0) s (f n') | None => None end
  end.
Fixpoint vsum_upto (f : nat -> option (list Z)) (L n : nat) : list Z :=   (* element-wise sum of f 0 .. f (n-1) *)
  match n with
  | O => repeat 0%Z L
  | S n' => zip_add (vsum_upto f L n') (match f n' with Some v => v | None => [] end)
  end.
Definition none_upto (f : nat -> option (list Z)) (n : nat) : Prop := forall i, i < n -> f i = None.
Definition len_upto (f : nat -> option (list Z)) (L n : nat) : Prop :=
  forall i, i < n -> exists l, f i = Some l /\ length l = L.

Lemma zip_add_length a : forall b, length a = length b -> length (zip_add a b) = length a.
Proof. induction a as [|x a IH]; intros [|y b] H; cbn in *; try lia. now rewrite IH by lia. Qed.
Lemma zip_add_zero v : zip_add (map (fun _ => 0%Z) v) v = v.
Proof. induction v as [|x v IH]; cbn; auto. now rewrite IH. Qed.
Lemma zip_add_repeat0 v : zip_add (repeat 0%Z (length v)) v = v.
Proof. induction v as [|x v IH]; cbn; auto. now rewrite IH. Qed.

Lemma state_after_arrays outs n :
  match state_after outs n with
  | Some a => arr_prefix (fun i => r_lc (outs i)) n = Some (a_lc a) /\
              arr_prefix (fun i => r_cv (outs i)) n = Some (a_cv a)
  | None => arr_prefix (fun i => r_lc (outs i)) n = None \/ arr_prefix (fun i => r_cv (outs i)) n = None
  end.
Proof.
  induction n as [|n IH]; cbn [state_after arr_prefix]; [auto|].
  destruct (state_after outs n) as [a|] eqn:Sa.
  - destruct IH as (E1 & E2). rewrite E1, E2.
    destruct (state_after_counts _ _ _ Sa) as (R & _). unfold step. rewrite R.
    destruct (arr_step (n =? 0) (a_lc a) (r_lc (outs n))) as [l|]; [|auto].
    destruct (arr_step (n =? 0) (a_cv a) (r_cv (outs n))) as [c|]; [|auto]. cbn. auto.
  - destruct IH as [E|E]; rewrite E; auto.
Qed.

(* characterisation: None/None.. -> None; all Some of one length -> element-wise sum; anything else -> error *)
Lemma arr_prefix_char f n :
  match arr_prefix f n with
  | Some None => none_upto f n
  | Some (Some s) => 1 <= n /\ len_upto f (length s) n /\ s = vsum_upto f (length s) n
  | None => ~ none_upto f n /\ forall L, ~ len_upto f L n
  end.
Proof.
  induction n as [|n IH]; cbn [arr_prefix]; [intros i Hi; lia|].
  destruct (arr_prefix f n) as [[s|]|].
  - (* running sum s *)
    destruct IH as (Hn & HL & Hs). assert (E0 : (n =? 0) = false) by (apply Nat.eqb_neq; lia). rewrite E0.
    destruct (f n) as [v|] eqn:Fn; cbn [arr_step].
    + destruct (Nat.eqb_spec (length s) (length v)) as [El|Nl].
      * assert (Lz : length (zip_add s v) = length s) by (apply zip_add_length; auto). rewrite Lz.
        split; [lia|]. split.
        -- intros i Hi. destruct (Nat.eq_dec i n) as [->|]; [exists v; split; auto|apply HL; lia].
        -- cbn [vsum_upto]. rewrite Fn. f_equal. exact Hs.
      * split.
        -- intros H. specialize (H 0 ltac:(lia)). destruct (HL 0 ltac:(lia)) as (l & E & _). congruence.
        -- intros L H. destruct (H n ltac:(lia)) as (l & E & Hl). destruct (H 0 ltac:(lia)) as (l0 & E0' & Hl0).
           destruct (HL 0 ltac:(lia)) as (l1 & E1 & Hl1). rewrite Fn in E. injection E as <-. congruence.
    + split.
      * intros H. specialize (H 0 ltac:(lia)). destruct (HL 0 ltac:(lia)) as (l & E & _). congruence.
      * intros L H. destruct (H n ltac:(lia)) as (l & E & _). congruence.
  - (* all None so far *)
    destruct (f n) as [v|] eqn:Fn.
    + destruct (Nat.eqb_spec n 0) as [->|Nz]; cbn [arr_step].
      * rewrite map_length, Nat.eqb_refl, zip_add_zero. split; [lia|]. split.
        -- intros i Hi. assert (i = 0) by lia. subst. exists v. auto.
        -- cbn [vsum_upto]. rewrite Fn. symmetry. apply zip_add_repeat0.
      * split.
        -- intros H. specialize (H n ltac:(lia)). congruence.
        -- intros L H. destruct (H 0 ltac:(lia)) as (l & E & _). rewrite (IH 0) in E by lia. discriminate.
    + assert (arr_step (n =? 0) None None = Some None) by (destruct (n =? 0); reflexivity).
      rewrite H. intros i Hi. destruct (Nat.eq_dec i n) as [->|]; [exact Fn|apply IH; lia].
  - destruct IH as (H1 & H2). split.
    + intros H. apply H1. intros i Hi. apply H. lia.
    + intros L H. apply (H2 L). intros i Hi. apply H. lia.
Qed.

Theorem sums_uniform f n :
  (none_upto f n -> arr_prefix f n = Some None) /\
  (forall L, 1 <= n -> len_upto f L n -> arr_prefix f n = Some (Some (vsum_upto f L n))).
Proof.
  pose proof (arr_prefix_char f n) as C. split.
  - intros H. destruct (arr_prefix f n) as [[s|]|]; auto.
    + destruct C as (Hn & HL & _). destruct (HL 0 ltac:(lia)) as (l & E & _). rewrite (H 0) in E by lia. discriminate.
    + destruct C as (C & _). contradiction.
  - intros L Hn H. destruct (arr_prefix f n) as [[s|]|].
    + destruct C as (_ & HL & Hs). destruct (HL 0 ltac:(lia)) as (l & E & Hl). destruct (H 0 ltac:(lia)) as (l' & E' & Hl').
      assert (EL : L = length s) by congruence. rewrite EL. do 2 f_equal. exact Hs.
    + destruct (H 0 ltac:(lia)) as (l & E & _). rewrite (C 0) in E by lia. discriminate.
    + destruct C as (_ & C). exfalso. apply (C L H).
Qed.
Theorem mismatch_iff f n : arr_prefix f n = None <-> ~ none_upto f n /\ forall L, ~ len_upto f L n.
Proof.
  pose proof (arr_prefix_char f n) as C. split.
  - intros E. rewrite E in C. exact C.
  - intros (H1 & H2). destruct (arr_prefix f n) as [[s|]|]; auto.
    + destruct C as (_ & HL & _). exfalso. apply (H2 _ HL).
    + contradiction.
Qed.
(* element-wise: entry j of the sum is the sum of the entries j *)
Lemma nth_zip_add a : forall b j, length a = length b -> nth j (zip_add a b) 0%Z = (nth j a 0 + nth j b 0)%Z.
Proof. induction a as [|x a IH]; intros [|y b] j H; cbn in *; try lia; destruct j; auto; try lia. Qed.
Lemma vsum_upto_length f L n : len_upto f L n -> length (vsum_upto f L n) = L.
Proof.
  induction n as [|n IH]; intros H; cbn [vsum_upto]; [apply repeat_length|].
  assert (Hn : len_upto f L n) by (intros i Hi; apply H; lia).
  destruct (H n ltac:(lia)) as (v & E & Hv). rewrite E. rewrite zip_add_length; rewrite (IH Hn); auto.
Qed.
Theorem vsum_entry f L n j : len_upto f L n ->
  nth j (vsum_upto f L n) 0%Z = zsum (map (fun i => nth j (match f i with Some v => v | None => [] end) 0%Z) (seq 0 n)).
Proof.
  induction n as [|n IH]; intros H; cbn [vsum_upto].
  - cbn. clear. revert j. induction L as [|L IH]; intros [|j]; cbn; auto.
  - assert (Hn : len_upto f L n) by (intros i Hi; apply H; lia).
    destruct (H n ltac:(lia)) as (v & E & Hv). rewrite E.
    assert (Ls : length (vsum_upto f L n) = L) by (apply vsum_upto_length; auto).
    rewrite nth_zip_add by lia. rewrite IH by auto. rewrite seq_S, map_app. cbn [map]. replace (0 + n) with n by lia. rewrite E.
    unfold zsum. rewrite fold_right_app. cbn [fold_right].
    generalize (map (fun i => nth j match f i with Some v0 => v0 | None => [] end 0%Z) (seq 0 n)) as l.
    intros l. rewrite Z.add_0_r. induction l as [|x l IHl]; cbn; lia.
Qed.

(* the final aggregate ties everything together *)
Theorem aggregate fuel mr mf outs a : rloop fuel mr mf outs acc0 = Done a ->
  arr_prefix (fun i => r_lc (outs i)) (a_run a) = Some (a_lc a) /\
  arr_prefix (fun i => r_cv (outs i)) (a_run a) = Some (a_cv a).
Proof.
  intros H. pose proof (rloop_spec fuel mr mf outs 0 acc0 eq_refl) as S. rewrite H in S.
  destruct S as (k & _ & Hs & _); [intros j Hj; lia|].
  destruct (state_after_counts _ _ _ Hs) as (E1 & _). rewrite E1.
  pose proof (state_after_arrays outs k) as A. rewrite Hs in A. exact A.
Qed.
Theorem mismatch_raises fuel mr mf outs m : rloop fuel mr mf outs acc0 = Mismatch m ->
  exists k, m = S k /\
    (arr_prefix (fun i => r_lc (outs i)) (S k) = None \/ arr_prefix (fun i => r_cv (outs i)) (S k) = None) /\
    arr_prefix (fun i => r_lc (outs i)) k <> None /\ arr_prefix (fun i => r_cv (outs i)) k <> None.
Proof.
  intros H. pose proof (rloop_spec fuel mr mf outs 0 acc0 eq_refl) as S. rewrite H in S.
  destruct S as (k & _ & -> & Hn & Hk & _); [intros j Hj; lia|]. exists k. split; auto.
  pose proof (state_after_arrays outs (S k)) as A. rewrite Hn in A.
  pose proof (state_after_arrays outs k) as B. destruct (state_after outs k) as [b|]; [|congruence].
  destruct B as (B1 & B2). rewrite B1, B2. repeat split; auto; discriminate.
Qed.

(* ---- scaling: per-run vectors of rationals with a common denominator c (NumPy float arrays holding
   dyadic values k/c, mixed freely with integer arrays) are decided by the integer model on c * values:
   the loop commutes with multiplying every lc / cv entry by c, stops at the same run, raises at the same
   run, and for c <> 0 the scaled totals determine the totals. ---- *)
Definition scale_ov (c : Z) (o : option (list Z)) : option (list Z) := option_map (map (Z.mul c)) o.
Definition scale_run (c : Z) (d : run_data) : run_data :=
  mkRun (r_success d) (scale_ov c (r_lc d)) (scale_ov c (r_cv d)) (r_w d).
Definition scale_acc (c : Z) (a : acc) : acc :=
  mkAcc (a_run a) (a_fail a) (scale_ov c (a_lc a)) (scale_ov c (a_cv a)) (a_ws a).
Definition scale_outcome (c : Z) (o : outcome) : outcome :=
  match o with Done a => Done (scale_acc c a) | Mismatch m => Mismatch m | OutOfFuel => OutOfFuel end.

Lemma zip_add_scale c a : forall b, zip_add (map (Z.mul c) a) (map (Z.mul c) b) = map (Z.mul c) (zip_add a b).
Proof. induction a as [|x a IH]; intros [|y b]; cbn; auto. rewrite IH. f_equal. lia. Qed.
Lemma arr_step_scale c first s v :
  arr_step first (scale_ov c s) (scale_ov c v) = option_map (scale_ov c) (arr_step first s v).
Proof.
  assert (Z0 : forall l : list Z, map (fun _ => 0%Z) (map (Z.mul c) l) = map (Z.mul c) (map (fun _ => 0%Z) l)).
  { intros l. rewrite !map_map. apply map_ext. intros _. lia. }
  unfold arr_step. destruct first, s as [s|], v as [v|]; cbn [scale_ov option_map]; auto;
    rewrite ?Z0, ?map_length; try (destruct (_ =? _); cbn [option_map scale_ov]; auto; now rewrite zip_add_scale).
Qed.
Lemma step_scale c a d : step (scale_acc c a) (scale_run c d) = option_map (scale_acc c) (step a d).
Proof.
  unfold step. cbn [scale_acc scale_run a_run a_fail a_lc a_cv a_ws r_lc r_cv r_w r_success].
  rewrite !arr_step_scale. destruct (arr_step _ (a_lc a) _) as [l|]; cbn [option_map]; auto.
  destruct (arr_step _ (a_cv a) _) as [v|]; cbn [option_map]; auto.
Qed.
Theorem rloop_scale c fuel mr mf outs : forall a,
  rloop fuel mr mf (fun i => scale_run c (outs i)) (scale_acc c a) = scale_outcome c (rloop fuel mr mf outs a).
Proof.
  induction fuel as [|fuel IH]; intros a; cbn [rloop scale_acc a_run a_fail];
    destruct (guard mr mf (a_run a) (a_fail a)); auto.
  change (mkAcc (a_run a) (a_fail a) (scale_ov c (a_lc a)) (scale_ov c (a_cv a)) (a_ws a)) with (scale_acc c a).
  rewrite step_scale. destruct (step a (outs (a_run a))) as [a'|]; cbn [option_map scale_outcome]; auto.
Qed.
Theorem run_loop_scale c fuel mr mf outs :
  run_loop fuel mr mf (fun i => scale_run c (outs i)) = scale_outcome c (run_loop fuel mr mf outs).
Proof. unfold run_loop. destruct (norm mr mf) as [mr' mf']. exact (rloop_scale c fuel mr' mf' outs acc0). Qed.
Theorem scale_ov_inj c x y : c <> 0%Z -> scale_ov c x = scale_ov c y -> x = y.
Proof.
  intros Hc. destruct x as [x|], y as [y|]; cbn; try discriminate; auto. intros E. injection E as E. f_equal.
  revert y E. induction x as [|a x IH]; intros [|b y] E; cbn in E; try discriminate; auto.
  injection E as E1 E2. f_equal; [nia|auto].
Qed.
