(* App/RunHistory.v — histories of runs in which the decoder OWNS its answers (C01).
   A look-up-table / memoising decoder answers a syndrome it has seen before with the very same stored answer.
   What _run_once must return for every run of such a history is the single-run model applied to this run's
   errors and the decoder's policy for this run's syndrome: no run depends on an earlier one.
   Errors that differ by products of stabilizers reach the decoder with the same syndrome (same table row);
   errors that differ by an operator anticommuting with a logical reach it with the same syndrome when that
   operator commutes with the stabilizers, and then a run that succeeded before must fail now.
   An implementation that writes the resolved values back into the stored answer is NOT this model (witness). *)
From Coq Require Import Arith List Bool Lia ZArith.
From QV Require Import Core.Bits Core.Pauli Core.Symp Core.Code App.RunOnce.
Import ListNotations.
Open Scope nat_scope.

(* ---- what is generated in one run ---- *)
Record gen := mkGen { g_errs : list bsf; g_ms : list bsf; g_q : bool }.
Definition syn_of (c : code) (g : gen) : list bsf :=
  decoder_syndrome (stabs c) (g_errs g) (flips_used (g_q g) (length (stabs c)) (length (g_errs g)) (g_ms g)).
Definition once (c : code) (g : gen) (a : answer) : list bsf * option data :=
  run_once_model c (g_errs g) (g_ms g) (g_q g) a.
(* the syndrome handed to the decoder does not depend on what the decoder will answer *)
Lemma once_syn c g a : fst (once c g a) = syn_of c g.
Proof. reflexivity. Qed.

(* ---- a table decoder: the answer is fixed at the first sight of a syndrome ---- *)
Definition table := list (list bsf * answer).
Fixpoint lookup (k : list bsf) (t : table) : option answer :=
  match t with [] => None | (k', a) :: r => if beqm k k' then Some a else lookup k r end.
Definition tdecode (policy : list bsf -> answer) (t : table) (k : list bsf) : table * answer :=
  match lookup k t with Some a => (t, a) | None => ((k, policy k) :: t, policy k) end.
Fixpoint run_history (c : code) (policy : list bsf -> answer) (t : table) (h : list gen)
  : list (list bsf * option data) :=
  match h with
  | [] => []
  | g :: r => once c g (snd (tdecode policy t (syn_of c g)))
              :: run_history c policy (fst (tdecode policy t (syn_of c g))) r
  end.
Definition sound (policy : list bsf -> answer) (t : table) : Prop :=
  forall k a, lookup k t = Some a -> a = policy k.

Lemma sound_nil policy : sound policy [].
Proof. intros k a H. discriminate. Qed.
Lemma sound_tdecode policy t k : sound policy t -> sound policy (fst (tdecode policy t k)).
Proof.
  intros Hs. unfold tdecode. destruct (lookup k t) eqn:E; cbn [fst]; auto.
  intros k0 a0. cbn [lookup]. destruct (beqm k0 k) eqn:B.
  - apply beqm_spec in B. subst. intros H. now injection H as <-.
  - apply Hs.
Qed.
Lemma tdecode_answer policy t k : sound policy t -> snd (tdecode policy t k) = policy k.
Proof. intros Hs. unfold tdecode. destruct (lookup k t) eqn:E; cbn [snd]; auto. Qed.

(* every run of a history returns what this run alone implies *)
Theorem history_pointwise c policy h : forall t, sound policy t ->
  run_history c policy t h = map (fun g => once c g (policy (syn_of c g))) h.
Proof.
  induction h as [|g h IH]; intros t Hs; cbn [run_history map]; auto.
  rewrite tdecode_answer by auto. f_equal. apply IH. now apply sound_tdecode.
Qed.
Theorem history_fresh c policy h :
  run_history c policy [] h = map (fun g => once c g (policy (syn_of c g))) h.
Proof. apply history_pointwise, sound_nil. Qed.
(* in particular the result of run i does not depend on the runs before it *)
Theorem history_nth c policy h1 h2 g i : nth_error h1 i = Some g ->
  forall j, nth_error h2 j = Some g ->
  nth_error (run_history c policy [] h1) i = nth_error (run_history c policy [] h2) j.
Proof.
  intros H1 j H2. rewrite !history_fresh.
  rewrite (map_nth_error _ _ _ H1), (map_nth_error _ _ _ H2). reflexivity.
Qed.

(* ---- which errors share a table row ---- *)
Lemma syndrome_commuting ops d : commutes_all ops d -> syndrome_of ops d = zeros (length ops).
Proof.
  unfold commutes_all, syndrome_of, zeros. induction ops as [|o ops IH]; intros H; cbn [map length repeat]; auto.
  rewrite (H o) by (cbn; auto). f_equal. apply IH. intros o' Ho'. apply H. cbn. auto.
Qed.
Theorem same_syndrome_stab ops e d : length e = length d -> commutes_all ops d ->
  syndrome_of ops (xorv e d) = syndrome_of ops e.
Proof.
  intros HL Hd. rewrite syndrome_xorv by auto. rewrite (syndrome_commuting ops d Hd).
  rewrite <- (syndrome_length ops e). apply xorv_zeros_r.
Qed.
Definition shifted (ops : list bsf) (e e' : bsf) : Prop :=
  exists d, length e = length d /\ commutes_all ops d /\ e' = xorv e d.
(* step errors multiplied, step by step, by anything commuting with the stabilizers (products of stabilizers and
   of logical operators of a valid code): the decoder is handed the same syndrome array *)
Theorem same_table_row ss errs errs' ms : Forall2 (shifted ss) errs errs' ->
  decoder_syndrome ss errs ms = decoder_syndrome ss errs' ms.
Proof.
  intros H. unfold decoder_syndrome. f_equal. unfold step_syndromes.
  induction H as [|e e' errs errs' (d & HL & Hd & ->) _ IH]; cbn [map]; auto.
  rewrite IH. f_equal. symmetry. now apply same_syndrome_stab.
Qed.

(* ---- ... while the verdict must follow this run's error ---- *)
Theorem lc_shift c e l w w' r cv d d' : length r = length e -> length e = length l ->
  resolve c e w (DR None None (Some r) cv) = Some d ->
  resolve c (xorv e l) w' (DR None None (Some r) cv) = Some d' ->
  d_lc d = Some (map b2z (syndrome_of (logicals c) (xorv r e))) /\
  d_lc d' = Some (map b2z (xorv (syndrome_of (logicals c) (xorv r e)) (syndrome_of (logicals c) l))).
Proof.
  intros H1 H2. cbn. intros Hd Hd'. injection Hd as <-. injection Hd' as <-. cbn [d_lc]. split; auto.
  rewrite <- xorv_assoc. rewrite syndrome_xorv; auto. rewrite xorv_length; lia.
Qed.
Theorem verdict_differs c e l w w' r lc cv d d' : length r = length e -> length e = length l ->
  ~ commutes_all (logicals c) l ->
  resolve c e w (DR None lc (Some r) cv) = Some d ->
  resolve c (xorv e l) w' (DR None lc (Some r) cv) = Some d' ->
  d_success d = true -> d_success d' = false.
Proof.
  intros H1 H2 Hl Hd Hd' Hs.
  destruct (verdict _ _ _ _ _ _ _ Hd) as ((Hd1 & _) & _). destruct (verdict _ _ _ _ _ _ _ Hd') as ((Hd2 & _) & _).
  destruct (d_success d') eqn:E; auto. exfalso. apply Hl.
  destruct (Hd1 Hs) as (_ & Hc). destruct (Hd2 eq_refl) as (_ & Hc').
  intros o Ho. specialize (Hc o Ho). specialize (Hc' o Ho).
  rewrite <- xorv_assoc in Hc'. rewrite bsp_linear_l in Hc' by (rewrite xorv_length; lia).
  rewrite Hc, xorb_false_l in Hc'. exact Hc'.
Qed.

(* ---- witness: writing the resolved values back into the decoder's stored answer is history dependent ---- *)
Definition fill (a : answer) (d : option data) : answer :=
  match a, d with
  | DR s lc (Some r) cv, Some d' =>
      DR (match s with None => Some (d_success d') | _ => s end) (match lc with None => d_lc d' | _ => lc end) (Some r) cv
  | _, _ => a
  end.
Fixpoint store (k : list bsf) (a : answer) (t : table) : table :=
  match t with [] => [] | (k', a') :: r => if beqm k k' then (k', a) :: r else (k', a') :: store k a r end.
Fixpoint run_history_writeback (c : code) (policy : list bsf -> answer) (t : table) (h : list gen)
  : list (list bsf * option data) :=
  match h with
  | [] => []
  | g :: r => let k := syn_of c g in
              let res := once c g (snd (tdecode policy t k)) in
              res :: run_history_writeback c policy
                       (store k (fill (snd (tdecode policy t k)) (snd res)) (fst (tdecode policy t k))) r
  end.
Definition five := mkCode (map to_bsf [[pX;pZ;pZ;pX;pI]; [pI;pX;pZ;pZ;pX]; [pX;pI;pX;pZ;pZ]; [pZ;pX;pI;pX;pZ]])
                          [to_bsf [pX;pX;pX;pX;pX]] [to_bsf [pZ;pZ;pZ;pZ;pZ]].
Definition g_of (e : pstr) := mkGen [to_bsf e] [zeros 4] false.
Definition lut (_ : list bsf) : answer := DR None None (Some (to_bsf [pX;pI;pI;pI;pI])) None.
(* X1, then X1 times logical X (same syndrome): the second run must fail *)
Example writeback_witness :
  let h := [g_of [pX;pI;pI;pI;pI]; g_of [pI;pX;pX;pX;pX]] in
  map (fun r => option_map d_success (snd r)) (run_history five lut [] h) = [Some true; Some false] /\
  map (fun r => option_map d_success (snd r)) (run_history_writeback five lut [] h) = [Some true; Some true] /\
  map fst (run_history five lut [] h) = [[[false;false;false;true]]; [[false;false;false;true]]].
Proof. vm_compute. auto. Qed.
