(* App/RunOnceP.v — the verdict theorem restated on Pauli strings with the letter-level commutation of
   Core/Pauli.v (independent of the binary symplectic product). *)
From Coq Require Import Arith List Bool Lia ZArith.
From QV Require Import Core.Bits Core.Pauli Core.Symp Core.Code Core.CodeP App.RunOnce.
Import ListNotations.
Open Scope nat_scope.

Theorem verdict_pauli n ss xs zs (r e : pstr) w lc cv d :
  uniform n ss -> uniform n xs -> uniform n zs -> length r = n -> length e = n ->
  resolve (code_of ss xs zs) (to_bsf e) w (DR None lc (Some (to_bsf r)) cv) = Some d ->
  (d_success d = true <->
     (forall s, In s ss -> anticommutes (pmul r e) s = false) /\
     (forall l, In l (xs ++ zs) -> anticommutes (pmul r e) l = false)) /\
  (lc = None -> d_lc d = Some (map b2z (map (fun l => anticommutes (pmul r e) l) (xs ++ zs)))).
Proof.
  intros Us Ux Uz Lr Le H. destruct (verdict _ _ _ _ _ _ _ H) as (Hs & Hl & _).
  assert (Lp : length (pmul r e) = n).
  { clear -Lr Le. revert e n Lr Le. induction r as [|a r IH]; intros [|b e] n Lr Le; cbn in *; try lia.
    destruct n; [lia|]. f_equal. apply (IH e n); lia. }
  assert (Uxz : uniform n (xs ++ zs)) by (intros s Hin; apply in_app_iff in Hin; destruct Hin; auto).
  rewrite <- to_bsf_pmul in Hs, Hl by lia. split.
  - rewrite Hs. unfold commutes_all, logicals. cbn [stabs lxs lzs code_of]. rewrite <- map_app. split.
    + intros (A & B). split.
      * intros s Hin. rewrite <- bsp_is_anticommutation by (rewrite Lp, Us; auto). apply A. now apply in_map.
      * intros l Hin. rewrite <- bsp_is_anticommutation by (rewrite Lp, Uxz; auto). apply B. now apply in_map.
    + intros (A & B). split.
      * intros o Hin. apply in_map_iff in Hin. destruct Hin as (s & <- & Hin).
        rewrite bsp_is_anticommutation by (rewrite Lp, Us; auto). now apply A.
      * intros o Hin. apply in_map_iff in Hin. destruct Hin as (l & <- & Hin).
        rewrite bsp_is_anticommutation by (rewrite Lp, Uxz; auto). now apply B.
  - intros E. rewrite (Hl E). f_equal. f_equal. unfold logicals. cbn [lxs lzs code_of]. rewrite <- map_app, map_map.
    apply map_ext_in. intros l Hin. apply bsp_is_anticommutation. rewrite Lp, Uxz; auto.
Qed.
