(* App/RunOnceP.v — the verdict theorem restated on Pauli strings with the letter-level commutation of
   Core/Pauli.v (independent of the binary symplectic product). *)
From Coq Require Import Arith List Bool Lia ZArith.
From QV Require Import Core.Bits Core.Pauli Core.Symp Core.Code Core.CodeP App.RunOnce.
Import ListNotations.
Open Scope nat_scope.

Theorem verdict_pauli n ss xs zs (r e : pstr) w lc cv d :
  uniform n ss -> uniform n xs -> uniform n zs -> length r = n -> length e = n ->
  resolve (code_of ss xs zs) (to_bsf e) w (DR None lc (Some (to_bsf r)) cv) = Some d ->
  (d_success d = true <->
     (forall s, In s ss -> anticommutes (pmul r e) s = false) /\
     (forall l, In l (xs ++ zs) -> anticommutes (pmul r e) l = false)) /\
  (lc = None -> d_lc d = Some (map b2z (map (fun l => anticommutes (pmul r e) l) (xs ++ zs)))).
Proof.
  intros Us Ux Uz Lr Le H. destruct (verdict _ _ _ _ _ _ _ H) as (Hs & Hl & _).
  assert (Lp : length (pmul r e) = n).
  { clear -Lr Le. revert e n Lr Le. induction r as [|a r IH]; intros [|b e] n Lr Le; cbn in *; try lia.
    destruct n; [lia|]. f_equal. apply (IH e n); lia. }
  assert (Uxz : uniform n (xs ++ zs)) by (intros s Hin; apply in_app_iff in Hin; destruct Hin; auto).
  rewrite <- to_bsf_pmul in Hs, Hl by lia. split.
  - rewrite Hs. unfold commutes_all, logicals. cbn [stabs lxs lzs code_of]. rewrite <- map_app. split.
    + intros (A & B). split.
      * intros s Hin. rewrite <- bsp_is_anticommutation by (rewrite Lp, Us; auto). apply A. now apply in_map.
      * intros l Hin. rewrite <- bsp_is_anticommutation by (rewrite Lp, Uxz; auto). apply B. now apply in_map.
    + intros (A & B). split.
      * intros o Hin. apply in_map_iff in Hin. destruct Hin as (s & <- & Hin).
        rewrite bsp_is_anticommutation by (rewrite Lp, Us; auto). now apply A.
      * intros o Hin. apply in_map_iff in Hin. destruct Hin as (l & <- & Hin).
        rewrite bsp_is_anticommutation by (rewrite Lp, Uxz; auto). now apply B.
  - intros E. rewrite (Hl E). f_equal. f_equal. unfold logicals. cbn [lxs lzs code_of]. rewrite <- map_app, map_map.
    apply map_ext_in. intros l Hin. apply bsp_is_anticommutation. rewrite Lp, Uxz; auto.
Qed.

(* ---- flip locality: a measurement flip at step t0 enters row t0 and row (t0+1) mod T, and nothing else ---- *)
Fixpoint upd_nth (t : nat) (f : bsf -> bsf) (l : list bsf) : list bsf :=
  match l, t with
  | [], _ => []
  | x :: r, O => f x :: r
  | x :: r, S t' => x :: upd_nth t' f r
  end.
Lemma upd_nth_length t f l : length (upd_nth t f l) = length l.
Proof. revert t. induction l as [|x r IH]; intros [|t]; cbn; auto. Qed.
Lemma upd_nth_nth t f l j : t < length l -> nth j (upd_nth t f l) [] = if j =? t then f (nth t l []) else nth j l [].
Proof.
  revert t j. induction l as [|x r IH]; intros [|t] [|j] H; cbn in *; try lia; auto.
  apply IH. lia.
Qed.
Definition flip_if (b : bool) (d m : bsf) : bsf := if b then xorv m d else m.

(* toggling the flips of step t0 by d changes the m[t-1] term of row (t0+1) mod T and the m[t] term of row t0 *)
Theorem flip_locality stabs errs ms t0 d t :
  length errs = length ms -> t0 < length ms -> t < length ms ->
  nth t (decoder_syndrome stabs errs (upd_nth t0 (fun m => xorv m d) ms)) [] =
  xorv (xorv (flip_if ((t + length ms - 1) mod length ms =? t0) d (nth ((t + length ms - 1) mod length ms) ms []))
             (syndrome_of stabs (nth t errs [])))
       (flip_if (t =? t0) d (nth t ms [])).
Proof.
  intros HL Ht0 Ht.
  rewrite syndrome_ftp_nth by (rewrite ?upd_nth_length; lia). rewrite upd_nth_length.
  assert (Hm : (t + length ms - 1) mod length ms < length ms) by (apply Nat.mod_upper_bound; lia).
  rewrite !upd_nth_nth by lia. unfold flip_if.
  destruct (Nat.eqb_spec ((t + length ms - 1) mod length ms) t0) as [->|], (Nat.eqb_spec t t0) as [->|]; reflexivity.
Qed.
(* every other row is untouched *)
Corollary flip_untouched stabs errs ms t0 d t :
  length errs = length ms -> t0 < length ms -> t < length ms ->
  t <> t0 -> (t + length ms - 1) mod length ms <> t0 ->
  nth t (decoder_syndrome stabs errs (upd_nth t0 (fun m => xorv m d) ms)) [] = nth t (decoder_syndrome stabs errs ms) [].
Proof.
  intros HL Ht0 Ht N1 N2. rewrite flip_locality by auto. rewrite syndrome_ftp_nth by lia. unfold flip_if.
  destruct (Nat.eqb_spec ((t + length ms - 1) mod length ms) t0); [contradiction|].
  destruct (Nat.eqb_spec t t0); [contradiction|]. reflexivity.
Qed.
(* with a single time step the two terms coincide and the flip cancels: the decoder sees the bare syndrome *)
Corollary flip_single_step stabs e m d : length m = length d -> length (syndrome_of stabs e) = length d ->
  decoder_syndrome stabs [e] [xorv m d] = decoder_syndrome stabs [e] [m].
Proof.
  intros Lm Ls. unfold decoder_syndrome, step_syndromes, rot. cbn [rev app map rows3]. f_equal.
  set (s := syndrome_of stabs e).
  assert (G : forall x, length x = length d -> xorv (xorv x s) x = s).
  { intros x Lx. rewrite (xorv_comm x s), xorv_assoc, xorv_self. rewrite <- Ls in Lx. rewrite Lx. apply xorv_zeros_r. }
  rewrite (G m Lm). apply G. rewrite xorv_length; lia.
Qed.
