(* Tensor/Scale.v — multilinearity of the contraction value in the site tensors, and its
   consequence for the column sweep: if every site tensor of a well-shaped network is multiplied
   by its own factor (the harness uses powers of two of widely ranging magnitude, 2^-900..2^900,
   that compensate each other), the network stays well-shaped, its exact value is the product of
   the factors of the occupied sites times the value of the unscaled network, and the model of
   mps2d.contract returns exactly that, in both sweep directions.  Empty (None) sites carry no
   factor.  Generic in the ring of entries, any number of rows and columns, any bond dimensions. *)
From Coq Require Import List Arith Lia Bool ZArith Ring.
From QV Require Import Tensor.Sums Tensor.Net Tensor.StartStop Tensor.Contract Tensor.Sweep Tensor.Ladder Tensor.Exact Tensor.Noop Tensor.Split.
Import ListNotations.
Local Open Scope nat_scope.

Section Scale.
Variable K : cring.
Add Ring Kring : (cring_th K).
Local Notation tensor := (tensor K).
Local Notation col := (list (option tensor)).
Local Notation rO := (r0 K).
Local Notation rI := (r1 K).
Local Infix "*" := (rmul K).
Local Notation opc := (@opc K).
Local Notation netop := (@netop K).
Local Notation deo := (deo K).
Local Notation dwo := (dwo K).
Local Notation dso := (dso K).
Local Notation dno := (dno K).
Local Notation hd_dn := (hd_dn K).

(* ---- scaling one tensor, one column (factor list read row by row, missing factors = 1), a network ---- *)
Definition scaleT (c : K) (t : tensor) : tensor :=
  mkT (dn t) (de t) (ds t) (dw t) (fun n e s w => c * val t n e s w).
Definition scale_site (c : K) (o : option tensor) : option tensor := option_map (scaleT c) o.
Fixpoint scale_col (f : list K) (A : col) : col :=
  match A with
  | [] => []
  | o :: A' => scale_site (hd rI f) o :: scale_col (tl f) A'
  end.
Fixpoint colfac (f : list K) (A : col) : K :=
  match A with
  | [] => rI
  | o :: A' => (match o with Some _ => hd rI f | None => rI end) * colfac (tl f) A'
  end.
Fixpoint scale_net (fs : list (list K)) (tn : list col) : list col :=
  match tn with
  | [] => []
  | A :: rest => scale_col (hd [] fs) A :: scale_net (tl fs) rest
  end.
Fixpoint netfac (fs : list (list K)) (tn : list col) : K :=
  match tn with
  | [] => rI
  | A :: rest => colfac (hd [] fs) A * netfac (tl fs) rest
  end.

(* ---- shapes and occupancy are untouched ---- *)
Lemma scale_site_dn c o : dno (scale_site c o) = dno o. Proof. destruct o; reflexivity. Qed.
Lemma scale_site_de c o : deo (scale_site c o) = deo o. Proof. destruct o; reflexivity. Qed.
Lemma scale_site_ds c o : dso (scale_site c o) = dso o. Proof. destruct o; reflexivity. Qed.
Lemma scale_site_dw c o : dwo (scale_site c o) = dwo o. Proof. destruct o; reflexivity. Qed.
Lemma scale_site_some c o : is_some (scale_site c o) = is_some o. Proof. destruct o; reflexivity. Qed.

Lemma scale_col_length A : forall f, length (scale_col f A) = length A.
Proof. induction A as [|o A IH]; intros f; cbn; [reflexivity|]. now rewrite IH. Qed.
Lemma scale_col_deo A : forall f, map deo (scale_col f A) = map deo A.
Proof. induction A as [|o A IH]; intros f; cbn [scale_col map]; [reflexivity|]. now rewrite scale_site_de, IH. Qed.
Lemma scale_col_dwo A : forall f, map dwo (scale_col f A) = map dwo A.
Proof. induction A as [|o A IH]; intros f; cbn [scale_col map]; [reflexivity|]. now rewrite scale_site_dw, IH. Qed.
Lemma scale_col_hd_dn A f : hd_dn (scale_col f A) = hd_dn A.
Proof. destruct A as [|o A]; cbn; [reflexivity|]. apply scale_site_dn. Qed.
Lemma scale_col_vchain A : forall f, vchain K A -> vchain K (scale_col f A).
Proof.
  induction A as [|x A IH]; intros f H; [exact I|].
  cbn [scale_col]. destruct A as [|y A'].
  - cbn. auto.
  - cbn [vchain] in H. destruct H as [H1 H2]. cbn [scale_col vchain]. split.
    + rewrite scale_site_ds, scale_site_dn. exact H1.
    + exact (IH (tl f) H2).
Qed.
Lemma scale_col_posc A : forall f, posc K A -> posc K (scale_col f A).
Proof.
  induction A as [|x A IH]; intros f H; [exact I|].
  cbn [scale_col posc] in *. destruct H as [H1 H2]. rewrite scale_site_dn, scale_site_ds. split; [exact H1|apply IH; exact H2].
Qed.
Lemma scale_col_hmatch A : forall B f g, hmatch K A B -> hmatch K (scale_col f A) (scale_col g B).
Proof.
  induction A as [|a A IH]; intros [|b B] f g H; cbn in H; try contradiction; [exact I|].
  destruct H as [H1 H2]. cbn [scale_col hmatch]. rewrite scale_site_de, scale_site_dw. split; [exact H1|apply IH; exact H2].
Qed.
Lemma scale_col_last_ds A : forall f, dso (last (scale_col f A) None) = dso (last A None).
Proof.
  induction A as [|x A IH]; intros f; [reflexivity|].
  destruct A as [|y A'].
  - cbn. apply scale_site_ds.
  - change (dso (last (scale_col (tl f) (y :: A')) None) = dso (last (y :: A') None)). apply IH.
Qed.
Lemma scale_col_nth_some A : forall f i, is_some (nth i (scale_col f A) None) = is_some (nth i A None).
Proof.
  induction A as [|x A IH]; intros f i; [destruct i; reflexivity|].
  destruct i as [|i]; cbn [scale_col nth]; [apply scale_site_some|apply IH].
Qed.
Lemma scale_col_colwf r A f : colwf K r A -> colwf K r (scale_col f A).
Proof.
  intros (L & V & P). repeat split; [rewrite scale_col_length; exact L|apply scale_col_vchain; exact V|apply scale_col_posc; exact P].
Qed.

Lemma scale_net_hchain tn : forall fs, hchain K tn -> hchain K (scale_net fs tn).
Proof.
  induction tn as [|A rest IH]; intros fs H; [exact I|].
  destruct rest as [|B rest'].
  - cbn. auto.
  - cbn [hchain] in H. destruct H as [H1 H2]. cbn [scale_net hchain]. split; [apply scale_col_hmatch; exact H1|exact (IH (tl fs) H2)].
Qed.
Lemma scale_net_Forall (P : col -> Prop) :
  (forall f A, P A -> P (scale_col f A)) -> forall tn fs, Forall P tn -> Forall P (scale_net fs tn).
Proof.
  intros HP. induction tn as [|A rest IH]; intros fs H; cbn [scale_net]; [constructor|].
  inversion H; subst. constructor; [apply HP; assumption|apply IH; assumption].
Qed.
Lemma scale_net_last_deo tn : forall fs, map deo (last (scale_net fs tn) []) = map deo (last tn []).
Proof.
  induction tn as [|A rest IH]; intros fs; [reflexivity|].
  destruct rest as [|B rest'].
  - cbn. apply scale_col_deo.
  - change (map deo (last (scale_net (tl fs) (B :: rest')) []) = map deo (last (B :: rest') [])). apply IH.
Qed.
Lemma scale_net_occ_row tn i : forall fs, occ_row K (scale_net fs tn) i = occ_row K tn i.
Proof.
  induction tn as [|A rest IH]; intros fs; [reflexivity|].
  unfold occ_row in *. cbn [scale_net existsb]. rewrite scale_col_nth_some. f_equal. apply IH.
Qed.

Theorem scale_netwf r tn fs : netwf K r tn -> netwf K r (scale_net fs tn).
Proof.
  intros (Hne & HC & HH & HN & HS & HW & HE & a & b & Hab & Hocc).
  repeat split.
  - destruct tn; [contradiction|discriminate].
  - apply scale_net_Forall; [|exact HC]. intros f A. apply scale_col_colwf.
  - apply scale_net_hchain. exact HH.
  - apply (scale_net_Forall (fun A => hd_dn A = 1)); [|exact HN]. intros f A HA. rewrite scale_col_hd_dn. exact HA.
  - apply (scale_net_Forall (fun A : col => dso (last A None) = 1)); [|exact HS]. intros f A HA. rewrite scale_col_last_ds. exact HA.
  - destruct tn as [|A rest]; [contradiction|]. cbn [scale_net hd] in *. rewrite scale_col_dwo. exact HW.
  - rewrite scale_net_last_deo. exact HE.
  - exists a, b. split; [exact Hab|]. intros i Hi. rewrite scale_net_occ_row. apply Hocc. exact Hi.
Qed.

(* ---- the column operator and the network value are multilinear in the site tensors ---- *)
Theorem opc_scale A : forall f v ws es, opc (scale_col f A) v ws es = colfac f A * opc A v ws es.
Proof.
  induction A as [|o A IH]; intros f v ws es.
  - cbn. destruct ws, es; ring.
  - cbn [scale_col colfac]. destruct o as [T|]; cbn [scale_site option_map].
    + destruct ws as [|w ws]; [cbn; ring|]. destruct es as [|e es]; [cbn; ring|].
      cbn [Net.opc ds val scaleT].
      transitivity (sumn (ds T) (fun s => (hd rI f * colfac (tl f) A) * (val T v e s w * opc A s ws es))).
      { apply sumn_ext; intros s _. rewrite IH. ring. }
      apply sumn_mul_l.
    + destruct ws as [|w ws]; [cbn; ring|]. destruct es as [|e es]; [cbn; ring|].
      cbn [Net.opc]. rewrite IH. ring.
Qed.

Theorem netop_scale tn : forall fs ws es, netop (scale_net fs tn) ws es = netfac fs tn * netop tn ws es.
Proof.
  induction tn as [|A rest IH]; intros fs ws es.
  - cbn. ring.
  - destruct rest as [|B rest'].
    + cbn [scale_net netfac Net.netop]. rewrite opc_scale. ring.
    + change (scale_net fs (A :: B :: rest')) with (scale_col (hd [] fs) A :: scale_net (tl fs) (B :: rest')).
      change (scale_net (tl fs) (B :: rest')) with (scale_col (hd [] (tl fs)) B :: scale_net (tl (tl fs)) rest') at 1.
      rewrite netop_cons.
      change (scale_col (hd [] (tl fs)) B :: scale_net (tl (tl fs)) rest') with (scale_net (tl fs) (B :: rest')).
      rewrite scale_col_deo, netop_cons.
      change (netfac fs (A :: B :: rest')) with (colfac (hd [] fs) A * netfac (tl fs) (B :: rest')).
      transitivity (sumt (map deo A) (fun mid => (colfac (hd [] fs) A * netfac (tl fs) (B :: rest'))
                                                   * (opc A 0 ws mid * netop (B :: rest') mid es))).
      { apply sumt_ext; intros mid. rewrite opc_scale, IH. ring. }
      apply sumt_mul_l.
Qed.

Theorem value_scale r tn fs : value r (scale_net fs tn) = netfac fs tn * value r tn.
Proof. apply netop_scale. Qed.

(* ---- hence: the column sweep of the rescaled network returns (product of factors) * value ---- *)
Theorem sweep_exact_scaled r tn fs : netwf K r tn ->
  contract K (scale_net fs tn) None None None None None None = Ok (Scalar (netfac fs tn * value r tn))
  /\ contract K (scale_net fs tn) None None None None (Some 1%Z) None = Ok (Scalar (netfac fs tn * value r tn))
  /\ contract K (scale_net fs tn) None None None None (Some (-1)%Z) None = Ok (Scalar (netfac fs tn * value r tn)).
Proof.
  intros Hwf. rewrite <- value_scale. apply sweep_exact. apply scale_netwf. exact Hwf.
Qed.

Lemma scale_net_length tn : forall fs, length (scale_net fs tn) = length tn.
Proof. induction tn as [|A rest IH]; intros fs; cbn; [reflexivity|]. now rewrite IH. Qed.

(* ... and so does every split into partial left and right contractions recombined with their multipliers *)
Theorem split_exact_scaled r tn fs c : 0 < c < length tn -> netwf K r tn ->
  split_contract K (scale_net fs tn) None None None (Z.of_nat c) = Ok (netfac fs tn * value r tn).
Proof.
  intros Hc Hwf. rewrite <- value_scale.
  pose proof (scale_netwf r tn fs Hwf) as Hwf'. pose proof (scale_net_length tn fs) as HL.
  remember (scale_net fs tn) as tn' eqn:E. clear E.
  rewrite <- (firstn_skipn c tn') in *.
  assert (Hlen : length (firstn c tn') = c) by (rewrite firstn_length; rewrite app_length, firstn_length, skipn_length in HL; lia).
  rewrite <- Hlen at 3. apply split_exact; [| |exact Hwf'].
  - intros E. rewrite E in Hlen. cbn in Hlen. lia.
  - intros E. rewrite E, app_nil_r in HL. lia.
Qed.

End Scale.

Print Assumptions sweep_exact_scaled.
Print Assumptions split_exact_scaled.
