(* Tensor/Contract.v — executable model of qecsim.tensortools: mps.contract_pairwise,
   mps.contract_ladder, tsr.as_scalar, mps.inner_product, mps.bond_dimension, the no-op guard of
   mps.truncate, mps2d.transpose and mps2d.contract (slice.indices / range resolution, left/right
   pairing by the sign of step, "no truncation on the last column of a full contraction",
   multiplier accumulation).  A network is the list of its columns (numpy's tn[:, c]); a column
   is a list of optional tensors.  Real truncation (SVD) is outside this model: [truncate]
   answers [Err Unmodelled] whenever mps.truncate would do any work. *)
From Coq Require Import List Arith Lia Bool ZArith QArith.
From QV Require Import Tensor.Sums Tensor.Net Tensor.StartStop.
Import ListNotations.

Inductive err := ValueError | TypeError | AssertionError | Unmodelled.
Inductive res (X : Type) := Ok (x : X) | Err (e : err).
Arguments Ok {X}. Arguments Err {X}.
Definition bind {X Y} (r : res X) (f : X -> res Y) : res Y :=
  match r with Ok x => f x | Err e => Err e end.

(* ---- slice(start, stop, step).indices(n) and range(...) ------------------------------- *)
Open Scope Z_scope.
Definition clip_index (i : option Z) (n lower upper : Z) (dflt : Z) : Z :=
  match i with
  | None => dflt
  | Some i => if i <? 0 then (if i + n <? lower then lower else i + n)
              else (if upper <? i then upper else i)
  end.
(* None = ValueError (slice step cannot be zero) *)
Definition slice_indices (start stop step : option Z) (n : Z) : option (Z * Z * Z) :=
  let st := match step with None => 1 | Some s => s end in
  if st =? 0 then None else
  let neg := st <? 0 in
  let lower := if neg then -1 else 0 in
  let upper := if neg then n - 1 else n in
  Some (clip_index start n lower upper (if neg then upper else lower),
        clip_index stop n lower upper (if neg then lower else upper), st).
Definition range_len (a b st : Z) : nat :=
  if 0 <? st then (if a <? b then Z.to_nat ((b - a - 1) / st + 1) else O)
  else (if b <? a then Z.to_nat ((a - b - 1) / (- st) + 1) else O).
Definition py_range (a b st : Z) : list Z :=
  map (fun i => a + Z.of_nat i * st) (seq 0 (range_len a b st)).
Close Scope Z_scope.

Definition truthyZ (o : option Z) : bool := match o with Some z => negb (z =? 0)%Z | None => false end.
Definition truthyQ (o : option Q) : bool := match o with Some q => negb (Qeq_bool q 0) | None => false end.

Section Contract.
Variable K : cring.
Local Notation tensor := (tensor K).
Local Notation col := (list (option tensor)).
Local Notation "1" := (r1 K).
Local Infix "*" := (rmul K).

(* mps.contract_pairwise (the assert on equal lengths is the AssertionError) *)
Definition contract_pairwise (L R : col) : res col :=
  if length L =? length R then Ok (pairwise L R) else Err AssertionError.

(* one step of mps.contract_ladder's reduce: einsum('nesw,sESW->neESwW').reshape(n,(eE),S,(wW)) *)
Definition lad_fun (v t : tensor) : nat -> nat -> nat -> nat -> K :=
  fun n eE S wW =>
    sumn (ds v) (fun s => val v n (eE / de t) s (wW / dw t) * val t s (eE mod de t) S (wW mod dw t)).
Definition lad (v t : tensor) : tensor :=
  mkT (dn v) (de v * de t) (ds t) (dw v * dw t) (tab4 (dn v) (de v * de t) (ds t) (dw v * dw t) (lad_fun v t)).
Fixpoint somes (l : col) : list tensor :=
  match l with [] => [] | Some t :: l' => t :: somes l' | None :: l' => somes l' end.
Definition contract_ladder (m : col) : res tensor :=
  match start_stop m with
  | None => Err ValueError
  | Some (a, b) =>
      match somes (firstn (b - a) (skipn a m)) with
      | [] => Err TypeError            (* functools.reduce of an empty sequence *)
      | t0 :: ts => Ok (fold_left lad ts t0)
      end
  end.
Definition as_scalar (t : tensor) : res K :=
  if (dn t * de t * ds t * dw t =? 1)%nat then Ok (val t O O O O) else Err ValueError.
Definition inner_product (bra ket : col) : res K :=
  bind (contract_pairwise bra ket) (fun m => bind (contract_ladder m) as_scalar).

(* mps.bond_dimension *)
Definition bond_dimension (m : col) : nat :=
  fold_right Nat.max O (map (fun o => match o with Some t => dn t | None => O end) m).

(* mps.truncate: the guard; beyond it (QR + SVD sweeps) the model does not go *)
Definition would_truncate (chi : option Z) (tol : option Q) (mask : option (list bool)) (m : col) : bool :=
  negb (length m =? 0)
  && (truthyQ tol || (truthyZ chi && match chi with Some c => (c <? Z.of_nat (bond_dimension m))%Z | None => false end))
  && match mask with None => true | Some mk => existsb (fun b => b) mk end.
Definition truncate (chi : option Z) (tol : option Q) (mask : option (list bool)) (m : col) : res (col * K) :=
  if would_truncate chi tol mask m then Err Unmodelled else Ok (m, 1).

(* mps2d.transpose: both the grid and each tensor (numpy.transpose reverses the axes) *)
Definition transpose_tensor (t : tensor) : tensor :=
  mkT (dw t) (ds t) (de t) (dn t) (fun n e s w => val t w s e n).
Definition transpose_net (rows : nat) (tn : list col) : list col :=
  map (fun r => map (fun c => option_map transpose_tensor (nth r c None)) tn) (seq 0 rows).

(* mps2d.contract *)
Definition column (tn : list col) (c : Z) : col := nth (Z.to_nat c) tn [].
Definition mask_column (mask : option (list (list bool))) (c : Z) : option (list bool) :=
  option_map (fun m => nth (Z.to_nat c) m []) mask.

Section Sweep.
Variable tn : list col.
Variable trunc : Z -> col -> res (col * K).
Variable fwd full : bool.
Variable last : Z.
Fixpoint sweep (cs : list Z) (acc : col) (mult : K) : res (col * K) :=
  match cs with
  | [] => Ok (acc, mult)
  | c :: cs' =>
      let m := column tn c in
      match contract_pairwise (if fwd then acc else m) (if fwd then m else acc) with
      | Err e => Err e
      | Ok p =>
          if (c =? last)%Z && full then sweep cs' p mult
          else match trunc c p with
               | Err e => Err e
               | Ok (p', nrm) => sweep cs' p' (mult * nrm)
               end
      end
  end.
End Sweep.

Inductive cres := Scalar (x : K) | Partial (m : option col) (mult : K).

Definition contract_gen (trunc : Z -> col -> res (col * K)) (tn : list col)
           (start stop step : option Z) : res cres :=
  let n := Z.of_nat (length tn) in
  match slice_indices start stop step n with
  | None => Err ValueError
  | Some (a, b, st) =>
      let rng := py_range a b st in
      let full := (n =? Z.of_nat (length rng))%Z in
      let fwd := (0 <? st)%Z in
      match rng with
      | [] => if full then Err TypeError else Ok (Partial None 1)
      | c0 :: cs =>
          match sweep tn trunc fwd full (List.last rng c0) cs (column tn c0) 1 with
          | Err e => Err e
          | Ok (acc, mult) =>
              if full then bind (contract_ladder acc) (fun t => bind (as_scalar t) (fun x => Ok (Scalar (mult * x))))
              else Ok (Partial (Some acc) mult)
          end
      end
  end.
Definition contract (tn : list col) (chi : option Z) (tol : option Q)
           (start stop step : option Z) (mask : option (list (list bool))) : res cres :=
  contract_gen (fun c p => truncate chi tol (mask_column mask c) p) tn start stop step.

(* split at column c (0 < c < n): left part swept forward over columns [0, c), right part swept
   backward over [c, n), recombined as the decoders do: inner_product(left, right) * mult_l * mult_r *)
Definition split_contract (tn : list col) (chi : option Z) (tol : option Q) (mask : option (list (list bool)))
           (c : Z) : res K :=
  match contract tn chi tol None (Some c) None mask with
  | Ok (Partial (Some L) mL) =>
      match contract tn chi tol (Some (-1)%Z) (Some (c - 1)%Z) (Some (-1)%Z) mask with
      | Ok (Partial (Some R) mR) => bind (inner_product L R) (fun x => Ok (x * mL * mR))
      | Ok _ => Err TypeError
      | Err e => Err e
      end
  | Ok _ => Err TypeError
  | Err e => Err e
  end.

(* the bond dimensions of the MPS handed to truncate during an untruncated sweep *)
Section Bonds.
Variable tn : list col.
Variable fwd full : bool.
Variable last : Z.
Fixpoint sweep_bonds (cs : list Z) (acc : col) : list nat :=
  match cs with
  | [] => []
  | c :: cs' =>
      let m := column tn c in
      let p := pairwise (if fwd then acc else m) (if fwd then m else acc) in
      if (c =? last)%Z && full then sweep_bonds cs' p else bond_dimension p :: sweep_bonds cs' p
  end.
End Bonds.
Definition contract_bonds (tn : list col) (start stop step : option Z) : list nat :=
  let n := Z.of_nat (length tn) in
  match slice_indices start stop step n with
  | None => []
  | Some (a, b, st) =>
      let rng := py_range a b st in
      match rng with
      | [] => []
      | c0 :: cs => sweep_bonds tn (0 <? st)%Z (n =? Z.of_nat (length rng))%Z (List.last rng c0) cs (column tn c0)
      end
  end.

(* ---- tensors as data (for the engine and the in-kernel shards) ---- *)
Definition tensor_of_list (a b c d : nat) (l : list (list (list (list K)))) : tensor :=
  mkT a b c d (fun n e s w => nth w (nth s (nth e (nth n l []) []) []) (r0 K)).
Definition entries (t : tensor) : list K :=
  flat_map (fun n => flat_map (fun e => flat_map (fun s => map (fun w => val t n e s w) (seq 0 (dw t)))
                                                  (seq 0 (ds t))) (seq 0 (de t))) (seq 0 (dn t)).

End Contract.

Arguments Scalar {K}. Arguments Partial {K}.
