(* Tensor/Gauge.v — gauge freedom of the contraction value: WITHIN-TENSOR rescaling.
   Every site tensor may be multiplied entry by entry by a product of four one-index factors,
       val' n e s w = fN n * fE e * fS s * fW w * val n e s w,
   different for every site and every index value (the harness uses powers of two 2^g, |g| up to 600, so that
   the entries of ONE tensor span hundreds of binary orders of magnitude).  If on every bond the factors of the
   two ends cancel index by index (fS of the upper site times fN of the lower site = 1 for every index; the
   product over the rows of fE of the left column times fW of the right column = 1 for every index tuple) and the
   factors on the dummy outer legs are 1 at index 0, then the network stays well-shaped, its exact value is
   UNCHANGED, and the model of mps2d.contract returns exactly that value in both sweep directions and for every
   split into partial left and right contractions.  Consequently no correct implementation may discard entries
   of a (merged) site tensor because they are small relative to other entries of the same tensor.
   Generic in the ring of entries, any number of rows and columns, any bond dimensions, None padding. *)
From Coq Require Import List Arith Lia Bool ZArith Ring.
From QV Require Import Tensor.Sums Tensor.Net Tensor.StartStop Tensor.Contract Tensor.Sweep Tensor.Ladder Tensor.Exact Tensor.Noop Tensor.Split.
Import ListNotations.
Local Open Scope nat_scope.

Section Gauge.
Variable K : cring.
Add Ring Kring : (cring_th K).
Local Notation tensor := (tensor K).
Local Notation col := (list (option tensor)).
Local Notation rO := (r0 K).
Local Notation rI := (r1 K).
Local Infix "*" := (rmul K).
Local Notation opc := (@opc K).
Local Notation netop := (@netop K).
Local Notation deo := (deo K).
Local Notation dwo := (dwo K).
Local Notation dso := (dso K).
Local Notation dno := (dno K).
Local Notation hd_dn := (hd_dn K).

(* ---- one factor per index value of each of the four legs ---- *)
Record legfac := mkLF { fN : nat -> K; fE : nat -> K; fS : nat -> K; fW : nat -> K }.
Definition lf1 : legfac := mkLF (fun _ => rI) (fun _ => rI) (fun _ => rI) (fun _ => rI).

Definition gaugeT (g : legfac) (t : tensor) : tensor :=
  mkT (dn t) (de t) (ds t) (dw t) (fun n e s w => fN g n * fE g e * fS g s * fW g w * val t n e s w).
Definition gauge_site (g : legfac) (o : option tensor) : option tensor := option_map (gaugeT g) o.
Fixpoint gauge_col (f : list legfac) (A : col) : col :=
  match A with
  | [] => []
  | o :: A' => gauge_site (hd lf1 f) o :: gauge_col (tl f) A'
  end.
Fixpoint gauge_net (fs : list (list legfac)) (tn : list col) : list col :=
  match tn with
  | [] => []
  | A :: rest => gauge_col (hd [] fs) A :: gauge_net (tl fs) rest
  end.

(* ---- shapes and occupancy are untouched ---- *)
Lemma gauge_site_dn c o : dno (gauge_site c o) = dno o. Proof. destruct o; reflexivity. Qed.
Lemma gauge_site_de c o : deo (gauge_site c o) = deo o. Proof. destruct o; reflexivity. Qed.
Lemma gauge_site_ds c o : dso (gauge_site c o) = dso o. Proof. destruct o; reflexivity. Qed.
Lemma gauge_site_dw c o : dwo (gauge_site c o) = dwo o. Proof. destruct o; reflexivity. Qed.
Lemma gauge_site_some c o : is_some (gauge_site c o) = is_some o. Proof. destruct o; reflexivity. Qed.

Lemma gauge_col_length A : forall f, length (gauge_col f A) = length A.
Proof. induction A as [|o A IH]; intros f; cbn; [reflexivity|]. now rewrite IH. Qed.
Lemma gauge_col_deo A : forall f, map deo (gauge_col f A) = map deo A.
Proof. induction A as [|o A IH]; intros f; cbn [gauge_col map]; [reflexivity|]. now rewrite gauge_site_de, IH. Qed.
Lemma gauge_col_dwo A : forall f, map dwo (gauge_col f A) = map dwo A.
Proof. induction A as [|o A IH]; intros f; cbn [gauge_col map]; [reflexivity|]. now rewrite gauge_site_dw, IH. Qed.
Lemma gauge_col_hd_dn A f : hd_dn (gauge_col f A) = hd_dn A.
Proof. destruct A as [|o A]; cbn; [reflexivity|]. apply gauge_site_dn. Qed.
Lemma gauge_col_vchain A : forall f, vchain K A -> vchain K (gauge_col f A).
Proof.
  induction A as [|x A IH]; intros f H; [exact I|].
  cbn [gauge_col]. destruct A as [|y A'].
  - cbn. auto.
  - cbn [vchain] in H. destruct H as [H1 H2]. cbn [gauge_col vchain]. split.
    + rewrite gauge_site_ds, gauge_site_dn. exact H1.
    + exact (IH (tl f) H2).
Qed.
Lemma gauge_col_posc A : forall f, posc K A -> posc K (gauge_col f A).
Proof.
  induction A as [|x A IH]; intros f H; [exact I|].
  cbn [gauge_col posc] in *. destruct H as [H1 H2]. rewrite gauge_site_dn, gauge_site_ds. split; [exact H1|apply IH; exact H2].
Qed.
Lemma gauge_col_hmatch A : forall B f g, hmatch K A B -> hmatch K (gauge_col f A) (gauge_col g B).
Proof.
  induction A as [|a A IH]; intros [|b B] f g H; cbn in H; try contradiction; [exact I|].
  destruct H as [H1 H2]. cbn [gauge_col hmatch]. rewrite gauge_site_de, gauge_site_dw. split; [exact H1|apply IH; exact H2].
Qed.
Lemma gauge_col_last_ds A : forall f, dso (last (gauge_col f A) None) = dso (last A None).
Proof.
  induction A as [|x A IH]; intros f; [reflexivity|].
  destruct A as [|y A'].
  - cbn. apply gauge_site_ds.
  - change (dso (last (gauge_col (tl f) (y :: A')) None) = dso (last (y :: A') None)). apply IH.
Qed.
Lemma gauge_col_nth_some A : forall f i, is_some (nth i (gauge_col f A) None) = is_some (nth i A None).
Proof.
  induction A as [|x A IH]; intros f i; [destruct i; reflexivity|].
  destruct i as [|i]; cbn [gauge_col nth]; [apply gauge_site_some|apply IH].
Qed.
Lemma gauge_col_colwf r A f : colwf K r A -> colwf K r (gauge_col f A).
Proof.
  intros (L & V & P). repeat split; [rewrite gauge_col_length; exact L|apply gauge_col_vchain; exact V|apply gauge_col_posc; exact P].
Qed.

Lemma gauge_net_hchain tn : forall fs, hchain K tn -> hchain K (gauge_net fs tn).
Proof.
  induction tn as [|A rest IH]; intros fs H; [exact I|].
  destruct rest as [|B rest'].
  - cbn. auto.
  - cbn [hchain] in H. destruct H as [H1 H2]. cbn [gauge_net hchain]. split; [apply gauge_col_hmatch; exact H1|exact (IH (tl fs) H2)].
Qed.
Lemma gauge_net_Forall (P : col -> Prop) :
  (forall f A, P A -> P (gauge_col f A)) -> forall tn fs, Forall P tn -> Forall P (gauge_net fs tn).
Proof.
  intros HP. induction tn as [|A rest IH]; intros fs H; cbn [gauge_net]; [constructor|].
  inversion H; subst. constructor; [apply HP; assumption|apply IH; assumption].
Qed.
Lemma gauge_net_last_deo tn : forall fs, map deo (last (gauge_net fs tn) []) = map deo (last tn []).
Proof.
  induction tn as [|A rest IH]; intros fs; [reflexivity|].
  destruct rest as [|B rest'].
  - cbn. apply gauge_col_deo.
  - change (map deo (last (gauge_net (tl fs) (B :: rest')) []) = map deo (last (B :: rest') [])). apply IH.
Qed.
Lemma gauge_net_occ_row tn i : forall fs, occ_row K (gauge_net fs tn) i = occ_row K tn i.
Proof.
  induction tn as [|A rest IH]; intros fs; [reflexivity|].
  unfold occ_row in *. cbn [gauge_net existsb]. rewrite gauge_col_nth_some. f_equal. apply IH.
Qed.

Theorem gauge_netwf r tn fs : netwf K r tn -> netwf K r (gauge_net fs tn).
Proof.
  intros (Hne & HC & HH & HN & HS & HW & HE & a & b & Hab & Hocc).
  repeat split.
  - destruct tn; [contradiction|discriminate].
  - apply gauge_net_Forall; [|exact HC]. intros f A. apply gauge_col_colwf.
  - apply gauge_net_hchain. exact HH.
  - apply (gauge_net_Forall (fun A => hd_dn A = 1)); [|exact HN]. intros f A HA. rewrite gauge_col_hd_dn. exact HA.
  - apply (gauge_net_Forall (fun A : col => dso (last A None) = 1)); [|exact HS]. intros f A HA. rewrite gauge_col_last_ds. exact HA.
  - destruct tn as [|A rest]; [contradiction|]. cbn [gauge_net hd] in *. rewrite gauge_col_dwo. exact HW.
  - rewrite gauge_net_last_deo. exact HE.
  - exists a, b. split; [exact Hab|]. intros i Hi. rewrite gauge_net_occ_row. apply Hocc. exact Hi.
Qed.


(* ---- the factors a column shows on its open legs ---- *)
(* north leg of the first occupied site (the incoming vertical index passes through empty sites) *)
Fixpoint colN (gs : list legfac) (A : col) (v : nat) : K :=
  match A with
  | [] => rI
  | Some _ :: _ => fN (hd lf1 gs) v
  | None :: A' => colN (tl gs) A' v
  end.
Fixpoint colE (gs : list legfac) (A : col) (es : list nat) : K :=
  match A, es with
  | Some _ :: A', e :: es' => fE (hd lf1 gs) e * colE (tl gs) A' es'
  | None :: A', _ :: es' => colE (tl gs) A' es'
  | _, _ => rI
  end.
Fixpoint colW (gs : list legfac) (A : col) (ws : list nat) : K :=
  match A, ws with
  | Some _ :: A', w :: ws' => fW (hd lf1 gs) w * colW (tl gs) A' ws'
  | None :: A', _ :: ws' => colW (tl gs) A' ws'
  | _, _ => rI
  end.
(* vertical bonds: the south factor of a site cancels the north factor of whatever follows it, index by index
   (after the last site nothing follows: its south factor is 1) *)
Fixpoint vgauge (gs : list legfac) (A : col) : Prop :=
  match A with
  | [] => True
  | Some _ :: A' => (forall s, fS (hd lf1 gs) s * colN (tl gs) A' s = rI) /\ vgauge (tl gs) A'
  | None :: A' => vgauge (tl gs) A'
  end.

Theorem opc_gauge A : forall gs v ws es, vgauge gs A ->
  opc (gauge_col gs A) v ws es = colN gs A v * colE gs A es * colW gs A ws * opc A v ws es.
Proof.
  induction A as [|o A IH]; intros gs v ws es HV.
  - cbn. destruct ws, es; ring.
  - cbn [gauge_col]. destruct o as [T|]; cbn [gauge_site option_map].
    + destruct HV as [HS HV].
      destruct ws as [|w ws]; [cbn; ring|]. destruct es as [|e es]; [cbn; ring|].
      cbn [Net.opc ds val gaugeT colN colE colW].
      transitivity (sumn (ds T) (fun s => (fN (hd lf1 gs) v * (fE (hd lf1 gs) e * colE (tl gs) A es)
                                           * (fW (hd lf1 gs) w * colW (tl gs) A ws)) * (val T v e s w * opc A s ws es))).
      { apply sumn_ext; intros s _. rewrite (IH (tl gs) s ws es HV).
        transitivity ((fS (hd lf1 gs) s * colN (tl gs) A s)
                      * ((fN (hd lf1 gs) v * (fE (hd lf1 gs) e * colE (tl gs) A es) * (fW (hd lf1 gs) w * colW (tl gs) A ws))
                         * (val T v e s w * opc A s ws es))); [ring|].
        rewrite HS. ring. }
      apply sumn_mul_l.
    + cbn [vgauge] in HV.
      destruct ws as [|w ws]; [cbn; ring|]. destruct es as [|e es]; [cbn; ring|].
      cbn [Net.opc colN colE colW]. apply IH. exact HV.
Qed.

(* ---- networks: horizontal bonds cancel column against column, for every index tuple; every column is
   vertically gauged and shows factor 1 at index 0 of its (dummy) north leg ---- *)
Fixpoint hgauge (gss : list (list legfac)) (tn : list col) : Prop :=
  match tn with
  | A :: rest =>
      match rest with
      | B :: _ => (forall mid, colE (hd [] gss) A mid * colW (hd [] (tl gss)) B mid = rI) /\ hgauge (tl gss) rest
      | [] => True
      end
  | [] => True
  end.
Fixpoint cgauge (gss : list (list legfac)) (tn : list col) : Prop :=
  match tn with
  | [] => True
  | A :: rest => (vgauge (hd [] gss) A /\ colN (hd [] gss) A 0 = rI) /\ cgauge (tl gss) rest
  end.
Fixpoint lastE (gss : list (list legfac)) (tn : list col) (es : list nat) : K :=
  match tn with
  | [] => rI
  | A :: rest => match rest with [] => colE (hd [] gss) A es | _ => lastE (tl gss) rest es end
  end.

Theorem netop_gauge tn : forall gss ws es, hgauge gss tn -> cgauge gss tn ->
  netop (gauge_net gss tn) ws es = colW (hd [] gss) (hd [] tn) ws * lastE gss tn es * netop tn ws es.
Proof.
  induction tn as [|A rest IH]; intros gss ws es HH HC.
  - cbn. ring.
  - destruct HC as [[HV HN] HC]. destruct rest as [|B rest'].
    + cbn [gauge_net lastE hd Net.netop]. rewrite (opc_gauge A _ _ _ _ HV), HN. ring.
    + destruct HH as [Hcancel HH].
      change (gauge_net gss (A :: B :: rest')) with (gauge_col (hd [] gss) A :: gauge_net (tl gss) (B :: rest')).
      change (gauge_net (tl gss) (B :: rest')) with (gauge_col (hd [] (tl gss)) B :: gauge_net (tl (tl gss)) rest') at 1.
      rewrite netop_cons.
      change (gauge_col (hd [] (tl gss)) B :: gauge_net (tl (tl gss)) rest') with (gauge_net (tl gss) (B :: rest')).
      rewrite gauge_col_deo, netop_cons.
      change (lastE gss (A :: B :: rest') es) with (lastE (tl gss) (B :: rest') es).
      cbn [hd].
      transitivity (sumt (map deo A) (fun mid => (colW (hd [] gss) A ws * lastE (tl gss) (B :: rest') es)
                                                   * (opc A 0 ws mid * netop (B :: rest') mid es))).
      { apply sumt_ext; intros mid. rewrite (opc_gauge A _ _ _ _ HV), HN, (IH (tl gss) mid es HH HC). cbn [hd].
        transitivity ((colE (hd [] gss) A mid * colW (hd [] (tl gss)) B mid)
                      * ((colW (hd [] gss) A ws * lastE (tl gss) (B :: rest') es) * (opc A 0 ws mid * netop (B :: rest') mid es)));
          [ring|].
        rewrite Hcancel. ring. }
      apply sumt_mul_l.
Qed.

(* the gauge conditions of a whole network: all bonds cancel, outer (dummy) legs carry factor 1 at index 0 *)
Definition gauged (r : nat) (gss : list (list legfac)) (tn : list col) : Prop :=
  hgauge gss tn /\ cgauge gss tn
  /\ colW (hd [] gss) (hd [] tn) (repeat 0 r) = rI /\ lastE gss tn (repeat 0 r) = rI.

Theorem value_gauge r tn gss : gauged r gss tn -> value r (gauge_net gss tn) = value r tn.
Proof.
  intros (HH & HC & HW & HE). unfold value. rewrite (netop_gauge tn gss _ _ HH HC), HW, HE. ring.
Qed.

(* ---- hence: the column sweep of the gauged network returns the value of the ungauged one ---- *)
Theorem sweep_exact_gauged r tn gss : netwf K r tn -> gauged r gss tn ->
  contract K (gauge_net gss tn) None None None None None None = Ok (Scalar (value r tn))
  /\ contract K (gauge_net gss tn) None None None None (Some 1%Z) None = Ok (Scalar (value r tn))
  /\ contract K (gauge_net gss tn) None None None None (Some (-1)%Z) None = Ok (Scalar (value r tn)).
Proof.
  intros Hwf HG. rewrite <- (value_gauge r tn gss HG). apply sweep_exact. apply gauge_netwf. exact Hwf.
Qed.

Lemma gauge_net_length tn : forall fs, length (gauge_net fs tn) = length tn.
Proof. induction tn as [|A rest IH]; intros fs; cbn; [reflexivity|]. now rewrite IH. Qed.


(* ... and so does every split into partial left and right contractions recombined with their multipliers *)
Theorem split_exact_gauged r tn gss c : 0 < c < length tn -> netwf K r tn -> gauged r gss tn ->
  split_contract K (gauge_net gss tn) None None None (Z.of_nat c) = Ok (value r tn).
Proof.
  intros Hc Hwf HG. rewrite <- (value_gauge r tn gss HG).
  pose proof (gauge_netwf r tn gss Hwf) as Hwf'. pose proof (gauge_net_length tn gss) as HL.
  remember (gauge_net gss tn) as tn' eqn:E. clear E.
  rewrite <- (firstn_skipn c tn') in *.
  assert (Hlen : length (firstn c tn') = c) by (rewrite firstn_length; rewrite app_length, firstn_length, skipn_length in HL; lia).
  rewrite <- Hlen at 3. apply split_exact; [| |exact Hwf'].
  - intros E. rewrite E in Hlen. cbn in Hlen. lia.
  - intros E. rewrite E, app_nil_r in HL. lia.
Qed.

End Gauge.

Print Assumptions sweep_exact_gauged.
Print Assumptions split_exact_gauged.

(* ---- non-vacuity: the padded 2 x 3 example network, gauged by signs (the units of Z) on a horizontal and on a
   vertical bond, satisfies [gauged]; the gauged network is a different network with the same value 731 ---- *)
From QV Require Import Tensor.ContractZ Tensor.Examples.
Definition sgZ (i : nat) : Z := if Nat.even i then 1%Z else (-1)%Z.
Lemma sgZ_sq i : (sgZ i * sgZ i = 1)%Z.
Proof. unfold sgZ. destruct (Nat.even i); reflexivity. Qed.
Definition oneZ (_ : nat) : Z := 1%Z.
Definition ex_gauge : list (list (legfac Zring)) :=
  [[mkLF Zring oneZ sgZ oneZ oneZ; lf1 Zring];
   [mkLF Zring oneZ oneZ sgZ sgZ; mkLF Zring sgZ oneZ oneZ oneZ];
   [lf1 Zring; lf1 Zring]].
Lemma ex_gauged : gauged Zring 2 ex_gauge ex_net.
Proof.
  unfold gauged, ex_gauge, ex_net. repeat split; cbn; intros; try reflexivity.
  - destruct mid as [|e [|e' mid]]; cbn; try reflexivity; rewrite ?Z.mul_1_r; apply sgZ_sq.
  - destruct mid as [|e [|e' mid]]; cbn; reflexivity.
  - apply sgZ_sq.
Qed.
Lemma ex_gauge_values :
  valueZ 2 (gauge_net Zring ex_gauge ex_net) = 731%Z
  /\ contractZ (gauge_net Zring ex_gauge ex_net) None None None None (Some (-1)%Z) None = Ok (@Scalar Zring 731%Z)
  /\ val (gaugeT Zring (mkLF Zring oneZ sgZ oneZ oneZ) t00) 0 1 0 0 = 0%Z
  /\ val (gaugeT Zring (mkLF Zring oneZ sgZ oneZ oneZ) t00) 0 1 1 0 = 1%Z
  /\ val t00 0 1 1 0 = (-1)%Z.
Proof. vm_compute. auto. Qed.
