(* Tensor/ContractZ.v — the integer instance of the tensor-network model, run by the extracted
   engine and by the in-kernel shards. *)
From Coq Require Import List ZArith QArith.
From QV Require Import Tensor.Sums Tensor.Net Tensor.StartStop Tensor.Contract Tensor.Sweep Tensor.Exact Tensor.WfCheck.
Import ListNotations.

Definition tensorZ := tensor Zring.
Definition colZ := list (option tensorZ).
Definition mk_tensorZ (a b c d : nat) (l : list (list (list (list Z)))) : tensorZ := tensor_of_list Zring a b c d l.
Definition dimsZ (t : tensorZ) : nat * nat * nat * nat := (dn t, de t, ds t, dw t).
Definition entriesZ (t : tensorZ) : list Z := entries Zring t.
Definition contractZ (tn : list colZ) chi tol start stop step mask : res (cres Zring) :=
  contract Zring tn chi tol start stop step mask.
Definition contract_bondsZ (tn : list colZ) start stop step : list nat := contract_bonds Zring tn start stop step.
Definition valueZ (r : nat) (tn : list colZ) : Z := value (K := Zring) r tn.
Definition inner_productZ (a b : colZ) : res Z := inner_product Zring a b.
Definition contract_pairwiseZ (a b : colZ) : res colZ := contract_pairwise Zring a b.
Definition contract_ladderZ (a : colZ) : res tensorZ := contract_ladder Zring a.
Definition as_scalarZ (t : tensorZ) : res Z := as_scalar Zring t.
Definition transpose_netZ (r : nat) (tn : list colZ) : list colZ := transpose_net Zring r tn.
Definition truncateZ chi tol mask (m : colZ) : res (colZ * Z) := truncate Zring chi tol mask m.
Definition bond_dimensionZ (m : colZ) : nat := bond_dimension Zring m.
Definition start_stop_bools (l : list bool) : option (nat * nat) :=
  start_stop (map (fun b : bool => if b then Some tt else None) l).
Definition split_contractZ (tn : list colZ) chi tol mask c : res Z := split_contract Zring tn chi tol mask c.
Definition netwfbZ (r : nat) (tn : list colZ) : bool := netwfb Zring r tn.
