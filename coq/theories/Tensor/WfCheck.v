(* Tensor/WfCheck.v — a boolean checker for the hypothesis [netwf] of the exactness theorems, with
   its soundness proof; the engine runs it on every generated network, so that the harness can
   report how many of the networks it tested lie inside the theorems' domain. *)
From Coq Require Import List Arith Lia Bool ZArith QArith.
From QV Require Import Tensor.Sums Tensor.Net Tensor.StartStop Tensor.Contract Tensor.Sweep Tensor.Exact.
Import ListNotations.
Local Open Scope nat_scope.

Section WfCheck.
Variable K : cring.
Local Notation tensor := (tensor K).
Local Notation col := (list (option tensor)).

Fixpoint vchainb (A : col) : bool :=
  match A with
  | x :: A' => (match A' with y :: _ => dso K x =? dno K y | [] => true end) && vchainb A'
  | [] => true
  end.
Fixpoint poscb (A : col) : bool :=
  match A with x :: A' => (0 <? dno K x) && (0 <? dso K x) && poscb A' | [] => true end.
Fixpoint hmatchb (A B : col) : bool :=
  match A, B with
  | a :: A', b :: B' => (deo K a =? dwo K b) && hmatchb A' B'
  | [], [] => true
  | _, _ => false
  end.
Fixpoint hchainb (cols : list col) : bool :=
  match cols with
  | A :: rest => (match rest with B :: _ => hmatchb A B | [] => true end) && hchainb rest
  | [] => true
  end.
Definition colwfb (r : nat) (A : col) : bool := (length A =? r) && vchainb A && poscb A.
Definition natlist_eqb (a b : list nat) : bool := if list_eq_dec Nat.eq_dec a b then true else false.
Definition contigb (r : nat) (tn : list col) : bool :=
  match start_stop (map (fun i => if occ_row K tn i then Some tt else None) (seq 0 r)) with
  | Some (a, b) => a <? b
  | None => false
  end.
Definition netwfb (r : nat) (tn : list col) : bool :=
  match tn with [] => false | _ => true end
  && forallb (colwfb r) tn && hchainb tn
  && forallb (fun A => hd_dn K A =? 1) tn && forallb (fun A : col => dso K (last A None) =? 1) tn
  && natlist_eqb (map (dwo K) (hd [] tn)) (repeat 1 r) && natlist_eqb (map (deo K) (last tn [])) (repeat 1 r)
  && contigb r tn.

Lemma vchainb_sound A : vchainb A = true -> vchain K A.
Proof.
  induction A as [|x A IH]; cbn [vchainb vchain]; [auto|]. intros H. apply andb_prop in H. destruct H as [H1 H2].
  split; [|auto]. destruct A; [exact I|]. apply Nat.eqb_eq. exact H1.
Qed.
Lemma poscb_sound A : poscb A = true -> posc K A.
Proof.
  induction A as [|x A IH]; cbn [poscb posc]; [auto|]. intros H. apply andb_prop in H. destruct H as [H H3].
  apply andb_prop in H. destruct H as [H1 H2]. apply Nat.ltb_lt in H1, H2. auto.
Qed.
Lemma hmatchb_sound A : forall B, hmatchb A B = true -> hmatch K A B.
Proof.
  induction A as [|a A IH]; intros [|b B]; cbn [hmatchb hmatch]; try discriminate; auto.
  intros H. apply andb_prop in H. destruct H as [H1 H2]. apply Nat.eqb_eq in H1. auto.
Qed.
Lemma hchainb_sound l : hchainb l = true -> hchain K l.
Proof.
  induction l as [|A l IH]; [cbn; auto|]. intros H.
  change ((match l with B :: _ => hmatchb A B | [] => true end) && hchainb l = true) in H.
  change (match l with B :: _ => hmatch K A B | [] => True end /\ hchain K l).
  apply andb_prop in H. destruct H as [H1 H2].
  split; [|auto]. destruct l; [exact I|]. apply hmatchb_sound. exact H1.
Qed.
Lemma natlist_eqb_sound a b : natlist_eqb a b = true -> a = b.
Proof. unfold natlist_eqb. destruct (list_eq_dec Nat.eq_dec a b); [auto|discriminate]. Qed.

Theorem netwfb_sound r tn : netwfb r tn = true -> netwf K r tn.
Proof.
  unfold netwfb, netwf. intros H.
  apply andb_prop in H; destruct H as [H H6]. apply andb_prop in H; destruct H as [H H0].
  apply andb_prop in H; destruct H as [H H1]. apply andb_prop in H; destruct H as [H H2].
  apply andb_prop in H; destruct H as [H H3]. apply andb_prop in H; destruct H as [H H4].
  apply andb_prop in H; destruct H as [H H5].
  split. { destruct tn; [discriminate|discriminate]. }
  split. { apply Forall_forall. intros A HA. rewrite forallb_forall in H5. specialize (H5 A HA).
           unfold colwfb in H5. apply andb_prop in H5. destruct H5 as [H5 Hp]. apply andb_prop in H5. destruct H5 as [Hl Hv].
           repeat split; [apply Nat.eqb_eq; exact Hl|apply vchainb_sound; exact Hv|apply poscb_sound; exact Hp]. }
  split. { apply hchainb_sound. exact H4. }
  split. { apply Forall_forall. intros A HA. rewrite forallb_forall in H3. apply Nat.eqb_eq. apply H3. exact HA. }
  split. { apply Forall_forall. intros A HA. rewrite forallb_forall in H2. apply Nat.eqb_eq. apply (H2 A HA). }
  split. { apply natlist_eqb_sound. exact H1. }
  split. { apply natlist_eqb_sound. exact H0. }
  unfold contigb in H6.
  destruct (start_stop _) as [[a b]|] eqn:E; [|discriminate].
  apply start_stop_sound in E. destruct E as [Hab E]. rewrite map_length, seq_length in Hab, E.
  exists a, b. apply Nat.ltb_lt in H6. split; [lia|]. intros i Hi. rewrite <- (E i Hi).
  rewrite (nth_indep _ None (if occ_row K tn 0 then Some tt else None)) by (rewrite map_length, seq_length; exact Hi).
  change (if occ_row K tn 0 then Some tt else None) with ((fun i => if occ_row K tn i then Some tt else None) 0).
  rewrite map_nth. rewrite seq_nth by exact Hi. cbn [Nat.add]. destruct (occ_row K tn i); cbn; split; auto.
Qed.
End WfCheck.
