(* Tensor/NormalizerCounting.v — the code-independent counting step of c10_four_cosets.

   [FourCosets.normalizer_counting_statement]: for EVERY stabilizer code with one logical qubit (n - 1 independent,
   pairwise commuting generators of length 2n, a logical pair lx, lz commuting with them and anticommuting with each
   other) every operator commuting with all generators is a product of generators and logicals.  Hence
   [FourCosets.four_cosets_statement] holds for every such code, not only for the lattice families.

   The proof is GF(2) linear algebra on bit vectors, with no enumeration of a particular code:
   * [dot_nondegenerate], [bsp_nondegenerate]   a non-zero vector has a non-zero product with some vector;
   * [dot_separation], [bsp_separation]         a vector outside the span of a family G is separated from it by a
                                                functional: some w is orthogonal to G and not to the vector
                                                (induction on G; no dimension argument);
   * [syndrome_onto], [destabilizers_exist]     for an independent family the syndrome map is onto, and there are
                                                destabilizers d_i with d_i . g_j = [i = j];
   * [full_rank_spans]                          N independent vectors of length N span everything (counting:
                                                2^N distinct combinations among 2^N vectors);
   * [perp_span]                                rank-nullity in the form needed: if G is independent, F is independent
                                                and orthogonal to G, and |F| + |G| = N, then the orthogonal complement
                                                of G is exactly the span of F (induction on G, peeling one generator
                                                at a time with a separating vector; base case [full_rank_spans]);
   * [exchange_lemma]                           an independent family of d vectors inside a list of
                                                at most 2^d vectors spans every member of the list;
   * [logicals_independent]                     generators and the logical pair are independent;
   * [normalizer_counting_all], [four_cosets_all], [centralizer_all]   the statements for one logical qubit;
   * [k1_certificate_all], [four_cosets_conclusion_all]   the same in the vocabulary of Tensor/FourCosetsLattice.v, so
                                                that the K1Family theorems there apply to every code;
   * [klogicals_independent], [kcentralizer_all], [kk_certificate_all], [knormalizer_spanned_all] and the
     [kcosets_*_all] corollaries                the same for k logical qubits (n - k generators, 4^k cosets);
   * [valid_code_kcosets_premises], [kcosets_check_sound], [four_cosets_of_check], [normalizer_spanned_of_check]
                                                the premises from Core.Code.validate (model of StabilizerCode.validate)
                                                plus an independence certificate: a boolean check per code;
   * Examples: qecsim's FiveQubitCode (not CSS) and SteaneCode, the [[4,2,2]] code (k = 2).
   Nothing is left as a _statement: [normalizer_counting_statement] and [four_cosets_statement] are proved. *)
From Coq Require Import List Arith Lia Bool.
From QV Require Import Core.Bits Core.Pauli Core.Symp Core.Code Core.Span Core.Rank
  Tensor.Coset Tensor.FourCosets Tensor.FourCosetsLattice.
Import ListNotations.
Local Open Scope nat_scope.

(* ================================================================== *)
(** * 1. Non-degeneracy of the dot product and of the symplectic form   *)
(* ================================================================== *)
Lemma zeros_app a b : zeros (a + b) = zeros a ++ zeros b.
Proof. unfold zeros. apply repeat_app. Qed.
Lemma zero_or_witness t : t = zeros (length t) \/ exists w, length w = length t /\ dot t w = true.
Proof.
  induction t as [|x t IH]; [left; reflexivity|]. destruct x.
  - right. exists (true :: zeros (length t)). split; [cbn [length]; now rewrite zeros_length|].
    cbn [dot andb]. now rewrite dot_zeros_r.
  - destruct IH as [E|(w & Lw & Hw)].
    + left. cbn [length]. change (zeros (S (length t))) with (false :: zeros (length t)). now rewrite <- E.
    + right. exists (false :: w). split; [cbn [length]; now rewrite Lw|]. cbn [dot andb]. now rewrite Hw.
Qed.
Theorem dot_nondegenerate t : t <> zeros (length t) -> exists w, length w = length t /\ dot t w = true.
Proof. intros Ht. destruct (zero_or_witness t) as [E|H]; [contradiction|exact H]. Qed.

(* swap_halves is a length-preserving involution on vectors of even length *)
Lemma swap_halves_length a : Nat.even (length a) = true -> length (swap_halves a) = length a.
Proof.
  intros Hev. destruct (halves_lengths a Hev) as [_ HA]. unfold swap_halves.
  destruct (halves a) as [a1 a2]. cbn [fst snd] in HA. rewrite <- HA, !app_length. lia.
Qed.
Lemma swap_halves_invol a : Nat.even (length a) = true -> swap_halves (swap_halves a) = a.
Proof.
  intros Hev. destruct (halves_lengths a Hev) as [HL HA]. unfold swap_halves at 2.
  destruct (halves a) as [a1 a2]. cbn [fst snd] in HL, HA. unfold swap_halves.
  rewrite halves_app by (symmetry; exact HL). exact HA.
Qed.
Lemma bsp_swap_l w t : Nat.even (length w) = true -> bsp (swap_halves w) t = dot w t.
Proof. intros Hev. unfold bsp. now rewrite swap_halves_invol. Qed.

Lemma bsp_zeros_l N g : bsp (zeros N) g = false.
Proof. rewrite <- (xorv_zz N). rewrite bsp_linear_l by reflexivity. apply xorb_nilpotent. Qed.
Lemma bsp_zeros_r N t : bsp t (zeros N) = false.
Proof. unfold bsp. apply dot_zeros_r. Qed.

Theorem bsp_nondegenerate t : Nat.even (length t) = true -> t <> zeros (length t) ->
  exists w, length w = length t /\ bsp w t = true.
Proof.
  intros Hev Ht. destruct (dot_nondegenerate t Ht) as (w & Lw & Hw).
  assert (Hevw : Nat.even (length w) = true) by now rewrite Lw.
  exists (swap_halves w). split; [rewrite swap_halves_length; auto|].
  rewrite bsp_swap_l by exact Hevw. now rewrite dot_comm.
Qed.

(* the witness can be taken to be a unit vector *)
Lemma dot_unit_from t : forall s i,
  dot t (map (fun j => j =? i) (seq s (length t))) = if s <=? i then nth (i - s) t false else false.
Proof.
  induction t as [|x t IH]; intros s i; cbn [length seq map dot].
  - destruct (s <=? i), (i - s); reflexivity.
  - rewrite IH. destruct (Nat.eqb_spec s i) as [->|Hne].
    + rewrite Nat.leb_refl, Nat.sub_diag. cbn [nth]. replace (S i <=? i) with false by (symmetry; apply Nat.leb_gt; lia).
      now rewrite andb_true_r, xorb_false_r.
    + rewrite andb_false_r, xorb_false_l. destruct (Nat.leb_spec s i) as [Hle|Hgt].
      * replace (S s <=? i) with true by (symmetry; apply Nat.leb_le; lia).
        replace (i - s) with (S (i - S s)) by lia. reflexivity.
      * replace (S s <=? i) with false by (symmetry; apply Nat.leb_gt; lia). reflexivity.
Qed.
Lemma dot_unit_vec t i : dot t (unit_vec (length t) i) = nth i t false.
Proof. unfold unit_vec. rewrite dot_unit_from. cbn [Nat.leb]. now rewrite Nat.sub_0_r. Qed.
Lemma nonzero_has_true t : t <> zeros (length t) -> exists i, i < length t /\ nth i t false = true.
Proof.
  induction t as [|x t IH]; intros Ht; [exfalso; now apply Ht|]. destruct x.
  - exists 0. split; [cbn [length]; lia|reflexivity].
  - destruct IH as (i & Hi & Ei).
    + intros E. apply Ht. cbn [length]. change (zeros (S (length t))) with (false :: zeros (length t)). now rewrite <- E.
    + exists (S i). split; [cbn [length]; lia|exact Ei].
Qed.
Lemma swap_halves_zeros N : Nat.even N = true -> swap_halves (zeros N) = zeros N.
Proof.
  intros Hev. apply Nat.even_spec in Hev. destruct Hev as [m ->]. replace (2 * m) with (m + m) by lia.
  rewrite zeros_app. unfold swap_halves. rewrite halves_app by now rewrite !zeros_length. reflexivity.
Qed.
Theorem bsp_nondegenerate_unit e : Nat.even (length e) = true -> e <> zeros (length e) ->
  exists i, i < length e /\ bsp e (unit_vec (length e) i) = true.
Proof.
  intros Hev He. pose proof (swap_halves_length e Hev) as Ls.
  destruct (nonzero_has_true (swap_halves e)) as (i & Hi & Ei).
  - rewrite Ls. intros E. apply He. transitivity (swap_halves (swap_halves e)); [symmetry; now apply swap_halves_invol|].
    rewrite E. now apply swap_halves_zeros.
  - exists i. split; [congruence|]. unfold bsp. rewrite <- Ls. now rewrite dot_unit_vec.
Qed.

(* ================================================================== *)
(** * 2. Separation: a vector outside a span is detected by a functional *)
(* ================================================================== *)
Theorem dot_separation N : forall G, rowlen N G -> forall t, length t = N ->
  in_spanP N G t \/ exists w, length w = N /\ (forall g, In g G -> dot g w = false) /\ dot t w = true.
Proof.
  induction G as [|g G IH]; intros HG t Lt.
  - destruct (zero_or_witness t) as [E|(w & Lw & Hw)].
    + left. exists []. split; [reflexivity|]. cbn [lincomb]. rewrite E, Lt. reflexivity.
    + right. exists w. split; [congruence|]. split; [intros g []|exact Hw].
  - pose proof (Forall_inv HG) as Lg. pose proof (Forall_inv_tail HG) as HG'. cbn beta in Lg.
    destruct (IH HG' t Lt) as [(cs & Lcs & E)|(w & Lw & Hw & Htw)].
    { left. exists (false :: cs). split; [cbn [length]; lia|exact E]. }
    destruct (dot g w) eqn:Egw.
    2:{ right. exists w. split; [exact Lw|]. split; [|exact Htw]. intros h [<-|Hh]; [exact Egw|now apply Hw]. }
    assert (Ltg : length (xorv t g) = N) by (rewrite xorv_length; congruence).
    destruct (IH HG' (xorv t g) Ltg) as [(cs & Lcs & E)|(w' & Lw' & Hw' & Htw')].
    { left. exists (true :: cs). split; [cbn [length]; lia|]. cbn [lincomb]. rewrite E.
      rewrite (xorv_comm t g). apply xorv_cancel_l. congruence. }
    rewrite dot_xorv_l in Htw' by congruence.
    destruct (dot g w') eqn:Egw'.
    2:{ right. exists w'. split; [exact Lw'|]. split.
        - intros h [<-|Hh]; [exact Egw'|now apply Hw'].
        - now rewrite xorb_false_r in Htw'. }
    right. exists (xorv w w'). split; [rewrite xorv_length; congruence|]. split.
    + intros h [<-|Hh]; rewrite dot_xorv_r by congruence.
      * now rewrite Egw, Egw'.
      * now rewrite Hw, Hw'.
    + rewrite dot_xorv_r by congruence. rewrite Htw. destruct (dot t w'); [discriminate|reflexivity].
Qed.

Section Symplectic.
Variable N : nat.
Hypothesis Neven : Nat.even N = true.

Theorem bsp_separation G t : rowlen N G -> length t = N ->
  in_spanP N G t \/ exists w, length w = N /\ (forall g, In g G -> bsp w g = false) /\ bsp w t = true.
Proof.
  intros HG Lt. destruct (dot_separation N G HG t Lt) as [H|(w & Lw & Hw & Htw)]; [left; exact H|right].
  assert (Hevw : Nat.even (length w) = true) by now rewrite Lw.
  exists (swap_halves w). split; [rewrite swap_halves_length; auto|]. split.
  - intros g Hg. rewrite bsp_swap_l by exact Hevw. rewrite dot_comm. now apply Hw.
  - rewrite bsp_swap_l by exact Hevw. now rewrite dot_comm.
Qed.

(* the head of an independent family is not in the span of the tail *)
Lemma independent_head_notin g G : independent N (g :: G) -> length g = N -> ~ in_spanP N G g.
Proof.
  intros HI Lg (cs & L & E). specialize (HI (true :: cs)). cbn [length lincomb] in HI.
  rewrite E, xorv_self, Lg in HI. specialize (HI ltac:(lia) eq_refl). discriminate.
Qed.

(* a combination of vectors orthogonal to g is orthogonal to g *)
Lemma bsp_lincomb_orth F g : rowlen N F -> (forall f, In f F -> bsp f g = false) ->
  forall cs, bsp (lincomb N cs F) g = false.
Proof.
  intros HF. induction HF as [|f F Lf HF IH]; intros Ho cs.
  - destruct cs; cbn [lincomb]; apply bsp_zeros_l.
  - destruct cs as [|c cs]; cbn [lincomb]; [apply bsp_zeros_l|].
    assert (IH' : bsp (lincomb N cs F) g = false) by (apply IH; intros h Hh; apply Ho; right; exact Hh).
    destruct c; [|exact IH'].
    rewrite bsp_linear_l by (rewrite lincomb_length; auto). rewrite IH', Ho by (left; reflexivity). reflexivity.
Qed.

(* ---- the syndrome map of an independent family is onto; destabilizers ---- *)
Theorem syndrome_onto : forall G, rowlen N G -> independent N G ->
  forall s, length s = length G -> exists u, length u = N /\ syndrome_of G u = s.
Proof.
  induction G as [|g G IH]; intros HG HI s Ls.
  - destruct s; [|discriminate]. exists (zeros N). split; [apply zeros_length|reflexivity].
  - destruct s as [|s0 s]; [discriminate|]. cbn [length] in Ls. assert (Ls' : length s = length G) by lia.
    pose proof (Forall_inv HG) as Lg. pose proof (Forall_inv_tail HG) as HG'. cbn beta in Lg.
    destruct (IH HG' (independent_tl N g G HI) s ltac:(lia)) as (u & Lu & Eu).
    destruct (bsp_separation G g HG' Lg) as [Hin|(w & Lw & Hw & Hwg)];
      [exfalso; exact (independent_head_notin g G HI Lg Hin)|].
    assert (Ew : syndrome_of G w = zeros (length G)).
    { unfold syndrome_of. apply map_false_zeros. exact Hw. }
    destruct (Bool.eqb s0 (bsp u g)) eqn:E0.
    + apply eqb_prop in E0. exists u. split; [exact Lu|]. cbn [syndrome_of map]. fold (syndrome_of G u). now rewrite Eu, E0.
    + exists (xorv u w). split; [rewrite xorv_length; congruence|]. cbn [syndrome_of map]. fold (syndrome_of G (xorv u w)).
      rewrite syndrome_xorv by congruence. rewrite Eu, Ew. rewrite <- Ls'. rewrite xorv_zeros_r.
      rewrite bsp_linear_l by congruence. rewrite Hwg. f_equal.
      destruct s0, (bsp u g); cbn in *; congruence.
Qed.

Theorem destabilizers_exist G : rowlen N G -> independent N G ->
  exists D, rowlen N D /\ length D = length G /\
    forall i j, i < length G -> j < length G -> bsp (nth i D []) (nth j G []) = (i =? j).
Proof.
  intros HG HI. set (m := length G).
  assert (H : forall k, k <= m -> exists D, rowlen N D /\ length D = k /\
            forall i j, i < k -> j < m -> bsp (nth i D []) (nth j G []) = (i =? j)).
  { induction k as [|k IHk]; intros Hk.
    - exists []. split; [constructor|]. split; [reflexivity|]. intros i j Hi; lia.
    - destruct (IHk ltac:(lia)) as (D & HD & LD & Hdual).
      destruct (syndrome_onto G HG HI (unit_vec m k)) as (u & Lu & Eu).
      { unfold unit_vec. now rewrite map_length, seq_length. }
      exists (D ++ [u]). split; [apply Forall_app; split; [exact HD|repeat constructor; exact Lu]|].
      split; [rewrite app_length; cbn [length]; lia|].
      intros i j Hi Hj. destruct (Nat.eq_dec i k) as [->|Hne].
      + rewrite app_nth2 by lia. rewrite LD, Nat.sub_diag. cbn [nth].
        assert (E : nth j (syndrome_of G u) false = bsp u (nth j G [])).
        { unfold syndrome_of. apply (nth_map_in _ _ _ _ []). exact Hj. }
        rewrite <- E, Eu. unfold unit_vec. rewrite (nth_map_in _ _ _ _ 0) by (rewrite seq_length; exact Hj).
        rewrite seq_nth by exact Hj. apply Nat.eqb_sym.
      + rewrite app_nth1 by lia. apply Hdual; lia. }
  destruct (H m (le_n m)) as (D & HD & LD & Hdual). exists D. split; [exact HD|]. split; [exact LD|].
  intros i j Hi Hj. now apply Hdual.
Qed.

(* ================================================================== *)
(** * 3. Counting                                                       *)
(* ================================================================== *)
(* an independent family of d vectors inside a list of at most 2^d vectors spans the list *)
Theorem exchange_lemma B (L : list bsf) : rowlen N B -> independent N B ->
  (forall v, in_spanP N B v -> In v L) -> length L <= 2 ^ length B ->
  forall t, In t L -> in_spanP N B t.
Proof.
  intros HB HI Hin Hlen t Ht. apply span_list_iff.
  assert (Hnd : NoDup (span_list N B)) by (apply span_nodup; [exact HB|now apply indep_of_independent_rows]).
  assert (Hincl : incl (span_list N B) L) by (intros v Hv; apply Hin; now apply span_list_iff).
  assert (Hl : length L <= length (span_list N B)) by now rewrite span_count.
  exact (NoDup_length_incl Hnd Hl Hincl t Ht).
Qed.

(* N independent vectors of length N span the whole space *)
Theorem full_rank_spans B : rowlen N B -> independent N B -> length B = N ->
  forall t, length t = N -> in_spanP N B t.
Proof.
  intros HB HI LB t Lt. apply (exchange_lemma B (allv N) HB HI).
  - intros v (cs & _ & <-). apply allv_spec. now apply lincomb_length.
  - rewrite allv_length, LB. lia.
  - now apply allv_spec.
Qed.

(* rank-nullity: F independent, orthogonal to the independent family G, |F| + |G| = N: then F spans the
   orthogonal complement of G *)
Theorem perp_span : forall G F, rowlen N G -> rowlen N F -> independent N G -> independent N F ->
  length F + length G = N -> (forall f g, In f F -> In g G -> bsp f g = false) ->
  forall t, length t = N -> (forall g, In g G -> bsp t g = false) -> in_spanP N F t.
Proof.
  induction G as [|g G IH]; intros F HG HF IG IF HL Horth t Lt Ht.
  - apply full_rank_spans; auto. cbn [length] in HL. lia.
  - pose proof (Forall_inv HG) as Lg. pose proof (Forall_inv_tail HG) as HG'. cbn beta in Lg.
    destruct (bsp_separation G g HG' Lg) as [Hin|(w & Lw & Hw & Hwg)];
      [exfalso; exact (independent_head_notin g G IG Lg Hin)|].
    assert (HFg : forall cs, bsp (lincomb N cs F) g = false).
    { apply bsp_lincomb_orth; [exact HF|]. intros f Hf. apply Horth; [exact Hf|left; reflexivity]. }
    assert (Hpeel : forall a cs, bsp (lincomb N (a :: cs) (w :: F)) g = false -> a = false).
    { intros a cs H. destruct a; [|reflexivity]. cbn [lincomb] in H.
      rewrite bsp_linear_l in H by (rewrite lincomb_length; auto). rewrite Hwg, HFg in H. discriminate. }
    assert (Hspan : in_spanP N (w :: F) t).
    { apply (IH (w :: F)); auto.
      - constructor; assumption.
      - eapply independent_tl; exact IG.
      - intros cs Lcs E. destruct cs as [|a cs]; [discriminate|]. cbn [length] in Lcs.
        assert (Ha : a = false) by (apply (Hpeel a cs); rewrite E; apply bsp_zeros_l). subst a.
        cbn [lincomb] in E. cbn [length]. change (zeros (S (length F))) with (false :: zeros (length F)).
        f_equal. apply IF; [lia|exact E].
      - cbn [length] in *. lia.
      - intros f h [<-|Hf] Hh; [now apply Hw|]. apply Horth; [exact Hf|right; exact Hh].
      - intros h Hh. apply Ht. right. exact Hh. }
    destruct Hspan as (cs & Lcs & E). destruct cs as [|a cs]; [discriminate|]. cbn [length] in Lcs.
    assert (Ha : a = false) by (apply (Hpeel a cs); rewrite E; apply Ht; left; reflexivity). subst a.
    exists cs. split; [lia|exact E].
Qed.

End Symplectic.

(* ================================================================== *)
(** * 4. Independence of generators and logicals                        *)
(* ================================================================== *)
(* a family L with a dual family D (L_i . D_j = [i = j]) that is orthogonal to the independent family G
   extends G to an independent family *)
Theorem dual_extend_independent N (Neven : Nat.even N = true) G L D :
  rowlen N G -> rowlen N L -> rowlen N D -> length D = length L -> independent N G ->
  (forall g d, In g G -> In d D -> bsp g d = false) ->
  (forall i j, i < length L -> j < length L -> bsp (nth i L []) (nth j D []) = (i =? j)) ->
  independent N (G ++ L).
Proof.
  intros HG HLl HD LD IG Horth Hdual cs Lcs E.
  rewrite app_length in Lcs.
  rewrite <- (firstn_skipn (length G) cs) in E |- *.
  set (c1 := firstn (length G) cs) in *. set (c2 := skipn (length G) cs) in *.
  assert (L1 : length c1 = length G) by (unfold c1; rewrite firstn_length; lia).
  assert (L2 : length c2 = length L) by (unfold c2; rewrite skipn_length; lia).
  rewrite (lincomb_app N) in E by auto.
  set (sg := lincomb N c1 G) in *. set (sl := lincomb N c2 L) in *.
  assert (Lsg : length sg = N) by (apply lincomb_length; exact HG).
  assert (Lsl : length sl = N) by (apply lincomb_length; exact HLl).
  assert (Hc2 : forall j, j < length L -> nth j c2 false = false).
  { intros j Hj. set (d := nth j D []).
    assert (Hd : In d D) by (apply nth_In; lia).
    pose proof (proj1 (Forall_forall _ _) HD d Hd) as Ld.
    assert (H0 : bsp (xorv sg sl) d = false) by (rewrite E; apply bsp_zeros_l).
    rewrite bsp_linear_l in H0 by congruence.
    assert (Hsg : bsp sg d = false).
    { unfold sg. rewrite (bsp_lincomb_l N Neven) by auto. apply csum_all_false. intros v Hv.
      apply in_map_iff in Hv. destruct Hv as (g & <- & Hg). now apply Horth. }
    assert (Hsl : bsp sl d = nth j c2 false).
    { unfold sl. rewrite (bsp_lincomb_l N Neven) by auto. apply csum_unit; [rewrite map_length; congruence|].
      intros s Hs. rewrite L2 in Hs. rewrite (nth_map_in _ _ _ _ []) by exact Hs.
      unfold d. rewrite Hdual by assumption. apply Nat.eqb_sym. }
    rewrite Hsg, Hsl, xorb_false_l in H0. exact H0. }
  assert (Ec2 : c2 = zeros (length L)).
  { apply (nth_ext _ _ false false); [now rewrite zeros_length|].
    intros j Hj. unfold zeros. rewrite nth_repeat. apply Hc2. lia. }
  assert (Esl : sl = zeros N) by (unfold sl; rewrite Ec2; apply lincomb_zeros).
  rewrite Esl in E. rewrite <- Lsg in E at 1. rewrite xorv_zeros_r in E.
  rewrite (IG c1 L1 E), Ec2. rewrite app_length. symmetry. apply zeros_app.
Qed.

(* one logical qubit: generators, lx, lz *)
Theorem logicals_independent n gens lx lz :
  rowlen (n + n) (lx :: lz :: gens) -> independent (n + n) gens ->
  (forall g, In g gens -> bsp lx g = false /\ bsp lz g = false) -> bsp lx lz = true ->
  independent (n + n) (gens ++ [lx; lz]).
Proof.
  intros HL HI Hl Hxz.
  pose proof (Forall_inv HL) as Lx. pose proof (Forall_inv_tail HL) as HL1.
  pose proof (Forall_inv HL1) as Lz. pose proof (Forall_inv_tail HL1) as Lg. cbn beta in Lx, Lz.
  pose proof (even_double n) as Ev.
  assert (Hzx : bsp lz lx = true) by (rewrite bsp_sym by (rewrite ?Lz; auto; congruence); exact Hxz).
  apply (dual_extend_independent (n + n) Ev gens [lx; lz] [lz; lx]); auto.
  - repeat constructor; assumption.
  - repeat constructor; assumption.
  - intros g d Hg Hd. pose proof (proj1 (Forall_forall _ _) Lg g Hg) as Lgg.
    destruct Hd as [<-|[<-|[]]]; rewrite bsp_sym by (rewrite ?Lgg; auto; congruence); now apply Hl.
  - intros i j Hi Hj. cbn [length] in Hi, Hj.
    destruct i as [|[|i]]; destruct j as [|[|j]]; try lia; cbn [nth Nat.eqb]; auto;
      apply bsp_self_zero; rewrite ?Lx, ?Lz; exact Ev.
Qed.

(* ================================================================== *)
(** * 5. The counting statement and the four cosets, every code with one logical qubit *)
(* ================================================================== *)
Theorem normalizer_counting_all : normalizer_counting_statement.
Proof.
  intros n gens lx lz HL HI Hm Hgg Hl Hxz t Lt Ht.
  pose proof (Forall_inv HL) as Lx. pose proof (Forall_inv_tail HL) as HL1.
  pose proof (Forall_inv HL1) as Lz. pose proof (Forall_inv_tail HL1) as Lg. cbn beta in Lx, Lz.
  apply (perp_span (n + n) (even_double n) gens (gens ++ [lx; lz])); auto.
  - apply Forall_app. split; [exact Lg|repeat constructor; assumption].
  - now apply logicals_independent.
  - rewrite app_length. cbn [length]. lia.
  - intros f g Hf Hg. apply in_app_or in Hf. destruct Hf as [Hf|[<-|[<-|[]]]]; [now apply Hgg| |]; now apply Hl.
Qed.

Theorem four_cosets_all : four_cosets_statement.
Proof. exact (four_cosets_of_counting normalizer_counting_all). Qed.

(* the centralizer form: what commutes with the generators and with both logicals is a product of generators *)
Theorem centralizer_all n gens lx lz :
  rowlen (n + n) (lx :: lz :: gens) -> independent (n + n) gens -> S (length gens) = n ->
  (forall g h, In g gens -> In h gens -> bsp g h = false) ->
  (forall g, In g gens -> bsp lx g = false /\ bsp lz g = false) -> bsp lx lz = true ->
  forall t, length t = n + n -> (forall g, In g gens -> bsp t g = false) ->
    bsp t lx = false -> bsp t lz = false -> in_spanP (n + n) gens t.
Proof.
  intros HL HI Hm Hgg Hl Hxz t Lt Ht Htx Htz.
  pose proof (Forall_inv HL) as Lx. pose proof (Forall_inv_tail HL) as HL1.
  pose proof (Forall_inv HL1) as Lz. pose proof (Forall_inv_tail HL1) as Lg. cbn beta in Lx, Lz.
  pose proof (even_double n) as Ev.
  apply (perp_span (n + n) Ev (gens ++ [lx; lz]) gens); auto.
  - apply Forall_app. split; [exact Lg|repeat constructor; assumption].
  - now apply logicals_independent.
  - rewrite app_length. cbn [length]. lia.
  - intros f g Hf Hg. pose proof (proj1 (Forall_forall _ _) Lg f Hf) as Lf.
    apply in_app_or in Hg. destruct Hg as [Hg|[<-|[<-|[]]]]; [now apply Hgg| |];
      rewrite bsp_sym by (rewrite ?Lf; auto; congruence); now apply Hl.
  - intros g Hg. apply in_app_or in Hg. destruct Hg as [Hg|[<-|[<-|[]]]]; auto.
Qed.

(* in the vocabulary of Tensor/FourCosetsLattice.v: the premises of [four_cosets_statement] alone give the
   certificate from which the K1Family theorems (label of the coset, total probability, ...) follow *)
Theorem k1_certificate_all n gens lx lz : four_cosets_premises n gens lx lz -> k1_certificate n gens lx lz.
Proof.
  intros P. split; [exact P|]. destruct P as (HL & HI & Hm & Hgg & Hl & Hxz). now apply centralizer_all.
Qed.
Theorem four_cosets_conclusion_all n gens lx lz : four_cosets_premises n gens lx lz -> four_cosets_conclusion n gens lx lz.
Proof. apply (proj1 four_cosets_statement_unfold four_cosets_all). Qed.

(* ================================================================== *)
(** * 6. k logical qubits                                               *)
(* ================================================================== *)
(* n - k independent commuting generators, k logical X's and k logical Z's in canonical form *)
Definition kcosets_premises (n : nat) (gens lxs lzs : list bsf) : Prop :=
  rowlen (n + n) gens /\ rowlen (n + n) lxs /\ rowlen (n + n) lzs /\ length lzs = length lxs /\
  independent (n + n) gens /\ length gens + length lxs = n /\
  (forall g h, In g gens -> In h gens -> bsp g h = false) /\
  (forall l g, In l (lxs ++ lzs) -> In g gens -> bsp l g = false) /\ canonical lxs lzs.

(* the canonical relations say that Z's ++ X's is the dual family of X's ++ Z's *)
Lemma canonical_dual lxs lzs : length lzs = length lxs -> canonical lxs lzs ->
  forall i j, i < length (lxs ++ lzs) -> j < length (lxs ++ lzs) ->
    bsp (nth i (lxs ++ lzs) []) (nth j (lzs ++ lxs) []) = (i =? j).
Proof.
  intros Hk Hc i j. rewrite app_length, Hk. set (k := length lxs) in *. intros Hi Hj.
  destruct (lt_dec i k) as [Hik|Hik]; destruct (lt_dec j k) as [Hjk|Hjk].
  - rewrite !app_nth1 by (fold k; lia). apply (Hc i j); assumption.
  - rewrite app_nth1 by (fold k; lia). rewrite app_nth2 by lia. rewrite Hk.
    replace (i =? j) with false by (symmetry; apply Nat.eqb_neq; lia). apply (Hc i (j - k)); fold k; lia.
  - rewrite app_nth2 by (fold k; lia). rewrite app_nth1 by lia.
    replace (i =? j) with false by (symmetry; apply Nat.eqb_neq; lia). apply (Hc (i - k) j); fold k; lia.
  - rewrite !app_nth2 by (fold k; lia). rewrite Hk. fold k.
    replace (i =? j) with (i - k =? j - k).
    + apply (Hc (i - k) (j - k)); fold k; lia.
    + destruct (Nat.eqb_spec (i - k) (j - k)), (Nat.eqb_spec i j); auto; lia.
Qed.

Section KAll.
Variable n : nat.
Local Notation N := (n + n).
Variables (gens lxs lzs : list bsf).
Hypothesis prem : kcosets_premises n gens lxs lzs.
Local Notation LOGS := (lxs ++ lzs).

Lemma kall_logs_len : rowlen N LOGS.
Proof. destruct prem as (HG & HX & HZ & _). apply Forall_app. split; assumption. Qed.
Lemma kall_gens_logs g l : In g gens -> In l LOGS -> bsp g l = false.
Proof.
  intros Hg Hl. destruct prem as (HG & HX & HZ & Hk & HI & Hn & Hgg & Hlg & Hc).
  pose proof (proj1 (Forall_forall _ _) HG g Hg) as Lg. pose proof (proj1 (Forall_forall _ _) kall_logs_len l Hl) as Ll.
  cbn beta in Lg, Ll. rewrite bsp_sym by (rewrite ?Lg; auto using even_double; congruence). now apply Hlg.
Qed.

Theorem klogicals_independent : independent N (gens ++ LOGS).
Proof.
  pose proof kall_logs_len as HLl. pose proof kall_gens_logs as Hgl.
  destruct prem as (HG & HX & HZ & Hk & HI & Hn & Hgg & Hlg & Hc).
  apply (dual_extend_independent N (even_double n) gens LOGS (lzs ++ lxs)); auto.
  - apply Forall_app. split; assumption.
  - rewrite !app_length. lia.
  - intros g d Hg Hd. apply Hgl; [exact Hg|]. apply in_app_or in Hd. apply in_or_app. tauto.
  - now apply canonical_dual.
Qed.

(* the centralizer lemma for every code: what commutes with generators and logicals is a product of generators *)
Theorem kcentralizer_all t : length t = N -> (forall g, In g gens -> bsp t g = false) ->
  (forall l, In l LOGS -> bsp t l = false) -> in_spanP N gens t.
Proof.
  intros Lt Ht Htl. pose proof kall_logs_len as HLl. pose proof kall_gens_logs as Hgl.
  pose proof klogicals_independent as HIL.
  destruct prem as (HG & HX & HZ & Hk & HI & Hn & Hgg & Hlg & Hc).
  apply (perp_span N (even_double n) (gens ++ LOGS) gens); auto.
  - apply Forall_app. split; assumption.
  - rewrite !app_length. lia.
  - intros f g Hf Hg. apply in_app_or in Hg. destruct Hg as [Hg|Hg]; [now apply Hgg|now apply Hgl].
  - intros g Hg. apply in_app_or in Hg. destruct Hg as [Hg|Hg]; auto.
Qed.

(* the normalizer is spanned by generators and logicals *)
Theorem knormalizer_spanned_all t : length t = N -> (forall g, In g gens -> bsp t g = false) ->
  in_spanP N (gens ++ LOGS) t.
Proof.
  intros Lt Ht. pose proof kall_logs_len as HLl. pose proof klogicals_independent as HIL.
  destruct prem as (HG & HX & HZ & Hk & HI & Hn & Hgg & Hlg & Hc).
  apply (perp_span N (even_double n) gens (gens ++ LOGS)); auto.
  - apply Forall_app. split; assumption.
  - rewrite !app_length. lia.
  - intros f g Hf Hg. apply in_app_or in Hf. destruct Hf as [Hf|Hf]; [now apply Hgg|now apply Hlg].
Qed.

(* the certificate of Tensor/FourCosetsLattice.v, from the premises alone *)
Theorem kk_certificate_all : kk_certificate n gens lxs lzs.
Proof.
  pose proof kcentralizer_all as Hcen.
  destruct prem as (HG & HX & HZ & Hk & HI & Hn & Hgg & Hlg & Hc).
  repeat (split; [assumption|]). exact Hcen.
Qed.

(* ---- the 4^k cosets, every code ---- *)
Local Notation k := (length lxs).
Theorem knormalizer_coset_iff_all e xa za : length e = N -> (forall g, In g gens -> bsp e g = false) ->
  length xa = k -> length za = k ->
  (in_spanP N gens (xorv e (lpartk n lxs lzs xa za)) <-> xa = zlab lzs e /\ za = xlab lxs e).
Proof.
  destruct kk_certificate_all as (HG & HX & HZ & Hk & Hlg & Hc & Hcen).
  now apply (knormalizer_coset_iff n gens lxs lzs).
Qed.
Theorem kcosets_label_all e f xa za : length e = N -> length f = N -> (forall g, In g gens -> bsp e g = bsp f g) ->
  length xa = k -> length za = k ->
  (in_spanP N gens (xorv e (candk n lxs lzs f xa za))
   <-> xa = xorv (zlab lzs e) (zlab lzs f) /\ za = xorv (xlab lxs e) (xlab lxs f)).
Proof.
  destruct kk_certificate_all as (HG & HX & HZ & Hk & Hlg & Hc & Hcen).
  now apply (kcosets_label n gens lxs lzs).
Qed.
Theorem kcosets_exactly_one_all e f : length e = N -> length f = N -> (forall g, In g gens -> bsp e g = bsp f g) ->
  exists xa za, length xa = k /\ length za = k /\ in_spanP N gens (xorv e (candk n lxs lzs f xa za))
    /\ forall xa' za', length xa' = k -> length za' = k ->
         in_spanP N gens (xorv e (candk n lxs lzs f xa' za')) -> xa' = xa /\ za' = za.
Proof.
  destruct kk_certificate_all as (HG & HX & HZ & Hk & Hlg & Hc & Hcen).
  now apply (kcosets_exactly_one n gens lxs lzs).
Qed.
Theorem kcosets_inequivalent_all f xa za xa' za' : length f = N ->
  length xa = k -> length za = k -> length xa' = k -> length za' = k ->
  in_spanP N gens (xorv (candk n lxs lzs f xa za) (candk n lxs lzs f xa' za')) -> xa = xa' /\ za = za'.
Proof.
  destruct kk_certificate_all as (HG & HX & HZ & Hk & Hlg & Hc & Hcen).
  now apply (kcosets_inequivalent n gens lxs lzs).
Qed.
Theorem kcosets_total_prob_all (K : Sums.cring) (d : dist K) f L : length f = N -> NoDup L ->
  (forall e, In e L <-> length e = N /\ forall g, In g gens -> bsp e g = bsp f g) ->
  sum_list K (map (prob K d n) L)
  = sum_list K (map (fun ab => coset_prob K d n gens (candk n lxs lzs f (firstn k ab) (skipn k ab))) (allv (k + k))).
Proof.
  destruct kk_certificate_all as (HG & HX & HZ & Hk & Hlg & Hc & Hcen).
  destruct prem as (_ & _ & _ & _ & HI & _ & Hgg & _).
  now apply (kcosets_total_prob n gens lxs lzs).
Qed.

End KAll.

(* ================================================================== *)
(** * 7. From qecsim's validate(): a checkable premise                  *)
(* ================================================================== *)
(* a code that passes [Core.Code.validate] (the model of StabilizerCode.validate), whose rows have length 2n, whose
   n - k stabilizer generators are independent: all premises hold *)
Theorem valid_code_kcosets_premises n (c : code) :
  validate c = VOk -> rowlen (n + n) (stabs c) -> rowlen (n + n) (lxs c) -> rowlen (n + n) (lzs c) ->
  length (lxs c) = length (lzs c) -> independent (n + n) (stabs c) -> length (stabs c) + length (lxs c) = n ->
  kcosets_premises n (stabs c) (lxs c) (lzs c).
Proof.
  intros HV HG HX HZ Hk HI Hn. apply (validate_iff_canonical c Hk) in HV. destruct HV as (Hgg & Hgl & Hc).
  repeat (split; [first [assumption|symmetry; assumption]|]). split; [|exact Hc].
  intros l g Hl Hg. pose proof (proj1 (Forall_forall _ _) HG g Hg) as Lg.
  assert (HL : rowlen (n + n) (lxs c ++ lzs c)) by (apply Forall_app; split; assumption).
  pose proof (proj1 (Forall_forall _ _) HL l Hl) as Ll. cbn beta in Lg, Ll.
  rewrite bsp_sym by (rewrite ?Ll; auto using even_double; congruence). now apply Hgl.
Qed.

Definition kcosets_check (n : nat) (c : code) : bool :=
  validb c && forallb (fun r => length r =? n + n) (stabs c) && forallb (fun r => length r =? n + n) (lxs c)
  && forallb (fun r => length r =? n + n) (lzs c) && (length (lxs c) =? length (lzs c))
  && indep_check (n + n) (stabs c) && (length (stabs c) + length (lxs c) =? n).
Theorem kcosets_check_sound n c : kcosets_check n c = true -> kcosets_premises n (stabs c) (lxs c) (lzs c).
Proof.
  unfold kcosets_check. intros H. repeat (apply andb_true_iff in H; destruct H as [H ?]).
  apply valid_code_kcosets_premises; auto using forallb_rowlen, indep_check_sound.
  - unfold validb in H. destruct (validate c); try discriminate. reflexivity.
  - now apply Nat.eqb_eq.
  - now apply Nat.eqb_eq.
Qed.

(* one logical qubit: the k-premises with singleton logical lists are the premises of [four_cosets_statement] *)
Theorem four_cosets_premises_of_k n gens lx lz :
  kcosets_premises n gens [lx] [lz] -> four_cosets_premises n gens lx lz.
Proof.
  intros (HG & HX & HZ & Hk & HI & Hn & Hgg & Hlg & Hc).
  pose proof (Forall_inv HX) as Lx. pose proof (Forall_inv HZ) as Lz. cbn beta in Lx, Lz. cbn [length] in Hn.
  split; [repeat constructor; assumption|]. split; [exact HI|]. split; [lia|]. split; [exact Hgg|]. split.
  - intros g Hg. split; apply Hlg; cbn; auto.
  - destruct (Hc 0 0) as (_ & _ & H & _); cbn [length]; auto.
Qed.
Theorem four_cosets_of_check n gens lx lz : kcosets_check n (mkCode gens [lx] [lz]) = true ->
  four_cosets_conclusion n gens lx lz.
Proof.
  intros H. apply four_cosets_conclusion_all, four_cosets_premises_of_k.
  exact (kcosets_check_sound n (mkCode gens [lx] [lz]) H).
Qed.
Theorem normalizer_spanned_of_check n gens lx lz : kcosets_check n (mkCode gens [lx] [lz]) = true ->
  normalizer_spanned (n + n) gens lx lz.
Proof.
  intros H. destruct (four_cosets_premises_of_k n gens lx lz (kcosets_check_sound n (mkCode gens [lx] [lz]) H))
    as (HL & HI & Hm & Hgg & Hl & Hxz). now apply normalizer_counting_all.
Qed.

(* ================================================================== *)
(** * 8. Non-vacuity: codes that are not lattice codes                  *)
(* ================================================================== *)
(* qecsim.models.basic.FiveQubitCode (not a CSS code) *)
Definition five_qubit : code :=
  mkCode (map to_bsf [[pX; pZ; pZ; pX; pI]; [pI; pX; pZ; pZ; pX]; [pX; pI; pX; pZ; pZ]; [pZ; pX; pI; pX; pZ]])
         [to_bsf [pX; pX; pX; pX; pX]] [to_bsf [pZ; pZ; pZ; pZ; pZ]].
Example five_qubit_check : kcosets_check 5 five_qubit = true.
Proof. vm_compute. reflexivity. Qed.
Example five_qubit_premises :
  four_cosets_premises 5 (stabs five_qubit) (to_bsf [pX; pX; pX; pX; pX]) (to_bsf [pZ; pZ; pZ; pZ; pZ]).
Proof. apply four_cosets_premises_of_k. exact (kcosets_check_sound 5 five_qubit five_qubit_check). Qed.
Example five_qubit_normalizer_spanned :
  normalizer_spanned 10 (stabs five_qubit) (to_bsf [pX; pX; pX; pX; pX]) (to_bsf [pZ; pZ; pZ; pZ; pZ]).
Proof. exact (normalizer_spanned_of_check 5 _ _ _ five_qubit_check). Qed.
Example five_qubit_four_cosets :
  four_cosets_conclusion 5 (stabs five_qubit) (to_bsf [pX; pX; pX; pX; pX]) (to_bsf [pZ; pZ; pZ; pZ; pZ]).
Proof. exact (four_cosets_of_check 5 _ _ _ five_qubit_check). Qed.

(* qecsim.models.basic.SteaneCode *)
Definition steane : code :=
  mkCode (map to_bsf [[pI; pI; pI; pX; pX; pX; pX]; [pI; pX; pX; pI; pI; pX; pX]; [pX; pI; pX; pI; pX; pI; pX];
                      [pI; pI; pI; pZ; pZ; pZ; pZ]; [pI; pZ; pZ; pI; pI; pZ; pZ]; [pZ; pI; pZ; pI; pZ; pI; pZ]])
         [to_bsf [pX; pX; pX; pX; pX; pX; pX]] [to_bsf [pZ; pZ; pZ; pZ; pZ; pZ; pZ]].
Example steane_check : kcosets_check 7 steane = true.
Proof. vm_compute. reflexivity. Qed.
Example steane_four_cosets :
  four_cosets_conclusion 7 (stabs steane) (to_bsf [pX; pX; pX; pX; pX; pX; pX]) (to_bsf [pZ; pZ; pZ; pZ; pZ; pZ; pZ]).
Proof. exact (four_cosets_of_check 7 _ _ _ steane_check). Qed.

(* the [[4,2,2]] code: two logical qubits, sixteen cosets *)
Definition c422 : code :=
  mkCode (map to_bsf [[pX; pX; pX; pX]; [pZ; pZ; pZ; pZ]])
         (map to_bsf [[pX; pX; pI; pI]; [pX; pI; pX; pI]]) (map to_bsf [[pZ; pI; pZ; pI]; [pZ; pZ; pI; pI]]).
Example c422_check : kcosets_check 4 c422 = true.
Proof. vm_compute. reflexivity. Qed.
Example c422_sixteen_cosets : forall e f, length e = 8 -> length f = 8 ->
  (forall g, In g (stabs c422) -> bsp e g = bsp f g) ->
  exists xa za, length xa = 2 /\ length za = 2 /\
    in_spanP 8 (stabs c422) (xorv e (candk 4 (lxs c422) (lzs c422) f xa za))
    /\ forall xa' za', length xa' = 2 -> length za' = 2 ->
         in_spanP 8 (stabs c422) (xorv e (candk 4 (lxs c422) (lzs c422) f xa' za')) -> xa' = xa /\ za' = za.
Proof. exact (kcosets_exactly_one_all 4 _ _ _ (kcosets_check_sound 4 c422 c422_check)). Qed.

(* a concrete instance on the five-qubit code: e = Y on qubit 2 and f = e . lx . (XZZXI) have the same syndrome; e is
   equivalent to the candidate f . X and to no other candidate *)
Example five_qubit_instance :
  let lx := to_bsf [pX; pX; pX; pX; pX] in let lz := to_bsf [pZ; pZ; pZ; pZ; pZ] in
  let e := to_bsf [pI; pY; pI; pI; pI] in let f := xorv (xorv e lx) (to_bsf [pX; pZ; pZ; pX; pI]) in
  (forall g, In g (stabs five_qubit) -> bsp e g = bsp f g) /\
  in_spanP 10 (stabs five_qubit) (xorv e (cand 10 lx lz f true false)) /\
  forall a b, in_spanP 10 (stabs five_qubit) (xorv e (cand 10 lx lz f a b)) -> a = true /\ b = false.
Proof.
  cbv zeta. set (lx := to_bsf [pX; pX; pX; pX; pX]). set (lz := to_bsf [pZ; pZ; pZ; pZ; pZ]).
  set (e := to_bsf [pI; pY; pI; pI; pI]). set (f := xorv (xorv e lx) (to_bsf [pX; pZ; pZ; pX; pI])).
  assert (Hsyn : forall g, In g (stabs five_qubit) -> bsp e g = bsp f g).
  { intros g Hg. cbn in Hg. destruct Hg as [<-|[<-|[<-|[<-|[]]]]]; vm_compute; reflexivity. }
  assert (H10 : in_spanP 10 (stabs five_qubit) (xorv e (cand 10 lx lz f true false))).
  { apply in_spanb_sound. vm_compute. reflexivity. }
  split; [exact Hsyn|]. split; [exact H10|]. intros a b Hab.
  destruct (five_qubit_four_cosets f e eq_refl eq_refl Hsyn) as (a0 & b0 & _ & Hu).
  destruct (Hu true false H10) as [<- <-]. exact (Hu a b Hab).
Qed.

(* a destabilizer family exists for the five-qubit generators (premise of [destabilizers_exist] satisfiable) *)
Example five_qubit_destabilizers :
  exists D, rowlen 10 D /\ length D = 4 /\
    forall i j, i < 4 -> j < 4 -> bsp (nth i D []) (nth j (stabs five_qubit) []) = (i =? j).
Proof.
  apply (destabilizers_exist 10 eq_refl (stabs five_qubit)).
  - apply forallb_rowlen. vm_compute. reflexivity.
  - apply indep_check_sound. vm_compute. reflexivity.
Qed.

Print Assumptions normalizer_counting_all.
Print Assumptions four_cosets_all.
Print Assumptions kk_certificate_all.
Print Assumptions knormalizer_spanned_all.
Print Assumptions kcosets_total_prob_all.
Print Assumptions destabilizers_exist.
Print Assumptions bsp_nondegenerate_unit.
Print Assumptions exchange_lemma.
Print Assumptions five_qubit_four_cosets.
Print Assumptions c422_sixteen_cosets.
