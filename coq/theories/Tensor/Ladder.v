(* Tensor/Ladder.v — contract_ladder followed by as_scalar computes the column operator at the
   dummy indices: for a column [None..; Some t0; ..; Some tk; None..] whose outer legs are all
   dummies, as_scalar (contract_ladder col) = opc col 0 zeros zeros. *)
From Coq Require Import List Arith Lia Bool ZArith QArith Ring.
From QV Require Import Tensor.Sums Tensor.Net Tensor.StartStop Tensor.Contract.
Import ListNotations.
Local Open Scope nat_scope.

Lemma zero_div x : (0 / x = 0)%nat.
Proof. destruct x; reflexivity. Qed.
Lemma zero_mod x : (0 mod x = 0)%nat.
Proof. destruct x; cbn; [reflexivity|apply Nat.sub_diag]. Qed.

Section Ladder.
Variable K : cring.
Add Ring Kring : (cring_th K).
Local Notation tensor := (tensor K).
Local Notation col := (list (option tensor)).
Local Notation "0" := (r0 K).
Local Notation "1" := (r1 K).
Local Infix "+" := (radd K).
Local Infix "*" := (rmul K).
Local Notation opc := (@opc K).
Local Notation lad := (lad K).

Lemma lad_val v t n eE S wW : val (lad v t) n eE S wW = lad_fun K v t n eE S wW.
Proof. apply tab4_eq. Qed.

Fixpoint lastds (t0 : tensor) (ts : list tensor) : nat :=
  match ts with [] => ds t0 | t :: ts' => lastds t ts' end.

Lemma fold_lad_dn ts : forall acc, dn (fold_left lad ts acc) = dn acc.
Proof. induction ts as [|t ts IH]; intros acc; cbn [fold_left]; [reflexivity|]. rewrite IH. reflexivity. Qed.
Lemma fold_lad_ds ts : forall acc, ds (fold_left lad ts acc) = lastds acc ts.
Proof. induction ts as [|t ts IH]; intros acc; cbn [fold_left lastds]; [reflexivity|]. rewrite IH. destruct ts; reflexivity. Qed.
Lemma fold_lad_de ts : forall acc, de acc = 1%nat -> Forall (fun t => de t = 1%nat) ts -> de (fold_left lad ts acc) = 1%nat.
Proof. induction ts as [|t ts IH]; intros acc Ha HF; cbn [fold_left]; [exact Ha|].
  inversion HF; subst. apply IH; auto. cbn. lia. Qed.
Lemma fold_lad_dw ts : forall acc, dw acc = 1%nat -> Forall (fun t => dw t = 1%nat) ts -> dw (fold_left lad ts acc) = 1%nat.
Proof. induction ts as [|t ts IH]; intros acc Ha HF; cbn [fold_left]; [exact Ha|].
  inversion HF; subst. apply IH; auto. cbn. lia. Qed.

Lemma fold_lad_scalar ts : forall acc n, lastds acc ts = 1%nat ->
  val (fold_left lad ts acc) n O O O
  = opc (map Some (acc :: ts)) n (repeat O (S (length ts))) (repeat O (S (length ts))).
Proof.
  induction ts as [|t ts IH]; intros acc n Hl.
  - cbn in *. rewrite Hl. cbn. ring.
  - cbn [fold_left]. rewrite IH by (cbn [lastds] in Hl; destruct ts; exact Hl).
    cbn [map length repeat opc]. cbn [ds lad].
    transitivity (sumn (ds t) (fun s' => sumn (ds acc) (fun s =>
       (val acc n O s O * val t s O s' O) *
       opc (map Some ts) s' (repeat O (length ts)) (repeat O (length ts))))).
    { apply sumn_ext; intros s' _. rewrite lad_val. unfold lad_fun.
      rewrite !zero_div, !zero_mod. rewrite <- sumn_mul_r. reflexivity. }
    rewrite sumn_swap. apply sumn_ext; intros s _. rewrite <- sumn_mul_l.
    apply sumn_ext; intros s' _. ring.
Qed.

(* leading and trailing empty sites do not change the column operator at dummy indices *)
Lemma opc_nones c v : opc (repeat None c) v (repeat O c) (repeat O c) = 1.
Proof. induction c as [|c IH]; cbn; auto. Qed.
Lemma opc_lead a (X : col) v ws es :
  opc (repeat None a ++ X) v (repeat O a ++ ws) (repeat O a ++ es) = opc X v ws es.
Proof. induction a as [|a IH]; cbn; auto. Qed.
Lemma opc_trail (X : col) : forall v ws es c, length ws = length X -> length es = length X ->
  opc (X ++ repeat None c) v (ws ++ repeat O c) (es ++ repeat O c) = opc X v ws es.
Proof.
  induction X as [|x X IH]; intros v ws es c Hw He.
  - destruct ws, es; try discriminate. cbn [app]. rewrite opc_nones. reflexivity.
  - destruct ws as [|w ws], es as [|e es]; try discriminate. cbn in Hw, He.
    destruct x as [t|]; cbn [app opc].
    + apply sumn_ext; intros s _. rewrite IH by lia. reflexivity.
    + apply IH; lia.
Qed.

(* dummy legs at the ends of the run of tensors *)
Lemma vchain_lead a t0 rest :
  vchain K (repeat None a ++ Some t0 :: rest) -> hd_dn K (repeat None a ++ Some t0 :: rest) = 1%nat -> dn t0 = 1%nat.
Proof.
  induction a as [|a IH]; cbn [repeat app]; intros HV HH; [exact HH|].
  cbn [vchain] in HV. destruct HV as [H1 HV]. apply IH; [exact HV|].
  destruct a; cbn in *; auto.
Qed.
Lemma vchain_trail (X : col) : forall t c,
  vchain K (X ++ Some t :: repeat None c) -> dso K (last (X ++ Some t :: repeat None c) None) = 1%nat -> ds t = 1%nat.
Proof.
  induction X as [|x X IH]; intros t c HV HL.
  - cbn [app] in *. destruct c as [|c]; cbn in *; [exact HL|]. destruct HV as [H _]. exact H.
  - cbn [app] in HV, HL. cbn [vchain] in HV. destruct HV as [_ HV]. apply (IH t c HV).
    destruct (X ++ Some t :: repeat None c) eqn:E; [destruct X; discriminate|]. exact HL.
Qed.
Lemma trail_lastds ts : forall t0 (pre : col) c,
  vchain K (pre ++ map Some (t0 :: ts) ++ repeat None c) ->
  dso K (last (pre ++ map Some (t0 :: ts) ++ repeat None c) None) = 1%nat -> lastds t0 ts = 1%nat.
Proof.
  induction ts as [|t ts IH]; intros t0 pre c HV HL.
  - cbn [map app lastds] in *. eapply vchain_trail; eauto.
  - cbn [lastds]. apply (IH t (pre ++ [Some t0]) c).
    + rewrite <- app_assoc. exact HV.
    + rewrite <- app_assoc. exact HL.
Qed.

(* the form of a column with a single contiguous run of tensors *)
Lemma form_of_spec (A : col) : forall a b, a <= b <= length A ->
  (forall i, i < length A -> (is_some (nth i A None) = true <-> a <= i < b)) ->
  exists ts, length ts = b - a /\ A = repeat None a ++ map Some ts ++ repeat None (length A - b).
Proof.
  induction A as [|x A IH]; intros a b Hab H.
  - cbn in Hab. assert (a = O) by lia. assert (b = O) by lia. subst. exists []. auto.
  - cbn [length] in *. destruct a as [|a].
    + destruct b as [|b].
      * destruct (IH O O) as (ts & Hl & E); [lia| |].
        { intros i Hi. specialize (H (S i) ltac:(lia)). cbn in H. rewrite H. lia. }
        destruct ts; [|discriminate]. exists []. split; [reflexivity|].
        specialize (H O ltac:(lia)). cbn in H. destruct x; [destruct H as [H _]; specialize (H eq_refl); lia|].
        cbn in *. rewrite Nat.sub_0_r in E. f_equal. exact E.
      * destruct (IH O b) as (ts & Hl & E); [lia| |].
        { intros i Hi. specialize (H (S i) ltac:(lia)). cbn in H. rewrite H. lia. }
        specialize (H O ltac:(lia)). cbn in H. destruct x as [t|]; [|destruct H as [_ H]; specialize (H ltac:(lia)); discriminate].
        exists (t :: ts). split; [cbn; lia|]. cbn in *. f_equal. exact E.
    + destruct (IH a (b - 1)) as (ts & Hl & E); [lia| |].
      { intros i Hi. specialize (H (S i) ltac:(lia)). cbn in H. rewrite H. lia. }
      specialize (H O ltac:(lia)). cbn in H. destruct x as [t|]; [destruct H as [H _]; specialize (H eq_refl); lia|].
      exists ts. split; [lia|]. cbn [repeat app]. f_equal.
      replace (S (length A) - b) with (length A - (b - 1)) by lia. exact E.
Qed.

Lemma somes_map_Some (l : list tensor) : somes K (map Some l) = l.
Proof. induction l; cbn; congruence. Qed.

Lemma contract_ladder_form a t0 ts c :
  contract_ladder K (repeat None a ++ map Some (t0 :: ts) ++ repeat None c) = Ok (fold_left lad ts t0).
Proof.
  unfold contract_ladder. rewrite start_stop_form by discriminate.
  replace (a + length (t0 :: ts) - a)%nat with (length (map (@Some tensor) (t0 :: ts))) by (rewrite map_length; lia).
  rewrite skipn_app, repeat_length, Nat.sub_diag.
  rewrite skipn_all2 by (rewrite repeat_length; lia). cbn [skipn app].
  rewrite firstn_app, Nat.sub_diag, firstn_all. cbn [firstn]. rewrite app_nil_r.
  rewrite somes_map_Some. reflexivity.
Qed.

(* as_scalar (contract_ladder col) = opc col 0 zeros zeros *)
Theorem ladder_scalar_sem r (A : col) a b :
  length A = r -> vchain K A -> hd_dn K A = 1%nat -> dso K (last A None) = 1%nat ->
  map (deo K) A = repeat 1%nat r -> map (dwo K) A = repeat 1%nat r ->
  a < b <= r -> (forall i, i < r -> (is_some (nth i A None) = true <-> a <= i < b)) ->
  bind (contract_ladder K A) (as_scalar K) = Ok (opc A O (repeat O r) (repeat O r)).
Proof.
  intros HL HV HN HS HE HW Hab Hocc. subst r.
  destruct (form_of_spec A a b ltac:(lia) Hocc) as (ts & Hlen & E).
  destruct ts as [|t0 ts]; [cbn in Hlen; lia|].
  set (c := length A - b) in *.
  assert (Hlen' : length A = (a + S (length ts) + c)%nat).
  { rewrite E at 1. rewrite !app_length, !repeat_length, map_length. cbn. lia. }
  rewrite E at 1. rewrite contract_ladder_form. cbn [bind]. unfold as_scalar.
  (* the dimensions *)
  assert (Hdn : dn t0 = 1%nat).
  { pose proof HV as HV'. pose proof HN as HN'. rewrite E in HV', HN'.
    exact (vchain_lead a t0 (map Some ts ++ repeat None c) HV' HN'). }
  assert (Hds : lastds t0 ts = 1%nat).
  { pose proof HV as HV'. pose proof HS as HS'. rewrite E in HV', HS'.
    exact (trail_lastds ts t0 (repeat None a) c HV' HS'). }
  assert (HE' : Forall (fun t => de t = 1%nat) (t0 :: ts)).
  { rewrite E in HE. rewrite !map_app, map_map in HE. cbn [deo] in HE.
    apply Forall_forall. intros t Ht.
    assert (Hin : In (de t) (map (deo K) (repeat None a) ++ map (fun x => de x) (t0 :: ts) ++ map (deo K) (repeat None c))).
    { apply in_or_app. right. apply in_or_app. left. apply in_map. exact Ht. }
    rewrite HE in Hin. apply repeat_spec in Hin. exact Hin. }
  assert (HW' : Forall (fun t => dw t = 1%nat) (t0 :: ts)).
  { rewrite E in HW. rewrite !map_app, map_map in HW. cbn [dwo] in HW.
    apply Forall_forall. intros t Ht.
    assert (Hin : In (dw t) (map (dwo K) (repeat None a) ++ map (fun x => dw x) (t0 :: ts) ++ map (dwo K) (repeat None c))).
    { apply in_or_app. right. apply in_or_app. left. apply in_map. exact Ht. }
    rewrite HW in Hin. apply repeat_spec in Hin. exact Hin. }
  pose proof (Forall_inv HE') as He0. pose proof (Forall_inv_tail HE') as HEts.
  pose proof (Forall_inv HW') as Hw0. pose proof (Forall_inv_tail HW') as HWts. cbn beta in He0, Hw0.
  rewrite fold_lad_dn, fold_lad_ds, fold_lad_de, fold_lad_dw by assumption.
  rewrite Hdn, Hds. cbn [Nat.mul Nat.eqb Nat.add].
  rewrite fold_lad_scalar by exact Hds.
  f_equal.
  (* strip the empty sites *)
  rewrite Hlen'. rewrite E.
  rewrite !repeat_app, <- !app_assoc.
  rewrite (opc_lead a). rewrite (opc_trail (map Some (t0 :: ts))) by (rewrite repeat_length, map_length; reflexivity).
  reflexivity.
Qed.

End Ladder.
