(* Tensor/Coset.v — the exact oracle of the tensor-network decoders: the probability of a Pauli
   under an i.i.d. single-qubit distribution, the total probability of a coset f.G of the
   stabilizer group G (enumerated from an independent generating set), and the arg-max choice
   (first index of the maximum, as Python's max over zip).  Generic in the commutative ring of
   probabilities; the engine runs the integer instance on numerators over a common power of two. *)
From Coq Require Import List Arith Lia Bool ZArith Permutation Ring.
From QV Require Import Core.Bits Tensor.Sums.
Import ListNotations.
Local Open Scope nat_scope.

Lemma NoDup_app_intro {X} (a b : list X) :
  NoDup a -> NoDup b -> (forall x, In x a -> In x b -> False) -> NoDup (a ++ b).
Proof.
  induction a as [|x a IH]; intros Ha Hb Hd; [exact Hb|]. cbn. inversion Ha; subst. constructor.
  - intros Hin. apply in_app_or in Hin. destruct Hin as [Hin|Hin]; [contradiction|]. apply (Hd x); [left; reflexivity|exact Hin].
  - apply IH; auto. intros y Hy. apply Hd. right. exact Hy.
Qed.

Section Coset.
Variable K : cring.
Add Ring Kring : (cring_th K).
Local Notation "0" := (r0 K).
Local Notation rI := (r1 K).
Local Infix "+" := (radd K).
Local Infix "*" := (rmul K).

(* single-qubit distribution (p_I, p_X, p_Y, p_Z) *)
Definition dist := (K * K * K * K)%type.
Definition pick (d : dist) (x z : bool) : K :=
  let '(pi, px, py, pz) := d in
  match x, z with false, false => pi | true, false => px | true, true => py | false, true => pz end.
(* probability of the Pauli with X-part xs and Z-part zs *)
Fixpoint prob_xz (d : dist) (xs zs : bsf) : K :=
  match xs, zs with
  | x :: xs', z :: zs' => pick d x z * prob_xz d xs' zs'
  | _, _ => rI
  end.
Definition prob (d : dist) (n : nat) (v : bsf) : K := prob_xz d (firstn n v) (skipn n v).

(* all 2^m products of a list of generators, each exactly once when they are independent *)
Fixpoint span_list (len : nat) (gens : list bsf) : list bsf :=
  match gens with
  | [] => [zeros len]
  | g :: gs => let s := span_list len gs in s ++ map (xorv g) s
  end.
Definition sum_list (l : list K) : K := fold_right (radd K) 0 l.
Definition coset_prob (d : dist) (n : nat) (gens : list bsf) (f : bsf) : K :=
  sum_list (map (fun g => prob d n (xorv f g)) (span_list (n + n) gens)).

(* independence: no generator lies in the span of the later ones *)
Fixpoint indep (len : nat) (gens : list bsf) : Prop :=
  match gens with
  | [] => True
  | g :: gs => ~ In g (span_list len gs) /\ indep len gs
  end.

Lemma span_length len gens : Forall (fun g => length g = len) gens ->
  Forall (fun v => length v = len) (span_list len gens).
Proof.
  induction gens as [|g gs IH]; intros HF; cbn [span_list].
  - constructor; [apply zeros_length|constructor].
  - inversion HF as [|? ? Hg HF']; subst. specialize (IH HF'). apply Forall_app. split; [exact IH|].
    apply Forall_forall. intros v Hv. apply in_map_iff in Hv. destruct Hv as (u & <- & Hu).
    rewrite Forall_forall in IH. rewrite xorv_length; [reflexivity|]. rewrite (IH u Hu). reflexivity.
Qed.
Lemma span_count len gens : length (span_list len gens) = 2 ^ length gens.
Proof. induction gens as [|g gs IH]; cbn [span_list length]; [reflexivity|]. rewrite app_length, map_length, IH. cbn. lia. Qed.
(* the span is closed under multiplication (xor) *)
Lemma span_zero len gens : In (zeros len) (span_list len gens).
Proof. induction gens as [|g gs IH]; cbn [span_list]; [left; reflexivity|]. apply in_or_app. left. exact IH. Qed.
Lemma span_closed len gens : Forall (fun g => length g = len) gens ->
  forall u v, In u (span_list len gens) -> In v (span_list len gens) -> In (xorv u v) (span_list len gens).
Proof.
  induction gens as [|g gs IH]; intros HF u v Hu Hv; cbn [span_list] in *.
  - destruct Hu as [<-|[]], Hv as [<-|[]]. left. symmetry. apply xorv_zz.
  - inversion HF as [|? ? Hg HF']; subst. specialize (IH HF').
    pose proof (span_length (length g) gs HF') as HL. rewrite Forall_forall in HL.
    apply in_app_or in Hu. apply in_app_or in Hv. apply in_or_app.
    destruct Hu as [Hu|Hu], Hv as [Hv|Hv].
    + left. apply IH; assumption.
    + right. apply in_map_iff in Hv. destruct Hv as (v' & <- & Hv'). apply in_map_iff. exists (xorv u v'). split; [|apply IH; assumption].
      rewrite <- !xorv_assoc. f_equal. apply xorv_comm.
    + right. apply in_map_iff in Hu. destruct Hu as (u' & <- & Hu'). apply in_map_iff. exists (xorv u' v). split; [|apply IH; assumption].
      symmetry. apply xorv_assoc.
    + left. apply in_map_iff in Hu. destruct Hu as (u' & <- & Hu'). apply in_map_iff in Hv. destruct Hv as (v' & <- & Hv').
      replace (xorv (xorv g u') (xorv g v')) with (xorv u' v'); [apply IH; assumption|].
      rewrite (xorv_comm g u'), xorv_assoc. rewrite xorv_cancel_l by (rewrite (HL v' Hv'); reflexivity). reflexivity.
Qed.

(* c10_enumeration: with independent generators no group element is produced twice, so the sum over
   the 2^m stabilizer-bit assignments counts every element of the stabilizer group exactly once *)
Theorem span_nodup len gens : Forall (fun g => length g = len) gens -> indep len gens -> NoDup (span_list len gens).
Proof.
  induction gens as [|g gs IH]; intros HF HI; cbn [span_list].
  - constructor; [intros []|constructor].
  - inversion HF as [|? ? Hg HF']; subst. destruct HI as [Hng HI]. specialize (IH HF' HI).
    pose proof (span_length (length g) gs HF') as HL. rewrite Forall_forall in HL.
    assert (Hinj : forall u v, In u (span_list (length g) gs) -> In v (span_list (length g) gs) -> xorv g u = xorv g v -> u = v).
    { intros u v Hu Hv E. rewrite <- (xorv_cancel_l g u), <- (xorv_cancel_l g v) by (symmetry; auto). now rewrite E. }
    assert (Hnd : NoDup (map (xorv g) (span_list (length g) gs))).
    { clear Hng. revert IH Hinj. generalize (span_list (length g) gs) as s. induction s as [|x s IHs]; intros Hnd Hinj; cbn; [constructor|].
      inversion Hnd; subst. constructor.
      - intros Hin. apply in_map_iff in Hin. destruct Hin as (y & Ey & Hy).
        assert (y = x) by (apply Hinj; [right; exact Hy|left; reflexivity|exact Ey]). subst. contradiction.
      - apply IHs; [assumption|]. intros u v Hu Hv. apply Hinj; right; assumption. }
    apply NoDup_app_intro; [exact IH|exact Hnd|].
    intros v Hv Hv'. apply in_map_iff in Hv'. destruct Hv' as (u & E & Hu). apply Hng.
    assert (Hin : In (xorv v u) (span_list (length g) gs)) by (apply span_closed; assumption).
    assert (Eg : xorv v u = g).
    { rewrite <- E. rewrite xorv_assoc, xorv_self, (HL u Hu), xorv_zeros_r. reflexivity. }
    rewrite Eg in Hin. exact Hin.
Qed.

(* the coset probability depends only on the coset: multiplying the representative by a group
   element permutes the terms of the sum *)
Lemma sum_list_perm (l l' : list K) : Permutation l l' -> sum_list l = sum_list l'.
Proof.
  induction 1 as [|x l l' H IH|x y l|l l' l'' H1 IH1 H2 IH2]; unfold sum_list in *; cbn [fold_right].
  - reflexivity.
  - rewrite IH. reflexivity.
  - generalize (fold_right (radd K) 0 l). intros t. ring.
  - congruence.
Qed.
Lemma xor_span_perm len gens g : Forall (fun g => length g = len) gens -> In g (span_list len gens) ->
  NoDup (span_list len gens) -> Permutation (map (xorv g) (span_list len gens)) (span_list len gens).
Proof.
  intros HF Hg Hnd. pose proof (span_length len gens HF) as HL. rewrite Forall_forall in HL.
  apply NoDup_Permutation_bis.
  - assert (Hinj : forall u v, In u (span_list len gens) -> In v (span_list len gens) -> xorv g u = xorv g v -> u = v).
    { intros u v Hu Hv E. rewrite <- (xorv_cancel_l g u), <- (xorv_cancel_l g v) by (rewrite (HL g Hg); symmetry; auto). now rewrite E. }
    revert Hnd Hinj. generalize (span_list len gens) as s. induction s as [|x s IHs]; intros Hnd Hinj; cbn; [constructor|].
    apply NoDup_cons_iff in Hnd. destruct Hnd as [Hx Hs]. constructor.
    + intros Hin. apply in_map_iff in Hin. destruct Hin as (y & Ey & Hy).
      assert (y = x) by (apply Hinj; [right; exact Hy|left; reflexivity|exact Ey]). subst. contradiction.
    + apply IHs; [exact Hs|]. intros u v Hu Hv. apply Hinj; right; assumption.
  - rewrite map_length. lia.
  - intros v Hv. apply in_map_iff in Hv. destruct Hv as (u & <- & Hu). apply span_closed; assumption.
Qed.
Theorem coset_prob_well_defined d n gens f g :
  Forall (fun g => length g = (n + n)%nat) gens -> indep (n + n)%nat gens -> In g (span_list (n + n)%nat gens) ->
  coset_prob d n gens (xorv f g) = coset_prob d n gens f.
Proof.
  intros HF HI Hg. unfold coset_prob.
  rewrite (map_ext (fun h => prob d n (xorv (xorv f g) h)) (fun h => (fun h' => prob d n (xorv f h')) (xorv g h)))
    by (intros h; rewrite xorv_assoc; reflexivity).
  rewrite <- (map_map (xorv g) (fun h' => prob d n (xorv f h'))).
  apply sum_list_perm. apply Permutation_map.
  apply xor_span_perm; auto. apply span_nodup; assumption.
Qed.

(* tsr.delta: stabilizer tensors are deltas: 1 when all non-dummy (dimension > 1) indices are equal *)
Definition delta_val (dims idx : list nat) : K :=
  let nd := map snd (filter (fun p => negb (fst p =? 1)) (combine dims idx)) in
  match nd with
  | [] => rI
  | i :: rest => if forallb (Nat.eqb i) rest then rI else 0
  end.
Lemma delta_val_spec dims idx :
  delta_val dims idx = rI \/ delta_val dims idx = 0.
Proof. unfold delta_val. destruct (map snd _) as [|i rest]; auto. destruct (forallb _ rest); auto. Qed.
(* c10_delta_sem: a delta entry is 1 exactly when every pair of non-dummy legs carries the same index *)
Lemma delta_val_one dims idx : length dims = length idx ->
  (forall j k, j < length dims -> k < length dims -> nth j dims 1 <> 1 -> nth k dims 1 <> 1 -> nth j idx O = nth k idx O) ->
  delta_val dims idx = rI.
Proof.
  intros HL H. unfold delta_val.
  destruct (map snd (filter (fun p => negb (fst p =? 1)) (combine dims idx))) as [|i rest] eqn:E; [reflexivity|].
  replace (forallb (Nat.eqb i) rest) with true; [reflexivity|]. symmetry. apply forallb_forall. intros x Hx.
  apply Nat.eqb_eq.
  assert (Hin : forall y, In y (i :: rest) -> exists j, j < length dims /\ nth j dims 1 <> 1 /\ nth j idx O = y).
  { intros y Hy. rewrite <- E in Hy. apply in_map_iff in Hy. destruct Hy as ([d v] & <- & Hp). apply filter_In in Hp.
    destruct Hp as [Hc Hd]. cbn in Hd. apply (In_nth _ _ (1, O)) in Hc. destruct Hc as (j & Hj & Ej).
    rewrite combine_length, <- HL, Nat.min_id in Hj. rewrite combine_nth in Ej by exact HL. injection Ej as E1 E2.
    exists j. repeat split; auto. rewrite E1. intros ->. discriminate. }
  destruct (Hin i (or_introl eq_refl)) as (j & Hj & Hdj & <-).
  destruct (Hin x (or_intror Hx)) as (k & Hk & Hdk & <-). apply H; auto.
Qed.

(* qubit-node values of the planar networks: the probability of f . Z^n X^e Z^s X^w (horizontal edge)
   and the rotated index order for vertical edges (PlanarMPSDecoder.TNC.h_node_value / v_node_value) *)
Definition h_node (d : dist) (fx fz n e s w : bool) : K := pick d (xorb (xorb fx e) w) (xorb (xorb fz n) s).
Definition v_node (d : dist) (fx fz n e s w : bool) : K := h_node d fx fz e s w n.
Lemma h_node_is_prob d fx fz n e s w :
  prob d 1 (xorv [fx; fz] (xorv [false; n] (xorv [e; false] (xorv [false; s] [w; false]))))
  = h_node d fx fz n e s w * rI.
Proof.
  unfold h_node, prob. cbn [xorv firstn skipn prob_xz].
  replace (xorb fx (xorb false (xorb e (xorb false w)))) with (xorb (xorb fx e) w) by (destruct fx, e, w; reflexivity).
  replace (xorb fz (xorb n (xorb false (xorb s false)))) with (xorb (xorb fz n) s) by (destruct fz, n, s; reflexivity).
  reflexivity.
Qed.

End Coset.

(* ---- the arg-max choice: Python's max(zip(coset_ps, recoveries), key=first) returns the FIRST
   maximal element ---- *)
Fixpoint ml_go (best : Z) (besti i : nat) (ps : list Z) : nat :=
  match ps with
  | [] => besti
  | p :: ps' => if (best <? p)%Z then ml_go p i (S i) ps' else ml_go best besti (S i) ps'
  end.
Definition ml_choice (ps : list Z) : nat :=
  match ps with [] => 0 | p :: ps' => ml_go p 0 1 ps' end.

Lemma ml_go_spec ps : forall best besti i pre,
  length pre = i -> besti < i -> nth besti pre 0%Z = best ->
  (forall j, j < i -> (nth j pre 0 <= best)%Z) -> (forall j, j < besti -> (nth j pre 0 < best)%Z) ->
  let r := ml_go best besti i ps in
  r < i + length ps
  /\ (forall j, j < i + length ps -> (nth j (pre ++ ps) 0 <= nth r (pre ++ ps) 0)%Z)
  /\ (forall j, j < r -> (nth j (pre ++ ps) 0 < nth r (pre ++ ps) 0)%Z).
Proof.
  induction ps as [|p ps IH]; intros best besti i pre Hl Hb Hn Hmax Hfirst; cbn [ml_go].
  - cbn. rewrite app_nil_r, Nat.add_0_r, Hn. auto.
  - assert (Hpre : pre ++ p :: ps = (pre ++ [p]) ++ ps) by (rewrite <- app_assoc; reflexivity).
    cbn [length]. replace (i + S (length ps)) with (S i + length ps) by lia. rewrite Hpre.
    assert (Hnth : forall j, j < i -> nth j (pre ++ [p]) 0%Z = nth j pre 0%Z) by (intros; apply app_nth1; lia).
    assert (Hnp : nth i (pre ++ [p]) 0%Z = p) by (rewrite app_nth2 by lia; rewrite Hl, Nat.sub_diag; reflexivity).
    destruct (best <? p)%Z eqn:E.
    + apply Z.ltb_lt in E. apply IH.
      * rewrite app_length. cbn. lia.
      * lia.
      * exact Hnp.
      * intros j Hj. destruct (Nat.eq_dec j i) as [->|]; [rewrite Hnp; lia|]. rewrite Hnth by lia. specialize (Hmax j ltac:(lia)). lia.
      * intros j Hj. rewrite Hnth by lia. specialize (Hmax j ltac:(lia)). lia.
    + apply Z.ltb_ge in E. apply IH.
      * rewrite app_length. cbn. lia.
      * lia.
      * rewrite Hnth by lia. exact Hn.
      * intros j Hj. destruct (Nat.eq_dec j i) as [->|]; [rewrite Hnp; lia|]. rewrite Hnth by lia. apply Hmax. lia.
      * intros j Hj. rewrite Hnth by lia. apply Hfirst. exact Hj.
Qed.
(* c10_choice: the chosen index holds a maximal value and is the first such index *)
Theorem ml_choice_spec ps : ps <> [] ->
  ml_choice ps < length ps
  /\ (forall j, j < length ps -> (nth j ps 0 <= nth (ml_choice ps) ps 0)%Z)
  /\ (forall j, j < ml_choice ps -> (nth j ps 0 < nth (ml_choice ps) ps 0)%Z).
Proof.
  destruct ps as [|p ps]; [contradiction|]. intros _. unfold ml_choice.
  apply (ml_go_spec ps p 0 1 [p]); cbn; auto; intros j Hj; try lia.
  assert (j = 0) by lia. subst. cbn. lia.
Qed.
