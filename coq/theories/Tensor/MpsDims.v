(* Tensor/MpsDims.v — the shape (bond-dimension) model of mps.left_canonical_form,
   right_canonical_form, reverse, bond_dimension and truncate when tol is unset: the output
   shapes are a function of the input shapes, chi, qr and the mask (economic QR / SVD of an
   m x c matrix have min(m, c) columns; SVD keeps s[:chi]).  Theorems: every bond that may be
   cut is <= chi.  (The zero short-circuit to zeros_like is outside this model; the harness
   compares shapes only when it did not happen.) *)
From Coq Require Import List Arith Lia Bool ZArith.
From QV Require Import Tensor.StartStop.
Import ListNotations.
Local Open Scope nat_scope.

Definition shape := (nat * nat * nat * nat)%type.   (* (n, e, s, w) *)
Notation mpsd := (list (option shape)).
Definition sh_n (x : shape) := let '(n, _, _, _) := x in n.
Definition sh_s (x : shape) := let '(_, _, s, _) := x in s.

(* s[:chi] when chi is truthy *)
Definition chi_cut (chi : option Z) (k : nat) : nat :=
  match chi with
  | Some c => if (c =? 0)%Z then k else Nat.min k (Z.to_nat c)
  | None => k
  end.

(* the sweep over the contiguous run cur :: rest; masks aligned with the run *)
Fixpoint lcf_go (chi : option Z) (qr : bool) (cur : shape) (rest : list shape) (masks : list bool) : list shape :=
  match rest with
  | [] => [cur]
  | nxt :: rest' =>
      let '(n, e, s, w) := cur in
      let '(_, e', s', w') := nxt in
      let k := Nat.min (n * e * w) s in
      let k' := if negb qr && hd true masks then chi_cut chi k else k in
      (n, e, k', w) :: lcf_go chi qr (k', e', s', w') rest' (tl masks)
  end.
Definition lcf_run chi qr (run : list shape) (masks : list bool) : list shape :=
  match run with [] => [] | cur :: rest => lcf_go chi qr cur rest masks end.

Fixpoint somes {X} (l : list (option X)) : list X :=
  match l with [] => [] | Some t :: l' => t :: somes l' | None :: l' => somes l' end.
Definition masks_of (mask : option (list bool)) (len : nat) : list bool :=
  match mask with None => repeat true len | Some m => m end.

(* None = ValueError (no single contiguous run) *)
Definition lcf_dims (chi : option Z) (qr : bool) (mask : option (list bool)) (mps : mpsd) : option mpsd :=
  match start_stop mps with
  | None => None
  | Some (a, b) =>
      let run := somes (firstn (b - a) (skipn a mps)) in
      Some (repeat None a ++ map Some (lcf_run chi qr run (skipn a (masks_of mask (length mps))))
                   ++ repeat None (length mps - b))
  end.
Definition swap_ns (x : shape) : shape := let '(n, e, s, w) := x in (s, e, n, w).
Definition reverse_dims (mps : mpsd) : mpsd := rev (map (option_map swap_ns) mps).
Definition rcf_dims (chi : option Z) (qr : bool) (mask : option (list bool)) (mps : mpsd) : option mpsd :=
  option_map reverse_dims (lcf_dims chi qr (option_map (@rev bool) mask) (reverse_dims mps)).
Definition bond_dimension_d (mps : mpsd) : nat :=
  fold_right Nat.max 0 (map (fun o => match o with Some x => sh_n x | None => 0 end) mps).
Definition truncate_guard_d (chi : option Z) (mask : option (list bool)) (mps : mpsd) : bool :=
  negb (length mps =? 0)
  && match chi with Some c => negb (c =? 0)%Z && (c <? Z.of_nat (bond_dimension_d mps))%Z | None => false end
  && match mask with None => true | Some m => existsb (fun b => b) m end.
(* tol unset *)
Definition truncate_dims (chi : option Z) (mask : option (list bool)) (mps : mpsd) : option mpsd :=
  if truncate_guard_d chi mask mps then
    match lcf_dims None true None mps with
    | None => None
    | Some l => rcf_dims chi false mask l
    end
  else Some mps.

(* decidable equality of results, for the in-kernel shards *)
Definition shape_eqb (x y : shape) : bool :=
  let '(a, b, c, d) := x in let '(a', b', c', d') := y in (a =? a') && (b =? b') && (c =? c') && (d =? d').
Definition osh_eqb (x y : option shape) : bool :=
  match x, y with None, None => true | Some a, Some b => shape_eqb a b | _, _ => false end.
Fixpoint mpsd_eqb (x y : mpsd) : bool :=
  match x, y with [], [] => true | a :: x', b :: y' => osh_eqb a b && mpsd_eqb x' y' | _, _ => false end.
Definition sres_eqb (x y : option mpsd) : bool :=
  match x, y with None, None => true | Some a, Some b => mpsd_eqb a b | _, _ => false end.

(* ---- theorems ------------------------------------------------------------------------- *)
Lemma chi_cut_le c k : (0 < c)%Z -> chi_cut (Some c) k <= Z.to_nat c.
Proof. intros H. unfold chi_cut. replace (c =? 0)%Z with false by (symmetry; apply Z.eqb_neq; lia). lia. Qed.
Lemma chi_cut_le_k chi k : chi_cut chi k <= k.
Proof. unfold chi_cut. destruct chi as [c|]; [destruct (c =? 0)%Z|]; lia. Qed.

Lemma lcf_go_hd chi qr rest : forall cur masks, sh_n (hd cur (lcf_go chi qr cur rest masks)) = sh_n cur.
Proof. destruct rest as [|nxt rest]; intros [[[n e] s] w] masks; cbn; [reflexivity|]. destruct nxt as [[[? ?] ?] ?]. reflexivity. Qed.
Lemma lcf_go_length chi qr rest : forall cur masks, length (lcf_go chi qr cur rest masks) = S (length rest).
Proof. induction rest as [|nxt rest IH]; intros [[[n e] s] w] masks; cbn [lcf_go]; [reflexivity|].
  destruct nxt as [[[? ?] ?] ?]. cbn [length]. rewrite IH. reflexivity. Qed.

(* SVD sweep, every tensor unmasked: each bond inside the run is <= chi *)
Theorem lcf_go_bond c rest : (0 < c)%Z -> forall cur masks, (forall i, nth i masks true = true) ->
  Forall (fun x => sh_s x <= Z.to_nat c) (removelast (lcf_go (Some c) false cur rest masks))
  /\ Forall (fun x => sh_n x <= Z.to_nat c) (tl (lcf_go (Some c) false cur rest masks)).
Proof.
  intros Hc. induction rest as [|nxt rest IH]; intros [[[n e] s] w] masks Hm; cbn [lcf_go].
  - cbn. split; constructor.
  - destruct nxt as [[[n' e'] s'] w'].
    assert (Hh : hd true masks = true) by (specialize (Hm 0); destruct masks; cbn in *; auto).
    rewrite Hh. cbn [negb andb].
    set (k' := chi_cut (Some c) (Nat.min (n * e * w) s)).
    assert (Hk : k' <= Z.to_nat c) by (apply chi_cut_le; exact Hc).
    assert (Hm' : forall i, nth i (tl masks) true = true).
    { intros i. specialize (Hm (S i)). destruct masks; cbn in *; [destruct i; reflexivity|exact Hm]. }
    destruct (IH (k', e', s', w') (tl masks) Hm') as [IH1 IH2].
    pose proof (lcf_go_hd (Some c) false rest (k', e', s', w') (tl masks)) as Hhd.
    pose proof (lcf_go_length (Some c) false rest (k', e', s', w') (tl masks)) as Hlen.
    destruct (lcf_go (Some c) false (k', e', s', w') rest (tl masks)) as [|y ys] eqn:E; [discriminate|].
    split.
    + change (removelast ((n, e, k', w) :: y :: ys)) with ((n, e, k', w) :: removelast (y :: ys)).
      constructor; [exact Hk|exact IH1].
    + cbn [tl]. constructor; [|exact IH2]. cbn [hd] in Hhd. rewrite Hhd. exact Hk.
Qed.

(* the right-canonical sweep is the mirror image *)
Definition rev_shapes (l : list shape) : list shape := rev (map swap_ns l).
Definition rcf_run chi qr (run : list shape) (masks : list bool) : list shape :=
  rev_shapes (lcf_run chi qr (rev_shapes run) (rev masks)).
Lemma tl_rev {X} (l : list X) : tl (rev l) = rev (removelast l).
Proof.
  destruct (rev l) as [|x r] eqn:E.
  - apply (f_equal (@rev X)) in E. rewrite rev_involutive in E. subst. reflexivity.
  - apply (f_equal (@rev X)) in E. rewrite rev_involutive in E. cbn in E. subst. rewrite removelast_last, rev_involutive. reflexivity.
Qed.
Lemma removelast_rev {X} (l : list X) : removelast (rev l) = rev (tl l).
Proof. destruct l as [|x l]; [reflexivity|]. cbn [rev tl]. apply removelast_last. Qed.
Lemma map_removelast' {X Y} (f : X -> Y) l : map f (removelast l) = removelast (map f l).
Proof. induction l as [|x l IH]; [reflexivity|]. destruct l as [|y l]; [reflexivity|].
  change (f x :: map f (removelast (y :: l)) = f x :: removelast (map f (y :: l))). f_equal. exact IH. Qed.
Lemma swap_n x : sh_n (swap_ns x) = sh_s x. Proof. destruct x as [[[? ?] ?] ?]. reflexivity. Qed.
Lemma swap_s x : sh_s (swap_ns x) = sh_n x. Proof. destruct x as [[[? ?] ?] ?]. reflexivity. Qed.

Theorem rcf_run_bond c run masks : (0 < c)%Z -> (forall i, nth i (rev masks) true = true) ->
  Forall (fun x => sh_n x <= Z.to_nat c) (tl (rcf_run (Some c) false run masks))
  /\ Forall (fun x => sh_s x <= Z.to_nat c) (removelast (rcf_run (Some c) false run masks)).
Proof.
  intros Hc Hm. unfold rcf_run, lcf_run.
  destruct (rev_shapes run) as [|cur rest]; [cbn; split; constructor|].
  destruct (lcf_go_bond c rest Hc cur (rev masks) Hm) as [H1 H2].
  set (X := lcf_go (Some c) false cur rest (rev masks)) in *.
  unfold rev_shapes. split.
  - rewrite tl_rev. apply Forall_rev. rewrite <- map_removelast'.
    apply Forall_forall. intros y Hy. apply in_map_iff in Hy. destruct Hy as (x & <- & Hx).
    rewrite swap_n. rewrite Forall_forall in H1. apply H1. exact Hx.
  - rewrite removelast_rev. apply Forall_rev.
    assert (Ht : tl (map swap_ns X) = map swap_ns (tl X)) by (destruct X; reflexivity). rewrite Ht.
    apply Forall_forall. intros y Hy. apply in_map_iff in Hy. destruct Hy as (x & <- & Hx).
    rewrite swap_s. rewrite Forall_forall in H2. apply H2. exact Hx.
Qed.

(* truncate on a run: QR left-canonical sweep, then SVD right-canonical sweep cut at chi *)
Definition truncate_run (c : Z) (run : list shape) : list shape :=
  rcf_run (Some c) false (lcf_run None true run (repeat true (length run))) (repeat true (length run)).
Theorem truncate_run_bond c run : (0 < c)%Z ->
  Forall (fun x => sh_n x <= Z.to_nat c) (tl (truncate_run c run))
  /\ Forall (fun x => sh_s x <= Z.to_nat c) (removelast (truncate_run c run)).
Proof.
  intros Hc. unfold truncate_run. apply rcf_run_bond; [exact Hc|].
  intros i. destruct (nth_in_or_default i (rev (repeat true (length run))) true) as [H|H]; [|exact H].
  apply in_rev in H. apply repeat_spec in H. exact H.
Qed.
