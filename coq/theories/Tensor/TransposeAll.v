(* Tensor/TransposeAll.v — c11_transpose in general: for every well-shaped network,
   value (transpose tn) = value tn.  Route: both values are flat sums (Tensor/Flat.v) over a matrix of
   east indices and a matrix of south indices of the product of all entries; transposition swaps the two
   matrices and transposes each (Fubini for sums over index matrices, [sumtt_trl]); the product of all
   entries, written with positional lookups, is the same double product with the two loops exchanged. *)
From Coq Require Import List Arith Lia Bool ZArith Ring.
From QV Require Import Tensor.Sums Tensor.Net Tensor.StartStop Tensor.Contract Tensor.Sweep Tensor.Exact Tensor.Flat.
Import ListNotations.
Local Open Scope nat_scope.

(* ---- transposition of a list of lists, structurally ---- *)
Section Trl.
Context {X : Type}.
Fixpoint zipcons (l : list X) (R : list (list X)) : list (list X) :=
  match l, R with x :: l', p :: R' => (x :: p) :: zipcons l' R' | _, _ => [] end.
Fixpoint trl (r : nat) (M : list (list X)) : list (list X) :=
  match M with [] => repeat [] r | l :: M' => zipcons l (trl r M') end.

Lemma zipcons_length l : forall R, length l = length R -> length (zipcons l R) = length l.
Proof. induction l as [|x l IH]; intros [|p R] H; cbn in *; try discriminate; auto. Qed.
Lemma trl_length r M : Forall (fun l => length l = r) M -> length (trl r M) = r.
Proof.
  induction M as [|l M IH]; intros HF; cbn [trl]; [apply repeat_length|].
  inversion HF; subst. rewrite zipcons_length; auto. rewrite IH; auto.
Qed.
Lemma zipcons_nth l : forall R i d, length l = length R -> i < length l ->
  nth i (zipcons l R) [] = nth i l d :: nth i R [].
Proof.
  induction l as [|x l IH]; intros [|p R] i d HL Hi; cbn in *; try discriminate; try lia.
  destruct i as [|i]; [reflexivity|]. apply IH; lia.
Qed.
Lemma trl_nth r M : Forall (fun l => length l = r) M -> forall i j d, i < r ->
  nth j (nth i (trl r M) []) d = nth i (nth j M []) d.
Proof.
  induction M as [|l M IH]; intros HF i j d Hi; cbn [trl].
  - rewrite nth_repeat. destruct j; destruct i; reflexivity.
  - inversion HF as [|? ? Hl HF']; subst.
    rewrite (zipcons_nth l (trl (length l) M) i d) by (rewrite ?trl_length; auto).
    destruct j as [|j]; cbn [nth]; [reflexivity|]. apply IH; auto.
Qed.
Lemma trl_inner_length r M : Forall (fun l => length l = r) M -> forall i, i < r ->
  length (nth i (trl r M) []) = length M.
Proof.
  induction M as [|l M IH]; intros HF i Hi; cbn [trl].
  - rewrite nth_repeat. reflexivity.
  - inversion HF as [|? ? Hl HF']; subst.
    destruct l as [|x0 l0] eqn:El; [cbn in Hi; lia|]. rewrite <- El in *.
    rewrite (zipcons_nth l (trl (length l) M) i x0) by (rewrite ?trl_length; auto).
    cbn [length]. f_equal. apply IH; auto.
Qed.
End Trl.

Lemma zipcons_map {X Y} (f : X -> Y) l : forall R, map (map f) (zipcons l R) = zipcons (map f l) (map (map f) R).
Proof. induction l as [|x l IH]; intros [|p R]; cbn; auto. f_equal. apply IH. Qed.
Lemma trl_map {X Y} (f : X -> Y) r M : map (map f) (trl r M) = trl r (map (map f) M).
Proof.
  induction M as [|l M IH]; cbn [trl map].
  - induction r; cbn; congruence.
  - rewrite zipcons_map, IH. reflexivity.
Qed.
Lemma zipcons_seq {X} (g : nat -> X) (h : nat -> list X) a r :
  map (fun i => g i :: h i) (seq a r) = zipcons (map g (seq a r)) (map h (seq a r)).
Proof. revert a; induction r as [|r IH]; intros a; cbn; [reflexivity|]. f_equal. apply IH. Qed.

Section TransposeAll.
Variable K : cring.
Add Ring Kring : (cring_th K).
Local Notation tensor := (tensor K).
Local Notation col := (list (option tensor)).
Local Notation "0" := (r0 K).
Local Notation rI := (r1 K).
Local Infix "*" := (rmul K).
Local Notation deo := (deo K).
Local Notation dso := (dso K).
Local Notation dno := (dno K).
Local Notation dwo := (dwo K).
Local Notation otm := (option_map (transpose_tensor K)).
Local Notation entry := (entry K).
Local Notation colprod := (colprod K).
Local Notation prodnet := (prodnet K).
Local Notation sumtt := (sumtt K).

(* mps2d.transpose is the structural transposition with every tensor transposed *)
Lemma transpose_net_trl r (tn : list col) : Forall (fun A : col => length A = r) tn ->
  transpose_net K r tn = trl r (map (map otm) tn).
Proof.
  induction tn as [|A tn IH]; intros HF; unfold transpose_net in *.
  - cbn [map trl]. clear. generalize 0%nat. induction r; intros a; cbn; congruence.
  - inversion HF as [|? ? HA HF']; subst. cbn [map trl].
    rewrite (zipcons_seq (fun i => otm (nth i A None)) (fun i => map (fun c : col => otm (nth i c None)) tn)).
    rewrite IH by exact HF'. f_equal.
    rewrite <- (map_nth_seq A None) at 2. rewrite map_map. reflexivity.
Qed.

Lemma entry_otm o n e s w : entry (otm o) n e s w = entry o w s e n.
Proof. destruct o; reflexivity. Qed.
Lemma deo_otm o : deo (otm o) = dso o. Proof. destruct o; reflexivity. Qed.
Lemma dso_otm o : dso (otm o) = deo o. Proof. destruct o; reflexivity. Qed.
Lemma dno_otm o : dno (otm o) = dwo o. Proof. destruct o; reflexivity. Qed.

(* ---- finite products ---- *)
Fixpoint prodn (d : nat) (f : nat -> K) : K :=
  match d with O => rI | S d' => prodn d' f * f d' end.
Lemma prodn_ext d f g : (forall i, i < d -> f i = g i) -> prodn d f = prodn d g.
Proof. induction d as [|d IH]; intros H; cbn; [reflexivity|]. rewrite IH, H; auto. Qed.
Lemma prodn_mul d f g : prodn d (fun i => f i * g i) = prodn d f * prodn d g.
Proof. induction d as [|d IH]; cbn; [ring|]. rewrite IH. ring. Qed.
Lemma prodn_one d : prodn d (fun _ => rI) = rI.
Proof. induction d as [|d IH]; cbn; [reflexivity|]. rewrite IH. ring. Qed.
Lemma prodn_swap a b (f : nat -> nat -> K) :
  prodn a (fun i => prodn b (fun j => f i j)) = prodn b (fun j => prodn a (fun i => f i j)).
Proof. induction a as [|a IH]; cbn. - now rewrite prodn_one. - rewrite IH, <- prodn_mul. reflexivity. Qed.
Lemma prodn_shift d f : prodn (S d) f = f O * prodn d (fun i => f (S i)).
Proof. induction d as [|d IH]; [cbn; ring|]. change (prodn (S (S d)) f) with (prodn (S d) f * f (S d)). rewrite IH. cbn. ring. Qed.

(* the product of a column, with positional lookups *)
Lemma colprod_nth (A : col) : forall v ss ws es,
  length ss = length A -> length ws = length A -> length es = length A ->
  colprod A v ss ws es
  = prodn (length A) (fun i => entry (nth i A None) (match i with O => v | S i' => nth i' ss O end)
                                     (nth i es O) (nth i ss O) (nth i ws O)).
Proof.
  induction A as [|a A IH]; intros v ss ws es Hs Hw He.
  - destruct ss, ws, es; try discriminate. reflexivity.
  - destruct ss as [|s ss], ws as [|w ws], es as [|e es]; try discriminate.
    cbn [length] in *. rewrite prodn_shift. cbn [Flat.colprod nth]. f_equal.
    rewrite IH by lia. apply prodn_ext; intros i _. destruct i; reflexivity.
Qed.

Definition rect {X} (r c : nat) (M : list (list X)) : Prop := length M = c /\ Forall (fun l => length l = r) M.

(* the product of all entries, with positional lookups *)
Definition site_factor (cols : list col) (ws : list nat) (Es Ss : list (list nat)) (i j : nat) : K :=
  entry (nth i (nth j cols []) None)
        (match i with O => O | S i' => nth i' (nth j Ss []) O end)
        (nth i (nth j Es []) O) (nth i (nth j Ss []) O)
        (match j with O => nth i ws O | S j' => nth i (nth j' Es []) O end).
Lemma prodnet_nth r (cols : list col) : forall ws Es Ss,
  Forall (fun A : col => length A = r) cols -> length ws = r ->
  rect r (length cols) Es -> rect r (length cols) Ss ->
  prodnet cols ws Es Ss = prodn (length cols) (fun j => prodn r (fun i => site_factor cols ws Es Ss i j)).
Proof.
  induction cols as [|A cols IH]; intros ws Es Ss HF Hw [HEl HE] [HSl HS].
  - destruct Es, Ss; try discriminate. reflexivity.
  - destruct Es as [|e Es], Ss as [|s Ss]; try discriminate.
    inversion HF as [|? ? HA HF']; subst. inversion HE as [|? ? He HE']; subst. inversion HS as [|? ? Hs HS']; subst.
    cbn [length] in *. rewrite prodn_shift. cbn [Flat.prodnet]. f_equal.
    + rewrite colprod_nth by congruence. rewrite HA. apply prodn_ext; intros i _. unfold site_factor. cbn [nth]. reflexivity.
    + rewrite (IH e Es Ss) by (auto; split; auto; lia).
      apply prodn_ext; intros j _. apply prodn_ext; intros i _. unfold site_factor. cbn [nth].
      destruct j; reflexivity.
Qed.

(* ---- Fubini for sums over index matrices ---- *)
Local Notation sumt_ext := (sumt_ext K).
Local Notation sumn_ext := (sumn_ext K).
Fixpoint inrr (M D : list (list nat)) : Prop :=
  match M, D with
  | [], [] => True
  | t :: M', d :: D' => inr t d /\ inrr M' D'
  | _, _ => False
  end.
Lemma sumtt_ext_in D : forall f g, (forall M, inrr M D -> f M = g M) -> sumtt D f = sumtt D g.
Proof.
  induction D as [|d D IH]; intros f g H; cbn [Flat.sumtt]; [apply H; exact I|].
  apply (sumt_ext_in K); intros t Ht. apply IH. intros M HM. apply H. cbn. auto.
Qed.
Lemma inrr_rect r M : forall D, inrr M D -> Forall (fun l : list nat => length l = r) D ->
  length M = length D /\ Forall (fun l : list nat => length l = r) M.
Proof.
  induction M as [|t M IH]; intros [|d D] H HF; cbn in H; try contradiction; [split; [reflexivity|constructor]|].
  destruct H as [Ht H]. inversion HF; subst. destruct (IH D H) as [HL HM]; auto.
  split; [cbn; congruence|]. constructor; [|exact HM]. rewrite (inr_length t d Ht). reflexivity.
Qed.
Lemma sumtt_nils r h : sumtt (repeat [] r) h = h (repeat [] r).
Proof. revert h; induction r as [|r IH]; intros h; cbn; [reflexivity|]. apply (IH (fun M => h ([] :: M))). Qed.
Lemma sumtt_zipcons d : forall R g, length d = length R ->
  sumtt (zipcons d R) g = sumt d (fun t => sumtt R (fun M' => g (zipcons t M'))).
Proof.
  induction d as [|x d IH]; intros [|p R] g HL; cbn in HL; try discriminate; [reflexivity|].
  cbn [zipcons Flat.sumtt sumt].
  apply sumn_ext; intros a _.
  transitivity (sumt p (fun q => sumt d (fun t' => sumtt R (fun M'' => g ((a :: q) :: zipcons t' M''))))).
  - apply sumt_ext; intros q. apply (IH R (fun N => g ((a :: q) :: N))). lia.
  - apply (sumt_swap K).
Qed.
Lemma sumtt_trl r D : Forall (fun l : list nat => length l = r) D -> forall h,
  sumtt (trl r D) h = sumtt D (fun M => h (trl r M)).
Proof.
  induction D as [|d D IH]; intros HF h; cbn [trl Flat.sumtt].
  - apply sumtt_nils.
  - inversion HF as [|? ? Hd HF']; subst.
    rewrite sumtt_zipcons by (rewrite trl_length; auto).
    apply sumt_ext; intros t. apply (IH HF' (fun M' => h (zipcons t M'))).
Qed.

(* ---- the transposed network, positionally ---- *)
Lemma trl_rect {X} r c (M : list (list X)) : rect r c M -> rect c r (trl r M).
Proof.
  intros [HL HF]. split; [apply trl_length; exact HF|].
  apply Forall_forall. intros l Hl. apply (In_nth _ _ []) in Hl. destruct Hl as (i & Hi & <-).
  rewrite trl_length in Hi by exact HF. rewrite trl_inner_length; auto.
Qed.
Lemma tnT_site r (tn : list col) i j : Forall (fun A : col => length A = r) tn -> i < r ->
  nth j (nth i (trl r (map (map otm) tn)) []) None = otm (nth i (nth j tn []) None).
Proof.
  intros HF Hi. rewrite trl_nth; auto.
  - change (@nil (option tensor)) with (map otm []) at 1. rewrite map_nth.
    change (@None tensor) with (otm None) at 1. rewrite map_nth. reflexivity.
  - apply Forall_forall. intros l Hl. apply in_map_iff in Hl. destruct Hl as (A & <- & HA).
    rewrite map_length. rewrite Forall_forall in HF. auto.
Qed.

Lemma prodnet_transpose r c (tn : list col) Es Ss :
  Forall (fun A : col => length A = r) tn -> length tn = c -> rect r c Es -> rect r c Ss ->
  prodnet (trl r (map (map otm) tn)) (repeat O c) (trl r Ss) (trl r Es) = prodnet tn (repeat O r) Es Ss.
Proof.
  intros HF HL HE HS.
  assert (HFm : Forall (fun l : col => length l = r) (map (map otm) tn)).
  { apply Forall_forall. intros l Hl. apply in_map_iff in Hl. destruct Hl as (A & <- & HA).
    rewrite map_length. rewrite Forall_forall in HF. auto. }
  assert (HT : rect c r (trl r (map (map otm) tn))) by (apply trl_rect; split; [rewrite map_length; exact HL|exact HFm]).
  destruct HT as [HTl HTf].
  rewrite (prodnet_nth c) by (auto; try apply repeat_length; rewrite HTl; apply trl_rect; assumption).
  rewrite (prodnet_nth r tn) by (auto; try apply repeat_length; rewrite HL; assumption).
  rewrite HTl, HL. rewrite (prodn_swap c r).
  apply prodn_ext; intros i Hi. apply prodn_ext; intros j Hj.
  unfold site_factor. rewrite tnT_site by auto. rewrite entry_otm.
  destruct HE as [_ HEf], HS as [_ HSf].
  f_equal.
  - destruct i as [|i']; [apply nth_repeat|]. apply trl_nth; auto; lia.
  - apply trl_nth; auto.
  - apply trl_nth; auto.
  - destruct j as [|j']; [symmetry; apply nth_repeat|]. apply trl_nth; auto.
Qed.

(* ---- shapes of the transposed network ---- *)
Lemma vchain_of_nth (A : col) :
  (forall j, S j < length A -> dso (nth j A None) = dno (nth (S j) A None)) -> vchain K A.
Proof.
  induction A as [|x A IH]; intros H; [exact I|].
  change (match A with y :: _ => dso x = dno y | [] => True end /\ vchain K A). split.
  - destruct A as [|y A]; [exact I|]. apply (H O). cbn. lia.
  - apply IH. intros j Hj. apply (H (S j)). cbn. lia.
Qed.
Lemma hmatch_nth (A : col) : forall (B : col) i, hmatch K A B -> deo (nth i A None) = dwo (nth i B None).
Proof.
  induction A as [|a A IH]; intros [|b B] i H; cbn in H; try contradiction.
  - destruct i; reflexivity.
  - destruct H as [H1 H2]. destruct i as [|i]; cbn [nth]; [exact H1|apply IH; exact H2].
Qed.
Lemma hchain_nth (tn : list col) : forall j, hchain K tn -> S j < length tn -> hmatch K (nth j tn []) (nth (S j) tn []).
Proof.
  induction tn as [|A tn IH]; intros j H Hj; [cbn in Hj; lia|].
  change (match tn with B :: _ => hmatch K A B | [] => True end /\ hchain K tn) in H. destruct H as [H1 H2].
  destruct j as [|j].
  - destruct tn as [|B tn]; [cbn in Hj; lia|]. exact H1.
  - cbn [nth]. apply IH; [exact H2|]. cbn in Hj. lia.
Qed.
Lemma last_as_nth {X} (l : list X) d : last l d = nth (length l - 1) l d.
Proof.
  induction l as [|x l IH]; [reflexivity|]. destruct l as [|y l]; [reflexivity|].
  change (last (x :: y :: l) d) with (last (y :: l) d). rewrite IH. cbn [length].
  replace (S (S (length l)) - 1) with (S (length l)) by lia. replace (S (length l) - 1) with (length l) by lia.
  reflexivity.
Qed.
Lemma eq_repeat_ones (l : list nat) c : length l = c -> (forall j, j < c -> nth j l O = 1) -> l = repeat 1 c.
Proof.
  intros HL H. apply (nth_ext _ _ O 1); [rewrite repeat_length; exact HL|].
  intros j Hj. rewrite nth_repeat. apply H. lia.
Qed.

Lemma Edims_tnT r (tn : list col) : Edims K (trl r (map (map otm) tn)) = trl r (Sdims K tn).
Proof.
  unfold Edims, Sdims. rewrite trl_map. f_equal. rewrite map_map. apply map_ext. intros A. rewrite map_map.
  apply map_ext. intros o. apply deo_otm.
Qed.
Lemma Sdims_tnT r (tn : list col) : Sdims K (trl r (map (map otm) tn)) = trl r (Edims K tn).
Proof.
  unfold Edims, Sdims. rewrite trl_map. f_equal. rewrite map_map. apply map_ext. intros A. rewrite map_map.
  apply map_ext. intros o. apply dso_otm.
Qed.

(* c11_transpose: for every well-shaped network, the transposed network has the same value *)
Theorem transpose_value r c (tn : list col) : netwf K r tn -> length tn = c ->
  value c (transpose_net K r tn) = value r tn.
Proof.
  intros Hwf HL.
  pose proof Hwf as (Hne & HC & HH & HN & HS & HWest & HEast & (a & b & Hab & Hrun)).
  assert (Hr : 0 < r) by lia.
  assert (HF : Forall (fun A : col => length A = r) tn).
  { eapply Forall_impl; [|exact HC]. intros A (L & _). exact L. }
  assert (HV : Forall (vchain K) tn).
  { eapply Forall_impl; [|exact HC]. intros A (_ & V & _). exact V. }
  assert (HFm : Forall (fun l : col => length l = r) (map (map otm) tn)).
  { apply Forall_forall. intros l Hl. apply in_map_iff in Hl. destruct Hl as (A & <- & HA).
    rewrite map_length. rewrite Forall_forall in HF. auto. }
  rewrite transpose_net_trl by exact HF.
  set (tnT := trl r (map (map otm) tn)).
  assert (HT : rect c r tnT) by (apply trl_rect; split; [rewrite map_length; exact HL|exact HFm]).
  destruct HT as [HTl HTf].
  (* the original value, flat *)
  rewrite (value_symval K r tn) ; auto.
  2:{ rewrite last_as_nth. rewrite Forall_forall in HF. apply HF. apply nth_In.
      destruct tn; [contradiction|cbn; lia]. }
  (* the transposed value, flat *)
  rewrite (value_symval K c tnT).
  - unfold symval. fold tnT. unfold tnT at 1 2. rewrite Edims_tnT, Sdims_tnT. fold tnT.
    assert (HRS : Forall (fun l : list nat => length l = r) (Sdims K tn)).
    { apply Forall_forall. intros l Hl. apply in_map_iff in Hl. destruct Hl as (A & <- & HA).
      rewrite map_length. rewrite Forall_forall in HF. auto. }
    assert (HRE : Forall (fun l : list nat => length l = r) (Edims K tn)).
    { apply Forall_forall. intros l Hl. apply in_map_iff in Hl. destruct Hl as (A & <- & HA).
      rewrite map_length. rewrite Forall_forall in HF. auto. }
    rewrite (sumtt_trl r (Sdims K tn) HRS).
    rewrite (sumtt_ext _ _ _ (fun Ss => Flat.sumtt K (Edims K tn) (fun Es => prodnet tnT (repeat O c) (trl r Ss) (trl r Es))))
      by (intros Ss; apply (sumtt_trl r (Edims K tn) HRE)).
    rewrite sumtt_swap.
    apply sumtt_ext_in; intros Es HEs. apply sumtt_ext_in; intros Ss HSs.
    destruct (inrr_rect r Es _ HEs HRE) as [HEl HEf]. destruct (inrr_rect r Ss _ HSs HRS) as [HSl HSf].
    unfold Edims in HEl. unfold Sdims in HSl. rewrite map_length in HEl, HSl.
    apply (prodnet_transpose r c); auto; split; auto; congruence.
  - intros E. rewrite E in HTl. cbn in HTl. lia.
  - apply Forall_forall. intros A HA. apply (In_nth _ _ []) in HA. destruct HA as (i & Hi & <-).
    rewrite HTl in Hi. apply vchain_of_nth. intros j Hj.
    unfold tnT in *. rewrite trl_inner_length in Hj by auto. rewrite map_length in Hj.
    rewrite !tnT_site by auto. rewrite dso_otm, dno_otm.
    apply hmatch_nth. apply hchain_nth; auto.
  - rewrite last_as_nth. rewrite Forall_forall in HTf. apply HTf. apply nth_In. lia.
  - rewrite last_as_nth, HTl.
    assert (HLc : length (nth (r - 1) tnT []) = c) by (rewrite Forall_forall in HTf; apply HTf; apply nth_In; lia).
    apply eq_repeat_ones; [rewrite map_length; exact HLc|].
    intros j Hj. rewrite (nth_indep _ O (deo None)) by (rewrite map_length; lia). rewrite map_nth.
    unfold tnT. rewrite tnT_site by (auto; lia). rewrite deo_otm.
    assert (HA : In (nth j tn []) tn) by (apply nth_In; lia).
    rewrite Forall_forall in HS, HF.
    transitivity (dso (last (nth j tn []) None)); [|apply HS; exact HA].
    f_equal. rewrite last_as_nth. rewrite (HF _ HA). reflexivity.
Qed.

End TransposeAll.

(* the flat-sum form of the value for every well-shaped network (hypotheses of Flat.value_flat from netwf) *)
Theorem value_flat_wf (K : cring) r (tn : list (list (option (tensor K)))) : netwf K r tn ->
  value r tn = flatval K tn (repeat 0 r).
Proof.
  intros Hwf. pose proof Hwf as (Hne & HC & _ & _ & _ & _ & HEast & _).
  apply value_flat; auto.
  - eapply Forall_impl; [|exact HC]. intros A (_ & V & _). exact V.
  - rewrite last_as_nth. rewrite Forall_forall in HC. destruct (HC (nth (length tn - 1) tn [])) as (L & _); auto.
    apply nth_In. destruct tn; [contradiction|cbn; lia].
Qed.
