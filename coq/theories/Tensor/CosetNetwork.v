(* Tensor/CosetNetwork.v — C10: the tensor network built by PlanarMPSDecoder.TNC.create_tn for the planar code of
   EVERY size rows, cols >= 2, any single-qubit distribution and any sample recovery f, has as its exact value the
   probability of the coset f.G of the stabilizer group (Tensor/Coset.coset_prob over PlanarCode.stabilizers).

   Form proved: the CONCRETE planar network with delta (stabilizer) nodes and node_shape dummy legs
   (Tensor/PlanarNet.planar_tn), not only the abstract factor graph (Tensor/CosetSum.factor_graph_value).
   Chain:   exact column sweep (Noop.sweep_exact)  =  Net.value  =  Flat.flatval (flat sum over all bonds)
          =  sum over one bit per stabilizer node of the product of the qubit-node entries   (PlanarNet.planar_tn_value)
          =  sum over subsets of generators of Pr(f * product)                               (this file, lattice incidence)
          =  coset_prob                                                                       (CosetSum.sumB_lincomb_span). *)
From Coq Require Import ZArith List Bool Lia ZifyBool Permutation.
From QV Require Import Core.Bits Core.Pauli Core.Symp Core.Code Core.Span Core.Rank Generated.LatticeArith
  Lattice.Planar Lattice.PlanarAll Lattice.PlanarRankAll Lattice.PlanarDistAll
  Tensor.Sums Tensor.Net Tensor.StartStop Tensor.Contract Tensor.Sweep Tensor.Ladder Tensor.Exact Tensor.Noop Tensor.Split Tensor.Flat Tensor.Transpose Tensor.TransposeAll
  Tensor.Coset Tensor.CosetSum Tensor.PlanarNet.
Import ListNotations.
Open Scope Z_scope.
Ltac Zify.zify_post_hook ::= Z.to_euclidean_division_equations.

(* parity of naturals, for lia *)
Lemma even_Z k : Nat.even k = true -> Z.of_nat k mod 2 = 0.
Proof. intros H. apply Nat.even_spec in H. destruct H as [m ->]. lia. Qed.
Lemma odd_Z k : Nat.odd k = true -> Z.of_nat k mod 2 = 1.
Proof. intros H. apply Nat.odd_spec in H. destruct H as [m ->]. lia. Qed.
Lemma Z_even k : Z.of_nat k mod 2 = 0 -> Nat.even k = true.
Proof.
  intros H. destruct (Nat.even k) eqn:E; [reflexivity|].
  assert (Ho : Nat.odd k = true) by (unfold Nat.odd; rewrite E; reflexivity). apply odd_Z in Ho. lia.
Qed.
Lemma Z_odd k : Z.of_nat k mod 2 = 1 -> Nat.odd k = true.
Proof. intros H. unfold Nat.odd. destruct (Nat.even k) eqn:E; [apply even_Z in E; lia|reflexivity]. Qed.

Lemma firstn_seq' n : forall s l, firstn n (seq s l) = seq s (Nat.min n l).
Proof. induction n as [|n IH]; intros s [|l]; cbn; auto. f_equal. apply IH. Qed.
Lemma select_map_filter {A} (g : A -> bool) (h : A -> bsf) L : select (map g L) (map h L) = map h (filter g L).
Proof. induction L as [|a L IH]; cbn [map filter select]; [reflexivity|]. destruct (g a); cbn [map]; now rewrite IH. Qed.

Section CosetNetwork.
Variable K : cring.
Variable d : dist K.
Variables rows cols : Z.
Hypothesis Hr : 2 <= rows.
Hypothesis Hc : 2 <= cols.
Notation N := (planar_n rows cols).
Notation PI := (plaquette_indices rows cols).
Notation inb := (planar_is_in_bounds rows cols).
Notation fl := (PlanarAll.fl rows cols).
Notation isite := (isite rows cols).
Notation xat := (xat rows cols).
Notation zat := (zat rows cols).
Notation memb := (memb rows cols).
Notation gprod := (PlanarDistAll.prod rows cols).
Notation stab := (stab rows cols).

(* the grid of create_tn: (2 rows - 1) x (2 cols - 1) nodes *)
Definition tn_rows : nat := Z.to_nat (2 * rows - 1).
Definition tn_cols : nat := Z.to_nat (2 * cols - 1).
Lemma tn_rows_pos : (1 <= tn_rows)%nat. Proof. unfold tn_rows. lia. Qed.
Lemma tn_cols_ge2 : (2 <= tn_cols)%nat. Proof. unfold tn_cols. lia. Qed.

(* ---- sites ---- *)
Lemma QL_site k c : In (k, c) (QL tn_rows tn_cols) -> isite (npos k c) /\ (k < tn_rows)%nat /\ (c < tn_cols)%nat /\ Nat.even (k + c) = true.
Proof.
  intros H. apply (in_QL tn_rows tn_cols tn_rows_pos tn_cols_ge2) in H. destruct H as (Hc' & Hk & He). repeat split; auto.
  - rewrite site_unfold. unfold npos. cbn [fst snd]. apply even_Z in He. unfold tn_rows, tn_cols in *. lia.
  - rewrite inb_unfold. unfold npos. cbn [fst snd]. unfold tn_rows, tn_cols in *. lia.
Qed.
Lemma xat_nth e s : isite s -> xat e s = nth (fl s) e false.
Proof.
  intros [Hs Hi]. unfold PlanarDistAll.xat. rewrite Hi. cbn [andb]. apply nth_firstn_lt'. now apply fl_lt.
Qed.
Lemma zat_nth e s : isite s -> zat e s = nth (N + fl s) e false.
Proof. intros [Hs Hi]. unfold PlanarDistAll.zat. rewrite Hi. cbn [andb]. apply nth_skipn_add'. Qed.

(* the sample recovery, as a binary symplectic vector; the qubit node at (k, c) is built from
   sample_pauli.operator((k, c)), i.e. from its X and Z components at that site *)
Variable f : bsf.
Hypothesis Hf : length f = (N + N)%nat.
Definition fxb (k c : nat) : bool := xat f (npos k c).
Definition fzb (k c : nat) : bool := zat f (npos k c).
(* TNC.create_tn(prob_dist, sample_pauli) *)
Definition planar_network : list (list (option (tensor K))) := planar_tn K d tn_rows tn_cols fxb fzb.


(* ---- the components of a product of stabilizer generators at a site: the two adjacent generators of each type ---- *)
Section Prod.
Variable g : idx -> bool.
Definition gm (q : idx) : bool := memb q && g q.

Lemma xat_prod_nb sr sc : isite (sr, sc) ->
  xat (gprod g) (sr, sc)
  = if sr mod 2 =? 0 then xorb (gm (sr, sc + 1)) (gm (sr, sc - 1)) else xorb (gm (sr + 1, sc)) (gm (sr - 1, sc)).
Proof.
  intros Hs. rewrite (xat_prod rows cols Hr Hc g _ Hs). destruct Hs as [Hs _]. rewrite site_unfold in Hs. cbn [fst snd] in Hs.
  destruct (sr mod 2 =? 0) eqn:Ep.
  - apply (xsumb_two rows cols g _ (sr, sc + 1) (sr, sc - 1)).
    + intros H. apply (f_equal snd) in H. cbn in H. lia.
    + intros q Hq. destruct (xbit_plaq_op rows cols q Hq) as [-> _]. apply in_plaquette_indices in Hq. destruct Hq as [Hq1 Hq2].
      rewrite plaq_unfold in Hq1. destruct q as [qr qc]. unfold adj, zeqb2. cbn [fst snd] in *. lia.
  - apply (xsumb_two rows cols g _ (sr + 1, sc) (sr - 1, sc)).
    + intros H. apply (f_equal fst) in H. cbn in H. lia.
    + intros q Hq. destruct (xbit_plaq_op rows cols q Hq) as [-> _]. apply in_plaquette_indices in Hq. destruct Hq as [Hq1 Hq2].
      rewrite plaq_unfold in Hq1. destruct q as [qr qc]. unfold adj, zeqb2. cbn [fst snd] in *. lia.
Qed.
Lemma zat_prod_nb sr sc : isite (sr, sc) ->
  zat (gprod g) (sr, sc)
  = if sr mod 2 =? 0 then xorb (gm (sr - 1, sc)) (gm (sr + 1, sc)) else xorb (gm (sr, sc + 1)) (gm (sr, sc - 1)).
Proof.
  intros Hs. rewrite (zat_prod rows cols Hr Hc g _ Hs). destruct Hs as [Hs _]. rewrite site_unfold in Hs. cbn [fst snd] in Hs.
  destruct (sr mod 2 =? 0) eqn:Ep.
  - apply (xsumb_two rows cols g _ (sr - 1, sc) (sr + 1, sc)).
    + intros H. apply (f_equal fst) in H. cbn in H. lia.
    + intros q Hq. destruct (xbit_plaq_op rows cols q Hq) as [_ ->]. apply in_plaquette_indices in Hq. destruct Hq as [Hq1 Hq2].
      rewrite plaq_unfold in Hq1. destruct q as [qr qc]. unfold adj, zeqb2. cbn [fst snd] in *. lia.
  - apply (xsumb_two rows cols g _ (sr, sc + 1) (sr, sc - 1)).
    + intros H. apply (f_equal snd) in H. cbn in H. lia.
    + intros q Hq. destruct (xbit_plaq_op rows cols q Hq) as [_ ->]. apply in_plaquette_indices in Hq. destruct Hq as [Hq1 Hq2].
      rewrite plaq_unfold in Hq1. destruct q as [qr qc]. unfold adj, zeqb2. cbn [fst snd] in *. lia.
Qed.

(* the bits read by the network across its (dummy) border are 0, as the lattice has no generator there *)
Ltac memb_tac := symmetry; unfold PlanarDistAll.memb; rewrite plaq_unfold, inb_unfold; cbn [fst snd]; unfold tn_rows, tn_cols in *; lia.
Lemma gm_east k c : (k < tn_rows)%nat -> Nat.even (k + c) = true ->
  gm (Z.of_nat k, Z.of_nat c + 1) = (S c <? tn_cols)%nat && g (npos k (S c)).
Proof.
  intros Hk He. apply even_Z in He. unfold gm, npos. replace (Z.of_nat (S c)) with (Z.of_nat c + 1) by lia.
  destruct (S c <? tn_cols)%nat eqn:E; [apply Nat.ltb_lt in E|apply Nat.ltb_ge in E].
  - replace (memb (Z.of_nat k, Z.of_nat c + 1)) with true by memb_tac. reflexivity.
  - replace (memb (Z.of_nat k, Z.of_nat c + 1)) with false by memb_tac. reflexivity.
Qed.
Lemma gm_west k c : (k < tn_rows)%nat -> (c < tn_cols)%nat -> Nat.even (k + c) = true ->
  gm (Z.of_nat k, Z.of_nat c - 1) = (0 <? c)%nat && g (npos k (c - 1)).
Proof.
  intros Hk Hc' He. apply even_Z in He. unfold gm, npos.
  destruct (0 <? c)%nat eqn:E; [apply Nat.ltb_lt in E|apply Nat.ltb_ge in E].
  - replace (Z.of_nat (c - 1)) with (Z.of_nat c - 1) by lia.
    replace (memb (Z.of_nat k, Z.of_nat c - 1)) with true by memb_tac. reflexivity.
  - replace (memb (Z.of_nat k, Z.of_nat c - 1)) with false by memb_tac. reflexivity.
Qed.
Lemma gm_south k c : (c < tn_cols)%nat -> Nat.even (k + c) = true ->
  gm (Z.of_nat k + 1, Z.of_nat c) = (S k <? tn_rows)%nat && g (npos (S k) c).
Proof.
  intros Hc' He. apply even_Z in He. unfold gm, npos. replace (Z.of_nat (S k)) with (Z.of_nat k + 1) by lia.
  destruct (S k <? tn_rows)%nat eqn:E; [apply Nat.ltb_lt in E|apply Nat.ltb_ge in E].
  - replace (memb (Z.of_nat k + 1, Z.of_nat c)) with true by memb_tac. reflexivity.
  - replace (memb (Z.of_nat k + 1, Z.of_nat c)) with false by memb_tac. reflexivity.
Qed.
Lemma gm_north k c : (k < tn_rows)%nat -> (c < tn_cols)%nat -> Nat.even (k + c) = true ->
  gm (Z.of_nat k - 1, Z.of_nat c) = (0 <? k)%nat && g (npos (k - 1) c).
Proof.
  intros Hk Hc' He. apply even_Z in He. unfold gm, npos.
  destruct (0 <? k)%nat eqn:E; [apply Nat.ltb_lt in E|apply Nat.ltb_ge in E].
  - replace (Z.of_nat (k - 1)) with (Z.of_nat k - 1) by lia.
    replace (memb (Z.of_nat k - 1, Z.of_nat c)) with true by memb_tac. reflexivity.
  - replace (memb (Z.of_nat k - 1, Z.of_nat c)) with false by memb_tac. reflexivity.
Qed.

(* the entry of the qubit node at the bits of g is the probability of the letter of f * prod(g) at that qubit *)
Lemma site_factor k c : In (k, c) (QL tn_rows tn_cols) ->
  siteval K d tn_rows tn_cols fxb fzb g (k, c)
  = pick K d (nth (fl (npos k c)) (xorv f (gprod g)) false) (nth (N + fl (npos k c)) (xorv f (gprod g)) false).
Proof.
  intros Hin. destruct (QL_site k c Hin) as (Hs & Hk & Hc' & He).
  assert (HL : length f = length (gprod g)) by (rewrite prod_length; exact Hf).
  rewrite !nth_xorv by exact HL. rewrite <- !xat_nth, <- !zat_nth by exact Hs.
  unfold npos at 2 4. rewrite xat_prod_nb, zat_prod_nb by exact Hs.
  rewrite gm_east, gm_west, gm_south, gm_north by assumption.
  unfold siteval, sval, fxb, fzb, v_node, h_node.
  destruct (Nat.even k) eqn:Ek.
  - replace (Z.of_nat k mod 2 =? 0) with true by (apply even_Z in Ek; lia). f_equal; apply xorb_assoc.
  - replace (Z.of_nat k mod 2 =? 0) with false by (assert (Ho : Nat.odd k = true) by (unfold Nat.odd; rewrite Ek; reflexivity); apply odd_Z in Ho; lia).
    f_equal; apply xorb_assoc.
Qed.
End Prod.

(* ---- the qubit nodes are the qubits, each once ---- *)
Definition flq (kc : nat * nat) : nat := fl (npos (fst kc) (snd kc)).
Lemma QL_perm : Permutation (map flq (QL tn_rows tn_cols)) (seq 0 N).
Proof.
  apply NoDup_Permutation.
  - apply NoDup_map_inj_on; [|apply NoDup_QL].
    intros [k c] [k' c'] H1 H2 E. apply QL_site in H1, H2. destruct H1 as (H1 & _), H2 as (H2 & _).
    unfold flq in E. cbn [fst snd] in E. apply (fl_inj rows cols Hr Hc _ _ H1 H2) in E. apply npos_inj in E. destruct E; congruence.
  - apply seq_NoDup.
  - intros x. rewrite in_seq. split.
    + intros H. apply in_map_iff in H. destruct H as ([k c] & <- & Hin). apply QL_site in Hin. destruct Hin as ((Hs & Hi) & _).
      unfold flq. cbn [fst snd]. pose proof (fl_lt rows cols Hr Hc _ Hs Hi). lia.
    + intros Hx. destruct (planar_flatten_surjective rows cols Hr Hc (Z.of_nat x) ltac:(lia)) as [[Hs Hi] Hfl].
      destruct (unflatten rows cols (Z.of_nat x)) as [sr sc] eqn:Eu.
      rewrite site_unfold in Hs. rewrite inb_unfold in Hi. cbn [fst snd] in Hs, Hi.
      apply in_map_iff. exists (Z.to_nat sr, Z.to_nat sc). split.
      * unfold flq, PlanarAll.fl, npos. cbn [fst snd]. rewrite !Z2Nat.id by lia. rewrite Hfl. lia.
      * apply (in_QL tn_rows tn_cols tn_rows_pos tn_cols_ge2). unfold tn_rows, tn_cols. repeat split; try lia. apply Z_even. lia.
Qed.

(* ---- the stabilizer nodes are the plaquettes, each once ---- *)
Lemma PL_perm : Permutation (PL tn_rows tn_cols) PI.
Proof.
  apply NoDup_Permutation.
  - apply (NoDup_PL tn_rows tn_cols tn_rows_pos tn_cols_ge2).
  - apply NoDup_plaquette_indices.
  - intros q. rewrite (in_PL tn_rows tn_cols tn_rows_pos tn_cols_ge2). rewrite in_plaquette_indices. rewrite plaq_unfold, inb_unfold. split.
    + intros (k & c & Hk & Hc' & Ho & ->). apply odd_Z in Ho. unfold npos. cbn [fst snd]. unfold tn_rows, tn_cols in *. lia.
    + intros [H1 H2]. destruct q as [qr qc]. cbn [fst snd] in *. exists (Z.to_nat qr), (Z.to_nat qc).
      unfold npos, tn_rows, tn_cols. repeat split; try lia.
      * apply Z_odd. lia.
      * f_equal; lia.
Qed.

Lemma prod_lincomb g : gprod g = lincomb (N + N) (map g PI) (map stab PI).
Proof. unfold PlanarDistAll.prod. rewrite lincomb_select, select_map_filter. reflexivity. Qed.

(* ================================================================================================== *)
(** * Main theorems                                                                                    *)
(* ================================================================================================== *)

(* every term: the product of the qubit-node entries at the bits g is the probability of f * prod(g) *)
Theorem network_term g :
  prodl (QL tn_rows tn_cols) (siteval K d tn_rows tn_cols fxb fzb g) = prob K d N (xorv f (gprod g)).
Proof.
  rewrite prob_factor by (rewrite xorv_length; rewrite ?prod_length; exact Hf).
  rewrite <- (prodl_perm K _ _ _ QL_perm). rewrite prodl_map. apply prodl_ext_in. intros [k c] Hin.
  unfold flq. cbn [fst snd]. apply site_factor. exact Hin.
Qed.

(* C10, concrete planar network, all sizes: the specification value of the network built by create_tn is the
   coset probability of the sample over the code's stabilizer generators *)
Theorem planar_network_value : value tn_rows planar_network = coset_prob K d N (stabilizers rows cols) f.
Proof.
  unfold planar_network. rewrite (planar_tn_value K d tn_rows tn_cols tn_rows_pos tn_cols_ge2 fxb fzb (fun _ => false)).
  rewrite (sumA_ext_in K zz_eqb zz_eqb_eq _ _ (fun g => prob K d N (xorv f (gprod g)))) by (intros g _; apply network_term).
  rewrite (sumA_perm K zz_eqb zz_eqb_eq _ _ PL_perm).
  2:{ intros g g' Hg. do 2 f_equal. unfold PlanarDistAll.prod. do 2 f_equal. apply filter_ext. exact Hg. }
  rewrite sumA_sumB.
  rewrite (sumB_ext K _ _ (fun t => prob K d N (xorv f (lincomb (N + N) t (map stab PI))))).
  - replace (length PI) with (length (map stab PI)) by apply map_length.
    rewrite (sumB_lincomb_span K (fun v => prob K d N (xorv f v))). unfold coset_prob. rewrite stabilizers_eq. reflexivity.
  - intros t Ht. rewrite prod_lincomb. rewrite (asg_map zz_eqb zz_eqb_eq) by (auto using NoDup_plaquette_indices). reflexivity.
Qed.

(* the network satisfies the hypothesis of the exact-contraction theorems *)
Theorem planar_network_wf : netwf K tn_rows planar_network.
Proof. apply planar_tn_wf; [apply tn_rows_pos|apply tn_cols_ge2]. Qed.

(* hence the flat sum over ALL bond assignments of the product of ALL entries is the coset probability ... *)
Theorem planar_network_flat : flatval K planar_network (repeat 0%nat tn_rows) = coset_prob K d N (stabilizers rows cols) f.
Proof. rewrite <- (value_flat_wf K tn_rows planar_network planar_network_wf). apply planar_network_value. Qed.

(* ... and so is the number returned by the decoder's untruncated column sweep, in either direction *)
Theorem planar_network_sweep :
  contract K planar_network None None None None None None = Ok (Scalar (coset_prob K d N (stabilizers rows cols) f))
  /\ contract K planar_network None None None None (Some 1%Z) None = Ok (Scalar (coset_prob K d N (stabilizers rows cols) f))
  /\ contract K planar_network None None None None (Some (-1)%Z) None = Ok (Scalar (coset_prob K d N (stabilizers rows cols) f)).
Proof. rewrite <- planar_network_value. apply sweep_exact. apply planar_network_wf. Qed.

(* the decoder contracts all columns but the last from the left, and recombines with the last column (which is the
   only one that differs between the cosets f and f.X-bar): every split column gives the coset probability *)
Theorem planar_network_split c : (0 < c < tn_cols)%nat ->
  split_contract K planar_network None None None (Z.of_nat c) = Ok (coset_prob K d N (stabilizers rows cols) f).
Proof.
  intros Hc'. rewrite <- planar_network_value.
  assert (HL : length planar_network = tn_cols) by (unfold planar_network, planar_tn; rewrite map_length, seq_length; reflexivity).
  assert (Hlen : length (firstn c planar_network) = c) by (rewrite firstn_length; lia).
  pose proof planar_network_wf as Hwf. rewrite <- (firstn_skipn c planar_network) in Hwf |- *.
  rewrite <- Hlen at 3. apply split_exact; [| |exact Hwf].
  - intros E. rewrite E in Hlen. cbn in Hlen. lia.
  - intros E. apply (f_equal (@length _)) in E. rewrite skipn_length in E. cbn in E. lia.
Qed.

(* mode 'r': the transposed network has the same value *)
Theorem planar_network_transposed :
  value tn_cols (transpose_net K tn_rows planar_network) = coset_prob K d N (stabilizers rows cols) f.
Proof.
  rewrite <- planar_network_value. apply transpose_value; [apply planar_network_wf|].
  unfold planar_network, planar_tn. rewrite map_length, seq_length. reflexivity.
Qed.

Theorem planar_network_transposed_wf : netwf K tn_cols (transpose_net K tn_rows planar_network).
Proof. apply planar_tn_transposed_wf; [apply tn_rows_pos|apply tn_cols_ge2]. Qed.
Theorem planar_network_transposed_sweep :
  contract K (transpose_net K tn_rows planar_network) None None None None None None
  = Ok (Scalar (coset_prob K d N (stabilizers rows cols) f)).
Proof. rewrite <- planar_network_transposed. apply sweep_exact. apply planar_network_transposed_wf. Qed.
Theorem planar_network_transposed_split r : (0 < r < tn_rows)%nat ->
  split_contract K (transpose_net K tn_rows planar_network) None None None (Z.of_nat r) = Ok (coset_prob K d N (stabilizers rows cols) f).
Proof.
  intros Hr'. rewrite <- planar_network_transposed.
  assert (HL : length (transpose_net K tn_rows planar_network) = tn_rows) by (unfold transpose_net; rewrite map_length, seq_length; reflexivity).
  assert (Hlen : length (firstn r (transpose_net K tn_rows planar_network)) = r) by (rewrite firstn_length; lia).
  pose proof planar_network_transposed_wf as Hwf. rewrite <- (firstn_skipn r (transpose_net K tn_rows planar_network)) in Hwf |- *.
  rewrite <- Hlen at 3. apply split_exact; [| |exact Hwf].
  - intros E. rewrite E in Hlen. cbn in Hlen. lia.
  - intros E. apply (f_equal (@length _)) in E. rewrite skipn_length in E. cbn in E. lia.
Qed.

(* the generators are independent, so the coset probability is the sum over the 2^(n-1) DISTINCT elements of the
   stabilizer group, each counted once (Coset.span_nodup / Props.C10.c10_enumeration apply) *)
Theorem planar_stabilizers_indep : indep (N + N) (stabilizers rows cols).
Proof.
  apply indep_of_independent.
  - exact (stabs_rowlen rows cols).
  - exact (planar_stabilizers_independent_rank rows cols Hr Hc).
Qed.
Theorem planar_stabilizers_rowlen : Forall (fun g => length g = (N + N)%nat) (stabilizers rows cols).
Proof. exact (stabs_rowlen rows cols). Qed.
Theorem planar_group_enumerated_once :
  NoDup (span_list (N + N) (stabilizers rows cols))
  /\ length (span_list (N + N) (stabilizers rows cols)) = (2 ^ length (stabilizers rows cols))%nat.
Proof. split; [apply span_nodup; [apply planar_stabilizers_rowlen|apply planar_stabilizers_indep]|apply span_count]. Qed.

End CosetNetwork.

(* ================================================================================================== *)
(** * The statement of Props/C10.c10_network_statement, instantiated                                   *)
(* ================================================================================================== *)
(* Props/C10.v keeps  c10_network_statement K network_value  :=  forall d n gens f, rows of length n + n -> indep ->
   network_value d n gens f = coset_prob K d n gens f  for an unspecified network_value.  For the planar decoder the
   network is create_tn and the generators are the code's: the instance below is PROVED for every size. *)
Definition c10_planar_network_statement : Prop :=
  forall (K : cring) (d : dist K) (rows cols : Z) (f : bsf), 2 <= rows -> 2 <= cols ->
    length f = (planar_n rows cols + planar_n rows cols)%nat ->
    Forall (fun g => length g = (planar_n rows cols + planar_n rows cols)%nat) (stabilizers rows cols)
    /\ indep (planar_n rows cols + planar_n rows cols) (stabilizers rows cols)
    /\ netwf K (tn_rows rows) (planar_network K d rows cols f)
    /\ value (tn_rows rows) (planar_network K d rows cols f) = coset_prob K d (planar_n rows cols) (stabilizers rows cols) f
    /\ flatval K (planar_network K d rows cols f) (repeat 0%nat (tn_rows rows)) = coset_prob K d (planar_n rows cols) (stabilizers rows cols) f
    /\ contract K (planar_network K d rows cols f) None None None None None None
       = Ok (Scalar (coset_prob K d (planar_n rows cols) (stabilizers rows cols) f)).
Theorem c10_planar_network : c10_planar_network_statement.
Proof.
  intros K d rows cols f Hr Hc Hf. split; [apply planar_stabilizers_rowlen|]. split; [apply planar_stabilizers_indep; assumption|].
  split; [apply planar_network_wf; assumption|]. split; [apply planar_network_value; assumption|].
  split; [apply planar_network_flat; assumption|]. apply planar_network_sweep; assumption.
Qed.
(* the four candidates of the decoder (f, f.X-bar, f.X-bar.Z-bar, f.Z-bar) are samples of the right length, so the
   theorem gives all four coset probabilities *)
Theorem c10_planar_network_candidates (K : cring) (d : dist K) (rows cols : Z) (f l : bsf) : 2 <= rows -> 2 <= cols ->
  length f = (planar_n rows cols + planar_n rows cols)%nat -> length l = (planar_n rows cols + planar_n rows cols)%nat ->
  value (tn_rows rows) (planar_network K d rows cols (xorv f l)) = coset_prob K d (planar_n rows cols) (stabilizers rows cols) (xorv f l).
Proof. intros Hr Hc Hf Hl. apply planar_network_value; auto. rewrite xorv_length; congruence. Qed.

(* NOT covered here (no Coq model of their create_tn yet): the rotated-planar MPS/RMPS decoders' networks.  The abstract
   form CosetSum.factor_graph_value applies to any code; what would have to be added per decoder is the analogue of
   PlanarNet.planar_tn_value.  Statement kept visible, for an arbitrary network constructor: *)
Definition c10_network_statement_generic (K : cring) (network_value : dist K -> nat -> list bsf -> bsf -> K) : Prop :=
  forall d n gens f, Forall (fun g => length g = (n + n)%nat) gens -> indep (n + n) gens -> length f = (n + n)%nat ->
    network_value d n gens f = coset_prob K d n gens f.
(* proved part of it: the factor-graph network (one bond per generator, one local factor per qubit) *)
Theorem c10_network_partial (K : cring) :
  c10_network_statement_generic K (fun d n gens f =>
    sumt (repeat 2%nat (length gens)) (fun t => prodl (seq 0 n) (qubit_factor K d n gens f (map nbit t)))).
Proof. intros d n gens f HF _ Hf. apply factor_graph_value; assumption. Qed.

(* ================================================================================================== *)
(** * The decoder's shortcut: cosets that differ by the logical X share all columns but the last         *)
(* ================================================================================================== *)
(* PlanarMPSDecoder contracts tns[0] (sample f) up to the last column once, and takes the inner product of that
   partial contraction with the last column of tns[0] and with the last column of tns[1] (sample f.X-bar).  This
   is exact because the logical X acts on the last column only: the two networks agree on every other column. *)
Section Shared.
Variable K : cring.
Variable d : dist K.
Variables rows cols : Z.
Hypothesis Hr : 2 <= rows.
Hypothesis Hc : 2 <= cols.
Notation N := (planar_n rows cols).
Variable f : bsf.
Hypothesis Hf : length f = (N + N)%nat.

Lemma node_ext tn_rows tn_cols fx fz fx' fz' k c : (Nat.even (k + c) = true -> fx k c = fx' k c /\ fz k c = fz' k c) ->
  node K d tn_rows tn_cols fx fz k c = node K d tn_rows tn_cols fx' fz' k c.
Proof.
  intros H. unfold node. destruct (Nat.even (k + c)); [|reflexivity]. destruct (H eq_refl) as [Hx Hz].
  unfold sval. rewrite Hx, Hz. reflexivity.
Qed.

(* an operator l that is trivial on every qubit outside the last column does not change the other columns *)
Theorem planar_network_shared_columns l : length l = (N + N)%nat ->
  (forall k c, (k < tn_rows rows)%nat -> (S c < tn_cols cols)%nat -> Nat.even (k + c) = true ->
     xat rows cols l (npos k c) = false /\ zat rows cols l (npos k c) = false) ->
  firstn (tn_cols cols - 1) (planar_network K d rows cols (xorv f l)) = firstn (tn_cols cols - 1) (planar_network K d rows cols f).
Proof.
  intros Hl Htriv. unfold planar_network, planar_tn. rewrite !firstn_map. apply map_ext_in. intros c Hc'.
  rewrite firstn_seq' in Hc'. apply in_seq in Hc'. unfold pcol. apply map_ext_in. intros k Hk. apply in_seq in Hk.
  f_equal. apply node_ext. intros He.
  assert (Hs : isite rows cols (npos k c)).
  { assert (Hin : In (k, c) (QL (tn_rows rows) (tn_cols cols))) by (apply (in_QL _ _ (tn_rows_pos rows Hr) (tn_cols_ge2 cols Hc)); repeat split; auto; lia).
    apply (QL_site rows cols Hr Hc) in Hin. apply Hin. }
  destruct (Htriv k c ltac:(lia) ltac:(lia) He) as [Hx Hz].
  unfold fxb, fzb. rewrite !(xat_nth rows cols Hr Hc) by exact Hs. rewrite !(zat_nth rows cols) by exact Hs.
  rewrite !nth_xorv by congruence.
  rewrite <- !(xat_nth rows cols Hr Hc) by exact Hs. rewrite <- !(zat_nth rows cols) by exact Hs.
  rewrite Hx, Hz, !xorb_false_r. split; reflexivity.
Qed.

(* the logical X of the planar code is such an operator *)
Lemma lxop_trivial_off_last_column k c : (k < tn_rows rows)%nat -> (S c < tn_cols cols)%nat -> Nat.even (k + c) = true ->
  xat rows cols (lxop rows cols) (npos k c) = false /\ zat rows cols (lxop rows cols) (npos k c) = false.
Proof.
  intros Hk Hc' He.
  assert (Hsite : planar_is_site (npos k c) = true).
  { rewrite site_unfold. unfold npos. cbn [fst snd]. apply even_Z in He. lia. }
  assert (HLx : length (lxop rows cols) = (N + N)%nat) by apply sop_length.
  split.
  - rewrite (xat_reader rows cols Hr Hc) by assumption. unfold reader_x, lxop.
    rewrite (bsp_sop rows cols Hr Hc) by (auto using single_site, lx_sites_sites). cbv zeta. cbn [zbit xbit andb].
    rewrite pairs_filter. cbn [fold_right]. rewrite cnt_filter, (cnt_lx rows cols Hr).
    replace (snd (npos k c) =? 2 * cols - 2) with false by (unfold npos, tn_cols in *; cbn [snd]; lia).
    cbn [andb Z.b2z]. rewrite !Z.mul_0_r. reflexivity.
  - rewrite (zat_reader rows cols Hr Hc) by assumption. unfold reader_z, lxop.
    rewrite (bsp_sop rows cols Hr Hc) by (auto using single_site, lx_sites_sites). cbv zeta. cbn [zbit xbit andb]. reflexivity.
Qed.
Theorem planar_network_logical_x_shared :
  firstn (tn_cols cols - 1) (planar_network K d rows cols (xorv f (lxop rows cols))) = firstn (tn_cols cols - 1) (planar_network K d rows cols f).
Proof. apply planar_network_shared_columns; [apply sop_length|apply lxop_trivial_off_last_column]. Qed.

(* the decoder's computation of the X-bar coset: left part of the network of f, last column of the network of f.X-bar *)
Theorem planar_network_mixed_split :
  split_contract K (firstn (tn_cols cols - 1) (planar_network K d rows cols f)
                    ++ skipn (tn_cols cols - 1) (planar_network K d rows cols (xorv f (lxop rows cols))))
                 None None None (Z.of_nat (tn_cols cols - 1))
  = Ok (coset_prob K d N (stabilizers rows cols) (xorv f (lxop rows cols))).
Proof.
  rewrite <- planar_network_logical_x_shared. rewrite firstn_skipn.
  apply planar_network_split; auto.
  - rewrite xorv_length; [exact Hf|]. rewrite Hf. symmetry. apply sop_length.
  - pose proof (tn_cols_ge2 cols Hc). lia.
Qed.

(* mode 'r': cosets that differ by the logical Z share all ROWS but the last, i.e. all columns but the last of the
   transposed networks *)
Theorem planar_network_shared_rows l : length l = (N + N)%nat ->
  (forall k c, (S k < tn_rows rows)%nat -> (c < tn_cols cols)%nat -> Nat.even (k + c) = true ->
     xat rows cols l (npos k c) = false /\ zat rows cols l (npos k c) = false) ->
  firstn (tn_rows rows - 1) (transpose_net K (tn_rows rows) (planar_network K d rows cols (xorv f l)))
  = firstn (tn_rows rows - 1) (transpose_net K (tn_rows rows) (planar_network K d rows cols f)).
Proof.
  intros Hl Htriv. unfold transpose_net. rewrite !firstn_map. apply map_ext_in. intros r Hr'.
  rewrite firstn_seq' in Hr'. apply in_seq in Hr'. unfold planar_network, planar_tn. rewrite !map_map.
  apply map_ext_in. intros c Hc'. apply in_seq in Hc'. f_equal.
  rewrite !nth_pcol by lia. f_equal. apply node_ext. intros He.
  assert (Hs : isite rows cols (npos r c)).
  { assert (Hin : In (r, c) (QL (tn_rows rows) (tn_cols cols))) by (apply (in_QL _ _ (tn_rows_pos rows Hr) (tn_cols_ge2 cols Hc)); repeat split; auto; lia).
    apply (QL_site rows cols Hr Hc) in Hin. apply Hin. }
  destruct (Htriv r c ltac:(lia) ltac:(lia) He) as [Hx Hz].
  unfold fxb, fzb. rewrite !(xat_nth rows cols Hr Hc) by exact Hs. rewrite !(zat_nth rows cols) by exact Hs.
  rewrite !nth_xorv by congruence.
  rewrite <- !(xat_nth rows cols Hr Hc) by exact Hs. rewrite <- !(zat_nth rows cols) by exact Hs.
  rewrite Hx, Hz, !xorb_false_r. split; reflexivity.
Qed.
Lemma lzop_trivial_off_last_row k c : (S k < tn_rows rows)%nat -> (c < tn_cols cols)%nat -> Nat.even (k + c) = true ->
  xat rows cols (lzop rows cols) (npos k c) = false /\ zat rows cols (lzop rows cols) (npos k c) = false.
Proof.
  intros Hk Hc' He.
  assert (Hsite : planar_is_site (npos k c) = true).
  { rewrite site_unfold. unfold npos. cbn [fst snd]. apply even_Z in He. lia. }
  assert (HLz : length (lzop rows cols) = (N + N)%nat) by apply sop_length.
  split.
  - rewrite (xat_reader rows cols Hr Hc) by assumption. unfold reader_x, lzop.
    rewrite (bsp_sop rows cols Hr Hc) by (auto using single_site, lz_sites_sites). cbv zeta. cbn [zbit xbit andb]. reflexivity.
  - rewrite (zat_reader rows cols Hr Hc) by assumption. unfold reader_z, lzop.
    rewrite (bsp_sop rows cols Hr Hc) by (auto using single_site, lz_sites_sites). cbv zeta. cbn [zbit xbit andb].
    rewrite pairs_filter. cbn [fold_right]. rewrite cnt_filter, (cnt_lz rows cols Hc).
    replace (fst (npos k c) =? 2 * rows - 2) with false by (unfold npos, tn_rows in *; cbn [fst]; lia).
    cbn [andb Z.b2z]. rewrite !Z.mul_0_r. reflexivity.
Qed.
Theorem planar_network_logical_z_shared :
  firstn (tn_rows rows - 1) (transpose_net K (tn_rows rows) (planar_network K d rows cols (xorv f (lzop rows cols))))
  = firstn (tn_rows rows - 1) (transpose_net K (tn_rows rows) (planar_network K d rows cols f)).
Proof. apply planar_network_shared_rows; [apply sop_length|apply lzop_trivial_off_last_row]. Qed.
Theorem planar_network_mixed_split_rows :
  split_contract K (firstn (tn_rows rows - 1) (transpose_net K (tn_rows rows) (planar_network K d rows cols f))
                    ++ skipn (tn_rows rows - 1) (transpose_net K (tn_rows rows) (planar_network K d rows cols (xorv f (lzop rows cols)))))
                 None None None (Z.of_nat (tn_rows rows - 1))
  = Ok (coset_prob K d N (stabilizers rows cols) (xorv f (lzop rows cols))).
Proof.
  rewrite <- planar_network_logical_z_shared. rewrite firstn_skipn.
  apply planar_network_transposed_split; auto.
  - rewrite xorv_length; [exact Hf|]. rewrite Hf. symmetry. apply sop_length.
  - unfold tn_rows. lia.
Qed.
End Shared.

(* ---- non-vacuity: closed instances on small lattices (integer numerators) ---- *)
Example planar_network_example_2x2 :
  let f := [true;false;false;true;false; false;true;false;false;true] in
  length f = (planar_n 2 2 + planar_n 2 2)%nat /\ tn_rows 2 = 3%nat /\ tn_cols 2 = 3%nat /\ length (stabilizers 2 2) = 4%nat
  /\ value (tn_rows 2) (planar_network Zring (7, 1, 1, 1)%Z 2 2 f) = 640%Z
  /\ coset_prob Zring (7, 1, 1, 1)%Z (planar_n 2 2) (stabilizers 2 2) f = 640%Z.
Proof. vm_compute. repeat split; reflexivity. Qed.
Example planar_network_example_2x3 :
  let f := [true;false;false;true;false;true;false;true; false;true;false;false;true;false;false;true] in
  length f = (planar_n 2 3 + planar_n 2 3)%nat /\ (tn_rows 2, tn_cols 3) = (3%nat, 5%nat)
  /\ value (tn_rows 2) (planar_network Zring (5, 1, 2, 3)%Z 2 3 f) = 478070%Z
  /\ coset_prob Zring (5, 1, 2, 3)%Z (planar_n 2 3) (stabilizers 2 3) f = 478070%Z
  /\ contract Zring (planar_network Zring (5, 1, 2, 3)%Z 2 3 f) None None None None None None = Ok (@Scalar Zring 478070%Z)
  /\ split_contract Zring (planar_network Zring (5, 1, 2, 3)%Z 2 3 f) None None None 4%Z = Ok 478070%Z.
Proof. vm_compute. repeat split; reflexivity. Qed.
(* the theorem instantiated (hypotheses satisfiable) *)
Example planar_network_instance :
  value (tn_rows 3) (planar_network Zring (7, 1, 1, 1)%Z 3 3 (zeros 26))
  = coset_prob Zring (7, 1, 1, 1)%Z (planar_n 3 3) (stabilizers 3 3) (zeros 26).
Proof. apply planar_network_value; [lia|lia|reflexivity]. Qed.

Print Assumptions factor_graph_value.
Print Assumptions planar_tn_value.
Print Assumptions planar_network_value.
Print Assumptions planar_network_flat.
Print Assumptions planar_network_sweep.
Print Assumptions planar_network_split.
Print Assumptions planar_network_transposed.
Print Assumptions c10_planar_network.
Print Assumptions c10_network_partial.
Print Assumptions planar_network_mixed_split.
Print Assumptions planar_network_mixed_split_rows.
Print Assumptions planar_network_transposed_sweep.
