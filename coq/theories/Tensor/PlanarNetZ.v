(* Tensor/PlanarNetZ.v — the planar coset network of Tensor/CosetNetwork.v as DATA over the integers, in the array
   layout of the Python code: PlanarMPSDecoder.TNC.create_tn returns tn[row, col] (row-major), each site a 4-d array
   of shape (n, e, s, w) whose entries are listed in C order.  Run by the extracted engine build/qmodel_c10n and by the
   in-kernel shards of harness/c10_net.py, which compare it site by site with the network the Python code builds.
   The distribution is given by integer numerators (pI, pX, pY, pZ) over a common denominator D; the value of the
   network is then the numerator of the coset probability over D^n. *)
From Coq Require Import List Arith Lia Bool ZArith QArith.
From QV Require Import Core.Bits Tensor.Sums Tensor.Net Tensor.StartStop Tensor.Contract Tensor.ContractZ
  Tensor.Coset Tensor.PlanarNet Tensor.CosetNetwork Lattice.Planar.
Import ListNotations.

Notation distZ := (Z * Z * Z * Z)%type.
Notation sitedata := (option (nat * nat * nat * nat * list Z)).

(* shape and entries (C order) of a site; None for an empty site *)
Definition site_data (o : option tensorZ) : sitedata := option_map (fun t => (dimsZ t, entriesZ t)) o.
(* a network given as a list of columns, read as the 2-d array tn[row][col] *)
Definition rowmajor (R : nat) (tn : list colZ) : list (list sitedata) :=
  map (fun r => map (fun c => site_data (nth r c None)) tn) (seq 0 R).

Definition planar_networkZ (a : distZ) (rows cols : Z) (f : bsf) : list colZ := planar_network Zring a rows cols f.
Definition planar_sitesZ (a : distZ) (rows cols : Z) (f : bsf) : list (list sitedata) :=
  rowmajor (tn_rows rows) (planar_networkZ a rows cols f).
Definition planar_shapeZ (rows cols : Z) : nat * nat := (tn_rows rows, tn_cols cols).

(* the numbers the decoder computes from the network (all equal to the coset probability's numerator, by
   CosetNetwork.planar_network_sweep / _split / _transposed_sweep) *)
Definition scalar_of (r : res (Contract.cres Zring)) : option Z :=
  match r with Ok (Scalar x) => Some x | _ => None end.
Definition ok_of (r : res Z) : option Z := match r with Ok x => Some x | Err _ => None end.
Definition planar_sweepZ (a : distZ) (rows cols : Z) (f : bsf) (step : option Z) : option Z :=
  scalar_of (contractZ (planar_networkZ a rows cols f) None None None None step None).
Definition planar_tsweepZ (a : distZ) (rows cols : Z) (f : bsf) : option Z :=
  scalar_of (contractZ (transpose_netZ (tn_rows rows) (planar_networkZ a rows cols f)) None None None None None None).
Definition planar_splitZ (a : distZ) (rows cols : Z) (f : bsf) (c : Z) : option Z :=
  ok_of (split_contractZ (planar_networkZ a rows cols f) None None None c).
Definition planar_tsplitZ (a : distZ) (rows cols : Z) (f : bsf) (r : Z) : option Z :=
  ok_of (split_contractZ (transpose_netZ (tn_rows rows) (planar_networkZ a rows cols f)) None None None r).
Definition planar_valueZ (a : distZ) (rows cols : Z) (f : bsf) : Z := valueZ (tn_rows rows) (planar_networkZ a rows cols f).
Definition planar_cosetZ (a : distZ) (rows cols : Z) (f : bsf) : Z :=
  coset_prob Zring a (planar_n rows cols) (stabilizers rows cols) f.

(* ---- the layout is what it says: entry [row][col] of planar_sitesZ is the node (row, col) of the network ---- *)
Lemma rowmajor_nth R (tn : list colZ) r c : (r < R)%nat -> (c < length tn)%nat ->
  nth c (nth r (rowmajor R tn) []) None = site_data (nth r (nth c tn []) None).
Proof.
  intros Hr Hc. unfold rowmajor.
  rewrite (nth_indep _ [] (map (fun c0 => site_data (nth 0%nat c0 None)) tn)) by (rewrite map_length, seq_length; exact Hr).
  rewrite (map_nth (fun r0 => map (fun c0 => site_data (nth r0 c0 None)) tn)). rewrite seq_nth by exact Hr. cbn [plus].
  rewrite (nth_indep _ None (site_data (nth r [] None))) by (rewrite map_length; exact Hc).
  rewrite (map_nth (fun c0 => site_data (nth r c0 None))). reflexivity.
Qed.
Theorem planar_sitesZ_shape a rows cols f :
  length (planar_sitesZ a rows cols f) = tn_rows rows
  /\ Forall (fun row => length row = tn_cols cols) (planar_sitesZ a rows cols f).
Proof.
  unfold planar_sitesZ, rowmajor. split; [rewrite map_length, seq_length; reflexivity|].
  apply Forall_forall. intros row Hin. apply in_map_iff in Hin. destruct Hin as (r & <- & _).
  rewrite map_length. unfold planar_networkZ, planar_network, planar_tn. rewrite map_length, seq_length. reflexivity.
Qed.
Theorem planar_sitesZ_nth a rows cols f r c : (r < tn_rows rows)%nat -> (c < tn_cols cols)%nat ->
  nth c (nth r (planar_sitesZ a rows cols f) []) None
  = site_data (Some (node Zring a (tn_rows rows) (tn_cols cols) (fxb rows cols f) (fzb rows cols f) r c)).
Proof.
  intros Hr Hc. unfold planar_sitesZ. rewrite rowmajor_nth; [|exact Hr|].
  - unfold planar_networkZ, planar_network, planar_tn. f_equal.
    rewrite (nth_indep _ [] (pcol Zring a (tn_rows rows) (tn_cols cols) (fxb rows cols f) (fzb rows cols f) 0))
      by (rewrite map_length, seq_length; exact Hc).
    rewrite (map_nth (pcol Zring a (tn_rows rows) (tn_cols cols) (fxb rows cols f) (fzb rows cols f))).
    rewrite seq_nth by exact Hc. cbn [plus]. apply nth_pcol. exact Hr.
  - unfold planar_networkZ, planar_network, planar_tn. rewrite map_length, seq_length. exact Hc.
Qed.
(* every number above is the coset probability (numerators), all sizes: restated over Z for the engine's functions *)
Theorem planar_numbersZ a rows cols f : (2 <= rows)%Z -> (2 <= cols)%Z ->
  length f = (planar_n rows cols + planar_n rows cols)%nat ->
  planar_valueZ a rows cols f = planar_cosetZ a rows cols f
  /\ planar_sweepZ a rows cols f None = Some (planar_cosetZ a rows cols f)
  /\ planar_sweepZ a rows cols f (Some 1%Z) = Some (planar_cosetZ a rows cols f)
  /\ planar_sweepZ a rows cols f (Some (-1)%Z) = Some (planar_cosetZ a rows cols f)
  /\ planar_tsweepZ a rows cols f = Some (planar_cosetZ a rows cols f)
  /\ (forall c, (0 < c < tn_cols cols)%nat -> planar_splitZ a rows cols f (Z.of_nat c) = Some (planar_cosetZ a rows cols f))
  /\ (forall r, (0 < r < tn_rows rows)%nat -> planar_tsplitZ a rows cols f (Z.of_nat r) = Some (planar_cosetZ a rows cols f)).
Proof.
  intros Hr Hc Hf.
  destruct (planar_network_sweep Zring a rows cols Hr Hc f Hf) as (S0 & S1 & S2).
  unfold planar_valueZ, planar_sweepZ, planar_tsweepZ, planar_splitZ, planar_tsplitZ, planar_cosetZ, planar_networkZ,
    valueZ, contractZ, split_contractZ, transpose_netZ.
  split; [exact (planar_network_value Zring a rows cols Hr Hc f Hf)|].
  split; [rewrite S0; reflexivity|]. split; [rewrite S1; reflexivity|]. split; [rewrite S2; reflexivity|].
  split; [rewrite (planar_network_transposed_sweep Zring a rows cols Hr Hc f Hf); reflexivity|].
  split.
  - intros c Hc'. rewrite (planar_network_split Zring a rows cols Hr Hc f Hf c Hc'). reflexivity.
  - intros r Hr'. rewrite (planar_network_transposed_split Zring a rows cols Hr Hc f Hf r Hr'). reflexivity.
Qed.

(* non-vacuity: the 2x2 code, identity sample: 3x3 sites; the corner (0,0) is the h node of shape (1,2,2,1) *)
Example planar_sitesZ_example :
  planar_shapeZ 2 2 = (3%nat, 3%nat)
  /\ nth 0 (nth 0 (planar_sitesZ (7, 1, 2, 3)%Z 2 2 (zeros 10)) []) None = Some ((1, 2, 2, 1)%nat, [7; 3; 1; 2]%Z)
  /\ nth 1 (nth 0 (planar_sitesZ (7, 1, 2, 3)%Z 2 2 (zeros 10)) []) None = Some ((1, 2, 2, 2)%nat, [1; 0; 0; 0; 0; 0; 0; 1]%Z)
  /\ planar_sweepZ (7, 1, 2, 3)%Z 2 2 (zeros 10) None = Some (planar_cosetZ (7, 1, 2, 3)%Z 2 2 (zeros 10)).
Proof. vm_compute. repeat split; reflexivity. Qed.

Print Assumptions planar_sitesZ_nth.
Print Assumptions planar_numbersZ.
