(* Tensor/Mps.v — the algebra of mps.reverse and of the left-canonical sweep relative to a
   decomposition oracle (QR or uncut SVD: M = Q . (c . R'), with c the norm factored out):
   the represented tensor times the accumulated norm is invariant; a vanishing factor only
   arises for the zero state; every emitted site is the oracle's isometry.  Generic in the
   commutative ring of entries; the oracle is a Section variable with its contract as a
   hypothesis (never an axiom). *)
From Coq Require Import List Arith Lia Bool ZArith Ring.
From QV Require Import Tensor.Sums Tensor.Net.
Import ListNotations.
Local Open Scope nat_scope.

Section Mps.
Variable K : cring.
Add Ring Kring : (cring_th K).
Local Notation tensor := (tensor K).
Local Notation "0" := (r0 K).
Local Notation rI := (r1 K).
Local Infix "+" := (radd K).
Local Infix "*" := (rmul K).
Local Notation opc := (@opc K).
Local Notation sumn_mul_r := (sumn_mul_r K).
Local Notation sumn_mul_l := (sumn_mul_l K).
Local Notation sumn_swap := (sumn_swap K).
Local Notation sumn_ext := (sumn_ext K).
Local Notation sumn_zero := (sumn_zero K).

Lemma opc_cons_some T A v w ws e es :
  opc (Some T :: A) v (w :: ws) (e :: es) = sumn (ds T) (fun s => val T v e s w * opc A s ws es).
Proof. reflexivity. Qed.

Lemma r_x0y (x y : K) : x * 0 * y = 0.
Proof. ring. Qed.

(* ---- mps.reverse: reversed list, N and S swapped ('nesw->senw') ---- *)
Definition reverse_tensor (t : tensor) : tensor := mkT (ds t) (de t) (dn t) (dw t) (fun n e s w => val t s e n w).
Definition reverse (m : list (option tensor)) : list (option tensor) := rev (map (option_map reverse_tensor) m).
Lemma reverse_tensor_involutive t : reverse_tensor (reverse_tensor t) = t.
Proof. destruct t; reflexivity. Qed.
Theorem reverse_involutive m : reverse (reverse m) = m.
Proof.
  unfold reverse. rewrite map_rev, rev_involutive, map_map.
  rewrite <- (map_id m) at 2. apply map_ext. intros [t|]; cbn; [|reflexivity]. now rewrite reverse_tensor_involutive.
Qed.
Lemma reverse_length m : length (reverse m) = length m.
Proof. unfold reverse. now rewrite rev_length, map_length. Qed.

(* ---- one step of the sweep: contract R (k x s) into the next tensor: einsum('ns,sESW->nESW') ---- *)
Definition push (k : nat) (Rm : nat -> nat -> K) (U : tensor) : tensor :=
  mkT k (de U) (ds U) (dw U) (fun j E S W => sumn (dn U) (fun s => Rm j s * val U s E S W)).

(* M = Q . (c . R') as tensors: T[n,e,s,w] = (sum_j Q[n,e,j,w] R'[j,s]) * c *)
Definition factors (T Q : tensor) (Rm : nat -> nat -> K) (c : K) : Prop :=
  forall n e w s, s < ds T -> sumn (ds Q) (fun j => val Q n e j w * Rm j s) * c = val T n e s w.

Lemma lcf_step T Q Rm c U rest v w w' ws e e' es :
  factors T Q Rm c -> dn U = ds T ->
  opc (Some Q :: Some (push (ds Q) Rm U) :: rest) v (w :: w' :: ws) (e :: e' :: es) * c
  = opc (Some T :: Some U :: rest) v (w :: w' :: ws) (e :: e' :: es).
Proof.
  intros HF HU. cbn [Net.opc]. cbn [ds push val]. rewrite HU.
  set (X := fun s => sumn (ds U) (fun S => val U s e' S w' * opc rest S ws es)).
  transitivity (sumn (ds T) (fun s => sumn (ds Q) (fun j => val Q v e j w * Rm j s * c * X s))).
  - rewrite <- sumn_mul_r. rewrite sumn_swap. apply sumn_ext; intros j _.
    transitivity (val Q v e j w * (sumn (ds T) (fun s => Rm j s * X s)) * c).
    + f_equal. f_equal. unfold X.
      transitivity (sumn (ds U) (fun S => sumn (ds T) (fun s => Rm j s * (val U s e' S w' * opc rest S ws es)))).
      * apply sumn_ext; intros S _. rewrite <- sumn_mul_r. apply sumn_ext; intros s _. ring.
      * rewrite sumn_swap. apply sumn_ext; intros s _. rewrite sumn_mul_l. reflexivity.
    + rewrite <- sumn_mul_l, <- sumn_mul_r. apply sumn_ext; intros s _. ring.
  - apply sumn_ext; intros s Hs. rewrite <- (HF v e w s Hs).
    rewrite <- sumn_mul_r, <- sumn_mul_r. reflexivity.
Qed.

(* ---- the sweep, relative to the oracles ---- *)
Variable decomp : tensor -> tensor * (nat -> nat -> K) * K.     (* QR / SVD with the norm factored out *)
Variable is0 : K -> bool.                                        (* "if not r_norm" / "if not max_s" *)
Variable finish : tensor -> K -> option (tensor * K).            (* last row: normalise (None: zero) or absorb the norm *)
Hypothesis decomp_ok : forall T, let '(Q, Rm, c) := decomp T in factors T Q Rm c.
Hypothesis is0_ok : forall c, is0 c = true -> c = 0.
Hypothesis finish_ok : forall T norm,
  match finish T norm with
  | Some (T', nrm) => ds T' = ds T /\ forall n e s w, val T' n e s w * nrm = val T n e s w * norm
  | None => forall n e s w, val T n e s w = 0
  end.

(* None = the zero short-circuit (zeros_like, norm 0) *)
Fixpoint lcf_go (cur : tensor) (rest : list tensor) (norm : K) : option (list tensor * K) :=
  match rest with
  | [] => match finish cur norm with Some (T', nrm) => Some ([T'], nrm) | None => None end
  | U :: rest' =>
      let '(Q, Rm, c) := decomp cur in
      if is0 c then None else
      match lcf_go (push (ds Q) Rm U) rest' (norm * c) with
      | Some (out, nrm) => Some (Q :: out, nrm)
      | None => None
      end
  end.

Fixpoint chain (l : list tensor) : Prop :=
  match l with
  | T :: l' => match l' with U :: _ => dn U = ds T | [] => True end /\ chain l'
  | [] => True
  end.

(* c12_lcf_state / c12_zero: state(out) * norm_out = state(in) * norm_in; the short-circuit happens
   only when the input state (times its norm) vanishes *)
Theorem lcf_state rest : forall cur norm v ws es,
  chain (cur :: rest) -> length ws = S (length rest) -> length es = S (length rest) ->
  match lcf_go cur rest norm with
  | Some (out, nrm) => opc (map Some out) v ws es * nrm = opc (map Some (cur :: rest)) v ws es * norm
  | None => opc (map Some (cur :: rest)) v ws es * norm = 0
  end.
Proof.
  induction rest as [|U rest IH]; intros cur norm v ws es HC Hws Hes.
  - destruct ws as [|w [|? ?]]; try discriminate. destruct es as [|e [|? ?]]; try discriminate.
    cbn [lcf_go]. pose proof (finish_ok cur norm) as HF. destruct (finish cur norm) as [[T' nrm]|].
    + destruct HF as [Hd HF]. cbn [map Net.opc]. rewrite Hd. rewrite <- !sumn_mul_r.
      apply sumn_ext; intros s _. transitivity (val T' v e s w * nrm * rI); [ring|]. rewrite HF. ring.
    + cbn [map Net.opc]. rewrite <- sumn_mul_r. rewrite (sumn_ext _ _ (fun _ => 0)); [apply sumn_zero|].
      intros s _. rewrite HF. ring.
  - destruct ws as [|w [|w' ws]]; try discriminate. destruct es as [|e [|e' es]]; try discriminate.
    cbn [length] in Hws, Hes.
    change (chain (cur :: U :: rest)) with (dn U = ds cur /\ chain (U :: rest)) in HC. destruct HC as [HU HC].
    cbn [lcf_go]. pose proof (decomp_ok cur) as HD. destruct (decomp cur) as [[Q Rm] c].
    assert (Hstep := lcf_step cur Q Rm c U (map Some rest) v w w' ws e e' es HD HU).
    destruct (is0 c) eqn:E0.
    + apply is0_ok in E0. subst c. cbn [map] in *. rewrite <- Hstep. apply r_x0y.
    + assert (HC' : chain (push (ds Q) Rm U :: rest)).
      { destruct rest as [|U' rest']; [exact HC|]. exact HC. }
      assert (IH' := fun j => IH (push (ds Q) Rm U) (norm * c) j (w' :: ws) (e' :: es) HC' ltac:(cbn; lia) ltac:(cbn; lia)).
      destruct (lcf_go (push (ds Q) Rm U) rest (norm * c)) as [[out nrm]|].
      * cbn [map] in *. rewrite <- Hstep.
        rewrite (opc_cons_some Q (map Some out)), (opc_cons_some Q (Some _ :: _)).
        rewrite <- !sumn_mul_r. apply sumn_ext; intros j _.
        transitivity (val Q v e j w * (opc (map Some out) j (w' :: ws) (e' :: es) * nrm)); [ring|].
        rewrite (IH' j). cbn [map]. ring.
      * cbn [map] in *. rewrite <- Hstep.
        rewrite (opc_cons_some Q (Some _ :: _)).
        rewrite <- !sumn_mul_r. rewrite (sumn_ext _ _ (fun _ => 0)); [apply sumn_zero|].
        intros j _.
        transitivity (val Q v e j w * (opc (Some (push (ds Q) Rm U) :: map Some rest) j (w' :: ws) (e' :: es) * (norm * c))); [ring|].
        rewrite (IH' j). ring.
Qed.

(* c12_lcf_isometry: every emitted site but the last is the oracle's left factor *)
Variable isometry : tensor -> Prop.
Hypothesis decomp_iso : forall T, isometry (fst (fst (decomp T))).
Theorem lcf_isometry rest : forall cur norm out nrm,
  lcf_go cur rest norm = Some (out, nrm) -> Forall isometry (removelast out) /\ length out = S (length rest).
Proof.
  induction rest as [|U rest IH]; intros cur norm out nrm H; cbn [lcf_go] in H.
  - destruct (finish cur norm) as [[T' n']|]; [|discriminate]. injection H as <- <-. split; [constructor|reflexivity].
  - pose proof (decomp_iso cur) as HI. destruct (decomp cur) as [[Q Rm] c]. cbn in HI.
    destruct (is0 c); [discriminate|].
    destruct (lcf_go (push (ds Q) Rm U) rest (norm * c)) as [[out' nrm']|] eqn:E; [|discriminate].
    injection H as <- <-. destruct (IH _ _ _ _ E) as [IH1 IH2]. split; [|cbn; lia].
    destruct out' as [|y ys]; [discriminate|].
    change (removelast (Q :: y :: ys)) with (Q :: removelast (y :: ys)). constructor; assumption.
Qed.

End Mps.
