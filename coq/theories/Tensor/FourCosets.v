(* Tensor/FourCosets.v — c10_four_cosets: for a stabilizer code with one logical qubit, every error
   with the syndrome of the sample f lies in exactly one of the four cosets f.G, f.X.G, f.X.Z.G, f.Z.G of
   the stabilizer group G, so the arg-max over the four coset probabilities is the maximum-likelihood class.

   Proved, dimension-free:
   * [four_cosets_syndrome]  the four candidates have the syndrome of f;
   * [four_cosets_at_most_one] at most one of them is equivalent to e modulo stabilizers, and which one
     is read off the commutators of e.f with the logicals (so the candidates are pairwise inequivalent);
   * [four_cosets_exactly_one] exactly one, PROVIDED the normalizer of the stabilizers is spanned by the
     generators and the two logicals ([normalizer_spanned]);
   * [normalizer_spanned_of_basis] that proviso follows from a symplectic-basis certificate: destabilizers
     d_i with d_i . g_j = [i = j] such that generators, destabilizers and logicals span the whole space
     (a checkable, per-code condition; independence of the generators then follows).
   NOT proved: that the proviso holds for every code with n - 1 independent commuting generators (the
   rank-nullity counting step); the full statement stays visible as [four_cosets_statement]. *)
From Coq Require Import List Arith Lia Bool.
From QV Require Import Core.Bits Core.Pauli Core.Symp Core.Span Core.Rank.
Import ListNotations.
Local Open Scope nat_scope.

Lemma lincomb_app N : forall cs1 g1 cs2 g2, length cs1 = length g1 -> rowlen N g1 -> rowlen N g2 ->
  lincomb N (cs1 ++ cs2) (g1 ++ g2) = xorv (lincomb N cs1 g1) (lincomb N cs2 g2).
Proof.
  induction cs1 as [|c cs1 IH]; intros [|g g1] cs2 g2 HL H1 H2; cbn in HL; try discriminate.
  - cbn [app lincomb]. symmetry. apply xorv_zeros_l. apply lincomb_length. exact H2.
  - inversion H1 as [|? ? Hg H1']; subst. cbn [app lincomb]. rewrite IH by (auto; lia).
    destruct c; [|reflexivity]. symmetry. apply xorv_assoc.
Qed.


Section FourCosets.
Variable N : nat.                       (* vector length 2n *)
Hypothesis Neven : Nat.even N = true.
Variables (gens : list bsf) (lx lz : bsf).
Hypothesis gens_len : rowlen N gens.
Hypothesis lx_len : length lx = N.
Hypothesis lz_len : length lz = N.
Hypothesis lx_comm : forall g, In g gens -> bsp lx g = false.
Hypothesis lz_comm : forall g, In g gens -> bsp lz g = false.
Hypothesis lx_lz : bsp lx lz = true.

Lemma bsp_zeros_r t : bsp t (zeros N) = false.
Proof. unfold bsp. apply dot_zeros_r. Qed.
Lemma bsp_lincomb_r t : (forall g, In g gens -> bsp t g = false) ->
  forall cs gs, incl gs gens -> bsp t (lincomb N cs gs) = false.
Proof.
  intros Ht. induction cs as [|c cs IH]; intros [|g gs] Hin; cbn [lincomb]; try apply bsp_zeros_r.
  assert (Hg : In g gens) by (apply Hin; left; reflexivity).
  assert (Hgs : incl gs gens) by (intros x Hx; apply Hin; right; exact Hx).
  destruct c; [|apply IH; exact Hgs].
  rewrite bsp_linear_r.
  - rewrite Ht by exact Hg. rewrite IH by exact Hgs. reflexivity.
  - rewrite lincomb_length; [apply (proj1 (Forall_forall _ _) gens_len); exact Hg|].
    apply Forall_forall. intros x Hx. apply (proj1 (Forall_forall _ _) gens_len). apply Hgs. exact Hx.
Qed.
Lemma bsp_span_r t v : (forall g, In g gens -> bsp t g = false) -> in_spanP N gens v -> bsp t v = false.
Proof. intros Ht (cs & _ & <-). apply bsp_lincomb_r; [exact Ht|apply incl_refl]. Qed.

(* the logical part a.X + b.Z *)
Definition lpart (a b : bool) : bsf := lincomb N [a; b] [lx; lz].
Lemma lpart_len a b : length (lpart a b) = N.
Proof. unfold lpart. apply lincomb_length. repeat constructor; assumption. Qed.
Lemma lz_lx : bsp lz lx = true.
Proof. rewrite bsp_sym by (rewrite ?lz_len; auto; congruence). exact lx_lz. Qed.
Lemma bsp_lz_lpart a b : bsp lz (lpart a b) = a.
Proof.
  unfold lpart. cbn [lincomb].
  assert (Hz : length (xorv lz (zeros N)) = N) by (rewrite xorv_length; rewrite ?zeros_length; auto).
  destruct a, b; rewrite ?bsp_linear_r by (rewrite ?Hz, ?zeros_length; congruence);
    rewrite ?lz_lx, ?bsp_zeros_r, ?(bsp_self_zero lz) by (rewrite lz_len; exact Neven); reflexivity.
Qed.
Lemma bsp_lx_lpart a b : bsp lx (lpart a b) = b.
Proof.
  unfold lpart. cbn [lincomb].
  assert (Hz : length (xorv lz (zeros N)) = N) by (rewrite xorv_length; rewrite ?zeros_length; auto).
  destruct a, b; rewrite ?bsp_linear_r by (rewrite ?Hz, ?zeros_length; congruence);
    rewrite ?lx_lz, ?bsp_zeros_r, ?(bsp_self_zero lx) by (rewrite lx_len; exact Neven); reflexivity.
Qed.
Lemma lpart_comm a b g : In g gens -> bsp (lpart a b) g = false.
Proof.
  intros Hg. pose proof (proj1 (Forall_forall _ _) gens_len g Hg) as Lg.
  rewrite bsp_sym by (rewrite lpart_len; auto). unfold lpart. cbn [lincomb].
  assert (Hgx : bsp g lx = false) by (rewrite bsp_sym by (rewrite ?Lg; auto; congruence); apply lx_comm; exact Hg).
  assert (Hgz : bsp g lz = false) by (rewrite bsp_sym by (rewrite ?Lg; auto; congruence); apply lz_comm; exact Hg).
  assert (Hz : length (xorv lz (zeros N)) = N) by (rewrite xorv_length; rewrite ?zeros_length; auto).
  destruct a, b; rewrite ?bsp_linear_r by (rewrite ?Hz, ?zeros_length; congruence);
    rewrite ?Hgx, ?Hgz, ?bsp_zeros_r; reflexivity.
Qed.

(* the candidate f . X^a . Z^b *)
Definition cand (f : bsf) (a b : bool) : bsf := xorv f (lpart a b).

(* all four candidates have the syndrome of f *)
Theorem four_cosets_syndrome f a b g : length f = N -> In g gens -> bsp (cand f a b) g = bsp f g.
Proof.
  intros Lf Hg. unfold cand. rewrite bsp_linear_l by (rewrite lpart_len; exact Lf).
  rewrite lpart_comm by exact Hg. apply xorb_false_r.
Qed.

(* at most one candidate is equivalent to e modulo stabilizers; its label is read off the commutators *)
Theorem four_cosets_at_most_one e f a b : length e = N -> length f = N ->
  in_spanP N gens (xorv e (cand f a b)) ->
  a = xorb (bsp lz e) (bsp lz f) /\ b = xorb (bsp lx e) (bsp lx f).
Proof.
  intros Le Lf Hs.
  assert (Lc : length (cand f a b) = N) by (unfold cand; rewrite xorv_length; rewrite ?lpart_len; auto).
  pose proof (bsp_span_r lz _ lz_comm Hs) as Hz. pose proof (bsp_span_r lx _ lx_comm Hs) as Hx.
  unfold cand in Hz, Hx.
  rewrite bsp_linear_r in Hz, Hx by (rewrite xorv_length; rewrite ?lpart_len; congruence).
  rewrite bsp_linear_r in Hz, Hx by (rewrite lpart_len; congruence).
  rewrite bsp_lz_lpart in Hz. rewrite bsp_lx_lpart in Hx.
  split.
  - destruct (bsp lz e), (bsp lz f), a; cbn in *; congruence.
  - destruct (bsp lx e), (bsp lx f), b; cbn in *; congruence.
Qed.
Corollary four_cosets_inequivalent f a b a' b' : length f = N ->
  in_spanP N gens (xorv (cand f a b) (cand f a' b')) -> a = a' /\ b = b'.
Proof.
  intros Lf Hs.
  assert (Lc : length (cand f a b) = N) by (unfold cand; rewrite xorv_length; rewrite ?lpart_len; auto).
  destruct (four_cosets_at_most_one (cand f a b) f a' b' Lc Lf Hs) as [Ha Hb].
  unfold cand in Ha, Hb. rewrite bsp_linear_r in Ha, Hb by (rewrite lpart_len; congruence).
  rewrite bsp_lz_lpart in Ha. rewrite bsp_lx_lpart in Hb.
  split.
  - rewrite Ha. destruct (bsp lz f), a; reflexivity.
  - rewrite Hb. destruct (bsp lx f), b; reflexivity.
Qed.

(* ---- existence, given that the normalizer is spanned by generators and logicals ---- *)
Definition normalizer_spanned : Prop :=
  forall t, length t = N -> (forall g, In g gens -> bsp t g = false) -> in_spanP N (gens ++ [lx; lz]) t.

Theorem four_cosets_exists e f : normalizer_spanned -> length e = N -> length f = N ->
  (forall g, In g gens -> bsp e g = bsp f g) ->
  exists a b, in_spanP N gens (xorv e (cand f a b)).
Proof.
  intros HN Le Lf Hsyn.
  assert (Lt : length (xorv e f) = N) by (rewrite xorv_length; congruence).
  destruct (HN (xorv e f) Lt) as (cs & Lcs & Ecs).
  { intros g Hg. rewrite bsp_linear_l by congruence. rewrite (Hsyn g Hg). apply xorb_nilpotent. }
  rewrite app_length in Lcs. cbn [length] in Lcs.
  rewrite <- (firstn_skipn (length gens) cs) in Ecs.
  assert (L1 : length (firstn (length gens) cs) = length gens) by (rewrite firstn_length; lia).
  assert (L2 : length (skipn (length gens) cs) = 2) by (rewrite skipn_length; lia).
  destruct (skipn (length gens) cs) as [|a [|b [|? ?]]] eqn:E2; try discriminate.
  rewrite (lincomb_app N) in Ecs by (auto; repeat constructor; assumption).
  fold (lpart a b) in Ecs.
  set (s := lincomb N (firstn (length gens) cs) gens) in *.
  assert (Ls : length s = N) by (apply lincomb_length; exact gens_len).
  exists a, b. exists (firstn (length gens) cs). split; [exact L1|].
  fold s. unfold cand. rewrite <- xorv_assoc, <- Ecs.
  rewrite xorv_assoc, xorv_self, lpart_len. rewrite <- Ls. symmetry. apply xorv_zeros_r.
Qed.

(* c10_four_cosets, relative to [normalizer_spanned] *)
Theorem four_cosets_exactly_one e f : normalizer_spanned -> length e = N -> length f = N ->
  (forall g, In g gens -> bsp e g = bsp f g) ->
  exists a b, in_spanP N gens (xorv e (cand f a b))
              /\ forall a' b', in_spanP N gens (xorv e (cand f a' b')) -> a' = a /\ b' = b.
Proof.
  intros HN Le Lf Hsyn. destruct (four_cosets_exists e f HN Le Lf Hsyn) as (a & b & Hab).
  exists a, b. split; [exact Hab|]. intros a' b' H'.
  destruct (four_cosets_at_most_one e f a b Le Lf Hab) as [-> ->].
  destruct (four_cosets_at_most_one e f a' b' Le Lf H') as [-> ->]. split; reflexivity.
Qed.

(* the candidates are the decoders' f, f.X, f.X.Z, f.Z *)
Lemma cand_list f : length f = N ->
  [cand f false false; cand f true false; cand f true true; cand f false true]
  = [f; xorv f lx; xorv (xorv f lx) lz; xorv f lz].
Proof.
  intros Lf. unfold cand, lpart. cbn [lincomb].
  assert (E0 : xorv f (zeros N) = f) by (rewrite <- Lf; apply xorv_zeros_r).
  assert (Ex : xorv lx (zeros N) = lx) by (rewrite <- lx_len; apply xorv_zeros_r).
  assert (Ez : xorv lz (zeros N) = lz) by (rewrite <- lz_len; apply xorv_zeros_r).
  rewrite E0, Ex, Ez. rewrite <- (xorv_assoc f lx lz). reflexivity.
Qed.

End FourCosets.

(* ---- the proviso from a symplectic-basis certificate ---------------------------------------- *)
Section Basis.
Variable N : nat.
Hypothesis Neven : Nat.even N = true.
Variables (gens dests : list bsf) (lx lz : bsf).
Hypothesis gens_len : rowlen N gens.
Hypothesis dests_len : rowlen N dests.
Hypothesis same_count : length dests = length gens.
Hypothesis lx_len : length lx = N.
Hypothesis lz_len : length lz = N.
Hypothesis gens_comm : forall g h, In g gens -> In h gens -> bsp g h = false.
Hypothesis lx_comm : forall g, In g gens -> bsp lx g = false.
Hypothesis lz_comm : forall g, In g gens -> bsp lz g = false.
(* destabilizers: d_i anticommutes with g_i and commutes with every other generator *)
Hypothesis dests_dual : forall i j, i < length gens -> j < length gens ->
  bsp (nth i dests []) (nth j gens []) = (i =? j).
(* generators, destabilizers and logicals span the whole space *)
Hypothesis spans_all : forall t, length t = N -> in_spanP N (gens ++ dests ++ [lx; lz]) t.

Lemma bsp_zeros_r' t : bsp t (zeros N) = false.
Proof. unfold bsp. apply dot_zeros_r. Qed.
(* commutator of a combination with a vector *)
Lemma bsp_lincomb_l cs ds g : rowlen N ds -> length g = N ->
  bsp (lincomb N cs ds) g = csum cs (map (fun d => bsp d g) ds).
Proof.
  intros Hds Lg. rewrite bsp_sym by (rewrite ?lincomb_length; auto; congruence).
  unfold bsp at 1. rewrite dot_comm. rewrite dot_lincomb by exact Hds. f_equal.
  apply map_ext_in. intros d Hd. pose proof (proj1 (Forall_forall _ _) Hds d Hd) as Ld.
  rewrite dot_comm. change (dot (swap_halves g) d) with (bsp g d).
  apply bsp_sym; [congruence|rewrite Lg; exact Neven].
Qed.
Lemma csum_all_false cs vals : (forall v, In v vals -> v = false) -> csum cs vals = false.
Proof.
  revert vals; induction cs as [|c cs IH]; intros [|v vals] H; cbn [csum]; auto.
  rewrite (H v (or_introl eq_refl)), andb_false_r. rewrite IH by (intros x Hx; apply H; right; exact Hx). reflexivity.
Qed.

(* the normalizer of the stabilizers is spanned by the generators and the two logicals *)
Theorem normalizer_spanned_of_basis : normalizer_spanned N gens lx lz.
Proof.
  intros t Lt Ht.
  destruct (spans_all t Lt) as (cs & Lcs & Ecs).
  rewrite !app_length in Lcs. cbn [length] in Lcs.
  set (m := length gens) in *.
  rewrite <- (firstn_skipn m cs) in Ecs.
  set (c1 := firstn m cs) in *. set (r1 := skipn m cs) in *.
  assert (L1 : length c1 = m) by (unfold c1; rewrite firstn_length; lia).
  assert (Lr1 : length r1 = m + 2) by (unfold r1; rewrite skipn_length; lia).
  rewrite <- (firstn_skipn m r1) in Ecs.
  set (c2 := firstn m r1) in *. set (c3 := skipn m r1) in *.
  assert (L2 : length c2 = m) by (unfold c2; rewrite firstn_length; lia).
  assert (L3 : length c3 = 2) by (unfold c3; rewrite skipn_length; lia).
  assert (Hll : rowlen N [lx; lz]) by (repeat constructor; assumption).
  rewrite (lincomb_app N) in Ecs by (auto; try (apply Forall_app; split; assumption); unfold m; congruence).
  rewrite (lincomb_app N) in Ecs by (auto; unfold m in *; congruence).
  set (sg := lincomb N c1 gens) in *. set (sd := lincomb N c2 dests) in *. set (sl := lincomb N c3 [lx; lz]) in *.
  assert (Lsg : length sg = N) by (apply lincomb_length; auto).
  assert (Lsd : length sd = N) by (apply lincomb_length; auto).
  assert (Lsl : length sl = N) by (apply lincomb_length; auto).
  (* every destabilizer coefficient vanishes *)
  assert (Hc2 : forall j, j < m -> nth j c2 false = false).
  { intros j Hj. set (g := nth j gens []).
    assert (Hg : In g gens) by (apply nth_In; exact Hj).
    pose proof (proj1 (Forall_forall _ _) gens_len g Hg) as Lg.
    pose proof (Ht g Hg) as H0. rewrite <- Ecs in H0.
    rewrite bsp_linear_l in H0 by (rewrite xorv_length; congruence).
    rewrite bsp_linear_l in H0 by congruence.
    assert (Hsg : bsp sg g = false).
    { unfold sg. rewrite bsp_lincomb_l by auto. apply csum_all_false. intros v Hv.
      apply in_map_iff in Hv. destruct Hv as (h & <- & Hh). apply gens_comm; auto. }
    assert (Hsl : bsp sl g = false).
    { unfold sl. rewrite bsp_lincomb_l by auto. apply csum_all_false. intros v Hv.
      apply in_map_iff in Hv. destruct Hv as (h & <- & Hh). destruct Hh as [<-|[<-|[]]]; [apply lx_comm|apply lz_comm]; exact Hg. }
    assert (Hsd : bsp sd g = nth j c2 false).
    { unfold sd. rewrite bsp_lincomb_l by auto. apply csum_unit; [rewrite map_length; unfold m in *; congruence|].
      intros s0 Hs0. rewrite L2 in Hs0.
      rewrite (nth_indep _ false (bsp [] g)) by (rewrite map_length; unfold m in *; lia).
      rewrite (map_nth (fun d => bsp d g)). unfold g. rewrite dests_dual by (unfold m in *; lia). apply Nat.eqb_sym. }
    rewrite Hsg, Hsl, Hsd in H0. destruct (nth j c2 false); [cbn in H0; discriminate|reflexivity]. }
  assert (Ec2 : c2 = zeros (length dests)).
  { apply (nth_ext _ _ false false); [rewrite zeros_length; unfold m in *; congruence|].
    intros j Hj. unfold zeros. rewrite nth_repeat. apply Hc2. lia. }
  assert (Esd : sd = zeros N) by (unfold sd; rewrite Ec2; apply lincomb_zeros).
  exists (c1 ++ c3). split; [rewrite !app_length; cbn [length]; lia|].
  rewrite (lincomb_app N) by (auto; unfold m in *; congruence).
  fold sg sl. rewrite <- Ecs, Esd. f_equal. symmetry. apply xorv_zeros_l. exact Lsl.
Qed.

End Basis.

(* ---- the full statement (NOT proved: the counting step "n - 1 independent commuting generators and a
   canonical logical pair span the normalizer" is missing) ------------------------------------------- *)
Definition four_cosets_statement : Prop :=
  forall n (gens : list bsf) (lx lz f e : bsf),
    rowlen (n + n) (lx :: lz :: f :: e :: gens) -> independent (n + n) gens -> S (length gens) = n ->
    (forall g h, In g gens -> In h gens -> bsp g h = false) ->
    (forall g, In g gens -> bsp lx g = false /\ bsp lz g = false) -> bsp lx lz = true ->
    (forall g, In g gens -> bsp e g = bsp f g) ->
    exists a b, in_spanP (n + n) gens (xorv e (cand (n + n) lx lz f a b))
                /\ forall a' b', in_spanP (n + n) gens (xorv e (cand (n + n) lx lz f a' b')) -> a' = a /\ b' = b.
(* what is missing is exactly this *)
Definition normalizer_counting_statement : Prop :=
  forall n (gens : list bsf) (lx lz : bsf),
    rowlen (n + n) (lx :: lz :: gens) -> independent (n + n) gens -> S (length gens) = n ->
    (forall g h, In g gens -> In h gens -> bsp g h = false) ->
    (forall g, In g gens -> bsp lx g = false /\ bsp lz g = false) -> bsp lx lz = true ->
    normalizer_spanned (n + n) gens lx lz.
Lemma even_double n : Nat.even (n + n) = true.
Proof. replace (n + n) with (2 * n) by lia. apply Nat.even_spec. exists n. reflexivity. Qed.
(* the full statement follows from the counting statement (so only that step is open) *)
Theorem four_cosets_of_counting : normalizer_counting_statement -> four_cosets_statement.
Proof.
  intros HC n gens lx lz f e HL HI Hm Hgg Hl Hxz Hsyn.
  pose proof (Forall_inv HL) as Lx. pose proof (Forall_inv_tail HL) as HL1.
  pose proof (Forall_inv HL1) as Lz. pose proof (Forall_inv_tail HL1) as HL2.
  pose proof (Forall_inv HL2) as Lf. pose proof (Forall_inv_tail HL2) as HL3.
  pose proof (Forall_inv HL3) as Le. pose proof (Forall_inv_tail HL3) as Lg. cbn beta in Lx, Lz, Lf, Le.
  apply (four_cosets_exactly_one (n + n)); auto.
  - apply even_double.
  - intros g Hg. apply Hl; exact Hg.
  - intros g Hg. apply Hl; exact Hg.
  - apply HC; auto. repeat constructor; auto.
Qed.

(* ---- non-vacuity: the two-qubit code with stabilizer ZZ, logicals XX and ZI, destabilizer XI ---- *)
Example four_cosets_example : forall e f, length e = 4 -> length f = 4 ->
  (forall g, In g [[false; false; true; true]] -> bsp e g = bsp f g) ->
  exists a b, in_spanP 4 [[false; false; true; true]]
                (xorv e (cand 4 [true; true; false; false] [false; false; true; false] f a b))
              /\ forall a' b', in_spanP 4 [[false; false; true; true]]
                   (xorv e (cand 4 [true; true; false; false] [false; false; true; false] f a' b')) -> a' = a /\ b' = b.
Proof.
  intros e f Le Lf Hs.
  apply (four_cosets_exactly_one 4); auto; try reflexivity.
  - repeat constructor.
  - intros g [<-|[]]. reflexivity.
  - intros g [<-|[]]. reflexivity.
  - apply (normalizer_spanned_of_basis 4 eq_refl [[false; false; true; true]] [[true; false; false; false]]);
      try reflexivity; try (repeat constructor; fail).
    + intros g h [<-|[]] [<-|[]]. reflexivity.
    + intros g [<-|[]]. reflexivity.
    + intros g [<-|[]]. reflexivity.
    + intros i j Hi Hj. cbn in Hi, Hj. assert (i = 0) by lia. assert (j = 0) by lia. subst. reflexivity.
    + intros t Lt. destruct t as [|a [|b [|c [|d [|? ?]]]]]; try discriminate.
      exists [d; xorb a b; b; xorb c d]. split; [reflexivity|]. destruct a, b, c, d; reflexivity.
Qed.
