(* Tensor/PlanarNet.v — the tensor network of PlanarMPSDecoder.TNC.create_tn, for every size, and its exact value.

   Grid of R x C nodes (R = 2 rows - 1, C = 2 cols - 1 for the planar code; the development only needs R >= 1,
   C >= 2).  Node (k, c) with k + c even is a qubit node: on even rows the horizontal-edge tensor (h_node_value),
   on odd rows the vertical-edge tensor (v_node_value), whose entry at bond indices (n, e, s, w) is the probability
   of the letter obtained from the sample's letter there and the four adjacent bond bits.  Node (k, c) with k + c
   odd is a stabilizer node: tsr.delta of its shape.  Shapes are node_shape(direction): a leg on the border of the
   grid has dimension 1, every other leg dimension 2.

   Main result [planar_tn_value]: the specification value of Tensor/Net.v (sum over all bond assignments of the
   product of all entries; the number computed by the exact column sweep, Noop.sweep_exact) equals the sum over all
   assignments of ONE bit per stabilizer node of the product over the qubit nodes of their entries at the bits of
   the adjacent stabilizer nodes: the delta tensors collapse the bond sums. *)
From Coq Require Import List Arith Lia Bool ZArith Ring Permutation.
From QV Require Import Core.Bits Tensor.Sums Tensor.Net Tensor.StartStop Tensor.Contract Tensor.Sweep Tensor.Ladder Tensor.Exact
  Tensor.Coset Tensor.CosetSum.
Import ListNotations.
Local Open Scope nat_scope.

(* names of the stabilizer nodes: grid positions as integer pairs (as the lattice code indexes plaquettes) *)
Notation idx := (Z * Z)%type.
Definition zz_eqb (a b : idx) : bool := (fst a =? fst b)%Z && (snd a =? snd b)%Z.
Lemma zz_eqb_eq a b : zz_eqb a b = true <-> a = b.
Proof. destruct a, b; unfold zz_eqb; cbn [fst snd]. split; [intros H; f_equal; lia|intros H; injection H; lia]. Qed.
Definition npos (k c : nat) : idx := (Z.of_nat k, Z.of_nat c).
Lemma npos_inj k c k' c' : npos k c = npos k' c' -> k = k' /\ c = c'.
Proof. unfold npos. intros E. injection E. lia. Qed.

Section PlanarNet.
Variable K : cring.
Add Ring Kring : (cring_th K).
Local Notation rO := (r0 K).
Local Notation rI := (r1 K).
Local Infix "+!" := (radd K) (at level 50, left associativity).
Local Infix "*!" := (rmul K) (at level 40, left associativity).
Local Notation tensor := (tensor K).
Local Notation col := (list (option tensor)).
Local Notation prodl := (@prodl K).

Variable d : dist K.
Variables R C : nat.
Hypothesis HR : 1 <= R.
Hypothesis HC : 2 <= C.
(* the sample's X and Z components at grid position (row, column) *)
Variables fx fz : nat -> nat -> bool.

(* node_shape(direction) *)
Definition dN (k : nat) : nat := if k =? 0 then 1 else 2.
Definition dS (k : nat) : nat := if S k =? R then 1 else 2.
Definition dW (c : nat) : nat := if c =? 0 then 1 else 2.
Definition dE (c : nat) : nat := if S c =? C then 1 else 2.

(* entry of the qubit node at (k, c) for bond bits n e s w: h_node_value on even rows, v_node_value on odd rows *)
Definition sval (k c : nat) (n e s w : bool) : K :=
  if Nat.even k then h_node K d (fx k c) (fz k c) n e s w else v_node K d (fx k c) (fz k c) n e s w.
Definition node (k c : nat) : tensor :=
  mkT (dN k) (dE c) (dS k) (dW c)
      (if Nat.even (k + c)
       then (fun n e s w => sval k c (nbit n) (nbit e) (nbit s) (nbit w))
       else (fun n e s w => delta_val K [dN k; dE c; dS k; dW c] [n; e; s; w])).
Definition pcol (c : nat) : col := map (fun k => Some (node k c)) (seq 0 R).
(* create_tn, as a list of columns *)
Definition planar_tn : list col := map pcol (seq 0 C).

(* ------------------------------------------------------------------------------------------------ *)
(** * tsr.delta on the shapes that occur                                                             *)
(* ------------------------------------------------------------------------------------------------ *)
Lemma delta_cases dn de ds dw (v e s w : bool) :
  (dn = 1 \/ dn = 2) -> (de = 1 \/ de = 2) -> (ds = 1 \/ ds = 2) -> (dw = 1 \/ dw = 2) -> ~ (de = 1 /\ dw = 1) ->
  (dn = 1 -> v = false) -> (de = 1 -> e = false) -> (ds = 1 -> s = false) -> (dw = 1 -> w = false) ->
  delta_val K [dn; de; ds; dw] [b2n v; b2n e; b2n s; b2n w]
  = if ((dn =? 1) || eqb v (if de =? 2 then e else w)) && ((ds =? 1) || eqb s (if de =? 2 then e else w))
       && ((de =? 1) || (dw =? 1) || eqb w e) then rI else rO.
Proof.
  intros [-> | ->] [-> | ->] [-> | ->] [-> | ->] Hnd Hv He Hs Hw;
    try (exfalso; apply Hnd; split; reflexivity);
    try (rewrite (Hv eq_refl)); try (rewrite (He eq_refl)); try (rewrite (Hs eq_refl)); try (rewrite (Hw eq_refl));
    clear; repeat match goal with b : bool |- _ => destruct b end; reflexivity.
Qed.

(* ------------------------------------------------------------------------------------------------ *)
(** * One column: the operator with the vertical bonds summed out                                    *)
(* ------------------------------------------------------------------------------------------------ *)
Section Column.
Variable c : nat.
Variables wf ef : nat -> bool.   (* the bits on the west and east bonds, by row *)
Hypothesis Hwf : dW c = 1 -> forall k, wf k = false.
Hypothesis Hef : dE c = 1 -> forall k, ef k = false.
Hypothesis Hc : c < C.

(* the bit of the stabilizer node (k, c): its east bond, or its west bond in the last column *)
Definition pb (k : nat) : bool := if dE c =? 2 then ef k else wf k.
(* its west and east bonds agree *)
Definition okk (k : nat) : bool := (dE c =? 1) || (dW c =? 1) || eqb (wf k) (ef k).
Definition north (k : nat) : bool := (0 <? k) && pb (k - 1).
Definition south (k : nat) : bool := (S k <? R) && pb (S k).
Definition pre (k0 : nat) (v : bool) (len : nat) : bool :=
  negb ((0 <? len) && Nat.odd (k0 + c) && (0 <? k0) && negb (eqb v (pb k0))).
Definition qrows (k0 len : nat) : list nat := filter (fun k => Nat.even (k + c)) (seq k0 len).
Definition prows (k0 len : nat) : list nat := filter (fun k => Nat.odd (k + c)) (seq k0 len).
Definition colfactor (k : nat) : K := sval k c (north k) (ef k) (south k) (wf k).
Definition ind (b : bool) : K := if b then rI else rO.

Lemma dims12 : forall k, (dN k = 1 \/ dN k = 2) /\ (dS k = 1 \/ dS k = 2) /\ (dW k = 1 \/ dW k = 2) /\ (dE k = 1 \/ dE k = 2).
Proof. intros k. unfold dN, dS, dW, dE. destruct (k =? 0), (S k =? R), (S k =? C); auto. Qed.
Lemma not_both_dummy : ~ (dE c = 1 /\ dW c = 1).
Proof. unfold dE, dW. destruct (S c =? C) eqn:E1, (c =? 0) eqn:E2; try (intros [? ?]; discriminate).
  apply Nat.eqb_eq in E1, E2. lia. Qed.

Lemma col_suffix len : forall k0 v, k0 + len = R ->
  (Nat.even (k0 + c) = true -> v = north k0) -> (k0 = 0 -> v = false) ->
  opc (map (fun k => Some (node k c)) (seq k0 len)) (b2n v)
      (map (fun k => b2n (wf k)) (seq k0 len)) (map (fun k => b2n (ef k)) (seq k0 len))
  = ind (pre k0 v len) *! ind (forallb okk (prows k0 len)) *! prodl (qrows k0 len) colfactor.
Proof.
  induction len as [|len IH]; intros k0 v HL Hv H0.
  - cbn. ring.
  - cbn [seq map]. unfold qrows, prows. cbn [seq filter]. fold (qrows (S k0) len). fold (prows (S k0) len).
    destruct (dims12 k0) as (HdN & HdS & _ & _). destruct (dims12 c) as (_ & _ & HdW & HdE).
    assert (Epar : Nat.odd (k0 + c) = negb (Nat.even (k0 + c))) by (unfold Nat.odd; reflexivity).
    rewrite Epar.
    destruct (Nat.even (k0 + c)) eqn:Ev; cbn [negb].
    + (* qubit node *)
      cbn [opc node ds val]. rewrite Ev.
      assert (Hpre : pre k0 v (S len) = true) by (unfold pre; rewrite Epar; cbn [negb]; rewrite andb_false_r; reflexivity).
      rewrite Hpre. rewrite prodl_cons. unfold colfactor at 1. rewrite <- (Hv eq_refl).
      unfold dS. destruct (S k0 =? R) eqn:ER.
      * (* bottom row *)
        apply Nat.eqb_eq in ER. assert (len = 0) by lia. subst len. rewrite (sumn_1 K). cbn [seq map opc].
        unfold qrows, prows. cbn [seq filter forallb]. rewrite prodl_nil.
        unfold south. replace (S k0 <? R) with false by (symmetry; apply Nat.ltb_ge; lia). cbn [andb].
        rewrite !nbit_b2n. cbn [nbit Nat.eqb negb ind]. ring.
      * (* a stabilizer node follows *)
        apply Nat.eqb_neq in ER. cbn [sumn].
        assert (Ev' : Nat.even (S k0 + c) = false).
        { change (S k0 + c) with (S (k0 + c)). rewrite Nat.even_succ. unfold Nat.odd. rewrite Ev. reflexivity. }
        assert (IHs : forall sg : bool,
                  opc (map (fun k => Some (node k c)) (seq (S k0) len)) (b2n sg)
                      (map (fun k => b2n (wf k)) (seq (S k0) len)) (map (fun k => b2n (ef k)) (seq (S k0) len))
                  = ind (eqb sg (pb (S k0))) *! ind (forallb okk (prows (S k0) len)) *! prodl (qrows (S k0) len) colfactor).
        { intros sg. rewrite (IH (S k0) sg) by (try lia; intros E; rewrite Ev' in E; discriminate).
          unfold pre. replace (0 <? len) with true by (symmetry; apply Nat.ltb_lt; lia).
          unfold Nat.odd. rewrite Ev'. cbn [negb andb Nat.ltb Nat.leb]. rewrite negb_involutive. reflexivity. }
        pose proof (IHs false) as I0. pose proof (IHs true) as I1. cbn [b2n] in I0, I1. rewrite I0, I1. rewrite !nbit_b2n.
        unfold south. replace (S k0 <? R) with true by (symmetry; apply Nat.ltb_lt; lia). cbn [andb].
        destruct (pb (S k0)); cbn [eqb ind nbit b2n Nat.eqb negb]; ring.
    + (* stabilizer node *)
      cbn [opc node ds val]. rewrite Ev.
      assert (Ev' : Nat.even (S k0 + c) = true).
      { change (S k0 + c) with (S (k0 + c)). rewrite Nat.even_succ. unfold Nat.odd. rewrite Ev. reflexivity. }
      assert (Hvd : dN k0 = 1 -> v = false) by (unfold dN; destruct (k0 =? 0) eqn:E; [apply Nat.eqb_eq in E; auto|discriminate]).
      assert (Hpre : ind (pre k0 v (S len)) = ind ((dN k0 =? 1) || eqb v (pb k0))).
      { f_equal. unfold pre, dN. rewrite Epar. cbn [negb andb Nat.ltb Nat.leb].
        destruct k0 as [|k0']; cbn [Nat.eqb Nat.ltb Nat.leb andb orb negb]; [reflexivity|]. apply negb_involutive. }
      rewrite Hpre. cbn [forallb].
      unfold dS. destruct (S k0 =? R) eqn:ER.
      * apply Nat.eqb_eq in ER. assert (len = 0) by lia. subst len. rewrite (sumn_1 K). cbn [seq map opc].
        unfold qrows, prows. cbn [seq filter forallb]. rewrite prodl_nil.
        assert (D0 := delta_cases (dN k0) (dE c) 1 (dW c) v (ef k0) false (wf k0) HdN HdE (or_introl eq_refl) HdW
                        not_both_dummy Hvd (fun E => Hef E k0) (fun _ => eq_refl) (fun E => Hwf E k0)).
        cbn [b2n] in D0. rewrite D0.
        fold (pb k0). unfold okk.
        cbn [Nat.eqb orb andb]. rewrite !andb_true_r.
        destruct ((dN k0 =? 1) || eqb v (pb k0)), ((dE c =? 1) || (dW c =? 1) || eqb (wf k0) (ef k0)); cbn [andb ind]; ring.
      * apply Nat.eqb_neq in ER. cbn [sumn].
        assert (IHs : opc (map (fun k => Some (node k c)) (seq (S k0) len)) (b2n (pb k0))
                      (map (fun k => b2n (wf k)) (seq (S k0) len)) (map (fun k => b2n (ef k)) (seq (S k0) len))
                  = ind (forallb okk (prows (S k0) len)) *! prodl (qrows (S k0) len) colfactor).
        { rewrite (IH (S k0) (pb k0)); try lia.
          - unfold pre. unfold Nat.odd. rewrite Ev'. cbn [negb]. rewrite andb_false_r. cbn [andb negb ind]. ring.
          - intros _. unfold north. cbn [Nat.ltb Nat.leb andb]. replace (S k0 - 1) with k0 by lia. reflexivity. }
        assert (D0 := delta_cases (dN k0) (dE c) 2 (dW c) v (ef k0) false (wf k0) HdN HdE (or_intror eq_refl) HdW
                        not_both_dummy Hvd (fun E => Hef E k0) (fun E => ltac:(discriminate E)) (fun E => Hwf E k0)).
        assert (D1 := delta_cases (dN k0) (dE c) 2 (dW c) v (ef k0) true (wf k0) HdN HdE (or_intror eq_refl) HdW
                        not_both_dummy Hvd (fun E => Hef E k0) (fun E => ltac:(discriminate E)) (fun E => Hwf E k0)).
        cbn [b2n] in D0, D1. rewrite D0, D1.
        fold (pb k0). unfold okk at 1. cbn [Nat.eqb orb].
        destruct (pb k0) eqn:Epb; cbn [b2n] in IHs; cbn [eqb]; rewrite ?andb_false_r, ?andb_true_r; cbn [andb ind];
          rewrite IHs;
          destruct ((dN k0 =? 1) || eqb v _), ((dE c =? 1) || (dW c =? 1) || eqb (wf k0) (ef k0)); cbn [andb ind]; ring.
Qed.

End Column.

(* ------------------------------------------------------------------------------------------------ *)
(** * Assignments of one bit per stabilizer node                                                     *)
(* ------------------------------------------------------------------------------------------------ *)
Local Notation sumA := (@sumA K idx zz_eqb).
Local Notation upd := (@upd idx zz_eqb).

(* the bit carried by the west bond of node (k, c): the node's own bit if it is a stabilizer node, else the bit of
   the stabilizer node to its west; a dummy bond (first column) carries 0.  Similarly to the east. *)
Definition gbw (g : idx -> bool) (c k : nat) : bool := (0 <? c) && g (npos k (if Nat.odd (k + c) then c else c - 1)).
Definition gbe (g : idx -> bool) (c k : nat) : bool := (S c <? C) && gbw g (S c) k.
Definition wsof (g : idx -> bool) (c : nat) : list nat := map (fun k => b2n (gbw g c k)) (seq 0 R).
(* the stabilizer node whose bit is on the east bond of node (k, c) *)
Definition pe (c k : nat) : idx := npos k (if Nat.odd (k + c) then c else S c).
Lemma odd_succ_r k c : Nat.odd (k + S c) = negb (Nat.odd (k + c)).
Proof. replace (k + S c) with (S (k + c)) by lia. rewrite Nat.odd_succ. unfold Nat.odd. now rewrite negb_involutive. Qed.
Lemma gw_succ g c k : gbw g (S c) k = g (pe c k).
Proof.
  unfold gbw, pe. cbn [Nat.ltb Nat.leb andb]. rewrite odd_succ_r. destruct (Nat.odd (k + c)); cbn [negb]; [|reflexivity].
  replace (S c - 1) with c by lia. reflexivity.
Qed.

(* the variables summed when column c is absorbed: the bits on its east bonds that are not forced by its own
   stabilizer nodes (all of them in the first column, whose stabilizer nodes have a dummy west leg) *)
Definition free (c k : nat) : bool := (c =? 0) || Nat.even (k + c).
Definition frees_from (c k0 len : nat) : list idx := map (pe c) (filter (free c) (seq k0 len)).
Definition frees (c : nat) : list idx := frees_from c 0 R.
Lemma in_frees_from c k0 len q : In q (frees_from c k0 len) ->
  exists k, k0 <= k < k0 + len /\ free c k = true /\ q = pe c k.
Proof.
  unfold frees_from. intros H. apply in_map_iff in H. destruct H as (k & <- & Hk). apply filter_In in Hk.
  destruct Hk as [Hk Hf]. apply in_seq in Hk. exists k. auto.
Qed.
Lemma pe_row c k : fst (pe c k) = Z.of_nat k.
Proof. reflexivity. Qed.

Lemma ind_and a b : ind (a && b) = ind a *! ind b.
Proof. destruct a, b; cbn; ring. Qed.

(* summing the east bonds of a column against the consistency indicator of its stabilizer nodes *)
Lemma elim_rows c (w0 : nat -> bool) : forall len k0 g (F : list bool -> K),
  (forall k, k0 <= k -> free c k = false -> g (npos k c) = w0 k) ->
  sumB len (fun t => ind (forallb (fun p => free c (fst p) || eqb (w0 (fst p)) (snd p)) (combine (seq k0 len) t)) *! F t)
  = sumA (frees_from c k0 len) (fun g1 => F (map (gbw g1 (S c)) (seq k0 len))) g.
Proof.
  induction len as [|len IH]; intros k0 g F Hw.
  - cbn. ring.
  - cbn [sumB seq combine forallb fst snd]. unfold frees_from. cbn [seq filter].
    destruct (free c k0) eqn:Ef; cbn [orb andb map]; fold (frees_from c (S k0) len).
    + (* a free bond *)
      cbn [CosetSum.sumA].
      assert (Hstep : forall e, sumB len (fun t => ind (forallb (fun p => free c (fst p) || eqb (w0 (fst p)) (snd p))
                                   (combine (seq (S k0) len) t)) *! F (e :: t))
                = sumA (frees_from c (S k0) len) (fun g1 => F (map (gbw g1 (S c)) (seq k0 (S len)))) (upd (pe c k0) e g)).
      { intros e. rewrite (IH (S k0) (upd (pe c k0) e g) (fun t => F (e :: t))).
        - apply (sumA_ext_in K zz_eqb zz_eqb_eq). intros g1 Hg1. cbn [seq map]. do 2 f_equal. symmetry.
          rewrite gw_succ. rewrite Hg1.
          + apply (upd_same zz_eqb zz_eqb_eq).
          + intros Hin. apply in_frees_from in Hin. destruct Hin as (k & Hk & _ & E).
            apply (f_equal fst) in E. rewrite !pe_row in E. lia.
        - intros k Hk Hfk. rewrite (upd_other zz_eqb zz_eqb_eq); [apply Hw; [lia|exact Hfk]|].
          intros E. apply (f_equal fst) in E. rewrite pe_row in E. cbn in E. lia. }
      rewrite !Hstep. reflexivity.
    + (* a bond forced by the stabilizer node (k0, c) *)
      assert (Hfree : (c =? 0) = false /\ Nat.even (k0 + c) = false).
      { unfold free in Ef. apply orb_false_iff in Ef. exact Ef. }
      destruct Hfree as [Hc0 Hev].
      assert (Hodd : Nat.odd (k0 + c) = true) by (unfold Nat.odd; rewrite Hev; reflexivity).
      transitivity (sumB len (fun t => ind (forallb (fun p => free c (fst p) || eqb (w0 (fst p)) (snd p))
                                   (combine (seq (S k0) len) t)) *! F (w0 k0 :: t))).
      { rewrite (sumB_ext K len _ (fun t => ind (eqb (w0 k0) false) *! (ind (forallb (fun p => free c (fst p) || eqb (w0 (fst p)) (snd p))
                                   (combine (seq (S k0) len) t)) *! F (false :: t))))
          by (intros t _; rewrite ind_and; ring).
        rewrite (sumB_ext K len (fun t => ind (eqb (w0 k0) true && _) *! _)
                   (fun t => ind (eqb (w0 k0) true) *! (ind (forallb (fun p => free c (fst p) || eqb (w0 (fst p)) (snd p))
                                   (combine (seq (S k0) len) t)) *! F (true :: t))))
          by (intros t _; rewrite ind_and; ring).
        rewrite !sumB_mul_l. destruct (w0 k0); cbn [eqb ind]; ring. }
      rewrite (IH (S k0) g (fun t => F (w0 k0 :: t))) by (intros k Hk; apply Hw; lia).
      apply (sumA_ext_in K zz_eqb zz_eqb_eq). intros g1 Hg1. cbn [seq map]. do 2 f_equal. symmetry.
      rewrite gw_succ. unfold pe. rewrite Hodd. rewrite Hg1.
      * apply Hw; [lia|exact Ef].
      * intros Hin. apply in_frees_from in Hin. destruct Hin as (k & Hk & _ & E).
        apply (f_equal fst) in E. rewrite pe_row in E. cbn in E. lia.
Qed.

Lemma forallb_filter {A} (p f : A -> bool) l : forallb f (filter p l) = forallb (fun a => negb (p a) || f a) l.
Proof. induction l as [|a l IH]; cbn; [reflexivity|]. destruct (p a); cbn; rewrite IH; reflexivity. Qed.
Lemma forallb_ext_in {A} (f g : A -> bool) l : (forall a, In a l -> f a = g a) -> forallb f l = forallb g l.
Proof. induction l as [|a l IH]; intros H; cbn; [reflexivity|]. rewrite H by (left; reflexivity). rewrite IH; auto. intros; apply H; right; auto. Qed.
Lemma forallb_combine_seq (h : nat -> bool -> bool) : forall (t : list bool) k0,
  forallb (fun k => h k (nth (k - k0) t false)) (seq k0 (length t)) = forallb (fun p => h (fst p) (snd p)) (combine (seq k0 (length t)) t).
Proof.
  induction t as [|e t IH]; intros k0; cbn [length seq combine forallb fst snd]; [reflexivity|].
  rewrite Nat.sub_diag. cbn [nth]. f_equal. rewrite <- IH. apply forallb_ext_in. intros k Hk. apply in_seq in Hk.
  replace (k - k0) with (S (k - S k0)) by lia. reflexivity.
Qed.
Lemma map_const_seq {A} (x : A) n k0 : map (fun _ => x) (seq k0 n) = repeat x n.
Proof. revert k0. induction n as [|n IH]; intros k0; cbn; [reflexivity|]. now rewrite IH. Qed.
Lemma map_ext_seq {A} (f g : nat -> A) k0 n : (forall k, k0 <= k < k0 + n -> f k = g k) -> map f (seq k0 n) = map g (seq k0 n).
Proof. intros H. apply map_ext_in. intros k Hk. apply in_seq in Hk. apply H. exact Hk. Qed.

(* value of the qubit nodes of column c under the assignment g *)
Definition colval (c : nat) (g : idx -> bool) : K := prodl (qrows c 0 R) (colfactor c (gbw g c) (gbe g c)).

Lemma gw_first g k : gbw g 0 k = false.
Proof. reflexivity. Qed.
Lemma gw_dummy g c : dW c = 1 -> forall k, gbw g c k = false.
Proof. unfold dW. destruct (c =? 0) eqn:E; [|discriminate]. apply Nat.eqb_eq in E. subst. intros _ k. reflexivity. Qed.
Lemma ge_dummy g c : dE c = 1 -> forall k, gbe g c k = false.
Proof. unfold dE, gbe. destruct (S c =? C) eqn:E; [|discriminate]. apply Nat.eqb_eq in E. intros _ k.
  replace (S c <? C) with false by (symmetry; apply Nat.ltb_ge; lia). reflexivity. Qed.
Lemma ge_inner g c k : S c < C -> gbe g c k = gbw g (S c) k.
Proof. intros H. unfold gbe. replace (S c <? C) with true by (symmetry; apply Nat.ltb_lt; lia). reflexivity. Qed.
Lemma dE_inner c : S c < C -> dE c = 2.
Proof. intros H. unfold dE. replace (S c =? C) with false by (symmetry; apply Nat.eqb_neq; lia). reflexivity. Qed.
Lemma dE_last c : S c = C -> dE c = 1.
Proof. intros H. unfold dE. replace (S c =? C) with true by (symmetry; apply Nat.eqb_eq; lia). reflexivity. Qed.

(* the operator of a whole column, bonds given as bits *)
Lemma col_closed c wf ef : (dW c = 1 -> forall k, wf k = false) -> (dE c = 1 -> forall k, ef k = false) -> c < C ->
  opc (pcol c) 0 (map (fun k => b2n (wf k)) (seq 0 R)) (map (fun k => b2n (ef k)) (seq 0 R))
  = ind (forallb (okk c wf ef) (prows c 0 R)) *! prodl (qrows c 0 R) (colfactor c wf ef).
Proof.
  intros Hwf Hef Hc. unfold pcol.
  pose proof (col_suffix c wf ef Hwf Hef Hc R 0 false eq_refl (fun _ => eq_refl) (fun _ => eq_refl)) as H.
  cbn [b2n] in H. rewrite H.
  unfold pre. cbn [Nat.ltb Nat.leb andb]. rewrite andb_false_r. cbn [andb negb ind]. ring.
Qed.

(* absorbing column c (not the last): the sum over its east bonds *)
Lemma column_step c g (G : list nat -> K) : S c < C ->
  sumt (repeat 2 R) (fun mid => opc (pcol c) 0 (wsof g c) mid *! G mid)
  = sumA (frees c) (fun g1 => prodl (qrows c 0 R) (colfactor c (gbw g c) (gbw g1 (S c))) *! G (wsof g1 (S c))) g.
Proof.
  intros Hc. rewrite sumt_sumB.
  pose (F := fun t : list bool => prodl (qrows c 0 R) (colfactor c (gbw g c) (fun k => nth k t false)) *! G (map b2n t)).
  rewrite (sumB_ext K R _ (fun t => ind (forallb (fun p => free c (fst p) || eqb (gbw g c (fst p)) (snd p)) (combine (seq 0 R) t)) *! F t)).
  - unfold frees. rewrite (elim_rows c (gbw g c) R 0 g F).
    + apply (sumA_ext_in K zz_eqb zz_eqb_eq). intros g1 _. unfold F. f_equal.
      * apply prodl_ext_in. intros k Hk. unfold qrows in Hk. apply filter_In in Hk. destruct Hk as [Hk _]. apply in_seq in Hk.
        unfold colfactor, north, south, pb. rewrite dE_inner by exact Hc. cbn [Nat.eqb].
        assert (Hn : forall j, j < R -> nth j (map (gbw g1 (S c)) (seq 0 R)) false = gbw g1 (S c) j).
        { intros j Hj. rewrite (nth_indep _ false (gbw g1 (S c) 0)) by (rewrite map_length, seq_length; exact Hj).
          rewrite map_nth. rewrite seq_nth by exact Hj. reflexivity. }
        rewrite (Hn k) by lia.
        destruct (0 <? k) eqn:E0; [apply Nat.ltb_lt in E0; rewrite (Hn (k - 1)) by lia|];
        (destruct (S k <? R) eqn:E1; [apply Nat.ltb_lt in E1; rewrite (Hn (S k)) by lia|]); reflexivity.
      * unfold wsof. rewrite map_map. reflexivity.
    + intros k _ Hf. unfold free in Hf. apply orb_false_iff in Hf. destruct Hf as [Hc0 Hev].
      unfold gbw. replace (0 <? c) with true by (symmetry; apply Nat.ltb_lt; apply Nat.eqb_neq in Hc0; lia).
      unfold Nat.odd. rewrite Hev. reflexivity.
  - intros t Ht. unfold F.
    assert (Emid : map b2n t = map (fun k => b2n (nth k t false)) (seq 0 R)) by (rewrite <- Ht; symmetry; apply map_nth_seq).
    rewrite Emid at 1. unfold wsof.
    rewrite (col_closed c (gbw g c) (fun k => nth k t false)); [| apply gw_dummy | rewrite dE_inner by exact Hc; discriminate | lia].
    assert (Eind : forallb (okk c (gbw g c) (fun k => nth k t false)) (prows c 0 R)
                   = forallb (fun p => free c (fst p) || eqb (gbw g c (fst p)) (snd p)) (combine (seq 0 R) t)).
    { unfold prows. rewrite forallb_filter. rewrite <- Ht.
      rewrite <- (forallb_combine_seq (fun k e => free c k || eqb (gbw g c k) e) t 0). apply forallb_ext_in. intros k _.
      rewrite Nat.sub_0_r. unfold okk, free. rewrite dE_inner by exact Hc. cbn [Nat.eqb orb]. unfold dW.
      unfold Nat.odd. destruct (c =? 0), (Nat.even (k + c)); cbn [negb orb Nat.eqb]; reflexivity. }
    rewrite Eind. ring.
Qed.

(* the qubit-node product of column c only reads bits of stabilizer nodes in columns c - 1, c, c + 1 *)
Lemma gw_ext g g' c k : (forall q, (snd q <= Z.of_nat c)%Z -> g q = g' q) -> gbw g c k = gbw g' c k.
Proof. intros H. unfold gbw. destruct (0 <? c) eqn:E; [|reflexivity]. apply Nat.ltb_lt in E. cbn [andb]. apply H.
  unfold npos. cbn [snd]. destruct (Nat.odd (k + c)); lia. Qed.
Lemma ge_ext g g' c k : (forall q, (snd q <= Z.of_nat (S c))%Z -> g q = g' q) -> gbe g c k = gbe g' c k.
Proof. intros H. unfold gbe. destruct (S c <? C); [|reflexivity]. cbn [andb]. apply gw_ext. exact H. Qed.
Lemma colfactor_ext c wf ef wf' ef' k : (forall j, wf j = wf' j) -> (forall j, ef j = ef' j) ->
  colfactor c wf ef k = colfactor c wf' ef' k.
Proof. intros Hw He. unfold colfactor, north, south, pb. rewrite !Hw, !He. destruct (dE c =? 2); rewrite ?Hw, ?He; reflexivity. Qed.
Lemma colval_ext c g g' : (forall q, (snd q <= Z.of_nat (S c))%Z -> g q = g' q) -> colval c g = colval c g'.
Proof.
  intros H. unfold colval. apply prodl_ext_in. intros k _. apply colfactor_ext; intros j.
  - apply gw_ext. intros q Hq. apply H. lia.
  - apply ge_ext. exact H.
Qed.
Lemma in_frees_col c q : 0 < c -> In q (frees c) -> snd q = Z.of_nat (S c).
Proof.
  intros Hc H. apply in_frees_from in H. destruct H as (k & _ & Hf & ->). unfold free in Hf.
  replace (c =? 0) with false in Hf by (symmetry; apply Nat.eqb_neq; lia). cbn [orb] in Hf.
  unfold pe, Nat.odd. rewrite Hf. reflexivity.
Qed.
Lemma in_later_frees c n q : In q (flat_map frees (seq (S c) n)) -> (Z.of_nat (S (S c)) <= snd q)%Z.
Proof.
  intros H. apply in_flat_map in H. destruct H as (c' & Hc' & Hq). apply in_seq in Hc'.
  rewrite (in_frees_col c' q) by (lia || exact Hq). lia.
Qed.

Lemma netop_cons2' (A B : col) rest ws es :
  netop (A :: B :: rest) ws es = sumt (map (deo K) A) (fun mid => opc A 0 ws mid *! netop (B :: rest) mid es).
Proof. reflexivity. Qed.
Lemma deo_pcol c : map (deo K) (pcol c) = repeat (dE c) R.
Proof. unfold pcol. rewrite map_map. cbn [deo de node]. apply map_const_seq. Qed.
Lemma dwo_pcol c : map (dwo K) (pcol c) = repeat (dW c) R.
Proof. unfold pcol. rewrite map_map. cbn [dwo dw node]. apply map_const_seq. Qed.

(* the network to the right of (and including) column c, entered with the bits of g on its west bonds *)
Lemma net_suffix : forall n c g, c + S n = C ->
  netop (map pcol (seq c (S n))) (wsof g c) (repeat 0 R)
  = sumA (flat_map frees (seq c n)) (fun g' => prodl (seq c (S n)) (fun c' => colval c' g')) g.
Proof.
  induction n as [|n IH]; intros c g Hc.
  - cbn [seq map flat_map CosetSum.sumA netop]. rewrite prodl_cons, prodl_nil.
    assert (Ees : repeat 0 R = map (fun k => b2n (gbe g c k)) (seq 0 R)).
    { rewrite (map_ext_seq _ (fun _ => 0)); [symmetry; apply map_const_seq|]. intros k _. rewrite ge_dummy; [reflexivity|apply dE_last; lia]. }
    rewrite Ees. unfold wsof. rewrite col_closed; [|apply gw_dummy|apply ge_dummy|lia].
    assert (Hall : forallb (okk c (gbw g c) (gbe g c)) (prows c 0 R) = true).
    { apply forallb_forall. intros k _. unfold okk. rewrite dE_last by lia. reflexivity. }
    rewrite Hall. unfold colval. cbn [ind]. ring.
  - replace (seq c (S (S n))) with (c :: seq (S c) (S n)) by reflexivity.
    cbn [map]. replace (map pcol (seq (S c) (S n))) with (pcol (S c) :: map pcol (seq (S (S c)) n)) by reflexivity.
    rewrite netop_cons2'. rewrite deo_pcol, dE_inner by lia.
    rewrite (column_step c g (fun mid => netop (pcol (S c) :: map pcol (seq (S (S c)) n)) mid (repeat 0 R))) by lia.
    cbn [seq flat_map]. rewrite (sumA_app K zz_eqb).
    apply (sumA_ext_in K zz_eqb zz_eqb_eq). intros g1 Hg1.
    change (pcol (S c) :: map pcol (seq (S (S c)) n)) with (map pcol (seq (S c) (S n))).
    rewrite (IH (S c) g1) by lia.
    rewrite <- (sumA_mul_l K zz_eqb). apply (sumA_ext_in K zz_eqb zz_eqb_eq). intros g' Hg'.
    rewrite prodl_cons. f_equal. unfold colval. apply prodl_ext_in. intros k _. apply colfactor_ext; intros j.
    + destruct (Nat.eq_dec c 0) as [->|Hc0]; [reflexivity|].
      transitivity (gbw g1 c j).
      * apply gw_ext. intros q Hq. symmetry. apply Hg1. intros Hin. apply in_frees_col in Hin; lia.
      * apply gw_ext. intros q Hq. symmetry. apply Hg'. intros Hin. apply in_later_frees in Hin. lia.
    + rewrite ge_inner by lia. symmetry. apply gw_ext. intros q Hq. apply Hg'. intros Hin. apply in_later_frees in Hin. lia.
Qed.

(* ------------------------------------------------------------------------------------------------ *)
(** * The value of the network                                                                       *)
(* ------------------------------------------------------------------------------------------------ *)
(* all stabilizer nodes, in the order in which the sweep meets their bonds; all qubit nodes, column by column *)
Definition PL : list idx := flat_map frees (seq 0 (C - 1)).
Definition QL : list (nat * nat) := flat_map (fun c => map (fun k => (k, c)) (qrows c 0 R)) (seq 0 C).
(* entry of the qubit node at (k, c) at the bits of the adjacent stabilizer nodes (0 across the border) *)
Definition siteval (g : idx -> bool) (kc : nat * nat) : K :=
  let (k, c) := kc in
  sval k c ((0 <? k) && g (npos (k - 1) c)) ((S c <? C) && g (npos k (S c))) ((S k <? R) && g (npos (S k) c)) ((0 <? c) && g (npos k (c - 1))).

Lemma pb_plaq g c j : c < C -> Nat.odd (j + c) = true -> pb c (gbw g c) (gbe g c) j = g (npos j c).
Proof.
  intros Hc Ho. unfold pb. destruct (Nat.eq_dec (S c) C) as [E|E].
  - rewrite dE_last by exact E. cbn [Nat.eqb]. unfold gbw. replace (0 <? c) with true by (symmetry; apply Nat.ltb_lt; lia).
    rewrite Ho. reflexivity.
  - rewrite dE_inner by lia. cbn [Nat.eqb]. rewrite ge_inner by lia. rewrite gw_succ. unfold pe. rewrite Ho. reflexivity.
Qed.
Lemma colfactor_siteval g c k : c < C -> Nat.even (k + c) = true -> colfactor c (gbw g c) (gbe g c) k = siteval g (k, c).
Proof.
  intros Hc He. assert (Ho : Nat.odd (k + c) = false) by (unfold Nat.odd; rewrite He; reflexivity).
  unfold colfactor, siteval. f_equal.
  - unfold north. destruct (0 <? k) eqn:E; [|reflexivity]. apply Nat.ltb_lt in E. cbn [andb]. apply pb_plaq; [exact Hc|].
    replace (k + c) with (S (k - 1 + c)) in Ho by lia. rewrite Nat.odd_succ in Ho.
    unfold Nat.odd. rewrite Ho. reflexivity.
  - unfold gbe. destruct (S c <? C); [|reflexivity]. cbn [andb]. rewrite gw_succ. unfold pe. rewrite Ho. reflexivity.
  - unfold south. destruct (S k <? R); [|reflexivity]. cbn [andb]. apply pb_plaq; [exact Hc|].
    change (S k + c) with (S (k + c)). rewrite Nat.odd_succ. exact He.
  - unfold gbw. rewrite Ho. reflexivity.
Qed.

(* MAIN THEOREM of this file: the delta tensors collapse the bond sums.  The left-hand side is the specification
   value of Tensor/Net.v (= Flat.flatval, the flat sum over all bond assignments, by Flat.value_flat; = the result of
   the exact column sweep, by Noop.sweep_exact); the right-hand side has one bit per stabilizer node. *)
Theorem planar_tn_value g0 :
  value R planar_tn = sumA PL (fun g => prodl QL (siteval g)) g0.
Proof.
  unfold value, planar_tn, PL, QL.
  assert (EC : C = S (C - 1)) by lia. rewrite EC at 1.
  assert (Ews : repeat 0 R = wsof g0 0).
  { unfold wsof. symmetry. rewrite (map_ext_seq _ (fun _ => 0)); [apply map_const_seq|]. intros k _. reflexivity. }
  rewrite Ews at 1. rewrite net_suffix by lia.
  apply (sumA_ext_in K zz_eqb zz_eqb_eq). intros g _. rewrite prodl_flat_map. rewrite <- EC.
  apply prodl_ext_in. intros c Hc. apply in_seq in Hc. rewrite prodl_map. unfold colval. apply prodl_ext_in. intros k Hk.
  unfold qrows in Hk. apply filter_In in Hk. destruct Hk as [_ Hk]. apply colfactor_siteval; [lia|exact Hk].
Qed.

(* ------------------------------------------------------------------------------------------------ *)
(** * The network is well-shaped (hypothesis of Exact.sweep_exact / Flat.value_flat)                 *)
(* ------------------------------------------------------------------------------------------------ *)
Lemma dN_pos k : 0 < dN k. Proof. unfold dN. destruct (k =? 0); lia. Qed.
Lemma dS_pos k : 0 < dS k. Proof. unfold dS. destruct (S k =? R); lia. Qed.
Lemma pcol_vchain c : forall len k0, k0 + len = R -> vchain K (map (fun k => Some (node k c)) (seq k0 len)).
Proof.
  induction len as [|len IH]; intros k0 HL; [exact I|]. cbn [seq map]. cbn [vchain]. split; [|apply IH; lia].
  destruct len as [|len]; [exact I|]. cbn [seq map dso dno ds dn node]. unfold dS, dN.
  replace (S k0 =? R) with false by (symmetry; apply Nat.eqb_neq; lia). reflexivity.
Qed.
Lemma pcol_posc c : forall len k0, posc K (map (fun k => Some (node k c)) (seq k0 len)).
Proof.
  induction len as [|len IH]; intros k0; [exact I|]. cbn [seq map posc dso dno ds dn node]. split; [|apply IH].
  split; [apply dN_pos|apply dS_pos].
Qed.
Lemma pcol_colwf c : colwf K R (pcol c).
Proof.
  unfold colwf, pcol. split; [rewrite map_length, seq_length; reflexivity|]. split; [apply pcol_vchain; lia|apply pcol_posc].
Qed.
Lemma tn_hchain : forall n c0, c0 + n = C -> hchain K (map pcol (seq c0 n)).
Proof.
  induction n as [|n IH]; intros c0 HL; [exact I|]. cbn [seq map hchain]. split; [|apply IH; lia].
  destruct n as [|n]; [exact I|]. cbn [seq map]. apply hmatch_map. rewrite deo_pcol, dwo_pcol.
  rewrite dE_inner by lia. reflexivity.
Qed.
Lemma last_map_seq {A} (f : nat -> A) n x : last (map f (seq 0 (S n))) x = f n.
Proof. rewrite seq_S, map_app. cbn [map]. apply last_last. Qed.

Theorem planar_tn_wf : netwf K R planar_tn.
Proof.
  assert (ER : R = S (R - 1)) by lia. assert (EC : C = S (C - 1)) by lia.
  unfold netwf, planar_tn. repeat split.
  - rewrite EC. discriminate.
  - apply Forall_forall. intros A HA. apply in_map_iff in HA. destruct HA as (c & <- & _). apply pcol_colwf.
  - apply tn_hchain. lia.
  - apply Forall_forall. intros A HA. apply in_map_iff in HA. destruct HA as (c & <- & _).
    unfold pcol. rewrite ER. reflexivity.
  - apply Forall_forall. intros A HA. apply in_map_iff in HA. destruct HA as (c & <- & _).
    unfold pcol. rewrite ER at 1. rewrite last_map_seq. cbn [dso ds node]. unfold dS.
    replace (S (R - 1) =? R) with true by (symmetry; apply Nat.eqb_eq; lia). reflexivity.
  - rewrite EC. cbn [seq map hd]. rewrite dwo_pcol. reflexivity.
  - rewrite EC at 1. rewrite last_map_seq. rewrite deo_pcol. rewrite dE_last by lia. reflexivity.
  - exists 0, R. split; [lia|]. intros i Hi. split; [lia|]. intros _. unfold occ_row. rewrite EC. cbn [seq map existsb].
    apply orb_true_iff. left. unfold pcol.
    rewrite (nth_indep _ None (Some (node 0 0))) by (rewrite map_length, seq_length; exact Hi).
    rewrite (map_nth (fun k => Some (node k 0))). reflexivity.
Qed.

(* ------------------------------------------------------------------------------------------------ *)
(** * The two enumerations: every node once                                                          *)
(* ------------------------------------------------------------------------------------------------ *)
Lemma NoDup_map_inj_on {A B} (f : A -> B) l : (forall x y, In x l -> In y l -> f x = f y -> x = y) -> NoDup l -> NoDup (map f l).
Proof.
  induction l as [|a l IH]; intros Hinj Hnd; cbn; [constructor|]. inversion Hnd as [|? ? Hn Hnd']; subst. constructor.
  - intros Hin. apply in_map_iff in Hin. destruct Hin as (y & Ey & Hy).
    assert (y = a) by (apply Hinj; [right; exact Hy|left; reflexivity|exact Ey]). subst. contradiction.
  - apply IH; [|exact Hnd']. intros x y Hx Hy. apply Hinj; right; assumption.
Qed.
Lemma NoDup_flat_map_disj' {A B} (f : A -> list B) : forall l, NoDup l -> (forall x, In x l -> NoDup (f x)) ->
  (forall x y b, In x l -> In y l -> In b (f x) -> In b (f y) -> x = y) -> NoDup (flat_map f l).
Proof.
  induction l as [|a l IH]; intros Hnd Hf Hd; cbn; [constructor|]. inversion Hnd as [|? ? Hn Hnd']; subst.
  apply NoDup_app_intro.
  - apply Hf. left; reflexivity.
  - apply IH; auto. intros x Hx. apply Hf. right; exact Hx. intros x y b Hx Hy. apply Hd; right; assumption.
  - intros b Hb1 Hb2. apply in_flat_map in Hb2. destruct Hb2 as (y & Hy & Hby).
    assert (a = y) by (apply (Hd a y b); [left; reflexivity|right; exact Hy|exact Hb1|exact Hby]). subst. contradiction.
Qed.

Lemma in_QL k c : In (k, c) QL <-> c < C /\ k < R /\ Nat.even (k + c) = true.
Proof.
  unfold QL. rewrite in_flat_map. split.
  - intros (c' & Hc' & Hin). apply in_seq in Hc'. apply in_map_iff in Hin. destruct Hin as (k' & E & Hk'). injection E as -> ->.
    unfold qrows in Hk'. apply filter_In in Hk'. destruct Hk' as [Hk' He]. apply in_seq in Hk'. repeat split; try lia. exact He.
  - intros (Hc & Hk & He). exists c. split; [apply in_seq; lia|]. apply in_map_iff. exists k. split; [reflexivity|]. unfold qrows. apply filter_In. split; [apply in_seq; lia|exact He].
Qed.
Lemma NoDup_QL : NoDup QL.
Proof.
  unfold QL. apply NoDup_flat_map_disj'.
  - apply seq_NoDup.
  - intros c _. apply NoDup_map_inj_on; [intros x y _ _ E; injection E; auto|]. unfold qrows. apply NoDup_filter, seq_NoDup.
  - intros x y [k c] _ _ H1 H2. apply in_map_iff in H1, H2. destruct H1 as (? & E1 & _), H2 as (? & E2 & _). congruence.
Qed.

Lemma in_frees c q : In q (frees c) <-> exists k, k < R /\ free c k = true /\ q = pe c k.
Proof.
  split.
  - intros H. apply in_frees_from in H. destruct H as (k & Hk & Hf & E). exists k. repeat split; auto; lia.
  - intros (k & Hk & Hf & ->). unfold frees, frees_from. apply in_map. apply filter_In. split; [apply in_seq; lia|exact Hf].
Qed.
Lemma even_odd_false n : Nat.even n = true -> Nat.odd n = false.
Proof. intros H. unfold Nat.odd. rewrite H. reflexivity. Qed.
Lemma odd_even_false n : Nat.odd n = true -> Nat.even n = false.
Proof. unfold Nat.odd. destruct (Nat.even n); [discriminate|reflexivity]. Qed.

Lemma in_PL q : In q PL <-> exists k c, k < R /\ c < C /\ Nat.odd (k + c) = true /\ q = npos k c.
Proof.
  unfold PL. rewrite in_flat_map. split.
  - intros (c & Hc & Hin). apply in_seq in Hc. apply in_frees in Hin. destruct Hin as (k & Hk & Hf & ->). unfold pe.
    destruct (Nat.odd (k + c)) eqn:Eo.
    + exists k, c. repeat split; auto; lia.
    + exists k, (S c). repeat split; auto; try lia. rewrite odd_succ_r, Eo. reflexivity.
  - intros (k & c & Hk & Hc & Ho & ->).
    destruct c as [|[|c]].
    + exists 0. split; [apply in_seq; lia|]. apply in_frees. exists k. repeat split; auto. unfold pe. rewrite Ho. reflexivity.
    + exists 0. split; [apply in_seq; lia|]. apply in_frees. exists k. repeat split; auto. unfold pe.
      rewrite odd_succ_r in Ho. destruct (Nat.odd (k + 0)); [discriminate|reflexivity].
    + exists (S c). split; [apply in_seq; lia|]. apply in_frees. exists k. repeat split; auto.
      * unfold free. rewrite odd_succ_r in Ho. unfold Nat.odd in Ho. rewrite negb_involutive in Ho. rewrite Ho. apply orb_true_r.
      * unfold pe. rewrite odd_succ_r in Ho. destruct (Nat.odd (k + S c)); [discriminate|reflexivity].
Qed.
Lemma NoDup_PL : NoDup PL.
Proof.
  unfold PL. apply NoDup_flat_map_disj'.
  - apply seq_NoDup.
  - intros c _. unfold frees, frees_from. apply NoDup_map_inj_on; [|apply NoDup_filter, seq_NoDup].
    intros x y _ _ E. apply (f_equal fst) in E. rewrite !pe_row in E. lia.
  - intros x y b _ _ H1 H2.
    assert (Hcol : forall c, In b (frees c) -> (c = 0 /\ (snd b <= 1)%Z) \/ (0 < c /\ snd b = Z.of_nat (S c))).
    { intros c H. destruct (Nat.eq_dec c 0) as [->|Hc0].
      - left. split; [reflexivity|]. apply in_frees in H. destruct H as (k & _ & _ & ->). unfold pe, npos. cbn [snd]. destruct (Nat.odd (k + 0)); lia.
      - right. split; [lia|]. apply in_frees_col; [lia|exact H]. }
    destruct (Hcol x H1) as [[-> Hx]|[Hx Ex]], (Hcol y H2) as [[-> Hy]|[Hy Ey]]; lia.
Qed.

(* ------------------------------------------------------------------------------------------------ *)
(** * The transposed network (mode 'r') is well-shaped too                                           *)
(* ------------------------------------------------------------------------------------------------ *)
Definition prow (r : nat) : col := map (fun c => Some (transpose_tensor K (node r c))) (seq 0 C).
Lemma nth_pcol r c : r < R -> nth r (pcol c) None = Some (node r c).
Proof.
  intros Hr. unfold pcol. rewrite (nth_indep _ None (Some (node 0 c))) by (rewrite map_length, seq_length; exact Hr).
  rewrite (map_nth (fun k => Some (node k c))). rewrite seq_nth by exact Hr. reflexivity.
Qed.
Lemma planar_tn_transposed : transpose_net K R planar_tn = map prow (seq 0 R).
Proof.
  unfold transpose_net, planar_tn. apply map_ext_in. intros r Hr. apply in_seq in Hr. rewrite map_map.
  apply map_ext. intros c. rewrite nth_pcol by lia. reflexivity.
Qed.
Lemma prow_vchain r : forall len c0, c0 + len = C -> vchain K (map (fun c => Some (transpose_tensor K (node r c))) (seq c0 len)).
Proof.
  induction len as [|len IH]; intros c0 HL; [exact I|]. cbn [seq map]. cbn [vchain]. split; [|apply IH; lia].
  destruct len as [|len]; [exact I|]. cbn [seq map dso dno ds dn transpose_tensor node de dw]. unfold dE, dW.
  replace (S c0 =? C) with false by (symmetry; apply Nat.eqb_neq; lia). reflexivity.
Qed.
Lemma dW_pos c : 0 < dW c. Proof. unfold dW. destruct (c =? 0); lia. Qed.
Lemma dE_pos c : 0 < dE c. Proof. unfold dE. destruct (S c =? C); lia. Qed.
Lemma prow_posc r : forall len c0, posc K (map (fun c => Some (transpose_tensor K (node r c))) (seq c0 len)).
Proof.
  induction len as [|len IH]; intros c0; [exact I|]. cbn [seq map posc dso dno ds dn transpose_tensor node de dw]. split; [|apply IH].
  split; [apply dW_pos|apply dE_pos].
Qed.
Lemma deo_prow r : map (deo K) (prow r) = repeat (dS r) C.
Proof. unfold prow. rewrite map_map. cbn [deo de transpose_tensor ds node]. apply map_const_seq. Qed.
Lemma dwo_prow r : map (dwo K) (prow r) = repeat (dN r) C.
Proof. unfold prow. rewrite map_map. cbn [dwo dw transpose_tensor dn node]. apply map_const_seq. Qed.
Lemma tnT_hchain : forall n r0, r0 + n = R -> hchain K (map prow (seq r0 n)).
Proof.
  induction n as [|n IH]; intros r0 HL; [exact I|]. cbn [seq map hchain]. split; [|apply IH; lia].
  destruct n as [|n]; [exact I|]. cbn [seq map]. apply hmatch_map. rewrite deo_prow, dwo_prow. unfold dS, dN.
  replace (S r0 =? R) with false by (symmetry; apply Nat.eqb_neq; lia). reflexivity.
Qed.
Theorem planar_tn_transposed_wf : netwf K C (transpose_net K R planar_tn).
Proof.
  assert (ER : R = S (R - 1)) by lia. assert (EC : C = S (C - 1)) by lia.
  rewrite planar_tn_transposed. unfold netwf. repeat split.
  - rewrite ER. discriminate.
  - apply Forall_forall. intros A HA. apply in_map_iff in HA. destruct HA as (r & <- & _). unfold colwf, prow.
    split; [rewrite map_length, seq_length; reflexivity|]. split; [apply prow_vchain; lia|apply prow_posc].
  - apply tnT_hchain. lia.
  - apply Forall_forall. intros A HA. apply in_map_iff in HA. destruct HA as (r & <- & _). unfold prow. rewrite EC. reflexivity.
  - apply Forall_forall. intros A HA. apply in_map_iff in HA. destruct HA as (r & <- & _).
    unfold prow. rewrite EC at 1. rewrite last_map_seq. cbn [dso ds transpose_tensor de node]. unfold dE.
    replace (S (C - 1) =? C) with true by (symmetry; apply Nat.eqb_eq; lia). reflexivity.
  - rewrite ER. cbn [seq map hd]. rewrite dwo_prow. reflexivity.
  - rewrite ER at 1. rewrite last_map_seq. rewrite deo_prow. unfold dS.
    replace (S (R - 1) =? R) with true by (symmetry; apply Nat.eqb_eq; lia). reflexivity.
  - exists 0, C. split; [lia|]. intros i Hi. split; [lia|]. intros _. unfold occ_row. rewrite ER. cbn [seq map existsb].
    apply orb_true_iff. left. unfold prow.
    rewrite (nth_indep _ None (Some (transpose_tensor K (node 0 0)))) by (rewrite map_length, seq_length; exact Hi).
    rewrite (map_nth (fun c => Some (transpose_tensor K (node 0 c)))). reflexivity.
Qed.

End PlanarNet.
