(* Tensor/Net.v — four-leg tensors (N,E,S,W), MPS/MPO columns with empty (None) sites, the
   column-operator semantics [opc], the model of mps.contract_pairwise's per-site step [pw]
   (merged indices (nN) = n*dN+N, (sS) = s*dS+S, as numpy's reshape of 'nNEsSw'), and the key
   lemma [pairwise_sem]: pairwise contraction is composition of column operators, for any
   number of rows, any bond dimensions, and None padding.  Generic in the ring of entries. *)
From Coq Require Import List Arith Lia Ring.
From QV Require Import Tensor.Sums.
Import ListNotations.

(* ---- tabulation: [tab1 d f] is extensionally [f] (for every index), but its values at
   i < d are computed once, when the closure is built; used so that the extracted engine and
   vm_compute do not recompute contracted tensors entry by entry, exponentially often. *)
Definition tab1 {X} (d : nat) (f : nat -> X) : nat -> X :=
  let l := map f (seq 0 d) in
  fun i => match nth_error l i with Some x => x | None => f i end.
Lemma tab1_eq {X} d (f : nat -> X) i : tab1 d f i = f i.
Proof.
  unfold tab1. destruct (nth_error (map f (seq 0 d)) i) as [x|] eqn:E; [|reflexivity].
  rewrite nth_error_map in E. destruct (nth_error (seq 0 d) i) as [j|] eqn:E2; cbn in E; [|discriminate].
  injection E as <-. assert (Hi : i < d). { apply nth_error_Some in E2 || (rewrite <- (seq_length d 0); apply nth_error_Some; congruence). }
  rewrite (nth_error_nth' _ 0) in E2 by (rewrite seq_length; exact Hi).
  rewrite seq_nth in E2 by exact Hi. injection E2 as <-. reflexivity.
Qed.
Definition tab4 {X} (a b c d : nat) (f : nat -> nat -> nat -> nat -> X) : nat -> nat -> nat -> nat -> X :=
  tab1 a (fun n => tab1 b (fun e => tab1 c (fun s => tab1 d (fun w => f n e s w)))).
Lemma tab4_eq {X} a b c d (f : nat -> nat -> nat -> nat -> X) n e s w : tab4 a b c d f n e s w = f n e s w.
Proof. unfold tab4. now rewrite !tab1_eq. Qed.

Section Net.
Variable K : cring.
Add Ring Kring : (cring_th K).
Local Notation "0" := (r0 K).
Local Notation "1" := (r1 K).
Local Infix "+" := (radd K).
Local Infix "*" := (rmul K).

Record tensor := mkT { dn : nat; de : nat; ds : nat; dw : nat; val : nat -> nat -> nat -> nat -> K }.
Notation col := (list (option tensor)).

(* an empty site behaves as a tensor with four dummy legs *)
Definition dno (o : option tensor) := match o with Some t => dn t | None => 1%nat end.
Definition deo (o : option tensor) := match o with Some t => de t | None => 1%nat end.
Definition dso (o : option tensor) := match o with Some t => ds t | None => 1%nat end.
Definition dwo (o : option tensor) := match o with Some t => dw t | None => 1%nat end.
Definition hd_dn (A : col) := match A with a :: _ => dno a | [] => 1%nat end.

(* column operator: v = index on the incoming (north) bond of the first site, ws / es the west /
   east indices row by row; sums over the vertical bonds inside the column *)
Fixpoint opc (A : col) (v : nat) (ws es : list nat) : K :=
  match A, ws, es with
  | Some T :: A', w :: ws', e :: es' => sumn (ds T) (fun s => val T v e s w * opc A' s ws' es')
  | None :: A', w :: ws', e :: es' => opc A' v ws' es'
  | [], [], [] => 1
  | _, _, _ => 0
  end.

(* mps.contract_pairwise._contract: einsum('nesw,NESe->nNEsSw').reshape((nN), E, (sS), w) *)
Definition pw_fun (a b : tensor) : nat -> nat -> nat -> nat -> K :=
  fun nN E sS w =>
    sumn (de a) (fun e => val a (nN / dn b) e (sS / ds b) w * val b (nN mod dn b) E (sS mod ds b) e).
Definition pw (a b : tensor) : tensor :=
  mkT (dn a * dn b) (de b) (ds a * ds b) (dw a)
      (tab4 (dn a * dn b) (de b) (ds a * ds b) (dw a) (pw_fun a b)).
Lemma pw_val a b nN E sS w : val (pw a b) nN E sS w = pw_fun a b nN E sS w.
Proof. apply tab4_eq. Qed.
Definition pw_opt (le ri : option tensor) : option tensor :=
  match le, ri with
  | None, _ => ri
  | _, None => le
  | Some a, Some b => Some (pw a b)
  end.
Fixpoint pairwise (A B : col) : col :=
  match A, B with a :: A', b :: B' => pw_opt a b :: pairwise A' B' | _, _ => [] end.

(* ---- shapes ---- *)
Fixpoint vchain (A : col) : Prop :=
  match A with
  | x :: A' => match A' with y :: _ => dso x = dno y | [] => True end /\ vchain A'
  | [] => True
  end.
Fixpoint posc (A : col) : Prop :=
  match A with x :: A' => (0 < dno x /\ 0 < dso x)%nat /\ posc A' | [] => True end.
Fixpoint hmatch (A B : col) : Prop :=
  match A, B with
  | a :: A', b :: B' => deo a = dwo b /\ hmatch A' B'
  | [], [] => True
  | _, _ => False
  end.
Definition vok (A : col) (v : nat) : Prop := match A with None :: _ => v = O | _ => True end.
Definition Vok (B : col) (V : nat) : Prop := match B with b :: _ => (V < dno b)%nat | [] => True end.

Lemma hmatch_length A B : hmatch A B -> length A = length B.
Proof. revert B; induction A as [|a A IH]; intros [|b B] H; cbn in *; try contradiction; auto. destruct H; f_equal; auto. Qed.
Lemma pairwise_length A B : length A = length B -> length (pairwise A B) = length A.
Proof. revert B; induction A as [|a A IH]; intros [|b B] H; cbn in *; try discriminate; auto. Qed.

Lemma pw_opt_dn a b : dno (pw_opt a b) = (dno a * dno b)%nat.
Proof. destruct a, b; cbn; lia. Qed.
Lemma pw_opt_ds a b : dso (pw_opt a b) = (dso a * dso b)%nat.
Proof. destruct a, b; cbn; lia. Qed.
Lemma pw_opt_de a b : deo a = dwo b -> deo (pw_opt a b) = deo b.
Proof. destruct a, b; cbn; auto. Qed.
Lemma pw_opt_dw a b : deo a = dwo b -> dwo (pw_opt a b) = dwo a.
Proof. destruct a, b; cbn; auto. Qed.

Lemma pairwise_vchain A B : length A = length B -> vchain A -> vchain B -> vchain (pairwise A B).
Proof.
  revert B; induction A as [|a A IH]; intros [|b B] HL HA HB; cbn in HL; try discriminate; [exact I|].
  cbn [pairwise vchain]. cbn [vchain] in HA, HB. destruct HA as [Ha HA], HB as [Hb HB]. split.
  - destruct A as [|a' A], B as [|b' B]; cbn in HL; try discriminate; cbn [pairwise]; [exact I|].
    rewrite pw_opt_dn, pw_opt_ds. congruence.
  - apply IH; auto.
Qed.
Lemma pairwise_posc A B : posc A -> posc B -> posc (pairwise A B).
Proof.
  revert B; induction A as [|a A IH]; intros [|b B] HA HB; cbn [pairwise posc]; auto.
  cbn [posc] in HA, HB. destruct HA as [[? ?] HA], HB as [[? ?] HB]. rewrite pw_opt_dn, pw_opt_ds. split; [nia|auto].
Qed.
Lemma pairwise_deo A B : hmatch A B -> map deo (pairwise A B) = map deo B.
Proof. revert B; induction A as [|a A IH]; intros [|b B] H; cbn in *; try contradiction; auto.
  destruct H as [H1 H2]. rewrite pw_opt_de by exact H1. f_equal; auto. Qed.
Lemma pairwise_dwo A B : hmatch A B -> map dwo (pairwise A B) = map dwo A.
Proof. revert B; induction A as [|a A IH]; intros [|b B] H; cbn in *; try contradiction; auto.
  destruct H as [H1 H2]. rewrite pw_opt_dw by exact H1. f_equal; auto. Qed.
Lemma pairwise_hd_dn A B : length A = length B -> hd_dn (pairwise A B) = (hd_dn A * hd_dn B)%nat.
Proof. destruct A, B; cbn; intros; try discriminate; auto. apply pw_opt_dn. Qed.

Lemma opc_nil i ws es : opc [] i ws es = opc [] O ws es.
Proof. destruct ws, es; reflexivity. Qed.

Lemma decode_idx s S d : (S < d)%nat -> ((s * d + S) / d = s /\ (s * d + S) mod d = S)%nat.
Proof.
  intros HS. split.
  - rewrite Nat.div_add_l by lia. rewrite Nat.div_small by lia. lia.
  - rewrite Nat.add_comm, Nat.mod_add by lia. apply Nat.mod_small; lia.
Qed.

(* pairwise contraction of two columns = composition of their column operators *)
Theorem pairwise_sem : forall A B v V ws Es,
  hmatch A B -> vchain A -> vchain B -> vok A v -> Vok B V ->
  inr ws (map dwo A) -> inr Es (map deo B) ->
  opc (pairwise A B) (v * hd_dn B + V) ws Es
  = sumt (map deo A) (fun mid => opc A v ws mid * opc B V mid Es).
Proof.
  induction A as [|a A IH]; intros B v V ws Es HM HA HB Hv HV Hws HEs.
  - destruct B; [|contradiction]. cbn. destruct ws, Es; cbn; ring.
  - destruct B as [|b B]; [contradiction|].
    cbn [hmatch] in HM. destruct HM as [Hew HM].
    cbn [vchain] in HA, HB. destruct HA as [HcA HA], HB as [HcB HB].
    destruct ws as [|w ws]; [destruct a; cbn in Hws; contradiction|].
    destruct Es as [|E Es]; [destruct b; cbn in HEs; contradiction|].
    cbn [map inr] in Hws, HEs. destruct Hws as [Hw Hws], HEs as [HE HEs].
    (* the step on the remaining rows, uniformly *)
    assert (Htail : forall s S, vok A s -> (S < dso b)%nat ->
              opc (pairwise A B) (s * dso b + S) ws Es
              = sumt (map deo A) (fun mid => opc A s ws mid * opc B S mid Es)).
    { intros s S Hs HS. destruct B as [|b' B'].
      - destruct A; [|contradiction]. cbn. destruct ws, Es; cbn; ring.
      - rewrite HcB. change (dno b') with (hd_dn (b' :: B')). apply IH; auto.
        cbn. rewrite <- HcB. exact HS. }
    assert (HvokA : forall s, (s < dso a)%nat -> vok A s).
    { intros s Hs. destruct A as [|[a'|] A']; cbn; auto. cbn in HcA. lia. }
    destruct a as [a|], b as [b|]; cbn [pairwise pw_opt map sumt hd_dn dno dso deo dwo vok Vok] in *.
    + (* tensor, tensor *)
      cbn [opc]. cbn [ds pw]. rewrite sumn_merge.
      destruct (decode_idx v V (dn b) HV) as [Hv1 Hv2].
      transitivity (sumn (ds a) (fun s => sumn (ds b) (fun S =>
         sumn (de a) (fun e => val a v e s w * val b V E S e) *
         sumt (map deo A) (fun mid => opc A s ws mid * opc B S mid Es)))).
      { apply sumn_ext; intros s Hs. apply sumn_ext; intros S HS.
        rewrite pw_val. unfold pw_fun. rewrite Hv1, Hv2.
        destruct (decode_idx s S (ds b) HS) as [-> ->]. f_equal.
        apply Htail; auto. }
      symmetry.
      transitivity (sumn (de a) (fun e => sumt (map deo A) (fun mid =>
         sumn (ds a) (fun s => sumn (ds b) (fun S =>
           (val a v e s w * val b V E S e) * (opc A s ws mid * opc B S mid Es)))))).
      { apply sumn_ext; intros e _. apply sumt_ext; intros mid. cbn [opc].
        rewrite <- sumn_mul_r. apply sumn_ext; intros s _. rewrite <- sumn_mul_l. apply sumn_ext; intros S _. ring. }
      transitivity (sumn (de a) (fun e => sumn (ds a) (fun s => sumn (ds b) (fun S =>
         sumt (map deo A) (fun mid => (val a v e s w * val b V E S e) * (opc A s ws mid * opc B S mid Es)))))).
      { apply sumn_ext; intros e _. rewrite sumt_sumn. apply sumn_ext; intros s _. apply sumt_sumn. }
      rewrite sumn_swap. apply sumn_ext; intros s _. rewrite sumn_swap. apply sumn_ext; intros S _.
      rewrite <- sumn_mul_r. apply sumn_ext; intros e _. rewrite sumt_mul_l. reflexivity.
    + (* tensor, empty: the site is copied; its east leg is a dummy *)
      assert (V = O) by lia. assert (E = O) by lia. subst V E.
      rewrite Nat.mul_1_r, Nat.add_0_r. cbn [opc].
      rewrite Hew, sumn_1.
      transitivity (sumn (ds a) (fun s => val a v 0 s w *
                      sumt (map deo A) (fun mid => opc A s ws mid * opc B 0 mid Es))).
      { apply sumn_ext; intros s Hs. f_equal.
        replace s with (s * 1 + 0)%nat at 1 by lia. apply (Htail s O); auto. }
      symmetry.
      transitivity (sumt (map deo A) (fun mid => sumn (ds a) (fun s =>
                      val a v 0 s w * (opc A s ws mid * opc B 0 mid Es)))).
      { apply sumt_ext; intros mid. rewrite <- sumn_mul_r. apply sumn_ext; intros s _. ring. }
      rewrite sumt_sumn. apply sumn_ext; intros s _. apply sumt_mul_l.
    + (* empty, tensor: the site is copied; its west leg is a dummy *)
      assert (v = O) by exact Hv. assert (w = O) by lia. subst v w.
      cbn [Nat.mul Nat.add opc]. rewrite sumn_1.
      transitivity (sumn (ds b) (fun S => val b V E S 0 *
                      sumt (map deo A) (fun mid => opc A 0 ws mid * opc B S mid Es))).
      { apply sumn_ext; intros S HS. f_equal.
        change S with (0 * ds b + S)%nat at 1. apply (Htail O S); [apply HvokA; lia | exact HS]. }
      symmetry.
      transitivity (sumt (map deo A) (fun mid => sumn (ds b) (fun S =>
                      val b V E S 0 * (opc A 0 ws mid * opc B S mid Es)))).
      { apply sumt_ext; intros mid. rewrite <- sumn_mul_l. apply sumn_ext; intros S _. ring. }
      rewrite sumt_sumn. apply sumn_ext; intros S _. apply sumt_mul_l.
    + (* empty, empty *)
      assert (v = O) by exact Hv. assert (V = O) by lia. subst v V.
      cbn [Nat.mul Nat.add opc]. rewrite sumn_1.
      change O with (0 * 1 + 0)%nat at 1. apply (Htail O O); [apply HvokA; lia | lia].
Qed.

(* ---- specification: the exact contraction value --------------------------------------
   [netop cols ws es] = sum over every horizontal bond between consecutive columns (one index
   per row, ranging over the east dimension of the left site) of the product of the column
   operators, each of which is the sum over the column's vertical bonds of the product of its
   entries: i.e. the sum over all assignments of all internal bonds of the product of all
   entries, grouped by distributivity.  Empty sites contribute the factor 1. *)
Fixpoint netop (cols : list col) (ws es : list nat) : K :=
  match cols with
  | [] => 0
  | A :: rest =>
      match rest with
      | [] => opc A O ws es
      | _ => sumt (map deo A) (fun mid => opc A O ws mid * netop rest mid es)
      end
  end.
Definition value (r : nat) (tn : list col) : K := netop tn (repeat O r) (repeat O r).

End Net.

Arguments dn {K}. Arguments de {K}. Arguments ds {K}. Arguments dw {K}. Arguments val {K}.
Arguments mkT {K}.
Arguments value {K}. Arguments netop {K}. Arguments opc {K}. Arguments pw {K}. Arguments pairwise {K}.
