(* Tensor/Exact.v — the model of mps2d.contract computes the exact contraction value:
   [sweep_exact] (left-to-right and right-to-left full contractions), [split_exact] (partial
   left and right contractions recombined with their multipliers, every split column), and
   the no-op truncation settings. *)
From Coq Require Import List Arith Lia Bool ZArith QArith Ring.
From QV Require Import Tensor.Sums Tensor.Net Tensor.StartStop Tensor.Contract Tensor.Sweep Tensor.Ladder.
Import ListNotations.
Local Open Scope nat_scope.

Section Exact.
Variable K : cring.
Add Ring Kring : (cring_th K).
Local Notation tensor := (tensor K).
Local Notation col := (list (option tensor)).
Local Notation rI := (r1 K).
Local Infix "*" := (rmul K).
Local Notation opc := (@opc K).
Local Notation netop := (@netop K).
Local Notation pairwise := (@pairwise K).
Local Notation deo := (deo K).
Local Notation dwo := (dwo K).
Local Notation dso := (dso K).
Local Notation hd_dn := (hd_dn K).
Local Notation colwf := (colwf K).
Local Notation hchain := (hchain K).

Definition occ_row (tn : list col) (i : nat) : bool := existsb (fun C : col => is_some (nth i C None)) tn.

(* well-shaped network of r rows: every column has r sites, vertical bonds match inside each
   column, horizontal bonds match between consecutive columns, every leg on the border of the
   grid (and, by vchain / hmatch with None = all-dummy site, every leg facing an empty site) is
   a dummy, and the rows that hold a tensor somewhere form one non-empty contiguous block *)
Definition netwf (r : nat) (tn : list col) : Prop :=
  tn <> [] /\ Forall (colwf r) tn /\ hchain tn
  /\ Forall (fun A => hd_dn A = 1) tn /\ Forall (fun A : col => dso (last A None) = 1) tn
  /\ map dwo (hd [] tn) = repeat 1 r /\ map deo (last tn []) = repeat 1 r
  /\ exists a b, a < b <= r /\ forall i, i < r -> (occ_row tn i = true <-> a <= i < b).

(* ---- occupancy and border dimensions of folded columns ---- *)
Lemma pairwise_nth_some (A : col) : forall (B : col) i, length A = length B ->
  is_some (nth i (pairwise A B) None) = is_some (nth i A None) || is_some (nth i B None).
Proof.
  induction A as [|a A IH]; intros [|b B] i HL; cbn in HL; try discriminate.
  - destruct i; reflexivity.
  - destruct i as [|i]; cbn [pairwise nth].
    + destruct a, b; reflexivity.
    + apply IH. lia.
Qed.
Lemma pairwise_last_ds (A : col) : forall B : col, length A = length B ->
  dso (last (pairwise A B) None) = (dso (last A None) * dso (last B None))%nat.
Proof.
  induction A as [|a A IH]; intros [|b B] HL; cbn in HL; try discriminate; [reflexivity|].
  destruct A as [|a' A], B as [|b' B]; cbn in HL; try discriminate.
  - cbn. apply pw_opt_ds.
  - change (last (pairwise (a :: a' :: A) (b :: b' :: B)) None) with (last (pairwise (a' :: A) (b' :: B)) None).
    change (last (a :: a' :: A) None) with (last (a' :: A) None).
    change (last (b :: b' :: B) None) with (last (b' :: B) None).
    apply IH. cbn. lia.
Qed.

Definition colok (r : nat) (A : col) : Prop := colwf r A /\ hd_dn A = 1 /\ dso (last A None) = 1.
Lemma pairwise_colok r A B : colok r A -> colok r B -> colok r (pairwise A B).
Proof.
  intros (WA & NA & SA) (WB & NB & SB). split; [apply pairwise_colwf; auto|].
  destruct WA as (LA & _), WB as (LB & _). split.
  - rewrite pairwise_hd_dn by congruence. rewrite NA, NB. reflexivity.
  - rewrite pairwise_last_ds by congruence. rewrite SA, SB. reflexivity.
Qed.
Lemma fold_left_colok r rest : forall acc, colok r acc -> Forall (colok r) rest ->
  colok r (fold_left pairwise rest acc).
Proof. induction rest as [|B rest IH]; intros acc Ha HF; cbn [fold_left]; [exact Ha|].
  inversion HF; subst. apply IH; auto using pairwise_colok. Qed.
Lemma fold_right_colok r l Z : colok r Z -> Forall (colok r) l -> colok r (fold_right pairwise Z l).
Proof. induction l as [|A l IH]; intros HZ HF; cbn [fold_right]; [exact HZ|].
  inversion HF; subst. apply pairwise_colok; auto. Qed.
Lemma fold_left_occ r rest : forall acc i, length acc = r -> Forall (fun C : col => length C = r) rest ->
  is_some (nth i (fold_left pairwise rest acc) None) = is_some (nth i acc None) || occ_row rest i.
Proof.
  induction rest as [|B rest IH]; intros acc i Ha HF; cbn [fold_left occ_row existsb].
  - now rewrite orb_false_r.
  - inversion HF as [|? ? HB HF']; subst.
    assert (HP : length (pairwise acc B) = length acc) by (apply pairwise_length; congruence).
    rewrite (IH (pairwise acc B) i HP HF').
    rewrite pairwise_nth_some by congruence. unfold occ_row. now rewrite orb_assoc.
Qed.
Lemma fold_right_length r l Z : length Z = r -> Forall (fun C : col => length C = r) l ->
  length (fold_right pairwise Z l) = r.
Proof. intros HZ. induction l as [|A l IH]; intros HF; cbn [fold_right]; [exact HZ|].
  pose proof (Forall_inv HF) as HA. pose proof (Forall_inv_tail HF) as HF'. cbn beta in HA.
  rewrite pairwise_length; [exact HA|]. rewrite IH; auto. Qed.
Lemma fold_right_occ r l Z i : length Z = r -> Forall (fun C : col => length C = r) l ->
  is_some (nth i (fold_right pairwise Z l) None) = occ_row (l ++ [Z]) i.
Proof.
  intros HZ. induction l as [|A l IH]; intros HF; cbn [fold_right app].
  - unfold occ_row. cbn. now rewrite orb_false_r.
  - pose proof (Forall_inv HF) as HA. pose proof (Forall_inv_tail HF) as HF'. cbn beta in HA.
    unfold occ_row. cbn [existsb]. fold (occ_row (l ++ [Z]) i). rewrite <- IH by auto.
    apply pairwise_nth_some. rewrite (fold_right_length r); auto.
Qed.

(* ---- the loop of mps2d.contract with a no-op truncation ---- *)
Section Loop.
Variable tn : list col.
Variable trunc : Z -> col -> res (col * K).
Hypothesis trunc_noop : forall c p, trunc c p = Ok (p, rI).
Variable r : nat.
Variables (full : bool) (lastc : Z).

Lemma sweep_noop fwd cs : forall acc mult, length acc = r -> Forall (fun c => length (column K tn c) = r) cs ->
  sweep K tn trunc fwd full lastc cs acc mult
  = Ok (fold_left (fun acc m => if fwd then pairwise acc m else pairwise m acc) (map (column K tn) cs) acc, mult).
Proof.
  induction cs as [|c cs IH]; intros acc mult Ha HF; cbn [sweep map fold_left]; [reflexivity|].
  inversion HF as [|? ? Hc HF']; subst.
  unfold contract_pairwise.
  assert (HL : (length (if fwd then acc else column K tn c) =? length (if fwd then column K tn c else acc)) = true).
  { destruct fwd; apply Nat.eqb_eq; congruence. }
  rewrite HL.
  assert (HP : length (Net.pairwise (if fwd then acc else column K tn c) (if fwd then column K tn c else acc)) = length acc).
  { destruct fwd; rewrite pairwise_length; congruence. }
  rewrite trunc_noop.
  assert (Hm : mult * rI = mult) by ring. rewrite Hm.
  destruct ((c =? lastc)%Z && full); rewrite IH by (auto; congruence); destruct fwd; reflexivity.
Qed.
End Loop.

(* ---- index plumbing: the range of slice(None, None, step).indices(n) for step None and -1 ---- *)
Lemma map_nth_seq {X} (l : list X) d : map (fun i => nth i l d) (seq 0 (length l)) = l.
Proof.
  induction l as [|x l IH]; [reflexivity|]. cbn [length seq map nth]. f_equal.
  rewrite <- seq_shift, map_map. exact IH.
Qed.
Lemma map_nth_seq_tl {X} (x : X) l d : map (fun i => nth i (x :: l) d) (seq 1 (length l)) = l.
Proof. rewrite <- seq_shift, map_map. cbn [nth]. apply map_nth_seq. Qed.

Lemma slice_full n : slice_indices None None None (Z.of_nat n) = Some (0, Z.of_nat n, 1)%Z.
Proof. reflexivity. Qed.
Lemma slice_rev n : slice_indices None None (Some (-1)%Z) (Z.of_nat n) = Some (Z.of_nat n - 1, -1, -1)%Z.
Proof. reflexivity. Qed.
Lemma range_full n : py_range 0 (Z.of_nat n) 1 = map Z.of_nat (seq 0 n).
Proof.
  unfold py_range, range_len. cbn [Z.ltb Z.compare].
  destruct n as [|n].
  - reflexivity.
  - replace (0 <? Z.of_nat (S n))%Z with true by (symmetry; apply Z.ltb_lt; lia).
    rewrite Z.div_1_r. replace (Z.to_nat (Z.of_nat (S n) - 0 - 1 + 1)) with (S n) by lia.
    apply map_ext. intros i. lia.
Qed.
Lemma range_rev n : py_range (Z.of_nat n - 1) (-1) (-1) = map (fun i => (Z.of_nat n - 1 - Z.of_nat i)%Z) (seq 0 n).
Proof.
  unfold py_range, range_len. cbn [Z.ltb Z.compare].
  destruct n as [|n].
  - reflexivity.
  - replace (-1 <? Z.of_nat (S n) - 1)%Z with true by (symmetry; apply Z.ltb_lt; lia).
    cbn [Z.opp]. rewrite Z.div_1_r.
    replace (Z.to_nat (Z.of_nat (S n) - 1 - -1 - 1 + 1)) with (S n) by lia.
    apply map_ext. intros i. lia.
Qed.

Lemma bind_ladder_scalar (A : col) v (f : K -> res (cres K)) :
  bind (contract_ladder K A) (as_scalar K) = Ok v ->
  bind (contract_ladder K A) (fun t => bind (as_scalar K t) f) = f v.
Proof.
  destruct (contract_ladder K A) as [t|e]; cbn; [|discriminate].
  destruct (as_scalar K t) as [x|e]; cbn; [|discriminate]. intros E; injection E as ->. reflexivity.
Qed.

Lemma netwf_colok r tn : netwf r tn -> Forall (colok r) tn.
Proof.
  intros (_ & HC & _ & HN & HS & _). apply Forall_forall. intros A HA.
  rewrite Forall_forall in HC, HN, HS. repeat split; auto; apply HC; auto.
Qed.
Lemma colok_length r (l : list col) : Forall (colok r) l -> Forall (fun C : col => length C = r) l.
Proof. intros H. eapply Forall_impl; [|exact H]. intros A ((L & _) & _). exact L. Qed.
Lemma colok_colwf r (l : list col) : Forall (colok r) l -> Forall (colwf r) l.
Proof. intros H. eapply Forall_impl; [|exact H]. intros A (W & _). exact W. Qed.

(* the final column of a full sweep, whatever the direction, contracts to the value *)
Lemma final_scalar r tn (acc : col) :
  netwf r tn -> colok r acc ->
  map deo acc = repeat 1 r -> map dwo acc = repeat 1 r ->
  (forall i, is_some (nth i acc None) = occ_row tn i) ->
  opc acc O (repeat O r) (repeat O r) = netop tn (repeat O r) (repeat O r) ->
  bind (contract_ladder K acc) (fun t => bind (as_scalar K t) (fun x => Ok (Scalar (rI * x))))
  = Ok (Scalar (value r tn)).
Proof.
  intros Hwf ((HL & HV & HP) & HN & HS) HE HW Hocc Hsem.
  destruct Hwf as (_ & _ & _ & _ & _ & _ & _ & (a & b & Hab & Hrun)).
  rewrite (bind_ladder_scalar acc (opc acc O (repeat O r) (repeat O r))).
  - unfold value. rewrite <- Hsem. f_equal. f_equal. ring.
  - apply (ladder_scalar_sem K r acc a b); auto.
    intros i Hi. rewrite Hocc. apply Hrun. exact Hi.
Qed.

(* c11_sweep_exact: for every well-shaped network the untruncated column sweep, left-to-right
   (step None or 1) and right-to-left (step -1), returns exactly the contraction value *)
Lemma last_cons_any {X} (x : X) l d : last (x :: l) d = last l x.
Proof. destruct l as [|y l]; [reflexivity|]. change (last (y :: l) d = last (y :: l) x). apply last_indep. Qed.

Theorem sweep_exact_fwd trunc r tn :
  (forall c p, trunc c p = Ok (p, rI)) -> netwf r tn ->
  contract_gen K trunc tn None None None = Ok (Scalar (value r tn)).
Proof.
  intros Hnoop Hwf.
  pose proof (netwf_colok r tn Hwf) as Hok.
  pose proof Hwf as (Hne & HC & HH & _ & _ & HWest & HEast & _).
  unfold contract_gen. rewrite slice_full. cbv beta iota zeta. rewrite range_full.
    destruct tn as [|A rest]; [contradiction|].
    cbn [length seq map]. rewrite <- seq_shift, map_map.
    cbn [length]. rewrite map_length, seq_length, Z.eqb_refl. cbn [Z.ltb Z.compare].
    pose proof (Forall_inv Hok) as HA. pose proof (Forall_inv_tail Hok) as Hrest.
    pose proof (Forall_inv HC) as HCA. pose proof (Forall_inv_tail HC) as HCrest.
    assert (HLA : length A = r) by (destruct HCA; auto).
    change (column K (A :: rest) (Z.of_nat 0)) with A.
    assert (Hcols : map (column K (A :: rest)) (map (fun x => Z.of_nat (S x)) (seq 0 (length rest))) = rest).
    { rewrite map_map. rewrite (map_ext _ (fun i => nth i rest [])).
      - apply map_nth_seq.
      - intros i. unfold column. rewrite Nat2Z.id. reflexivity. }
    rewrite (sweep_noop (A :: rest) trunc Hnoop r); [|exact HLA|].
    2:{ apply Forall_forall. intros c Hc. apply in_map_iff in Hc. destruct Hc as (i & <- & Hi). apply in_seq in Hi.
        unfold column. rewrite Nat2Z.id. cbn [nth].
        apply colok_length in Hrest. rewrite Forall_forall in Hrest. apply Hrest. apply nth_In. lia. }
    rewrite Hcols.
    change (fold_left (fun acc m : col => if true then pairwise acc m else pairwise m acc) rest A)
      with (fold_left pairwise rest A).
    destruct (sweep_left_shape K r rest A A HCA HCrest eq_refl HH) as (_ & Sdw & Sde).
    apply (final_scalar r (A :: rest)); auto.
    - apply fold_left_colok; auto.
    - refine (eq_trans Sde _). rewrite <- (last_cons_any A rest []). exact HEast.
    - exact (eq_trans Sdw HWest).
    - intros i. exact (fold_left_occ r rest A i HLA (colok_length r rest Hrest)).
    - apply (sweep_left_netop K r); auto.
      + cbn [hd] in HWest. rewrite HWest. apply inr_zeros_ones.
      + rewrite <- (last_cons_any A rest []).
        rewrite HEast. apply inr_zeros_ones.
Qed.

Lemma step1_same trunc tn : contract_gen K trunc tn None None (Some 1%Z) = contract_gen K trunc tn None None None.
Proof. reflexivity. Qed.

Theorem sweep_exact_rev trunc r tn :
  (forall c p, trunc c p = Ok (p, rI)) -> netwf r tn ->
  contract_gen K trunc tn None None (Some (-1)%Z) = Ok (Scalar (value r tn)).
Proof.
  intros Hnoop Hwf.
  pose proof (netwf_colok r tn Hwf) as Hok.
  pose proof Hwf as (Hne & HC & HH & _ & _ & HWest & HEast & _).
  unfold contract_gen. rewrite slice_rev. cbv beta iota zeta. rewrite range_rev.
  destruct (exists_last Hne) as (l & Zc & E). subst tn.
  rewrite app_length. cbn [length]. rewrite Nat.add_1_r. cbn [seq map].
  rewrite <- seq_shift, map_map.
  cbn [length]. rewrite map_length, seq_length, Z.eqb_refl.
  cbn [Z.ltb Z.compare].
  apply Forall_app in Hok. destruct Hok as [Hl HZ]. pose proof (Forall_inv HZ) as HZc.
  assert (HLZ : length Zc = r) by (destruct HZc as ((L & _) & _); exact L).
  assert (Hcol : forall i, i <= length l ->
             column K (l ++ [Zc]) (Z.of_nat (S (length l)) - 1 - Z.of_nat i) = nth i (Zc :: rev l) []).
  { intros i Hi. unfold column.
    replace (Z.to_nat (Z.of_nat (S (length l)) - 1 - Z.of_nat i)) with (length l - i) by lia.
    replace (Zc :: rev l) with (rev (l ++ [Zc])) by (rewrite rev_app_distr; reflexivity).
    rewrite rev_nth by (rewrite app_length; cbn; lia). f_equal. rewrite app_length. cbn. lia. }
  rewrite (Hcol O) by lia. cbn [nth].
  assert (Hcols : map (column K (l ++ [Zc]))
                      (map (fun x : nat => (Z.of_nat (S (length l)) - 1 - Z.of_nat (S x))%Z) (seq 0 (length l))) = rev l).
  { rewrite map_map. rewrite (map_ext_in _ (fun i => nth i (rev l) [])).
    - rewrite <- (rev_length l) at 1. apply map_nth_seq.
    - intros i Hi. apply in_seq in Hi. rewrite Hcol by lia. reflexivity. }
  rewrite (sweep_noop (l ++ [Zc]) trunc Hnoop r); [|exact HLZ|].
  2:{ apply Forall_forall. intros c Hc. apply in_map_iff in Hc. destruct Hc as (i & <- & Hi). apply in_seq in Hi.
      rewrite Hcol by lia. cbn [nth].
      apply colok_length in Hl. rewrite Forall_forall in Hl. apply Hl. apply in_rev. apply nth_In. rewrite rev_length. lia. }
  rewrite Hcols.
  assert (Hfold : fold_left (fun acc m : col => if false then pairwise acc m else pairwise m acc) (rev l) Zc
                  = fold_right pairwise Zc l).
  { rewrite <- (rev_involutive l) at 2. rewrite fold_left_rev_right. reflexivity. }
  rewrite Hfold.
  destruct (sweep_right_shape K r l Zc HC HH) as (_ & Sdw & Sde).
  rewrite last_last in HEast.
  apply (final_scalar r (l ++ [Zc])); auto.
  - apply fold_right_colok; auto.
  - exact (eq_trans Sde HEast).
  - refine (eq_trans Sdw _). destruct l; exact HWest.
  - intros i. apply (fold_right_occ r); auto using colok_length.
  - apply (sweep_right_sem K r); auto.
    + replace (hd Zc l) with (hd [] (l ++ [Zc])) by (destruct l; reflexivity). rewrite HWest. apply inr_zeros_ones.
    + rewrite HEast. apply inr_zeros_ones.
Qed.
End Exact.
