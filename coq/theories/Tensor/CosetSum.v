(* Tensor/CosetSum.v — the abstract factor-graph form of "the network value is the coset probability" (C10).

   Incidence structure: n qubits, a list [gens] of generators (binary symplectic vectors of length n + n: which
   qubits a generator touches and with which letter), one bond variable per generator ("is this generator
   included").  For a sample f and a single-qubit distribution d, the FLAT SUM over all assignments of the bond
   variables of the product over the qubits of Pr(letter of f * (product of the included generators) at that qubit)
   equals the sum over the sub-lists of generators, which is [coset_prob] of Tensor/Coset.v (and, when the
   generators are independent, the sum over the distinct elements of the stabilizer group, each once:
   Coset.span_nodup).

   The file also provides the finite-sum vocabulary used by the concrete planar network (Tensor/PlanarNet.v):
   products over lists, sums over boolean tuples, and sums over assignments  I -> bool  of a list of variables. *)
From Coq Require Import List Arith Lia Bool ZArith Permutation Ring.
From QV Require Import Core.Bits Core.Span Core.Rank Tensor.Sums Tensor.Coset.
Import ListNotations.
Local Open Scope nat_scope.

(* a tensor index read as a bit *)
Definition nbit (x : nat) : bool := negb (x =? 0).
Lemma nbit_b2n b : nbit (b2n b) = b.
Proof. destruct b; reflexivity. Qed.
Lemma b2n_lt2 b : b2n b < 2.
Proof. destruct b; cbn; lia. Qed.
Lemma b2n_nbit x : x < 2 -> b2n (nbit x) = x.
Proof. intros H. destruct x as [|[|x]]; cbn; lia. Qed.

Lemma nth_xorv q : forall a b, length a = length b -> nth q (xorv a b) false = xorb (nth q a false) (nth q b false).
Proof.
  induction q as [|q IH]; intros [|x a] [|y b] H; cbn in *; try lia; auto.
Qed.
Lemma nth_firstn_lt' {A} (d : A) k : forall l i, i < k -> nth i (firstn k l) d = nth i l d.
Proof. induction k as [|k IH]; intros [|a l] [|i] H; cbn; try lia; auto. apply IH. lia. Qed.
Lemma nth_skipn_add' {A} (d : A) s : forall l i, nth i (skipn s l) d = nth (s + i) l d.
Proof. induction s as [|s IH]; intros [|a l] i; cbn; auto. destruct i; reflexivity. Qed.
Lemma map_nth_seq {A B} (f : A -> B) (d : A) : forall l, map (fun k => f (nth k l d)) (seq 0 (length l)) = map f l.
Proof.
  induction l as [|a l IH]; cbn [length seq map]; [reflexivity|]. f_equal.
  rewrite <- seq_shift, map_map. exact IH.
Qed.

Section CosetSum.
Variable K : cring.
Add Ring Kring : (cring_th K).
Local Notation rO := (r0 K).
Local Notation rI := (r1 K).
Local Infix "+!" := (radd K) (at level 50, left associativity).
Local Infix "*!" := (rmul K) (at level 40, left associativity).
Local Notation sum_list := (sum_list K).
Local Notation dist := (dist K).
Local Notation pick := (pick K).
Local Notation prob := (prob K).
Local Notation prob_xz := (prob_xz K).
Local Notation coset_prob := (coset_prob K).

Lemma sum_list_app a b : sum_list (a ++ b) = sum_list a +! sum_list b.
Proof. unfold Coset.sum_list. induction a as [|x a IH]; cbn [app fold_right]; [ring|]. rewrite IH. ring. Qed.

(* ---- products over lists ---- *)
Definition prodl {A} (l : list A) (phi : A -> K) : K := fold_right (fun a acc => phi a *! acc) rI l.
Lemma prodl_nil {A} (phi : A -> K) : prodl [] phi = rI.
Proof. reflexivity. Qed.
Lemma prodl_cons {A} a (l : list A) phi : prodl (a :: l) phi = phi a *! prodl l phi.
Proof. reflexivity. Qed.
Lemma prodl_app {A} (l1 l2 : list A) phi : prodl (l1 ++ l2) phi = prodl l1 phi *! prodl l2 phi.
Proof. induction l1 as [|a l1 IH]; cbn [app]; rewrite ?prodl_cons, ?prodl_nil; [ring|]. rewrite IH. ring. Qed.
Lemma prodl_ext_in {A} (l : list A) phi psi : (forall a, In a l -> phi a = psi a) -> prodl l phi = prodl l psi.
Proof.
  induction l as [|a l IH]; intros H; [reflexivity|]. rewrite !prodl_cons, IH, (H a); auto.
  - left; reflexivity.
  - intros b Hb. apply H. right. exact Hb.
Qed.
Lemma prodl_map {A B} (f : A -> B) (l : list A) phi : prodl (map f l) phi = prodl l (fun a => phi (f a)).
Proof. induction l as [|a l IH]; [reflexivity|]. cbn [map]. rewrite !prodl_cons, IH. reflexivity. Qed.
Lemma prodl_perm {A} (l l' : list A) phi : Permutation l l' -> prodl l phi = prodl l' phi.
Proof.
  induction 1 as [|x l l' H IH|x y l|l l' l'' H1 IH1 H2 IH2]; rewrite ?prodl_cons.
  - reflexivity.
  - rewrite IH. reflexivity.
  - ring.
  - congruence.
Qed.
Lemma prodl_flat_map {A B} (f : A -> list B) (l : list A) phi :
  prodl (flat_map f l) phi = prodl l (fun a => prodl (f a) phi).
Proof. induction l as [|a l IH]; [reflexivity|]. cbn [flat_map]. rewrite prodl_app, prodl_cons, IH. reflexivity. Qed.

(* ---- sums over boolean tuples ---- *)
Fixpoint sumB (n : nat) (F : list bool -> K) : K :=
  match n with
  | O => F []
  | S n' => sumB n' (fun t => F (false :: t)) +! sumB n' (fun t => F (true :: t))
  end.
Lemma sumB_ext n : forall F G, (forall t, length t = n -> F t = G t) -> sumB n F = sumB n G.
Proof.
  induction n as [|n IH]; intros F G H; cbn [sumB]; [apply H; reflexivity|].
  rewrite (IH (fun t => F (false :: t)) (fun t => G (false :: t))), (IH (fun t => F (true :: t)) (fun t => G (true :: t)));
    auto; intros t Ht; apply H; cbn; lia.
Qed.
Lemma sumB_mul_l n : forall c F, sumB n (fun t => c *! F t) = c *! sumB n F.
Proof. induction n as [|n IH]; intros c F; cbn [sumB]; [reflexivity|]. rewrite !IH. ring. Qed.
(* the tensor-index form: a sum over index tuples with every dimension 2 *)
Lemma sumt_sumB n : forall F : list nat -> K, sumt (repeat 2 n) F = sumB n (fun t => F (map b2n t)).
Proof.
  induction n as [|n IH]; intros F; cbn [repeat sumt sumB map]; [reflexivity|].
  cbn [sumn]. rewrite !IH. cbn [b2n]. ring.
Qed.
Lemma sumB_sumt n (F : list bool -> K) : sumB n F = sumt (repeat 2 n) (fun t => F (map nbit t)).
Proof.
  rewrite sumt_sumB. apply sumB_ext. intros t _. f_equal. rewrite map_map.
  rewrite <- (map_id t) at 1. apply map_ext. intros b. symmetry. apply nbit_b2n.
Qed.

(* ---- sums over assignments of a list of boolean variables indexed by I ---- *)
Section Assign.
Context {I : Type}.
Variable ieqb : I -> I -> bool.
Hypothesis ieqb_eq : forall a b, ieqb a b = true <-> a = b.

Definition upd (q : I) (b : bool) (g : I -> bool) : I -> bool := fun q' => if ieqb q' q then b else g q'.
Lemma upd_same q b g : upd q b g q = b.
Proof. unfold upd. assert (E : ieqb q q = true) by now apply ieqb_eq. now rewrite E. Qed.
Lemma upd_other q b g q' : q' <> q -> upd q b g q' = g q'.
Proof.
  intros H. unfold upd. destruct (ieqb q' q) eqn:E; [|reflexivity]. apply ieqb_eq in E. contradiction.
Qed.

(* [sumA L F g] = sum over the 2^|L| ways of overwriting g on the variables of L of F *)
Fixpoint sumA (L : list I) (F : (I -> bool) -> K) (g : I -> bool) : K :=
  match L with
  | [] => F g
  | q :: L' => sumA L' F (upd q false g) +! sumA L' F (upd q true g)
  end.
Definition extF (F : (I -> bool) -> K) : Prop := forall g g', (forall q, g q = g' q) -> F g = F g'.

(* F is only evaluated at assignments that agree with g outside L *)
Lemma sumA_ext_in L : forall F F' g,
  (forall g1, (forall q, ~ In q L -> g1 q = g q) -> F g1 = F' g1) -> sumA L F g = sumA L F' g.
Proof.
  induction L as [|a L IH]; intros F F' g H; cbn [sumA]; [apply H; reflexivity|].
  rewrite (IH F F' (upd a false g)), (IH F F' (upd a true g)); [reflexivity| |];
    intros g1 Hg; apply H; intros q Hq; (rewrite Hg by (intros Hi; apply Hq; right; exact Hi));
    apply upd_other; intros ->; apply Hq; left; reflexivity.
Qed.
Lemma sumA_base_ext L : forall F g g', extF F -> (forall q, g q = g' q) -> sumA L F g = sumA L F g'.
Proof.
  induction L as [|a L IH]; intros F g g' HF Hg; cbn [sumA]; [apply HF; exact Hg|].
  rewrite (IH F (upd a false g) (upd a false g')), (IH F (upd a true g) (upd a true g')); auto;
    intros q; unfold upd; destruct (ieqb q a); auto.
Qed.
Lemma sumA_app L1 : forall L2 F g, sumA (L1 ++ L2) F g = sumA L1 (fun g1 => sumA L2 F g1) g.
Proof. induction L1 as [|a L1 IH]; intros L2 F g; cbn [app sumA]; [reflexivity|]. rewrite !IH. reflexivity. Qed.
Lemma sumA_mul_l L : forall c F g, sumA L (fun g1 => c *! F g1) g = c *! sumA L F g.
Proof. induction L as [|a L IH]; intros c F g; cbn [sumA]; [reflexivity|]. rewrite !IH. ring. Qed.
Lemma sumA_extF L F : extF F -> extF (sumA L F).
Proof. intros HF g g' Hg. apply sumA_base_ext; assumption. Qed.
(* the order in which the variables are summed is irrelevant *)
Lemma sumA_perm L L' : Permutation L L' -> forall F g, extF F -> sumA L F g = sumA L' F g.
Proof.
  induction 1 as [|x l l' H IH|x y l|l l' l'' H1 IH1 H2 IH2]; intros F g HF.
  - reflexivity.
  - cbn [sumA]. rewrite !IH by exact HF. reflexivity.
  - destruct (ieqb x y) eqn:Exy; [apply ieqb_eq in Exy; subst y; reflexivity|].
    cbn [sumA].
    assert (Hc : forall bx b_y, sumA l F (upd x bx (upd y b_y g)) = sumA l F (upd y b_y (upd x bx g))).
    { intros bx b_y. apply sumA_base_ext; [exact HF|]. intros q. unfold upd.
      destruct (ieqb q x) eqn:E1, (ieqb q y) eqn:E2; try reflexivity.
      apply ieqb_eq in E1, E2. subst. assert (ieqb y y = true) by now apply ieqb_eq. congruence. }
    rewrite !Hc. ring.
  - rewrite IH1 by exact HF. apply IH2. exact HF.
Qed.

(* tuple form: the assignment obtained from a tuple of bits *)
Fixpoint asg (L : list I) (t : list bool) (g : I -> bool) : I -> bool :=
  match L, t with
  | q :: L', b :: t' => asg L' t' (upd q b g)
  | _, _ => g
  end.
Lemma sumA_sumB L : forall F g, sumA L F g = sumB (length L) (fun t => F (asg L t g)).
Proof. induction L as [|a L IH]; intros F g; cbn [sumA length sumB]; [reflexivity|]. rewrite !IH. reflexivity. Qed.
Lemma asg_notin L : forall t g q, ~ In q L -> asg L t g q = g q.
Proof.
  induction L as [|a L IH]; intros [|b t] g q Hq; cbn [asg]; try reflexivity.
  rewrite IH by (intros Hi; apply Hq; right; exact Hi). apply upd_other. intros ->. apply Hq. left. reflexivity.
Qed.
Lemma asg_map L : forall t g, NoDup L -> length t = length L -> map (asg L t g) L = t.
Proof.
  induction L as [|a L IH]; intros [|b t] g Hnd HL; cbn [length] in HL; try discriminate; [reflexivity|].
  inversion Hnd as [|? ? Hn Hnd']; subst. cbn [asg map]. f_equal.
  - rewrite asg_notin by exact Hn. apply upd_same.
  - apply IH; [exact Hnd'|lia].
Qed.
End Assign.

(* ================================================================================================== *)
(** * The abstract factor-graph theorem                                                                *)
(* ================================================================================================== *)

(* the sum over all inclusion tuples of any function of the product of the included generators is the sum of
   that function over the enumeration [span_list] (same multiplicities, no independence needed) *)
Theorem sumB_lincomb_span (X : bsf -> K) len : forall gens,
  sumB (length gens) (fun t => X (lincomb len t gens)) = sum_list (map X (span_list len gens)).
Proof.
  intros gens. revert X. induction gens as [|g gs IH]; intros X; cbn [length sumB span_list].
  - cbn. ring.
  - cbn [lincomb]. rewrite map_app, sum_list_app, map_map. rewrite (IH X), (IH (fun v => X (xorv g v))). reflexivity.
Qed.

(* the probability of a Pauli is the product over the qubits of the probability of its letter there *)
Lemma prob_xz_prodl d : forall xs zs, length xs = length zs ->
  prob_xz d xs zs = prodl (seq 0 (length xs)) (fun q => pick d (nth q xs false) (nth q zs false)).
Proof.
  induction xs as [|x xs IH]; intros [|z zs] HL; cbn [length] in HL; try discriminate; [reflexivity|].
  cbn [Coset.prob_xz length seq]. rewrite prodl_cons. cbn [nth]. f_equal.
  rewrite <- seq_shift, prodl_map. rewrite IH by lia. reflexivity.
Qed.
Theorem prob_factor d n v : length v = n + n ->
  prob d n v = prodl (seq 0 n) (fun q => pick d (nth q v false) (nth (n + q) v false)).
Proof.
  intros HL. unfold Coset.prob.
  assert (L1 : length (firstn n v) = n) by (rewrite firstn_length; lia).
  assert (L2 : length (skipn n v) = n) by (rewrite skipn_length; lia).
  rewrite prob_xz_prodl by congruence. rewrite L1. apply prodl_ext_in. intros q Hq. apply in_seq in Hq.
  rewrite nth_firstn_lt' by lia. rewrite nth_skipn_add'. reflexivity.
Qed.

(* the bit of a product of generators at one position is the XOR of the included generators' bits there *)
Fixpoint lcbit (q : nat) (cs : list bool) (gens : list bsf) : bool :=
  match cs, gens with
  | c :: cs', g :: gens' => xorb (c && nth q g false) (lcbit q cs' gens')
  | _, _ => false
  end.
Lemma nth_zeros' n q : nth q (zeros n) false = false.
Proof. unfold zeros. revert q. induction n as [|n IH]; intros [|q]; cbn; auto. Qed.
Lemma lincomb_nth n q : forall cs gens, Forall (fun g => length g = n) gens ->
  nth q (lincomb n cs gens) false = lcbit q cs gens.
Proof.
  induction cs as [|c cs IH]; intros [|g gens] HF; cbn [lincomb lcbit]; try apply nth_zeros'.
  inversion HF as [|? ? Hg HF']; subst. destruct c; cbn [andb].
  - rewrite nth_xorv by (rewrite lincomb_length; auto). rewrite IH by exact HF'. reflexivity.
  - rewrite IH by exact HF'. symmetry. apply xorb_false_l.
Qed.

(* the local factor of qubit q: the probability of the letter of f * (included generators) at q *)
Definition qubit_factor (d : dist) (n : nat) (gens : list bsf) (f : bsf) (t : list bool) (q : nat) : K :=
  pick d (xorb (nth q f false) (lcbit q t gens)) (xorb (nth (n + q) f false) (lcbit (n + q) t gens)).

Lemma prob_factor_graph d n gens f t : Forall (fun g => length g = n + n) gens -> length f = n + n ->
  prob d n (xorv f (lincomb (n + n) t gens)) = prodl (seq 0 n) (qubit_factor d n gens f t).
Proof.
  intros HF Hf. assert (HLc : length (lincomb (n + n) t gens) = n + n) by (apply lincomb_length; exact HF).
  rewrite prob_factor by (rewrite xorv_length; congruence).
  apply prodl_ext_in. intros q _. unfold qubit_factor.
  rewrite !nth_xorv by congruence. rewrite !lincomb_nth by exact HF. reflexivity.
Qed.

(* ABSTRACT FACTOR-GRAPH FORM of C10.  Left: one flat sum, over all tuples of generator-inclusion bits (tensor
   indices of dimension 2, one per generator), of the product over the qubits of the local factors.  Right: the
   coset probability of Tensor/Coset.v. *)
Theorem factor_graph_value d n gens f : Forall (fun g => length g = n + n) gens -> length f = n + n ->
  sumt (repeat 2 (length gens)) (fun t => prodl (seq 0 n) (qubit_factor d n gens f (map nbit t)))
  = coset_prob d n gens f.
Proof.
  intros HF Hf. unfold Coset.coset_prob.
  rewrite <- (sumB_lincomb_span (fun g => prob d n (xorv f g)) (n + n) gens).
  rewrite sumB_sumt. apply (sumt_ext K). intros t. symmetry. apply prob_factor_graph; assumption.
Qed.
(* the same without unfolding the probability into local factors *)
Theorem coset_prob_as_bond_sum d n gens f :
  sumt (repeat 2 (length gens)) (fun t => prob d n (xorv f (lincomb (n + n) (map nbit t) gens)))
  = coset_prob d n gens f.
Proof.
  unfold Coset.coset_prob. rewrite <- (sumB_lincomb_span (fun g => prob d n (xorv f g)) (n + n) gens).
  rewrite sumB_sumt. reflexivity.
Qed.

(* the coset probability does not depend on the order in which the generators are listed *)
Lemma span_list_perm len gens gens' : Permutation gens gens' -> Permutation (span_list len gens) (span_list len gens').
Proof.
  induction 1 as [|x l l' H IH|x y l|l l' l'' H1 IH1 H2 IH2]; cbn [span_list].
  - apply Permutation_refl.
  - apply Permutation_app; [exact IH|]. apply Permutation_map. exact IH.
  - set (s := span_list len l). rewrite !map_app, !map_map.
    rewrite <- !app_assoc. apply Permutation_app_head.
    rewrite (map_ext (fun v => xorv x (xorv y v)) (fun v => xorv y (xorv x v))).
    + rewrite !app_assoc. apply Permutation_app_tail. apply Permutation_app_comm.
    + intros v. rewrite <- !xorv_assoc. f_equal. apply xorv_comm.
  - eapply Permutation_trans; eassumption.
Qed.
Theorem coset_prob_perm d n gens gens' f : Permutation gens gens' -> coset_prob d n gens f = coset_prob d n gens' f.
Proof.
  intros H. unfold Coset.coset_prob. apply sum_list_perm. apply Permutation_map. apply span_list_perm. exact H.
Qed.

End CosetSum.

(* ---- independence in the sense of Core/Rank.v (no non-trivial vanishing combination) gives independence in the
   sense of Tensor/Coset.v (no generator in the enumerated span of the later ones), so that Coset.span_nodup applies:
   the enumeration then lists every element of the group exactly once ---- *)
Lemma span_list_lincomb len : forall gens v, In v (span_list len gens) ->
  exists cs, length cs = length gens /\ lincomb len cs gens = v.
Proof.
  induction gens as [|g gs IH]; intros v Hv; cbn [span_list] in Hv.
  - destruct Hv as [<-|[]]. exists []. split; reflexivity.
  - apply in_app_or in Hv. destruct Hv as [Hv|Hv].
    + destruct (IH v Hv) as (cs & HL & E). exists (false :: cs). split; [cbn; lia|exact E].
    + apply in_map_iff in Hv. destruct Hv as (u & <- & Hu). destruct (IH u Hu) as (cs & HL & E).
      exists (true :: cs). split; [cbn; lia|]. cbn [lincomb]. rewrite E. reflexivity.
Qed.
Lemma independent_tail n g gs : independent n (g :: gs) -> independent n gs.
Proof.
  intros H cs HL Hz. specialize (H (false :: cs)). cbn [length lincomb zeros repeat] in H.
  specialize (H ltac:(lia) Hz). injection H as H. exact H.
Qed.
Theorem indep_of_independent n : forall gens, rowlen n gens -> independent n gens -> indep n gens.
Proof.
  induction gens as [|g gs IH]; intros HF HI; cbn [indep]; [exact I|].
  inversion HF as [|? ? Hg HF']; subst. split.
  - intros Hin. destruct (span_list_lincomb _ gs g Hin) as (cs & HL & E).
    specialize (HI (true :: cs)). cbn [length lincomb zeros repeat] in HI. rewrite E, xorv_self in HI.
    specialize (HI ltac:(lia) eq_refl). discriminate HI.
  - apply IH; [exact HF'|]. eapply independent_tail. exact HI.
Qed.

Arguments prodl {K A}. Arguments sumB {K}. Arguments sumA {K I}. Arguments upd {I}. Arguments asg {I}. Arguments extF {K I}.

(* non-vacuity: two generators XXXX, ZZZZ on four qubits, numerators 7,1,1,1 *)
Example factor_graph_example :
  let gens := [[true;true;true;true;false;false;false;false]; [false;false;false;false;true;true;true;true]] in
  let f := [true;false;false;false;false;false;false;true] in
  sumt (repeat 2 (length gens)) (fun t => prodl (seq 0 4) (qubit_factor Zring (7, 1, 1, 1)%Z 4 gens f (map nbit t)))
  = coset_prob Zring (7, 1, 1, 1)%Z 4 gens f
  /\ coset_prob Zring (7, 1, 1, 1)%Z 4 gens f = (49 + 7 + 7 + 1)%Z.
Proof. vm_compute. split; reflexivity. Qed.
