(* Tensor/Flat.v — the specification gap of C11 closed: the column-grouped nested sum [value]
   (Tensor/Net.v) equals the flat sum, over ALL bond assignments at once, of the product of ALL
   entries.  The flat index set holds, for every site (i, j), its east index e_ij < deo and its
   south index s_ij < dso (legs on the border of the grid and legs facing an empty site are
   dummies of dimension 1, so their "sums" are trivial); site (i, j) contributes the factor
   T_ij[ s_(i-1)j , e_ij , s_ij , e_i(j-1) ]  (0 at the north and west borders, 1 for an empty site).
   [symval] groups the index set as two matrices; [flatval] is literally one sum over one tuple. *)
From Coq Require Import List Arith Lia Bool ZArith Ring.
From QV Require Import Tensor.Sums Tensor.Net.
Import ListNotations.
Local Open Scope nat_scope.

Section Flat.
Variable K : cring.
Add Ring Kring : (cring_th K).
Local Notation tensor := (tensor K).
Local Notation col := (list (option tensor)).
Local Notation "0" := (r0 K).
Local Notation rI := (r1 K).
Local Infix "+" := (radd K).
Local Infix "*" := (rmul K).
Local Notation opc := (@opc K).
Local Notation netop := (@netop K).
Local Notation deo := (deo K).
Local Notation dso := (dso K).
Local Notation sumn_ext := (sumn_ext K).
Local Notation sumt_ext := (sumt_ext K).
Local Notation sumt_mul_l := (sumt_mul_l K).
Local Notation sumt_mul_r := (sumt_mul_r K).

(* ---- the product of the entries of one column, for given south indices ---- *)
Definition entry (o : option tensor) (n e s w : nat) : K :=
  match o with Some T => val T n e s w | None => rI end.
Fixpoint colprod (A : col) (v : nat) (ss ws es : list nat) : K :=
  match A, ss, ws, es with
  | a :: A', s :: ss', w :: ws', e :: es' => entry a v e s w * colprod A' s ss' ws' es'
  | [], [], [], [] => rI
  | _, _, _, _ => 0
  end.

Lemma colprod_bad_w a A v ss es : colprod (a :: A) v ss [] es = 0.
Proof. destruct ss; reflexivity. Qed.
Lemma colprod_bad_e a A v ss w ws : colprod (a :: A) v ss (w :: ws) [] = 0.
Proof. destruct ss; reflexivity. Qed.

(* the column operator is the sum over the south indices of the product of the column's entries *)
Lemma opc_flat (A : col) : forall v ws es, vchain K A -> vok K A v ->
  opc A v ws es = sumt (map dso A) (fun ss => colprod A v ss ws es).
Proof.
  induction A as [|a A IH]; intros v ws es HV Hv.
  - cbn. destruct ws, es; reflexivity.
  - change (vchain K (a :: A)) with (match A with y :: _ => dso a = dno K y | [] => True end /\ vchain K A) in HV.
    destruct HV as [Hc HV].
    destruct ws as [|w ws].
    { transitivity 0; [destruct a; reflexivity|]. symmetry.
      rewrite (sumt_ext _ _ (fun _ => 0)); [apply sumt_zero|]. intros ss. apply colprod_bad_w. }
    destruct es as [|e es].
    { transitivity 0; [destruct a; reflexivity|]. symmetry.
      rewrite (sumt_ext _ _ (fun _ => 0)); [apply sumt_zero|]. intros ss. apply colprod_bad_e. }
    cbn [map sumt]. destruct a as [T|]; cbn [Net.opc Net.dso colprod entry].
    + apply sumn_ext; intros s Hs. rewrite sumt_mul_l. f_equal. apply IH; [exact HV|].
      destruct A as [|[u|] A']; cbn; auto. cbn in Hc. lia.
    + cbn in Hv. subst v. rewrite (sumn_1 K).
      rewrite (IH O ws es HV) by (destruct A as [|[u|] A']; cbn; auto).
      apply sumt_ext; intros ss. ring.
Qed.

(* ---- sums over matrices of indices (a list of tuples) ---- *)
Fixpoint sumtt (D : list (list nat)) (f : list (list nat) -> K) : K :=
  match D with
  | [] => f []
  | d :: D' => sumt d (fun t => sumtt D' (fun M => f (t :: M)))
  end.
Lemma sumtt_ext D : forall f g, (forall M, f M = g M) -> sumtt D f = sumtt D g.
Proof. induction D as [|d D IH]; intros f g H; cbn; [apply H|]. apply sumt_ext; intros t. apply IH. intros M. apply H. Qed.
Lemma sumtt_mul_l D : forall c f, sumtt D (fun M => c * f M) = c * sumtt D f.
Proof. induction D as [|d D IH]; intros c f; cbn; [reflexivity|]. rewrite <- sumt_mul_l. apply sumt_ext; intros t. apply IH. Qed.
Lemma sumtt_mul_r D : forall c f, sumtt D (fun M => f M * c) = sumtt D f * c.
Proof. induction D as [|d D IH]; intros c f; cbn; [reflexivity|]. rewrite <- sumt_mul_r. apply sumt_ext; intros t. apply IH. Qed.
Lemma sumtt_zero D : sumtt D (fun _ => 0) = 0.
Proof. induction D as [|d D IH]; cbn; [reflexivity|]. rewrite (sumt_ext _ _ (fun _ => 0)); [apply sumt_zero|]. intros; apply IH. Qed.
Lemma sumt_sumtt d D : forall (f : list nat -> list (list nat) -> K),
  sumt d (fun t => sumtt D (fun M => f t M)) = sumtt D (fun M => sumt d (fun t => f t M)).
Proof.
  induction D as [|d' D IH]; intros f; cbn; [reflexivity|].
  rewrite (sumt_swap K). apply sumt_ext; intros t'. apply (IH (fun t M => f t (t' :: M))).
Qed.
Lemma sumtt_swap D1 : forall D2 (f : list (list nat) -> list (list nat) -> K),
  sumtt D1 (fun A => sumtt D2 (fun B => f A B)) = sumtt D2 (fun B => sumtt D1 (fun A => f A B)).
Proof.
  induction D1 as [|d D1 IH]; intros D2 f; cbn; [reflexivity|].
  rewrite <- sumt_sumtt. apply sumt_ext; intros t. apply (IH D2 (fun A B => f (t :: A) B)).
Qed.

(* ---- the product of all entries of the network ---- *)
Fixpoint prodnet (cols : list col) (ws : list nat) (Es Ss : list (list nat)) : K :=
  match cols, Es, Ss with
  | A :: rest, e :: Es', s :: Ss' => colprod A O s ws e * prodnet rest e Es' Ss'
  | [], [], [] => rI
  | _, _, _ => 0
  end.
Definition Edims (cols : list col) : list (list nat) := map (map deo) cols.
Definition Sdims (cols : list col) : list (list nat) := map (map dso) cols.
(* sum over every east index and every south index of the product of every entry *)
Definition symval (cols : list col) (ws : list nat) : K :=
  sumtt (Edims cols) (fun Es => sumtt (Sdims cols) (fun Ss => prodnet cols ws Es Ss)).

Lemma netop_cons2 A B rest ws es :
  netop (A :: B :: rest) ws es = sumt (map deo A) (fun mid => opc A O ws mid * netop (B :: rest) mid es).
Proof. reflexivity. Qed.

Lemma symval_cons2 A B rest ws :
  symval (A :: B :: rest) ws
  = sumt (map deo A) (fun e => sumtt (Edims (B :: rest)) (fun Es' =>
      sumt (map dso A) (fun s => sumtt (Sdims (B :: rest)) (fun Ss' =>
        colprod A O s ws e * prodnet (B :: rest) e Es' Ss')))).
Proof. reflexivity. Qed.

Theorem netop_symval r (cols : list col) : cols <> [] -> Forall (vchain K) cols ->
  length (last cols []) = r -> map deo (last cols []) = repeat 1 r ->
  forall ws, netop cols ws (repeat O r) = symval cols ws.
Proof.
  induction cols as [|A rest IH]; intros Hne HV HL HE ws; [contradiction|].
  pose proof (Forall_inv HV) as HVA. pose proof (Forall_inv_tail HV) as HVr.
  destruct rest as [|B rest].
  - cbn [last] in HL, HE. unfold symval, Edims, Sdims. cbn [map sumtt Net.netop]. rewrite HE.
    rewrite (sumt_ones K). rewrite opc_flat by (auto; destruct A as [|[t|] A']; cbn; auto).
    apply sumt_ext; intros ss. cbn [prodnet]. ring.
  - change (last (A :: B :: rest) []) with (last (B :: rest) []) in HL, HE.
    rewrite netop_cons2, symval_cons2.
    apply sumt_ext; intros mid.
    rewrite (IH ltac:(discriminate) HVr HL HE mid).
    rewrite opc_flat by (auto; destruct A as [|[t|] A']; cbn; auto).
    unfold symval.
    rewrite <- sumtt_mul_l. apply sumtt_ext; intros Es'.
    rewrite <- sumt_mul_r. apply sumt_ext; intros s.
    rewrite <- sumtt_mul_l. reflexivity.
Qed.

(* c11_value_flat, matrix form *)
Theorem value_symval r (tn : list col) : tn <> [] -> Forall (vchain K) tn ->
  length (last tn []) = r -> map deo (last tn []) = repeat 1 r ->
  value r tn = symval tn (repeat O r).
Proof. intros. unfold value. apply netop_symval; assumption. Qed.

(* ---- literally one sum over one tuple of indices ---- *)
Fixpoint chop (lens : list nat) (t : list nat) : list (list nat) :=
  match lens with [] => [] | n :: lens' => firstn n t :: chop lens' (skipn n t) end.
Lemma sumtt_concat D : forall f, sumtt D f = sumt (concat D) (fun t => f (chop (map (@length nat) D) t)).
Proof.
  induction D as [|d D IH]; intros f; cbn [sumtt concat map chop]; [reflexivity|].
  rewrite (sumt_app K). apply (sumt_ext_in K); intros a Ha.
  rewrite IH. apply sumt_ext; intros b.
  pose proof (inr_length a d Ha) as HL.
  rewrite <- HL. rewrite firstn_app, Nat.sub_diag, firstn_all. cbn [firstn]. rewrite app_nil_r.
  rewrite skipn_app, Nat.sub_diag, skipn_all. reflexivity.
Qed.

Definition bond_dims (cols : list col) : list nat := concat (Edims cols) ++ concat (Sdims cols).
Definition split_bonds (cols : list col) (t : list nat) : list (list nat) * list (list nat) :=
  let ne := length (concat (Edims cols)) in
  (chop (map (@length nat) (Edims cols)) (firstn ne t), chop (map (@length nat) (Sdims cols)) (skipn ne t)).
(* the flat value: ONE sum, over the tuple of all east and south indices, of the product of all entries *)
Definition flatval (cols : list col) (ws : list nat) : K :=
  sumt (bond_dims cols) (fun t => let '(Es, Ss) := split_bonds cols t in prodnet cols ws Es Ss).

Theorem symval_flatval cols ws : symval cols ws = flatval cols ws.
Proof.
  unfold symval, flatval, bond_dims, split_bonds. rewrite sumtt_concat. rewrite (sumt_app K).
  apply (sumt_ext_in K); intros a Ha. rewrite sumtt_concat. apply sumt_ext; intros b.
  pose proof (inr_length a _ Ha) as HL. rewrite <- HL.
  rewrite firstn_app, Nat.sub_diag, firstn_all. cbn [firstn]. rewrite app_nil_r.
  rewrite skipn_app, Nat.sub_diag, skipn_all. reflexivity.
Qed.

(* c11_value_flat *)
Theorem value_flat r (tn : list col) : tn <> [] -> Forall (vchain K) tn ->
  length (last tn []) = r -> map deo (last tn []) = repeat 1 r ->
  value r tn = flatval tn (repeat O r).
Proof. intros. rewrite <- symval_flatval. apply value_symval; assumption. Qed.

End Flat.
