(* Tensor/Examples.v — non-vacuity: a concrete 2 x 3 integer network with a padded (None) corner
   satisfies [netwf], and the model's sweeps / split / spec agree on it by computation. *)
From Coq Require Import List Arith Lia Bool ZArith QArith.
From QV Require Import Tensor.Sums Tensor.Net Tensor.StartStop Tensor.Contract Tensor.ContractZ Tensor.Sweep Tensor.Exact.
Import ListNotations.
Local Open Scope nat_scope.

Definition t00 := mk_tensorZ 1 2 2 1 [[[[1%Z];[2%Z]];[[0%Z];[(-1)%Z]]]].
Definition t10 := mk_tensorZ 2 1 1 1 [[[[3%Z]]];[[[5%Z]]]].
Definition t01 := mk_tensorZ 1 2 2 2 [[[[1%Z;0%Z];[2%Z;1%Z]];[[(-2)%Z;1%Z];[0%Z;4%Z]]]].
Definition t11 := mk_tensorZ 2 1 1 1 [[[[7%Z]]];[[[(-1)%Z]]]].
Definition t02 := mk_tensorZ 1 1 1 2 [[[[2%Z;(-3)%Z]]]].
Definition ex_net : list colZ := [[Some t00; Some t10]; [Some t01; Some t11]; [Some t02; None]].

Lemma ex_netwf : netwf Zring 2 ex_net.
Proof.
  unfold netwf, ex_net. split; [discriminate|].
  split. { repeat constructor; cbn; lia. }
  split. { cbn. auto. }
  split. { repeat constructor. }
  split. { repeat constructor. }
  split; [reflexivity|]. split; [reflexivity|].
  exists 0, 2. split; [lia|]. intros i Hi.
  destruct i as [|[|i]]; cbn; split; intros; try lia; reflexivity.
Qed.

Lemma ex_values :
  contractZ ex_net None None None None None None = Ok (@Scalar Zring (valueZ 2 ex_net))
  /\ contractZ ex_net None None None None (Some (-1)%Z) None = Ok (@Scalar Zring (valueZ 2 ex_net))
  /\ split_contractZ ex_net None None None 1%Z = Ok (valueZ 2 ex_net)
  /\ split_contractZ ex_net None None None 2%Z = Ok (valueZ 2 ex_net)
  /\ valueZ 2 ex_net = 731%Z.
Proof. vm_compute. auto. Qed.
