(* Tensor/Noop.v — mps.truncate's no-op guard and its consequences for mps2d.contract: a bond
   limit no smaller than the bonds that occur, a vanishing (None / 0) tolerance, or a mask with
   no True entry leave the result literally unchanged. *)
From Coq Require Import List Arith Lia Bool ZArith QArith Ring.
From QV Require Import Tensor.Sums Tensor.Net Tensor.StartStop Tensor.Contract Tensor.Sweep Tensor.Ladder Tensor.Exact.
Import ListNotations.
Local Open Scope nat_scope.

Section Noop.
Variable K : cring.
Add Ring Kring : (cring_th K).
Local Notation tensor := (tensor K).
Local Notation col := (list (option tensor)).
Local Notation rI := (r1 K).

(* c11_truncate_noop: under the guard, truncate returns its argument and norm 1 *)
Theorem truncate_noop chi tol mask (m : col) :
  would_truncate K chi tol mask m = false -> truncate K chi tol mask m = Ok (m, rI).
Proof. unfold truncate. intros ->. reflexivity. Qed.

(* the guard, case by case (Python: len(mps) and (tol or (chi and chi < bond)) and (mask is None or any(mask))) *)
Lemma guard_unset chi tol mask (m : col) :
  truthyQ tol = false -> truthyZ chi = false -> would_truncate K chi tol mask m = false.
Proof. unfold would_truncate. intros -> ->. cbn. now rewrite andb_false_r. Qed.
Lemma guard_mask chi tol mk (m : col) :
  existsb (fun b : bool => b) mk = false -> would_truncate K chi tol (Some mk) m = false.
Proof. unfold would_truncate. intros ->. now rewrite andb_false_r. Qed.
Lemma guard_chi c tol mask (m : col) :
  truthyQ tol = false -> (Z.of_nat (bond_dimension K m) <= c)%Z -> would_truncate K (Some c) tol mask m = false.
Proof.
  unfold would_truncate. intros -> H.
  replace (c <? Z.of_nat (bond_dimension K m))%Z with false by (symmetry; apply Z.ltb_ge; exact H).
  cbn. now rewrite !andb_false_r.
Qed.
Lemma guard_empty chi tol mask : would_truncate K chi tol mask [] = false.
Proof. reflexivity. Qed.

(* contract depends on the truncation function only through its values *)
Lemma sweep_ext tn t1 t2 fwd full lastc : (forall c p, t1 c p = t2 c p) ->
  forall cs acc mult, sweep K tn t1 fwd full lastc cs acc mult = sweep K tn t2 fwd full lastc cs acc mult.
Proof.
  intros H. induction cs as [|c cs IH]; intros acc mult; cbn [sweep]; [reflexivity|].
  destruct (contract_pairwise K _ _) as [p|e]; [|reflexivity].
  destruct ((c =? lastc)%Z && full); [apply IH|]. rewrite H. destruct (t2 c p) as [[p' nrm]|e]; [apply IH|reflexivity].
Qed.
Lemma contract_gen_ext t1 t2 tn a b s : (forall c p, t1 c p = t2 c p) ->
  contract_gen K t1 tn a b s = contract_gen K t2 tn a b s.
Proof.
  intros H. unfold contract_gen. destruct (slice_indices a b s _) as [[[x y] st]|]; [|reflexivity].
  destruct (py_range x y st) as [|c0 cs]; [reflexivity|]. rewrite (sweep_ext tn t1 t2) by exact H. reflexivity.
Qed.

(* c11_contract_noop_settings (a): tol in {None, 0} and chi in {None, 0}, any mask *)
Theorem contract_noop_unset tn chi tol a b s mask :
  truthyQ tol = false -> truthyZ chi = false ->
  contract K tn chi tol a b s mask = contract K tn None None a b s None.
Proof.
  intros Ht Hc. unfold contract. apply contract_gen_ext. intros c p.
  rewrite !truncate_noop; auto using guard_unset.
Qed.
(* (b): a mask without any True entry, whatever chi and tol *)
Theorem contract_noop_mask tn chi tol a b s mk :
  Forall (fun colmask => existsb (fun b : bool => b) colmask = false) mk ->
  contract K tn chi tol a b s (Some mk) = contract K tn None None a b s None.
Proof.
  intros HF. unfold contract. apply contract_gen_ext. intros c p.
  rewrite (truncate_noop None None) by (apply guard_unset; reflexivity).
  apply truncate_noop. cbn [mask_column option_map]. apply guard_mask.
  destruct (nth_in_or_default (Z.to_nat c) mk []) as [Hin|Hd]; [|rewrite Hd; reflexivity].
  rewrite Forall_forall in HF. apply HF. exact Hin.
Qed.
(* (c): chi no smaller than every bond dimension that is handed to truncate during the sweep *)
Lemma sweep_chi tn c tol mask fwd full lastc : truthyQ tol = false ->
  forall cs acc mult,
  Forall (fun b => (Z.of_nat b <= c)%Z) (sweep_bonds K tn fwd full lastc cs acc) ->
  sweep K tn (fun j p => truncate K (Some c) tol (mask_column mask j) p) fwd full lastc cs acc mult
  = sweep K tn (fun j p => truncate K None None None p) fwd full lastc cs acc mult.
Proof.
  intros Ht. induction cs as [|j cs IH]; intros acc mult HF; cbn [sweep]; [reflexivity|].
  cbn [sweep_bonds] in HF. unfold contract_pairwise.
  destruct (length _ =? length _); [|reflexivity].
  destruct ((j =? lastc)%Z && full).
  - apply IH. exact HF.
  - inversion HF as [|? ? Hb HF']; subst.
    rewrite (truncate_noop (Some c)) by (apply guard_chi; auto).
    rewrite (truncate_noop None None) by (apply guard_unset; reflexivity).
    apply IH. exact HF'.
Qed.
Theorem contract_noop_chi tn c tol a b s mask :
  truthyQ tol = false ->
  Forall (fun bd => (Z.of_nat bd <= c)%Z) (contract_bonds K tn a b s) ->
  contract K tn (Some c) tol a b s mask = contract K tn None None a b s None.
Proof.
  intros Ht HF. unfold contract, contract_gen, contract_bonds in *.
  destruct (slice_indices a b s _) as [[[x y] st]|]; [|reflexivity].
  destruct (py_range x y st) as [|c0 cs]; [reflexivity|].
  rewrite sweep_chi by auto. reflexivity.
Qed.

(* the default settings are a no-op truncation *)
Lemma default_noop : forall (c : Z) (p : col), truncate K None None (mask_column None c) p = Ok (p, rI).
Proof. intros c p. apply truncate_noop. apply guard_unset; reflexivity. Qed.

(* c11_sweep_exact at the level of [contract] *)
Theorem sweep_exact r tn : netwf K r tn ->
  contract K tn None None None None None None = Ok (Scalar (value r tn))
  /\ contract K tn None None None None (Some 1%Z) None = Ok (Scalar (value r tn))
  /\ contract K tn None None None None (Some (-1)%Z) None = Ok (Scalar (value r tn)).
Proof.
  intros Hwf. unfold contract. repeat split.
  - apply sweep_exact_fwd; auto using default_noop.
  - rewrite step1_same. apply sweep_exact_fwd; auto using default_noop.
  - apply sweep_exact_rev; auto using default_noop.
Qed.

End Noop.
