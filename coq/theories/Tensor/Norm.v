(* Tensor/Norm.v — c12_normalised: an MPS/MPO whose sites are left isometries on (n,e,w) -> s, followed
   by a last site of unit Frobenius norm, represents a tensor of unit norm (sum of squares of all
   entries = 1).  Any length, any physical and bond dimensions; generic in the ring. *)
From Coq Require Import List Arith Lia Bool ZArith Ring.
From QV Require Import Tensor.Sums Tensor.Net Tensor.Mps.
Import ListNotations.
Local Open Scope nat_scope.

Section Norm.
Variable K : cring.
Add Ring Kring : (cring_th K).
Local Notation tensor := (tensor K).
Local Notation "0" := (r0 K).
Local Notation rI := (r1 K).
Local Infix "+" := (radd K).
Local Infix "*" := (rmul K).
Local Notation opc := (@opc K).
Local Notation sumn_ext := (sumn_ext K).
Local Notation sumt_ext := (sumt_ext K).
Local Notation sumn_swap := (sumn_swap K).
Local Notation sumt_sumn := (sumt_sumn K).
Local Notation sumn_mul_l := (sumn_mul_l K).
Local Notation sumn_mul_r := (sumn_mul_r K).
Local Notation sumt_mul_l := (sumt_mul_l K).
Local Notation sumt_mul_r := (sumt_mul_r K).

Lemma sumn_prod a b (f g : nat -> K) :
  sumn a f * sumn b g = sumn a (fun i => sumn b (fun j => f i * g j)).
Proof. rewrite <- sumn_mul_r. apply sumn_ext; intros i _. rewrite <- sumn_mul_l. reflexivity. Qed.

(* four nested sums: west index, west tuple, east index, east tuple *)
Definition S4 (dw_ : nat) (D1 : list nat) (de_ : nat) (D2 : list nat) (f : nat -> list nat -> nat -> list nat -> K) : K :=
  sumn dw_ (fun w => sumt D1 (fun ws => sumn de_ (fun e => sumt D2 (fun es => f w ws e es)))).
Lemma S4_ext a D1 b D2 f g : (forall w ws e es, f w ws e es = g w ws e es) -> S4 a D1 b D2 f = S4 a D1 b D2 g.
Proof. intros H. unfold S4. apply sumn_ext; intros w _. apply sumt_ext; intros ws. apply sumn_ext; intros e _.
  apply sumt_ext; intros es. apply H. Qed.
Lemma S4_sumn a D1 b D2 d (g : nat -> nat -> list nat -> nat -> list nat -> K) :
  S4 a D1 b D2 (fun w ws e es => sumn d (fun s => g s w ws e es)) = sumn d (fun s => S4 a D1 b D2 (g s)).
Proof.
  unfold S4.
  transitivity (sumn a (fun w => sumt D1 (fun ws => sumn b (fun e => sumn d (fun s => sumt D2 (fun es => g s w ws e es)))))).
  { apply sumn_ext; intros w _. apply sumt_ext; intros ws. apply sumn_ext; intros e _. apply sumt_sumn. }
  transitivity (sumn a (fun w => sumt D1 (fun ws => sumn d (fun s => sumn b (fun e => sumt D2 (fun es => g s w ws e es)))))).
  { apply sumn_ext; intros w _. apply sumt_ext; intros ws. apply sumn_swap. }
  transitivity (sumn a (fun w => sumn d (fun s => sumt D1 (fun ws => sumn b (fun e => sumt D2 (fun es => g s w ws e es)))))).
  { apply sumn_ext; intros w _. apply sumt_sumn. }
  apply sumn_swap.
Qed.
Lemma S4_factor a D1 b D2 (q : nat -> nat -> K) (r : list nat -> list nat -> K) :
  S4 a D1 b D2 (fun w ws e es => q w e * r ws es)
  = sumn a (fun w => sumn b (fun e => q w e)) * sumt D1 (fun ws => sumt D2 (fun es => r ws es)).
Proof.
  unfold S4. rewrite <- sumn_mul_r. apply sumn_ext; intros w _.
  rewrite <- sumt_mul_l. apply sumt_ext; intros ws.
  rewrite <- sumn_mul_r. apply sumn_ext; intros e _. apply sumt_mul_l.
Qed.

(* Gram form of the state of a chain, with open north indices v, v' *)
Definition gram (A : list tensor) (v v' : nat) : K :=
  sumt (map (@dw K) A) (fun ws => sumt (map (@de K) A) (fun es =>
    opc (map Some A) v ws es * opc (map Some A) v' ws es)).
Definition gram1 (Q : tensor) (v v' s s' : nat) : K :=
  sumn (dw Q) (fun w => sumn (de Q) (fun e => val Q v e s w * val Q v' e s' w)).

Lemma gram_cons Q A v v' :
  gram (Q :: A) v v' = sumn (ds Q) (fun s => sumn (ds Q) (fun s' => gram1 Q v v' s s' * gram A s s')).
Proof.
  unfold gram. cbn [map sumt].
  change (S4 (dw Q) (map (@dw K) A) (de Q) (map (@de K) A)
            (fun w ws e es => opc (Some Q :: map Some A) v (w :: ws) (e :: es) * opc (Some Q :: map Some A) v' (w :: ws) (e :: es))
          = sumn (ds Q) (fun s => sumn (ds Q) (fun s' => gram1 Q v v' s s' *
              sumt (map (@dw K) A) (fun ws => sumt (map (@de K) A) (fun es => opc (map Some A) s ws es * opc (map Some A) s' ws es))))).
  rewrite (S4_ext _ _ _ _ _ (fun w ws e es => sumn (ds Q) (fun s => sumn (ds Q) (fun s' =>
     (val Q v e s w * val Q v' e s' w) * (opc (map Some A) s ws es * opc (map Some A) s' ws es))))).
  2:{ intros w ws e es. cbn [Net.opc]. rewrite sumn_prod. apply sumn_ext; intros s _. apply sumn_ext; intros s' _. ring. }
  rewrite (S4_sumn _ _ _ _ _ (fun s w ws e es => sumn (ds Q) (fun s' =>
     (val Q v e s w * val Q v' e s' w) * (opc (map Some A) s ws es * opc (map Some A) s' ws es)))).
  apply sumn_ext; intros s _.
  rewrite (S4_sumn _ _ _ _ _ (fun s' w ws e es =>
     (val Q v e s w * val Q v' e s' w) * (opc (map Some A) s ws es * opc (map Some A) s' ws es))).
  apply sumn_ext; intros s' _.
  apply (S4_factor _ _ _ _ (fun w e => val Q v e s w * val Q v' e s' w)
                           (fun ws es => opc (map Some A) s ws es * opc (map Some A) s' ws es)).
Qed.

Definition left_isometry (Q : tensor) : Prop :=
  forall s s', s < ds Q -> s' < ds Q ->
    sumn (dn Q) (fun n => sumn (de Q) (fun e => sumn (dw Q) (fun w => val Q n e s w * val Q n e s' w)))
    = if s =? s' then rI else 0.

Lemma sumn_delta d s (f : nat -> K) : s < d -> sumn d (fun s' => (if s =? s' then rI else 0) * f s') = f s.
Proof.
  induction d as [|d IH]; intros Hs; [lia|]. cbn [sumn].
  destruct (Nat.eq_dec s d) as [->|Hne].
  - rewrite Nat.eqb_refl. rewrite (sumn_ext _ _ (fun _ => 0)).
    + rewrite (sumn_zero K). ring.
    + intros i Hi. replace (d =? i) with false by (symmetry; apply Nat.eqb_neq; lia). ring.
  - rewrite IH by lia. replace (s =? d) with false by (symmetry; apply Nat.eqb_neq; lia). ring.
Qed.

(* trace of the Gram form over the incoming bond *)
Definition trace_gram (A : list tensor) (d : nat) : K := sumn d (fun v => gram A v v).

Lemma trace_gram_cons Q A : left_isometry Q ->
  trace_gram (Q :: A) (dn Q) = trace_gram A (ds Q).
Proof.
  intros HI. unfold trace_gram.
  rewrite (sumn_ext _ _ (fun v => sumn (ds Q) (fun s => sumn (ds Q) (fun s' => gram1 Q v v s s' * gram A s s'))))
    by (intros v _; apply gram_cons).
  rewrite sumn_swap. apply sumn_ext; intros s Hs.
  rewrite sumn_swap.
  transitivity (sumn (ds Q) (fun s' => (if s =? s' then rI else 0) * gram A s s')).
  - apply sumn_ext; intros s' Hs'. rewrite (sumn_mul_r (dn Q) (gram A s s') (fun v => gram1 Q v v s s')). f_equal.
    rewrite <- (HI s s' Hs Hs'). unfold gram1.
    apply sumn_ext; intros n _. apply sumn_swap.
  - apply sumn_delta. exact Hs.
Qed.

Lemma trace_gram_last L : ds L = 1 ->
  trace_gram [L] (dn L) = sumn (dn L) (fun n => sumn (de L) (fun e => sumn (dw L) (fun w => val L n e 0 w * val L n e 0 w))).
Proof.
  intros HS. unfold trace_gram, gram. cbn [map sumt Net.opc]. rewrite HS.
  apply sumn_ext; intros n _. rewrite sumn_swap. apply sumn_ext; intros e _. apply sumn_ext; intros w _.
  rewrite !(sumn_1 K). ring.
Qed.

(* c12_normalised *)
Theorem normalised (out : list tensor) : forall (L : tensor),
  chain K (out ++ [L]) -> ds L = 1 -> Forall left_isometry out ->
  sumn (dn L) (fun n => sumn (de L) (fun e => sumn (dw L) (fun w => val L n e 0 w * val L n e 0 w))) = rI ->
  trace_gram (out ++ [L]) (dn (hd L out)) = rI.
Proof.
  induction out as [|Q out IH]; intros L HC HS HF HN.
  - cbn [app hd]. rewrite trace_gram_last by exact HS. exact HN.
  - cbn [app hd]. inversion HF as [|? ? HQ HF']; subst.
    rewrite trace_gram_cons by exact HQ.
    change (chain K (Q :: out ++ [L])) with (match out ++ [L] with U :: _ => dn U = ds Q | [] => True end /\ chain K (out ++ [L])) in HC.
    destruct HC as [HC1 HC].
    assert (Hd : ds Q = dn (hd L out)) by (destruct out; cbn in *; congruence).
    rewrite Hd. apply IH; auto.
Qed.
(* with a dummy incoming bond the trace is the squared norm of the represented tensor *)
Corollary normalised_norm2 (out : list tensor) (L : tensor) :
  chain K (out ++ [L]) -> dn (hd L out) = 1 -> ds L = 1 -> Forall left_isometry out ->
  sumn (dn L) (fun n => sumn (de L) (fun e => sumn (dw L) (fun w => val L n e 0 w * val L n e 0 w))) = rI ->
  gram (out ++ [L]) 0 0 = rI.
Proof.
  intros HC H1 HS HF HN. pose proof (normalised out L HC HS HF HN) as H. rewrite H1 in H.
  unfold trace_gram in H. rewrite (sumn_1 K) in H. exact H.
Qed.

End Norm.
