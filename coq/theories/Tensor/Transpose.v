(* Tensor/Transpose.v — mps2d.transpose: the tensor transpose is an involution, and (proved part
   of c11_transpose) a single-column network and its transpose (a single row) have the same value. *)
From Coq Require Import List Arith Lia Bool ZArith Ring.
From QV Require Import Tensor.Sums Tensor.Net Tensor.StartStop Tensor.Contract Tensor.Exact.
Import ListNotations.
Local Open Scope nat_scope.

Section Transpose.
Variable K : cring.
Add Ring Kring : (cring_th K).
Local Notation tensor := (tensor K).
Local Notation col := (list (option tensor)).
Local Notation rI := (r1 K).
Local Infix "*" := (rmul K).
Local Notation opc := (@opc K).
Local Notation netop := (@netop K).
Local Notation tt := (transpose_tensor K).

(* the transposed single column, as a list of one-site columns *)
Definition single (a : option tensor) : col := [option_map tt a].

Lemma opc_cons_some T (A : col) v w ws e es :
  opc (Some T :: A) v (w :: ws) (e :: es) = sumn (ds T) (fun s => val T v e s w * opc A s ws es).
Proof. reflexivity. Qed.
Lemma opc_cons_none (A : col) v w ws e es : opc (None :: A) v (w :: ws) (e :: es) = opc A v ws es.
Proof. reflexivity. Qed.
Lemma opc_single_none v m : opc (single None) O [v] [m] = rI.
Proof. reflexivity. Qed.
Lemma opc_single_some T v m : de T = 1 -> opc (single (Some T)) O [v] [m] = val T v O m O.
Proof. intros H. unfold single. cbn [option_map Net.opc ds transpose_tensor val]. rewrite H, (sumn_1 K). ring. Qed.

Lemma transpose_tensor_involutive t : tt (tt t) = t.
Proof. destruct t; reflexivity. Qed.

Lemma transpose_single_column (A : col) : transpose_net K (length A) [A] = map single A.
Proof.
  unfold transpose_net.
  transitivity (map single (map (fun i => nth i A None) (seq 0 (length A)))).
  - rewrite map_map. reflexivity.
  - rewrite map_nth_seq. reflexivity.
Qed.

(* every horizontal leg of the column is a dummy *)
Definition hdummy (A : col) : Prop := Forall (fun a => deo K a = 1 /\ dwo K a = 1) A.

Lemma single_column_sem (A : col) : forall v, A <> [] -> hdummy A -> vchain K A -> dso K (last A None) = 1 -> vok K A v ->
  netop (map single A) [v] [O] = opc A v (repeat O (length A)) (repeat O (length A)).
Proof.
  induction A as [|a A IH]; intros v Hne HD HV HS Hv; [contradiction|].
  pose proof (Forall_inv HD) as [Hde Hdw]. pose proof (Forall_inv_tail HD) as HD'.
  destruct A as [|b A].
  - cbn [map Net.netop length repeat]. destruct a as [t|]; cbn [single option_map Net.opc].
    + cbn in Hde, HS. cbn [ds transpose_tensor val]. rewrite Hde, HS, !(sumn_1 K). reflexivity.
    + reflexivity.
  - change (map single (a :: b :: A)) with (single a :: single b :: map single A).
    rewrite Sweep.netop_cons. cbn [length repeat].
    change (vchain K (a :: b :: A)) with (dso K a = dno K b /\ vchain K (b :: A)) in HV. destruct HV as [Hab HV].
    change (last (a :: b :: A) None) with (last (b :: A) None) in HS.
    destruct a as [t|]; cbn [single option_map map deo sumt].
    + change (de (tt t)) with (ds t). cbn [dso] in Hab. cbn in Hde.
      rewrite (opc_cons_some t (b :: A)).
      apply (sumn_ext K); intros m Hm. rewrite opc_single_some by exact Hde.
      change (single b :: map single A) with (map single (b :: A)).
      rewrite (IH m); auto; [discriminate|].
      destruct b as [u|]; cbn; [exact I|]. cbn in Hab. lia.
    + rewrite (sumn_1 K). cbn in Hv. subst v. rewrite opc_single_none, opc_cons_none.
      change (single b :: map single A) with (map single (b :: A)).
      rewrite (IH O); auto; [cbn [length repeat]; ring|discriminate|]. destruct b; cbn; auto.
Qed.

(* c11_transpose, single-column case: a well-shaped r x 1 network and its 1 x r transpose have the same value *)
Theorem transpose_single_column_value (A : col) :
  A <> [] -> hdummy A -> vchain K A -> hd_dn K A = 1 -> dso K (last A None) = 1 ->
  value 1 (transpose_net K (length A) [A]) = value (length A) [A].
Proof.
  intros Hne HD HV HN HS. unfold value. rewrite transpose_single_column.
  cbn [repeat Net.netop]. apply single_column_sem; auto. destruct A as [|[t|] A]; cbn; auto.
Qed.

End Transpose.
