(* Tensor/Sums.v — commutative rings as a record, finite sums over nat indices and over
   index tuples.  Everything downstream (Net, Contract, Sweep) is generic in the ring, so the
   theorems hold for Z, Qc, and Coq's R alike; the extracted engine runs the Z instance. *)
From Coq Require Import List Arith Lia Ring ZArith.
Import ListNotations.

Record cring := mkCring {
  car :> Type;
  r0 : car; r1 : car;
  radd : car -> car -> car; rmul : car -> car -> car; rsub : car -> car -> car; ropp : car -> car;
  cring_th : ring_theory r0 r1 radd rmul rsub ropp (@eq car) }.

Definition Zring : cring := mkCring Z 0%Z 1%Z Z.add Z.mul Z.sub Z.opp Zth.

Section Sums.
Variable K : cring.
Add Ring Kring : (cring_th K).
Local Notation "0" := (r0 K).
Local Notation "1" := (r1 K).
Local Infix "+" := (radd K).
Local Infix "*" := (rmul K).

(* sum_{i<d} f i *)
Fixpoint sumn (d : nat) (f : nat -> K) : K :=
  match d with O => 0 | S d' => sumn d' f + f d' end.

Lemma sumn_ext d f g : (forall i, (i < d)%nat -> f i = g i) -> sumn d f = sumn d g.
Proof. induction d as [|d IH]; intros H; cbn; [reflexivity|]. rewrite IH, H; auto. Qed.
Lemma sumn_add d f g : sumn d (fun i => f i + g i) = sumn d f + sumn d g.
Proof. induction d as [|d IH]; cbn; [ring|]. rewrite IH. ring. Qed.
Lemma sumn_mul_l d c f : sumn d (fun i => c * f i) = c * sumn d f.
Proof. induction d as [|d IH]; cbn; [ring|]. rewrite IH. ring. Qed.
Lemma sumn_mul_r d c f : sumn d (fun i => f i * c) = sumn d f * c.
Proof. induction d as [|d IH]; cbn; [ring|]. rewrite IH. ring. Qed.
Lemma sumn_zero d : sumn d (fun _ => 0) = 0.
Proof. induction d as [|d IH]; cbn; [reflexivity|]. rewrite IH. ring. Qed.
Lemma sumn_swap a b (f : nat -> nat -> K) :
  sumn a (fun i => sumn b (fun j => f i j)) = sumn b (fun j => sumn a (fun i => f i j)).
Proof. induction a as [|a IH]; cbn. - now rewrite sumn_zero. - rewrite IH, <- sumn_add. reflexivity. Qed.
Lemma sumn_1 f : sumn 1 f = f O.
Proof. cbn. ring. Qed.

(* merged index (i, j) |-> i * b + j *)
Lemma sumn_merge a b (f : nat -> K) :
  sumn (a * b) f = sumn a (fun i => sumn b (fun j => f (i * b + j)%nat)).
Proof.
  induction a as [|a IH]; cbn [sumn Nat.mul]; [reflexivity|].
  rewrite <- IH. clear IH.
  replace (b + a * b)%nat with (a * b + b)%nat by lia.
  generalize (a * b)%nat as m. intros m.
  induction b as [|b IHb]; cbn [sumn].
  - rewrite Nat.add_0_r. ring.
  - replace (m + S b)%nat with (S (m + b)) by lia. cbn [sumn]. rewrite IHb. ring.
Qed.

(* sums over index tuples t with t_k < dims_k *)
Fixpoint sumt (dims : list nat) (f : list nat -> K) : K :=
  match dims with [] => f [] | d :: ds' => sumn d (fun i => sumt ds' (fun t => f (i :: t))) end.

(* t is a tuple in range for dims *)
Fixpoint inr (t dims : list nat) : Prop :=
  match t, dims with
  | [], [] => True
  | i :: t', d :: dims' => (i < d)%nat /\ inr t' dims'
  | _, _ => False
  end.

Lemma sumt_ext_in dims f g : (forall t, inr t dims -> f t = g t) -> sumt dims f = sumt dims g.
Proof.
  revert f g; induction dims as [|d dims IH]; intros f g H; cbn; [apply H; exact I|].
  apply sumn_ext; intros i Hi. apply IH; intros t Ht; apply H. cbn. auto.
Qed.
Lemma sumt_ext dims f g : (forall t, f t = g t) -> sumt dims f = sumt dims g.
Proof. intros H. apply sumt_ext_in. auto. Qed.
Lemma sumt_zero dims : sumt dims (fun _ => 0) = 0.
Proof. induction dims as [|d dims IH]; cbn; [reflexivity|]. rewrite (sumn_ext _ _ (fun _ => 0)); [apply sumn_zero|]. intros; apply IH. Qed.
Lemma sumt_mul_l dims c f : sumt dims (fun t => c * f t) = c * sumt dims f.
Proof. revert f; induction dims as [|d dims IH]; intros f; cbn; [reflexivity|].
  rewrite <- sumn_mul_l. apply sumn_ext; intros i _. apply IH. Qed.
Lemma sumt_mul_r dims c f : sumt dims (fun t => f t * c) = sumt dims f * c.
Proof. revert f; induction dims as [|d dims IH]; intros f; cbn; [reflexivity|].
  rewrite <- sumn_mul_r. apply sumn_ext; intros i _. apply IH. Qed.
Lemma sumt_add dims f g : sumt dims (fun t => f t + g t) = sumt dims f + sumt dims g.
Proof. revert f g; induction dims as [|d dims IH]; intros f g; cbn; [reflexivity|].
  rewrite <- sumn_add. apply sumn_ext; intros i _. apply IH. Qed.
Lemma sumt_sumn dims d (f : nat -> list nat -> K) :
  sumt dims (fun t => sumn d (fun i => f i t)) = sumn d (fun i => sumt dims (fun t => f i t)).
Proof. revert f; induction dims as [|k dims IH]; intros f; cbn; [reflexivity|].
  rewrite sumn_swap. apply sumn_ext; intros i _.
  rewrite <- (IH (fun i0 t => f i0 (_ :: t))). reflexivity. Qed.
Lemma sumt_swap d1 d2 (f : list nat -> list nat -> K) :
  sumt d1 (fun a => sumt d2 (fun b => f a b)) = sumt d2 (fun b => sumt d1 (fun a => f a b)).
Proof.
  revert f; induction d1 as [|k d1 IH]; intros f; cbn; [reflexivity|].
  rewrite (sumt_sumn d2 k (fun i b => sumt d1 (fun a => f (i :: a) b))).
  apply sumn_ext; intros i _. apply (IH (fun a b => f (i :: a) b)).
Qed.
(* all-ones dims: the only tuple is all zeros *)
Lemma sumt_ones n f : sumt (repeat 1%nat n) f = f (repeat O n).
Proof. revert f; induction n as [|n IH]; intros f; cbn; [reflexivity|]. rewrite IH. ring. Qed.
(* sums over a concatenation of dims *)
Lemma sumt_app d1 d2 f : sumt (d1 ++ d2) f = sumt d1 (fun a => sumt d2 (fun b => f (a ++ b))).
Proof.
  revert f; induction d1 as [|k d1 IH]; intros f; cbn; [reflexivity|].
  apply sumn_ext; intros i _. apply IH.
Qed.

Lemma inr_length t dims : inr t dims -> length t = length dims.
Proof. revert dims; induction t as [|i t IH]; intros [|d dims] H; cbn in *; try contradiction; auto. destruct H. f_equal; auto. Qed.
Lemma inr_ones t n : inr t (repeat 1%nat n) -> t = repeat O n.
Proof. revert t; induction n as [|n IH]; intros [|i t] H; cbn in *; try contradiction; auto.
  destruct H as [Hi H]. f_equal; [lia|auto]. Qed.
Lemma inr_zeros_ones n : inr (repeat O n) (repeat 1%nat n).
Proof. induction n; cbn; auto. Qed.

End Sums.

Arguments sumn {K}. Arguments sumt {K}.
